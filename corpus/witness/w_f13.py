import os, time, sys
os.environ['TZ']='America/Godthab'; time.tzset()
from whenever import SystemDateTime, Time, Date
from eascheduler.helpers import TimeReplacer
from eascheduler.producers.prod_time import TimeProducer
r = TimeReplacer(Time(23,30), 'after', 'skip').replace(Date(2024,3,30)); print('after ->', r)
a = (r.month, r.day, r.hour, r.minute) == (3,31,0,0)
p = TimeProducer(TimeReplacer(Time(23,30), 'later', 'skip'))
n = p.get_next(SystemDateTime(2024,3,31,0,10).instant()).to_system_tz(); print('later from 00:10 ->', n)
b = (n.day, n.hour, n.minute) == (31,0,30)
print('F13a', a, 'F13b', b); sys.exit(0 if (a if sys.argv[1]=='a' else b) else 1)
