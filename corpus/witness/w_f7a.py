import os, time, signal
os.environ['TZ']='Europe/Berlin'; time.tzset()
from whenever import SystemDateTime, patch_current_time
from eascheduler.builder import TriggerBuilder as T, FilterBuilder as F
from eascheduler.errors import InfiniteLoopDetectedError
def sysi(*a): return SystemDateTime(*a).instant()
def alarm(*a): raise SystemExit('TIMEOUT: never returns')
signal.signal(signal.SIGALRM, alarm); signal.alarm(20)
with patch_current_time(sysi(2024,1,1,0,0), keep_ticking=False):
    p = T.interval(sysi(2024,1,1,0,0), 3600).only_on(F.all(F.weekdays('Mon'), F.weekdays('Tue')))._producer
    try: p.get_next(sysi(2024,1,1,0,0)); raise SystemExit('returned?')
    except InfiniteLoopDetectedError: print('InfiniteLoopDetectedError ok')
    p = T.interval(sysi(2024,1,1,0,0), 3600).only_on(F.weekdays('Wed'))._producer
    print(p.get_next(sysi(2024,1,1,0,30)).to_system_tz())
