import os, time, asyncio, sys
os.environ['TZ']='UTC'; time.tzset()
sys.path.insert(0,'/root/scratch_eas/exp')
from vloop import *
from eascheduler.builder import JobBuilder, TriggerBuilder as T
from eascheduler.builder.triggers import TriggerObject
from eascheduler.executor import SyncExecutor
from eascheduler.schedulers.async_scheduler import AsyncScheduler
from eascheduler.errors import handler
import eascheduler.producers.prod_interval as pi
excs=[]; handler._EXCEPTION_HANDLER = lambda e: excs.append(e)
class Boom(pi.IntervalProducer):
    __slots__=('n',)
    def copy(self):
        c = Boom(self._next, self._interval); c.n = 0; return c
    def get_next(self, dt):
        r = super().get_next(dt); self.n += 1
        if self.n == 3: raise RuntimeError('boom')
        return r
async def main(loop):
    log=[]
    s = AsyncScheduler(); b = JobBuilder(s, SyncExecutor)
    p = Boom(None, 10); p.n = 0
    j = b.at(TriggerObject(p), lambda: log.append(loop.vns//10**9))
    o = b.at(T.interval(None, 7), lambda: log.append(('o', loop.vns//10**9)))
    await asyncio.sleep(45)
    print(log, [repr(e) for e in excs], j.status, o.status)
    mine=[x for x in log if not isinstance(x, tuple)]
    assert len(mine)==len(set(mine)), mine
run(main)
