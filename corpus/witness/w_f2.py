import os, time, asyncio, sys
os.environ['TZ']='UTC'; time.tzset()
sys.path.insert(0,'/root/scratch_eas/exp')
from vloop import *
from eascheduler.builder import JobBuilder
from eascheduler.executor import AsyncExecutor
from eascheduler.schedulers.async_scheduler import AsyncScheduler
from eascheduler.job_stores.memory import InMemoryStore
async def main(loop):
    log=[]
    s = AsyncScheduler(); store = InMemoryStore(); b = JobBuilder(s, AsyncExecutor, store)
    async def cb(name): log.append(name)
    b.once(1, cb, 'first', job_id='x')
    try: b.once(2, cb, 'dup', job_id='x'); raise SystemExit('no KeyError')
    except KeyError: pass
    await asyncio.sleep(5)
    print('F2', log, len(store), len(s.jobs)); assert log == ['first'], log
    c = b.once(None, cb, 'now'); await asyncio.sleep(1)
    print('F10', c.status, len(store), log); assert len(store) == 0 and log[-1]=='now'
    try: b.once(-5, cb, 'past', job_id='p'); raise SystemExit('no err')
    except Exception as e: print(type(e).__name__)
    print(len(store), len(s.jobs)); assert len(store)==0 and len(s.jobs)==0
run(main)
