import os, time
os.environ['TZ']='Europe/Berlin'; time.tzset()
from whenever import SystemDateTime, patch_current_time
from eascheduler.builder import TriggerBuilder as T, FilterBuilder as F
def sysi(*a): return SystemDateTime(*a).instant()
with patch_current_time(sysi(2024,1,1,0,0), keep_ticking=False):
    g = T.group(T.interval(sysi(2024,1,1,0,0), 3600), T.time('12:00:00')).only_on(F.time(lower='10:30:00'))
    r = g._producer.get_next(sysi(2024,1,1,9,30)).to_system_tz()
    print(r); assert (r.hour, r.minute) == (11, 0), r
