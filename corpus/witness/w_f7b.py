import os, time, signal
os.environ['TZ']='UTC'; time.tzset()
from whenever import Instant
from eascheduler.builder import TriggerBuilder as T
from eascheduler.errors import InfiniteLoopDetectedError
import eascheduler.producers.prod_sun as ps
def alarm(*a): raise SystemExit('TIMEOUT: no return within 60 s')
signal.signal(signal.SIGALRM, alarm)
ps.set_location(-33.9, 151.2)
for az in (90, 0.5):
    signal.alarm(60); t=time.time()
    try: r = T.sun_azimuth(az)._producer.get_next(Instant.from_utc(2024,1,1)); print(az, r)
    except InfiniteLoopDetectedError: print(az, 'InfiniteLoopDetectedError', round(time.time()-t,1))
    signal.alarm(0)
ps.set_location(52.5, 13.4)
print(T.sun_azimuth(180)._producer.get_next(Instant.from_utc(2024,1,1)))
