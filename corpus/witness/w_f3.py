import os, time
os.environ['TZ']='Europe/Berlin'; time.tzset()
from whenever import SystemDateTime, patch_current_time
from eascheduler.builder.helper import get_instant
def sysi(*a): return SystemDateTime(*a).instant()
with patch_current_time(sysi(2024,3,30,12,0), keep_ticking=False):
    r = get_instant('08:00:00').to_system_tz(); print(r); assert (r.day, r.hour)==(31,8)
with patch_current_time(sysi(2024,10,26,12,0), keep_ticking=False):
    r = get_instant('08:00:00').to_system_tz(); print(r); assert (r.day, r.hour)==(27,8)
