import os, time
os.environ['TZ']='Europe/Berlin'; time.tzset()
from whenever import SystemDateTime, patch_current_time
from eascheduler.builder import TriggerBuilder as T, FilterBuilder as F
def sysi(*a): return SystemDateTime(*a).instant()
with patch_current_time(sysi(2024,1,1,0,0), keep_ticking=False):
    t = T.time('10:00:00')
    before = t._producer.get_next(sysi(2024,1,2,11,0))
    t2 = t.only_on(F.weekdays('Mon'))
    after = t._producer.get_next(sysi(2024,1,2,11,0))
    print(t is t2, before.to_system_tz(), after.to_system_tz(), t2._producer.get_next(sysi(2024,1,2,11,0)).to_system_tz())
    assert before == after and t is not t2
