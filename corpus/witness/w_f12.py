import os, time
os.environ['TZ']='UTC'; time.tzset()
from whenever import Instant
from eascheduler.builder import TriggerBuilder as T
import eascheduler.producers.prod_sun as ps
dt = Instant.from_utc(2024,6,1)
hits=0
for trial in range(50):
    ps.SUN_CACHE.clear()
    ps.set_location(52.5, 13.4)
    a = T.sunrise()._producer.get_next(dt)
    ida = id(ps.OBSERVER)
    ps.set_location(10.0, 100.0)
    ps.set_location(-33.9, 151.2)
    idc = id(ps.OBSERVER)
    c = T.sunrise()._producer.get_next(dt)
    ps.SUN_CACHE.clear()
    c2 = T.sunrise()._producer.get_next(dt)
    if c != c2:
        hits+=1
        if hits==1: print('STALE: loc3 got', c, 'fresh', c2, 'loc1 was', a, ida==idc)
print('stale hits', hits, '/50')
