#!/bin/bash
# tools/try_mutant.sh <patch.diff> <property> [<property> ...]  — apply a seeded change to /repo, run the quick
# checks, undo the change straight afterwards. Never leaves /repo modified.
patch="$1"; shift
cd /repo || exit 2
if ! git diff --quiet; then echo "/repo is dirty, refusing"; exit 2; fi
git apply "$patch" || { echo "patch does not apply"; exit 2; }
trap 'git -C /repo checkout -- . ' EXIT TERM INT HUP
for p in "$@"; do
  out=$(/verif/bin/vcheck "$p" ${TIER:-quick} 2>&1); rc=$?
  echo "== $p rc=$rc"; echo "$out" | grep -E "VIOLATION|KNOWN|^\s+\[" | head -6
done
