#!/usr/bin/env python3
"""tools/rerun_seeded.py [names...] : re-run, for every seeded change, the quick check of the property it breaks (change
applied to /repo and undone straight afterwards) and refresh seeded/<name>/meta.json['checks']"""
import json, os, re, subprocess, sys, glob
names = sys.argv[1:] or sorted(os.path.basename(os.path.dirname(p)) for p in glob.glob('/verif/seeded/*/meta.json'))
summary = []
for name in names:
    d = f'/verif/seeded/{name}'
    meta = json.load(open(f'{d}/meta.json'))
    pids = [meta['breaks_property']]
    if name == 'mutantC16_1':
        pids = ['C10', 'C02']
    res = subprocess.run(['/verif/tools/try_mutant.sh', f'{d}/patch.diff', *pids], capture_output=True, text=True).stdout
    for blk in res.split('== ')[1:]:
        pid = blk.split()[0]
        rc = int(re.search(r'rc=(\d+)', blk).group(1))
        line = next((l for l in blk.split('\n') if l.startswith('VIOLATION')), '')
        meta['checks'][pid] = {'rc': rc, 'line': line}
        summary.append((name, pid, rc, 'no-failing-input-found' in line))
    json.dump(meta, open(f'{d}/meta.json', 'w'), indent=1)
    print(name, [(s[1], s[2]) for s in summary if s[0] == name], flush=True)
missed = [s for s in summary if s[2] != 1]
print('missed:', missed)
print('without failing input:', [s for s in summary if s[3]])
