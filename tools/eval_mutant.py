#!/usr/bin/env python3
"""tools/eval_mutant.py <worktree> <mutant dir> <breaks-property> <check ids...>
confirm a seeded change in its scratch worktree, run the quick checks against it (applied to /repo and undone
straight afterwards) and file it under /verif/seeded/<name>/"""
import json, os, re, shutil, subprocess, sys
wt, m, breaks, *checks = sys.argv[1:]
name = os.path.basename(m.rstrip('/'))
conf = subprocess.run(['/verif/tools/confirm_mutant.sh', wt, m], capture_output=True, text=True).stdout.strip()
print(name, '|', conf)
mm = re.search(r'clean rc=(\d+) mutated rc=(\d+)', conf)
ok = bool(mm) and mm.group(1) == '0' and mm.group(2) != '0' and 'failed' not in conf.split('tests:')[1].split('|')[0]
res = subprocess.run(['/verif/tools/try_mutant.sh', f'{m}/patch.diff', *checks], capture_output=True, text=True).stdout
print(res)
caught = {}
for blk in res.split('== ')[1:]:
    pid = blk.split()[0]
    rc = int(re.search(r'rc=(\d+)', blk).group(1))
    caught[pid] = {'rc': rc, 'line': next((l for l in blk.split('\n') if l.startswith('VIOLATION')), '')}
dst = f'/verif/seeded/{name}'
os.makedirs(dst, exist_ok=True)
for f in ('patch.diff', 'demo.py', 'README.md'):
    if os.path.exists(f'{m}/{f}'):
        shutil.copy(f'{m}/{f}', dst)
readme = open(f'{m}/README.md').read() if os.path.exists(f'{m}/README.md') else ''
json.dump({'breaks_property': breaks, 'source': 'independent sub-agent given only the property text and a scratch worktree',
           'needs_to_manifest': readme[:1500], 'confirmed': conf, 'confirmed_ok': ok,
           'what_i_ran': f'tools/confirm_mutant.sh (suite under TZ= and TZ=Europe/Berlin with the change; demo with/without); '
                         f'tools/try_mutant.sh patch.diff {" ".join(checks)} (quick tier, VERIF_SEED default)',
           'checks': caught}, open(f'{dst}/meta.json', 'w'), indent=1)
