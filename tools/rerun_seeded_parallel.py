#!/usr/bin/env python3
"""tools/rerun_seeded_parallel.py [-j N] [names...] : re-run, for every seeded change, the quick check of the property it
breaks — in N private copies of /verif, each against its own scratch worktree of /repo (VERIF_REPO), so that /repo itself is
never touched — and refresh seeded/<name>/meta.json['checks']. The copies and worktrees are removed afterwards."""
import glob, json, os, re, shutil, subprocess, sys
from concurrent.futures import ThreadPoolExecutor
from queue import Queue

args = sys.argv[1:]
jobs = 3
if args[:1] == ['-j']:
    jobs = int(args[1]); args = args[2:]
names = args or sorted(os.path.basename(os.path.dirname(p)) for p in glob.glob('/verif/seeded/*/meta.json'))
slots: Queue = Queue()
for k in range(jobs):
    v, r = f'/tmp/vpar_{k}', f'/tmp/rpar_{k}'
    subprocess.run(['git', '-C', '/repo', 'worktree', 'remove', '--force', r], capture_output=True)
    shutil.rmtree(v, ignore_errors=True)
    subprocess.run(['rsync', '-a', '--exclude', '.git', '/verif/', v + '/'], check=True)
    subprocess.run(['git', '-C', '/repo', 'worktree', 'add', '-q', '--detach', r, 'HEAD'], check=True)
    slots.put((v, r))


def one(name: str):
    meta = json.load(open(f'/verif/seeded/{name}/meta.json'))
    pids = [meta['breaks_property']] if name != 'mutantC16_1' else ['C10', 'C02']
    v, r = slots.get()
    out = {}
    try:
        subprocess.run(['git', '-C', r, 'checkout', '-q', '--', '.'], check=True)
        ap = subprocess.run(['git', '-C', r, 'apply', f'/verif/seeded/{name}/patch.diff'], capture_output=True, text=True)
        if ap.returncode != 0:
            return name, {'apply': 'FAILED ' + ap.stderr[:200]}
        for pid in pids:
            p = subprocess.run([f'{v}/bin/vcheck', pid, 'quick'], capture_output=True, text=True,
                               env={**os.environ, 'VERIF_REPO': r})
            line = next((l for l in p.stdout.split('\n') if l.startswith('VIOLATION')), '')
            out[pid] = {'rc': p.returncode, 'line': line.replace(v, '/verif')}
    finally:
        subprocess.run(['git', '-C', r, 'checkout', '-q', '--', '.'])
        slots.put((v, r))
    return name, out


missed, nofail = [], []
with ThreadPoolExecutor(max_workers=jobs) as ex:
    for name, out in ex.map(one, names):
        print(name, {k: v.get('rc') if isinstance(v, dict) else v for k, v in out.items()}, flush=True)
        if 'apply' in out:
            missed.append((name, 'apply failed'))
            continue
        meta = json.load(open(f'/verif/seeded/{name}/meta.json'))
        meta.setdefault('checks', {}).update(out)
        json.dump(meta, open(f'/verif/seeded/{name}/meta.json', 'w'), indent=1)
        for pid, res in out.items():
            if res['rc'] != 1:
                missed.append((name, pid, res['rc']))
            elif 'no-failing-input-found' in res['line']:
                nofail.append((name, pid))
print('missed:', missed)
print('without failing input:', nofail)
while not slots.empty():
    v, r = slots.get()
    subprocess.run(['git', '-C', '/repo', 'worktree', 'remove', '--force', r], capture_output=True)
    shutil.rmtree(v, ignore_errors=True)
