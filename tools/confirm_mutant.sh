#!/bin/bash
# tools/confirm_mutant.sh <worktree> <mutant dir> : confirm in the scratch worktree that the seeded change
# passes the test-suite (both TZ settings) and that its demo fails with / passes without the change.
wt="$1"; m="$2"
cd "$wt" || exit 2
git checkout -q -- src; 
run_demo() { PYTHONPATH=$wt/src timeout 120 /venv/bin/python "$m/demo.py" >/dev/null 2>&1; echo $?; }
clean_rc=$(run_demo)
git apply "$m/patch.diff" || { echo "APPLY-FAIL"; exit 2; }
mut_rc=$(run_demo)
t1=$(PYTHONPATH=$wt/src /venv/bin/python -m pytest -q -p no:cacheprovider -x --timeout=900 --deselect tests/test_default.py::test_sync_example --deselect tests/test_builder/test_datetime.py::test_call 2>&1 | tail -1)
t2=$(TZ=Europe/Berlin PYTHONPATH=$wt/src /venv/bin/python -m pytest -q -p no:cacheprovider -x --timeout=900 --deselect tests/test_default.py::test_sync_example --deselect tests/test_builder/test_datetime.py::test_call 2>&1 | tail -1)
case "$t1" in *failed*) t1="$t1 // rerun: $(PYTHONPATH=$wt/src /venv/bin/python -m pytest -q -p no:cacheprovider --timeout=900 --deselect tests/test_default.py::test_sync_example --deselect tests/test_builder/test_datetime.py::test_call 2>&1 | tail -1)";; esac
case "$t2" in *failed*) t2="$t2 // rerun: $(TZ=Europe/Berlin PYTHONPATH=$wt/src /venv/bin/python -m pytest -q -p no:cacheprovider --timeout=900 --deselect tests/test_default.py::test_sync_example --deselect tests/test_builder/test_datetime.py::test_call 2>&1 | tail -1)";; esac
git checkout -q -- src
echo "demo clean rc=$clean_rc mutated rc=$mut_rc | tests: $t1 | berlin: $t2"
