#!/venv/bin/python
"""regenerate MANIFEST.json from the table below"""
import json, sys
sys.path.insert(0, '/verif/harness')
SCHED_NOTE = ('Lean kernel + axioms propext/Classical.choice/Quot.sound; hand-written model (lean/EaModel/Sched.lean) tied to /repo by '
              'the correspondence run of this check (real AsyncScheduler/JobBuilder/controls under a virtual asyncio clock vs. the '
              'native Lean driver on the same operation lines); whenever, asyncio and CPython are modelled, not verified; '
              'virtual-clock semantics: a timer fires when the clock reaches it')
PROD_NOTE = ('Lean kernel + axioms propext/Classical.choice/Quot.sound; hand-written model (lean/EaModel/Producer.lean, Replace.lean, Zone.lean, Filter.lean) '
             'tied to /repo by the correspondence run of this check (real producers built through TriggerBuilder/FilterBuilder vs. the native Lean driver on the same '
             'queries, in the zones of /usr/share/zoneinfo exported as transition tables); whenever, the tz database and random.uniform are modelled, not verified')
TM_NOTE = ('Lean kernel + axioms propext/Classical.choice/Quot.sound; hand-written model (lean/EaModel/Tasks.lean) of the managers on an asyncio ready-queue model, '
           'tied to /repo by running the real managers on a real asyncio loop with instrumented coroutines on the same operation lists; asyncio itself is modelled, not verified')
CHECKS = {
 'C01': ('proof', 'Theorems for every state reachable by any finite history of operations (every environment, failure injection and start instant): queue invariant (only RUNNING jobs queued, no duplicates, sorted, RUNNING <-> run time set); never early (every recorded execution has due <= instant); the loop timer is armed exactly when enabled and the queue is not empty, for the run time of the head; after a wake-up or sleep no queued job is due; a queued job whose run time is reached is executed by that very wake-up; under the virtual clock a sleeping loop executes each job exactly at its run time. The theorems exclude histories in which the recursion budget of the model (400 nested wake-ups in one operation) ran out. Tied to the code by comparing model and real scheduler on seeded histories under a virtual clock; an independent oracle states never-early / on-time / no-overdue on the real trace.', '8 C01', SCHED_NOTE,
         'Lean 4 invariant proofs (induction over operation lists, strong induction on the fuel of the mutual recursion, contracts for _set_timer) + differential correspondence'),
 'C02': ('proof', 'Theorems for every reachable state: only RUNNING jobs are queued, each at most once; a job that is not RUNNING (cancelled, paused, stopped, finished, never created) is neither executed nor queued by any sequence of operations that does not contain its own resume/reset/creation; while the scheduler is disabled no operation but enable(True) executes anything; a control operation on one job leaves every other queued job queued for the same instant (or executed it because it was already due); refused creations change nothing and failed creations leave the job unqueued; in every history in which the clock does not go back the run times a job was executed for are strictly increasing (at most one execution per announced run time) and below the run time it reports. Oracle on the real trace: at most one execution per announced run time, none while paused/cancelled/disabled.', '8 C02', SCHED_NOTE,
         'Lean 4 invariant + generic "quiet step" proofs + differential correspondence'),
 'C07': ('proof', 'Theorems: RUNNING <-> run time set in every reachable state; every control operation on a FINISHED job raises and leaves the state unchanged; the whole record of a job that is not RUNNING is unchanged by any number of operations that do not address it (wake-ups, sleeps, other jobs); JobCallbackHandler.run invokes every registered callback exactly once in order with the new state visible; set_next_run reports the new state to the on_update callbacks; the job store is exact in every reachable state (an entry (id, job) exists exactly when the job was filed under that id and has not finished, ids unique, finished jobs in no store). Correspondence incl. callback log and store content.', '8 C07', SCHED_NOTE,
         'Lean 4 invariant + frame proofs + trace lemma on callbacks + differential correspondence'),
 'C08': ('proof', 'Theorems for every reachable state: once(t) for a future t succeeds, reports t, and a sleep past t executes the job at exactly t; reset() of a countdown job reports now + countdown and a sleep past it executes the job at exactly that instant; a fired countdown is paused with no run time; a one-shot job finishes with its execution; a job that is not RUNNING is never executed without its own reset/resume (C02) and its record is frozen (C07). Histories with interleaved resets/stops are decided by the correspondence plus a three-line reference model of the countdown evaluated on the real trace.', '8 C08', SCHED_NOTE,
         'Lean 4 proofs over reachable states + differential correspondence + reference-model oracle'),
 'C09': ('proof', 'Theorems for every reachable state: the executions performed by a wake-up, a sleep or re-enabling are in non-decreasing order of the reported run times, each due no later than the clock, and everything still queued afterwards is due no earlier than any of them (any number of due jobs, whatever they do when run); the queue is sorted, duplicate-free and free of jobs without run time; a separate model of a wake-up in which synchronous callables create further jobs (Reentrant.lean): the started job always is a minimum of the queue at that moment. Correspondence compares the order of executions inside each wake-up, incl. a directed re-entrant scenario.', '8 C09', SCHED_NOTE,
         'Lean 4 proof (ordering argument over the run loop using C04) + differential correspondence'),
 'C10': ('proof', 'Theorems: for every history, the run with raising callables/callbacks and the run of the same history without those failures return the same from every operation and end in states that agree in everything (status, run times, queue, timer, store, every logged execution and callback invocation) except the failure reports themselves; callbacks change nothing but the log; a wake-up keeps the scheduler invariant whatever raises; a failed reschedule never leaves the job RUNNING with the run time it was just executed for; the C01/C09 theorems (timer stays armed, every due job is executed in the wake-up, in order) hold for every failure injection. Correspondence with injected failures in callables (call-time and await-time), callbacks and triggers; oracle: one handler report per failing invocation, behaviour identical to the failure-free history.', '8 C10', SCHED_NOTE,
         'Lean 4 proof (equational commutation with the failure-erasing projection, invariants) + differential correspondence + failure-free differential oracle'),
 'C04': ('proof', 'Theorem getNext_gt: for EVERY trigger expression of the model (time, interval, sun over any ephemeris, group, any nesting of '
         'offset/earliest/latest/jitter, any filters), every zone table, draw function and reference instant a computed next occurrence is '
         'strictly later. Tied to the code by comparing model and real producers (built through the builder API) on chains and boundary '
         'instants (on / 1 ns before / after occurrences, around clock changes) in 25+ zones; inexact float amounts are judged by the oracle only.',
         '8 C04', PROD_NOTE, 'Lean 4 structural induction over the trigger language + differential correspondence'),
 'C05': ('proof', 'Theorem getNext_least: for time / interval / group triggers with member- and group-level filters (any nesting of groups) the '
         'result is the least element of the declaratively defined admissible occurrence set after the reference instant; the zone enters '
         'through the hypothesis TimeRegular, which is PROVED from the transition table for every sorted table whose offsets span less '
         'than 24 h - 121 min (getNext_least_narrow; side condition evaluated by the driver on the table of every case; 592 of 599 zone names) '
         'and evaluated by the executable model for every zone/time/policy of the run otherwise. '
         'Oracle: independent enumeration with zoneinfo (PEP 495).', '8 C05', PROD_NOTE,
         'Lean 4 refinement to a declarative occurrence-set spec (loop invariants) + differential correspondence'),
 'C06': ('proof', 'Theorems: Zone.resolve is sound and complete w.r.t. toLocal for every sorted transition table (unique / repeated / skipped '
         'mean what PEP 495 says); TimeReplacer.replace implements the 4x4 policy table (skip, earlier/later = shifted by exactly the gap, '
         'after = first valid whole minute, twice = both in order) by case analysis; time_once_per_day. Correspondence: sweep over every '
         'zone shape x clock changes x wall times in/around the affected interval x policies, plus random chains.', '8 C06', PROD_NOTE,
         'Lean 4 proof (case analysis + induction on transition tables) + exhaustive-style zone sweep correspondence'),
 'C13': ('proof', 'Theorems: offset result = occurrence of the underlying trigger + exactly the offset; earliest/latest = max/min with the bound '
         'the DST policy selects on the local date of the occurrence (unchanged within the bound, never beyond it); jitter result inside '
         '[n+low, n+high] whenever that window is after the reference instant, for every draw function in range. Oracle judges against '
         'the occurrence list of the underlying trigger alone. Amounts that are not binary fractions of a second are subject to finding F15.',
         '8 C13', PROD_NOTE, 'Lean 4 proof about arbitrary inner triggers + differential correspondence'),
 'C14': ('proof', 'PARTIAL by design: proved for offsets of any sign and jitter with low >= 0 (attributed occurrences strictly increase along a '
         'firing chain, every draw function); for jitter with low < 0 the property is false of the code (known finding F5, negation '
         'theorem jitter_negative_double_fires with a concrete witness). The check attributes 40-step firing chains to underlying '
         'occurrences and reports duplicates that do not match the F5 signature.', '8 C14', PROD_NOTE,
         'Lean 4 proof (partial) + negation witness + chain oracle'),
 'C16': ('proof', 'Termination of the model is checked by the Lean kernel (every loop is structural recursion on a counter); theorems bound the '
         'iterations of the not_infinite_loop loops and characterise the outcomes. PARTIAL: the filter search of IntervalProducer is an '
         'unbounded while loop in the code (known finding F7a; theorem interval_unsat_never_returns: no fuel suffices). The check runs '
         'unsatisfiable filters at every nesting level under a watchdog.', '8 C16', PROD_NOTE,
         'Lean 4 totality + bound lemmas + watchdog correspondence'),
 'C11': ('proof', 'Theorems for every finite history of operations on a sequential manager (submissions from outside, from inside the '
         'running task and from a listener woken by the finishing task; completions, failures, cancellations; all bounds, policies, keys): '
         'at most one task exists whose done callback has not run and it is self.task (invariant over the asyncio ready-queue model); '
         'coroutines start from the head of the queue; de-duplication keeps only the newest per key; conservation in every reachable state '
         '(create_task calls = waiting + tasks created + closed unstarted, so a coroutine submitted once is in exactly one place and its body '
         'is entered at most once); tasks are created in submission order; a coroutine waits only behind an unfinished current task; the '
         'bounded queue never exceeds its bound and the policies drop exactly the named victim. Correspondence on a real asyncio '
         'loop with instrumented coroutines; oracle: one at a time, start order, victims, conservation.', '8 C11', TM_NOTE,
         'Lean 4 invariant proof over an asyncio ready-queue model + differential correspondence on a real loop'),
 'C12': ('proof', 'Theorems: the limiting parallel manager never tracks more than its limit in any reachable state; skip closes the new '
         'coroutine and changes nothing else; cancel_first / cancel_last cancel and untrack the oldest / newest task before the new one '
         'is created; the done callback frees the slot; the unbounded manager creates and tracks a task for every coroutine and, in every '
         'reachable state, tracks exactly the tasks whose done callback has not run; the limiting manager never tracks a finished task; '
         'conservation (every submission has one task or was closed unstarted; body entered at most once). '
         'Correspondence incl. garbage collection of weakly held tasks.', '8 C12', TM_NOTE,
         'Lean 4 invariant proof + differential correspondence on a real loop'),
 'C03': ('proof', 'Theorems: one full round of a recurring job in every reachable state, whatever else is queued or happens in the wake-up: '
         'a recurring job whose reported run time is reached is executed by that wake-up and queued again for exactly get_next(trigger, '
         'execution instant), strictly in the future (recurring_round); that value is the least admissible occurrence of the trigger after the '
         'execution instant (reschedule_is_next_occurrence, C05); no announcement is executed twice (C02). The statement over days to weeks in '
         'real zones is in addition decided by the correspondence of model and real scheduler under the virtual clock in zones around '
         'clock changes, month and year ends (early-firing timers, late wake-ups, jobs created inside repeated / right after skipped '
         'intervals), and by an oracle that enumerates occurrences with zoneinfo.',
         '8 C03', SCHED_NOTE, 'Lean 4 proof (job record followed through the run loop and its recursion; composition with C01/C02/C05) + differential correspondence + independent occurrence oracle'),
 'C15': ('proof', 'Theorems: a trigger is a value and get_next a function; the two stateful places of the objects are unobservable - any grid '
         'point as interval anchor gives the same answers, anchoring is idempotent (an object never changes after its first query), and '
         'a consistent sun cache returns exactly what a recomputation returns (cleared on set_location). The check queries objects, '
         're-queries in another order, derives with every builder method, copies, builds two jobs from one object and derives filters, '
         'and compares every answer with the pure model.', '8 C15', PROD_NOTE,
         'Lean 4 proof of state-unobservability + self-consistency and correspondence checks on real builder objects'),
 'C17': ('proof', 'Theorems: the date functions of the model are the proleptic Gregorian calendar for every integer day number '
         '(successor of every date, well-formedness, inverse, weekday cycle, anchor 1970-01-01); any/all/not_, the time window (lower <= t < upper), weekday/day/month membership, locality; wrapped ranges denote '
         'the obvious sets; single values outside min..max and empty arguments are rejected; every English and German weekday and month '
         'name (full and abbreviated) maps to its number in the tables read from the imported source on this run (decide +kernel). The '
         'string front end (split/strip/isdigit/lower) is executable model code validated against the code on ~4000 spellings.',
         '8 C17', PROD_NOTE, 'Lean 4 proof + kernel-decided name tables regenerated from the source + differential correspondence'),
 'C18': ('proof', 'PARTIAL by nature (astronomy is astral\'s): proved that every result is an ephemeris event rounded up to the second, '
         'strictly later, admitted by the filter; the date search skips dates without event; the same-date lookup is right. False of '
         'the code: once per solar day (known finding F9, negation witness sun_midnight_fires_twice). The check validates every returned '
         'instant against astral.sun.elevation and the 23.5-24.5 h spacing on a globe of locations, in DST zones, after relocation.',
         '8 C18', PROD_NOTE, 'Lean 4 proof over an abstract ephemeris (partial) + validation against astral'),
 'C19': ('proof', 'Theorems: None/number/timedelta/ISO duration = now (+ d); aware values denote themselves; a naive datetime shows its wall '
         'clock reading; a time of day resolves to an instant showing that time today (not before now) or tomorrow (today\'s has passed); '
         'non-positive durations and instants more than 100 ms in the past are rejected (tolerance measured on the imported source). '
         'Known finding F3b (raises when the time is skipped/repeated that day).', '8 C19', PROD_NOTE,
         'Lean 4 proof + differential correspondence under a patched clock in all zone shapes'),
 'C20': ('proof', 'Theorems: both policies given are used verbatim; a time inside an hour find_time reported is rejected; acceptance means '
         'outside every reported hour; the four probes of find_time; validity = PEP 495 (sound for sorted tables); the scan orders of the '
         'source; accepted_safe_all_year: the property itself (accepted without a forward / backward policy => skipped / repeated on no day of '
         'the year) under the explicit hypothesis YearRegular, which is proved for a zone-year with the shape of Europe/Berlin. Whether a '
         'real zone-year is regular is decided per zone-year by '
         'exhaustive comparison of model, code (module reloaded under a patched clock) and a scan of every clock change of the year, '
         'with no / only forward / only backward policy given.', '8 C20', PROD_NOTE,
         'Lean 4 proof of the decision logic + per-zone-year exhaustive correspondence and zone-file scan'),
}
def main():
    from registry import PROPS
    checks = []
    for pid in sorted(PROPS):
        if pid not in CHECKS:
            continue
        cat, text, ref, note, tech = CHECKS[pid]
        checks.append({'property_id': pid, 'quick_cmd': f'bin/vcheck {pid} quick', 'thorough_cmd': f'bin/vcheck {pid} thorough',
                       'evidence_file': f'/verif/evidence/{pid}.json', 'replay_cmd_template': f'bin/vcheck {pid} quick --replay {{path}}',
                       'engine': 'lean4+correspondence', 'level_claimed': {'category': cat, 'text': text, 'design_ref': 'DESIGN.md §' + ref},
                       'level_note': note, 'technique': tech})
    claimed = {c['property_id'] for c in checks}
    na = [{'property_id': f'C{i:02d}', 'reason': 'not claimed'}
          for i in range(1, 21) if f'C{i:02d}' not in claimed]
    m = {'version': 1,
         'setup_cmd': 'cd lean && lake build EaModel eadriver',
         'hooks': {'guard': 'EASCHEDULER_VERIF', 'enable': 'no source hooks: clock, time zone, random source and exception handler are replaced from outside by the harness',
                   'baseline_off_cmd': 'cd /repo && /venv/bin/python -m pytest -q -p no:cacheprovider --timeout=900', 'source_commits': [], 'add_only': True},
         'engines': [{'name': 'lean4+correspondence', 'path': 'bin/vcheck', 'serves_properties': sorted(claimed),
                      'kind_free_text': 'Lean 4 theorems about a hand-written executable model + differential correspondence check of model and real code + oracle search for failing inputs'}],
         'checks': checks, 'not_applicable': na, 'notes': 'see DESIGN.md; known findings in known_findings.json; seeded changes in seeded/'}
    json.dump(m, open('/verif/MANIFEST.json', 'w'), indent=1)
    print(len(checks), 'checks;', len(na), 'not claimed')
main()
