#!/venv/bin/python
"""regenerate MANIFEST.json from the table below"""
import json, sys
sys.path.insert(0, '/verif/harness')
SCHED_NOTE = ('Lean kernel + axioms propext/Classical.choice/Quot.sound; hand-written model (lean/EaModel/Sched.lean) tied to /repo by '
              'the correspondence run of this check (real AsyncScheduler/JobBuilder/controls under a virtual asyncio clock vs. the '
              'native Lean driver on the same operation lines); whenever, asyncio and CPython are modelled, not verified; '
              'virtual-clock semantics: a timer fires when the clock reaches it')
CHECKS = {
 'C01': ('proof', 'Theorems (for every finite history of operations, every environment): queue invariant of every reachable state '
         '(only RUNNING jobs queued, no duplicates, sorted, RUNNING <-> run time set) and never-early (every recorded execution has '
         'due <= instant). Tied to the code by comparing model and real scheduler on seeded histories under a virtual clock; an '
         'independent oracle states never-early / on-time / no-overdue on the real trace.', '8 C01', SCHED_NOTE,
         'Lean 4 invariant proof (induction over operation lists, mutual recursion on fuel) + differential correspondence'),
 'C02': ('proof', 'Theorems: only RUNNING jobs are queued and each at most once in every reachable state; jobs that are not RUNNING '
         'are not queued; refused creations (duplicate id, bad argument) change nothing; after any failed creation the job is not queued. '
         'Correspondence on seeded histories; oracle: at most one execution per announced run time, none while paused/cancelled/disabled, '
         'none for failed creations.', '8 C02', SCHED_NOTE, 'Lean 4 invariant proof + differential correspondence'),
 'C07': ('proof', 'Theorems: RUNNING <-> run time set in every reachable state; every control operation on a FINISHED job raises and leaves '
         'the state unchanged; JobCallbackHandler.run invokes every registered callback exactly once in order with the new state '
         'visible; set_next_run reports the new state to the on_update callbacks. Correspondence incl. callback log, store content.',
         '8 C07', SCHED_NOTE, 'Lean 4 invariant proof + trace lemma on callbacks + differential correspondence'),
 'C08': ('proof', 'Theorems (step level): reset announces now + countdown and is never rejected for a positive countdown; a fired countdown '
         'is paused with no run time; a one-shot job finishes with its execution; no job is queued twice. End-to-end timing is decided by the '
         'correspondence plus a three-line reference model of the countdown evaluated on the real trace.', '8 C08', SCHED_NOTE,
         'Lean 4 step lemmas + differential correspondence + reference-model oracle'),
 'C09': ('proof', 'Theorems: the queue is sorted by run time, duplicate-free and free of jobs without run time in every reachable state; insort '
         'keeps sortedness. run_jobs always takes the head. Correspondence compares the order of executions inside each wake-up.',
         '8 C09', SCHED_NOTE, 'Lean 4 invariant proof + differential correspondence'),
 'C10': ('proof', 'Theorems: callbacks change nothing but the log; a wake-up keeps the scheduler invariant whatever raises; a failed '
         'reschedule never leaves the job RUNNING with the run time it was just executed for. Correspondence with injected failures in '
         'callables (call-time and await-time), callbacks and triggers; oracle: one handler report per failing invocation, behaviour '
         'identical to the failure-free history.', '8 C10', SCHED_NOTE, 'Lean 4 proof + differential correspondence + failure-free differential oracle'),
}
def main():
    from registry import PROPS
    checks = []
    for pid in sorted(PROPS):
        if pid not in CHECKS:
            continue
        cat, text, ref, note, tech = CHECKS[pid]
        checks.append({'property_id': pid, 'quick_cmd': f'bin/vcheck {pid} quick', 'thorough_cmd': f'bin/vcheck {pid} thorough',
                       'evidence_file': f'/verif/evidence/{pid}.json', 'replay_cmd_template': f'bin/vcheck {pid} quick --replay {{path}}',
                       'engine': 'lean4+correspondence', 'level_claimed': {'category': cat, 'text': text, 'design_ref': 'DESIGN.md §' + ref},
                       'level_note': note, 'technique': tech})
    claimed = {c['property_id'] for c in checks}
    na = [{'property_id': f'C{i:02d}', 'reason': 'check under construction in this commit; not claimed yet'}
          for i in range(1, 21) if f'C{i:02d}' not in claimed]
    m = {'version': 1,
         'setup_cmd': 'cd lean && lake build EaModel eadriver',
         'hooks': {'guard': 'EASCHEDULER_VERIF', 'enable': 'no source hooks: clock, time zone, random source and exception handler are replaced from outside by the harness',
                   'baseline_off_cmd': 'cd /repo && /venv/bin/python -m pytest -q -p no:cacheprovider --timeout=900', 'source_commits': [], 'add_only': True},
         'engines': [{'name': 'lean4+correspondence', 'path': 'bin/vcheck', 'serves_properties': sorted(claimed),
                      'kind_free_text': 'Lean 4 theorems about a hand-written executable model + differential correspondence check of model and real code + oracle search for failing inputs'}],
         'checks': checks, 'not_applicable': na, 'notes': 'see DESIGN.md; known findings in known_findings.json; seeded changes in seeded/'}
    json.dump(m, open('/verif/MANIFEST.json', 'w'), indent=1)
    print(len(checks), 'checks;', len(na), 'not claimed')
main()
