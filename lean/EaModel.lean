import EaModel.Basic
import EaModel.Civil
import EaModel.Zone
import EaModel.Filter
import EaModel.Replace
import EaModel.Producer
import EaModel.Sched
import EaModel.Tasks
