import EaModel
import EaModel.Lemmas.Least
import EaModel.Lemmas.Regular
import Std.Data.HashMap
/-!
# Line protocol interpreter of the executable models

One command per line on stdin; every command answers with zero or more lines followed by a line `.`.
Nothing in this file is part of a proof; it only *runs* the definitions the theorems are about.
-/
open Ea

inductive Sx
  | atom (s : String)
  | list (xs : List Sx)
deriving Repr, Inhabited

def tokenize (s : String) : List String :=
  let s := (s.replace "(" " ( ").replace ")" " ) "
  (s.splitOn " ").filter (· ≠ "")

partial def parseSxs : List String → List Sx → (List Sx × List String)
  | [], acc => (acc.reverse, [])
  | ")" :: rest, acc => (acc.reverse, rest)
  | "(" :: rest, acc =>
    let (xs, rest') := parseSxs rest []
    parseSxs rest' (Sx.list xs :: acc)
  | t :: rest, acc => parseSxs rest (Sx.atom t :: acc)

def parseLine (s : String) : List Sx := (parseSxs (tokenize s) []).1

def Sx.int? : Sx → Option Int
  | .atom s => s.toInt?
  | _ => none
def Sx.int! (x : Sx) : Int := x.int?.getD 0
def Sx.nat! (x : Sx) : Nat := x.int!.toNat
def Sx.optInt : Sx → Option Int
  | .atom "-" => none
  | x => x.int?
def Sx.str : Sx → String
  | .atom s => s
  | _ => ""

def csvNats (x : Sx) : List Nat :=
  match x with
  | .atom "-" => []
  | .atom s => (s.splitOn ",").filterMap (fun t => t.toNat?)
  | _ => []

partial def toFilter : Sx → Option Filter
  | .list (.atom "dow" :: xs) => some (.dow (xs.map Sx.int!))
  | .list (.atom "dom" :: xs) => some (.dom (xs.map Sx.int!))
  | .list (.atom "moy" :: xs) => some (.moy (xs.map Sx.int!))
  | .list [.atom "time", lo, hi] => some (.time lo.optInt hi.optInt)
  | .list (.atom "any" :: xs) => some (.any (xs.filterMap toFilter))
  | .list (.atom "all" :: xs) => some (.all (xs.filterMap toFilter))
  | .list [.atom "not", f] => (toFilter f).map Filter.not
  | .list [.atom "ext", i] => some (.ext i.nat!)
  | _ => none

def toSkipped : Sx → Skipped
  | .atom "skip" => .skip | .atom "earlier" => .earlier | .atom "later" => .later | _ => .after
def toRepeated : Sx → Repeated
  | .atom "skip" => .skip | .atom "earlier" => .earlier | .atom "later" => .later | _ => .twice

partial def toProducer : Sx → Option Producer
  | .list [.atom "time", tod, sk, rp, f] =>
      some (.time { tod := tod.int!, skipped := toSkipped sk, repeated := toRepeated rp } (toFilter f))
  | .list [.atom "interval", st, step, f] => some (.interval st.optInt step.int! (toFilter f))
  | .list (.atom "group" :: f :: ps) => some (.group (ps.filterMap toProducer) (toFilter f))
  | .list [.atom "offset", off, f, p] => (toProducer p).map (fun p => .offset p off.int! (toFilter f))
  | .list [.atom "earliest", tod, sk, rp, f, p] =>
      (toProducer p).map (fun p => .earliest p { tod := tod.int!, skipped := toSkipped sk, repeated := toRepeated rp } (toFilter f))
  | .list [.atom "latest", tod, sk, rp, f, p] =>
      (toProducer p).map (fun p => .latest p { tod := tod.int!, skipped := toSkipped sk, repeated := toRepeated rp } (toFilter f))
  | .list [.atom "jitter", lo, hi, f, p] => (toProducer p).map (fun p => .jitter p lo.int! hi.int! (toFilter f))
  | .list [.atom "sun", k, f] => some (.sun k.nat! (toFilter f))
  | _ => none

structure DState where
  zone : Zone := {}
  seed : Int := 0
  hasLoc : Bool := true
  ext : List (Nat × List Int) := []
  eph : Std.HashMap (Nat × Int) (Option Int) := {}
  intervalFuel : Nat := 200000
  prods : Std.HashMap Nat Producer := {}
  sched : St := {}
  handles : List Nat := []     -- job handles in creation order
  tm : TSt := {}

/-- the scripted `random.uniform`: a deterministic function of the arguments and the call context,
computed identically by the harness (`harness/common.py: scripted_uniform`) -/
def scriptedDraw (seed a b n dt : Int) : Int :=
  let k := (seed * 1000003 + (n / 1000) * 7919 + (dt / 1000) * 104729) % 1001
  a + (((b - a) * k / 1000) / 1000) * 1000

def DState.env (d : DState) : Env :=
  { zone := d.zone
    ext := fun i day => match d.ext.find? (·.1 = i) with | some (_, ds) => ds.contains day | none => false
    draw := scriptedDraw d.seed
    hasLocation := d.hasLoc
    eph := fun k day => (d.eph.get? (k, day)).getD none
    intervalFuel := d.intervalFuel }

def optStr : Option Int → String
  | none => "-"
  | some x => toString x

def evStr : Ev → String
  | .exec j t _ => s!"exec {j} {t}"
  | .cb fin c j st nr t => s!"cb {if fin then "f" else "u"} {c} {j} {st.name} {optStr nr} {t}"
  | .exc n => s!"exc {n}"
  | .fatal e => s!"fatal {e.name}"

def pairs : List Sx → List (Int × Int)
  | a :: b :: rest => (a.int!, b.int!) :: pairs rest
  | _ => []

def toSpec : Sx → Option JobSpec
  | .list [.atom "once", t] => some (.once t.int!)
  | .list [.atom "countdown", s] => some (.countdown s.int!)
  | .list [.atom "at", p] => (toProducer p).map JobSpec.at
  | _ => none

def toOp : List Sx → Option Op
  | [.atom "create", j, key, spec, ef, tf] =>
      -- a `p<k>` entry of the trigger failure list: every call with index >= k raises
      let perm : Nat := match tf with
        | .atom s => ((s.splitOn ",").filterMap fun t => if t.startsWith "p" then (t.drop 1).toNat? else none).foldl min 1000000000
        | _ => 1000000000
      (toSpec spec).map (fun sp => .create j.nat! (key.optInt.map Int.toNat) sp (csvNats ef) (csvNats tf) perm)
  | [.atom "cancel", j] => some (.cancel j.nat!)
  | [.atom "pause", j] => some (.pause j.nat!)
  | [.atom "resume", j] => some (.resume j.nat!)
  | [.atom "stop", j] => some (.stop j.nat!)
  | [.atom "reset", j] => some (.reset j.nat!)
  | [.atom "setcd", j, s] => some (.setCountdown j.nat! s.int!)
  | [.atom "cbreg", k, j, c] => some (.cbReg (k.str == "f") j.nat! c.nat!)
  | [.atom "cbrem", k, j, c] => some (.cbRem (k.str == "f") j.nat! c.nat!)
  | [.atom "cbfails", c] => some (.cbFails c.nat!)
  | [.atom "enable", e] => some (.enable (e.int! ≠ 0))
  | [.atom "advance", d] => some (.advance d.int!)
  | [.atom "yield"] => some .yield
  | [.atom "sleep", d] => some (.sleep d.int!)
  | _ => none

def schedOut (d : DState) (s' : St) (err : Option Err) : List String :=
  let ret := match err with | none => "ret ok" | some e => s!"ret err {e.name}"
  let evs := s'.log.reverse.map evStr
  let sts := d.handles.map (fun j => s!"st {j} {(s'.job j).status.name} {optStr (s'.job j).nextRun} {optStr (s'.job j).lastRun}")
  let keys := (s'.store.map (·.1)).toArray.qsort (· < ·) |>.toList
  let store := "store" ++ String.join (keys.map (fun k => s!" {k}"))
  [ret] ++ evs ++ sts ++ [store, s!"now {s'.now}"]

def handle (d : DState) (line : String) : DState × List String :=
  match parseLine line with
  | .atom "zone" :: init :: rest =>
      let tr := (pairs rest).map (fun (t, o) => (t * NS_PER_S, o * NS_PER_S))
      ({ d with zone := { init := init.int! * NS_PER_S, trans := tr } }, [])
  | [.atom "seed", n] => ({ d with seed := n.int! }, [])
  | [.atom "loc", n] => ({ d with hasLoc := n.int! ≠ 0 }, [])
  | [.atom "ifuel", n] => ({ d with intervalFuel := n.nat! }, [])
  | .atom "ext" :: i :: days => ({ d with ext := (i.nat!, days.map Sx.int!) :: d.ext }, [])
  | .atom "eph" :: k :: rest =>
      let rec go (m : Std.HashMap (Nat × Int) (Option Int)) : List Sx → Std.HashMap (Nat × Int) (Option Int)
        | day :: v :: more => go (m.insert (k.nat!, day.int!) v.optInt) more
        | _ => m
      ({ d with eph := go d.eph rest }, [])
  | [.atom "ephclear"] => ({ d with eph := {} }, [])
  | [.atom "prod", pid, sx] =>
      match toProducer sx with
      | some p => ({ d with prods := d.prods.insert pid.nat! p }, ["ok"])
      | none => (d, ["bad-prod"])
  | [.atom "next", pid, dt] =>
      match d.prods.get? pid.nat! with
      | none => (d, ["bad-pid"])
      | some p =>
        -- the first query anchors intervals without start (object state of the real producer)
        let p := p.anchorAt dt.int!
        let r := getNext d.env p dt.int!
        -- `self._next` is assigned when `get_next` returns: a failed query leaves the object unanchored
        let d := match r with
          | .ok _ => { d with prods := d.prods.insert pid.nat! p }
          | .error _ => d
        (d, [match r with | .ok v => s!"ok {v}" | .error e => s!"err {e.name}"])
  | [.atom "local", u] =>
      let L := d.zone.toLocal u.int!
      let c := civilFromDays (dayOf L)
      (d, [s!"local {c.y} {c.m} {c.d} {todOf L} {isoWeekday (dayOf L)} {d.zone.offsetAt u.int! / NS_PER_S}"])
  | [.atom "resolve", L] =>
      (d, [match d.zone.resolve L.int! with
        | .unique u => s!"unique {u}"
        | .gap a b => s!"gap {a} {b}"
        | .fold a b => s!"fold {a} {b}"])
  | [.atom "allow", f, u] =>
      match toFilter f with
      | some f => (d, [s!"{f.allow d.env.ext (d.zone.toLocal u.int!)}"])
      | none => (d, ["bad-filter"])
  | [.atom "replace", tod, sk, rp, day] =>
      let r : TimeRep := { tod := tod.int!, skipped := toSkipped sk, repeated := toRepeated rp }
      (d, [match r.replace d.zone day.int! with
        | .ok xs => "ok" ++ String.join (xs.map (fun x => s!" {x}"))
        | .error e => s!"err {e.name}"])
  | .atom "reent" :: now :: spawner :: id2 :: due2 :: rest =>
      -- `reent now spawner id2 due2 (id due)*`: the jobs in creation order; the callable of `spawner` creates job id2
      let rec pairs : List Sx → List Re.J
        | a :: b :: xs => ⟨a.nat!, b.int!⟩ :: pairs xs
        | _ => []
      let q := (pairs rest).foldl Re.insort []
      let sp : Nat → List Re.J := fun i => if i = spawner.nat! then [⟨id2.nat!, due2.int!⟩] else []
      (d, (Re.order sp now.int! 10000 q).map fun i => s!"exec {i}")
  | [.atom "narrow"] =>
      -- side condition of `timeRegular_of_narrowB`: if it holds the `TimeRegular` hypothesis is a theorem for this table
      (d, [if d.zone.narrowB then "narrow yes" else "narrow no"])
  | [.atom "regular", tod, sk, rp, d0, d1] =>
      -- executable check of the `TimeRegular` hypothesis (mono + sorted) on a range of local dates
      let r : TimeRep := { tod := tod.int!, skipped := toSkipped sk, repeated := toRepeated rp }
      let n := (d1.int! - d0.int!).toNat
      let z := d.zone
      let bad := (List.range n).filter fun (i : Nat) =>
        let day : Int := d0.int! + (i : Int)
        let a := candsOf z r day
        let b := candsOf z r (day + 1)
        !(a.all fun x => b.all fun y => x < y) || !(match a with | [x, y] => x ≤ y | _ => true) ||
        !(a.all fun x => day - 1 ≤ z.localDay x && z.localDay x ≤ day + 1)
      (d, [if bad.isEmpty then "regular ok" else s!"regular fail {d0.int! + ((bad.headD 0 : Nat) : Int)}"])
  | [.atom "parse", kind, item] =>
      let hexVal (c : Char) : Nat := if c.isDigit then c.toNat - 48 else c.toNat - 87
      let unhex (h : String) : String :=
        let cs := h.toList
        let rec unhexGo : List Char → List UInt8
          | a :: b :: rest => (UInt8.ofNat (hexVal a * 16 + hexVal b)) :: unhexGo rest
          | _ => []
        (String.fromUTF8? (ByteArray.mk (unhexGo cs).toArray)).getD ""
      let rec toItem : Sx → Item
        | .list [.atom "int", n] => .int n.int!
        | .list [.atom "str", h] => .str (unhex h.str)
        | .list (.atom "list" :: xs) => .list (xs.map toItem)
        | _ => .list []
      let items := match toItem item with | .list xs => xs | x => [x]
      let r := match kind.str with
        | "weekdays" => getWeekdays items
        | "days" => getDays items
        | _ => getMonths items
      (d, [match r with | .ok l => "ok" ++ String.join (l.map fun x => s!" {x}") | .error e => s!"err {e.name}"])
  | [.atom "getinstant", now, kind, v] =>
      let w : When := match kind.str with
        | "now" => .now | "after" => .after v.int! | "tod" => .tod v.int! | "naive" => .naive v.int! | _ => .aware v.int!
      (d, [match getInstant d.zone now.int! w with | .ok u => s!"ok {u}" | .error e => s!"err {e.name}"])
  | [.atom "postd", v] =>
      (d, [match getPosTimedelta v.int! with | .ok u => s!"ok {u}" | .error e => s!"err {e.name}"])
  | .atom "dstcheck" :: year :: mode :: ts =>
      -- one character per time of day: a = accepted, r = rejected (ValueError);
      -- mode: none = no policy given, fwd = only clock_forward given, bwd = only clock_backward given
      let setup := dstSetup d.zone year.int!
      let res := ts.map fun t => match setup with
        | .error _ => 'r'
        | .ok (rf, rb) =>
          let needF := mode.str != "fwd" && rf.required t.int!
          let needB := mode.str != "bwd" && rb.required t.int!
          if needF || needB then 'r' else 'a'
      let showReq (r : Req) : String := match r with | .always b => s!"always {b}" | .hour h => s!"hour {h}"
      (d, [match setup with | .error e => s!"setup err {e.name}" | .ok (rf, rb) => s!"setup fwd {showReq rf} bwd {showReq rb}",
           String.ofList res])
  | [.atom "sched-reset", now] =>
      ({ d with sched := { now := now.int!, env := d.env }, handles := [] }, [])
  | [.atom "op", .atom "sleepl", dd, ll] =>
      -- a sleep with late wake-ups: a sequence of advance / yield operations of the model
      let s0 := { d.sched with log := [], env := d.env }
      let s' := sleepLate SLEEPFUEL (s0.now + dd.int!) ll.int! s0
      ({ d with sched := s' }, schedOut d s' none)
  | .atom "op" :: rest =>
      match toOp rest with
      | none => (d, ["bad-op"])
      | some op =>
        let target : Option Nat := match op with
          | .cancel j | .pause j | .resume j | .stop j | .reset j | .setCountdown j _
          | .cbReg _ j _ | .cbRem _ j _ => some j
          | _ => none
        if (match target with | some j => !d.handles.contains j | none => false) then
          (d, schedOut d { d.sched with log := [] } none |>.set 0 "ret err NoHandle")
        else
        let s0 := { d.sched with log := [], env := d.env }
        let (s', err) := step s0 op
        let d := match op, err with
          | .create j _ _ _ _ _, none => if d.handles.contains j then d else { d with handles := d.handles ++ [j] }
          | _, _ => d
        ({ d with sched := s' }, schedOut d s' err)
  | .atom "tm-reset" :: kind :: args =>
      let k : MgrKind := match kind.str, args with
        | "sequential", _ => .sequential
        | "limseq", [n, p] => .limitingSeq n.nat! (match p.str with | "skip" => .skip | "skip_first" => .skipFirst | _ => .skipLast)
        | "dedup", _ => .dedup
        | "parallel", _ => .parallel
        | "limpar", [n, p] => .limitingPar n.nat! (match p.str with | "skip" => .skip | "cancel_first" => .cancelFirst | _ => .cancelLast)
        | _, _ => .sequential
      ({ d with tm := { kind := k } }, [])
  | .atom "tm" :: rest =>
      let pairsOf (x : Sx) : List (Nat × Nat) := match x with
        | .atom "-" => []
        | .atom s => (s.splitOn ",").filterMap fun t => match t.splitOn ":" with
            | [a, b] => match a.toNat?, b.toNat? with | some a, some b => some (a, b) | _, _ => none
            | _ => none
        | _ => []
      let taskOf (c : Nat) : Option Nat := (List.range d.tm.tasks.length).find? fun t =>
        (d.tm.task t).coro == c && (d.tm.task t).status != .done
      let op : Option TOp := match rest with
        | [.atom "submit", c, k] => some (.submit c.nat! k.nat!)
        | [.atom "complete", c, f, ins, lis] =>
            (taskOf c.nat!).map fun t => .complete t (f.int! ≠ 0) { inside := pairsOf ins, listener := pairsOf lis }
        | [.atom "cancel", c] => (taskOf c.nat!).map TOp.cancel
        | _ => none
      match op with
      | none => (d, ["notask"])
      | some op =>
        let s' := tstep { d.tm with log := [] } op
        let evs := s'.log.reverse
        let nm (e : TEv) : String := match e with
          | .enter c => s!"enter {c}" | .exit c => s!"exit {c}" | .cancelled c => s!"cancelled {c}"
          | .failed c => s!"failed {c}" | .closed c => s!"closed {c}" | .closedTask c => s!"closed {c}"
          | .submitted c => s!"submitted {c}"
        -- `submitted` is bookkeeping of the model (conservation theorem), not an observable event
        let main := (evs.filter fun e => match e with | .closed _ => false | .closedTask _ => false | .submitted _ => false | _ => true).map nm
        let closed := ((evs.filterMap fun e => match e with | .closed c => some c | .closedTask c => some c | _ => none).toArray.qsort (· < ·)).toList
        ({ d with tm := s' },
          main ++ closed.map (fun c => s!"closed {c}") ++
          [s!"state run={if s'.cur.isSome then 1 else 0} queue={s'.queue.length} tracked={s'.tracked.length} ready={s'.ready.length}"])
  | [.atom "dump"] =>
      let s := d.sched
      (d, [s!"queue{String.join (s.queue.map (fun j => s!" {j}"))}", s!"timer {optStr s.timer}", s!"enabled {s.enabled}"])
  | [] => (d, [])
  | _ => (d, ["bad-command"])

partial def loop (h : IO.FS.Stream) (out : IO.FS.Stream) (d : DState) : IO Unit := do
  let line ← h.getLine
  if line.isEmpty then return ()
  let l := line.trimAscii.toString
  if l.startsWith "#" then loop h out d else
  let (d', outs) := handle d l
  for o in outs do out.putStrLn o
  out.putStrLn "."
  loop h out d'

def main : IO Unit := do
  let stdin ← IO.getStdin
  let stdout ← IO.getStdout
  loop stdin stdout {}
