/-! GENERATED on every run by harness/extract.py from the imported /repo source. Do not edit. -/
namespace Ea.Gen

def loopBound : Nat := 99999
def pastToleranceNs : Int := 100000000
def jitterEpsNs : Int := 100000
def afterTries : Nat := 121
def sunTries : Nat := 366
def sunCacheMax : Nat := 64
def sunCacheEvict : Nat := 10
def dayNames : List (String × Nat) := [("mo", 1), ("mon", 1), ("monday", 1), ("montag", 1), ("di", 2), ("dienstag", 2), ("tue", 2), ("tuesday", 2), ("mi", 3), ("mittwoch", 3), ("wed", 3), ("wednesday", 3), ("do", 4), ("donnerstag", 4), ("thu", 4), ("thursday", 4), ("fr", 5), ("freitag", 5), ("fri", 5), ("friday", 5), ("sa", 6), ("samstag", 6), ("sat", 6), ("saturday", 6), ("so", 7), ("sonntag", 7), ("sun", 7), ("sunday", 7)]
def monthNames : List (String × Nat) := [("jan", 1), ("januar", 1), ("january", 1), ("feb", 2), ("februar", 2), ("february", 2), ("mar", 3), ("march", 3), ("mrz", 3), ("mär", 3), ("märz", 3), ("apr", 4), ("april", 4), ("mai", 5), ("may", 5), ("jun", 6), ("june", 6), ("juni", 6), ("jul", 7), ("juli", 7), ("july", 7), ("aug", 8), ("august", 8), ("sep", 9), ("september", 9), ("oct", 10), ("october", 10), ("okt", 10), ("oktober", 10), ("nov", 11), ("november", 11), ("dec", 12), ("december", 12), ("dez", 12), ("dezember", 12)]
/-- the same tables as lists of characters (kernel-friendly) -/
def dayNamesC : List (List Char × Nat) := [(['m', 'o'], 1), (['m', 'o', 'n'], 1), (['m', 'o', 'n', 'd', 'a', 'y'], 1), (['m', 'o', 'n', 't', 'a', 'g'], 1), (['d', 'i'], 2), (['d', 'i', 'e', 'n', 's', 't', 'a', 'g'], 2), (['t', 'u', 'e'], 2), (['t', 'u', 'e', 's', 'd', 'a', 'y'], 2), (['m', 'i'], 3), (['m', 'i', 't', 't', 'w', 'o', 'c', 'h'], 3), (['w', 'e', 'd'], 3), (['w', 'e', 'd', 'n', 'e', 's', 'd', 'a', 'y'], 3), (['d', 'o'], 4), (['d', 'o', 'n', 'n', 'e', 'r', 's', 't', 'a', 'g'], 4), (['t', 'h', 'u'], 4), (['t', 'h', 'u', 'r', 's', 'd', 'a', 'y'], 4), (['f', 'r'], 5), (['f', 'r', 'e', 'i', 't', 'a', 'g'], 5), (['f', 'r', 'i'], 5), (['f', 'r', 'i', 'd', 'a', 'y'], 5), (['s', 'a'], 6), (['s', 'a', 'm', 's', 't', 'a', 'g'], 6), (['s', 'a', 't'], 6), (['s', 'a', 't', 'u', 'r', 'd', 'a', 'y'], 6), (['s', 'o'], 7), (['s', 'o', 'n', 'n', 't', 'a', 'g'], 7), (['s', 'u', 'n'], 7), (['s', 'u', 'n', 'd', 'a', 'y'], 7)]
def monthNamesC : List (List Char × Nat) := [(['j', 'a', 'n'], 1), (['j', 'a', 'n', 'u', 'a', 'r'], 1), (['j', 'a', 'n', 'u', 'a', 'r', 'y'], 1), (['f', 'e', 'b'], 2), (['f', 'e', 'b', 'r', 'u', 'a', 'r'], 2), (['f', 'e', 'b', 'r', 'u', 'a', 'r', 'y'], 2), (['m', 'a', 'r'], 3), (['m', 'a', 'r', 'c', 'h'], 3), (['m', 'r', 'z'], 3), (['m', 'ä', 'r'], 3), (['m', 'ä', 'r', 'z'], 3), (['a', 'p', 'r'], 4), (['a', 'p', 'r', 'i', 'l'], 4), (['m', 'a', 'i'], 5), (['m', 'a', 'y'], 5), (['j', 'u', 'n'], 6), (['j', 'u', 'n', 'e'], 6), (['j', 'u', 'n', 'i'], 6), (['j', 'u', 'l'], 7), (['j', 'u', 'l', 'i'], 7), (['j', 'u', 'l', 'y'], 7), (['a', 'u', 'g'], 8), (['a', 'u', 'g', 'u', 's', 't'], 8), (['s', 'e', 'p'], 9), (['s', 'e', 'p', 't', 'e', 'm', 'b', 'e', 'r'], 9), (['o', 'c', 't'], 10), (['o', 'c', 't', 'o', 'b', 'e', 'r'], 10), (['o', 'k', 't'], 10), (['o', 'k', 't', 'o', 'b', 'e', 'r'], 10), (['n', 'o', 'v'], 11), (['n', 'o', 'v', 'e', 'm', 'b', 'e', 'r'], 11), (['d', 'e', 'c'], 12), (['d', 'e', 'c', 'e', 'm', 'b', 'e', 'r'], 12), (['d', 'e', 'z'], 12), (['d', 'e', 'z', 'e', 'm', 'b', 'e', 'r'], 12)]
def dstMonthOrder : List Nat := [3, 4, 11, 9, 10]
def dstHourOrder : List Nat := [2, 3, 0, 1]

end Ea.Gen
