/-! GENERATED on every run by harness/extract.py from the imported /repo source. Do not edit. -/
namespace Ea.Gen

def loopBound : Nat := 99999
def pastToleranceNs : Int := 100000000
def jitterEpsNs : Int := 100000
def afterTries : Nat := 121
def sunTries : Nat := 366
def sunCacheMax : Nat := 64
def sunCacheEvict : Nat := 10
def dayNames : List (String × Nat) := [("mo", 1), ("mon", 1), ("monday", 1), ("montag", 1), ("di", 2), ("dienstag", 2), ("tue", 2), ("tuesday", 2), ("mi", 3), ("mittwoch", 3), ("wed", 3), ("wednesday", 3), ("do", 4), ("donnerstag", 4), ("thu", 4), ("thursday", 4), ("fr", 5), ("freitag", 5), ("fri", 5), ("friday", 5), ("sa", 6), ("samstag", 6), ("sat", 6), ("saturday", 6), ("so", 7), ("sonntag", 7), ("sun", 7), ("sunday", 7)]
def monthNames : List (String × Nat) := [("jan", 1), ("januar", 1), ("january", 1), ("feb", 2), ("februar", 2), ("february", 2), ("mar", 3), ("march", 3), ("mrz", 3), ("mär", 3), ("märz", 3), ("apr", 4), ("april", 4), ("mai", 5), ("may", 5), ("jun", 6), ("june", 6), ("juni", 6), ("jul", 7), ("juli", 7), ("july", 7), ("aug", 8), ("august", 8), ("sep", 9), ("september", 9), ("oct", 10), ("october", 10), ("okt", 10), ("oktober", 10), ("nov", 11), ("november", 11), ("dec", 12), ("december", 12), ("dez", 12), ("dezember", 12)]
def dstMonthOrder : List Nat := [3, 4, 11, 9, 10]
def dstHourOrder : List Nat := [2, 3, 0, 1]

end Ea.Gen
