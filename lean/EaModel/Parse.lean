import EaModel.Basic
import EaModel.Generated
/-!
# Range / name syntax of the weekday, day-of-month and month filters (`builder/helper.py`, `const.py`)

`parseValues` mirrors `_parse_values` / `_parse_str_options` / `_parse_single_value` / `_wrapped_range`.
The name tables are the ones extracted from the imported source on every run (`Generated.lean`).
-/
namespace Ea

/-- `_wrapped_range(start, stop, max_value)` as a list -/
def wrappedRange (start stop max : Int) : List Int :=
  let up (a b : Int) : List Int := (List.range (b - a + 1).toNat).map fun (i : Nat) => a + (i : Int)
  if start < stop then up start stop
  else if start = stop then [start]
  else up start max ++ up 1 stop

/-- an argument of `FilterBuilder.weekdays / days / months` -/
inductive Item
  | int (n : Int)
  | str (s : String)
  | list (xs : List Item)
deriving Repr, Inhabited

def lowerChar (c : Char) : Char :=
  if c = 'Ä' then 'ä' else if c = 'Ö' then 'ö' else if c = 'Ü' then 'ü' else c.toLower

/-- `value.lower().strip()` (ASCII white space) -/
def normName (s : String) : String := (s.trimAscii.toString.map lowerChar)

/-- `get_day_nr` / `get_month_nr`: look the normalised name up in the table -/
def lookupName (table : List (String × Nat)) (s : String) : Option Int :=
  (table.find? (·.1 = normName s)).map fun p => (p.2 : Int)

def isAsciiDigits (s : String) : Bool := !s.isEmpty && s.all Char.isDigit

/-- `_parse_single_value` for a string -/
def parseSingleStr (table : Option (List (String × Nat))) (min max : Int) (s : String) : Except Err Int :=
  let t := s.trimAscii.toString
  let v : Except Err Int :=
    if isAsciiDigits t then .ok (Int.ofNat t.toNat!)
    else match table with
      | none => .error .valueError
      | some tb => match lookupName tb t with
        | some n => .ok n
        | none => .error .valueError
  match v with
  | .error e => .error e
  | .ok n => if min ≤ n ∧ n ≤ max then .ok n else .error .valueError

def parseSingleInt (min max n : Int) : Except Err Int :=
  if min ≤ n ∧ n ≤ max then .ok n else .error .valueError

def sequenceE {α : Type} : List (Except Err α) → Except Err (List α)
  | [] => .ok []
  | .error e :: _ => .error e
  | .ok a :: rest => match sequenceE rest with
    | .error e => .error e
    | .ok as => .ok (a :: as)

/-- one string without commas: a range `a-b` (split at the first `-`) or a single value -/
def parseRangeOrSingle (table : Option (List (String × Nat))) (min max : Int) (s : String) : Except Err (List Int) :=
  match s.splitOn "-" with
  | [single] => (parseSingleStr table min max single).map fun n => [n]
  | a :: rest =>
    match parseSingleStr table min max a, parseSingleStr table min max ("-".intercalate rest) with
    | .ok x, .ok y => .ok (wrappedRange x y max)
    | .error e, _ => .error e
    | _, .error e => .error e
  | [] => .error .valueError

/-- `_parse_str_options` -/
def parseStrOptions (table : Option (List (String × Nat))) (min max : Int) (s : String) : Except Err (List Int) :=
  (sequenceE ((s.splitOn ",").map (parseRangeOrSingle table min max))).map List.flatten

mutual
/-- `_parse_values` on one (possibly nested) argument -/
def parseItem (table : Option (List (String × Nat))) (min max : Int) : Item → Except Err (List Int)
  | .int n => (parseSingleInt min max n).map fun v => [v]
  | .str s => parseStrOptions table min max s
  | .list xs => parseItems table min max xs
/-- an empty iterable raises `No values provided` -/
def parseItems (table : Option (List (String × Nat))) (min max : Int) : List Item → Except Err (List Int)
  | [] => .error .valueError
  | [x] => parseItem table min max x
  | x :: xs => match parseItem table min max x, parseItems table min max xs with
    | .ok a, .ok b => .ok (a ++ b)
    | .error e, _ => .error e
    | _, .error e => .error e
end

def sortDedup (l : List Int) : List Int :=
  ((l.toArray.qsort (· < ·)).toList).eraseDups

/-- `get_weekdays(*values)`, `get_days`, `get_months`: sorted list of the denoted set -/
def getWeekdays (xs : List Item) : Except Err (List Int) :=
  (parseItems (some Gen.dayNames) 1 7 xs).map sortDedup
def getDays (xs : List Item) : Except Err (List Int) :=
  (parseItems none 1 31 xs).map sortDedup
def getMonths (xs : List Item) : Except Err (List Int) :=
  (parseItems (some Gen.monthNames) 1 12 xs).map sortDedup

end Ea
