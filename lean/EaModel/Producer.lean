import EaModel.Filter
import EaModel.Replace
/-!
# The producer (trigger) expression language and `get_next`

One constructor per producer class of `eascheduler.producers`; every node carries the optional filter
that `only_on` attaches. `getNext env p dt` is `p.get_next(dt)`.
-/
namespace Ea

/-- everything `get_next` reads besides the producer and the reference instant -/
structure Env where
  zone : Zone := {}
  /-- opaque date predicates of holiday filters -/
  ext : Nat → Int → Bool := fun _ _ => false
  /-- `random.uniform(a, b)` as an arbitrary function of its arguments and of the call context
  `(a, b, next_dt, dt)`, all in nanoseconds; the result is the number of nanoseconds that is added -/
  draw : Int → Int → Int → Int → Int := fun a _ _ _ => a
  /-- a location was configured with `set_location` -/
  hasLocation : Bool := true
  /-- what astral returns for sun event `kind` on UTC date `day` (`none` = it raises `ValueError`) -/
  eph : Nat → Int → Option Int := fun _ _ => none
  /-- fuel for the *unbounded* `while` of `IntervalProducer.get_next` (known finding F7a);
  running out of it stands for "the real code does not return" -/
  intervalFuel : Nat := 1000000

inductive Producer
  | time (r : TimeRep) (f : Option Filter)
  | interval (start : Option Int) (step : Int) (f : Option Filter)
  | group (ps : List Producer) (f : Option Filter)
  | offset (p : Producer) (off : Int) (f : Option Filter)
  | earliest (p : Producer) (r : TimeRep) (f : Option Filter)
  | latest (p : Producer) (r : TimeRep) (f : Option Filter)
  | jitter (p : Producer) (low high : Int) (f : Option Filter)
  | sun (kind : Nat) (f : Option Filter)
deriving Repr, Inhabited

/-- `(f := self._filter) is None or f.allow(value.to_system_tz())` -/
def Env.allows (env : Env) (f : Option Filter) (u : Int) : Bool :=
  allowOpt env.ext f (env.zone.toLocal u)

/-- inner `for local_dt in local_dts` of `TimeProducer.get_next` -/
def firstCand (env : Env) (f : Option Filter) (dt : Int) : List Int → Option Int
  | [] => none
  | c :: cs => if c > dt ∧ env.allows f c then some c else firstCand env f dt cs

/-- `TimeProducer.get_next` -/
def timeNext (env : Env) (r : TimeRep) (f : Option Filter) (dt : Int) : Except Err Int :=
  loopN LOOP (env.zone.localDay dt - 1) fun day =>
    match r.replace env.zone day with
    | .error e => .error e
    | .ok cands =>
      match firstCand env f dt cands with
      | some c => .ok (.inr c)
      | none => .ok (.inl (day + 1))

/-- first grid point strictly after `dt` on the grid `a + k·step` (closed form of the two catch-up loops) -/
def gridAfter (a step dt : Int) : Int := a + ((dt - a) / step + 1) * step

/-- the filter part of the second `while` of `IntervalProducer.get_next` — unbounded in the code -/
def gridSearch (env : Env) (f : Option Filter) (step : Int) : Nat → Int → Except Err Int
  | 0, _ => .error .diverged
  | n + 1, g => if env.allows f g then .ok g else gridSearch env f step n (g + step)

/-- `new_dt = self._next` or, for an interval without start, `dt.add(microseconds=1)` -/
def intervalAnchor (start : Option Int) (dt : Int) : Int := start.getD (dt + NS_PER_US)

/-- `IntervalProducer.get_next`; `start = none` anchors the grid one microsecond after `dt` -/
def intervalNext (env : Env) (start : Option Int) (step : Int) (f : Option Filter) (dt : Int) :
    Except Err Int :=
  if step ≤ 0 then .error .valueError else   -- rejected by `get_pos_timedelta_secs`
  gridSearch env f step env.intervalFuel (gridAfter (intervalAnchor start dt) step dt)

/-- bound selected by the DST policy for `earliest` / `latest` on the local date of `n` -/
def boundFor (env : Env) (r : TimeRep) (n dt : Int) : Except Err (Option Int) :=
  match r.replace env.zone (env.zone.localDay n) with
  | .error e => .error e
  | .ok [] => .ok none
  | .ok [b] => .ok (some b)
  | .ok (a :: b :: _) => .ok (some (if a ≤ dt then b else a))

def earliestApply (env : Env) (r : TimeRep) (n dt : Int) : Except Err Int :=
  match boundFor env r n dt with
  | .error e => .error e
  | .ok none => .ok n
  | .ok (some b) => .ok (if n < b then b else n)

def latestApply (env : Env) (r : TimeRep) (n dt : Int) : Except Err Int :=
  match boundFor env r n dt with
  | .error e => .error e
  | .ok none => .ok n
  | .ok (some b) => .ok (if n > b then b else n)

/-- the small fraction `0.0001` s that is added when the jitter window is shifted forward -/
def JITTER_EPS : Int := 100000

def jitterApply (env : Env) (low high n dt : Int) : Int :=
  if low ≥ 0 then n + env.draw low high n dt else
  let lowest := dt - n
  if lowest < low then n + env.draw low high n dt else
  let diff := lowest - low + JITTER_EPS
  n + env.draw (low + diff) (high + diff) n dt

/-- number of further dates `_get_next_sun` tries when astral raises (`tries = 366`) -/
def SUN_TRIES : Nat := 366

/-- the `for i in range(tries + 1)` of `SunProducer._get_next_sun` from UTC date `day` -/
def sunFind (env : Env) (kind : Nat) : Nat → Int → Except Err Int
  | 0, _ => .error .valueError
  | n + 1, day =>
    match env.eph kind day with
    | some t => .ok t
    | none => sunFind env kind n (day + 1)

/-- round up to the next full second (`if next_sun.microsecond`) -/
def ceilSec (t : Int) : Int := if t % NS_PER_S = 0 then t else (t / NS_PER_S) * NS_PER_S + NS_PER_S

def sunNextRaw (env : Env) (kind : Nat) (dt : Int) : Except Err Int :=
  if !env.hasLocation then .error .locationNotSet else
  match sunFind env kind (SUN_TRIES + 1) (dayOf dt) with
  | .error e => .error e
  | .ok t => .ok (ceilSec t)

def sunNext (env : Env) (kind : Nat) (f : Option Filter) (dt : Int) : Except Err Int :=
  loopN LOOP dt fun cur =>
    match sunNextRaw env kind cur with
    | .error e => .error e
    | .ok s => if s > dt ∧ env.allows f s then .ok (.inr s) else .ok (.inl (s + 24 * NS_PER_HOUR))

/-- body shared by the operation producers (`DateTimeProducerOperationBase.get_next`) -/
def opStep (env : Env) (f : Option Filter) (dt : Int) (n : Int) (v : Except Err Int) :
    Except Err (Sum Int Int) :=
  match v with
  | .error e => .error e
  | .ok v => if v > dt ∧ env.allows f v then .ok (.inr v) else .ok (.inl n)

mutual
def getNext (env : Env) : Producer → Int → Except Err Int
  | .time r f, dt => timeNext env r f dt
  | .interval start step f, dt => intervalNext env start step f dt
  | .sun kind f, dt => sunNext env kind f dt
  | .group ps f, dt =>
      loopN LOOP dt fun cur =>
        match getNextList env ps cur with
        | .error e => .error e
        | .ok vals =>
          match minList vals with
          | none => .error .valueError      -- `min()` of an empty sequence
          | some m => if m > dt ∧ env.allows f m then .ok (.inr m) else .ok (.inl m)
  | .offset p off f, dt =>
      loopN LOOP dt fun cur =>
        match getNext env p cur with
        | .error e => .error e
        | .ok n => opStep env f dt n (.ok (n + off))
  | .earliest p r f, dt =>
      loopN LOOP dt fun cur =>
        match getNext env p cur with
        | .error e => .error e
        | .ok n => opStep env f dt n (earliestApply env r n dt)
  | .latest p r f, dt =>
      loopN LOOP dt fun cur =>
        match getNext env p cur with
        | .error e => .error e
        | .ok n => opStep env f dt n (latestApply env r n dt)
  | .jitter p low high f, dt =>
      loopN LOOP dt fun cur =>
        match getNext env p cur with
        | .error e => .error e
        | .ok n => opStep env f dt n (.ok (jitterApply env low high n dt))
def getNextList (env : Env) : List Producer → Int → Except Err (List Int)
  | [], _ => .ok []
  | p :: ps, dt =>
    match getNext env p dt with
    | .error e => .error e
    | .ok v => match getNextList env ps dt with
      | .error e => .error e
      | .ok vs => .ok (v :: vs)
end

mutual
/-- what the first query does to the object: an interval without start is anchored on its first query -/
def Producer.anchorAt (dt : Int) : Producer → Producer
  | .time r f => .time r f
  | .interval none step f => .interval (some (dt + NS_PER_US)) step f
  | .interval (some a) step f => .interval (some a) step f
  | .sun k f => .sun k f
  | .group ps f => .group (Producer.anchorListAt dt ps) f
  | .offset p o f => .offset (p.anchorAt dt) o f
  | .earliest p r f => .earliest (p.anchorAt dt) r f
  | .latest p r f => .latest (p.anchorAt dt) r f
  | .jitter p l h f => .jitter (p.anchorAt dt) l h f
def Producer.anchorListAt (dt : Int) : List Producer → List Producer
  | [] => []
  | p :: ps => p.anchorAt dt :: Producer.anchorListAt dt ps
end

end Ea
