import EaModel.Civil
/-!
# Time zones as transition tables

A zone is an initial UTC offset and a list of `(utc instant of the transition, new offset)`, both in
nanoseconds. `toLocal u = u + offsetAt u`. Resolving a local time `L` follows PEP 495 as implemented by
`whenever`'s `SystemDateTime`: one solution → unique, two → repeated (fold), none → skipped (gap).
-/
namespace Ea

structure Zone where
  init : Int := 0
  trans : List (Int × Int) := []
deriving Repr, Inhabited

def offAt : Int → List (Int × Int) → Int → Int
  | cur, [], _ => cur
  | cur, (t, o) :: rest, u => if u < t then cur else offAt o rest u

def Zone.offsetAt (z : Zone) (u : Int) : Int := offAt z.init z.trans u
def Zone.toLocal (z : Zone) (u : Int) : Int := u + z.offsetAt u

/-- result of resolving a local wall clock reading -/
inductive Res
  | unique (u : Int)
  | gap (earlier later : Int)     -- skipped: `earlier` = L − offset after, `later` = L − offset before
  | fold (first second : Int)     -- repeated
deriving Repr, DecidableEq

/-- `lower bound ≤ u` where `none` is −∞ -/
def GeLo : Option Int → Int → Prop
  | none, _ => True
  | some l, u => l ≤ u

instance : ∀ lo u, Decidable (GeLo lo u)
  | none, _ => isTrue trivial
  | some l, u => inferInstanceAs (Decidable (l ≤ u))

/-- all utc instants `u` (not before `lo`) whose local representation is `L`, ascending -/
def sols : Int → Option Int → List (Int × Int) → Int → List Int
  | cur, lo, [], L => if GeLo lo (L - cur) then [L - cur] else []
  | cur, lo, (t, o) :: rest, L =>
      (if GeLo lo (L - cur) ∧ L - cur < t then [L - cur] else []) ++ sols o (some t) rest L

/-- the first transition whose gap contains `L`: returns (offset before, offset after) -/
def findGap : Int → List (Int × Int) → Int → Option (Int × Int)
  | _, [], _ => none
  | cur, (t, o) :: rest, L =>
      if t + cur ≤ L ∧ L < t + o then some (cur, o) else findGap o rest L

def Zone.resolve (z : Zone) (L : Int) : Res :=
  match sols z.init none z.trans L with
  | [u] => .unique u
  | u :: us => .fold u (us.getLast?.getD u)
  | [] =>
    match findGap z.init z.trans L with
    | some (before, after) => .gap (L - after) (L - before)
    | none => .unique (L - z.init)   -- unreachable for sorted tables (theorem `resolve_total`)

/-- local date (day number) and time of day of an instant -/
def Zone.localDay (z : Zone) (u : Int) : Int := dayOf (z.toLocal u)
def Zone.localTod (z : Zone) (u : Int) : Int := todOf (z.toLocal u)

end Ea
