/-!
# `run_jobs` when a synchronous callable creates jobs in the middle of a wake-up

The scheduler model of `Sched.lean` issues operations between wake-ups (that is what C01/C02 quantify over). C09 has
no such restriction, so the one re-entrant use that matters for the *order* of executions is modelled here on its
own: the callable of a job that is being executed calls `scheduler.once(...)` / `JobBuilder.once(...)`.

`add_job` inserts the new job with `bisect.insort` and calls `_set_timer`; when the head of the queue is due,
`_set_timer` runs `run_jobs` recursively, which drains every due job and returns to the outer loop, which then finds
nothing due. Observably — the order in which callables are started — this is the loop below: pop the head while it
is due, start it, insert what it creates, continue.
-/
namespace Ea.Re

structure J where
  id : Nat
  due : Int
deriving Repr, DecidableEq

/-- `bisect.insort` (= `insort_right`) on the run time: after every queued job that is due no later -/
def insort : List J → J → List J
  | [], j => [j]
  | x :: xs, j => if j.due < x.due then j :: x :: xs else x :: insort xs j

/-- one wake-up at instant `now`; `spawn i` = the jobs the callable of job `i` creates when it is started.
The log records every started job together with the queue it left behind at that moment. -/
def run (spawn : Nat → List J) (now : Int) : Nat → List J → List (J × List J) → List J × List (J × List J)
  | 0, q, log => (q, log)
  | _ + 1, [], log => ([], log)
  | fuel + 1, j :: q, log =>
    if now < j.due then (j :: q, log)
    else run spawn now fuel ((spawn j.id).foldl insort q) (log ++ [(j, q)])

def Sorted : List J → Prop
  | [] => True
  | x :: xs => (∀ y ∈ xs, x.due ≤ y.due) ∧ Sorted xs

theorem mem_insort (q : List J) (j y : J) : y ∈ insort q j ↔ y = j ∨ y ∈ q := by
  induction q with
  | nil => simp [insort]
  | cons x xs ih =>
    unfold insort
    split
    · simp
    · simp only [List.mem_cons, ih]
      constructor
      · rintro (h | h | h)
        · exact Or.inr (Or.inl h)
        · exact Or.inl h
        · exact Or.inr (Or.inr h)
      · rintro (h | h | h)
        · exact Or.inr (Or.inl h)
        · exact Or.inl h
        · exact Or.inr (Or.inr h)

theorem insort_sorted (q : List J) (j : J) (h : Sorted q) : Sorted (insort q j) := by
  induction q with
  | nil => simp [insort, Sorted]
  | cons x xs ih =>
    unfold insort
    split
    · next hlt =>
      refine ⟨?_, h⟩
      intro y hy
      rcases List.mem_cons.1 hy with rfl | hy
      · omega
      · have := h.1 y hy; omega
    · next hge =>
      refine ⟨?_, ih h.2⟩
      intro y hy
      rcases (mem_insort xs j y).1 hy with rfl | hy
      · omega
      · exact h.1 y hy

theorem foldl_insort_sorted (js : List J) (q : List J) (h : Sorted q) : Sorted (js.foldl insort q) := by
  induction js generalizing q with
  | nil => exact h
  | cons j js ih => exact ih _ (insort_sorted q j h)

/-- every started job was due no later than anything it left waiting in the queue -/
def LogOK (log : List (J × List J)) : Prop := ∀ e ∈ log, ∀ y ∈ e.2, e.1.due ≤ y.due

/-- **order with re-entrant creations**: in a wake-up in which callables create further jobs (due at once or not),
every job is started no later in the order than any job that was waiting in the queue at that moment and has an
earlier run time — the started job always is a minimum of the queue; and the queue stays sorted -/
theorem run_order (spawn : Nat → List J) (now : Int) : ∀ (fuel : Nat) (q : List J) (log : List (J × List J)),
    Sorted q → LogOK log → Sorted (run spawn now fuel q log).1 ∧ LogOK (run spawn now fuel q log).2
  | 0, q, log, hs, hl => by simp [run]; exact ⟨hs, hl⟩
  | _ + 1, [], log, _, hl => by simp [run, Sorted]; exact hl
  | fuel + 1, j :: q, log, hs, hl => by
    unfold run
    split
    · exact ⟨hs, hl⟩
    · refine run_order spawn now fuel _ _ (foldl_insort_sorted _ _ hs.2) ?_
      intro e he
      rcases List.mem_append.1 he with he | he
      · exact hl e he
      · simp at he; subst he; exact hs.1

/-- the started jobs, in order -/
def order (spawn : Nat → List J) (now : Int) (fuel : Nat) (q : List J) : List Nat :=
  (run spawn now fuel q []).2.map (·.1.id)

-- executable checks: A(1) B(2) C(3) due, A creates X(10), now = 10: A B C X; a job created for an earlier time than
-- the waiting ones goes first
#guard order (fun i => if i = 1 then [⟨9, 10⟩] else []) 10 100 [⟨1, 1⟩, ⟨2, 2⟩, ⟨3, 3⟩] == [1, 2, 3, 9]
#guard order (fun i => if i = 1 then [⟨9, 2⟩] else []) 10 100 [⟨1, 1⟩, ⟨2, 2⟩, ⟨3, 3⟩] == [1, 2, 9, 3]
#guard order (fun i => if i = 2 then [⟨9, 0⟩] else []) 10 100 [⟨1, 1⟩, ⟨2, 2⟩, ⟨3, 3⟩] == [1, 2, 9, 3]

end Ea.Re
