import EaModel.Basic
/-!
# asyncio task life-cycle and the five task managers (`task_managers/sequential.py`, `parallel.py`)

asyncio is modelled by its ready queue: `create_task` schedules the first step of the task, a finished task
schedules its done callbacks, `cancel()` of a waiting task schedules its wake-up with `CancelledError`;
`drain` runs the ready queue first-in first-out until it is empty. Coroutines are instrumented: they report
when their body is entered and left; a coroutine that was closed or cancelled before its first step never
enters its body.
-/
namespace Ea

inductive SeqPolicy | skip | skipFirst | skipLast
deriving DecidableEq, Repr, Inhabited
inductive ParPolicy | skip | cancelFirst | cancelLast
deriving DecidableEq, Repr, Inhabited

inductive MgrKind
  | sequential                                  -- SequentialTaskManager
  | limitingSeq (maxQueue : Nat) (p : SeqPolicy) -- LimitingSequentialTaskManager
  | dedup                                       -- SequentialDeduplicatingTaskManager
  | parallel                                    -- ParallelTaskManager
  | limitingPar (limit : Nat) (p : ParPolicy)   -- LimitingParallelTaskManager
deriving DecidableEq, Repr, Inhabited

inductive TStatus | pendingStart | suspended | done
deriving DecidableEq, Repr, Inhabited

structure Task where
  coro : Nat
  status : TStatus := .pendingStart
  cancelReq : Bool := false
  delivered : Bool := false     -- the done callback of the manager has run
deriving Repr, Inhabited

/-- what a coroutine does when it is resumed by the harness: coroutines it submits itself (from inside the
running task) and coroutines a listener submits that the task wakes as its last action -/
structure Last where
  inside : List (Nat × Nat) := []      -- (coroutine, key)
  listener : List (Nat × Nat) := []
deriving Repr, Inhabited

inductive Ready
  | step (t : Nat)                       -- first step of a task
  | resume (t : Nat) (fail : Bool) (last : Last)
  | resumeCancel (t : Nat)
  | doneCb (t : Nat)
  | listener (subs : List (Nat × Nat))
deriving Repr, Inhabited

inductive TEv
  | enter (c : Nat) | exit (c : Nat) | cancelled (c : Nat) | closed (c : Nat) | failed (c : Nat)
  /-- bookkeeping for the conservation theorem: `create_task(coro)` of the manager was called with coroutine `c` -/
  | submitted (c : Nat)
  /-- a task that was cancelled before its first step: the coroutine is closed without having run (observably the
  same as `closed`, but the coroutine did get a task) -/
  | closedTask (c : Nat)
deriving Repr, DecidableEq, Inhabited

structure TSt where
  kind : MgrKind := .sequential
  tasks : List Task := []                -- task id = index
  ready : List Ready := []
  /-- sequential managers: `self.task`, `self.queue` (coroutine, key) -/
  cur : Option Nat := none
  queue : List (Nat × Nat) := []
  /-- parallel managers: `self.tasks` in insertion order -/
  tracked : List Nat := []
  log : List TEv := []                   -- newest first
deriving Repr, Inhabited

/-- the observable events of a log (the bookkeeping entries `submitted` left out), oldest first -/
def observable (log : List TEv) : List TEv :=
  log.reverse.filter fun e => match e with | .submitted _ => false | _ => true

def TSt.emit (s : TSt) (e : TEv) : TSt := { s with log := e :: s.log }
/-- task `t`; an id that was never handed out reads as a finished, delivered task (no operation acts on it) -/
def TSt.task (s : TSt) (t : Nat) : Task := s.tasks.getD t { coro := 0, status := .done, delivered := true }
def TSt.setTask (s : TSt) (t : Nat) (x : Task) : TSt := { s with tasks := s.tasks.set t x }

/-- `asyncio.create_task(coro)`: a new task whose first step is scheduled -/
def TSt.createTask (s : TSt) (c : Nat) : TSt × Nat :=
  let t := s.tasks.length
  ({ s with tasks := s.tasks ++ [{ coro := c }], ready := s.ready ++ [.step t] }, t)

/-- `task.cancel()` -/
def TSt.cancelTask (s : TSt) (t : Nat) : TSt :=
  let x := s.task t
  match x.status with
  | .done => s
  | .pendingStart => s.setTask t { x with cancelReq := true }
  | .suspended =>
    if x.cancelReq then s else
    { (s.setTask t { x with cancelReq := true }) with ready := s.ready ++ [.resumeCancel t] }

/-- `self.task = create_task(coro)` for the head of the queue -/
def startNext (s : TSt) (c : Nat) (rest : List (Nat × Nat)) : TSt :=
  { s with queue := rest, tasks := s.tasks ++ [{ coro := c }], ready := s.ready ++ [.step s.tasks.length],
           cur := some s.tasks.length }

/-- `if done_task is self.task: self.task = None` -/
def clearCur (s : TSt) (done : Option Nat) : TSt := if done = s.cur then { s with cur := none } else s

/-- `SequentialTaskManagerBase._task_done(done_task)` (`done = none` is the call from `_task_start`) -/
def seqTaskDone (s : TSt) (done : Option Nat) : TSt :=
  match (clearCur s done).queue with
  | [] => clearCur s done
  | (c, _) :: rest => startNext (clearCur s done) c rest

/-- `_task_start` -/
def seqTaskStart (s : TSt) : TSt :=
  match s.cur with
  | some _ => s
  | none => seqTaskDone s none

/-- `manager.create_task(coro[, key])`, the body -/
def submitCore (s : TSt) (c key : Nat) : TSt :=
  match s.kind with
  | .sequential => seqTaskStart { s with queue := s.queue ++ [(c, key)] }
  | .limitingSeq maxQ pol =>
    if s.queue.length ≥ maxQ then
      match pol with
      | .skip => s.emit (.closed c)
      | .skipFirst =>
        match s.queue with
        | [] => seqTaskStart { s with queue := [(c, key)] }
        | (c0, _) :: rest => seqTaskStart { (s.emit (.closed c0)) with queue := rest ++ [(c, key)] }
      | .skipLast =>
        match s.queue.getLast? with
        | none => seqTaskStart { s with queue := [(c, key)] }
        | some (c0, _) => seqTaskStart { (s.emit (.closed c0)) with queue := s.queue.dropLast ++ [(c, key)] }
    else seqTaskStart { s with queue := s.queue ++ [(c, key)] }
  | .dedup =>
    match s.queue.find? (·.2 = key) with
    | some (c0, _) =>
      seqTaskStart { (s.emit (.closed c0)) with queue := s.queue.filter (·.2 ≠ key) ++ [(c, key)] }
    | none => seqTaskStart { s with queue := s.queue ++ [(c, key)] }
  | .parallel =>
    let (s', t) := s.createTask c
    { s' with tracked := s'.tracked ++ [t] }
  | .limitingPar limit pol =>
    if s.tracked.length ≥ limit then
      match pol with
      | .skip => s.emit (.closed c)
      | .cancelFirst =>
        match s.tracked with
        | [] => let (s', t) := s.createTask c; { s' with tracked := [t] }
        | t0 :: rest =>
          let s1 := { s with tracked := rest }.cancelTask t0
          let (s', t) := s1.createTask c
          { s' with tracked := s'.tracked ++ [t] }
      | .cancelLast =>
        match s.tracked.getLast? with
        | none => let (s', t) := s.createTask c; { s' with tracked := [t] }
        | some t0 =>
          let s1 := { s with tracked := s.tracked.dropLast }.cancelTask t0
          let (s', t) := s1.createTask c
          { s' with tracked := s'.tracked ++ [t] }
    else
      let (s', t) := s.createTask c
      { s' with tracked := s'.tracked ++ [t] }

/-- `manager.create_task(coro[, key])` -/
def submit (s : TSt) (c key : Nat) : TSt := submitCore (s.emit (.submitted c)) c key

def submitAll (s : TSt) : List (Nat × Nat) → TSt
  | [] => s
  | (c, k) :: rest => submitAll (submit s c k) rest

/-- the done callback the manager attached to task `t` -/
def managerDone (s : TSt) (t : Nat) : TSt :=
  let s := s.setTask t { s.task t with delivered := true }
  match s.kind with
  | .sequential | .limitingSeq _ _ | .dedup => seqTaskDone s (some t)
  | .parallel | .limitingPar _ _ => { s with tracked := s.tracked.erase t }

/-- the task finished: schedule its done callbacks -/
def finishTask (s : TSt) (t : Nat) : TSt :=
  { (s.setTask t { s.task t with status := .done }) with ready := s.ready ++ [.doneCb t] }

/-- run one entry of the ready queue -/
def runReady (s : TSt) : Ready → TSt
  | .step t =>
    let x := s.task t
    if x.status ≠ .pendingStart then s else
    if x.cancelReq then finishTask (s.emit (.closedTask x.coro)) t      -- CancelledError thrown into the unstarted coroutine
    else (s.setTask t { x with status := .suspended }).emit (.enter x.coro)
  | .resume t fail last =>
    let x := s.task t
    if x.status ≠ .suspended ∨ x.cancelReq then s else
    let s := submitAll s last.inside                                  -- submissions from inside the running task
    let s := if last.listener.isEmpty then s else { s with ready := s.ready ++ [.listener last.listener] }
    finishTask (s.emit (if fail then .failed x.coro else .exit x.coro)) t
  | .resumeCancel t =>
    let x := s.task t
    if x.status ≠ .suspended then s else finishTask (s.emit (.cancelled x.coro)) t
  | .doneCb t => managerDone s t
  | .listener subs => submitAll s subs

/-- run the ready queue until it is empty (`fuel` bounds the number of callbacks) -/
def drain : Nat → TSt → TSt
  | 0, s => s
  | n + 1, s =>
    match s.ready with
    | [] => s
    | r :: rest => drain n (runReady { s with ready := rest } r)

inductive TOp
  | submit (c key : Nat)
  | complete (t : Nat) (fail : Bool) (last : Last)   -- the future the task waits for is resolved
  | cancel (t : Nat)                                 -- external `task.cancel()`
deriving Repr, Inhabited

def DRAIN_FUEL : Nat := 10000

/-- the harness operation itself -/
def applyOp (s : TSt) : TOp → TSt
  | .submit c k => submit s c k
  | .complete t fail last =>
    if (s.task t).status = .suspended ∧ !(s.task t).cancelReq then
      { s with ready := s.ready ++ [Ready.resume t fail last] }
    else s
  | .cancel t => s.cancelTask t

/-- one harness operation followed by running the loop until it is idle -/
def tstep (s : TSt) (op : TOp) : TSt := drain DRAIN_FUEL (applyOp s op)

end Ea
