import EaModel.Zone
/-!
# `TimeReplacer.replace` (`helpers/time_replace.py`) — a wall clock time on a local date under a DST policy
-/
namespace Ea

inductive Skipped | skip | earlier | later | after
deriving Repr, DecidableEq, Inhabited
inductive Repeated | skip | earlier | later | twice
deriving Repr, DecidableEq, Inhabited

structure TimeRep where
  tod : Int                      -- nanosecond of the day
  skipped : Skipped := .after
  repeated : Repeated := .earlier
deriving Repr, Inhabited

/-- `find_time_after_dst_switch`: walk forward minute by minute (at most `n` = 121 steps) from the
wall clock reading `Lm` until it is not skipped. A repeated reading raises `RepeatedTime`
(the code only catches `SkippedTime`). -/
def findAfter (z : Zone) : Nat → Int → Except Err Int
  | 0, _ => .error .valueError
  | n + 1, Lm =>
    let L := Lm + NS_PER_MIN
    match z.resolve L with
    | .unique u => .ok u
    | .gap _ _ => findAfter z n L
    | .fold _ _ => .error .repeatedTime

/-- number of minutes `find_time_after_dst_switch` tries (`range(121)`) -/
def AFTER_TRIES : Nat := 121

/-- candidates of the time on local date `day`: none (`TimeSkippedError`), one, or two (`TimeTwiceError`) -/
def TimeRep.replace (r : TimeRep) (z : Zone) (day : Int) : Except Err (List Int) :=
  let L := day * NS_PER_DAY + r.tod
  match z.resolve L with
  | .unique u => .ok [u]
  | .gap e l =>
    match r.skipped with
    | .skip => .ok []
    | .earlier => .ok [e]
    | .later => .ok [l]
    | .after =>
      match findAfter z AFTER_TRIES (day * NS_PER_DAY + (r.tod / NS_PER_MIN) * NS_PER_MIN) with
      | .ok u => .ok [u]
      | .error e => .error e
  | .fold a b =>
    match r.repeated with
    | .skip => .ok []
    | .earlier => .ok [a]
    | .later => .ok [b]
    | .twice => .ok [a, b]

end Ea
