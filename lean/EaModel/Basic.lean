/-!
# Basic definitions shared by all models

Instants and durations are `Int` nanoseconds (instants: since the Unix epoch).
Errors raised by the code are values of `Err`, so theorems can say which inputs are rejected.
Python loops become structural recursion on an explicit counter (`loopN`).
-/
namespace Ea

/-- the exceptions of `eascheduler` (and of its callers) that the models distinguish -/
inductive Err
  | infiniteLoop        -- InfiniteLoopDetectedError
  | locationNotSet      -- LocationNotSetError
  | holidaysNotSetUp    -- HolidaysNotSetUpError
  | triggerFailed       -- a user supplied trigger / test double raised
  | valueError          -- ValueError
  | typeError           -- TypeError
  | skippedTime         -- whenever.SkippedTime
  | repeatedTime        -- whenever.RepeatedTime
  | runInThePast        -- ScheduledRunInThePastError
  | alreadyFinished     -- JobAlreadyFinishedError
  | notLinked           -- JobNotLinkedToSchedulerError
  | notImplemented      -- NotImplementedError / AttributeError (operation does not exist for the job kind)
  | timeNotSet          -- JobExecutionTimeIsNotSetError
  | keyError            -- KeyError (duplicate id in the job store)
  | recursion           -- RecursionError (fuel of the mutual recursion exhausted)
  | diverged            -- the real code does not return (used for documented known findings only)
deriving Repr, DecidableEq, Inhabited

def Err.name : Err → String
  | .infiniteLoop => "InfiniteLoopDetectedError"
  | .locationNotSet => "LocationNotSetError"
  | .holidaysNotSetUp => "HolidaysNotSetUpError"
  | .triggerFailed => "TriggerFailed"
  | .valueError => "ValueError"
  | .typeError => "TypeError"
  | .skippedTime => "SkippedTime"
  | .repeatedTime => "RepeatedTime"
  | .runInThePast => "ScheduledRunInThePastError"
  | .alreadyFinished => "JobAlreadyFinishedError"
  | .notLinked => "JobNotLinkedToSchedulerError"
  | .notImplemented => "NotImplemented"
  | .timeNotSet => "JobExecutionTimeIsNotSetError"
  | .keyError => "KeyError"
  | .recursion => "RecursionError"
  | .diverged => "DIVERGED"

/-- number of iterations `for _ in not_infinite_loop()` performs before it raises
(`range(1, 100_000)`); re-checked against the source on every run (`Generated.lean`). -/
def LOOP : Nat := 99999

/-- `for _ in not_infinite_loop(): body` with loop state `σ`: the body either returns (`inr`),
continues with a new state (`inl`) or raises. When the counter runs out the generator raises
`InfiniteLoopDetectedError`. -/
def loopN {σ α : Type} (n : Nat) (st : σ) (body : σ → Except Err (Sum σ α)) : Except Err α :=
  match n with
  | 0 => .error .infiniteLoop
  | n + 1 =>
    match body st with
    | .error e => .error e
    | .ok (.inr a) => .ok a
    | .ok (.inl st') => loopN n st' body

/-- like `loopN` but also counts the iterations that were performed (for the C16 work bound) -/
def loopNC {σ α : Type} (n : Nat) (st : σ) (body : σ → Except Err (Sum σ α)) (cnt : Nat := 0) :
    Except Err α × Nat :=
  match n with
  | 0 => (.error .infiniteLoop, cnt)
  | n + 1 =>
    match body st with
    | .error e => (.error e, cnt + 1)
    | .ok (.inr a) => (.ok a, cnt + 1)
    | .ok (.inl st') => loopNC n st' body (cnt + 1)

def NS_PER_US : Int := 1000
def NS_PER_MS : Int := 1000000
def NS_PER_S : Int := 1000000000
def NS_PER_MIN : Int := 60 * 1000000000
def NS_PER_HOUR : Int := 3600 * 1000000000
def NS_PER_DAY : Int := 86400 * 1000000000

/-- the value of a successful computation (for executable checks) -/
def okVal {α : Type} : Except Err α → Option α
  | .ok a => some a
  | .error _ => none

/-- minimum of a list of integers -/
def minList : List Int → Option Int
  | [] => none
  | x :: xs => match minList xs with
    | none => some x
    | some m => some (if x ≤ m then x else m)

end Ea
