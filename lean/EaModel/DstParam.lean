import EaModel.GetInstant
import EaModel.Replace
import EaModel.Generated
/-!
# `helpers/dst_param.py`: which times of day need an explicit DST policy in the current year

`find_time` scans the months / hours in the order given in the source (read on every run into `Generated.lean`)
for a day on which `hh:30` is skipped or repeated, then probes the full hour around it.
-/
namespace Ea

inductive Validity | valid | skipped | repeated
deriving DecidableEq, Repr, Inhabited

def Zone.validity (z : Zone) (L : Int) : Validity :=
  match z.resolve L with
  | .unique _ => .valid
  | .gap _ _ => .skipped
  | .fold _ _ => .repeated

/-- `_iter_nr(nrs, lower, upper)`; with `reverse` the argument is an exhausted `reversed` iterator when the second
loop tests `nr not in nrs`, so every number of the range is yielded again -/
def dstIterNr (order : List Nat) (rev : Bool) (lo n : Nat) : List Nat :=
  if rev then order.reverse ++ List.range' lo n
  else order ++ (List.range' lo n).filter (fun x => !order.contains x)

/-- the instants `start, start + 24 h, …` while the local month is `month` -/
def monthDates (z : Zone) (month : Int) : Nat → Int → List Int
  | 0, _ => []
  | n + 1, u => if (civilFromDays (z.localDay u)).m = month then u :: monthDates z month n (u + 24 * NS_PER_HOUR) else []

def HALF : Int := 30 * NS_PER_MIN
def HOUR_END : Int := NS_PER_HOUR - 1     -- hh:59:59.999999999

/-- months and hours in the order `_iter_date` visits them -/
def dstMonths (rev : Bool) : List Nat := dstIterNr Gen.dstMonthOrder rev 1 12
def dstHours (rev : Bool) : List Nat := dstIterNr Gen.dstHourOrder rev 0 24

/-- the instants `_iter_date` yields for one month: the 1st at 00:00 (compatible), then steps of 24 elapsed hours -/
def dstMonthInstants (z : Zone) (year : Int) (m : Nat) : List Int :=
  monthDates z (m : Int) 40 (resolveCompatible z (daysFromCivil year (m : Int) 1 * NS_PER_DAY))

/-- everything `_iter_date(reverse=rev)` yields, in order: (instant, hour) -/
def dstCands (z : Zone) (year : Int) (rev : Bool) : List (Int × Nat) :=
  (dstMonths rev).flatMap fun (m : Nat) =>
    (dstHours rev).flatMap fun h => (dstMonthInstants z year m).map fun u => (u, h)

/-- the reading `find_time` tests for a yielded pair: `hh:30` on the local date of the instant -/
def dstProbe (z : Zone) (c : Int × Nat) : Int := z.localDay c.1 * NS_PER_DAY + (c.2 : Int) * NS_PER_HOUR + HALF

/-- the first (instant, hour) in scan order whose `hh:30` is not valid on the local date of the instant -/
def dstScan (z : Zone) (year : Int) (rev : Bool) : Option (Int × Nat × Validity) :=
  ((dstCands z year rev).find? fun c => z.validity (dstProbe z c) ≠ .valid).map
    fun c => (c.1, c.2, z.validity (dstProbe z c))

/-- `upper.hour - 1 if upper.hour >= 1 else 23` / `lower.hour + 1 if lower.hour < 23 else 0` -/
def prevHour (h : Nat) : Int := if h ≥ 1 then (h : Int) - 1 else 23
def nextHour (h : Nat) : Int := if h < 23 then (h : Int) + 1 else 0

inductive Found
  | nothing                       -- `False`: no DST transition found
  | inconsistent                  -- `True`: a probe disagreed
  | hour (forward : Bool) (h : Nat)
deriving DecidableEq, Repr, Inhabited

/-- `find_time(reverse=rev)` -/
def findTime (z : Zone) (year : Int) (rev : Bool) : Found :=
  match dstScan z year rev with
  | none => .nothing
  | some (u, h, v) =>
    let day := z.localDay u * NS_PER_DAY
    let lo := day + (h : Int) * NS_PER_HOUR
    let hi := lo + HOUR_END
    if z.validity lo = .valid ∨ z.validity hi = .valid then .inconsistent else
    let prev := day + prevHour h * NS_PER_HOUR + HOUR_END
    let next := day + nextHour h * NS_PER_HOUR
    if z.validity prev ≠ .valid ∨ z.validity next ≠ .valid then .inconsistent else
    .hour (v = .skipped) h

/-- `DstHandlingRequiredBool` / `DstHandlingRequiredDate` -/
inductive Req
  | always (b : Bool)
  | hour (h : Nat)
deriving DecidableEq, Repr, Inhabited

def Req.required : Req → Int → Bool
  | .always b, _ => b
  | .hour h, t => decide ((h : Int) * NS_PER_HOUR ≤ t ∧ t ≤ (h : Int) * NS_PER_HOUR + HOUR_END)

/-- `_setup()`: (TIME_FORWARD, TIME_BACKWARD) or the ValueError of a direction that is found twice -/
def dstSetup (z : Zone) (year : Int) : Except Err (Req × Req) :=
  match findTime z year false with
  | .nothing => .ok (.always false, .always false)
  | .inconsistent => .ok (.always true, .always true)
  | .hour fwd1 h1 =>
    match findTime z year true with
    | .nothing => .ok (.always false, .always false)
    | .inconsistent => .ok (.always true, .always true)
    | .hour fwd2 h2 =>
      if fwd1 = fwd2 then .error .valueError      -- 'Forward/Backward DST transition already set'
      else if fwd1 then .ok (.hour h1, .hour h2) else .ok (.hour h2, .hour h1)

/-- `check_dst_handling(t, forward, backward)`; `none` = policy not given -/
def checkDst (z : Zone) (year : Int) (t : Int) (fwd : Option Skipped) (bwd : Option Repeated) :
    Except Err (Skipped × Repeated) :=
  if fwd.isSome ∧ bwd.isSome then .ok (fwd.getD Skipped.after, bwd.getD Repeated.earlier) else
  match dstSetup z year with
  | .error e => .error e
  | .ok (rf, rb) =>
    if fwd.isNone ∧ rf.required t then .error .valueError else
    if bwd.isNone ∧ rb.required t then .error .valueError else
    .ok (fwd.getD Skipped.after, bwd.getD Repeated.earlier)

end Ea
