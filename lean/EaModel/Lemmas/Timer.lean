import EaModel.Lemmas.Sched
/-!
# The loop timer is armed for the head of the queue (C01 "on time")

`TimerOK`: the timer is armed exactly when the scheduler is enabled and the queue is not empty, and then for the
run time of the head. `Fresh`: an armed timer lies in the future. Every public operation keeps `TimerOK` (unless a
`fatal` event — an exception escaping the scheduler, itself unreachable — was logged); `yield` and `sleep` also
establish `Fresh`, i.e. after the loop ran no queued job is overdue.
-/
namespace Ea

/-- the only `fatal` entry a reachable state can contain: the recursion budget of the model ran out -/
def Ev.isFatal : Ev → Bool
  | .fatal .recursion => true
  | _ => false

def HasFatal (s : St) : Prop := ∃ e ∈ s.log, e.isFatal = true

/-- armed exactly when enabled and the queue is not empty, for the head's run time -/
def TimerOK (s : St) : Prop :=
  match s.queue with
  | [] => s.timer = none
  | h :: _ => if s.enabled then s.timer = s.nr h ∧ s.nr h ≠ none else s.timer = none

/-- an armed timer is strictly in the future -/
def Fresh (s : St) : Prop := ∀ t, s.timer = some t → s.now < t

def Good (s : St) : Prop := HasFatal s ∨ TimerOK s
def GoodF (s : St) : Prop := HasFatal s ∨ (TimerOK s ∧ Fresh s)

theorem GoodF.good {s : St} (h : GoodF s) : Good s := h.elim Or.inl (fun h => Or.inr h.1)

theorem HasFatal_emit_fatal (s : St) : HasFatal (s.emit (.fatal .recursion)) :=
  ⟨.fatal .recursion, by simp [St.emit], rfl⟩

/-- the head of the queue has a run time -/
theorem head_nr_some {s : St} (h : Inv s) {hd : Nat} {rest : List Nat} (hq : s.queue = hd :: rest) :
    s.nr hd ≠ none := by
  obtain ⟨t, ht⟩ := (h.st.run hd).1 (h.q.run hd (by rw [hq]; simp))
  unfold St.nr; rw [ht]; simp

theorem HasFatal_mono {s s' : St} (h : HasFatal s) (hl : ∀ e ∈ s.log, e ∈ s'.log) : HasFatal s' := by
  obtain ⟨e, he, hf⟩ := h
  exact ⟨e, hl e he, hf⟩

/-- what nothing but `enable` / the clock operations changes -/
structure SameClock (s s' : St) : Prop where
  now : s'.now = s.now
  enabled : s'.enabled = s.enabled
  /-- the log only grows, at its front -/
  ext : ∃ l, s'.log = l ++ s.log

theorem SameClock.log {s s' : St} (h : SameClock s s') : ∀ e ∈ s.log, e ∈ s'.log := by
  obtain ⟨l, hl⟩ := h.ext
  intro e he; rw [hl]; exact List.mem_append_right _ he

theorem SameClock.refl (s : St) : SameClock s s := ⟨rfl, rfl, [], rfl⟩
theorem SameClock.trans {a b c : St} (h1 : SameClock a b) (h2 : SameClock b c) : SameClock a c := by
  obtain ⟨l1, e1⟩ := h1.ext
  obtain ⟨l2, e2⟩ := h2.ext
  exact ⟨by rw [h2.now, h1.now], by rw [h2.enabled, h1.enabled], l2 ++ l1, by rw [e2, e1, List.append_assoc]⟩

theorem runCbs_log_mono (fin : Bool) (j : Nat) (cs : List Nat) (s : St) :
    ∀ e ∈ s.log, e ∈ (runCbs fin j cs s).log := by
  induction cs generalizing s with
  | nil => intro e he; exact he
  | cons c cs ih =>
    intro e he
    unfold runCbs
    simp only []
    split
    · apply ih; simp [St.emit]; exact Or.inr (Or.inr he)
    · apply ih; simp [St.emit]; exact Or.inr he

theorem runCbs_log_ext (fin : Bool) (j : Nat) (cs : List Nat) (s : St) :
    ∃ l, (runCbs fin j cs s).log = l ++ s.log := by
  induction cs generalizing s with
  | nil => exact ⟨[], rfl⟩
  | cons c cs ih =>
    unfold runCbs
    simp only []
    split
    · obtain ⟨l, hl⟩ := ih ((s.emit (.cb fin c j (s.job j).status (s.job j).nextRun s.now)).emit (.exc "CallbackError"))
      exact ⟨l ++ [Ev.exc "CallbackError", Ev.cb fin c j (s.job j).status (s.job j).nextRun s.now], by rw [hl]; simp [St.emit]⟩
    · obtain ⟨l, hl⟩ := ih (s.emit (.cb fin c j (s.job j).status (s.job j).nextRun s.now))
      exact ⟨l ++ [Ev.cb fin c j (s.job j).status (s.job j).nextRun s.now], by rw [hl]; simp [St.emit]⟩

theorem runCbs_clock (fin : Bool) (j : Nat) (cs : List Nat) (s : St) : SameClock s (runCbs fin j cs s) := by
  obtain ⟨_, _, _, h4, h5, _, _⟩ := runCbs_frame fin j cs s
  exact ⟨h4, h5, runCbs_log_ext fin j cs s⟩

theorem setNextRun_clock (s : St) (j : Nat) (nr : Option Int) : SameClock s (setNextRun s j nr).1 := by
  unfold setNextRun
  cases nr with
  | none =>
    have := runCbs_clock false j ((s.setJob j { s.job j with nextRun := none, status := .paused }).job j).onUpdate
      (s.setJob j { s.job j with nextRun := none, status := .paused })
    exact ⟨this.now, this.enabled, this.ext⟩
  | some t =>
    simp only []
    split
    · exact SameClock.refl s
    · have := runCbs_clock false j ((s.setJob j { s.job j with nextRun := some t, status := .running }).job j).onUpdate
        (s.setJob j { s.job j with nextRun := some t, status := .running })
      exact ⟨this.now, this.enabled, this.ext⟩

theorem setNextRun_timer (s : St) (j : Nat) (nr : Option Int) : (setNextRun s j nr).1.timer = s.timer := by
  rcases setNextRun_spec s j nr with ⟨h1, _⟩ | ⟨_, _, _, _, _, _, _, _, ht, _⟩
  · rw [h1]
  · exact ht

/-- the extended contract of `_set_timer` -/
structure TimerFn2 (setT : St → St) : Prop where
  base : TimerFn setT
  post : ∀ s, Inv s → GoodF (setT s)
  clock : ∀ s, Inv s → SameClock s (setT s)
  empty : ∀ s, Inv s → s.queue = [] → (setT s).timer = none ∧ (setT s).queue = []

theorem Inv_erased {s : St} (j : Nat) (h : Inv s) : Inv { s with queue := s.queue.erase j } :=
  ⟨QInvQ_erase_self j h.q, h.st, h.log⟩

theorem Inv_of_erased_nil {s : St} (j : Nat) (hq : s.queue = []) (h : Inv { s with queue := s.queue.erase j }) : Inv s := by
  have : ({ s with queue := s.queue.erase j } : St) = s := by cases s; simp_all
  rw [this] at h; exact h

theorem TimerOK_of_same {s s' : St} (h : TimerOK s) (hq : s'.queue = s.queue) (ht : s'.timer = s.timer)
    (he : s'.enabled = s.enabled) (hnr : ∀ h rest, s.queue = h :: rest → s'.nr h = s.nr h) : TimerOK s' := by
  unfold TimerOK at *
  rw [hq]
  cases hqq : s.queue with
  | nil => rw [hqq] at h; simp only [] at h ⊢; rw [ht]; exact h
  | cons a rest =>
    rw [hqq] at h
    simp only [] at h ⊢
    rw [he, ht, hnr a rest hqq]
    exact h

theorem Good_of_same {s s' : St} (h : Good s) (hl : ∀ e ∈ s.log, e ∈ s'.log) (hq : s'.queue = s.queue)
    (ht : s'.timer = s.timer) (he : s'.enabled = s.enabled)
    (hnr : ∀ h rest, s.queue = h :: rest → s'.nr h = s.nr h) : Good s' :=
  h.elim (fun hf => Or.inl (HasFatal_mono hf hl)) (fun hk => Or.inr (TimerOK_of_same hk hq ht he hnr))

end Ea

namespace Ea

theorem insort_head (nr : Nat → Option Int) (x : Nat) (q : List Nat) :
    (insort nr x q).head? = some x ∨ (∃ h rest, q = h :: rest ∧ (insort nr x q).head? = some h) := by
  cases q with
  | nil => left; simp [insort]
  | cons h rest =>
    unfold insort
    split
    · left; rfl
    · right; exact ⟨h, rest, rfl, rfl⟩

theorem erase_head_ne (q : List Nat) (h j : Nat) (rest : List Nat) (hq : q = h :: rest) (hne : h ≠ j) :
    ∃ rest', q.erase j = h :: rest' := by
  subst hq
  refine ⟨rest.erase j, ?_⟩
  simp [List.erase_cons, hne]

section withTimer
variable (setT : St → St)

theorem removeJob_clock (hT : TimerFn2 setT) (s : St) (j : Nat) (hI : Inv { s with queue := s.queue.erase j }) :
    SameClock s (removeJob setT s j) := by
  rcases removeJob_cases setT s j with h | h <;> rw [h]
  · have := hT.clock { s with queue := s.queue.erase j } hI
    exact ⟨this.now, this.enabled, this.ext⟩
  · exact ⟨rfl, rfl, [], rfl⟩

/-- `remove_job` of a job that is not queued leaves an unarmed timer unarmed -/
theorem removeJob_notin_timer (hT : TimerFn2 setT) (s : St) (j : Nat) (hI : Inv s) (hj : j ∉ s.queue) (ht : s.timer = none) :
    (removeJob setT s j).timer = none := by
  unfold removeJob
  split
  · next hq => exact (hT.empty s hI hq).1
  · next h rest hq =>
    have he : s.queue.erase j = s.queue := List.erase_of_not_mem hj
    simp only [he, hq]
    have hne : h ≠ j := by
      intro e; subst e; rw [hq] at hj; simp at hj
    simp [hne, ht]

/-- `remove_job`: the timer stays right (it is re-armed when the head or the last job was removed) -/
theorem removeJob_good (hT : TimerFn2 setT) (s : St) (j : Nat) (hI : Inv { s with queue := s.queue.erase j })
    (hpre : s.queue.head? ≠ some j → Good s) : Good (removeJob setT s j) := by
  unfold removeJob
  split
  · next hq => exact (hT.post s (Inv_of_erased_nil j hq hI)).good
  · next h rest hq =>
    simp only []
    split
    · exact (hT.post _ hI).good
    · next h' rest' hq' =>
      split
      · exact (hT.post _ hI).good
      · next hne =>
        have hg : Good s := hpre (by rw [hq]; simp; exact hne)
        obtain ⟨rest'', he⟩ := erase_head_ne s.queue h j rest hq hne
        refine Good_of_same hg (fun _ h => h) ?_ rfl rfl ?_ |>.elim Or.inl (fun hk => Or.inr ?_)
        · exact hq.symm ▸ rfl
        · intro a b _; rfl
        · -- the head is still `h`
          unfold TimerOK at hk ⊢
          show match s.queue.erase j with
            | [] => s.timer = none
            | h :: _ => if s.enabled then s.timer = s.nr h ∧ s.nr h ≠ none else s.timer = none
          rw [he]
          rw [hq] at hk
          exact hk

end withTimer
end Ea

namespace Ea
section withTimer
variable (setT : St → St)

/-- the state `add_job` hands to `_set_timer` -/
theorem Inv_insorted {s : St} (j : Nat) (h : Inv s) (hj : j ∉ s.queue) (hr : (s.job j).status = .running) :
    Inv { s with queue := insort s.nr j s.queue } := by
  have hnr : ∃ t, (s.jobs j).nextRun = some t := (h.st.run j).1 hr
  have hall : ∀ i ∈ s.queue, ∃ t, (s.jobs i).nextRun = some t := fun i hi => (h.st.run i).1 (h.q.run i hi)
  refine ⟨⟨?_, ?_, ?_⟩, h.st, h.log⟩
  · intro i hi
    have hi' : i ∈ insort s.nr j s.queue := hi
    rw [insort_mem] at hi'
    rcases hi' with rfl | hi'
    · exact hr
    · exact h.q.run i hi'
  · exact (insort_perm _ j s.queue).nodup_iff.2 (List.nodup_cons.2 ⟨hj, h.q.nodup⟩)
  · exact insort_sorted _ j s.queue hnr hall h.q.sorted

theorem addJob_clock (hT : TimerFn2 setT) (s : St) (j : Nat) (hI : Inv s) (hj : j ∉ s.queue) :
    SameClock s (addJob setT s j) := by
  unfold addJob
  split
  · next hr =>
    simp only []
    split
    · have := hT.clock { s with queue := insort s.nr j s.queue } (Inv_insorted j hI hj hr)
      exact ⟨this.now, this.enabled, this.ext⟩
    · exact ⟨rfl, rfl, [], rfl⟩
  · exact SameClock.refl s

/-- `add_job`: the timer is re-armed when the new job became the head, otherwise the head is unchanged -/
theorem addJob_good (hT : TimerFn2 setT) (s : St) (j : Nat) (hI : Inv s) (hj : j ∉ s.queue) (hg : Good s) :
    Good (addJob setT s j) := by
  unfold addJob
  split
  · next hr =>
    simp only []
    split
    · exact (hT.post _ (Inv_insorted j hI hj hr)).good
    · next hh =>
      rcases insort_head s.nr j s.queue with h1 | ⟨h, rest, hq, h2⟩
      · exact absurd h1 hh
      · rcases hg with hf | hk
        · exact Or.inl (HasFatal_mono hf (fun _ h => h))
        · right
          unfold TimerOK at hk ⊢
          rw [hq] at hk
          cases hi : insort s.nr j s.queue with
          | nil => rw [hi] at h2; simp at h2
          | cons a b =>
            rw [hi] at h2; simp at h2; subst h2
            exact hk
  · exact hg

/-- in the run loop: adding the executed job back arms the timer only for a head that is not due -/
def LoopPre (s : St) : Prop :=
  HasFatal s ∨ (s.enabled = true ∧ (s.timer = none ∨ (TimerOK s ∧ Fresh s ∧ s.queue ≠ [])))

theorem addJob_loopPre (hT : TimerFn2 setT) (s : St) (j : Nat) (hI : Inv s) (hj : j ∉ s.queue)
    (hen : s.enabled = true) (ht : s.timer = none) : LoopPre (addJob setT s j) := by
  unfold addJob
  split
  · next hr =>
    simp only []
    split
    · next hh =>
      have hI' := Inv_insorted j hI hj hr
      have hc := hT.clock { s with queue := insort s.nr j s.queue } hI'
      rcases hT.post { s with queue := insort s.nr j s.queue } hI' with hf | ⟨hk, hfr⟩
      · exact Or.inl hf
      · right
        refine ⟨by rw [hc.enabled]; exact hen, ?_⟩
        by_cases hq : (setT { s with queue := insort s.nr j s.queue }).queue = []
        · left
          unfold TimerOK at hk
          rw [hq] at hk
          exact hk
        · right; exact ⟨hk, hfr, hq⟩
    · exact Or.inr ⟨hen, Or.inl ht⟩
  · exact Or.inr ⟨hen, Or.inl ht⟩

/-- the state after `remove_job` inside `job_finish`, with the job record replaced -/
theorem jobFinish_clock (hT : TimerFn2 setT) (s : St) (j : Nat) (hI : Inv s) : SameClock s (jobFinish setT s j).1 := by
  unfold jobFinish
  split
  · exact SameClock.refl s
  · simp only []
    have h1 := removeJob_clock setT hT s j (Inv_erased j hI)
    obtain ⟨_, _, _, n4, n5, _, _⟩ := runCbs_frame true j ((removeJob setT s j).job j).onFinished
      (if ((removeJob setT s j).job j).inStore then
        { ((removeJob setT s j).setJob j
          { (removeJob setT s j).job j with linked := false, status := .finished, nextRun := none, inStore := false }) with
          store := (((removeJob setT s j).setJob j
          { (removeJob setT s j).job j with linked := false, status := .finished, nextRun := none, inStore := false })).store.filter
            (fun kv => kv.1 ≠ ((removeJob setT s j).job j).key) }
       else ((removeJob setT s j).setJob j
          { (removeJob setT s j).job j with linked := false, status := .finished, nextRun := none, inStore := false }))
    have nl := runCbs_log_ext true j ((removeJob setT s j).job j).onFinished
      (if ((removeJob setT s j).job j).inStore then
        { ((removeJob setT s j).setJob j
          { (removeJob setT s j).job j with linked := false, status := .finished, nextRun := none, inStore := false }) with
          store := (((removeJob setT s j).setJob j
          { (removeJob setT s j).job j with linked := false, status := .finished, nextRun := none, inStore := false })).store.filter
            (fun kv => kv.1 ≠ ((removeJob setT s j).job j).key) }
       else ((removeJob setT s j).setJob j
          { (removeJob setT s j).job j with linked := false, status := .finished, nextRun := none, inStore := false }))
    refine ⟨?_, ?_, ?_⟩
    · rw [n4]; split <;> exact h1.now
    · rw [n5]; split <;> exact h1.enabled
    · obtain ⟨l, hl⟩ := nl
      obtain ⟨l1, hl1⟩ := h1.ext
      refine ⟨l ++ l1, ?_⟩
      rw [hl, List.append_assoc, ← hl1]
      split <;> rfl

theorem jobFinish_timer (hT : TimerFn2 setT) (s : St) (j : Nat) (hI : Inv s) (hj : j ∉ s.queue) (ht : s.timer = none) :
    (jobFinish setT s j).1.timer = none := by
  unfold jobFinish
  split
  · exact ht
  · simp only []
    obtain ⟨_, _, h3, _⟩ := runCbs_frame true j ((removeJob setT s j).job j).onFinished
      (if ((removeJob setT s j).job j).inStore then
        { ((removeJob setT s j).setJob j
          { (removeJob setT s j).job j with linked := false, status := .finished, nextRun := none, inStore := false }) with
          store := (((removeJob setT s j).setJob j
          { (removeJob setT s j).job j with linked := false, status := .finished, nextRun := none, inStore := false })).store.filter
            (fun kv => kv.1 ≠ ((removeJob setT s j).job j).key) }
       else ((removeJob setT s j).setJob j
          { (removeJob setT s j).job j with linked := false, status := .finished, nextRun := none, inStore := false }))
    rw [h3]
    have := removeJob_notin_timer setT hT s j hI hj ht
    split <;> exact this

theorem updateNext_clock (hT : TimerFn2 setT) (s : St) (j : Nat) (hI : Inv s) : SameClock s (updateNext setT s j).1 := by
  unfold updateNext
  simp only []
  split
  · exact jobFinish_clock setT hT s j hI
  · exact setNextRun_clock s j none
  · split
    · exact SameClock.refl s
    · split
      · exact ⟨rfl, rfl, [], rfl⟩
      · split
        · exact ⟨rfl, rfl, [], rfl⟩
        · refine SameClock.trans (b := s.setJob j _) ⟨rfl, rfl, [], rfl⟩ (setNextRun_clock _ _ _)

theorem updateNext_timer (hT : TimerFn2 setT) (s : St) (j : Nat) (hI : Inv s) (hj : j ∉ s.queue) (ht : s.timer = none) :
    (updateNext setT s j).1.timer = none := by
  unfold updateNext
  simp only []
  split
  · exact jobFinish_timer setT hT s j hI hj ht
  · rw [setNextRun_timer]; exact ht
  · split
    · exact ht
    · split
      · exact ht
      · split
        · exact ht
        · rw [setNextRun_timer]; exact ht

/-- `job.execute()` inside the run loop: clock and switch are untouched, an unarmed timer stays unarmed -/
theorem execute_frame (hT : TimerFn2 setT) (s : St) (j : Nat) (due : Int) (hI : Inv s) (hj : j ∉ s.queue)
    (hdue : due ≤ s.now) :
    SameClock s (execute setT s j due) ∧ (s.timer = none → (execute setT s j due).timer = none) ∧
    ∃ l, (execute setT s j due).log = l ++ Ev.exec j s.now due :: s.log := by
  unfold execute
  simp only []
  generalize hs0 : (if (s.job j).execFail.contains (s.job j).execs = true then
      (((s.emit (Ev.exec j s.now due)).setJob j { s.job j with execs := (s.job j).execs + 1, lastRun := some s.now })).emit (Ev.exc "CallableError")
    else ((s.emit (Ev.exec j s.now due)).setJob j { s.job j with execs := (s.job j).execs + 1, lastRun := some s.now })) = s0
  have hb : JobOK ({ s.job j with execs := (s.job j).execs + 1, lastRun := some s.now } : Job) := hI.st j
  have hA : Inv ((s.emit (Ev.exec j s.now due)).setJob j { s.job j with execs := (s.job j).execs + 1, lastRun := some s.now }) :=
    (InvEx_setJob _ ((Inv_emit _ hI (by simpa [evOK] using hdue)).toEx j) hb).toInv hj
  have h0 : (s0.now = s.now ∧ s0.enabled = s.enabled ∧ ∃ l, s0.log = l ++ Ev.exec j s.now due :: s.log) ∧
      s0.timer = s.timer ∧ s0.queue = s.queue ∧ Inv s0 := by
    subst hs0
    split
    · exact ⟨⟨rfl, rfl, [Ev.exc "CallableError"], rfl⟩, rfl, rfl, Inv_emit _ hA (by simp [evOK])⟩
    · exact ⟨⟨rfl, rfl, [], rfl⟩, rfl, rfl, hA⟩
  obtain ⟨⟨n0, en0, l0, hl0⟩, t0, q0, i0⟩ := h0
  have c0 : SameClock s s0 := ⟨n0, en0, l0 ++ [Ev.exec j s.now due], by rw [hl0]; simp⟩
  have ext_of : ∀ s' : St, SameClock s0 s' → ∃ l, s'.log = l ++ Ev.exec j s.now due :: s.log := by
    intro s' hc
    obtain ⟨l, hl⟩ := hc.ext
    exact ⟨l ++ l0, by rw [hl, hl0, List.append_assoc]⟩
  have hj0 : j ∉ s0.queue := by rw [q0]; exact hj
  have c1 := updateNext_clock setT hT s0 j i0
  have t1 : s.timer = none → (updateNext setT s0 j).1.timer = none :=
    fun ht => updateNext_timer setT hT s0 j i0 hj0 (by rw [t0]; exact ht)
  split
  · next s' heq =>
    have : s' = (updateNext setT s0 j).1 := by rw [heq]
    subst this
    exact ⟨c0.trans c1, t1, ext_of _ c1⟩
  · next s' e heq =>
    have : s' = (updateNext setT s0 j).1 := by rw [heq]
    subst this
    have c2 : SameClock (updateNext setT s0 j).1 ((updateNext setT s0 j).1.emit (Ev.exc e.name)) :=
      ⟨rfl, rfl, [_], rfl⟩
    split
    · have c3 := setNextRun_clock ((updateNext setT s0 j).1.emit (Ev.exc e.name)) j none
      exact ⟨(c0.trans c1).trans (c2.trans c3), fun ht => by rw [setNextRun_timer]; exact t1 ht,
        ext_of _ (c1.trans (c2.trans c3))⟩
    · exact ⟨(c0.trans c1).trans c2, t1, ext_of _ (c1.trans c2)⟩

end withTimer
end Ea

namespace Ea

theorem GoodF_of_fatal {s : St} (h : HasFatal s) : GoodF s := Or.inl h

/-- what the mutual induction proves about `run_jobs` for a given fuel -/
def RunSpec (f : Nat) : Prop :=
  ∀ s, Inv s → SameClock s (runLoop f s) ∧ (LoopPre s → GoodF (runLoop f s))

theorem setTimer_spec2 (fuel : Nat) (hrun : ∀ f, f < fuel → RunSpec f) :
    ∀ s, Inv s → GoodF (setTimer fuel s) ∧ SameClock s (setTimer fuel s) ∧
      (s.queue = [] → (setTimer fuel s).timer = none ∧ (setTimer fuel s).queue = []) := by
  intro s hinv
  unfold setTimer
  simp only []
  split
  · next hq =>
    refine ⟨Or.inr ⟨?_, ?_⟩, ⟨rfl, rfl, [], rfl⟩, fun _ => ⟨rfl, hq⟩⟩
    · unfold TimerOK; simp [hq]
    · intro t ht; simp at ht
  · next h rest hq =>
    have hne : s.queue ≠ [] := by rw [hq]; simp
    split
    · next hen =>
      refine ⟨Or.inr ⟨?_, ?_⟩, ⟨rfl, rfl, [], rfl⟩, fun e => absurd e hne⟩
      · have hf : s.enabled = false := by simpa using hen
        unfold TimerOK; simp [hq, hf]
      · intro t ht; simp at ht
    · next hen =>
      have hen' : s.enabled = true := by simpa using hen
      split
      · next hnone => exact absurd hnone (head_nr_some (s := { s with timer := none }) (Inv_timer_none hinv) hq)
      · next nr hnr =>
        split
        · next hle =>
          split
          · refine ⟨Or.inl (HasFatal_emit_fatal _), ⟨rfl, rfl, [_], rfl⟩, fun e => absurd e hne⟩
          · next f =>
            have := hrun f (by omega) { s with timer := none } (Inv_timer_none hinv)
            exact ⟨this.2 (Or.inr ⟨hen', Or.inl rfl⟩), ⟨this.1.now, this.1.enabled, this.1.ext⟩, fun e => absurd e hne⟩
        · next hgt =>
          refine ⟨Or.inr ⟨?_, ?_⟩, ⟨rfl, rfl, [], rfl⟩, fun e => absurd e hne⟩
          · have hnr' : s.nr h = some nr := hnr
            unfold TimerOK
            simp only [hq, hen', if_true]
            show some nr = s.nr h ∧ s.nr h ≠ none
            rw [hnr']; simp
          · intro t ht
            simp at ht; subst ht
            show s.now < nr
            omega

theorem timerFn2_of_run (fuel : Nat) (hrun : ∀ f, f < fuel → RunSpec f) : TimerFn2 (setTimer fuel) :=
  ⟨timerFn_setTimer fuel, fun s h => (setTimer_spec2 fuel hrun s h).1, fun s h => (setTimer_spec2 fuel hrun s h).2.1,
   fun s h => (setTimer_spec2 fuel hrun s h).2.2⟩

theorem runSpec (fuel : Nat) : RunSpec fuel := by
  induction fuel using Nat.strongRecOn with
  | _ fuel ih =>
    intro s h
    suffices key : SameClock s (runLoop fuel s) ∧
        (s.enabled = true → (s.timer = none ∨ (TimerOK s ∧ Fresh s ∧ s.queue ≠ [])) → GoodF (runLoop fuel s)) by
      refine ⟨key.1, fun hpre => ?_⟩
      rcases hpre with hf | ⟨hen, hc⟩
      · exact Or.inl (HasFatal_mono hf key.1.log)
      · exact key.2 hen hc
    have hst : ∀ f, f ≤ fuel → TimerFn2 (setTimer f) :=
      fun f hf => timerFn2_of_run f (fun f' hf' => ih f' (by omega))
    unfold runLoop
    split
    · next hq =>
      refine ⟨SameClock.refl s, fun _ hc => Or.inr ?_⟩
      rcases hc with ht | ⟨_, _, hne⟩
      · refine ⟨?_, ?_⟩
        · unfold TimerOK; rw [hq]; exact ht
        · intro t h2; rw [ht] at h2; cases h2
      · exact absurd hq hne
    · next hd rest hq =>
      split
      · next hnone => exact absurd hnone (head_nr_some h hq)
      · next nr hnr =>
        split
        · exact ⟨(hst fuel (Nat.le_refl _)).clock s h, fun _ _ => (hst fuel (Nat.le_refl _)).post s h⟩
        · next hle =>
          split
          · exact ⟨⟨rfl, rfl, [_], rfl⟩, fun _ _ => Or.inl (HasFatal_emit_fatal _)⟩
          · next f =>
            have hT2 := hst f (by omega)
            have hT := hT2.base
            have hnd : hd ∉ rest := by
              have := h.q.nodup; rw [hq] at this; exact (List.nodup_cons.1 this).1
            have h1 : Inv { s with queue := rest } := by
              refine ⟨⟨?_, ?_, ?_⟩, h.st, h.log⟩
              · intro i hi; exact h.q.run i (by rw [hq]; simp [hi])
              · have := h.q.nodup; rw [hq] at this; exact (List.nodup_cons.1 this).2
              · have := h.q.sorted; rw [hq] at this; exact (List.pairwise_cons.1 this).2
            have hdue : nr ≤ ({ s with queue := rest } : St).now := by
              show nr ≤ s.now
              omega
            obtain ⟨e1, e2⟩ := execute_spec (setTimer f) hT hd nr h1 (by simpa using hnd) hdue
            obtain ⟨c1, t1, _⟩ := execute_frame (setTimer f) hT2 { s with queue := rest } hd nr h1 (by simpa using hnd) hdue
            have hd2 : hd ∉ (execute (setTimer f) { s with queue := rest } hd nr).queue :=
              fun hm => hnd (e2 hd hm)
            have a1 := Inv_addJob (setTimer f) hT hd e1 hd2
            have c2 := addJob_clock (setTimer f) hT2 _ hd e1 hd2
            have c01 : SameClock s (addJob (setTimer f) (execute (setTimer f) { s with queue := rest } hd nr) hd) :=
              SameClock.trans (b := execute (setTimer f) { s with queue := rest } hd nr)
                ⟨c1.now, c1.enabled, c1.ext⟩ c2
            have r := ih f (by omega) _ a1
            refine ⟨c01.trans r.1, fun hen hc => ?_⟩
            apply r.2
            have htn : s.timer = none := by
              rcases hc with ht | ⟨hk, hfr, _⟩
              · exact ht
              · exfalso
                unfold TimerOK at hk
                rw [hq] at hk
                simp only [hen, if_true] at hk
                have := hfr nr (by rw [hk.1]; exact hnr)
                omega
            exact addJob_loopPre (setTimer f) hT2 _ hd e1 hd2 (by rw [c1.enabled]; exact hen) (t1 htn)
end Ea

namespace Ea

theorem timerFn2_setTimer (fuel : Nat) : TimerFn2 (setTimer fuel) :=
  timerFn2_of_run fuel (fun f _ => runSpec f)

/-- `Good` where nothing is claimed while job `j` is the head (its run time is being changed by `update_job`) -/
def GoodEx (j : Nat) (s : St) : Prop := s.queue.head? ≠ some j → Good s

theorem Good.toEx {s : St} (j : Nat) (h : Good s) : GoodEx j s := fun _ => h

theorem GoodEx.toGood {j : Nat} {s : St} (h : GoodEx j s) (hj : j ∉ s.queue) : Good s := by
  apply h
  intro e
  cases hq : s.queue with
  | nil => rw [hq] at e; cases e
  | cons a rest =>
    rw [hq] at e hj
    simp at e
    subst e
    simp at hj

theorem GoodEx_of_same {j : Nat} {s s' : St} (h : GoodEx j s) (hl : ∀ e ∈ s.log, e ∈ s'.log)
    (hq : s'.queue = s.queue) (ht : s'.timer = s.timer) (he : s'.enabled = s.enabled)
    (hnr : ∀ i, i ≠ j → s'.nr i = s.nr i) : GoodEx j s' := by
  intro hh
  rw [hq] at hh
  refine Good_of_same (h hh) hl hq ht he (fun a rest hqa => hnr a ?_)
  intro e; subst e; rw [hqa] at hh; simp at hh

theorem nr_setJob_ne (s : St) (j i : Nat) (b : Job) (h : i ≠ j) : (s.setJob j b).nr i = s.nr i := by
  simp [St.nr, St.setJob, h]

theorem setJob_goodEx {j : Nat} {s : St} (b : Job) (h : GoodEx j s) : GoodEx j (s.setJob j b) :=
  GoodEx_of_same h (fun _ h => h) rfl rfl rfl (fun i hi => nr_setJob_ne s j i b hi)

/-- replacing the record of job `j` without touching its run time -/
theorem setJob_good_same {j : Nat} {s : St} (b : Job) (hb : b.nextRun = (s.job j).nextRun) (h : Good s) :
    Good (s.setJob j b) := by
  refine Good_of_same h (fun _ h => h) rfl rfl rfl (fun a rest _ => ?_)
  by_cases e : a = j
  · subst e; simp [St.nr, St.setJob, hb, St.job]
  · exact nr_setJob_ne s j a b e

theorem setNextRun_goodEx (s : St) (j : Nat) (nr : Option Int) (h : GoodEx j s) : GoodEx j (setNextRun s j nr).1 := by
  rcases setNextRun_spec s j nr with ⟨h1, _⟩ | ⟨_, b', _, _, hjobs, hq, _, hen, ht, _⟩
  · rw [h1]; exact h
  · exact GoodEx_of_same h (setNextRun_clock s j nr).log hq ht hen
      (fun i hi => by unfold St.nr; rw [hjobs]; simp [hi])

section withTimer
variable (setT : St → St)

theorem removeJob_notin {s : St} (hT : TimerFn setT) (j : Nat) (hq : QInvQ (s.queue.erase j) s.jobs)
    (hnd : s.queue.Nodup) (hst : StatusNR s.jobs) (hlog : LogOK s.log) : j ∉ (removeJob setT s j).queue :=
  fun hm => not_mem_erase_self j hnd (removeJob_sub setT hT j j hq hst hlog hm)

theorem jobFinish_good (hT : TimerFn2 setT) (s : St) (j : Nat) (hI : Inv s) (hg : Good s) :
    Good (jobFinish setT s j).1 := by
  unfold jobFinish
  split
  · exact hg
  · simp only []
    have h1 := removeJob_good setT hT s j (Inv_erased j hI) (fun _ => hg)
    have hj : j ∉ (removeJob setT s j).queue :=
      removeJob_notin setT hT.base j (QInvQ_erase_self j hI.q) hI.q.nodup hI.st hI.log
    obtain ⟨q1, q2, q3, _, q5, _, _⟩ := runCbs_frame true j ((removeJob setT s j).job j).onFinished
      (if ((removeJob setT s j).job j).inStore then
        { ((removeJob setT s j).setJob j
          { (removeJob setT s j).job j with linked := false, status := .finished, nextRun := none, inStore := false }) with
          store := (((removeJob setT s j).setJob j
          { (removeJob setT s j).job j with linked := false, status := .finished, nextRun := none, inStore := false })).store.filter
            (fun kv => kv.1 ≠ ((removeJob setT s j).job j).key) }
       else ((removeJob setT s j).setJob j
          { (removeJob setT s j).job j with linked := false, status := .finished, nextRun := none, inStore := false }))
    have nl := runCbs_log_mono true j ((removeJob setT s j).job j).onFinished
      (if ((removeJob setT s j).job j).inStore then
        { ((removeJob setT s j).setJob j
          { (removeJob setT s j).job j with linked := false, status := .finished, nextRun := none, inStore := false }) with
          store := (((removeJob setT s j).setJob j
          { (removeJob setT s j).job j with linked := false, status := .finished, nextRun := none, inStore := false })).store.filter
            (fun kv => kv.1 ≠ ((removeJob setT s j).job j).key) }
       else ((removeJob setT s j).setJob j
          { (removeJob setT s j).job j with linked := false, status := .finished, nextRun := none, inStore := false }))
    refine Good_of_same h1 ?_ ?_ ?_ ?_ ?_
    · intro e he; apply nl; split <;> exact he
    · rw [q1]; split <;> rfl
    · rw [q3]; split <;> rfl
    · rw [q5]; split <;> rfl
    · intro a rest hqa
      have hne : a ≠ j := by intro e; subst e; rw [hqa] at hj; simp at hj
      unfold St.nr; rw [q2]
      split <;> simp [St.setJob, hne]

/-- `update_next`: the timer stays right unless job `j` itself is the head of the queue -/
theorem updateNext_goodEx (hT : TimerFn2 setT) (s : St) (j : Nat) (hI : Inv s) (hg : Good s) :
    GoodEx j (updateNext setT s j).1 := by
  unfold updateNext
  simp only []
  split
  · exact (jobFinish_good setT hT s j hI hg).toEx j
  · exact setNextRun_goodEx s j none (hg.toEx j)
  · split
    · exact hg.toEx j
    · split
      · exact setJob_goodEx _ (hg.toEx j)
      · split
        · exact setJob_goodEx _ (hg.toEx j)
        · exact setNextRun_goodEx _ j _ (setJob_goodEx _ (hg.toEx j))

/-- a failed `update_next` leaves the timer right -/
theorem updateNext_good_err (hT : TimerFn2 setT) (s : St) (j : Nat) {e : Err} (hI : Inv s) (hg : Good s)
    (he : (updateNext setT s j).2 = some e) : Good (updateNext setT s j).1 := by
  revert he
  unfold updateNext
  simp only []
  split
  · intro _; exact jobFinish_good setT hT s j hI hg
  · intro he; rw [setNextRun_err he]; exact hg
  · split
    · intro _; exact hg
    · split
      · intro _; exact setJob_good_same _ rfl hg
      · split
        · intro _; exact setJob_good_same _ rfl hg
        · intro he; rw [setNextRun_err he]; exact setJob_good_same _ rfl hg

end withTimer

/-- `update_job` (remove + add) after the run time of `j` was changed -/
theorem updateJob_good (fuel : Nat) (j : Nat) {s : St} (h : InvEx j s) (hg : GoodEx j s) :
    Good (addJob (setTimer fuel) (removeJob (setTimer fuel) s j) j) := by
  have hT2 := timerFn2_setTimer fuel
  have hT := hT2.base
  have h1 : Inv (removeJob (setTimer fuel) s j) := Inv_removeJob _ hT j h.q h.st h.log
  have hj : j ∉ (removeJob (setTimer fuel) s j).queue := removeJob_notin _ hT j h.q h.nodup h.st h.log
  exact addJob_good _ hT2 _ j h1 hj (removeJob_good _ hT2 s j ⟨h.q, h.st, h.log⟩ hg)

theorem pauseLike_good {s : St} (j : Nat) (h : Inv s) (hg : Good s) :
    Good (setNextRun (removeJob (setTimer OPFUEL) s j) j none).1 := by
  have hT2 := timerFn2_setTimer OPFUEL
  have hj : j ∉ (removeJob (setTimer OPFUEL) s j).queue :=
    removeJob_notin _ hT2.base j (QInvQ_erase_self j h.q) h.q.nodup h.st h.log
  have g1 := removeJob_good _ hT2 s j (Inv_erased j h) (fun _ => hg)
  refine (setNextRun_goodEx _ j none (g1.toEx j)).toGood ?_
  rw [setNextRun_queue]; exact hj

theorem linkJob_good {s : St} (j : Nat) (h : Inv s) (hj : j ∉ s.queue) (hg : Good s) : Good (linkJob s j).1 := by
  have hT2 := timerFn2_setTimer OPFUEL
  have hT := hT2.base
  have hfirst : ∀ r : R, (Inv r.1 ∧ j ∉ r.1.queue ∧ Good r.1) →
      Good (match r with
        | (s', none) => (addJob (setTimer OPFUEL) s' j, none)
        | (s', some e) => ((jobFinish (setTimer OPFUEL) s' j).1, some e)).1 := by
    intro r hr
    obtain ⟨s', e⟩ := r
    cases e with
    | none => exact addJob_good _ hT2 _ j hr.1 hr.2.1 hr.2.2
    | some e => exact jobFinish_good _ hT2 _ j hr.1 hr.2.2
  unfold linkJob
  simp only []
  apply hfirst
  split
  · next t _ =>
    have hq : j ∉ (setNextRun s j (some t)).1.queue := by rw [setNextRun_queue]; exact hj
    exact ⟨Inv_setNextRun j _ h hj, hq, (setNextRun_goodEx s j _ (hg.toEx j)).toGood hq⟩
  · obtain ⟨u1, u2⟩ := updateNext_spec (setTimer OPFUEL) hT j h
    have hju : j ∉ (updateNext (setTimer OPFUEL) s j).1.queue := fun hm => hj (u2 j hm)
    exact ⟨u1.toInv hju, hju, (updateNext_goodEx _ hT2 s j h hg).toGood hju⟩

theorem createJob_good {s : St} (j : Nat) (key : Option Nat) (spec : JobSpec) (ef tf : List Nat) (tff : Nat)
    (h : Inv s) (hg : Good s) : Good (createJob s j key spec ef tf tff).1 := by
  unfold createJob
  split
  · exact hg
  · rename_i hcr
    have hcr' : (s.job j).status = .created := by simpa using hcr
    have hjq : j ∉ s.queue := by
      intro hm
      have := h.q.run j hm
      rw [show (s.jobs j).status = (s.job j).status from rfl, hcr'] at this
      cases this
    split
    · exact hg
    · split
      · exact hg
      · have hs : Inv (storeAdd s key j) ∧ (storeAdd s key j).queue = s.queue ∧ Good (storeAdd s key j) := by
          unfold storeAdd
          split
          · exact ⟨⟨h.q, h.st, h.log⟩, rfl, Good_of_same hg (fun _ h => h) rfl rfl rfl (fun _ _ _ => rfl)⟩
          · exact ⟨h, rfl, hg⟩
        have hjq' : j ∉ (storeAdd s key j).queue := by rw [hs.2.1]; exact hjq
        apply linkJob_good
        · apply Inv_setJob_notin _ _ hs.1 hjq'
          simp [newJob, JobOK]
        · exact hjq'
        · exact (setJob_goodEx _ (hs.2.2.toEx j)).toGood hjq'

theorem enabled_of_armed {s : St} {t : Int} (hk : TimerOK s) (ht : s.timer = some t) : s.enabled = true := by
  unfold TimerOK at hk
  cases hq : s.queue with
  | nil => rw [hq] at hk; simp only [] at hk; rw [hk] at ht; cases ht
  | cons a rest =>
    rw [hq] at hk
    simp only [] at hk
    cases he : s.enabled with
    | true => rfl
    | false => rw [he] at hk; simp at hk; rw [hk] at ht; cases ht

theorem runJobs_goodF (fuel : Nat) {s : St} {t : Int} (h : Inv s) (hg : Good s) (ht : s.timer = some t) :
    GoodF (runJobs fuel s) := by
  unfold runJobs
  apply (runSpec fuel _ (Inv_timer_none h)).2
  rcases hg with hf | hk
  · exact Or.inl (HasFatal_mono hf (fun _ h => h))
  · exact Or.inr ⟨enabled_of_armed (s := s) hk ht, Or.inl rfl⟩

/-- after the loop ran its ready callbacks the timer is right and not due -/
theorem fireDue_goodF {s : St} (h : Inv s) (hg : Good s) : GoodF (fireDue s) := by
  unfold fireDue
  split
  · next t ht =>
    split
    · exact runJobs_goodF OPFUEL h hg ht
    · next hgt =>
      refine hg.elim Or.inl (fun hk => Or.inr ⟨hk, ?_⟩)
      intro t' ht'
      rw [ht] at ht'; cases ht'
      omega
  · next ht =>
    refine hg.elim Or.inl (fun hk => Or.inr ⟨hk, ?_⟩)
    intro t' ht'; rw [ht] at ht'; cases ht'

theorem Good_now {s : St} (n : Int) (hg : Good s) : Good { s with now := n } :=
  Good_of_same hg (fun _ h => h) rfl rfl rfl (fun _ _ _ => rfl)

theorem sleepLoop_goodF (n : Nat) (target : Int) {s : St} (h : Inv s) (hg : Good s) :
    GoodF (sleepLoop n target s) := by
  induction n generalizing s with
  | zero => exact Or.inl (HasFatal_emit_fatal _)
  | succ n ih =>
    unfold sleepLoop
    split
    · next t ht =>
      split
      · have hI : Inv { s with now := if t > s.now then t else s.now } := ⟨h.q, h.st, h.log⟩
        have g := runJobs_goodF OPFUEL (t := t) hI (Good_now _ hg) ht
        exact ih (runJobs_inv OPFUEL hI) g.good
      · next hgt =>
        refine (Good_now target hg).elim Or.inl (fun hk => Or.inr ⟨hk, ?_⟩)
        intro t' ht'
        have : s.timer = some t' := ht'
        rw [ht] at this; cases this
        show target < t
        omega
    · next ht =>
      refine (Good_now target hg).elim Or.inl (fun hk => Or.inr ⟨hk, ?_⟩)
      intro t' ht'
      have : s.timer = some t' := ht'
      rw [ht] at this; cases this

/-- every public operation keeps the loop timer armed for the head of the queue -/
theorem step_good (s : St) (op : Op) (h : Inv s) (hg : Good s) : Good (step s op).1 := by
  have hT2 := timerFn2_setTimer OPFUEL
  have hT := hT2.base
  unfold step
  simp only []
  cases op with
  | create j key spec ef tf tff => exact createJob_good j key spec ef tf tff h hg
  | cancel j => exact jobFinish_good _ hT2 s j h hg
  | pause j =>
    simp only []
    split
    · exact hg
    · split
      · exact hg
      · exact pauseLike_good j h hg
  | stop j =>
    simp only []
    split
    · exact hg
    · split
      · exact hg
      · exact pauseLike_good j h hg
  | resume j =>
    simp only []
    split
    · exact hg
    · split
      · exact hg
      · obtain ⟨u1, u2⟩ := updateNext_spec (setTimer OPFUEL) hT j h
        split
        · rename_i s' e heq
          have : s' = (updateNext (setTimer OPFUEL) s j).1 := by rw [heq]
          subst this
          exact updateNext_good_err _ hT2 s j h hg (by rw [heq])
        · rename_i s' heq
          have : s' = (updateNext (setTimer OPFUEL) s j).1 := by rw [heq]
          subst this
          exact updateJob_good OPFUEL j u1 (updateNext_goodEx _ hT2 s j h hg)
  | reset j =>
    simp only []
    split
    · exact hg
    · split
      · exact hg
      · split
        · rename_i s' e heq
          have : s' = (setNextRun s j (some (s.now + (s.job j).secs))).1 := by rw [heq]
          subst this
          rw [setNextRun_err (e := e) (by rw [heq])]; exact hg
        · rename_i s' heq
          have : s' = (setNextRun s j (some (s.now + (s.job j).secs))).1 := by rw [heq]
          subst this
          exact updateJob_good OPFUEL j (InvEx_setNextRun _ (h.toEx j)) (setNextRun_goodEx s j _ (hg.toEx j))
  | setCountdown j secs =>
    simp only []
    split
    · exact hg
    · split
      · exact hg
      · split
        · exact hg
        · exact setJob_good_same _ rfl hg
  | cbReg fin j c =>
    simp only []
    split
    · split
      · exact hg
      · exact setJob_good_same _ rfl hg
    · split
      · exact hg
      · exact setJob_good_same _ rfl hg
  | cbRem fin j c =>
    simp only []
    split
    · exact setJob_good_same _ rfl hg
    · exact setJob_good_same _ rfl hg
  | cbFails c => exact Good_of_same hg (fun _ h => h) rfl rfl rfl (fun _ _ _ => rfl)
  | enable e =>
    simp only []
    split
    · exact hg
    · exact (hT2.post { s with enabled := e } ⟨h.q, h.st, h.log⟩).good
  | advance d => exact Good_now _ hg
  | yield => exact (fireDue_goodF h hg).good
  | sleep d => exact (sleepLoop_goodF _ _ h hg).good

/-- every queued job runs later than an armed timer's instant (the queue is sorted and the timer is the head's) -/
theorem queued_after_timer {s : St} (hi : Inv s) (hk : TimerOK s) (hf : Fresh s) (hen : s.enabled = true) :
    ∀ i ∈ s.queue, ∃ t, s.nr i = some t ∧ s.now < t := by
  intro i hm
  unfold TimerOK at hk
  cases hq : s.queue with
  | nil => rw [hq] at hm; cases hm
  | cons a rest =>
    rw [hq] at hk hm
    simp only [hen, if_true] at hk
    obtain ⟨ta, hta⟩ := (hi.st.run a).1 (hi.q.run a (by rw [hq]; simp))
    have hta' : s.nr a = some ta := hta
    have hnow : s.now < ta := hf ta (by rw [hk.1, hta'])
    rcases List.mem_cons.1 hm with rfl | hr
    · exact ⟨ta, hta', hnow⟩
    · obtain ⟨ti, hti⟩ := (hi.st.run i).1 (hi.q.run i (by rw [hq]; simp [hr]))
      have hs := hi.q.sorted
      rw [hq] at hs
      have hle := (List.pairwise_cons.1 hs).1 i hr
      unfold leNR at hle
      simp only [hta, hti, ltNR_some] at hle
      refine ⟨ti, hti, ?_⟩
      have : ¬ ti < ta := by simpa using hle
      omega

end Ea
