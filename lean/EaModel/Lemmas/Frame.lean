import EaModel.Lemmas.Quiet
/-!
# The record of a job that is not queued is not touched (C02 / C07 / C08)

Only two things change a job record: an operation on that very job, and its execution by the run loop — and the
loop executes only queued jobs.
-/
namespace Ea

/-- job `i` is not queued in `s'` and its record is the one it had in `s` -/
def Frozen (i : Nat) (s s' : St) : Prop := s'.jobs i = s.jobs i ∧ i ∉ s'.queue

theorem Frozen.refl {i : Nat} {s : St} (h : i ∉ s.queue) : Frozen i s s := ⟨rfl, h⟩

theorem Frozen.trans {i : Nat} {a b c : St} (h1 : Frozen i a b) (h2 : Frozen i b c) : Frozen i a c :=
  ⟨h2.1.trans h1.1, h2.2⟩

theorem Frozen.of_same {i : Nat} {s s' : St} (h : i ∉ s.queue) (hj : s'.jobs i = s.jobs i) (hq : s'.queue = s.queue) :
    Frozen i s s' := ⟨hj, by rw [hq]; exact h⟩

theorem setNextRun_frozen (s : St) (j i : Nat) (nr : Option Int) (hne : i ≠ j) (h : i ∉ s.queue) :
    Frozen i s (setNextRun s j nr).1 := by
  rcases setNextRun_spec s j nr with ⟨h1, _⟩ | ⟨_, b', _, _, hjobs, hq, _⟩
  · rw [h1]; exact Frozen.refl h
  · exact Frozen.of_same h (by rw [hjobs]; simp [hne]) hq

theorem setJob_frozen (s : St) (j i : Nat) (b : Job) (hne : i ≠ j) (h : i ∉ s.queue) : Frozen i s (s.setJob j b) :=
  Frozen.of_same h (by simp [St.setJob, hne]) rfl

/-- `_set_timer` does not touch a job that is not queued -/
structure TimerFnF (i : Nat) (setT : St → St) : Prop where
  base : TimerFn2 setT
  frozen : ∀ s, Inv s → i ∉ s.queue → Frozen i s (setT s)

section withTimer
variable (setT : St → St) {i : Nat} (hF : TimerFnF i setT)
include hF

theorem removeJob_frozen (s : St) (j : Nat) (hI : Inv { s with queue := s.queue.erase j }) (h : i ∉ s.queue) :
    Frozen i s (removeJob setT s j) := by
  have h' : i ∉ ({ s with queue := s.queue.erase j } : St).queue := fun hm => h (List.mem_of_mem_erase hm)
  rcases removeJob_cases setT s j with e | e <;> rw [e]
  · exact hF.frozen _ hI h'
  · exact ⟨rfl, h'⟩

theorem addJob_frozen (s : St) (j : Nat) (hne : i ≠ j) (hI : Inv s) (hj : j ∉ s.queue) (h : i ∉ s.queue) :
    Frozen i s (addJob setT s j) := by
  unfold addJob
  split
  · next hr =>
    simp only []
    have h' : i ∉ ({ s with queue := insort s.nr j s.queue } : St).queue := by
      intro hm
      have hm' : i ∈ insort s.nr j s.queue := hm
      rcases (insort_mem _ j s.queue i).1 hm' with e | e
      · exact hne e
      · exact h e
    split
    · exact hF.frozen _ (Inv_insorted j hI hj hr) h'
    · exact ⟨rfl, h'⟩
  · exact Frozen.refl h

theorem jobFinish_frozen (s : St) (j : Nat) (hne : i ≠ j) (hI : Inv s) (h : i ∉ s.queue) :
    Frozen i s (jobFinish setT s j).1 := by
  by_cases hf : (s.job j).status = .finished
  · unfold jobFinish; rw [if_pos hf]; exact Frozen.refl h
  · have f1 := removeJob_frozen setT hF s j (Inv_erased j hI) h
    refine f1.trans ?_
    unfold jobFinish
    rw [if_neg hf]
    simp only []
    obtain ⟨q1, q2, _⟩ := runCbs_frame true j ((removeJob setT s j).job j).onFinished
      (if ((removeJob setT s j).job j).inStore then
        { ((removeJob setT s j).setJob j
          { (removeJob setT s j).job j with linked := false, status := .finished, nextRun := none, inStore := false }) with
          store := (((removeJob setT s j).setJob j
          { (removeJob setT s j).job j with linked := false, status := .finished, nextRun := none, inStore := false })).store.filter
            (fun kv => kv.1 ≠ ((removeJob setT s j).job j).key) }
       else ((removeJob setT s j).setJob j
          { (removeJob setT s j).job j with linked := false, status := .finished, nextRun := none, inStore := false }))
    refine Frozen.of_same f1.2 ?_ ?_
    · rw [q2]; split <;> simp [St.setJob, hne]
    · rw [q1]; split <;> rfl

theorem updateNext_frozen (s : St) (j : Nat) (hne : i ≠ j) (hI : Inv s) (h : i ∉ s.queue) :
    Frozen i s (updateNext setT s j).1 := by
  unfold updateNext
  simp only []
  split
  · exact jobFinish_frozen setT hF s j hne hI h
  · exact setNextRun_frozen s j i none hne h
  · split
    · exact Frozen.refl h
    · split
      · exact setJob_frozen s j i _ hne h
      · split
        · exact setJob_frozen s j i _ hne h
        · exact (setJob_frozen s j i _ hne h).trans (setNextRun_frozen _ j i _ hne (setJob_frozen s j i _ hne h).2)

theorem execute_frozen (s : St) (j : Nat) (due : Int) (hne : i ≠ j) (hI : Inv s) (hj : j ∉ s.queue)
    (hdue : due ≤ s.now) (h : i ∉ s.queue) : Frozen i s (execute setT s j due) := by
  unfold execute
  simp only []
  generalize hs0 : (if (s.job j).execFail.contains (s.job j).execs = true then
      (((s.emit (Ev.exec j s.now due)).setJob j { s.job j with execs := (s.job j).execs + 1, lastRun := some s.now })).emit (Ev.exc "CallableError")
    else ((s.emit (Ev.exec j s.now due)).setJob j { s.job j with execs := (s.job j).execs + 1, lastRun := some s.now })) = s0
  have hb : JobOK ({ s.job j with execs := (s.job j).execs + 1, lastRun := some s.now } : Job) := hI.st j
  have hA : Inv ((s.emit (Ev.exec j s.now due)).setJob j { s.job j with execs := (s.job j).execs + 1, lastRun := some s.now }) :=
    (InvEx_setJob _ ((Inv_emit _ hI (by simpa [evOK] using hdue)).toEx j) hb).toInv hj
  have h0 : Frozen i s s0 ∧ Inv s0 := by
    subst hs0
    split
    · exact ⟨Frozen.of_same h (by simp [St.emit, St.setJob, hne]) rfl, Inv_emit _ hA (by simp [evOK])⟩
    · exact ⟨Frozen.of_same h (by simp [St.emit, St.setJob, hne]) rfl, hA⟩
  obtain ⟨f0, i0⟩ := h0
  have f1 := updateNext_frozen setT hF s0 j hne i0 f0.2
  split
  · next s' heq =>
    have : s' = (updateNext setT s0 j).1 := by rw [heq]
    subst this
    exact f0.trans f1
  · next s' e heq =>
    have : s' = (updateNext setT s0 j).1 := by rw [heq]
    subst this
    have f2 : Frozen i (updateNext setT s0 j).1 ((updateNext setT s0 j).1.emit (Ev.exc e.name)) :=
      Frozen.of_same f1.2 rfl rfl
    split
    · exact ((f0.trans f1).trans f2).trans (setNextRun_frozen _ j i none hne f2.2)
    · exact (f0.trans f1).trans f2

end withTimer

def FSpec (i : Nat) (f : Nat) : Prop := ∀ s, Inv s → i ∉ s.queue → Frozen i s (runLoop f s)

theorem setTimer_frozen_of (i : Nat) (fuel : Nat) (hrun : ∀ f, f < fuel → FSpec i f) :
    ∀ s, Inv s → i ∉ s.queue → Frozen i s (setTimer fuel s) := by
  intro s hI h
  unfold setTimer
  simp only []
  split
  · exact ⟨rfl, h⟩
  · split
    · exact ⟨rfl, h⟩
    · split
      · exact ⟨rfl, h⟩
      · split
        · split
          · exact ⟨rfl, h⟩
          · next f => exact hrun f (by omega) { s with timer := none } (Inv_timer_none hI) h
        · exact ⟨rfl, h⟩

theorem fSpec (i : Nat) (fuel : Nat) : FSpec i fuel := by
  induction fuel using Nat.strongRecOn with
  | _ fuel ih =>
    intro s h hnq
    have hst : ∀ f, f ≤ fuel → TimerFnF i (setTimer f) :=
      fun f hf => ⟨timerFn2_setTimer f, setTimer_frozen_of i f (fun f' hf' => ih f' (by omega))⟩
    unfold runLoop
    split
    · exact Frozen.refl hnq
    · next hd rest hq =>
      split
      · exact ⟨rfl, hnq⟩
      · next nr hnr =>
        split
        · exact (hst fuel (Nat.le_refl _)).frozen s h hnq
        · next hle =>
          split
          · exact ⟨rfl, hnq⟩
          · next f =>
            have hF := hst f (by omega)
            have hT := hF.base.base
            have hnd : hd ∉ rest := by
              have := h.q.nodup; rw [hq] at this; exact (List.nodup_cons.1 this).1
            have hne : i ≠ hd := by
              intro e; subst e; exact hnq (by rw [hq]; simp)
            have h1 : Inv { s with queue := rest } := by
              refine ⟨⟨?_, ?_, ?_⟩, h.st, h.log⟩
              · intro i hi; exact h.q.run i (by rw [hq]; simp [hi])
              · have := h.q.nodup; rw [hq] at this; exact (List.nodup_cons.1 this).2
              · have := h.q.sorted; rw [hq] at this; exact (List.pairwise_cons.1 this).2
            have hp1 : i ∉ ({ s with queue := rest } : St).queue :=
              fun hm => hnq (by rw [hq]; exact List.mem_cons_of_mem _ hm)
            have hdue : nr ≤ ({ s with queue := rest } : St).now := by
              show nr ≤ s.now
              omega
            obtain ⟨e1, e2⟩ := execute_spec (setTimer f) hT hd nr h1 (by simpa using hnd) hdue
            have hd2 : hd ∉ (execute (setTimer f) { s with queue := rest } hd nr).queue :=
              fun hm => hnd (e2 hd hm)
            have f1 := execute_frozen (setTimer f) hF { s with queue := rest } hd nr hne h1 (by simpa using hnd) hdue hp1
            have a1 := Inv_addJob (setTimer f) hT hd e1 hd2
            have f2 := addJob_frozen (setTimer f) hF _ hd hne e1 hd2 f1.2
            have f3 := ih f (by omega) _ a1 f2.2
            exact ⟨(f3.1.trans f2.1).trans f1.1, f3.2⟩

theorem timerFnF_setTimer (i f : Nat) : TimerFnF i (setTimer f) :=
  ⟨timerFn2_setTimer f, setTimer_frozen_of i f (fun f' _ => fSpec i f')⟩

theorem runJobs_frozen (i f : Nat) {s : St} (hI : Inv s) (h : i ∉ s.queue) : Frozen i s (runJobs f s) := by
  unfold runJobs
  exact fSpec i f { s with timer := none } (Inv_timer_none hI) h

theorem sleepLoop_frozen (i n : Nat) (target : Int) {s : St} (hI : Inv s) (h : i ∉ s.queue) :
    Frozen i s (sleepLoop n target s) := by
  induction n generalizing s with
  | zero => exact ⟨rfl, h⟩
  | succ n ih =>
    unfold sleepLoop
    split
    · next t ht =>
      split
      · have hI1 : Inv { s with now := if t > s.now then t else s.now } := ⟨hI.q, hI.st, hI.log⟩
        have f1 : Frozen i s (runJobs OPFUEL { s with now := if t > s.now then t else s.now }) :=
          runJobs_frozen i OPFUEL hI1 h
        exact f1.trans (ih (runJobs_inv OPFUEL hI1) f1.2)
      · exact ⟨rfl, h⟩
    · exact ⟨rfl, h⟩

theorem createJob_frozen (s : St) (i j : Nat) (key : Option Nat) (spec : JobSpec) (ef tf : List Nat) (tff : Nat)
    (hne : i ≠ j) (hI : Inv s) (h : i ∉ s.queue) : Frozen i s (createJob s j key spec ef tf tff).1 := by
  have hF := timerFnF_setTimer i OPFUEL
  have hT := hF.base.base
  unfold createJob
  split
  · exact Frozen.refl h
  · rename_i hcr
    have hcr' : (s.job j).status = .created := by simpa using hcr
    have hjq : j ∉ s.queue := by
      intro hm
      have := hI.q.run j hm
      rw [show (s.jobs j).status = (s.job j).status from rfl, hcr'] at this
      cases this
    split
    · exact Frozen.refl h
    · split
      · exact Frozen.refl h
      · have hs : Inv (storeAdd s key j) ∧ (storeAdd s key j).queue = s.queue ∧ (storeAdd s key j).jobs = s.jobs := by
          unfold storeAdd
          split
          · exact ⟨⟨hI.q, hI.st, hI.log⟩, rfl, rfl⟩
          · exact ⟨hI, rfl, rfl⟩
        have hjq' : j ∉ (storeAdd s key j).queue := by rw [hs.2.1]; exact hjq
        have hI1 : Inv ((storeAdd s key j).setJob j (newJob key spec ef tf tff)) := by
          apply Inv_setJob_notin _ _ hs.1 hjq'
          simp [newJob, JobOK]
        have f0 : Frozen i s ((storeAdd s key j).setJob j (newJob key spec ef tf tff)) :=
          Frozen.of_same h (by simp [St.setJob, hne, hs.2.2]) hs.2.1
        refine f0.trans ?_
        -- link_scheduler
        have hjq1 : j ∉ ((storeAdd s key j).setJob j (newJob key spec ef tf tff)).queue := hjq'
        generalize (storeAdd s key j).setJob j (newJob key spec ef tf tff) = s1 at hI1 hjq1 f0
        have hfirst : ∀ r : R, (Inv r.1 ∧ j ∉ r.1.queue ∧ Frozen i s1 r.1) →
            Frozen i s1 (match r with
              | (s', none) => (addJob (setTimer OPFUEL) s' j, none)
              | (s', some e) => ((jobFinish (setTimer OPFUEL) s' j).1, some e)).1 := by
          intro r hr
          obtain ⟨s', e⟩ := r
          cases e with
          | none => exact hr.2.2.trans (addJob_frozen _ hF s' j hne hr.1 hr.2.1 hr.2.2.2)
          | some e => exact hr.2.2.trans (jobFinish_frozen _ hF s' j hne hr.1 hr.2.2.2)
        unfold linkJob
        simp only []
        apply hfirst
        split
        · next t _ =>
          have hq : j ∉ (setNextRun s1 j (some t)).1.queue := by rw [setNextRun_queue]; exact hjq1
          exact ⟨Inv_setNextRun j _ hI1 hjq1, hq, setNextRun_frozen s1 j i _ hne f0.2⟩
        · obtain ⟨u1, u2⟩ := updateNext_spec (setTimer OPFUEL) hT j hI1
          have hju : j ∉ (updateNext (setTimer OPFUEL) s1 j).1.queue := fun hm => hjq1 (u2 j hm)
          exact ⟨u1.toInv hju, hju, updateNext_frozen _ hF s1 j hne hI1 f0.2⟩

/-- no operation on another job, no wake-up, no sleep and no switching of the scheduler touches the record of a
job that is not queued -/
theorem step_frozen (s : St) (op : Op) (i : Nat) (hI : Inv s) (h : i ∉ s.queue)
    (htg : op.target ≠ some i) (hadds : op.adds ≠ some i) : Frozen i s (step s op).1 := by
  have hF := timerFnF_setTimer i OPFUEL
  have hT := hF.base.base
  have pauseLike : ∀ j, i ≠ j → Frozen i s (setNextRun (removeJob (setTimer OPFUEL) s j) j none).1 := by
    intro j hne
    have f1 := removeJob_frozen _ hF s j (Inv_erased j hI) h
    exact f1.trans (setNextRun_frozen _ j i none hne f1.2)
  have updJob : ∀ j (s1 : St), i ≠ j → InvEx j s1 → i ∉ s1.queue →
      Frozen i s1 (addJob (setTimer OPFUEL) (removeJob (setTimer OPFUEL) s1 j) j) := by
    intro j s1 hne hx h1
    have hI1 : Inv (removeJob (setTimer OPFUEL) s1 j) := Inv_removeJob _ hT j hx.q hx.st hx.log
    have hj : j ∉ (removeJob (setTimer OPFUEL) s1 j).queue := removeJob_notin _ hT j hx.q hx.nodup hx.st hx.log
    have f1 := removeJob_frozen _ hF s1 j ⟨hx.q, hx.st, hx.log⟩ h1
    exact f1.trans (addJob_frozen _ hF _ j hne hI1 hj f1.2)
  unfold step
  simp only []
  cases op with
  | create j key spec ef tf tff =>
    exact createJob_frozen s i j key spec ef tf tff (fun e => hadds (by rw [e]; rfl)) hI h
  | cancel j =>
    have hne : i ≠ j := fun e => htg (by rw [e]; rfl)
    exact jobFinish_frozen _ hF s j hne hI h
  | pause j =>
    have hne : i ≠ j := fun e => htg (by rw [e]; rfl)
    simp only []
    split
    · exact Frozen.refl h
    · split
      · exact Frozen.refl h
      · exact pauseLike j hne
  | stop j =>
    have hne : i ≠ j := fun e => htg (by rw [e]; rfl)
    simp only []
    split
    · exact Frozen.refl h
    · split
      · exact Frozen.refl h
      · exact pauseLike j hne
  | resume j =>
    have hne : i ≠ j := fun e => htg (by rw [e]; rfl)
    simp only []
    split
    · exact Frozen.refl h
    · split
      · exact Frozen.refl h
      · obtain ⟨u1, _⟩ := updateNext_spec (setTimer OPFUEL) hT j hI
        have f1 := updateNext_frozen _ hF s j hne hI h
        split
        · rename_i s' e heq
          have : s' = (updateNext (setTimer OPFUEL) s j).1 := by rw [heq]
          subst this
          exact f1
        · rename_i s' heq
          have : s' = (updateNext (setTimer OPFUEL) s j).1 := by rw [heq]
          subst this
          exact f1.trans (updJob j _ hne u1 f1.2)
  | reset j =>
    have hne : i ≠ j := fun e => htg (by rw [e]; rfl)
    simp only []
    split
    · exact Frozen.refl h
    · split
      · exact Frozen.refl h
      · have f1 := setNextRun_frozen s j i (some (s.now + (s.job j).secs)) hne h
        split
        · rename_i s' e heq
          have : s' = (setNextRun s j (some (s.now + (s.job j).secs))).1 := by rw [heq]
          subst this
          exact f1
        · rename_i s' heq
          have : s' = (setNextRun s j (some (s.now + (s.job j).secs))).1 := by rw [heq]
          subst this
          exact f1.trans (updJob j _ hne (InvEx_setNextRun _ (hI.toEx j)) f1.2)
  | setCountdown j secs =>
    have hne : i ≠ j := fun e => htg (by rw [e]; rfl)
    simp only []
    split
    · exact Frozen.refl h
    · split
      · exact Frozen.refl h
      · split
        · exact Frozen.refl h
        · exact setJob_frozen s j i _ hne h
  | cbReg fin j c =>
    have hne : i ≠ j := fun e => htg (by rw [e]; rfl)
    simp only []
    split
    · split
      · exact Frozen.refl h
      · exact setJob_frozen s j i _ hne h
    · split
      · exact Frozen.refl h
      · exact setJob_frozen s j i _ hne h
  | cbRem fin j c =>
    have hne : i ≠ j := fun e => htg (by rw [e]; rfl)
    simp only []
    split
    · exact setJob_frozen s j i _ hne h
    · exact setJob_frozen s j i _ hne h
  | cbFails c => exact ⟨rfl, h⟩
  | advance d => exact ⟨rfl, h⟩
  | enable e =>
    simp only []
    split
    · exact Frozen.refl h
    · exact hF.frozen { s with enabled := e } ⟨hI.q, hI.st, hI.log⟩ h
  | yield =>
    show Frozen i s (fireDue s)
    unfold fireDue
    split
    · split
      · exact runJobs_frozen i OPFUEL hI h
      · exact Frozen.refl h
    · exact Frozen.refl h
  | sleep d => exact sleepLoop_frozen i SLEEPFUEL (s.now + d) hI h

end Ea
