import EaModel.Lemmas.Producer
import EaModel.Lemmas.Zone
/-!
# "Earliest admissible occurrence" for time, interval and group producers
-/
namespace Ea

/-- `v` is the least element of `A` strictly after `c` -/
def LeastAfter (A : Int → Prop) (c v : Int) : Prop := A v ∧ c < v ∧ ∀ t, A t → c < t → v ≤ t

/-! ## interval -/

theorem gridAfter_least (a step dt : Int) (hs : 0 < step) (m : Int) (h : dt < a + m * step) :
    gridAfter a step dt ≤ a + m * step := by
  unfold gridAfter
  have hq := Int.ediv_mul_le (dt - a) (Int.ne_of_gt hs)
  -- (dt - a) / step * step ≤ dt - a < m * step  ⇒  (dt - a) / step < m
  have hlt : (dt - a) / step * step < m * step := by omega
  have : (dt - a) / step < m := Int.lt_of_mul_lt_mul_right hlt (Int.le_of_lt hs)
  have h1 : (dt - a) / step + 1 ≤ m := by omega
  have := Int.mul_le_mul_of_nonneg_right h1 (Int.le_of_lt hs)
  omega

/-- the occurrence set of an interval trigger: the grid `a + m·step`, `m` any integer, admitted by the filter -/
def IntervalAdm (env : Env) (a step : Int) (f : Option Filter) (t : Int) : Prop :=
  (∃ m : Int, t = a + m * step) ∧ env.allows f t = true

theorem gridAfter_on_grid (a step dt : Int) : ∃ m : Int, gridAfter a step dt = a + m * step :=
  ⟨(dt - a) / step + 1, rfl⟩

/-- **interval**: the result is the earliest admitted grid point after `dt` -/
theorem intervalNext_least (env : Env) (a step : Int) (f : Option Filter) (dt r : Int)
    (h : intervalNext env (some a) step f dt = .ok r) : LeastAfter (IntervalAdm env a step f) dt r := by
  unfold intervalNext at h
  split at h
  · simp at h
  · next hs =>
    have hs' : 0 < step := by omega
    simp only [intervalAnchor, Option.getD] at h
    obtain ⟨h1, h2, k, hk, _, hall⟩ := gridSearch_spec env f step hs' _ _ _ h
    have hg := gridAfter_gt a step dt hs'
    obtain ⟨m0, hm0⟩ := gridAfter_on_grid a step dt
    refine ⟨⟨⟨m0 + k, ?_⟩, h2⟩, by omega, ?_⟩
    · rw [hk, hm0, Int.add_mul]; omega
    · intro t ⟨⟨m, hm⟩, hal⟩ hdt
      subst hm
      have hge := gridAfter_least a step dt hs' m hdt
      -- a + m*step = gridAfter + i*step with i = m - m0 ≥ 0
      by_cases hlt : a + m * step < r
      · exfalso
        have hi0 : 0 ≤ m - m0 := by
          have : m0 * step ≤ m * step := by omega
          have := Int.le_of_mul_le_mul_right this hs'
          omega
        have hik : m - m0 < k := by
          have : (m - m0) * step < (k : Int) * step := by
            rw [Int.sub_mul]; omega
          exact Int.lt_of_mul_lt_mul_right this (Int.le_of_lt hs')
        have := hall (m - m0).toNat (by omega)
        have e : gridAfter a step dt + ((m - m0).toNat : Int) * step = a + m * step := by
          rw [Int.toNat_of_nonneg hi0, hm0, Int.sub_mul]; omega
        rw [e] at this
        rw [this] at hal; cases hal
      · omega

/-! ## time of day -/

/-- the candidates `replace` yields for local date `d` (none when it raises) -/
def candsOf (z : Zone) (r : TimeRep) (d : Int) : List Int :=
  match r.replace z d with
  | .ok l => l
  | .error _ => []

/-- regularity of a zone with respect to one time-of-day: candidates of later dates are later, the (at most
two) candidates of one date are in order, and a candidate of date `d` is never after an instant whose local
date is `d + 2` or later. True for real zones (checked per zone / time / policy by the harness on every run
through the executable model); here it is the interface the order argument needs. -/
structure TimeRegular (z : Zone) (r : TimeRep) : Prop where
  mono : ∀ d d' c c', d < d' → c ∈ candsOf z r d → c' ∈ candsOf z r d' → c < c'
  sorted : ∀ d, (candsOf z r d).Pairwise (· ≤ ·)
  low : ∀ d c u, c ∈ candsOf z r d → d + 2 ≤ z.localDay u → c ≤ u

def TimeAdm (env : Env) (r : TimeRep) (f : Option Filter) (t : Int) : Prop :=
  (∃ d, t ∈ candsOf env.zone r d) ∧ env.allows f t = true

theorem firstCand_split (env : Env) (f : Option Filter) (dt : Int) (cs : List Int) (x : Int)
    (h : firstCand env f dt cs = some x) :
    ∃ pre post, cs = pre ++ x :: post ∧ ∀ c ∈ pre, ¬ (c > dt ∧ env.allows f c = true) := by
  induction cs with
  | nil => simp [firstCand] at h
  | cons y ys ih =>
    unfold firstCand at h
    split at h
    · simp at h; subst h; exact ⟨[], ys, rfl, by simp⟩
    · next hy =>
      obtain ⟨pre, post, e, hp⟩ := ih h
      refine ⟨y :: pre, post, by rw [e]; rfl, ?_⟩
      intro c hc
      rcases List.mem_cons.1 hc with rfl | hc
      · exact hy
      · exact hp c hc

/-- **time of day**: in a regular zone the result is the earliest admissible candidate after `dt` -/
theorem timeNext_least (env : Env) (r : TimeRep) (f : Option Filter) (dt x : Int)
    (hreg : TimeRegular env.zone r) (h : timeNext env r f dt = .ok x) :
    LeastAfter (TimeAdm env r f) dt x := by
  unfold timeNext at h
  let lo := env.zone.localDay dt - 1
  refine loopN_inv
    (fun day => lo ≤ day ∧ ∀ d, lo ≤ d → d < day → ∀ c ∈ candsOf env.zone r d, ¬ (c > dt ∧ env.allows f c = true))
    (LeastAfter (TimeAdm env r f) dt) _ ?_ ?_ _ _ _ ⟨Int.le_refl _, fun d h1 h2 => by omega⟩ h
  · intro day a ⟨hlo, hinv⟩ hb
    split at hb
    · simp at hb
    · next cands hrep =>
      have hc : candsOf env.zone r day = cands := by simp [candsOf, hrep]
      split at hb
      · next c hfc =>
        simp at hb; subst hb
        obtain ⟨hmem, hgt, hal⟩ := firstCand_spec _ _ _ _ _ hfc
        obtain ⟨pre, post, hsplit, hpre⟩ := firstCand_split _ _ _ _ _ hfc
        refine ⟨⟨⟨day, by rw [hc]; exact hmem⟩, hal⟩, hgt, ?_⟩
        intro t ⟨⟨d, hd⟩, htal⟩ htgt
        by_cases h1 : d < lo
        · have := hreg.low d t dt hd (by show d + 2 ≤ env.zone.localDay dt; omega)
          omega
        · by_cases h2 : d < day
          · exact absurd ⟨htgt, htal⟩ (hinv d (by omega) h2 t hd)
          · by_cases h3 : d = day
            · subst h3
              rw [hc, hsplit] at hd
              rcases List.mem_append.1 hd with hp | hp
              · exact absurd ⟨htgt, htal⟩ (hpre t hp)
              · rcases List.mem_cons.1 hp with rfl | hp
                · exact Int.le_refl _
                · have hs := hreg.sorted d
                  rw [hc, hsplit, List.pairwise_append] at hs
                  exact (List.pairwise_cons.1 hs.2.1).1 t hp
            · exact Int.le_of_lt (hreg.mono day d c t (by omega) (by rw [hc]; exact hmem) hd)
      · simp at hb
  · intro day day' ⟨hlo, hinv⟩ hb
    split at hb
    · simp at hb
    · next cands hrep =>
      have hc : candsOf env.zone r day = cands := by simp [candsOf, hrep]
      split at hb
      · simp at hb
      · next hfc =>
        simp at hb; subst hb
        refine ⟨by omega, ?_⟩
        intro d h1 h2 c hcm
        by_cases h3 : d < day
        · exact hinv d h1 h3 c hcm
        · have : d = day := by omega
          subst this
          rw [hc] at hcm
          exact firstCand_none _ _ _ _ hfc c hcm

end Ea

namespace Ea

/-! ## groups -/

theorem minList_spec : ∀ (l : List Int) (m : Int), minList l = some m → m ∈ l ∧ ∀ x ∈ l, m ≤ x
  | [], m, h => by simp [minList] at h
  | x :: xs, m, h => by
    unfold minList at h
    split at h
    · next hn =>
      simp at h; subst h
      have : xs = [] := by
        cases xs with
        | nil => rfl
        | cons y ys =>
          unfold minList at hn
          split at hn <;> simp at hn
      subst this
      simp
    · next m' hm' =>
      obtain ⟨h1, h2⟩ := minList_spec xs m' hm'
      simp at h
      split at h
      · next hle =>
        subst h
        refine ⟨by simp, ?_⟩
        intro y hy
        rcases List.mem_cons.1 hy with rfl | hy
        · exact Int.le_refl _
        · have := h2 y hy; omega
      · next hle =>
        subst h
        refine ⟨by simp [h1], ?_⟩
        intro y hy
        rcases List.mem_cons.1 hy with rfl | hy
        · omega
        · exact h2 y hy

theorem getNextList_spec (env : Env) : ∀ (ps : List Producer) (c : Int) (vs : List Int),
    getNextList env ps c = .ok vs →
    (∀ v ∈ vs, ∃ p ∈ ps, getNext env p c = .ok v) ∧ (∀ p ∈ ps, ∃ v ∈ vs, getNext env p c = .ok v)
  | [], c, vs, h => by
    unfold getNextList at h; simp at h; subst h; simp
  | p :: ps, c, vs, h => by
    unfold getNextList at h
    split at h
    · simp at h
    · next v hv =>
      split at h
      · simp at h
      · next vs' hvs =>
        simp at h; subst h
        obtain ⟨a, b⟩ := getNextList_spec env ps c vs' hvs
        constructor
        · intro x hx
          rcases List.mem_cons.1 hx with rfl | hx
          · exact ⟨p, by simp, hv⟩
          · obtain ⟨q, hq, hq'⟩ := a x hx
            exact ⟨q, by simp [hq], hq'⟩
        · intro q hq
          rcases List.mem_cons.1 hq with rfl | hq
          · exact ⟨v, by simp, hv⟩
          · obtain ⟨x, hx, hx'⟩ := b q hq
            exact ⟨x, by simp [hx], hx'⟩

/-- **group**: if every member returns the least element of its occurrence set `A p` after the queried
instant, the group returns the least element of the union that the group filter admits -/
theorem groupNext_least (env : Env) (ps : List Producer) (f : Option Filter) (A : Producer → Int → Prop)
    (hmem : ∀ p ∈ ps, ∀ c v, getNext env p c = .ok v → LeastAfter (A p) c v)
    (dt r : Int) (h : getNext env (.group ps f) dt = .ok r) :
    LeastAfter (fun t => (∃ p ∈ ps, A p t) ∧ env.allows f t = true) dt r := by
  unfold getNext at h
  refine loopN_inv
    (fun cur => dt ≤ cur ∧ ∀ t, (∃ p ∈ ps, A p t) → env.allows f t = true → dt < t → cur < t)
    (LeastAfter (fun t => (∃ p ∈ ps, A p t) ∧ env.allows f t = true) dt) _ ?_ ?_ _ _ _
    ⟨Int.le_refl _, fun t _ _ h => h⟩ h
  · intro cur a ⟨hcur, hinv⟩ hb
    split at hb
    · simp at hb
    · next vals hvals =>
      split at hb
      · simp at hb
      · next m hm =>
        obtain ⟨hm1, hm2⟩ := minList_spec _ _ hm
        obtain ⟨hv1, hv2⟩ := getNextList_spec env ps cur vals hvals
        split at hb
        · next hc =>
          simp at hb; subst hb
          obtain ⟨p, hp, hpv⟩ := hv1 m hm1
          have hl := hmem p hp cur m hpv
          refine ⟨⟨⟨p, hp, hl.1⟩, hc.2⟩, hc.1, ?_⟩
          intro t ⟨⟨q, hq, hqt⟩, htal⟩ htgt
          have hct := hinv t ⟨q, hq, hqt⟩ htal htgt
          obtain ⟨v, hv, hqv⟩ := hv2 q hq
          have := (hmem q hq cur v hqv).2.2 t hqt hct
          have := hm2 v hv
          omega
        · simp at hb
  · intro cur cur' ⟨hcur, hinv⟩ hb
    split at hb
    · simp at hb
    · next vals hvals =>
      split at hb
      · simp at hb
      · next m hm =>
        obtain ⟨hm1, hm2⟩ := minList_spec _ _ hm
        obtain ⟨hv1, hv2⟩ := getNextList_spec env ps cur vals hvals
        split at hb
        · simp at hb
        · next hc =>
          simp at hb; subst hb
          obtain ⟨p, hp, hpv⟩ := hv1 m hm1
          have hl := hmem p hp cur m hpv
          have hcm : cur < m := hl.2.1
          refine ⟨by omega, ?_⟩
          intro t ⟨q, hq, hqt⟩ htal htgt
          have hct := hinv t ⟨q, hq, hqt⟩ htal htgt
          obtain ⟨v, hv, hqv⟩ := hv2 q hq
          have h1 := (hmem q hq cur v hqv).2.2 t hqt hct
          have h2 := hm2 v hv
          -- m ≤ t; and t ≠ m because m was rejected while t is admitted and after dt
          by_cases hmt : m = t
          · subst hmt
            exact absurd ⟨by omega, htal⟩ hc
          · omega

end Ea
