import EaModel.Producer
/-!
# Helper lemmas for the producer model
-/
namespace Ea

/-- a post-condition of the value a `for _ in not_infinite_loop()` loop returns -/
theorem loopN_post {σ α : Type} (Q : α → Prop) (body : σ → Except Err (Sum σ α))
    (hb : ∀ st a, body st = .ok (.inr a) → Q a) :
    ∀ n st a, loopN n st body = .ok a → Q a := by
  intro n
  induction n with
  | zero => intro st a h; simp [loopN] at h
  | succ n ih =>
    intro st a h
    unfold loopN at h
    split at h
    · simp at h
    · next a' hbody => simp at h; subst h; exact hb _ _ hbody
    · next st' hbody => exact ih _ _ h

/-- loop with an invariant on the loop state -/
theorem loopN_inv {σ α : Type} (I : σ → Prop) (Q : α → Prop) (body : σ → Except Err (Sum σ α))
    (hret : ∀ st a, I st → body st = .ok (.inr a) → Q a)
    (hstep : ∀ st st', I st → body st = .ok (.inl st') → I st') :
    ∀ n st a, I st → loopN n st body = .ok a → Q a := by
  intro n
  induction n with
  | zero => intro st a _ h; simp [loopN] at h
  | succ n ih =>
    intro st a hi h
    unfold loopN at h
    split at h
    · simp at h
    · next a' hbody => simp at h; subst h; exact hret _ _ hi hbody
    · next st' hbody => exact ih _ _ (hstep _ _ hi hbody) h

/-- the only errors a loop can end with are `InfiniteLoopDetectedError` and those of its body -/
theorem loopN_err {σ α : Type} (E : Err → Prop) (body : σ → Except Err (Sum σ α))
    (hinf : E .infiniteLoop) (hb : ∀ st e, body st = .error e → E e) :
    ∀ n st e, loopN n st body = .error e → E e := by
  intro n
  induction n with
  | zero => intro st e h; simp [loopN] at h; subst h; exact hinf
  | succ n ih =>
    intro st e h
    unfold loopN at h
    split at h
    · next e' hbody => simp at h; subst h; exact hb _ _ hbody
    · simp at h
    · next st' hbody => exact ih _ _ h

theorem firstCand_spec (env : Env) (f : Option Filter) (dt : Int) (cs : List Int) (c : Int)
    (h : firstCand env f dt cs = some c) : c ∈ cs ∧ c > dt ∧ env.allows f c = true := by
  induction cs with
  | nil => simp [firstCand] at h
  | cons x xs ih =>
    unfold firstCand at h
    split at h
    · next hc => simp at h; subst h; exact ⟨by simp, hc.1, hc.2⟩
    · obtain ⟨a, b, c'⟩ := ih h
      exact ⟨by simp [a], b, c'⟩

/-- the first element of the list (in order) that is after `dt` and admitted -/
theorem firstCand_none (env : Env) (f : Option Filter) (dt : Int) (cs : List Int)
    (h : firstCand env f dt cs = none) : ∀ c ∈ cs, ¬ (c > dt ∧ env.allows f c = true) := by
  induction cs with
  | nil => intro c hc; cases hc
  | cons x xs ih =>
    unfold firstCand at h
    split at h
    · simp at h
    · next hx =>
      intro c hc
      rcases List.mem_cons.1 hc with rfl | hc
      · exact hx
      · exact ih h c hc

theorem gridAfter_gt (a step dt : Int) (hs : 0 < step) : dt < gridAfter a step dt := by
  unfold gridAfter
  have := Int.lt_ediv_add_one_mul_self (dt - a) hs
  omega

theorem gridAfter_le (a step dt : Int) (hs : 0 < step) : gridAfter a step dt ≤ dt + step := by
  unfold gridAfter
  have := Int.ediv_mul_le (dt - a) (Int.ne_of_gt hs)
  have h2 : ((dt - a) / step + 1) * step = (dt - a) / step * step + step := by
    rw [Int.add_mul]; simp
  omega

theorem gridSearch_spec (env : Env) (f : Option Filter) (step : Int) (hs : 0 < step) :
    ∀ n g r, gridSearch env f step n g = .ok r →
      g ≤ r ∧ env.allows f r = true ∧ ∃ k : Nat, r = g + k * step ∧ k < n ∧
        ∀ i : Nat, i < k → env.allows f (g + i * step) = false := by
  intro n
  induction n with
  | zero => intro g r h; simp [gridSearch] at h
  | succ n ih =>
    intro g r h
    unfold gridSearch at h
    split at h
    · next ha =>
      simp at h; subst h
      exact ⟨Int.le_refl _, ha, 0, by simp, by omega, fun i hi => by omega⟩
    · next ha =>
      obtain ⟨h1, h2, k, hk, hkn, hall⟩ := ih _ _ h
      refine ⟨by omega, h2, k + 1, ?_, by omega, ?_⟩
      · rw [hk]; push_cast; rw [Int.add_mul]; omega
      · intro i hi
        cases i with
        | zero => simpa using ha
        | succ i =>
          have := hall i (by omega)
          have e : g + ((i + 1 : Nat) : Int) * step = g + step + (i : Int) * step := by
            push_cast; rw [Int.add_mul]; omega
          rw [e]; exact this

end Ea
