import EaModel.Lemmas.Frame
import EaModel.Lemmas.Order
/-!
# A created one-shot job is queued for its instant
-/
namespace Ea

theorem setNextRun_some_status (s : St) (j : Nat) (t : Int) (h : ¬ t < s.now - PAST_TOLERANCE) :
    ((setNextRun s j (some t)).1.job j).status = .running := by
  unfold setNextRun
  simp only [if_neg h]
  obtain ⟨_, h2, _⟩ := runCbs_frame false j ((s.setJob j { s.job j with nextRun := some t, status := .running }).job j).onUpdate
    (s.setJob j { s.job j with nextRun := some t, status := .running })
  exact (congrArg Job.status (congrFun h2 j)).trans (by simp [St.setJob])

theorem setNextRun_some_nr (s : St) (j : Nat) (t : Int) (h : ¬ t < s.now - PAST_TOLERANCE) :
    (setNextRun s j (some t)).1.nr j = some t := by
  unfold setNextRun
  simp only [if_neg h]
  obtain ⟨_, h2, _⟩ := runCbs_frame false j ((s.setJob j { s.job j with nextRun := some t, status := .running }).job j).onUpdate
    (s.setJob j { s.job j with nextRun := some t, status := .running })
  exact (congrArg Job.nextRun (congrFun h2 j)).trans (by simp [St.setJob])

/-- `scheduler.once(t, ...)` for an instant in the future: the call succeeds and the job is queued for `t` -/
theorem create_once_queued (s : St) (j : Nat) (key : Option Nat) (t : Int) (ef tf : List Nat) (hI : Inv s)
    (hfresh : (s.job j).status = .created) (hkey : s.dupKey key = false) (ht : t > s.now) :
    (createJob s j key (.once t) ef tf).2 = none ∧
    j ∈ (createJob s j key (.once t) ef tf).1.queue ∧ (createJob s j key (.once t) ef tf).1.nr j = some t := by
  have hI' : Inv (createJob s j key (.once t) ef tf).1 := createJob_inv j key (.once t) ef tf _ hI
  have hT3 := timerFn3_setTimer OPFUEL
  have hjq : j ∉ s.queue := by
    intro hm
    have := hI.q.run j hm
    rw [show (s.jobs j).status = (s.job j).status from rfl, hfresh] at this
    cases this
  revert hI'
  unfold createJob
  rw [if_neg (by simp [hfresh]), if_neg (by simp [JobSpec.bad]), if_neg (by simp [hkey])]
  have hs : Inv (storeAdd s key j) ∧ (storeAdd s key j).queue = s.queue ∧ (storeAdd s key j).now = s.now := by
    unfold storeAdd
    split
    · exact ⟨⟨hI.q, hI.st, hI.log⟩, rfl, rfl⟩
    · exact ⟨hI, rfl, rfl⟩
  have hjq' : j ∉ ((storeAdd s key j).setJob j (newJob key (.once t) ef tf)).queue := by
    show j ∉ (storeAdd s key j).queue
    rw [hs.2.1]; exact hjq
  have hI1 : Inv ((storeAdd s key j).setJob j (newJob key (.once t) ef tf)) := by
    apply Inv_setJob_notin _ _ hs.1 hjq'
    simp [newJob, JobOK]
  have hk : (((storeAdd s key j).setJob j (newJob key (.once t) ef tf)).job j).kind = .once t := by
    simp [St.job, St.setJob, newJob, JobSpec.kind]
  have hn1 : ((storeAdd s key j).setJob j (newJob key (.once t) ef tf)).now = s.now := hs.2.2
  generalize (storeAdd s key j).setJob j (newJob key (.once t) ef tf) = s1 at hjq' hI1 hk hn1
  intro hI'
  have hok : ¬ t < s1.now - PAST_TOLERANCE := by
    have := past_tolerance_pos
    omega
  have hlink : linkJob s1 j = (addJob (setTimer OPFUEL) (setNextRun s1 j (some t)).1 j, none) := by
    unfold linkJob
    simp only [hk]
    have h2 : (setNextRun s1 j (some t)).2 = none := setNextRun_ok_of_ge s1 j t hok
    generalize setNextRun s1 j (some t) = r at h2
    obtain ⟨s', e⟩ := r
    cases e with
    | none => rfl
    | some e => cases h2
  rw [hlink] at hI' ⊢
  refine ⟨rfl, ?_⟩
  -- the job is inserted for `t`; `_set_timer` may run the loop but cannot execute a job that is not due
  have hI2 : Inv (setNextRun s1 j (some t)).1 := Inv_setNextRun j _ hI1 hjq'
  have hq2 : j ∉ (setNextRun s1 j (some t)).1.queue := by rw [setNextRun_queue]; exact hjq'
  have hr2 := setNextRun_some_status s1 j t hok
  have hnr2 := setNextRun_some_nr s1 j t hok
  have hn2 : (setNextRun s1 j (some t)).1.now = s.now := by rw [(setNextRun_clock s1 j (some t)).now]; exact hn1
  generalize (setNextRun s1 j (some t)).1 = s2 at hI' hI2 hq2 hr2 hnr2 hn2
  show j ∈ (addJob (setTimer OPFUEL) s2 j).queue ∧ (addJob (setTimer OPFUEL) s2 j).nr j = some t
  have hI'' : Inv (addJob (setTimer OPFUEL) s2 j) := hI'
  revert hI''
  unfold addJob
  rw [if_pos hr2]
  simp only []
  have hmem : j ∈ insort s2.nr j s2.queue := (insort_mem _ j s2.queue j).2 (Or.inl rfl)
  split
  · intro hI''
    have hIq := Inv_insorted j hI2 hq2 hr2
    rcases hT3.keeps _ hIq j t hmem hnr2 with ⟨l, hl, hin⟩ | hr
    · exfalso
      have : evOK (Ev.exec j s2.now t) := hI''.log _ (by rw [hl]; exact List.mem_append_left _ hin)
      have h3 : t ≤ s2.now := this
      omega
    · exact hr
  · intro _
    exact ⟨hmem, hnr2⟩


/-- `update_job` of a job whose run time `t` is in the future: afterwards it is queued for `t` -/
theorem updateJob_queued (s : St) (j : Nat) (t : Int) (hx : InvEx j s) (hr : (s.job j).status = .running)
    (hnr : s.nr j = some t) (ht : t > s.now) :
    j ∈ (addJob (setTimer OPFUEL) (removeJob (setTimer OPFUEL) s j) j).queue ∧
    (addJob (setTimer OPFUEL) (removeJob (setTimer OPFUEL) s j) j).nr j = some t := by
  have hT3 := timerFn3_setTimer OPFUEL
  have hF := timerFnF_setTimer j OPFUEL
  have hT := hT3.base.base
  have hIe : Inv { s with queue := s.queue.erase j } := ⟨hx.q, hx.st, hx.log⟩
  have hje : j ∉ ({ s with queue := s.queue.erase j } : St).queue := not_mem_erase_self j hx.nodup
  -- `remove_job` leaves the record of `j` alone
  have hfr : (removeJob (setTimer OPFUEL) s j).jobs j = s.jobs j ∧ j ∉ (removeJob (setTimer OPFUEL) s j).queue ∧
      (removeJob (setTimer OPFUEL) s j).now = s.now := by
    rcases removeJob_cases (setTimer OPFUEL) s j with e | e <;> rw [e]
    · obtain ⟨f1, f2⟩ := hF.frozen _ hIe hje
      exact ⟨f1, f2, (hT3.base.clock _ hIe).now⟩
    · exact ⟨rfl, hje, rfl⟩
  have hI1 : Inv (removeJob (setTimer OPFUEL) s j) := Inv_removeJob _ hT j hx.q hx.st hx.log
  obtain ⟨hj1, hq1, hn1⟩ := hfr
  have hr1 : ((removeJob (setTimer OPFUEL) s j).job j).status = .running := by
    show ((removeJob (setTimer OPFUEL) s j).jobs j).status = .running
    rw [hj1]; exact hr
  have hnr1 : (removeJob (setTimer OPFUEL) s j).nr j = some t := by
    show ((removeJob (setTimer OPFUEL) s j).jobs j).nextRun = some t
    rw [hj1]; exact hnr
  have hI' : Inv (addJob (setTimer OPFUEL) (removeJob (setTimer OPFUEL) s j) j) := Inv_addJob _ hT j hI1 hq1
  generalize removeJob (setTimer OPFUEL) s j = s2 at hI1 hq1 hn1 hr1 hnr1 hI'
  revert hI'
  unfold addJob
  rw [if_pos hr1]
  simp only []
  have hmem : j ∈ insort s2.nr j s2.queue := (insort_mem _ j s2.queue j).2 (Or.inl rfl)
  split
  · intro hI''
    have hIq := Inv_insorted j hI1 hq1 hr1
    rcases hT3.keeps _ hIq j t hmem hnr1 with ⟨l, hl, hin⟩ | hr
    · exfalso
      have : evOK (Ev.exec j s2.now t) := hI''.log _ (by rw [hl]; exact List.mem_append_left _ hin)
      have h3 : t ≤ s2.now := this
      omega
    · exact hr
  · intro _
    exact ⟨hmem, hnr1⟩

/-- `reset()` of a countdown job with a positive countdown: it is queued for now + countdown -/
theorem reset_queued (s : St) (j : Nat) (hI : Inv s) (hc : isCountdown (s.job j) = true) (hl : (s.job j).linked = true)
    (hpos : 0 < (s.job j).secs) :
    (step s (.reset j)).2 = none ∧ j ∈ (step s (.reset j)).1.queue ∧
    (step s (.reset j)).1.nr j = some (s.now + (s.job j).secs) := by
  have hok : ¬ (s.now + (s.job j).secs) < s.now - PAST_TOLERANCE := by
    have := past_tolerance_pos
    omega
  have h2 : (setNextRun s j (some (s.now + (s.job j).secs))).2 = none := setNextRun_ok_of_ge s j _ hok
  have hstep : step s (.reset j) =
      (addJob (setTimer OPFUEL) (removeJob (setTimer OPFUEL) (setNextRun s j (some (s.now + (s.job j).secs))).1 j) j, none) := by
    unfold step
    simp only [hc, hl]
    generalize setNextRun s j (some (s.now + (s.job j).secs)) = r at h2
    obtain ⟨s', e⟩ := r
    cases e with
    | none => rfl
    | some e => cases h2
  rw [hstep]
  refine ⟨rfl, ?_⟩
  exact updateJob_queued _ j _ (InvEx_setNextRun _ (hI.toEx j)) (setNextRun_some_status s j _ hok)
    (setNextRun_some_nr s j _ hok) (by rw [(setNextRun_clock s j _).now]; omega)


/-- creating a job moves neither the clock nor the switch, and only appends to the log -/
theorem createJob_clock (s : St) (j : Nat) (key : Option Nat) (spec : JobSpec) (ef tf : List Nat) (tff : Nat)
    (hI : Inv s) : SameClock s (createJob s j key spec ef tf tff).1 := by
  have hT2 := timerFn2_setTimer OPFUEL
  have hT := hT2.base
  unfold createJob
  split
  · exact SameClock.refl s
  · rename_i hcr
    have hcr' : (s.job j).status = .created := by simpa using hcr
    have hjq : j ∉ s.queue := by
      intro hm
      have := hI.q.run j hm
      rw [show (s.jobs j).status = (s.job j).status from rfl, hcr'] at this
      cases this
    split
    · exact SameClock.refl s
    · split
      · exact SameClock.refl s
      · have hs : Inv (storeAdd s key j) ∧ (storeAdd s key j).queue = s.queue ∧
            SameClock s ((storeAdd s key j).setJob j (newJob key spec ef tf tff)) := by
          unfold storeAdd
          split
          · exact ⟨⟨hI.q, hI.st, hI.log⟩, rfl, ⟨rfl, rfl, [], rfl⟩⟩
          · exact ⟨hI, rfl, ⟨rfl, rfl, [], rfl⟩⟩
        have hjq' : j ∉ ((storeAdd s key j).setJob j (newJob key spec ef tf tff)).queue := by
          show j ∉ (storeAdd s key j).queue
          rw [hs.2.1]; exact hjq
        have hI1 : Inv ((storeAdd s key j).setJob j (newJob key spec ef tf tff)) := by
          apply Inv_setJob_notin _ _ hs.1 hjq'
          simp [newJob, JobOK]
        refine hs.2.2.trans ?_
        generalize (storeAdd s key j).setJob j (newJob key spec ef tf tff) = s1 at hjq' hI1
        have hfirst : ∀ r : R, (Inv r.1 ∧ j ∉ r.1.queue ∧ SameClock s1 r.1) →
            SameClock s1 (match r with
              | (s', none) => (addJob (setTimer OPFUEL) s' j, none)
              | (s', some e) => ((jobFinish (setTimer OPFUEL) s' j).1, some e)).1 := by
          intro r hr
          obtain ⟨s', e⟩ := r
          cases e with
          | none => exact hr.2.2.trans (addJob_clock _ hT2 s' j hr.1 hr.2.1)
          | some e => exact hr.2.2.trans (jobFinish_clock _ hT2 s' j hr.1)
        unfold linkJob
        simp only []
        apply hfirst
        split
        · next t _ =>
          have hq : j ∉ (setNextRun s1 j (some t)).1.queue := by rw [setNextRun_queue]; exact hjq'
          exact ⟨Inv_setNextRun j _ hI1 hjq', hq, setNextRun_clock s1 j _⟩
        · obtain ⟨u1, u2⟩ := updateNext_spec (setTimer OPFUEL) hT j hI1
          have hju : j ∉ (updateNext (setTimer OPFUEL) s1 j).1.queue := fun hm => hjq' (u2 j hm)
          exact ⟨u1.toInv hju, hju, updateNext_clock _ hT2 s1 j hI1⟩

theorem reset_clock (s : St) (j : Nat) (hI : Inv s) : SameClock s (step s (.reset j)).1 := by
  unfold step
  simp only []
  split
  · exact SameClock.refl s
  · split
    · exact SameClock.refl s
    · have c1 := setNextRun_clock s j (some (s.now + (s.job j).secs))
      split
      · rename_i s' e heq
        have : s' = (setNextRun s j (some (s.now + (s.job j).secs))).1 := by rw [heq]
        subst this
        exact c1
      · rename_i s' heq
        have : s' = (setNextRun s j (some (s.now + (s.job j).secs))).1 := by rw [heq]
        subst this
        exact c1.trans (updateJob_keep OPFUEL j (j + 1) (by omega) (InvEx_setNextRun _ (hI.toEx j))).2

end Ea
