import EaModel.Lemmas.Quiet
import EaModel.Properties.C04
/-!
# Executions of one wake-up happen in the order of the reported run times (C09)
-/
namespace Ea

theorem setNextRun_none_job (s : St) (j : Nat) : ((setNextRun s j none).1.job j).status = .paused := by
  unfold setNextRun
  simp only []
  obtain ⟨_, h2, _⟩ := runCbs_frame false j ((s.setJob j { s.job j with nextRun := none, status := .paused }).job j).onUpdate
    (s.setJob j { s.job j with nextRun := none, status := .paused })
  exact (congrArg Job.status (congrFun h2 j)).trans (by simp [St.setJob])

theorem setNextRun_some_job (s : St) (j : Nat) (t : Int) (h : ¬ t < s.now - PAST_TOLERANCE) :
    ((setNextRun s j (some t)).1.job j).nextRun = some t := by
  unfold setNextRun
  simp only [if_neg h]
  obtain ⟨_, h2, _⟩ := runCbs_frame false j ((s.setJob j { s.job j with nextRun := some t, status := .running }).job j).onUpdate
    (s.setJob j { s.job j with nextRun := some t, status := .running })
  exact (congrArg Job.nextRun (congrFun h2 j)).trans (by simp [St.setJob])

theorem past_tolerance_pos : 0 < PAST_TOLERANCE := by decide

section withTimer
variable (setT : St → St)

theorem jobFinish_job (s : St) (j : Nat) : ((jobFinish setT s j).1.job j).status = .finished := by
  by_cases hf : (s.job j).status = .finished
  · unfold jobFinish; rw [if_pos hf]; exact hf
  · unfold jobFinish
    rw [if_neg hf]
    simp only []
    obtain ⟨_, q2, _⟩ := runCbs_frame true j ((removeJob setT s j).job j).onFinished
      (if ((removeJob setT s j).job j).inStore then
        { ((removeJob setT s j).setJob j
          { (removeJob setT s j).job j with linked := false, status := .finished, nextRun := none, inStore := false }) with
          store := (((removeJob setT s j).setJob j
          { (removeJob setT s j).job j with linked := false, status := .finished, nextRun := none, inStore := false })).store.filter
            (fun kv => kv.1 ≠ ((removeJob setT s j).job j).key) }
       else ((removeJob setT s j).setJob j
          { (removeJob setT s j).job j with linked := false, status := .finished, nextRun := none, inStore := false }))
    refine (congrArg Job.status (congrFun q2 j)).trans ?_
    split <;> simp [St.setJob]

/-- `update_next` of a job whose run time is `due`: on success a job that is still running has a run time in the
future; on failure the run time is untouched -/
theorem updateNext_result (s : St) (j : Nat) (due : Int) (hnr : (s.job j).nextRun = some due) :
    ((updateNext setT s j).2 = none → ((updateNext setT s j).1.job j).status = .running →
      ∃ n, ((updateNext setT s j).1.job j).nextRun = some n ∧ n > s.now) ∧
    (∀ e, (updateNext setT s j).2 = some e → ((updateNext setT s j).1.job j).status = .running →
      ((updateNext setT s j).1.job j).nextRun = some due) := by
  unfold updateNext
  simp only []
  split
  · have hfin := jobFinish_job setT s j
    exact ⟨fun _ h => (by rw [hfin] at h; cases h), fun _ _ h => (by rw [hfin] at h; cases h)⟩
  · have hp := setNextRun_none_job s j
    exact ⟨fun _ h => (by rw [hp] at h; cases h), fun _ _ h => (by rw [hp] at h; cases h)⟩
  · next p hk =>
    split
    · exact ⟨fun h => (by cases h), fun _ _ _ => hnr⟩
    · have hsame : ((s.setJob j { s.job j with kind := Kind.recurring (p.anchorAt s.now), calls := (s.job j).calls + 1 }).job j).nextRun
          = some due := by simp [St.job, St.setJob]; exact hnr
      split
      · exact ⟨fun h => (by cases h), fun _ _ _ => hsame⟩
      · split
        · exact ⟨fun h => (by cases h), fun _ _ _ => hsame⟩
        · next n hn =>
          have hgt : n > s.now := C04.getNext_gt s.env _ _ _ hn
          have hok : ¬ n < (s.setJob j { s.job j with kind := Kind.recurring (p.anchorAt s.now), calls := (s.job j).calls + 1 }).now
              - PAST_TOLERANCE := by
            have := past_tolerance_pos
            show ¬ n < s.now - PAST_TOLERANCE
            omega
          refine ⟨fun _ _ => ⟨n, setNextRun_some_job _ j n hok, hgt⟩, fun e he => ?_⟩
          rw [setNextRun_ok_of_ge _ j n hok] at he
          cases he

/-- after `job.execute()` the job is not running any more, or its new run time is strictly in the future -/
theorem execute_nr_future (s : St) (j : Nat) (due : Int) (hnr : (s.job j).nextRun = some due)
    (hrun : ((execute setT s j due).job j).status = .running) :
    ∃ n, ((execute setT s j due).job j).nextRun = some n ∧ n > s.now := by
  revert hrun
  unfold execute
  simp only []
  generalize hs0 : (if (s.job j).execFail.contains (s.job j).execs = true then
      (((s.emit (Ev.exec j s.now due)).setJob j { s.job j with execs := (s.job j).execs + 1, lastRun := some s.now })).emit (Ev.exc "CallableError")
    else ((s.emit (Ev.exec j s.now due)).setJob j { s.job j with execs := (s.job j).execs + 1, lastRun := some s.now })) = s0
  have h0 : s0.now = s.now ∧ (s0.job j).nextRun = some due := by
    subst hs0
    split <;> exact ⟨rfl, by simp [St.job, St.setJob, St.emit]; exact hnr⟩
  obtain ⟨n0, nr0⟩ := h0
  obtain ⟨r1, r2⟩ := updateNext_result setT s0 j due nr0
  split
  · next s' heq =>
    have e1 : s' = (updateNext setT s0 j).1 := by rw [heq]
    have e2 : (updateNext setT s0 j).2 = none := by rw [heq]
    subst e1
    intro h
    obtain ⟨n, hn, hgt⟩ := r1 e2 h
    exact ⟨n, hn, by rw [← n0]; exact hgt⟩
  · next s' e heq =>
    have e1 : s' = (updateNext setT s0 j).1 := by rw [heq]
    have e2 : (updateNext setT s0 j).2 = some e := by rw [heq]
    subst e1
    intro h
    exfalso
    split at h
    · rw [setNextRun_none_job] at h; cases h
    · next hc =>
      have hs : ((updateNext setT s0 j).1.job j).status = .running := h
      exact hc ⟨hs, r2 e e2 hs⟩

end withTimer

/-! ## all executions of a wake-up have a due time at least that of every job that is still queued -/

def dueGe (d : Int) : Ev → Prop
  | .exec _ _ due => d ≤ due
  | _ => True

/-- every queued job runs at `d` or later -/
def DueGe (d : Int) (s : St) : Prop := ∀ x ∈ s.queue, ∀ t, s.nr x = some t → d ≤ t

/-- ... while job `j` is out of the queue (being executed) -/
def DueGeEx (d : Int) (j : Nat) (s : St) : Prop := j ∉ s.queue ∧ DueGe d s

theorem dueGe_of_notExec (d : Int) : ∀ e, notExec e → dueGe d e := by
  intro e h
  cases e <;> first | exact absurd h id | trivial

theorem DueGe_frame {d : Int} {s s' : St} (h : DueGe d s) (hq : s'.queue = s.queue)
    (hnr : ∀ x ∈ s.queue, s'.nr x = s.nr x) : DueGe d s' := by
  intro x hx t ht
  rw [hq] at hx
  rw [hnr x hx] at ht
  exact h x hx t ht

theorem preOK_dueGeEx (d : Int) (j : Nat) : PreOK j (DueGeEx d j) := by
  refine ⟨?_, ?_⟩
  · intro s s' h hq _ hnr
    refine ⟨by rw [hq]; exact h.1, DueGe_frame h.2 hq (fun x hx => hnr x ?_)⟩
    intro e; subst e; exact h.1 hx
  · intro s h
    refine ⟨fun hm => h.1 (List.mem_of_mem_erase hm), ?_⟩
    intro x hx t ht
    exact h.2 x (List.mem_of_mem_erase hx) t ht

/-- the head of the queue bounds the queue from below -/
theorem DueGe_head {s : St} (hi : Inv s) {hd : Nat} {rest : List Nat} {nr : Int} (hq : s.queue = hd :: rest)
    (hnr : s.nr hd = some nr) : DueGe nr s := by
  intro x hx t ht
  obtain ⟨th, hth, hle⟩ := head_le_queued hi hq hx ht
  rw [hnr] at hth; cases hth; exact hle

def DSpec (f : Nat) : Prop :=
  ∀ d s, Inv s → DueGe d s → Quiet (dueGe d) s (runLoop f s) ∧ DueGe d (runLoop f s)

theorem setTimer_quiet_due (fuel : Nat) (hrun : ∀ f, f < fuel → DSpec f) :
    ∀ d s, Inv s → DueGe d s → Quiet (dueGe d) s (setTimer fuel s) ∧ DueGe d (setTimer fuel s) := by
  intro d s hI hd
  have k : ∀ s' : St, s'.queue = s.queue → s'.jobs = s.jobs → DueGe d s' :=
    fun s' hq hj => DueGe_frame hd hq (fun x _ => by unfold St.nr; rw [hj])
  unfold setTimer
  simp only []
  split
  · exact ⟨Quiet.of_eq rfl, k _ rfl rfl⟩
  · split
    · exact ⟨Quiet.of_eq rfl, k _ rfl rfl⟩
    · split
      · exact ⟨(Quiet.of_eq (s' := { s with timer := none }) rfl).trans (Quiet.emit _ _ trivial), k _ rfl rfl⟩
      · split
        · split
          · exact ⟨(Quiet.of_eq (s' := { s with timer := none }) rfl).trans (Quiet.emit _ _ trivial), k _ rfl rfl⟩
          · next f =>
            obtain ⟨q, p⟩ := hrun f (by omega) d _ (Inv_timer_none hI) (k { s with timer := none } rfl rfl)
            exact ⟨(Quiet.of_eq (s' := { s with timer := none }) rfl).trans q, p⟩
        · exact ⟨Quiet.of_eq rfl, k _ rfl rfl⟩

theorem timerFnQ_due_of (f : Nat) (h : ∀ d s, Inv s → DueGe d s → Quiet (dueGe d) s (setTimer f s) ∧ DueGe d (setTimer f s))
    (d : Int) : TimerFnQ (dueGe d) (DueGe d) (setTimer f) ∧ ∀ j, TimerFnQ (dueGe d) (DueGeEx d j) (setTimer f) := by
  refine ⟨⟨timerFn2_setTimer f, fun s hI hp => h d s hI hp⟩, fun j => ⟨timerFn2_setTimer f, ?_⟩⟩
  intro s hI hp
  obtain ⟨q, p⟩ := h d s hI hp.2
  exact ⟨q, fun hm => hp.1 ((setTimer_spec f s hI).2 j hm), p⟩

theorem dSpec (fuel : Nat) : DSpec fuel := by
  induction fuel using Nat.strongRecOn with
  | _ fuel ih =>
    intro d s h hd
    have hst : ∀ f, f ≤ fuel → ∀ d s, Inv s → DueGe d s →
        Quiet (dueGe d) s (setTimer f s) ∧ DueGe d (setTimer f s) :=
      fun f hf => setTimer_quiet_due f (fun f' hf' => ih f' (by omega))
    have k : ∀ s' : St, s'.queue = s.queue → s'.jobs = s.jobs → DueGe d s' :=
      fun s' hq hj => DueGe_frame hd hq (fun x _ => by unfold St.nr; rw [hj])
    unfold runLoop
    split
    · exact ⟨Quiet.refl _ s, hd⟩
    · next hd' rest hq =>
      split
      · exact ⟨(Quiet.emit s _ trivial).trans (Quiet.emit _ _ trivial), k _ rfl rfl⟩
      · next nr hnr =>
        split
        · exact hst fuel (Nat.le_refl _) d s h hd
        · next hle =>
          split
          · exact ⟨Quiet.emit s _ trivial, k _ rfl rfl⟩
          · next f =>
            obtain ⟨hQ, hQx⟩ := timerFnQ_due_of f (hst f (by omega)) d
            have hT2 := hQ.base
            have hT := hT2.base
            have hnd : hd' ∉ rest := by
              have := h.q.nodup; rw [hq] at this; exact (List.nodup_cons.1 this).1
            have h1 : Inv { s with queue := rest } := by
              refine ⟨⟨?_, ?_, ?_⟩, h.st, h.log⟩
              · intro i hi; exact h.q.run i (by rw [hq]; simp [hi])
              · have := h.q.nodup; rw [hq] at this; exact (List.nodup_cons.1 this).2
              · have := h.q.sorted; rw [hq] at this; exact (List.pairwise_cons.1 this).2
            have hdnr : d ≤ nr := hd hd' (by rw [hq]; simp) nr hnr
            have hp1 : DueGeEx d hd' { s with queue := rest } :=
              ⟨hnd, fun x hx t ht => hd x (by rw [hq]; exact List.mem_cons_of_mem _ hx) t ht⟩
            have hdue : nr ≤ ({ s with queue := rest } : St).now := by
              show nr ≤ s.now
              omega
            obtain ⟨e1, e2⟩ := execute_spec (setTimer f) hT hd' nr h1 (by simpa using hnd) hdue
            have hd2 : hd' ∉ (execute (setTimer f) { s with queue := rest } hd' nr).queue :=
              fun hm => hnd (e2 hd' hm)
            obtain ⟨q1, p1⟩ := execute_quiet (setTimer f) (dueGe_of_notExec d) (hQx hd')
              { s with queue := rest } hd' nr (preOK_dueGeEx d hd') h1 (by simpa using hnd) hdue hp1 hdnr
            have a1 := Inv_addJob (setTimer f) hT hd' e1 hd2
            have hins : ((execute (setTimer f) { s with queue := rest } hd' nr).job hd').status = .running →
                DueGe d { (execute (setTimer f) { s with queue := rest } hd' nr) with
                  queue := insort (execute (setTimer f) { s with queue := rest } hd' nr).nr hd'
                    (execute (setTimer f) { s with queue := rest } hd' nr).queue } := by
              intro hr x hx t ht
              have hx' : x ∈ insort (execute (setTimer f) { s with queue := rest } hd' nr).nr hd'
                  (execute (setTimer f) { s with queue := rest } hd' nr).queue := hx
              rcases (insort_mem _ hd' _ x).1 hx' with e | e
              · subst e
                obtain ⟨n, hn, hgt⟩ := execute_nr_future (setTimer f) { s with queue := rest } x nr hnr hr
                have ht' : ((execute (setTimer f) { s with queue := rest } x nr).job x).nextRun = some t := ht
                rw [hn] at ht'
                have hnt : n = t := by injection ht'
                have : n > s.now := hgt
                omega
              · exact p1.2 x e t ht
            obtain ⟨q2, p2⟩ := addJob_quiet (setTimer f) (dueGe_of_notExec d) hQ _ hd' e1 hd2 p1.2 hins
            obtain ⟨q3, p3⟩ := ih f (by omega) d _ a1 p2
            exact ⟨((Quiet.of_eq (s' := { s with queue := rest }) rfl).trans q1).trans (q2.trans q3), p3⟩


/-! ## the executions of a wake-up are logged in the order of their due times -/

/-- the due times of the executions in a piece of log (newest first) -/
def dues (l : List Ev) : List Int :=
  l.filterMap (fun e => match e with | .exec _ _ d => some d | _ => none)

theorem dues_append (a b : List Ev) : dues (a ++ b) = dues a ++ dues b := by
  unfold dues; exact List.filterMap_append

theorem mem_dues {d : Int} {l : List Ev} : d ∈ dues l ↔ ∃ j t, Ev.exec j t d ∈ l := by
  unfold dues
  rw [List.mem_filterMap]
  constructor
  · rintro ⟨e, he, hm⟩
    cases e with
    | exec j t d' => simp at hm; subst hm; exact ⟨j, t, he⟩
    | _ => simp at hm
  · rintro ⟨j, t, h⟩
    exact ⟨_, h, rfl⟩

theorem dues_of_notExec {l : List Ev} (h : ∀ e ∈ l, notExec e) : dues l = [] := by
  unfold dues
  rw [List.filterMap_eq_nil_iff]
  intro e he
  have := h e he
  cases e <;> first | exact absurd this id | rfl

/-- the log grew by executions in the order of their due times (newest first: non-increasing), none of them
later than the clock, and every job still queued is due no earlier than any of them -/
def Ordered (s s' : St) : Prop :=
  ∃ l, s'.log = l ++ s.log ∧ (dues l).Pairwise (· ≥ ·) ∧ ∀ d ∈ dues l, DueGe d s' ∧ d ≤ s'.now

theorem Ordered.refl (s : St) : Ordered s s := ⟨[], rfl, List.Pairwise.nil, fun _ h => by cases h⟩

theorem Ordered.of_noexec {a b : St} (h : Quiet notExec a b) : Ordered a b := by
  obtain ⟨l, hl, hp⟩ := h
  refine ⟨l, hl, ?_, ?_⟩
  · rw [dues_of_notExec hp]; exact List.Pairwise.nil
  · rw [dues_of_notExec hp]; intro _ h; cases h

theorem Ordered.trans' {a b c : St} (h1 : Ordered a b) (h2 : Ordered b c) (hnow : b.now ≤ c.now)
    (hfam : ∀ d, d ≤ b.now → DueGe d b → Quiet (dueGe d) b c ∧ DueGe d c) : Ordered a c := by
  obtain ⟨l1, e1, s1, g1⟩ := h1
  obtain ⟨l2, e2, s2, g2⟩ := h2
  refine ⟨l2 ++ l1, by rw [e2, e1, List.append_assoc], ?_, ?_⟩
  · rw [dues_append, List.pairwise_append]
    refine ⟨s2, s1, ?_⟩
    intro x hx y hy
    obtain ⟨l', el', pl'⟩ := (hfam y (g1 y hy).2 (g1 y hy).1).1
    have : l' = l2 := List.append_cancel_right (el'.symm.trans e2)
    subst this
    obtain ⟨j, t, hm⟩ := mem_dues.1 hx
    exact pl' _ hm
  · intro d hd
    rw [dues_append] at hd
    rcases List.mem_append.1 hd with h | h
    · exact g2 d h
    · exact ⟨(hfam d (g1 d h).2 (g1 d h).1).2, Int.le_trans (g1 d h).2 hnow⟩

theorem Ordered.trans {a b c : St} (h1 : Ordered a b) (h2 : Ordered b c) (hnow : c.now = b.now)
    (hfam : ∀ d, d ≤ b.now → DueGe d b → Quiet (dueGe d) b c ∧ DueGe d c) : Ordered a c :=
  h1.trans' h2 (by rw [hnow]; exact Int.le_refl _) hfam

/-- the contract of `_set_timer` for the ordering argument -/
structure TimerFnO (setT : St → St) : Prop where
  base : TimerFn2 setT
  ord : ∀ s, Inv s → Ordered s (setT s)
  fam : ∀ d s, Inv s → DueGe d s → Quiet (dueGe d) s (setT s) ∧ DueGe d (setT s)

theorem TimerFnO.q {setT : St → St} (h : TimerFnO setT) (d : Int) : TimerFnQ (dueGe d) (DueGe d) setT :=
  ⟨h.base, fun s hI hp => h.fam d s hI hp⟩

theorem TimerFnO.qx {setT : St → St} (h : TimerFnO setT) (d : Int) (j : Nat) :
    TimerFnQ (dueGe d) (DueGeEx d j) setT := by
  refine ⟨h.base, ?_⟩
  intro s hI hp
  obtain ⟨q, p⟩ := h.fam d s hI hp.2
  exact ⟨q, fun hm => hp.1 (h.base.base.sub s hI j hm), p⟩

section withTimer
variable (setT : St → St)

theorem jobFinish_tail_quiet {P : Ev → Prop} (hP : ∀ e, notExec e → P e) (s : St) (j : Nat)
    (hf : (s.job j).status ≠ .finished) : Quiet P (removeJob setT s j) (jobFinish setT s j).1 := by
  unfold jobFinish
  rw [if_neg hf]
  simp only []
  refine Quiet.trans (b := (if ((removeJob setT s j).job j).inStore then
    { ((removeJob setT s j).setJob j
      { (removeJob setT s j).job j with linked := false, status := .finished, nextRun := none, inStore := false }) with
      store := (((removeJob setT s j).setJob j
      { (removeJob setT s j).job j with linked := false, status := .finished, nextRun := none, inStore := false })).store.filter
        (fun kv => kv.1 ≠ ((removeJob setT s j).job j).key) }
   else ((removeJob setT s j).setJob j
      { (removeJob setT s j).job j with linked := false, status := .finished, nextRun := none, inStore := false }))) ?_
    (runCbs_quiet hP true j _ _)
  apply Quiet.of_eq
  split <;> rfl

variable (hT : TimerFnO setT)
include hT

theorem removeJob_ord (s : St) (j : Nat) (hI : Inv { s with queue := s.queue.erase j }) :
    Ordered s (removeJob setT s j) := by
  rcases removeJob_cases setT s j with h | h <;> rw [h]
  · exact hT.ord _ hI
  · exact Ordered.of_noexec (Quiet.of_eq rfl)

theorem addJob_ord (s : St) (j : Nat) (hI : Inv s) (hj : j ∉ s.queue) : Ordered s (addJob setT s j) := by
  unfold addJob
  split
  · next hr =>
    simp only []
    split
    · exact hT.ord _ (Inv_insorted j hI hj hr)
    · exact Ordered.of_noexec (Quiet.of_eq rfl)
  · exact Ordered.refl s

theorem jobFinish_ord (s : St) (j : Nat) (hI : Inv s) : Ordered s (jobFinish setT s j).1 := by
  by_cases hf : (s.job j).status = .finished
  · unfold jobFinish; rw [if_pos hf]; exact Ordered.refl s
  · obtain ⟨c, hq, hnr⟩ := jobFinish_tail setT s j hf
    have hj : j ∉ (removeJob setT s j).queue :=
      removeJob_notin setT hT.base.base j (QInvQ_erase_self j hI.q) hI.q.nodup hI.st hI.log
    refine (removeJob_ord setT hT s j (Inv_erased j hI)).trans
      (Ordered.of_noexec (jobFinish_tail_quiet setT (fun _ h => h) s j hf)) c.now ?_
    intro d _ hd
    refine ⟨jobFinish_tail_quiet setT (dueGe_of_notExec d) s j hf, DueGe_frame hd hq (fun x hx => hnr x ?_)⟩
    intro e; subst e; exact hj hx

theorem updateNext_ord (s : St) (j : Nat) (hI : Inv s) : Ordered s (updateNext setT s j).1 := by
  unfold updateNext
  simp only []
  split
  · exact jobFinish_ord setT hT s j hI
  · exact Ordered.of_noexec (setNextRun_quiet (fun _ h => h) s j none)
  · split
    · exact Ordered.refl s
    · split
      · exact Ordered.of_noexec (Quiet.of_eq rfl)
      · split
        · exact Ordered.of_noexec (Quiet.of_eq rfl)
        · exact Ordered.of_noexec ((Quiet.of_eq (s' := s.setJob j _) rfl).trans (setNextRun_quiet (fun _ h => h) _ j _))

/-- `job.execute()` of the popped head, which is due no later than every job still queued -/
theorem execute_ord (s : St) (j : Nat) (due : Int) (hI : Inv s) (hj : j ∉ s.queue) (hdue : due ≤ s.now)
    (hge : DueGe due s) : Ordered s (execute setT s j due) := by
  unfold execute
  simp only []
  generalize hs0 : (if (s.job j).execFail.contains (s.job j).execs = true then
      (((s.emit (Ev.exec j s.now due)).setJob j { s.job j with execs := (s.job j).execs + 1, lastRun := some s.now })).emit (Ev.exc "CallableError")
    else ((s.emit (Ev.exec j s.now due)).setJob j { s.job j with execs := (s.job j).execs + 1, lastRun := some s.now })) = s0
  have hb : JobOK ({ s.job j with execs := (s.job j).execs + 1, lastRun := some s.now } : Job) := hI.st j
  have hA : Inv ((s.emit (Ev.exec j s.now due)).setJob j { s.job j with execs := (s.job j).execs + 1, lastRun := some s.now }) :=
    (InvEx_setJob _ ((Inv_emit _ hI (by simpa [evOK] using hdue)).toEx j) hb).toInv hj
  have hfr : ∀ s' : St, s'.queue = s.queue → (∀ x, x ≠ j → s'.nr x = s.nr x) → ∀ d, DueGe d s → DueGe d s' :=
    fun s' hq hnr d hd => DueGe_frame hd hq (fun x hx => hnr x (by intro e; subst e; exact hj hx))
  have h0 : Ordered s s0 ∧ s0.queue = s.queue ∧ s0.now = s.now ∧ Inv s0 ∧ (∀ d, DueGe d s → DueGe d s0) := by
    subst hs0
    split
    · refine ⟨⟨[Ev.exc "CallableError", Ev.exec j s.now due], rfl, by simp [dues], ?_⟩, rfl, rfl,
        Inv_emit _ hA (by simp [evOK]), hfr _ rfl (fun x hx => by simp [St.nr, St.emit, St.setJob, hx])⟩
      intro d hd
      have : d = due := by simpa [dues] using hd
      subst this
      exact ⟨hfr _ (by rfl) (fun x hx => by simp [St.nr, St.emit, St.setJob, hx]) d hge, hdue⟩
    · refine ⟨⟨[Ev.exec j s.now due], rfl, by simp [dues], ?_⟩, rfl, rfl, hA,
        hfr _ rfl (fun x hx => by simp [St.nr, St.emit, St.setJob, hx])⟩
      intro d hd
      have : d = due := by simpa [dues] using hd
      subst this
      exact ⟨hfr _ (by rfl) (fun x hx => by simp [St.nr, St.emit, St.setJob, hx]) d hge, hdue⟩
  obtain ⟨o0, q0, n0, i0, _⟩ := h0
  have hj0 : j ∉ s0.queue := by rw [q0]; exact hj
  have o1 := updateNext_ord setT hT s0 j i0
  have c1 := updateNext_clock setT hT.base s0 j i0
  have fam1 : ∀ d, d ≤ s0.now → DueGe d s0 →
      Quiet (dueGe d) s0 (updateNext setT s0 j).1 ∧ DueGe d (updateNext setT s0 j).1 := by
    intro d _ hd
    obtain ⟨q, p⟩ := updateNext_quiet setT (dueGe_of_notExec d) (hT.qx d j) s0 j (preOK_dueGeEx d j) i0 ⟨hj0, hd⟩
    exact ⟨q, p.2⟩
  have o01 := o0.trans o1 c1.now fam1
  obtain ⟨_, u2⟩ := updateNext_spec setT hT.base.base j i0
  have hju : j ∉ (updateNext setT s0 j).1.queue := fun hm => hj0 (u2 j hm)
  split
  · next s' heq =>
    have : s' = (updateNext setT s0 j).1 := by rw [heq]
    subst this
    exact o01
  · next s' e heq =>
    have : s' = (updateNext setT s0 j).1 := by rw [heq]
    subst this
    have o2 : Ordered s ((updateNext setT s0 j).1.emit (Ev.exc e.name)) :=
      o01.trans (Ordered.of_noexec (Quiet.emit _ _ trivial)) rfl
        (fun d _ hd => ⟨Quiet.emit _ _ trivial, DueGe_frame hd rfl (fun _ _ => rfl)⟩)
    split
    · refine o2.trans (Ordered.of_noexec (setNextRun_quiet (fun _ h => h) _ j none)) (setNextRun_clock _ j none).now ?_
      intro d _ hd
      refine ⟨setNextRun_quiet (dueGe_of_notExec d) _ j none,
        DueGe_frame hd (setNextRun_queue _ j none) (fun x hx => nr_setNextRun_ne _ j none x ?_)⟩
      intro e; subst e; exact hju hx
    · exact o2

end withTimer

def OSpec (f : Nat) : Prop := ∀ s, Inv s → Ordered s (runLoop f s)

theorem setTimer_ord (fuel : Nat) (hrun : ∀ f, f < fuel → OSpec f) : ∀ s, Inv s → Ordered s (setTimer fuel s) := by
  intro s hI
  unfold setTimer
  simp only []
  split
  · exact Ordered.of_noexec (Quiet.of_eq rfl)
  · split
    · exact Ordered.of_noexec (Quiet.of_eq rfl)
    · split
      · exact Ordered.of_noexec ((Quiet.of_eq (s' := { s with timer := none }) rfl).trans (Quiet.emit _ _ trivial))
      · split
        · split
          · exact Ordered.of_noexec ((Quiet.of_eq (s' := { s with timer := none }) rfl).trans (Quiet.emit _ _ trivial))
          · next f => exact hrun f (by omega) _ (Inv_timer_none hI)
        · exact Ordered.of_noexec (Quiet.of_eq rfl)

theorem oSpec (fuel : Nat) : OSpec fuel := by
  induction fuel using Nat.strongRecOn with
  | _ fuel ih =>
    intro s h
    have hst : ∀ f, f ≤ fuel → TimerFnO (setTimer f) :=
      fun f hf => ⟨timerFn2_setTimer f, setTimer_ord f (fun f' hf' => ih f' (by omega)),
        setTimer_quiet_due f (fun f' _ => dSpec f')⟩
    unfold runLoop
    split
    · exact Ordered.refl s
    · next hd rest hq =>
      split
      · exact Ordered.of_noexec ((Quiet.emit s _ trivial).trans (Quiet.emit _ _ trivial))
      · next nr hnr =>
        split
        · exact (hst fuel (Nat.le_refl _)).ord s h
        · next hle =>
          split
          · exact Ordered.of_noexec (Quiet.emit s _ trivial)
          · next f =>
            have hTO := hst f (by omega)
            have hT2 := hTO.base
            have hT := hT2.base
            have hnd : hd ∉ rest := by
              have := h.q.nodup; rw [hq] at this; exact (List.nodup_cons.1 this).1
            have h1 : Inv { s with queue := rest } := by
              refine ⟨⟨?_, ?_, ?_⟩, h.st, h.log⟩
              · intro i hi; exact h.q.run i (by rw [hq]; simp [hi])
              · have := h.q.nodup; rw [hq] at this; exact (List.nodup_cons.1 this).2
              · have := h.q.sorted; rw [hq] at this; exact (List.pairwise_cons.1 this).2
            have hdue : nr ≤ ({ s with queue := rest } : St).now := by
              show nr ≤ s.now
              omega
            have hge : DueGe nr { s with queue := rest } :=
              fun x hx t ht => DueGe_head h hq hnr x (by rw [hq]; exact List.mem_cons_of_mem _ hx) t ht
            obtain ⟨e1, e2⟩ := execute_spec (setTimer f) hT hd nr h1 (by simpa using hnd) hdue
            obtain ⟨c1, _, _⟩ := execute_frame (setTimer f) hT2 { s with queue := rest } hd nr h1 (by simpa using hnd) hdue
            have hd2 : hd ∉ (execute (setTimer f) { s with queue := rest } hd nr).queue :=
              fun hm => hnd (e2 hd hm)
            have o1 : Ordered s (execute (setTimer f) { s with queue := rest } hd nr) :=
              execute_ord (setTimer f) hTO { s with queue := rest } hd nr h1 (by simpa using hnd) hdue hge
            have a1 := Inv_addJob (setTimer f) hT hd e1 hd2
            have c2 := addJob_clock (setTimer f) hT2 _ hd e1 hd2
            have o2 := addJob_ord (setTimer f) hTO _ hd e1 hd2
            have fam2 : ∀ d, d ≤ (execute (setTimer f) { s with queue := rest } hd nr).now →
                DueGe d (execute (setTimer f) { s with queue := rest } hd nr) →
                Quiet (dueGe d) (execute (setTimer f) { s with queue := rest } hd nr)
                  (addJob (setTimer f) (execute (setTimer f) { s with queue := rest } hd nr) hd) ∧
                DueGe d (addJob (setTimer f) (execute (setTimer f) { s with queue := rest } hd nr) hd) := by
              intro d hdn hdg
              refine addJob_quiet (setTimer f) (dueGe_of_notExec d) (hTO.q d) _ hd e1 hd2 hdg ?_
              intro hr x hx t ht
              have hx' : x ∈ insort (execute (setTimer f) { s with queue := rest } hd nr).nr hd
                  (execute (setTimer f) { s with queue := rest } hd nr).queue := hx
              rcases (insort_mem _ hd _ x).1 hx' with e | e
              · subst e
                obtain ⟨n, hn, hgt⟩ := execute_nr_future (setTimer f) { s with queue := rest } x nr hnr hr
                have ht' : ((execute (setTimer f) { s with queue := rest } x nr).job x).nextRun = some t := ht
                rw [hn] at ht'
                have hnt : n = t := by injection ht'
                have h1' : n > s.now := hgt
                have h2' : (execute (setTimer f) { s with queue := rest } x nr).now = s.now := c1.now
                omega
              · exact hdg x e t ht
            have o12 := o1.trans o2 c2.now fam2
            have o3 := ih f (by omega) _ a1
            have c3 := (runSpec f _ a1).1
            exact o12.trans o3 c3.now (fun d _ hdg => dSpec f d _ a1 hdg)

/-- the executions of one wake-up are logged in the order of their due times -/
theorem runJobs_ordered (fuel : Nat) {s : St} (h : Inv s) : Ordered s (runJobs fuel s) := by
  unfold runJobs
  exact oSpec fuel _ (Inv_timer_none h)


theorem setTimer_ordered (fuel : Nat) {s : St} (h : Inv s) : Ordered s (setTimer fuel s) :=
  setTimer_ord fuel (fun f _ => oSpec f) s h

theorem runJobs_due (fuel : Nat) (d : Int) {s : St} (h : Inv s) (hd : DueGe d s) :
    Quiet (dueGe d) s (runJobs fuel s) ∧ DueGe d (runJobs fuel s) := by
  unfold runJobs
  obtain ⟨q, p⟩ := dSpec fuel d _ (Inv_timer_none h) (DueGe_frame (s' := { s with timer := none }) hd rfl (fun _ _ => rfl))
  exact ⟨(Quiet.of_eq (s' := { s with timer := none }) rfl).trans q, p⟩

theorem sleepLoop_due (n : Nat) (target : Int) (d : Int) {s : St} (h : Inv s) (hd : DueGe d s) :
    Quiet (dueGe d) s (sleepLoop n target s) ∧ DueGe d (sleepLoop n target s) := by
  induction n generalizing s with
  | zero => exact ⟨Quiet.emit s _ trivial, DueGe_frame hd rfl (fun _ _ => rfl)⟩
  | succ n ih =>
    unfold sleepLoop
    split
    · next t ht =>
      split
      · have hI1 : Inv { s with now := if t > s.now then t else s.now } := ⟨h.q, h.st, h.log⟩
        obtain ⟨q1, p1⟩ := runJobs_due OPFUEL d hI1 (DueGe_frame (s' := { s with now := if t > s.now then t else s.now }) hd rfl (fun _ _ => rfl))
        obtain ⟨q2, p2⟩ := ih (runJobs_inv OPFUEL hI1) p1
        exact ⟨((Quiet.of_eq (s' := { s with now := if t > s.now then t else s.now }) rfl).trans q1).trans q2, p2⟩
      · exact ⟨Quiet.of_eq rfl, DueGe_frame hd rfl (fun _ _ => rfl)⟩
    · exact ⟨Quiet.of_eq rfl, DueGe_frame hd rfl (fun _ _ => rfl)⟩

/-- the clock never goes back while sleeping -/
theorem sleepLoop_now_mono (m : Nat) (target : Int) (s3 : St) (hI3 : Inv s3) (h3 : s3.now ≤ target) :
    s3.now ≤ (sleepLoop m target s3).now := by
  induction m generalizing s3 with
  | zero => exact Int.le_refl _
  | succ m ihm =>
    unfold sleepLoop
    split
    · next t' _ =>
      split
      · have hI4 : Inv { s3 with now := if t' > s3.now then t' else s3.now } := ⟨hI3.q, hI3.st, hI3.log⟩
        have c4 := runJobs_clock OPFUEL hI4
        have h5 : (runJobs OPFUEL { s3 with now := if t' > s3.now then t' else s3.now }).now ≤ target := by
          rw [c4.now]
          show (if t' > s3.now then t' else s3.now) ≤ target
          split <;> omega
        have := ihm _ (runJobs_inv OPFUEL hI4) h5
        rw [c4.now] at this
        have h6 : s3.now ≤ (if t' > s3.now then t' else s3.now) := by split <;> omega
        exact Int.le_trans h6 this
      · exact h3
    · exact h3

/-- all wake-ups of one sleep together: the executions are logged in the order of their due times -/
theorem sleepLoop_ordered (n : Nat) (target : Int) {s : St} (h : Inv s) (hle : s.now ≤ target) :
    Ordered s (sleepLoop n target s) := by
  induction n generalizing s with
  | zero => exact Ordered.of_noexec (Quiet.emit s _ trivial)
  | succ n ih =>
    unfold sleepLoop
    split
    · next t ht =>
      split
      · next htt =>
        show Ordered s (sleepLoop n target (runJobs OPFUEL { s with now := if t > s.now then t else s.now }))
        have hI1 : Inv { s with now := if t > s.now then t else s.now } := ⟨h.q, h.st, h.log⟩
        have o1 : Ordered s (runJobs OPFUEL { s with now := if t > s.now then t else s.now }) :=
          runJobs_ordered OPFUEL hI1
        have c1 := runJobs_clock OPFUEL hI1
        have hle2 : (runJobs OPFUEL { s with now := if t > s.now then t else s.now }).now ≤ target := by
          rw [c1.now]
          show (if t > s.now then t else s.now) ≤ target
          split <;> omega
        have hI2 := runJobs_inv OPFUEL hI1
        have o2 := ih hI2 hle2
        exact o1.trans' o2 (sleepLoop_now_mono n target _ hI2 hle2) (fun d _ hd => sleepLoop_due n target d hI2 hd)
      · exact ⟨[], rfl, List.Pairwise.nil, fun _ h => by cases h⟩
    · exact ⟨[], rfl, List.Pairwise.nil, fun _ h => by cases h⟩

end Ea
