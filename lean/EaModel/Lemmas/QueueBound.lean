import EaModel.Lemmas.KindFrame
/-!
# The waiting queue of the limiting sequential manager never exceeds its bound
-/
namespace Ea

def QBound (maxQ : Nat) (pol : SeqPolicy) (s : TSt) : Prop :=
  s.kind = .limitingSeq maxQ pol ∧ s.queue.length ≤ maxQ

theorem QBound.of_eq {m : Nat} {p : SeqPolicy} {s s' : TSt} (h : QBound m p s) (hq : s'.queue = s.queue) (hk : s'.kind = s.kind) :
    QBound m p s' := ⟨by rw [hk]; exact h.1, by rw [hq]; exact h.2⟩

theorem qlen_clearCur (s : TSt) (done : Option Nat) : (clearCur s done).queue = s.queue := by
  unfold clearCur; split <;> rfl

theorem qlen_seqTaskDone (s : TSt) (done : Option Nat) : (seqTaskDone s done).queue.length ≤ s.queue.length := by
  unfold seqTaskDone
  rw [qlen_clearCur]
  split
  · rw [qlen_clearCur]; exact Nat.le_refl _
  · next c k rest hq =>
    have : s.queue = (c, k) :: rest := hq
    simp [startNext, this]

theorem qlen_seqTaskStart (s : TSt) : (seqTaskStart s).queue.length ≤ s.queue.length := by
  unfold seqTaskStart; split
  · exact Nat.le_refl _
  · exact qlen_seqTaskDone s none

theorem QBound.submit {m : Nat} {p : SeqPolicy} (hm : 1 ≤ m) {s : TSt} (h : QBound m p s) (c key : Nat) :
    QBound m p (submit s c key) := by
  refine ⟨by rw [kind_submit]; exact h.1, ?_⟩
  unfold Ea.submit submitCore
  have hk : (s.emit (.submitted c)).kind = .limitingSeq m p := h.1
  have hq : (s.emit (.submitted c)).queue = s.queue := rfl
  have hb := h.2
  simp only [hk, hq]
  split
  · next hge =>
    cases p with
    | skip => exact hb
    | skipFirst =>
      simp only []
      split
      · next he => exact Nat.le_trans (qlen_seqTaskStart _) (by simp; omega)
      · next c0 k0 rest he =>
        refine Nat.le_trans (qlen_seqTaskStart _) ?_
        have : s.queue = (c0, k0) :: rest := he
        rw [this] at hb
        simp at hb ⊢; omega
    | skipLast =>
      simp only []
      split
      · next he => exact Nat.le_trans (qlen_seqTaskStart _) (by simp; omega)
      · next c0 k0 he =>
        refine Nat.le_trans (qlen_seqTaskStart _) ?_
        have hne : s.queue ≠ [] := by intro e; rw [e] at he; simp at he
        have := List.length_pos_iff.2 hne
        simp; omega
  · next hlt =>
    refine Nat.le_trans (qlen_seqTaskStart _) ?_
    simp; omega

theorem QBound.submitAll {m : Nat} {p : SeqPolicy} (hm : 1 ≤ m) : ∀ (subs : List (Nat × Nat)) {s : TSt}, QBound m p s →
    QBound m p (submitAll s subs)
  | [], _, h => h
  | (c, k) :: rest, _, h => by unfold Ea.submitAll; exact QBound.submitAll hm rest (h.submit hm c k)

theorem QBound.cancelTask {m : Nat} {p : SeqPolicy} {s : TSt} (h : QBound m p s) (t : Nat) : QBound m p (s.cancelTask t) := by
  refine ⟨by rw [kind_cancelTask]; exact h.1, ?_⟩
  unfold TSt.cancelTask
  simp only []
  split
  · exact h.2
  · exact h.2
  · split <;> exact h.2

theorem QBound.managerDone {m : Nat} {p : SeqPolicy} {s : TSt} (h : QBound m p s) (t : Nat) : QBound m p (managerDone s t) := by
  refine ⟨by rw [kind_managerDone]; exact h.1, ?_⟩
  unfold Ea.managerDone
  have hk : (s.setTask t { s.task t with delivered := true }).kind = .limitingSeq m p := h.1
  simp only [hk]
  exact Nat.le_trans (qlen_seqTaskDone _ _) h.2

theorem QBound.runReady {m : Nat} {p : SeqPolicy} (hm : 1 ≤ m) {s : TSt} (h : QBound m p s) (r : Ready) :
    QBound m p (runReady s r) := by
  cases r with
  | step t =>
    simp only [Ea.runReady]
    split
    · exact h
    · split
      · exact h.of_eq rfl rfl
      · exact h.of_eq rfl rfl
  | resume t fail last =>
    simp only [Ea.runReady]
    split
    · exact h
    · have h1 := QBound.submitAll hm last.inside h
      refine QBound.of_eq (s := if last.listener.isEmpty then Ea.submitAll s last.inside
          else { Ea.submitAll s last.inside with ready := (Ea.submitAll s last.inside).ready ++ [.listener last.listener] }) ?_ rfl rfl
      split
      · exact h1
      · exact h1.of_eq rfl rfl
  | resumeCancel t =>
    simp only [Ea.runReady]
    split
    · exact h
    · exact h.of_eq rfl rfl
  | doneCb t => exact h.managerDone t
  | listener subs => exact QBound.submitAll hm subs h

theorem QBound.drain {m : Nat} {p : SeqPolicy} (hm : 1 ≤ m) : ∀ (n : Nat) {s : TSt}, QBound m p s → QBound m p (drain n s)
  | 0, _, h => h
  | n + 1, s, h => by
    unfold Ea.drain
    split
    · exact h
    · apply QBound.drain hm n
      apply QBound.runReady hm
      exact h.of_eq rfl rfl

theorem QBound.tstep {m : Nat} {p : SeqPolicy} (hm : 1 ≤ m) {s : TSt} (h : QBound m p s) (op : TOp) : QBound m p (tstep s op) := by
  apply QBound.drain hm
  cases op with
  | submit c k => exact h.submit hm c k
  | complete t fail last =>
    simp only [Ea.applyOp]
    split
    · exact h.of_eq rfl rfl
    · exact h
  | cancel t => exact h.cancelTask t

/-- in every reachable state the limiting sequential manager (bound ≥ 1) holds at most `maxQ` waiting coroutines -/
theorem qbound_reachable (m : Nat) (p : SeqPolicy) (hm : 1 ≤ m) (ops : List TOp) :
    QBound m p (ops.foldl tstep { kind := .limitingSeq m p }) := by
  suffices h : ∀ s, QBound m p s → QBound m p (ops.foldl tstep s) from h _ ⟨rfl, by simp⟩
  induction ops with
  | nil => intro s h; exact h
  | cons op ops ih => intro s h; exact ih _ (h.tstep hm op)

end Ea
