import EaModel.Lemmas.Once
import EaModel.Lemmas.Create
/-!
# The job store holds exactly the stored jobs that have not finished (C07)
-/
namespace Ea

/-- the store invariant; `x` is a job that is being created (its record is filed but its status is still
CREATED until `link_scheduler` has run) -/
structure StoreInvX (x : Option Nat) (s : St) : Prop where
  mem : ∀ k j, (k, j) ∈ s.store → (s.job j).inStore = true ∧ (s.job j).key = k ∧ (s.job j).status ≠ .finished
  has : ∀ j, (s.job j).inStore = true → ((s.job j).key, j) ∈ s.store
  uniq : (s.store.map Prod.fst).Nodup
  fresh : ∀ j, some j ≠ x → (s.job j).status = .created → (s.job j).inStore = false

/-- no job goes back to CREATED -/
def NoCreate (s s' : St) : Prop := ∀ j, (s'.job j).status = .created → (s.job j).status = .created

theorem NoCreate.refl (s : St) : NoCreate s s := fun _ h => h
theorem NoCreate.trans {a b c : St} (h1 : NoCreate a b) (h2 : NoCreate b c) : NoCreate a c :=
  fun j h => h1 j (h2 j h)

/-- a step that keeps the store and, of every job record, the store fields, and finishes / un-creates nothing -/
theorem StoreInvX_frame {x : Option Nat} {s s' : St} (h : StoreInvX x s) (hst : s'.store = s.store)
    (hj : ∀ j, (s'.job j).inStore = (s.job j).inStore ∧ (s'.job j).key = (s.job j).key ∧
      ((s'.job j).status = .finished → (s.job j).status = .finished) ∧
      ((s'.job j).status = .created → (s.job j).status = .created)) : StoreInvX x s' ∧ NoCreate s s' := by
  refine ⟨⟨?_, ?_, by rw [hst]; exact h.uniq, ?_⟩, fun j hc => (hj j).2.2.2 hc⟩
  · intro k j hm
    rw [hst] at hm
    obtain ⟨a, b, c⟩ := h.mem k j hm
    exact ⟨by rw [(hj j).1]; exact a, by rw [(hj j).2.1]; exact b, fun hf => c ((hj j).2.2.1 hf)⟩
  · intro j hi
    rw [hst, (hj j).2.1]
    exact h.has j (by rw [← (hj j).1]; exact hi)
  · intro j hx hc
    rw [(hj j).1]
    exact h.fresh j hx ((hj j).2.2.2 hc)

theorem StoreInvX_same {x : Option Nat} {s s' : St} (h : StoreInvX x s) (hst : s'.store = s.store)
    (hjobs : s'.jobs = s.jobs) : StoreInvX x s' ∧ NoCreate s s' :=
  StoreInvX_frame h hst (fun j => by unfold St.job; rw [hjobs]; exact ⟨rfl, rfl, id, id⟩)

theorem setNextRun_store_eq (s : St) (j : Nat) (nr : Option Int) : (setNextRun s j nr).1.store = s.store := by
  unfold setNextRun
  cases nr with
  | none =>
    obtain ⟨_, _, _, _, _, h6, _⟩ := runCbs_frame false j ((s.setJob j { s.job j with nextRun := none, status := .paused }).job j).onUpdate
      (s.setJob j { s.job j with nextRun := none, status := .paused })
    simp only []
    rw [h6]; rfl
  | some t =>
    simp only []
    split
    · rfl
    · obtain ⟨_, _, _, _, _, h6, _⟩ := runCbs_frame false j ((s.setJob j { s.job j with nextRun := some t, status := .running }).job j).onUpdate
        (s.setJob j { s.job j with nextRun := some t, status := .running })
      rw [h6]; rfl

theorem setNextRun_storeInv {x : Option Nat} (s : St) (j : Nat) (nr : Option Int) (h : StoreInvX x s) :
    StoreInvX x (setNextRun s j nr).1 ∧ NoCreate s (setNextRun s j nr).1 := by
  rcases setNextRun_jobs s j nr with e | ⟨st, hst, hjobs⟩
  · rw [e]; exact ⟨h, NoCreate.refl s⟩
  · refine StoreInvX_frame h (setNextRun_store_eq s j nr) ?_
    intro i
    by_cases e : i = j
    · subst e
      have hj : (setNextRun s i nr).1.job i = { s.job i with nextRun := nr, status := st } := by
        show (setNextRun s i nr).1.jobs i = _
        rw [hjobs]; simp
      rw [hj]
      refine ⟨rfl, rfl, ?_, ?_⟩
      · intro hf
        exfalso
        have : st = .finished := hf
        rcases hst with rfl | rfl <;> cases this
      · intro hc
        exfalso
        have : st = .created := hc
        rcases hst with rfl | rfl <;> cases this
    · have : (setNextRun s j nr).1.job i = s.job i := by
        show (setNextRun s j nr).1.jobs i = _
        rw [hjobs]; simp [e]; rfl
      rw [this]; exact ⟨rfl, rfl, id, id⟩


theorem setJob_storeInv {x : Option Nat} (s : St) (j : Nat) (b : Job) (h : StoreInvX x s)
    (h1 : b.inStore = (s.job j).inStore) (h2 : b.key = (s.job j).key) (h3 : b.status = (s.job j).status) :
    StoreInvX x (s.setJob j b) ∧ NoCreate s (s.setJob j b) := by
  refine StoreInvX_frame h rfl ?_
  intro i
  by_cases e : i = j
  · subst e
    have : (s.setJob i b).job i = b := by simp [St.job, St.setJob]
    rw [this, h1, h2, h3]; exact ⟨rfl, rfl, id, id⟩
  · have : (s.setJob j b).job i = s.job i := by simp [St.job, St.setJob, e]
    rw [this]; exact ⟨rfl, rfl, id, id⟩

/-- two entries of a store with unique keys that have the same key are the same entry -/
theorem uniq_key {l : List (Nat × Nat)} (h : (l.map Prod.fst).Nodup) {k a b : Nat} (ha : (k, a) ∈ l) (hb : (k, b) ∈ l) :
    a = b := by
  induction l with
  | nil => cases ha
  | cons p l ih =>
    simp only [List.map_cons, List.nodup_cons] at h
    rcases List.mem_cons.1 ha with e1 | h1 <;> rcases List.mem_cons.1 hb with e2 | h2
    · rw [← e1] at e2; cases e2; rfl
    · exfalso; apply h.1; rw [← e1]; exact List.mem_map.2 ⟨(k, b), h2, rfl⟩
    · exfalso; apply h.1; rw [← e2]; exact List.mem_map.2 ⟨(k, a), h1, rfl⟩
    · exact ih h.2 h1 h2

/-- the contract of `_set_timer` -/
structure TimerFnS (setT : St → St) : Prop where
  base : TimerFn2 setT
  store : ∀ (x : Option Nat) s, Inv s → StoreInvX x s → StoreInvX x (setT s) ∧ NoCreate s (setT s)

section withTimer
variable (setT : St → St) (hT : TimerFnS setT)
include hT

theorem removeJob_storeInv {x : Option Nat} (s : St) (j : Nat) (hI : Inv { s with queue := s.queue.erase j })
    (h : StoreInvX x s) : StoreInvX x (removeJob setT s j) ∧ NoCreate s (removeJob setT s j) := by
  have h0 : StoreInvX x { s with queue := s.queue.erase j } := (StoreInvX_same h (by rfl) (by rfl)).1
  rcases removeJob_cases setT s j with e | e <;> rw [e]
  · exact hT.store x _ hI h0
  · exact ⟨h0, NoCreate.refl s⟩

theorem addJob_storeInv {x : Option Nat} (s : St) (j : Nat) (hI : Inv s) (hj : j ∉ s.queue) (h : StoreInvX x s) :
    StoreInvX x (addJob setT s j) ∧ NoCreate s (addJob setT s j) := by
  unfold addJob
  split
  · next hr =>
    simp only []
    have h0 : StoreInvX x { s with queue := insort s.nr j s.queue } := (StoreInvX_same h (by rfl) (by rfl)).1
    split
    · exact hT.store x _ (Inv_insorted j hI hj hr) h0
    · exact ⟨h0, NoCreate.refl s⟩
  · exact ⟨h, NoCreate.refl s⟩

/-- `job_finish` takes the job out of the store -/
theorem jobFinish_storeInv {x : Option Nat} (s : St) (j : Nat) (hI : Inv s) (h : StoreInvX x s) :
    StoreInvX x (jobFinish setT s j).1 ∧ NoCreate s (jobFinish setT s j).1 := by
  by_cases hf : (s.job j).status = .finished
  · unfold jobFinish; rw [if_pos hf]; exact ⟨h, NoCreate.refl s⟩
  · obtain ⟨h1, n1⟩ := removeJob_storeInv setT hT s j (Inv_erased j hI) h
    unfold jobFinish
    rw [if_neg hf]
    simp only []
    obtain ⟨_, q2, _, _, _, q6, _⟩ := runCbs_frame true j ((removeJob setT s j).job j).onFinished
      (if ((removeJob setT s j).job j).inStore then
        { ((removeJob setT s j).setJob j
          { (removeJob setT s j).job j with linked := false, status := .finished, nextRun := none, inStore := false }) with
          store := (((removeJob setT s j).setJob j
          { (removeJob setT s j).job j with linked := false, status := .finished, nextRun := none, inStore := false })).store.filter
            (fun kv => kv.1 ≠ ((removeJob setT s j).job j).key) }
       else ((removeJob setT s j).setJob j
          { (removeJob setT s j).job j with linked := false, status := .finished, nextRun := none, inStore := false }))
    generalize hs1 : removeJob setT s j = s1 at h1 n1 q2 q6
    -- the state before the callbacks
    have key : StoreInvX x (if (s1.job j).inStore then         { (s1.setJob j           { s1.job j with linked := false, status := .finished, nextRun := none, inStore := false }) with           store := ((s1.setJob j           { s1.job j with linked := false, status := .finished, nextRun := none, inStore := false })).store.filter             (fun kv => kv.1 ≠ (s1.job j).key) }        else (s1.setJob j           { s1.job j with linked := false, status := .finished, nextRun := none, inStore := false })) ∧ NoCreate s1 (if (s1.job j).inStore then         { (s1.setJob j           { s1.job j with linked := false, status := .finished, nextRun := none, inStore := false }) with           store := ((s1.setJob j           { s1.job j with linked := false, status := .finished, nextRun := none, inStore := false })).store.filter             (fun kv => kv.1 ≠ (s1.job j).key) }        else (s1.setJob j           { s1.job j with linked := false, status := .finished, nextRun := none, inStore := false })) := by
      have hjob : ∀ i, (if (s1.job j).inStore then         { (s1.setJob j           { s1.job j with linked := false, status := .finished, nextRun := none, inStore := false }) with           store := ((s1.setJob j           { s1.job j with linked := false, status := .finished, nextRun := none, inStore := false })).store.filter             (fun kv => kv.1 ≠ (s1.job j).key) }        else (s1.setJob j           { s1.job j with linked := false, status := .finished, nextRun := none, inStore := false })).job i = if i = j then
          { s1.job j with linked := false, status := .finished, nextRun := none, inStore := false } else s1.job i := by
        intro i
        split <;> simp [St.job, St.setJob]
      refine ⟨⟨?_, ?_, ?_, ?_⟩, ?_⟩
      · intro k i hm
        have hm1 : (k, i) ∈ s1.store ∧ ((s1.job j).inStore = true → k ≠ (s1.job j).key) := by
          split at hm
          · next hin =>
            have hm' : (k, i) ∈ s1.store.filter (fun kv => kv.1 ≠ (s1.job j).key) := hm
            rw [List.mem_filter] at hm'
            exact ⟨hm'.1, fun _ => by simpa using hm'.2⟩
          · next hin => exact ⟨hm, fun hh => absurd hh hin⟩
        obtain ⟨a, b, c⟩ := h1.mem k i hm1.1
        have hne : i ≠ j := by
          intro e; subst e
          exact hm1.2 a b.symm
        rw [hjob i, if_neg hne]
        exact ⟨a, b, c⟩
      · intro i hi
        rw [hjob i] at hi
        have hne : i ≠ j := by
          intro e; subst e; simp at hi
        rw [if_neg hne] at hi
        have hm := h1.has i hi
        rw [hjob i, if_neg hne]
        split
        · next hin =>
          show ((s1.job i).key, i) ∈ s1.store.filter (fun kv => kv.1 ≠ (s1.job j).key)
          rw [List.mem_filter]
          refine ⟨hm, ?_⟩
          have : (s1.job i).key ≠ (s1.job j).key := by
            intro e
            have hmj := h1.has j hin
            rw [← e] at hmj
            exact hne (uniq_key h1.uniq hm hmj)
          simpa using this
        · exact hm
      · split
        · show ((s1.store.filter (fun kv => kv.1 ≠ (s1.job j).key)).map Prod.fst).Nodup
          exact h1.uniq.sublist ((List.filter_sublist).map Prod.fst)
        · exact h1.uniq
      · intro i hx hc
        rw [hjob i] at hc ⊢
        split
        · rfl
        · next hne => rw [if_neg hne] at hc; exact h1.fresh i hx hc
      · intro i hc
        rw [hjob i] at hc
        split at hc
        · cases hc
        · exact hc
    obtain ⟨k1, k2⟩ := key
    obtain ⟨r1, r2⟩ := StoreInvX_same (s' := runCbs true j (s1.job j).onFinished (if (s1.job j).inStore then         { (s1.setJob j           { s1.job j with linked := false, status := .finished, nextRun := none, inStore := false }) with           store := ((s1.setJob j           { s1.job j with linked := false, status := .finished, nextRun := none, inStore := false })).store.filter             (fun kv => kv.1 ≠ (s1.job j).key) }        else (s1.setJob j           { s1.job j with linked := false, status := .finished, nextRun := none, inStore := false }))) k1 q6 q2
    exact ⟨r1, n1.trans (k2.trans r2)⟩

theorem updateNext_storeInv {x : Option Nat} (s : St) (j : Nat) (hI : Inv s) (h : StoreInvX x s) :
    StoreInvX x (updateNext setT s j).1 ∧ NoCreate s (updateNext setT s j).1 := by
  unfold updateNext
  simp only []
  split
  · exact jobFinish_storeInv setT hT s j hI h
  · exact setNextRun_storeInv s j none h
  · split
    · exact ⟨h, NoCreate.refl s⟩
    · have h1 := setJob_storeInv (x := x) s j
        { s.job j with kind := Kind.recurring (Producer.anchorAt s.now ‹_›), calls := (s.job j).calls + 1 } h rfl rfl rfl
      split
      · exact h1
      · split
        · exact h1
        · obtain ⟨a, b⟩ := setNextRun_storeInv _ j _ h1.1
          exact ⟨a, h1.2.trans b⟩

theorem execute_storeInv {x : Option Nat} (s : St) (j : Nat) (due : Int) (hI : Inv s) (hj : j ∉ s.queue)
    (hdue : due ≤ s.now) (h : StoreInvX x s) :
    StoreInvX x (execute setT s j due) ∧ NoCreate s (execute setT s j due) := by
  unfold execute
  simp only []
  generalize hs0 : (if (s.job j).execFail.contains (s.job j).execs = true then
      (((s.emit (Ev.exec j s.now due)).setJob j { s.job j with execs := (s.job j).execs + 1, lastRun := some s.now })).emit (Ev.exc "CallableError")
    else ((s.emit (Ev.exec j s.now due)).setJob j { s.job j with execs := (s.job j).execs + 1, lastRun := some s.now })) = s0
  have hb : JobOK ({ s.job j with execs := (s.job j).execs + 1, lastRun := some s.now } : Job) := hI.st j
  have hA : Inv ((s.emit (Ev.exec j s.now due)).setJob j { s.job j with execs := (s.job j).execs + 1, lastRun := some s.now }) :=
    (InvEx_setJob _ ((Inv_emit _ hI (by simpa [evOK] using hdue)).toEx j) hb).toInv hj
  have hfr : ∀ s' : St, s'.store = s.store →
      s'.jobs = (fun i => if i = j then { s.job j with execs := (s.job j).execs + 1, lastRun := some s.now } else s.jobs i) →
      StoreInvX x s' ∧ NoCreate s s' := by
    intro s' hst hjobs
    refine StoreInvX_frame h hst ?_
    intro i
    by_cases e : i = j
    · subst e
      have : s'.job i = { s.job i with execs := (s.job i).execs + 1, lastRun := some s.now } := by
        show s'.jobs i = _
        rw [hjobs]; simp
      rw [this]; exact ⟨rfl, rfl, id, id⟩
    · have : s'.job i = s.job i := by
        show s'.jobs i = _
        rw [hjobs]; simp [e]; rfl
      rw [this]; exact ⟨rfl, rfl, id, id⟩
  have h0 : (StoreInvX x s0 ∧ NoCreate s s0) ∧ Inv s0 := by
    subst hs0
    split
    · exact ⟨hfr _ rfl rfl, Inv_emit _ hA (by simp [evOK])⟩
    · exact ⟨hfr _ rfl rfl, hA⟩
  obtain ⟨⟨m0, c0⟩, i0⟩ := h0
  obtain ⟨m1, c1⟩ := updateNext_storeInv setT hT s0 j i0 m0
  split
  · next s' heq =>
    have e1 : s' = (updateNext setT s0 j).1 := by rw [heq]
    subst e1
    exact ⟨m1, c0.trans c1⟩
  · next s' e heq =>
    have e1 : s' = (updateNext setT s0 j).1 := by rw [heq]
    subst e1
    obtain ⟨m2, c2⟩ := StoreInvX_same (s' := (updateNext setT s0 j).1.emit (Ev.exc e.name)) m1 rfl rfl
    split
    · obtain ⟨m3, c3⟩ := setNextRun_storeInv _ j none m2
      exact ⟨m3, ((c0.trans c1).trans c2).trans c3⟩
    · exact ⟨m2, (c0.trans c1).trans c2⟩

end withTimer

def SSpec (f : Nat) : Prop :=
  ∀ (x : Option Nat) s, Inv s → StoreInvX x s → StoreInvX x (runLoop f s) ∧ NoCreate s (runLoop f s)

theorem setTimer_store_of (fuel : Nat) (hrun : ∀ f, f < fuel → SSpec f) :
    ∀ (x : Option Nat) s, Inv s → StoreInvX x s → StoreInvX x (setTimer fuel s) ∧ NoCreate s (setTimer fuel s) := by
  intro x s hI h
  unfold setTimer
  simp only []
  split
  · exact StoreInvX_same h rfl rfl
  · split
    · exact StoreInvX_same h rfl rfl
    · split
      · exact StoreInvX_same h rfl rfl
      · split
        · split
          · exact StoreInvX_same h rfl rfl
          · next f =>
            obtain ⟨a, b⟩ := hrun f (by omega) x { s with timer := none } (Inv_timer_none hI) (StoreInvX_same h (by rfl) (by rfl)).1
            exact ⟨a, b⟩
        · exact StoreInvX_same h rfl rfl

theorem sSpec (fuel : Nat) : SSpec fuel := by
  induction fuel using Nat.strongRecOn with
  | _ fuel ih =>
    intro x s h hm
    have hst : ∀ f, f ≤ fuel → TimerFnS (setTimer f) :=
      fun f hf => ⟨timerFn2_setTimer f, setTimer_store_of f (fun f' hf' => ih f' (by omega))⟩
    unfold runLoop
    split
    · exact ⟨hm, NoCreate.refl s⟩
    · next hd rest hq =>
      split
      · exact StoreInvX_same hm rfl rfl
      · next nr hnr =>
        split
        · exact (hst fuel (Nat.le_refl _)).store x s h hm
        · next hle =>
          split
          · exact StoreInvX_same hm rfl rfl
          · next f =>
            have hTS := hst f (by omega)
            have hT := hTS.base.base
            have hnd : hd ∉ rest := by
              have := h.q.nodup; rw [hq] at this; exact (List.nodup_cons.1 this).1
            have h1 : Inv { s with queue := rest } := by
              refine ⟨⟨?_, ?_, ?_⟩, h.st, h.log⟩
              · intro i hi; exact h.q.run i (by rw [hq]; simp [hi])
              · have := h.q.nodup; rw [hq] at this; exact (List.nodup_cons.1 this).2
              · have := h.q.sorted; rw [hq] at this; exact (List.pairwise_cons.1 this).2
            have hdue : nr ≤ ({ s with queue := rest } : St).now := by
              show nr ≤ s.now
              omega
            obtain ⟨m1, c1⟩ := StoreInvX_same (s' := { s with queue := rest }) hm rfl rfl
            obtain ⟨e1, e2⟩ := execute_spec (setTimer f) hT hd nr h1 (by simpa using hnd) hdue
            have hd2 : hd ∉ (execute (setTimer f) { s with queue := rest } hd nr).queue :=
              fun hm' => hnd (e2 hd hm')
            obtain ⟨m2, c2⟩ := execute_storeInv (setTimer f) hTS { s with queue := rest } hd nr h1 (by simpa using hnd) hdue m1
            have a1 := Inv_addJob (setTimer f) hT hd e1 hd2
            obtain ⟨m3, c3⟩ := addJob_storeInv (setTimer f) hTS _ hd e1 hd2 m2
            obtain ⟨m4, c4⟩ := ih f (by omega) x _ a1 m3
            exact ⟨m4, ((c1.trans c2).trans c3).trans c4⟩

theorem timerFnS_setTimer (f : Nat) : TimerFnS (setTimer f) :=
  ⟨timerFn2_setTimer f, setTimer_store_of f (fun f' _ => sSpec f')⟩


/-! ### the public operations -/

theorem setNextRun_ok_status (s : St) (j : Nat) (nr : Option Int) (hok : (setNextRun s j nr).2 = none) :
    ((setNextRun s j nr).1.job j).status ≠ .created := by
  cases nr with
  | none => rw [setNextRun_none_job]; simp
  | some t =>
    by_cases ht : t < s.now - PAST_TOLERANCE
    · rw [setNextRun_err_of_lt s j t ht] at hok; cases hok
    · rw [setNextRun_some_status s j t ht]; simp

theorem updateNext_ok_status (setT : St → St) (s : St) (j : Nat) (hok : (updateNext setT s j).2 = none) :
    ((updateNext setT s j).1.job j).status ≠ .created := by
  revert hok
  unfold updateNext
  simp only []
  split
  · intro _; rw [jobFinish_job]; simp
  · intro hok; exact setNextRun_ok_status s j none hok
  · split
    · intro hok; cases hok
    · split
      · intro hok; cases hok
      · split
        · intro hok; cases hok
        · intro hok; exact setNextRun_ok_status _ j _ hok

theorem runJobs_storeInv (fuel : Nat) {s : St} (hI : Inv s) (h : StoreInvX none s) : StoreInvX none (runJobs fuel s) := by
  unfold runJobs
  exact (sSpec fuel none _ (Inv_timer_none hI) (StoreInvX_same h (by rfl) (by rfl)).1).1

theorem sleepLoop_storeInv (n : Nat) (target : Int) {s : St} (hI : Inv s) (h : StoreInvX none s) :
    StoreInvX none (sleepLoop n target s) := by
  induction n generalizing s with
  | zero => exact (StoreInvX_same h (by rfl) (by rfl)).1
  | succ n ih =>
    unfold sleepLoop
    split
    · next t ht =>
      split
      · have hI1 : Inv { s with now := if t > s.now then t else s.now } := ⟨hI.q, hI.st, hI.log⟩
        exact ih (runJobs_inv OPFUEL hI1) (runJobs_storeInv OPFUEL hI1 (StoreInvX_same h (by rfl) (by rfl)).1)
      · exact (StoreInvX_same h (by rfl) (by rfl)).1
    · exact (StoreInvX_same h (by rfl) (by rfl)).1

theorem updateJob_storeInv {x : Option Nat} (s : St) (j : Nat) (hx : InvEx j s) (h : StoreInvX x s) :
    StoreInvX x (addJob (setTimer OPFUEL) (removeJob (setTimer OPFUEL) s j) j) ∧
    NoCreate s (addJob (setTimer OPFUEL) (removeJob (setTimer OPFUEL) s j) j) := by
  have hTS := timerFnS_setTimer OPFUEL
  have hT := hTS.base.base
  have hI1 : Inv (removeJob (setTimer OPFUEL) s j) := Inv_removeJob _ hT j hx.q hx.st hx.log
  have hj : j ∉ (removeJob (setTimer OPFUEL) s j).queue := removeJob_notin _ hT j hx.q hx.nodup hx.st hx.log
  obtain ⟨m1, c1⟩ := removeJob_storeInv _ hTS s j ⟨hx.q, hx.st, hx.log⟩ h
  obtain ⟨m2, c2⟩ := addJob_storeInv _ hTS _ j hI1 hj m1
  exact ⟨m2, c1.trans c2⟩

theorem StoreInvX.close {s : St} {j : Nat} (h : StoreInvX (some j) s) (hc : (s.job j).status ≠ .created) :
    StoreInvX none s :=
  ⟨h.mem, h.has, h.uniq, fun i _ hi => by
    by_cases e : i = j
    · subst e; exact absurd hi hc
    · exact h.fresh i (by simpa using e) hi⟩

theorem createJob_storeInv (s : St) (j : Nat) (key : Option Nat) (spec : JobSpec) (ef tf : List Nat) (tff : Nat)
    (hI : Inv s) (h : StoreInvX none s) : StoreInvX none (createJob s j key spec ef tf tff).1 := by
  have hTS := timerFnS_setTimer OPFUEL
  have hT := hTS.base.base
  unfold createJob
  split
  · exact h
  · rename_i hcr
    have hcr' : (s.job j).status = .created := by simpa using hcr
    have hjq : j ∉ s.queue := by
      intro hm
      have := hI.q.run j hm
      rw [show (s.jobs j).status = (s.job j).status from rfl, hcr'] at this
      cases this
    have hjs : (s.job j).inStore = false := h.fresh j (by simp) hcr'
    split
    · exact h
    · split
      · exact h
      · rename_i hdup
        have hdup' : s.dupKey key = false := by simpa using hdup
        have hsI : Inv (storeAdd s key j) ∧ (storeAdd s key j).queue = s.queue := by
          unfold storeAdd
          split
          · exact ⟨⟨hI.q, hI.st, hI.log⟩, rfl⟩
          · exact ⟨hI, rfl⟩
        have hjq' : j ∉ ((storeAdd s key j).setJob j (newJob key spec ef tf tff)).queue := by
          show j ∉ (storeAdd s key j).queue
          rw [hsI.2]; exact hjq
        have hI1 : Inv ((storeAdd s key j).setJob j (newJob key spec ef tf tff)) := by
          apply Inv_setJob_notin _ _ hsI.1 hjq'
          simp [newJob, JobOK]
        -- the record is filed
        have m1 : StoreInvX (some j) ((storeAdd s key j).setJob j (newJob key spec ef tf tff)) := by
          have hjob : ∀ i, ((storeAdd s key j).setJob j (newJob key spec ef tf tff)).job i =
              if i = j then newJob key spec ef tf tff else s.job i := by
            intro i
            unfold storeAdd
            split <;> split <;> simp_all [St.job, St.setJob]
          have hnotj : ∀ k i, (k, i) ∈ s.store → i ≠ j := by
            intro k i hm e
            subst e
            have := (h.mem k i hm).1
            rw [hjs] at this; cases this
          cases key with
          | none =>
            have hst : ((storeAdd s none j).setJob j (newJob none spec ef tf tff)).store = s.store := rfl
            refine ⟨?_, ?_, by rw [hst]; exact h.uniq, ?_⟩
            · intro k i hm
              rw [hst] at hm
              rw [hjob i, if_neg (hnotj k i hm)]
              exact h.mem k i hm
            · intro i hi
              rw [hjob i] at hi
              by_cases e : i = j
              · subst e; simp [newJob] at hi
              · rw [if_neg e] at hi
                rw [hst, hjob i, if_neg e]; exact h.has i hi
            · intro i hx hc
              have e : i ≠ j := by simpa using hx
              rw [hjob i, if_neg e] at hc ⊢
              exact h.fresh i (by simp) hc
          | some k =>
            have hst : ((storeAdd s (some k) j).setJob j (newJob (some k) spec ef tf tff)).store = (k, j) :: s.store := rfl
            have hk : k ∉ s.store.map Prod.fst := by
              intro hm
              obtain ⟨p, hp, e⟩ := List.mem_map.1 hm
              have : s.hasKey k = true := by
                unfold St.hasKey
                rw [List.any_eq_true]
                exact ⟨p, hp, by simpa using e⟩
              simp [St.dupKey, this] at hdup'
            refine ⟨?_, ?_, ?_, ?_⟩
            · intro k' i hm
              rw [hst] at hm
              rcases List.mem_cons.1 hm with e | hm
              · cases e
                rw [hjob j, if_pos rfl]
                simp [newJob]
              · rw [hjob i, if_neg (hnotj k' i hm)]
                exact h.mem k' i hm
            · intro i hi
              rw [hst]
              by_cases e : i = j
              · subst e
                rw [hjob i, if_pos rfl]
                simp [newJob]
              · rw [hjob i, if_neg e] at hi ⊢
                exact List.mem_cons_of_mem _ (h.has i hi)
            · rw [hst]
              simp only [List.map_cons, List.nodup_cons]
              exact ⟨hk, h.uniq⟩
            · intro i hx hc
              have e : i ≠ j := by simpa using hx
              rw [hjob i, if_neg e] at hc ⊢
              exact h.fresh i (by simp) hc
        -- link_scheduler
        generalize (storeAdd s key j).setJob j (newJob key spec ef tf tff) = s1 at hjq' hI1 m1
        have hfirst : ∀ r : R, (Inv r.1 ∧ j ∉ r.1.queue ∧ StoreInvX (some j) r.1 ∧ (r.2 = none → (r.1.job j).status ≠ .created)) →
            StoreInvX none (match r with
              | (s', none) => (addJob (setTimer OPFUEL) s' j, none)
              | (s', some e) => ((jobFinish (setTimer OPFUEL) s' j).1, some e)).1 := by
          intro r hr
          obtain ⟨s', e⟩ := r
          cases e with
          | none =>
            obtain ⟨m, c⟩ := addJob_storeInv _ hTS s' j hr.1 hr.2.1 hr.2.2.1
            exact m.close (fun hc => hr.2.2.2 rfl (c j hc))
          | some e =>
            obtain ⟨m, _⟩ := jobFinish_storeInv _ hTS s' j hr.1 hr.2.2.1
            exact m.close (by rw [jobFinish_job]; simp)
        unfold linkJob
        simp only []
        apply hfirst
        split
        · next t _ =>
          have hq : j ∉ (setNextRun s1 j (some t)).1.queue := by rw [setNextRun_queue]; exact hjq'
          exact ⟨Inv_setNextRun j _ hI1 hjq', hq, (setNextRun_storeInv s1 j _ m1).1, setNextRun_ok_status s1 j _⟩
        · obtain ⟨u1, u2⟩ := updateNext_spec (setTimer OPFUEL) hT j hI1
          have hju : j ∉ (updateNext (setTimer OPFUEL) s1 j).1.queue := fun hm => hjq' (u2 j hm)
          exact ⟨u1.toInv hju, hju, (updateNext_storeInv _ hTS s1 j hI1 m1).1, updateNext_ok_status _ s1 j⟩

/-- every public operation keeps the store invariant -/
theorem step_storeInv (s : St) (op : Op) (hI : Inv s) (h : StoreInvX none s) : StoreInvX none (step s op).1 := by
  have hTS := timerFnS_setTimer OPFUEL
  have hT := hTS.base.base
  have pauseLike : ∀ j, StoreInvX none (setNextRun (removeJob (setTimer OPFUEL) s j) j none).1 := by
    intro j
    obtain ⟨m1, _⟩ := removeJob_storeInv _ hTS s j (Inv_erased j hI) h
    exact (setNextRun_storeInv _ j none m1).1
  unfold step
  simp only []
  cases op with
  | create j key spec ef tf tff => exact createJob_storeInv s j key spec ef tf tff hI h
  | cancel j => exact (jobFinish_storeInv _ hTS s j hI h).1
  | pause j =>
    simp only []
    split
    · exact h
    · split
      · exact h
      · exact pauseLike j
  | stop j =>
    simp only []
    split
    · exact h
    · split
      · exact h
      · exact pauseLike j
  | resume j =>
    simp only []
    split
    · exact h
    · split
      · exact h
      · obtain ⟨u1, _⟩ := updateNext_spec (setTimer OPFUEL) hT j hI
        obtain ⟨m, _⟩ := updateNext_storeInv _ hTS s j hI h
        split
        · rename_i s' e heq
          have e1 : s' = (updateNext (setTimer OPFUEL) s j).1 := by rw [heq]
          subst e1
          exact m
        · rename_i s' heq
          have e1 : s' = (updateNext (setTimer OPFUEL) s j).1 := by rw [heq]
          subst e1
          exact (updateJob_storeInv _ j u1 m).1
  | reset j =>
    simp only []
    split
    · exact h
    · split
      · exact h
      · obtain ⟨m, _⟩ := setNextRun_storeInv s j (some (s.now + (s.job j).secs)) h
        split
        · rename_i s' e heq
          have e1 : s' = (setNextRun s j (some (s.now + (s.job j).secs))).1 := by rw [heq]
          subst e1
          exact m
        · rename_i s' heq
          have e1 : s' = (setNextRun s j (some (s.now + (s.job j).secs))).1 := by rw [heq]
          subst e1
          exact (updateJob_storeInv _ j (InvEx_setNextRun _ (hI.toEx j)) m).1
  | setCountdown j secs =>
    simp only []
    split
    · exact h
    · split
      · exact h
      · split
        · exact h
        · exact (setJob_storeInv s j _ h (by rfl) (by rfl) (by rfl)).1
  | cbReg fin j c =>
    simp only []
    split
    · split
      · exact h
      · exact (setJob_storeInv s j _ h (by rfl) (by rfl) (by rfl)).1
    · split
      · exact h
      · exact (setJob_storeInv s j _ h (by rfl) (by rfl) (by rfl)).1
  | cbRem fin j c =>
    simp only []
    split
    · exact (setJob_storeInv s j _ h (by rfl) (by rfl) (by rfl)).1
    · exact (setJob_storeInv s j _ h (by rfl) (by rfl) (by rfl)).1
  | cbFails c => exact (StoreInvX_same h (by rfl) (by rfl)).1
  | advance d => exact (StoreInvX_same h (by rfl) (by rfl)).1
  | enable e =>
    simp only []
    split
    · exact h
    · exact (hTS.store none { s with enabled := e } ⟨hI.q, hI.st, hI.log⟩ (StoreInvX_same h (by rfl) (by rfl)).1).1
  | yield =>
    show StoreInvX none (fireDue s)
    unfold fireDue
    split
    · split
      · exact runJobs_storeInv OPFUEL hI h
      · exact h
    · exact h
  | sleep d => exact sleepLoop_storeInv SLEEPFUEL (s.now + d) hI h

end Ea
