import EaModel.Lemmas.Create
/-!
# A queued job stays queued for its run time, or is executed, under everything that does not address it (C08, C02)
-/
namespace Ea

/-- the log only grows -/
def LogExt (s s' : St) : Prop := ∃ l, s'.log = l ++ s.log

theorem LogExt.refl (s : St) : LogExt s s := ⟨[], rfl⟩
theorem LogExt.trans {a b c : St} (h1 : LogExt a b) (h2 : LogExt b c) : LogExt a c := by
  obtain ⟨l1, e1⟩ := h1
  obtain ⟨l2, e2⟩ := h2
  exact ⟨l2 ++ l1, by rw [e2, e1, List.append_assoc]⟩

theorem step_ext (s : St) (op : Op) (hI : Inv s) : LogExt s (step s op).1 := by
  have hT2 := timerFn2_setTimer OPFUEL
  have hT := hT2.base
  have pauseLike : ∀ j, LogExt s (setNextRun (removeJob (setTimer OPFUEL) s j) j none).1 := fun j =>
    LogExt.trans (removeJob_clock _ hT2 s j (Inv_erased j hI)).ext (setNextRun_clock _ j none).ext
  unfold step
  simp only []
  cases op with
  | create j key spec ef tf tff => exact (createJob_clock s j key spec ef tf tff hI).ext
  | cancel j => exact (jobFinish_clock _ hT2 s j hI).ext
  | pause j =>
    simp only []
    split
    · exact LogExt.refl s
    · split
      · exact LogExt.refl s
      · exact pauseLike j
  | stop j =>
    simp only []
    split
    · exact LogExt.refl s
    · split
      · exact LogExt.refl s
      · exact pauseLike j
  | resume j =>
    simp only []
    split
    · exact LogExt.refl s
    · split
      · exact LogExt.refl s
      · obtain ⟨u1, _⟩ := updateNext_spec (setTimer OPFUEL) hT j hI
        have c1 := updateNext_clock _ hT2 s j hI
        split
        · rename_i s' e heq
          have : s' = (updateNext (setTimer OPFUEL) s j).1 := by rw [heq]
          subst this
          exact c1.ext
        · rename_i s' heq
          have : s' = (updateNext (setTimer OPFUEL) s j).1 := by rw [heq]
          subst this
          exact LogExt.trans c1.ext (updateJob_keep OPFUEL j (j + 1) (by omega) u1).2.ext
  | reset j => exact (reset_clock s j hI).ext
  | setCountdown j secs =>
    simp only []
    split
    · exact LogExt.refl s
    · split
      · exact LogExt.refl s
      · split
        · exact LogExt.refl s
        · exact ⟨[], rfl⟩
  | cbReg fin j c =>
    simp only []
    split
    · split
      · exact LogExt.refl s
      · exact ⟨[], rfl⟩
    · split
      · exact LogExt.refl s
      · exact ⟨[], rfl⟩
  | cbRem fin j c =>
    simp only []
    split
    · exact ⟨[], rfl⟩
    · exact ⟨[], rfl⟩
  | cbFails c => exact ⟨[], rfl⟩
  | advance d => exact ⟨[], rfl⟩
  | enable e =>
    simp only []
    split
    · exact LogExt.refl s
    · exact (hT2.clock { s with enabled := e } ⟨hI.q, hI.st, hI.log⟩).ext
  | yield =>
    show LogExt s (fireDue s)
    unfold fireDue
    split
    · split
      · exact (runJobs_clock OPFUEL hI).ext
      · exact LogExt.refl s
    · exact LogExt.refl s
  | sleep d => exact (sleepLoop_log SLEEPFUEL (s.now + d) hI).1

/-- across a step in which the clock may move: still queued for `t`, or an execution for `t` was appended -/
def KeepH (i : Nat) (s s' : St) : Prop :=
  ∀ t, i ∈ s.queue → s.nr i = some t →
    (∃ l t', s'.log = l ++ s.log ∧ Ev.exec i t' t ∈ l) ∨ (i ∈ s'.queue ∧ s'.nr i = some t)

theorem KeepH.refl (i : Nat) (s : St) : KeepH i s s := fun _ hm ht => Or.inr ⟨hm, ht⟩

theorem KeepQ.toH {i : Nat} {s s' : St} (h : KeepQ i s s') : KeepH i s s' := by
  intro t hm ht
  rcases h t hm ht with ⟨l, hl, hin⟩ | hr
  · exact Or.inl ⟨l, s.now, hl, hin⟩
  · exact Or.inr hr

theorem KeepH.of_same {i : Nat} {s s' : St} (hq : i ∈ s.queue → i ∈ s'.queue) (hnr : s'.nr i = s.nr i) :
    KeepH i s s' := fun _ hm ht => Or.inr ⟨hq hm, by rw [hnr]; exact ht⟩

theorem KeepH.trans {i : Nat} {a b c : St} (h1 : KeepH i a b) (h2 : KeepH i b c)
    (e1 : LogExt a b) (e2 : LogExt b c) : KeepH i a c := by
  intro t hm ht
  obtain ⟨l1, hl1⟩ := e1
  obtain ⟨l2, hl2⟩ := e2
  rcases h1 t hm ht with ⟨l, t', hl, hin⟩ | ⟨hm', ht'⟩
  · exact Or.inl ⟨l2 ++ l, t', by rw [hl2, hl, List.append_assoc], List.mem_append_right _ hin⟩
  · rcases h2 t hm' ht' with ⟨l, t', hl, hin⟩ | hr
    · exact Or.inl ⟨l ++ l1, t', by rw [hl, hl1, List.append_assoc], List.mem_append_left _ hin⟩
    · exact Or.inr hr

theorem sleepLoop_keepH (n : Nat) (target : Int) (i : Nat) {s : St} (hI : Inv s) : KeepH i s (sleepLoop n target s) := by
  induction n generalizing s with
  | zero => exact KeepH.of_same id rfl
  | succ n ih =>
    unfold sleepLoop
    split
    · next t ht =>
      split
      · have hI1 : Inv { s with now := if t > s.now then t else s.now } := ⟨hI.q, hI.st, hI.log⟩
        have k0 : KeepH i s { s with now := if t > s.now then t else s.now } := KeepH.of_same id rfl
        have k1 : KeepH i { s with now := if t > s.now then t else s.now }
            (runJobs OPFUEL { s with now := if t > s.now then t else s.now }) := (runJobs_keep OPFUEL hI1 i).toH
        have e1 := (runJobs_clock OPFUEL hI1).ext
        have hI2 := runJobs_inv OPFUEL hI1
        exact ((k0.trans k1 ⟨[], rfl⟩ e1).trans (ih hI2) (LogExt.trans ⟨[], rfl⟩ e1) (sleepLoop_log n target hI2).1)
      · exact KeepH.of_same id rfl
    · exact KeepH.of_same id rfl

theorem linkJob_keepQ (s : St) (j i : Nat) (hne : i ≠ j) (hI : Inv s) (hj : j ∉ s.queue) :
    KeepQ i s (linkJob s j).1 ∧ SameClock s (linkJob s j).1 := by
  have hT3 := timerFn3_setTimer OPFUEL
  have hT2 := hT3.base
  have hT := hT2.base
  have hfirst : ∀ r : R, (Inv r.1 ∧ j ∉ r.1.queue ∧ KeepQ i s r.1 ∧ SameClock s r.1) →
      KeepQ i s (match r with
        | (s', none) => (addJob (setTimer OPFUEL) s' j, none)
        | (s', some e) => ((jobFinish (setTimer OPFUEL) s' j).1, some e)).1 ∧
      SameClock s (match r with
        | (s', none) => (addJob (setTimer OPFUEL) s' j, none)
        | (s', some e) => ((jobFinish (setTimer OPFUEL) s' j).1, some e)).1 := by
    intro r hr
    obtain ⟨s', e⟩ := r
    cases e with
    | none =>
      exact ⟨hr.2.2.1.trans hr.2.2.2 (addJob_keep _ hT3 s' j i hr.1 hr.2.1) (addJob_clock _ hT2 s' j hr.1 hr.2.1),
        hr.2.2.2.trans (addJob_clock _ hT2 s' j hr.1 hr.2.1)⟩
    | some e =>
      exact ⟨hr.2.2.1.trans hr.2.2.2 (jobFinish_keep _ hT3 s' j i hne hr.1) (jobFinish_clock _ hT2 s' j hr.1),
        hr.2.2.2.trans (jobFinish_clock _ hT2 s' j hr.1)⟩
  unfold linkJob
  simp only []
  apply hfirst
  split
  · next t _ =>
    have hq : j ∉ (setNextRun s j (some t)).1.queue := by rw [setNextRun_queue]; exact hj
    exact ⟨Inv_setNextRun j _ hI hj, hq, setNextRun_keep s j i _ hne, setNextRun_clock s j _⟩
  · obtain ⟨u1, u2⟩ := updateNext_spec (setTimer OPFUEL) hT j hI
    have hju : j ∉ (updateNext (setTimer OPFUEL) s j).1.queue := fun hm => hj (u2 j hm)
    exact ⟨u1.toInv hju, hju, updateNext_keep _ hT3 s j i hne hI, updateNext_clock _ hT2 s j hI⟩

theorem createJob_keepQ (s : St) (j i : Nat) (key : Option Nat) (spec : JobSpec) (ef tf : List Nat) (tff : Nat)
    (hne : i ≠ j) (hI : Inv s) : KeepQ i s (createJob s j key spec ef tf tff).1 := by
  unfold createJob
  split
  · exact KeepQ.refl i s
  · rename_i hcr
    have hcr' : (s.job j).status = .created := by simpa using hcr
    have hjq : j ∉ s.queue := by
      intro hm
      have := hI.q.run j hm
      rw [show (s.jobs j).status = (s.job j).status from rfl, hcr'] at this
      cases this
    split
    · exact KeepQ.refl i s
    · split
      · exact KeepQ.refl i s
      · have hs : Inv (storeAdd s key j) ∧ (storeAdd s key j).queue = s.queue ∧ (storeAdd s key j).jobs = s.jobs ∧
            (storeAdd s key j).log = s.log ∧ (storeAdd s key j).now = s.now := by
          unfold storeAdd
          split
          · exact ⟨⟨hI.q, hI.st, hI.log⟩, rfl, rfl, rfl, rfl⟩
          · exact ⟨hI, rfl, rfl, rfl, rfl⟩
        have hjq' : j ∉ ((storeAdd s key j).setJob j (newJob key spec ef tf tff)).queue := by
          show j ∉ (storeAdd s key j).queue
          rw [hs.2.1]; exact hjq
        have hI1 : Inv ((storeAdd s key j).setJob j (newJob key spec ef tf tff)) := by
          apply Inv_setJob_notin _ _ hs.1 hjq'
          simp [newJob, JobOK]
        have k0 : KeepQ i s ((storeAdd s key j).setJob j (newJob key spec ef tf tff)) :=
          KeepQ.same (fun h => by show i ∈ (storeAdd s key j).queue; rw [hs.2.1]; exact h)
            (by simp [St.nr, St.setJob, hne, hs.2.2.1])
        have c0 : SameClock s ((storeAdd s key j).setJob j (newJob key spec ef tf tff)) :=
          ⟨hs.2.2.2.2, by unfold storeAdd; split <;> rfl, [], hs.2.2.2.1⟩
        obtain ⟨k1, c1⟩ := linkJob_keepQ _ j i hne hI1 hjq'
        exact k0.trans c0 k1 c1


/-- every operation that does not address job `i` leaves it queued for its run time, or executes it -/
theorem step_keepH (s : St) (op : Op) (i : Nat) (hI : Inv s) (htg : op.target ≠ some i) (hadds : op.adds ≠ some i) :
    KeepH i s (step s op).1 := by
  have hT3 := timerFn3_setTimer OPFUEL
  cases hto : op.target with
  | some j =>
    have hne : i ≠ j := fun e => htg (by rw [hto, e])
    exact (control_keep s op j i hto hne hI).toH
  | none =>
    cases op with
    | create j key spec ef tf tff =>
      have hne : i ≠ j := fun e => hadds (by rw [e]; rfl)
      exact (createJob_keepQ s j i key spec ef tf tff hne hI).toH
    | cbFails c => exact KeepH.of_same id rfl
    | advance d => exact KeepH.of_same id rfl
    | enable e =>
      show KeepH i s (step s (.enable e)).1
      unfold step
      simp only []
      split
      · exact KeepH.refl i s
      · have hI' : Inv { s with enabled := e } := ⟨hI.q, hI.st, hI.log⟩
        exact (KeepH.of_same (s' := { s with enabled := e }) id rfl).trans (hT3.keeps _ hI' i).toH ⟨[], rfl⟩
          (hT3.base.clock _ hI').ext
    | yield =>
      show KeepH i s (fireDue s)
      unfold fireDue
      split
      · split
        · exact (runJobs_keep OPFUEL hI i).toH
        · exact KeepH.refl i s
      · exact KeepH.refl i s
    | sleep d => exact sleepLoop_keepH SLEEPFUEL (s.now + d) i hI
    | cancel j => simp [Op.target] at hto
    | pause j => simp [Op.target] at hto
    | stop j => simp [Op.target] at hto
    | resume j => simp [Op.target] at hto
    | reset j => simp [Op.target] at hto
    | setCountdown j secs => simp [Op.target] at hto
    | cbReg fin j c => simp [Op.target] at hto
    | cbRem fin j c => simp [Op.target] at hto

end Ea
