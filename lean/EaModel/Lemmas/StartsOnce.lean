import EaModel.Lemmas.Conserve
/-!
# No coroutine body is entered twice

`enter c` is logged when the body of coroutine `c` starts to run. In every reachable state of every manager, the number
of `enter c` entries is at most the number of tasks created for `c` that have left the state "first step pending" —
a task enters its body at most once. Together with `Cons` (at most one task per submission) a coroutine that was
submitted once is started at most once.
-/
namespace Ea

def cEnter (c : Nat) (log : List TEv) : Nat := log.count (.enter c)
def started (c : Nat) (x : Task) : Bool := x.coro = c && x.status != .pendingStart
def cStarted (c : Nat) (ts : List Task) : Nat := ts.countP (started c)

def Starts (s : TSt) : Prop := ∀ c, cEnter c s.log ≤ cStarted c s.tasks

/-- `s'` has no new `enter` entry and no task went back to "first step pending" -/
structure Quiet (s s' : TSt) : Prop where
  log : ∀ c, cEnter c s'.log = cEnter c s.log
  tasks : ∀ c, cStarted c s.tasks ≤ cStarted c s'.tasks

theorem Quiet.refl (s : TSt) : Quiet s s := ⟨fun _ => rfl, fun _ => Nat.le_refl _⟩
theorem Quiet.trans {a b c : TSt} (h1 : Quiet a b) (h2 : Quiet b c) : Quiet a c :=
  ⟨fun x => (h2.log x).trans (h1.log x), fun x => Nat.le_trans (h1.tasks x) (h2.tasks x)⟩
theorem Quiet.of_eq {s s' : TSt} (ht : s'.tasks = s.tasks) (hl : s'.log = s.log) : Quiet s s' :=
  ⟨fun _ => by rw [hl], fun _ => by rw [ht]; exact Nat.le_refl _⟩
theorem Starts.quiet {s s' : TSt} (h : Starts s) (q : Quiet s s') : Starts s' :=
  fun c => by have := h c; have := q.log c; have := q.tasks c; omega

theorem cEnter_cons (c : Nat) (e : TEv) (log : List TEv) :
    cEnter c (e :: log) = cEnter c log + if e = .enter c then 1 else 0 := by
  simp [cEnter, List.count_cons]

theorem Quiet.emit (s : TSt) (e : TEv) (h : ∀ c, e ≠ .enter c) : Quiet s (s.emit e) :=
  ⟨fun c => by simp [TSt.emit, cEnter_cons, h c], fun _ => Nat.le_refl _⟩

theorem countP_set_mono {α : Type} (p : α → Bool) : ∀ (l : List α) (t : Nat) (x : α),
    (∀ y, l[t]? = some y → p y = true → p x = true) → l.countP p ≤ (l.set t x).countP p
  | [], _, _, _ => by simp
  | a :: l, 0, x, h => by
    simp only [List.set_cons_zero, List.countP_cons]
    have := h a (by simp)
    cases hp : p a <;> cases hx : p x <;> simp_all
  | a :: l, t + 1, x, h => by
    simp only [List.set_cons_succ, List.countP_cons]
    have := countP_set_mono p l t x (by intro y hy; exact h y (by simpa using hy))
    omega

theorem countP_set_flip {α : Type} (p : α → Bool) : ∀ (l : List α) (t : Nat) (x y : α),
    l[t]? = some y → p y = false → p x = true → (l.set t x).countP p = l.countP p + 1
  | [], _, _, _, h, _, _ => by simp at h
  | a :: l, 0, x, y, h, hy, hx => by
    simp at h; subst h
    simp [List.countP_cons, hy, hx]
  | a :: l, t + 1, x, y, h, hy, hx => by
    simp only [List.set_cons_succ, List.countP_cons]
    rw [countP_set_flip p l t x y (by simpa using h) hy hx]
    omega

theorem task_eq_of_get (s : TSt) (t : Nat) (y : Task) (h : s.tasks[t]? = some y) : s.task t = y := by
  unfold TSt.task
  rw [List.getD_eq_getElem?_getD, h]; rfl

/-- a task record is replaced by one for the same coroutine that is not "first step pending" unless the old one was -/
theorem Quiet.setTask (s : TSt) (t : Nat) (x : Task) (hc : x.coro = (s.task t).coro)
    (hs : (s.task t).status ≠ .pendingStart → x.status ≠ .pendingStart) : Quiet s (s.setTask t x) := by
  refine ⟨fun _ => rfl, fun c => ?_⟩
  unfold cStarted TSt.setTask
  apply countP_set_mono
  intro y hy hp
  have e := task_eq_of_get s t y hy
  rw [e] at hc hs
  simp only [started, Bool.and_eq_true, decide_eq_true_eq, bne_iff_ne, ne_eq] at hp ⊢
  exact ⟨by rw [hc]; exact hp.1, hs hp.2⟩

/-- the same, stated for any state whose task list is the old one with one record replaced -/
theorem Quiet.of_set (s s' : TSt) (t : Nat) (x : Task) (ht : s'.tasks = s.tasks.set t x) (hl : s'.log = s.log)
    (hc : x.coro = (s.task t).coro) (hs : (s.task t).status ≠ .pendingStart → x.status ≠ .pendingStart) : Quiet s s' := by
  have q := Quiet.setTask s t x hc hs
  exact ⟨fun c => by rw [hl], fun c => by rw [ht]; exact q.tasks c⟩

theorem Quiet.append_pending (s s' : TSt) (c : Nat) (ht : s'.tasks = s.tasks ++ [{ coro := c }]) (hl : s'.log = s.log) :
    Quiet s s' := by
  refine ⟨fun _ => by rw [hl], fun c' => ?_⟩
  rw [ht]
  simp [cStarted, List.countP_append]

theorem Quiet.cancelTask (s : TSt) (t : Nat) : Quiet s (s.cancelTask t) := by
  unfold TSt.cancelTask
  simp only []
  split
  · exact Quiet.refl s
  · exact Quiet.of_set s _ t _ rfl rfl rfl (fun h => h)
  · split
    · exact Quiet.refl s
    · exact Quiet.of_set s _ t _ rfl rfl rfl (fun h => h)

theorem Quiet.finishTask (s : TSt) (t : Nat) : Quiet s (finishTask s t) := by
  unfold Ea.finishTask
  exact Quiet.of_set s _ t _ rfl rfl rfl (fun _ => by simp)

theorem Quiet.clearCur (s : TSt) (done : Option Nat) : Quiet s (clearCur s done) := by
  unfold Ea.clearCur; split
  · exact Quiet.of_eq rfl rfl
  · exact Quiet.refl s

theorem Quiet.seqTaskDone (s : TSt) (done : Option Nat) : Quiet s (seqTaskDone s done) := by
  unfold Ea.seqTaskDone
  split
  · exact Quiet.clearCur s done
  · next c k rest hq =>
    exact (Quiet.clearCur s done).trans (Quiet.append_pending _ _ c rfl rfl)

theorem Quiet.seqTaskStart (s : TSt) : Quiet s (seqTaskStart s) := by
  unfold Ea.seqTaskStart; split
  · exact Quiet.refl s
  · exact Quiet.seqTaskDone s none

theorem Quiet.createTask (s : TSt) (c : Nat) : Quiet s (s.createTask c).1 :=
  Quiet.append_pending _ _ c rfl rfl

theorem Quiet.submitCore (s : TSt) (c key : Nat) : Quiet s (submitCore s c key) := by
  have em : ∀ (x : TSt) (c0 : Nat), Quiet x (x.emit (.closed c0)) := fun x c0 => Quiet.emit x _ (by intro c e; cases e)
  have qs : ∀ (x y : TSt), y.tasks = x.tasks → y.log = x.log → Quiet x (Ea.seqTaskStart y) :=
    fun x y h1 h2 => (Quiet.of_eq h1 h2).trans (Quiet.seqTaskStart y)
  unfold Ea.submitCore
  split
  · exact qs _ _ rfl rfl
  · split
    · split
      · exact em s c
      · split
        · exact qs _ _ rfl rfl
        · exact (em s _).trans (qs _ _ rfl rfl)
      · split
        · exact qs _ _ rfl rfl
        · exact (em s _).trans (qs _ _ rfl rfl)
    · exact qs _ _ rfl rfl
  · split
    · exact (em s _).trans (qs _ _ rfl rfl)
    · exact qs _ _ rfl rfl
  · exact (Quiet.createTask s c).trans (Quiet.of_eq rfl rfl)
  · split
    · split
      · exact em s c
      · split
        · exact (Quiet.createTask s c).trans (Quiet.of_eq rfl rfl)
        · next t0 rest ht =>
          exact ((Quiet.of_eq (s := s) (s' := { s with tracked := rest }) rfl rfl).trans
            ((Quiet.cancelTask _ t0).trans ((Quiet.createTask _ c).trans (Quiet.of_eq rfl rfl))))
      · split
        · exact (Quiet.createTask s c).trans (Quiet.of_eq rfl rfl)
        · next t0 ht =>
          exact ((Quiet.of_eq (s := s) (s' := { s with tracked := s.tracked.dropLast }) rfl rfl).trans
            ((Quiet.cancelTask _ t0).trans ((Quiet.createTask _ c).trans (Quiet.of_eq rfl rfl))))
    · exact (Quiet.createTask s c).trans (Quiet.of_eq rfl rfl)

theorem Quiet.submit (s : TSt) (c key : Nat) : Quiet s (submit s c key) :=
  (Quiet.emit s _ (by intro c e; cases e)).trans (Quiet.submitCore _ c key)

theorem Quiet.submitAll : ∀ (subs : List (Nat × Nat)) (s : TSt), Quiet s (submitAll s subs)
  | [], s => Quiet.refl s
  | (c, k) :: rest, s => by unfold Ea.submitAll; exact (Quiet.submit s c k).trans (Quiet.submitAll rest _)

theorem Quiet.managerDone (s : TSt) (t : Nat) : Quiet s (managerDone s t) := by
  unfold Ea.managerDone
  have h1 : Quiet s (s.setTask t { s.task t with delivered := true }) := Quiet.of_set s _ t _ rfl rfl rfl (fun h => h)
  simp only []
  split
  · exact h1.trans (Quiet.seqTaskDone _ _)
  · exact h1.trans (Quiet.seqTaskDone _ _)
  · exact h1.trans (Quiet.seqTaskDone _ _)
  · exact h1.trans (Quiet.of_eq rfl rfl)
  · exact h1.trans (Quiet.of_eq rfl rfl)

theorem Starts.runReady {s : TSt} (h : Starts s) (r : Ready) : Starts (runReady s r) := by
  cases r with
  | step t =>
    simp only [Ea.runReady]
    split
    · exact h
    · next hpend =>
      split
      · exact h.quiet ((Quiet.emit s _ (by intro c e; cases e)).trans (Quiet.finishTask _ t))
      · -- the body is entered: one more `enter`, one more started task
        have hst : (s.task t).status = .pendingStart := by
          cases hs : (s.task t).status <;> simp_all
        have hin : ∃ y, s.tasks[t]? = some y := by
          cases hg : s.tasks[t]? with
          | some y => exact ⟨y, rfl⟩
          | none =>
            exfalso
            have : s.task t = { coro := 0, status := .done, delivered := true } := by
              unfold TSt.task; rw [List.getD_eq_getElem?_getD, hg]; rfl
            rw [this] at hst; cases hst
        obtain ⟨y, hy⟩ := hin
        have ey := task_eq_of_get s t y hy
        intro c
        have hc := h c
        simp only [TSt.emit, TSt.setTask, cEnter_cons]
        by_cases e : (s.task t).coro = c
        · have hflip : cStarted c (s.tasks.set t { s.task t with status := .suspended }) = cStarted c s.tasks + 1 := by
            unfold cStarted
            apply countP_set_flip (started c) s.tasks t _ y hy
            · rw [← ey]; simp [started, hst]
            · simp [started, e]
          rw [hflip]
          have : (TEv.enter (s.task t).coro = TEv.enter c) := by rw [e]
          simp [this]; omega
        · have hmono : cStarted c s.tasks ≤ cStarted c (s.tasks.set t { s.task t with status := .suspended }) :=
            (Quiet.setTask s t { s.task t with status := .suspended } rfl (fun _ => by simp)).tasks c
          have : ¬ (TEv.enter (s.task t).coro = TEv.enter c) := by intro x; injection x with x; exact e x
          dsimp only at hmono
          simp [this]; omega
  | resume t fail last =>
    simp only [Ea.runReady]
    split
    · exact h
    · refine h.quiet ?_
      refine (Quiet.submitAll last.inside s).trans (Quiet.trans ?_ (Quiet.trans (Quiet.emit _ _ ?_) (Quiet.finishTask _ t)))
      · split
        · exact Quiet.refl _
        · exact Quiet.of_eq rfl rfl
      · intro c e; split at e <;> cases e
  | resumeCancel t =>
    simp only [Ea.runReady]
    split
    · exact h
    · exact h.quiet ((Quiet.emit s _ (by intro c e; cases e)).trans (Quiet.finishTask _ t))
  | doneCb t => exact h.quiet (Quiet.managerDone s t)
  | listener subs => exact h.quiet (Quiet.submitAll subs s)

theorem Starts.drain : ∀ (n : Nat) {s : TSt}, Starts s → Starts (drain n s)
  | 0, _, h => h
  | n + 1, s, h => by
    unfold Ea.drain
    split
    · exact h
    · apply Starts.drain n
      apply Starts.runReady
      exact h.quiet (Quiet.of_eq rfl rfl)

theorem Starts.tstep {s : TSt} (h : Starts s) (op : TOp) : Starts (tstep s op) := by
  apply Starts.drain
  cases op with
  | submit c k => exact h.quiet (Quiet.submit s c k)
  | complete t fail last =>
    simp only [Ea.applyOp]
    split
    · exact h.quiet (Quiet.of_eq rfl rfl)
    · exact h
  | cancel t => exact h.quiet (Quiet.cancelTask s t)

/-- in every reachable state of every manager a coroutine body has been entered at most as often as tasks were
started for it -/
theorem starts_reachable (k : MgrKind) (ops : List TOp) : Starts (ops.foldl tstep { kind := k }) := by
  suffices h : ∀ s, Starts s → Starts (ops.foldl tstep s) from h _ (fun c => by simp [cEnter, cStarted])
  induction ops with
  | nil => intro s h; exact h
  | cons op ops ih => intro s h; exact ih _ (h.tstep op)

/-- **none is lost and none runs twice**: a coroutine that was handed to the manager exactly once is, in every
reachable state, either waiting in the queue, or closed unstarted by the manager, or has exactly one task — and then
its body was entered at most once -/
theorem submitted_once (k : MgrKind) (ops : List TOp) (c : Nat)
    (hs : cSub c (ops.foldl tstep { kind := k }).log = 1) :
    let s := ops.foldl tstep { kind := k }
    ((cQueue c s.queue = 1 ∧ cTasks c s.tasks = 0 ∧ cClosed c s.log = 0) ∨
     (cQueue c s.queue = 0 ∧ cTasks c s.tasks = 1 ∧ cClosed c s.log = 0) ∨
     (cQueue c s.queue = 0 ∧ cTasks c s.tasks = 0 ∧ cClosed c s.log = 1)) ∧ cEnter c s.log ≤ 1 := by
  intro s
  have h1 : _ := one_place (s := s) (cons_reachable k ops) c hs
  have h2 : cEnter c s.log ≤ cStarted c s.tasks := starts_reachable k ops c
  have h3 : cStarted c s.tasks ≤ cTasks c s.tasks := by
    unfold cStarted cTasks
    apply List.countP_mono_left
    intro x _ hx
    simp only [started, Bool.and_eq_true, decide_eq_true_eq] at hx
    simpa using hx.1
  refine ⟨h1, ?_⟩
  rcases h1 with ⟨_, h, _⟩ | ⟨_, h, _⟩ | ⟨_, h, _⟩ <;> omega

end Ea
