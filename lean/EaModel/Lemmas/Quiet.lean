import EaModel.Lemmas.Wake
/-!
# Which operations can execute which jobs (C02 "no unauthorised execution")

`Quiet P s s'`: on the way from `s` to `s'` the log only grew, and every new entry satisfies `P`.
With `P = notExec` (no execution at all) for a disabled scheduler, and `P = notExecOf i` for a job `i` that is
not queued (paused, stopped, finished, cancelled).
-/
namespace Ea

def notExec : Ev → Prop
  | .exec _ _ _ => False
  | _ => True

def notExecOf (i : Nat) : Ev → Prop
  | .exec j _ _ => j ≠ i
  | _ => True

def Quiet (P : Ev → Prop) (s s' : St) : Prop := ∃ l, s'.log = l ++ s.log ∧ ∀ e ∈ l, P e

theorem Quiet.refl (P : Ev → Prop) (s : St) : Quiet P s s := ⟨[], rfl, fun _ h => by cases h⟩

theorem Quiet.of_eq {P : Ev → Prop} {s s' : St} (h : s'.log = s.log) : Quiet P s s' :=
  ⟨[], by rw [h]; rfl, fun _ h => by cases h⟩

theorem Quiet.trans {P : Ev → Prop} {a b c : St} (h1 : Quiet P a b) (h2 : Quiet P b c) : Quiet P a c := by
  obtain ⟨l1, e1, p1⟩ := h1
  obtain ⟨l2, e2, p2⟩ := h2
  refine ⟨l2 ++ l1, by rw [e2, e1, List.append_assoc], ?_⟩
  intro e he
  rcases List.mem_append.1 he with h | h
  · exact p2 e h
  · exact p1 e h

theorem Quiet.emit {P : Ev → Prop} (s : St) (e : Ev) (he : P e) : Quiet P s (s.emit e) :=
  ⟨[e], rfl, fun x hx => by simp at hx; subst hx; exact he⟩

section generic
variable {P : Ev → Prop} (hP : ∀ e, notExec e → P e)
include hP

theorem runCbs_quiet (fin : Bool) (j : Nat) (cs : List Nat) (s : St) : Quiet P s (runCbs fin j cs s) := by
  induction cs generalizing s with
  | nil => exact Quiet.refl P s
  | cons c cs ih =>
    unfold runCbs
    simp only []
    split
    · exact ((Quiet.emit s (Ev.cb fin c j (s.job j).status (s.job j).nextRun s.now) (hP _ trivial)).trans
        (Quiet.emit _ (Ev.exc "CallbackError") (hP _ trivial))).trans (ih _)
    · exact (Quiet.emit s (Ev.cb fin c j (s.job j).status (s.job j).nextRun s.now) (hP _ trivial)).trans (ih _)

theorem setNextRun_quiet (s : St) (j : Nat) (nr : Option Int) : Quiet P s (setNextRun s j nr).1 := by
  unfold setNextRun
  cases nr with
  | none => exact (Quiet.of_eq (s' := s.setJob j _) rfl).trans (runCbs_quiet hP false j _ _)
  | some t =>
    simp only []
    split
    · exact Quiet.refl P s
    · exact (Quiet.of_eq (s' := s.setJob j _) rfl).trans (runCbs_quiet hP false j _ _)

end generic

/-- a state predicate that only looks at the queue, the switch and the run times of jobs other than `j`, and
survives the removal of `j` -/
structure PreOK (j : Nat) (Pre : St → Prop) : Prop where
  frame : ∀ s s', Pre s → s'.queue = s.queue → s'.enabled = s.enabled → (∀ x, x ≠ j → s'.nr x = s.nr x) → Pre s'
  erase : ∀ s, Pre s → Pre { s with queue := s.queue.erase j }

theorem nr_setNextRun_ne (s : St) (j : Nat) (nr : Option Int) (x : Nat) (h : x ≠ j) :
    (setNextRun s j nr).1.nr x = s.nr x := by
  rcases setNextRun_spec s j nr with ⟨h1, _⟩ | ⟨_, b', _, _, hjobs, _⟩
  · rw [h1]
  · unfold St.nr; rw [hjobs]; simp [h]

/-- `_set_timer` adds only `P` entries in states that satisfy `Pre`, and keeps `Pre` -/
structure TimerFnQ (P : Ev → Prop) (Pre : St → Prop) (setT : St → St) : Prop where
  base : TimerFn2 setT
  quiet : ∀ s, Inv s → Pre s → Quiet P s (setT s) ∧ Pre (setT s)

section withTimer
variable {P : Ev → Prop} {Pre : St → Prop} (setT : St → St)
variable (hP : ∀ e, notExec e → P e) (hQ : TimerFnQ P Pre setT)
include hP hQ

theorem removeJob_quiet (s : St) (j : Nat) (hO : PreOK j Pre) (hI : Inv { s with queue := s.queue.erase j }) (hpre : Pre s) :
    Quiet P s (removeJob setT s j) ∧ Pre (removeJob setT s j) := by
  have hp : Pre { s with queue := s.queue.erase j } := hO.erase s hpre
  rcases removeJob_cases setT s j with h | h <;> rw [h]
  · obtain ⟨q, p⟩ := hQ.quiet _ hI hp
    exact ⟨(Quiet.of_eq (s' := { s with queue := s.queue.erase j }) rfl).trans q, p⟩
  · exact ⟨Quiet.of_eq rfl, hp⟩

theorem addJob_quiet (s : St) (j : Nat) (hI : Inv s) (hj : j ∉ s.queue) (hpre : Pre s)
    (hins : (s.job j).status = .running → Pre { s with queue := insort s.nr j s.queue }) :
    Quiet P s (addJob setT s j) ∧ Pre (addJob setT s j) := by
  unfold addJob
  split
  · next hr =>
    simp only []
    split
    · obtain ⟨q, p⟩ := hQ.quiet _ (Inv_insorted j hI hj hr) (hins hr)
      exact ⟨(Quiet.of_eq (s' := { s with queue := insort s.nr j s.queue }) rfl).trans q, p⟩
    · exact ⟨Quiet.of_eq rfl, hins hr⟩
  · exact ⟨Quiet.refl P s, hpre⟩

theorem jobFinish_quiet (s : St) (j : Nat) (hO : PreOK j Pre) (hI : Inv s) (hpre : Pre s) :
    Quiet P s (jobFinish setT s j).1 ∧ Pre (jobFinish setT s j).1 := by
  by_cases hf : (s.job j).status = .finished
  · unfold jobFinish; rw [if_pos hf]; exact ⟨Quiet.refl P s, hpre⟩
  · obtain ⟨q1, p1⟩ := removeJob_quiet setT hP hQ s j hO (Inv_erased j hI) hpre
    obtain ⟨c, hq, hnr⟩ := jobFinish_tail setT s j hf
    refine ⟨q1.trans ?_, hO.frame _ _ p1 hq c.enabled hnr⟩
    -- the tail: record replaced, callbacks
    unfold jobFinish
    rw [if_neg hf]
    simp only []
    refine Quiet.trans (b := (if ((removeJob setT s j).job j).inStore then
      { ((removeJob setT s j).setJob j
        { (removeJob setT s j).job j with linked := false, status := .finished, nextRun := none, inStore := false }) with
        store := (((removeJob setT s j).setJob j
        { (removeJob setT s j).job j with linked := false, status := .finished, nextRun := none, inStore := false })).store.filter
          (fun kv => kv.1 ≠ ((removeJob setT s j).job j).key) }
     else ((removeJob setT s j).setJob j
        { (removeJob setT s j).job j with linked := false, status := .finished, nextRun := none, inStore := false }))) ?_
      (runCbs_quiet hP true j _ _)
    apply Quiet.of_eq
    split <;> rfl

theorem updateNext_quiet (s : St) (j : Nat) (hO : PreOK j Pre) (hI : Inv s) (hpre : Pre s) :
    Quiet P s (updateNext setT s j).1 ∧ Pre (updateNext setT s j).1 := by
  have hsn : ∀ (s0 : St) nr, Pre s0 → Pre (setNextRun s0 j nr).1 := fun s0 nr h0 =>
    hO.frame _ _ h0 (setNextRun_queue s0 j nr) (setNextRun_clock s0 j nr).enabled (nr_setNextRun_ne s0 j nr)
  unfold updateNext
  simp only []
  split
  · exact jobFinish_quiet setT hP hQ s j hO hI hpre
  · exact ⟨setNextRun_quiet hP s j none, hsn s none hpre⟩
  · split
    · exact ⟨Quiet.refl P s, hpre⟩
    · have hp1 : ∀ b, Pre (s.setJob j b) := fun b => hO.frame s _ hpre rfl rfl (fun x hx => nr_setJob_ne s j x b hx)
      split
      · exact ⟨Quiet.of_eq rfl, hp1 _⟩
      · split
        · exact ⟨Quiet.of_eq rfl, hp1 _⟩
        · exact ⟨(Quiet.of_eq (s' := s.setJob j _) rfl).trans (setNextRun_quiet hP _ j _), hsn _ _ (hp1 _)⟩

theorem execute_quiet (s : St) (j : Nat) (due : Int) (hO : PreOK j Pre) (hI : Inv s) (hj : j ∉ s.queue) (hdue : due ≤ s.now)
    (hpre : Pre s) (hex : P (Ev.exec j s.now due)) :
    Quiet P s (execute setT s j due) ∧ Pre (execute setT s j due) := by
  unfold execute
  simp only []
  generalize hs0 : (if (s.job j).execFail.contains (s.job j).execs = true then
      (((s.emit (Ev.exec j s.now due)).setJob j { s.job j with execs := (s.job j).execs + 1, lastRun := some s.now })).emit (Ev.exc "CallableError")
    else ((s.emit (Ev.exec j s.now due)).setJob j { s.job j with execs := (s.job j).execs + 1, lastRun := some s.now })) = s0
  have hb : JobOK ({ s.job j with execs := (s.job j).execs + 1, lastRun := some s.now } : Job) := hI.st j
  have hA : Inv ((s.emit (Ev.exec j s.now due)).setJob j { s.job j with execs := (s.job j).execs + 1, lastRun := some s.now }) :=
    (InvEx_setJob _ ((Inv_emit _ hI (by simpa [evOK] using hdue)).toEx j) hb).toInv hj
  have h0 : Quiet P s s0 ∧ Pre s0 ∧ Inv s0 := by
    subst hs0
    split
    · refine ⟨⟨[Ev.exc "CallableError", Ev.exec j s.now due], rfl, ?_⟩,
        hO.frame s _ hpre rfl rfl (fun x hx => by simp [St.nr, St.emit, St.setJob, hx]), Inv_emit _ hA (by simp [evOK])⟩
      intro e he
      simp at he
      rcases he with rfl | rfl
      · exact hP _ trivial
      · exact hex
    · refine ⟨⟨[Ev.exec j s.now due], rfl, ?_⟩,
        hO.frame s _ hpre rfl rfl (fun x hx => by simp [St.nr, St.emit, St.setJob, hx]), hA⟩
      intro e he
      simp at he
      subst he; exact hex
  obtain ⟨q0, p0, i0⟩ := h0
  obtain ⟨q1, p1⟩ := updateNext_quiet setT hP hQ s0 j hO i0 p0
  split
  · next s' heq =>
    have : s' = (updateNext setT s0 j).1 := by rw [heq]
    subst this
    exact ⟨q0.trans q1, p1⟩
  · next s' e heq =>
    have : s' = (updateNext setT s0 j).1 := by rw [heq]
    subst this
    have q2 : Quiet P (updateNext setT s0 j).1 ((updateNext setT s0 j).1.emit (Ev.exc e.name)) :=
      Quiet.emit _ _ (hP _ trivial)
    have p2 : Pre ((updateNext setT s0 j).1.emit (Ev.exc e.name)) := hO.frame _ _ p1 rfl rfl (fun _ _ => rfl)
    split
    · exact ⟨((q0.trans q1).trans q2).trans (setNextRun_quiet hP _ j none),
        hO.frame _ _ p2 (setNextRun_queue _ j none) (setNextRun_clock _ j none).enabled (nr_setNextRun_ne _ j none)⟩
    · exact ⟨(q0.trans q1).trans q2, p2⟩

end withTimer


/-- the job an operation may put into the queue -/
def Op.adds : Op → Option Nat
  | .create j _ _ _ _ _ | .resume j | .reset j => some j
  | _ => none

def Op.isLoopOp : Op → Bool
  | .enable _ | .yield | .sleep _ => true
  | _ => false

section ops
variable {P : Ev → Prop} {Pre : St → Prop}
variable (hP : ∀ e, notExec e → P e) (hQ : TimerFnQ P Pre (setTimer OPFUEL))
include hP hQ

theorem updateJob_quiet (s : St) (j : Nat) (hO : PreOK j Pre) (h : InvEx j s) (hpre : Pre s)
    (hIns : ∀ s, Pre s → Pre { s with queue := insort s.nr j s.queue }) :
    Quiet P s (addJob (setTimer OPFUEL) (removeJob (setTimer OPFUEL) s j) j) ∧
    Pre (addJob (setTimer OPFUEL) (removeJob (setTimer OPFUEL) s j) j) := by
  have hT := hQ.base.base
  have h1 : Inv (removeJob (setTimer OPFUEL) s j) := Inv_removeJob _ hT j h.q h.st h.log
  have hj : j ∉ (removeJob (setTimer OPFUEL) s j).queue := removeJob_notin _ hT j h.q h.nodup h.st h.log
  obtain ⟨q1, p1⟩ := removeJob_quiet _ hP hQ s j hO ⟨h.q, h.st, h.log⟩ hpre
  obtain ⟨q2, p2⟩ := addJob_quiet _ hP hQ _ j h1 hj p1 (fun _ => hIns _ p1)
  exact ⟨q1.trans q2, p2⟩

theorem linkJob_quiet (s : St) (j : Nat) (hO : PreOK j Pre) (h : Inv s) (hj : j ∉ s.queue) (hpre : Pre s)
    (hIns : ∀ s, Pre s → Pre { s with queue := insort s.nr j s.queue }) :
    Quiet P s (linkJob s j).1 ∧ Pre (linkJob s j).1 := by
  have hT := hQ.base.base
  have hfirst : ∀ r : R, (Inv r.1 ∧ j ∉ r.1.queue ∧ Quiet P s r.1 ∧ Pre r.1) →
      (Quiet P s (match r with
        | (s', none) => (addJob (setTimer OPFUEL) s' j, none)
        | (s', some e) => ((jobFinish (setTimer OPFUEL) s' j).1, some e)).1 ∧
       Pre (match r with
        | (s', none) => (addJob (setTimer OPFUEL) s' j, none)
        | (s', some e) => ((jobFinish (setTimer OPFUEL) s' j).1, some e)).1) := by
    intro r hr
    obtain ⟨s', e⟩ := r
    cases e with
    | none =>
      obtain ⟨q, p⟩ := addJob_quiet _ hP hQ s' j hr.1 hr.2.1 hr.2.2.2 (fun _ => hIns _ hr.2.2.2)
      exact ⟨hr.2.2.1.trans q, p⟩
    | some e =>
      obtain ⟨q, p⟩ := jobFinish_quiet _ hP hQ s' j hO hr.1 hr.2.2.2
      exact ⟨hr.2.2.1.trans q, p⟩
  unfold linkJob
  simp only []
  apply hfirst
  split
  · next t _ =>
    have hq : j ∉ (setNextRun s j (some t)).1.queue := by rw [setNextRun_queue]; exact hj
    exact ⟨Inv_setNextRun j _ h hj, hq, setNextRun_quiet hP s j _,
      hO.frame _ _ hpre (setNextRun_queue s j _) (setNextRun_clock s j _).enabled (nr_setNextRun_ne s j _)⟩
  · obtain ⟨u1, u2⟩ := updateNext_spec (setTimer OPFUEL) hT j h
    have hju : j ∉ (updateNext (setTimer OPFUEL) s j).1.queue := fun hm => hj (u2 j hm)
    obtain ⟨q, p⟩ := updateNext_quiet _ hP hQ s j hO h hpre
    exact ⟨u1.toInv hju, hju, q, p⟩

theorem createJob_quiet (s : St) (j : Nat) (hO : PreOK j Pre) (key : Option Nat) (spec : JobSpec) (ef tf : List Nat) (tff : Nat)
    (h : Inv s) (hpre : Pre s) (hIns : ∀ s, Pre s → Pre { s with queue := insort s.nr j s.queue }) :
    Quiet P s (createJob s j key spec ef tf tff).1 ∧ Pre (createJob s j key spec ef tf tff).1 := by
  unfold createJob
  split
  · exact ⟨Quiet.refl P s, hpre⟩
  · rename_i hcr
    have hcr' : (s.job j).status = .created := by simpa using hcr
    have hjq : j ∉ s.queue := by
      intro hm
      have := h.q.run j hm
      rw [show (s.jobs j).status = (s.job j).status from rfl, hcr'] at this
      cases this
    split
    · exact ⟨Quiet.refl P s, hpre⟩
    · split
      · exact ⟨Quiet.refl P s, hpre⟩
      · have hs : Inv (storeAdd s key j) ∧ (storeAdd s key j).queue = s.queue ∧
            (storeAdd s key j).enabled = s.enabled ∧ (storeAdd s key j).log = s.log ∧
            (storeAdd s key j).jobs = s.jobs := by
          unfold storeAdd
          split
          · exact ⟨⟨h.q, h.st, h.log⟩, rfl, rfl, rfl, rfl⟩
          · exact ⟨h, rfl, rfl, rfl, rfl⟩
        have hjq' : j ∉ (storeAdd s key j).queue := by rw [hs.2.1]; exact hjq
        have hI1 : Inv ((storeAdd s key j).setJob j (newJob key spec ef tf tff)) := by
          apply Inv_setJob_notin _ _ hs.1 hjq'
          simp [newJob, JobOK]
        have hp1 : Pre ((storeAdd s key j).setJob j (newJob key spec ef tf tff)) :=
          hO.frame s _ hpre hs.2.1 hs.2.2.1 (fun x hx => by simp [St.nr, St.setJob, hx, hs.2.2.2.2])
        obtain ⟨q, p⟩ := linkJob_quiet hP hQ _ j hO hI1 hjq' hp1 hIns
        exact ⟨(Quiet.of_eq (s' := (storeAdd s key j).setJob j (newJob key spec ef tf tff)) hs.2.2.2.1).trans q, p⟩

/-- every operation that does not run the loop itself -/
theorem ops_quiet (s : St) (op : Op) (hO : ∀ j, PreOK j Pre) (h : Inv s) (hpre : Pre s) (hl : op.isLoopOp = false)
    (hIns : ∀ j, op.adds = some j → ∀ s, Pre s → Pre { s with queue := insort s.nr j s.queue }) :
    Quiet P s (step s op).1 ∧ Pre (step s op).1 := by
  have hT2 := hQ.base
  have hT := hT2.base
  have pauseLike : ∀ j, Quiet P s (setNextRun (removeJob (setTimer OPFUEL) s j) j none).1 ∧
      Pre (setNextRun (removeJob (setTimer OPFUEL) s j) j none).1 := by
    intro j
    obtain ⟨q1, p1⟩ := removeJob_quiet _ hP hQ s j (hO j) (Inv_erased j h) hpre
    exact ⟨q1.trans (setNextRun_quiet hP _ j none),
      (hO j).frame _ _ p1 (setNextRun_queue _ j none) (setNextRun_clock _ j none).enabled (nr_setNextRun_ne _ j none)⟩
  have same : ∀ (j : Nat) (b : Job), Quiet P s (s.setJob j b) ∧ Pre (s.setJob j b) :=
    fun j b => ⟨Quiet.of_eq rfl, (hO j).frame s _ hpre rfl rfl (fun x hx => nr_setJob_ne s j x b hx)⟩
  have same' : ∀ s' : St, s'.queue = s.queue → s'.enabled = s.enabled → s'.log = s.log → s'.jobs = s.jobs →
      Quiet P s s' ∧ Pre s' :=
    fun s' hq he hlg hj => ⟨Quiet.of_eq hlg, (hO 0).frame s s' hpre hq he (fun x _ => by unfold St.nr; rw [hj])⟩
  unfold step
  simp only []
  cases op with
  | create j key spec ef tf tff => exact createJob_quiet hP hQ s j (hO j) key spec ef tf tff h hpre (hIns j rfl)
  | cancel j => exact jobFinish_quiet _ hP hQ s j (hO j) h hpre
  | pause j =>
    simp only []
    split
    · exact ⟨Quiet.refl P s, hpre⟩
    · split
      · exact ⟨Quiet.refl P s, hpre⟩
      · exact pauseLike j
  | stop j =>
    simp only []
    split
    · exact ⟨Quiet.refl P s, hpre⟩
    · split
      · exact ⟨Quiet.refl P s, hpre⟩
      · exact pauseLike j
  | resume j =>
    simp only []
    split
    · exact ⟨Quiet.refl P s, hpre⟩
    · split
      · exact ⟨Quiet.refl P s, hpre⟩
      · obtain ⟨u1, _⟩ := updateNext_spec (setTimer OPFUEL) hT j h
        obtain ⟨q1, p1⟩ := updateNext_quiet _ hP hQ s j (hO j) h hpre
        split
        · rename_i s' e heq
          have : s' = (updateNext (setTimer OPFUEL) s j).1 := by rw [heq]
          subst this
          exact ⟨q1, p1⟩
        · rename_i s' heq
          have : s' = (updateNext (setTimer OPFUEL) s j).1 := by rw [heq]
          subst this
          obtain ⟨q2, p2⟩ := updateJob_quiet hP hQ _ j (hO j) u1 p1 (hIns j rfl)
          exact ⟨q1.trans q2, p2⟩
  | reset j =>
    simp only []
    split
    · exact ⟨Quiet.refl P s, hpre⟩
    · split
      · exact ⟨Quiet.refl P s, hpre⟩
      · have q1 := setNextRun_quiet hP s j (some (s.now + (s.job j).secs))
        have p1 : Pre (setNextRun s j (some (s.now + (s.job j).secs))).1 :=
          (hO j).frame _ _ hpre (setNextRun_queue s j _) (setNextRun_clock s j _).enabled (nr_setNextRun_ne s j _)
        split
        · rename_i s' e heq
          have : s' = (setNextRun s j (some (s.now + (s.job j).secs))).1 := by rw [heq]
          subst this
          exact ⟨q1, p1⟩
        · rename_i s' heq
          have : s' = (setNextRun s j (some (s.now + (s.job j).secs))).1 := by rw [heq]
          subst this
          obtain ⟨q2, p2⟩ := updateJob_quiet hP hQ _ j (hO j) (InvEx_setNextRun _ (h.toEx j)) p1 (hIns j rfl)
          exact ⟨q1.trans q2, p2⟩
  | setCountdown j secs =>
    simp only []
    split
    · exact ⟨Quiet.refl P s, hpre⟩
    · split
      · exact ⟨Quiet.refl P s, hpre⟩
      · split
        · exact ⟨Quiet.refl P s, hpre⟩
        · exact same j _
  | cbReg fin j c =>
    simp only []
    split
    · split
      · exact ⟨Quiet.refl P s, hpre⟩
      · exact same j _
    · split
      · exact ⟨Quiet.refl P s, hpre⟩
      · exact same j _
  | cbRem fin j c =>
    simp only []
    split
    · exact same j _
    · exact same j _
  | cbFails c => exact same' _ rfl rfl rfl rfl
  | advance d => exact same' _ rfl rfl rfl rfl
  | enable e => simp [Op.isLoopOp] at hl
  | yield => simp [Op.isLoopOp] at hl
  | sleep d => simp [Op.isLoopOp] at hl

end ops


/-! ## a disabled scheduler executes nothing -/

def Disabled (s : St) : Prop := s.enabled = false

theorem preOK_disabled (j : Nat) : PreOK j Disabled :=
  ⟨fun s s' h _ he _ => by unfold Disabled at *; rw [he]; exact h, fun _ h => h⟩

theorem notExec_self : ∀ e, notExec e → notExec e := fun _ h => h

theorem timerFnQ_disabled (f : Nat) : TimerFnQ notExec Disabled (setTimer f) := by
  refine ⟨timerFn2_setTimer f, ?_⟩
  intro s _ hd
  have hd' : s.enabled = false := hd
  unfold setTimer
  simp only []
  split
  · exact ⟨Quiet.of_eq rfl, hd⟩
  · rw [if_pos (by simp [hd'])]
    exact ⟨Quiet.of_eq rfl, hd⟩

theorem timer_none_of_disabled {s : St} (hk : TimerOK s) (hd : s.enabled = false) : s.timer = none := by
  unfold TimerOK at hk
  cases hq : s.queue with
  | nil => rw [hq] at hk; exact hk
  | cons a rest => rw [hq] at hk; simp only [hd] at hk; exact hk

theorem sleepLoop_idle (n : Nat) (target : Int) (s : St) (ht : s.timer = none) :
    Quiet notExec s (sleepLoop n target s) ∧ (sleepLoop n target s).enabled = s.enabled ∧
    (sleepLoop n target s).queue = s.queue := by
  cases n with
  | zero => exact ⟨Quiet.emit s _ trivial, rfl, rfl⟩
  | succ n =>
    unfold sleepLoop
    split
    · next t h => rw [ht] at h; cases h
    · exact ⟨Quiet.of_eq rfl, rfl, rfl⟩

/-- while the scheduler is disabled no operation other than `enable(true)` executes anything -/
theorem step_quiet_disabled (s : St) (op : Op) (hI : Inv s) (hg : Good s) (hd : s.enabled = false)
    (hop : op ≠ .enable true) :
    HasFatal s ∨ (Quiet notExec s (step s op).1 ∧ (step s op).1.enabled = false) := by
  rcases hg with hf | hk
  · exact Or.inl hf
  · right
    have htn := timer_none_of_disabled hk hd
    by_cases hl : op.isLoopOp = false
    · exact ops_quiet notExec_self (timerFnQ_disabled OPFUEL) s op preOK_disabled hI hd hl
        (fun _ _ _ h => h)
    · cases op with
      | enable e =>
        have he : e = s.enabled := by
          rw [hd]
          cases e with
          | false => rfl
          | true => exact absurd rfl hop
        unfold step
        simp only []
        rw [if_pos he]
        exact ⟨Quiet.refl _ s, hd⟩
      | yield =>
        have : (step s .yield).1 = s := by
          show fireDue s = s
          unfold fireDue
          rw [htn]
        rw [this]
        exact ⟨Quiet.refl _ s, hd⟩
      | sleep d =>
        obtain ⟨q, e, _⟩ := sleepLoop_idle SLEEPFUEL (s.now + d) s htn
        exact ⟨q, by rw [show (step s (.sleep d)).1 = sleepLoop SLEEPFUEL (s.now + d) s from rfl, e]; exact hd⟩
      | _ => simp [Op.isLoopOp] at hl

/-! ## a job that is not queued is not executed -/

def NotQueued (i : Nat) (s : St) : Prop := i ∉ s.queue

theorem preOK_notQueued (i j : Nat) : PreOK j (NotQueued i) :=
  ⟨fun s s' h hq _ _ => by unfold NotQueued at *; rw [hq]; exact h,
   fun s h hm => h (List.mem_of_mem_erase hm)⟩

theorem notExecOf_of_notExec (i : Nat) : ∀ e, notExec e → notExecOf i e := by
  intro e h
  cases e <;> first | exact absurd h id | trivial

theorem notQueued_insort {i j : Nat} (hne : j ≠ i) (s : St) (h : NotQueued i s) :
    NotQueued i { s with queue := insort s.nr j s.queue } := by
  intro hm
  have hm' : i ∈ insort s.nr j s.queue := hm
  rcases (insort_mem _ j s.queue i).1 hm' with e | e
  · exact hne e.symm
  · exact h e

def QSpec (i : Nat) (f : Nat) : Prop := ∀ s, Inv s → i ∉ s.queue → Quiet (notExecOf i) s (runLoop f s)

theorem setTimer_quiet_nq (i : Nat) (fuel : Nat) (hrun : ∀ f, f < fuel → QSpec i f) :
    ∀ s, Inv s → NotQueued i s → Quiet (notExecOf i) s (setTimer fuel s) ∧ NotQueued i (setTimer fuel s) := by
  intro s hI hnq
  refine ⟨?_, fun hm => hnq ((setTimer_spec fuel s hI).2 i hm)⟩
  unfold setTimer
  simp only []
  split
  · exact Quiet.of_eq rfl
  · split
    · exact Quiet.of_eq rfl
    · split
      · exact (Quiet.of_eq (s' := { s with timer := none }) rfl).trans (Quiet.emit _ _ trivial)
      · split
        · split
          · exact (Quiet.of_eq (s' := { s with timer := none }) rfl).trans (Quiet.emit _ _ trivial)
          · next f =>
            exact (Quiet.of_eq (s' := { s with timer := none }) rfl).trans
              (hrun f (by omega) _ (Inv_timer_none hI) hnq)
        · exact Quiet.of_eq rfl

theorem qSpec (i : Nat) (fuel : Nat) : QSpec i fuel := by
  induction fuel using Nat.strongRecOn with
  | _ fuel ih =>
    intro s h hnq
    have hst : ∀ f, f ≤ fuel → TimerFnQ (notExecOf i) (NotQueued i) (setTimer f) :=
      fun f hf => ⟨timerFn2_setTimer f, setTimer_quiet_nq i f (fun f' hf' => ih f' (by omega))⟩
    unfold runLoop
    split
    · exact Quiet.refl _ s
    · next hd rest hq =>
      split
      · exact (Quiet.emit s _ trivial).trans (Quiet.emit _ _ trivial)
      · next nr hnr =>
        split
        · exact ((hst fuel (Nat.le_refl _)).quiet s h hnq).1
        · next hle =>
          split
          · exact Quiet.emit s _ trivial
          · next f =>
            have hQ := hst f (by omega)
            have hT2 := hQ.base
            have hT := hT2.base
            have hnd : hd ∉ rest := by
              have := h.q.nodup; rw [hq] at this; exact (List.nodup_cons.1 this).1
            have hne : hd ≠ i := by
              intro e; subst e; exact hnq (by rw [hq]; simp)
            have h1 : Inv { s with queue := rest } := by
              refine ⟨⟨?_, ?_, ?_⟩, h.st, h.log⟩
              · intro i hi; exact h.q.run i (by rw [hq]; simp [hi])
              · have := h.q.nodup; rw [hq] at this; exact (List.nodup_cons.1 this).2
              · have := h.q.sorted; rw [hq] at this; exact (List.pairwise_cons.1 this).2
            have hp1 : NotQueued i { s with queue := rest } := fun hm => hnq (by rw [hq]; exact List.mem_cons_of_mem _ hm)
            have hdue : nr ≤ ({ s with queue := rest } : St).now := by
              show nr ≤ s.now
              omega
            obtain ⟨e1, e2⟩ := execute_spec (setTimer f) hT hd nr h1 (by simpa using hnd) hdue
            have hd2 : hd ∉ (execute (setTimer f) { s with queue := rest } hd nr).queue :=
              fun hm => hnd (e2 hd hm)
            obtain ⟨q1, p1⟩ := execute_quiet (setTimer f) (notExecOf_of_notExec i) hQ
              { s with queue := rest } hd nr (preOK_notQueued i hd) h1 (by simpa using hnd) hdue hp1 hne
            have a1 := Inv_addJob (setTimer f) hT hd e1 hd2
            obtain ⟨q2, p2⟩ := addJob_quiet (setTimer f) (notExecOf_of_notExec i) hQ
              _ hd e1 hd2 p1 (fun _ => notQueued_insort hne _ p1)
            have q3 := ih f (by omega) _ a1 p2
            exact ((Quiet.of_eq (s' := { s with queue := rest }) rfl).trans q1).trans (q2.trans q3)

theorem timerFnQ_notQueued (i f : Nat) : TimerFnQ (notExecOf i) (NotQueued i) (setTimer f) :=
  ⟨timerFn2_setTimer f, setTimer_quiet_nq i f (fun f' _ => qSpec i f')⟩

theorem runJobs_quiet_nq (i f : Nat) {s : St} (hI : Inv s) (hnq : i ∉ s.queue) :
    Quiet (notExecOf i) s (runJobs f s) ∧ i ∉ (runJobs f s).queue := by
  unfold runJobs
  exact ⟨(Quiet.of_eq (s' := { s with timer := none }) rfl).trans (qSpec i f _ (Inv_timer_none hI) hnq),
    fun hm => hnq ((runLoop_spec f _ (Inv_timer_none hI)).2 i hm)⟩

theorem sleepLoop_quiet_nq (i n : Nat) (target : Int) {s : St} (hI : Inv s) (hnq : i ∉ s.queue) :
    Quiet (notExecOf i) s (sleepLoop n target s) ∧ i ∉ (sleepLoop n target s).queue := by
  induction n generalizing s with
  | zero => exact ⟨Quiet.emit s _ trivial, hnq⟩
  | succ n ih =>
    unfold sleepLoop
    split
    · next t ht =>
      split
      · have hI1 : Inv { s with now := if t > s.now then t else s.now } := ⟨hI.q, hI.st, hI.log⟩
        obtain ⟨q1, p1⟩ := runJobs_quiet_nq i OPFUEL hI1 hnq
        obtain ⟨q2, p2⟩ := ih (runJobs_inv OPFUEL hI1) p1
        exact ⟨((Quiet.of_eq (s' := { s with now := if t > s.now then t else s.now }) rfl).trans q1).trans q2, p2⟩
      · exact ⟨Quiet.of_eq rfl, hnq⟩
    · exact ⟨Quiet.of_eq rfl, hnq⟩

/-- a job that is not queued (paused, stopped, finished, cancelled, not yet created) is not executed and not
queued by any operation other than its own creation, `resume` or `reset` -/
theorem step_quiet_notQueued (s : St) (op : Op) (i : Nat) (hI : Inv s) (hnq : i ∉ s.queue)
    (hadds : op.adds ≠ some i) :
    Quiet (notExecOf i) s (step s op).1 ∧ i ∉ (step s op).1.queue := by
  by_cases hl : op.isLoopOp = false
  · exact ops_quiet (notExecOf_of_notExec i) (timerFnQ_notQueued i OPFUEL) s op (preOK_notQueued i) hI hnq hl
      (fun j hj => notQueued_insort (by intro e; subst e; exact hadds hj))
  · cases op with
    | enable e =>
      unfold step
      simp only []
      split
      · exact ⟨Quiet.refl _ s, hnq⟩
      · have hI' : Inv { s with enabled := e } := ⟨hI.q, hI.st, hI.log⟩
        obtain ⟨q, p⟩ := setTimer_quiet_nq i OPFUEL (fun f _ => qSpec i f) { s with enabled := e } hI' hnq
        exact ⟨(Quiet.of_eq (s' := { s with enabled := e }) rfl).trans q, p⟩
    | yield =>
      show Quiet (notExecOf i) s (fireDue s) ∧ i ∉ (fireDue s).queue
      unfold fireDue
      split
      · split
        · exact runJobs_quiet_nq i OPFUEL hI hnq
        · exact ⟨Quiet.refl _ s, hnq⟩
      · exact ⟨Quiet.refl _ s, hnq⟩
    | sleep d => exact sleepLoop_quiet_nq i SLEEPFUEL (s.now + d) hI hnq
    | _ => simp [Op.isLoopOp] at hl

end Ea
