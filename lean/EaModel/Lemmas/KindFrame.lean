import EaModel.Tasks
/-!
# No operation changes which manager a state belongs to
-/
namespace Ea

theorem kind_cancelTask (s : TSt) (t : Nat) : (s.cancelTask t).kind = s.kind := by
  unfold TSt.cancelTask
  simp only []
  split
  · rfl
  · rfl
  · split <;> rfl

theorem kind_finishTask (s : TSt) (t : Nat) : (finishTask s t).kind = s.kind := rfl

theorem kind_clearCur (s : TSt) (done : Option Nat) : (clearCur s done).kind = s.kind := by
  unfold clearCur; split <;> rfl

theorem kind_seqTaskDone (s : TSt) (done : Option Nat) : (seqTaskDone s done).kind = s.kind := by
  unfold seqTaskDone
  split
  · exact kind_clearCur s done
  · exact kind_clearCur s done

theorem kind_seqTaskStart (s : TSt) : (seqTaskStart s).kind = s.kind := by
  unfold seqTaskStart; split
  · rfl
  · exact kind_seqTaskDone s none

theorem kind_submitCore (s : TSt) (c key : Nat) : (submitCore s c key).kind = s.kind := by
  have st : ∀ (y : TSt), y.kind = s.kind → (seqTaskStart y).kind = s.kind := fun y h => (kind_seqTaskStart y).trans h
  unfold submitCore
  split
  · exact st _ rfl
  · split
    · split
      · rfl
      · split
        · exact st _ rfl
        · exact st _ rfl
      · split
        · exact st _ rfl
        · exact st _ rfl
    · exact st _ rfl
  · split
    · exact st _ rfl
    · exact st _ rfl
  · rfl
  · split
    · split
      · rfl
      · split
        · rfl
        · next t0 rest ht =>
          show ((({ s with tracked := rest } : TSt).cancelTask t0).createTask c).1.kind = s.kind
          exact (kind_cancelTask _ t0)
      · split
        · rfl
        · next t0 ht =>
          show ((({ s with tracked := s.tracked.dropLast } : TSt).cancelTask t0).createTask c).1.kind = s.kind
          exact (kind_cancelTask _ t0)
    · rfl

theorem kind_submit (s : TSt) (c key : Nat) : (submit s c key).kind = s.kind := kind_submitCore _ c key

theorem kind_submitAll : ∀ (subs : List (Nat × Nat)) (s : TSt), (submitAll s subs).kind = s.kind
  | [], _ => rfl
  | (c, k) :: rest, s => by unfold submitAll; exact (kind_submitAll rest _).trans (kind_submit s c k)

theorem kind_managerDone (s : TSt) (t : Nat) : (managerDone s t).kind = s.kind := by
  unfold managerDone
  simp only []
  split
  · exact kind_seqTaskDone _ _
  · exact kind_seqTaskDone _ _
  · exact kind_seqTaskDone _ _
  · rfl
  · rfl

theorem kind_runReady (s : TSt) (r : Ready) : (runReady s r).kind = s.kind := by
  cases r with
  | step t =>
    simp only [runReady]
    split
    · rfl
    · split <;> rfl
  | resume t fail last =>
    simp only [runReady]
    split
    · rfl
    · show (finishTask _ t).kind = s.kind
      rw [kind_finishTask]
      show (if last.listener.isEmpty then submitAll s last.inside
            else { submitAll s last.inside with ready := (submitAll s last.inside).ready ++ [.listener last.listener] }).kind = s.kind
      split
      · exact kind_submitAll _ _
      · exact kind_submitAll _ _
  | resumeCancel t =>
    simp only [runReady]
    split <;> rfl
  | doneCb t => exact kind_managerDone s t
  | listener subs => exact kind_submitAll subs s

theorem kind_drain : ∀ (n : Nat) (s : TSt), (drain n s).kind = s.kind
  | 0, _ => rfl
  | n + 1, s => by
    unfold drain
    split
    · rfl
    · exact (kind_drain n _).trans (kind_runReady _ _)

theorem kind_tstep (s : TSt) (op : TOp) : (tstep s op).kind = s.kind := by
  unfold tstep
  rw [kind_drain]
  cases op with
  | submit c k => exact kind_submit s c k
  | complete t fail last => simp only [applyOp]; split <;> rfl
  | cancel t => exact kind_cancelTask s t

theorem kind_run (ops : List TOp) : ∀ (s : TSt), (ops.foldl tstep s).kind = s.kind := by
  induction ops with
  | nil => intro s; rfl
  | cons op ops ih => intro s; exact (ih _).trans (kind_tstep s op)

end Ea
