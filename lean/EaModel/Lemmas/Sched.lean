import EaModel.Sched
/-!
# Helper lemmas for the scheduler model: `insort`, frame facts, the queue invariant
-/
namespace Ea

/-! ## insort -/

def leNR (nr : Nat → Option Int) (a b : Nat) : Prop := ¬ (ltNR (nr b) (nr a) = true)

theorem ltNR_some (x y : Int) : ltNR (some x) (some y) = decide (x < y) := by
  simp [ltNR]

theorem insort_mem (nr) (x : Nat) (q : List Nat) (y : Nat) :
    y ∈ insort nr x q ↔ y = x ∨ y ∈ q := by
  induction q with
  | nil => simp [insort]
  | cons e es ih =>
    unfold insort
    split
    · simp
    · simp [ih]; grind

theorem insort_perm (nr) (x : Nat) (q : List Nat) : (insort nr x q).Perm (x :: q) := by
  induction q with
  | nil => simp [insort]
  | cons e es ih =>
    unfold insort
    split
    · exact List.Perm.refl _
    · exact (List.Perm.cons e ih).trans (List.Perm.swap x e es)

theorem insort_sorted (nr : Nat → Option Int) (x : Nat) (q : List Nat)
    (hx : ∃ t, nr x = some t) (hq : ∀ i ∈ q, ∃ t, nr i = some t)
    (hs : q.Pairwise (leNR nr)) : (insort nr x q).Pairwise (leNR nr) := by
  induction q with
  | nil => simp [insort]
  | cons e es ih =>
    obtain ⟨tx, htx⟩ := hx
    obtain ⟨te, hte⟩ := hq e (by simp)
    have hes : ∀ i ∈ es, ∃ t, nr i = some t := fun i hi => hq i (by simp [hi])
    rw [List.pairwise_cons] at hs
    unfold insort
    split
    · rename_i hlt
      rw [List.pairwise_cons]
      refine ⟨?_, List.pairwise_cons.2 hs⟩
      intro y hy
      rw [htx, hte, ltNR_some] at hlt
      have hlt' : tx < te := by simpa using hlt
      rcases List.mem_cons.1 hy with rfl | hy
      · unfold leNR; rw [htx, hte, ltNR_some]; simp; omega
      · obtain ⟨ty, hty⟩ := hes y hy
        have := hs.1 y hy
        unfold leNR at this ⊢
        rw [hty, hte, ltNR_some] at this
        rw [hty, htx, ltNR_some]
        simp at this ⊢; omega
    · rename_i hlt
      rw [List.pairwise_cons]
      refine ⟨?_, ih hes hs.2⟩
      intro y hy
      rw [insort_mem] at hy
      rcases hy with rfl | hy
      · exact hlt
      · exact hs.1 y hy

end Ea

namespace Ea

/-! ## The queue / status / log invariant -/

structure QInvQ (q : List Nat) (jobs : Nat → Job) : Prop where
  run : ∀ i ∈ q, (jobs i).status = .running
  nodup : q.Nodup
  sorted : q.Pairwise (leNR (fun i => (jobs i).nextRun))

/-- a job record is consistent: running exactly when a next-run time is set; a finished job is unlinked -/
def JobOK (b : Job) : Prop :=
  (b.status = .running ↔ ∃ t, b.nextRun = some t) ∧ (b.status = .finished → b.linked = false)

def StatusNR (jobs : Nat → Job) : Prop := ∀ j, JobOK (jobs j)

theorem StatusNR.run {jobs : Nat → Job} (h : StatusNR jobs) (j : Nat) :
    (jobs j).status = .running ↔ ∃ t, (jobs j).nextRun = some t := (h j).1

def evOK : Ev → Prop
  | .exec _ t due => due ≤ t
  | _ => True

def LogOK (log : List Ev) : Prop := ∀ e ∈ log, evOK e

structure Inv (s : St) : Prop where
  q : QInvQ s.queue s.jobs
  st : StatusNR s.jobs
  log : LogOK s.log

theorem LogOK_cons {e : Ev} {l : List Ev} (he : evOK e) (hl : LogOK l) : LogOK (e :: l) := by
  intro x hx
  rcases List.mem_cons.1 hx with rfl | hx
  · exact he
  · exact hl x hx

/-! ### frame facts of `runCbs` -/

theorem runCbs_frame (fin : Bool) (j : Nat) (cs : List Nat) (s : St) :
    (runCbs fin j cs s).queue = s.queue ∧ (runCbs fin j cs s).jobs = s.jobs ∧
    (runCbs fin j cs s).timer = s.timer ∧ (runCbs fin j cs s).now = s.now ∧
    (runCbs fin j cs s).enabled = s.enabled ∧ (runCbs fin j cs s).store = s.store ∧
    (LogOK s.log → LogOK (runCbs fin j cs s).log) := by
  induction cs generalizing s with
  | nil => simp [runCbs]
  | cons c cs ih =>
    unfold runCbs
    simp only []
    split
    · obtain ⟨h1, h2, h3, h4, h5, h6, h7⟩ := ih (((s.emit (.cb fin c j (s.job j).status (s.job j).nextRun s.now))).emit (.exc "CallbackError"))
      refine ⟨by rw [h1]; rfl, by rw [h2]; rfl, by rw [h3]; rfl, by rw [h4]; rfl, by rw [h5]; rfl, by rw [h6]; rfl, ?_⟩
      intro hl
      exact h7 (LogOK_cons (by simp [evOK]) (LogOK_cons (by simp [evOK]) hl))
    · obtain ⟨h1, h2, h3, h4, h5, h6, h7⟩ := ih (s.emit (.cb fin c j (s.job j).status (s.job j).nextRun s.now))
      refine ⟨by rw [h1]; rfl, by rw [h2]; rfl, by rw [h3]; rfl, by rw [h4]; rfl, by rw [h5]; rfl, by rw [h6]; rfl, ?_⟩
      intro hl
      exact h7 (LogOK_cons (by simp [evOK]) hl)

theorem Inv_runCbs {s : St} (fin : Bool) (j : Nat) (cs : List Nat) (h : Inv s) : Inv (runCbs fin j cs s) := by
  obtain ⟨h1, h2, _, _, _, _, h7⟩ := runCbs_frame fin j cs s
  exact ⟨by rw [h1, h2]; exact h.q, by rw [h2]; exact h.st, h7 h.log⟩

/-- updating a job that is not queued keeps the queue invariant -/
theorem QInvQ_setJob_notin {q : List Nat} {jobs : Nat → Job} (j : Nat) (b : Job)
    (h : QInvQ q jobs) (hj : j ∉ q) : QInvQ q (fun i => if i = j then b else jobs i) := by
  have key : ∀ i ∈ q, (if i = j then b else jobs i) = jobs i := by
    intro i hi
    split
    · next e => subst e; exact absurd hi hj
    · rfl
  refine ⟨?_, h.nodup, ?_⟩
  · intro i hi
    show (if i = j then b else jobs i).status = .running
    rw [key i hi]; exact h.run i hi
  · refine h.sorted.imp_of_mem ?_
    intro a b' ha hb hab
    simp only [leNR] at *
    rw [key a ha, key b' hb]; exact hab

/-- removing a job from the queue keeps the invariant, whatever happens to that job's fields -/
theorem QInvQ_erase {q : List Nat} {jobs : Nat → Job} (j : Nat) (b : Job)
    (h : QInvQ q jobs) : QInvQ (q.erase j) (fun i => if i = j then b else jobs i) := by
  have hnd : (q.erase j).Nodup := h.nodup.erase j
  have hj : j ∉ q.erase j := by
    intro hm
    exact (List.Nodup.mem_erase_iff h.nodup).1 hm |>.1 rfl
  have base : QInvQ (q.erase j) jobs := by
    refine ⟨?_, hnd, ?_⟩
    · intro i hi; exact h.run i (List.mem_of_mem_erase hi)
    · exact h.sorted.sublist (List.erase_sublist)
  exact QInvQ_setJob_notin j b base hj

theorem StatusNR_set {jobs : Nat → Job} (j : Nat) (b : Job) (h : StatusNR jobs)
    (hb : JobOK b) :
    StatusNR (fun i => if i = j then b else jobs i) := by
  intro i
  show JobOK (if i = j then b else jobs i)
  split
  · exact hb
  · exact h i

end Ea

namespace Ea

/-- what `set_next_run` does: nothing (it raises), or it replaces job `j` by a consistent value and runs callbacks -/
theorem setNextRun_spec (s : St) (j : Nat) (nr : Option Int) :
    ((setNextRun s j nr).1 = s ∧ (setNextRun s j nr).2 = some .runInThePast) ∨
    ((setNextRun s j nr).2 = none ∧
      ∃ b' : Job, JobOK b' ∧ b'.nextRun = nr ∧
        (setNextRun s j nr).1.jobs = (fun i => if i = j then b' else s.jobs i) ∧
        (setNextRun s j nr).1.queue = s.queue ∧ (setNextRun s j nr).1.now = s.now ∧
        (setNextRun s j nr).1.enabled = s.enabled ∧ (setNextRun s j nr).1.timer = s.timer ∧
        (LogOK s.log → LogOK (setNextRun s j nr).1.log)) := by
  unfold setNextRun
  cases nr with
  | none =>
    right
    simp only []
    refine ⟨by first | rfl | trivial, { s.job j with nextRun := none, status := .paused }, by simp [JobOK], rfl, ?_⟩
    obtain ⟨h1, h2, h3, h4, h5, _, h7⟩ := runCbs_frame false j
      ((s.setJob j { s.job j with nextRun := none, status := .paused }).job j).onUpdate
      (s.setJob j { s.job j with nextRun := none, status := .paused })
    exact ⟨by rw [h2]; rfl, by rw [h1]; rfl, by rw [h4]; rfl, by rw [h5]; rfl, by rw [h3]; rfl, h7⟩
  | some t =>
    simp only []
    split
    · left; exact ⟨rfl, rfl⟩
    · right
      refine ⟨by first | rfl | trivial, { s.job j with nextRun := some t, status := .running }, by simp [JobOK], rfl, ?_⟩
      obtain ⟨h1, h2, h3, h4, h5, _, h7⟩ := runCbs_frame false j
        ((s.setJob j { s.job j with nextRun := some t, status := .running }).job j).onUpdate
        (s.setJob j { s.job j with nextRun := some t, status := .running })
      exact ⟨by rw [h2]; rfl, by rw [h1]; rfl, by rw [h4]; rfl, by rw [h5]; rfl, by rw [h3]; rfl, h7⟩

/-- `set_next_run` on a job that is not queued keeps the invariant -/
theorem Inv_setNextRun {s : St} (j : Nat) (nr : Option Int) (h : Inv s) (hj : j ∉ s.queue) :
    Inv (setNextRun s j nr).1 := by
  rcases setNextRun_spec s j nr with ⟨h1, _⟩ | ⟨_, b', hb, _, hjobs, hq, _, _, _, hlog⟩
  · rw [h1]; exact h
  · exact ⟨by rw [hq, hjobs]; exact QInvQ_setJob_notin j b' h.q hj,
           by rw [hjobs]; exact StatusNR_set j b' h.st hb, hlog h.log⟩

theorem setNextRun_queue (s : St) (j : Nat) (nr : Option Int) : (setNextRun s j nr).1.queue = s.queue := by
  rcases setNextRun_spec s j nr with ⟨h1, _⟩ | ⟨_, b', _, _, _, hq, _⟩
  · rw [h1]
  · exact hq

section withTimer
variable (setT : St → St)

/-- the two facts about `_set_timer` the job level functions rely on -/
structure TimerFn (setT : St → St) : Prop where
  inv : ∀ s, Inv s → Inv (setT s)
  sub : ∀ s, Inv s → ∀ i, i ∈ (setT s).queue → i ∈ s.queue

theorem removeJob_cases (s : St) (j : Nat) :
    removeJob setT s j = setT { s with queue := s.queue.erase j } ∨
    removeJob setT s j = { s with queue := s.queue.erase j } := by
  unfold removeJob
  split
  · next hq =>
    left
    have : ({ s with queue := s.queue.erase j } : St) = s := by
      cases s; simp_all
    rw [this]
  · simp only []
    split
    · left; rfl
    · split
      · left; rfl
      · right; rfl

/-- `remove_job` keeps the invariant even if job `j`'s run time was already changed (update_job) -/
theorem Inv_removeJob {s : St} (hT : TimerFn setT) (j : Nat)
    (hq : QInvQ (s.queue.erase j) s.jobs) (hst : StatusNR s.jobs) (hlog : LogOK s.log) :
    Inv (removeJob setT s j) := by
  have base : Inv { s with queue := s.queue.erase j } := ⟨hq, hst, hlog⟩
  rcases removeJob_cases setT s j with h | h <;> rw [h]
  · exact hT.inv _ base
  · exact base

theorem removeJob_sub {s : St} (hT : TimerFn setT) (j i : Nat)
    (hq : QInvQ (s.queue.erase j) s.jobs) (hst : StatusNR s.jobs) (hlog : LogOK s.log)
    (hi : i ∈ (removeJob setT s j).queue) :
    i ∈ s.queue.erase j := by
  have base : Inv { s with queue := s.queue.erase j } := ⟨hq, hst, hlog⟩
  rcases removeJob_cases setT s j with h | h <;> rw [h] at hi
  · exact hT.sub _ base i hi
  · exact hi

theorem QInvQ_erase_self {q : List Nat} {jobs : Nat → Job} (j : Nat) (h : QInvQ q jobs) :
    QInvQ (q.erase j) jobs := by
  refine ⟨?_, h.nodup.erase j, h.sorted.sublist List.erase_sublist⟩
  intro i hi; exact h.run i (List.mem_of_mem_erase hi)

theorem not_mem_erase_self {q : List Nat} (j : Nat) (h : q.Nodup) : j ∉ q.erase j := by
  intro hm
  exact (List.Nodup.mem_erase_iff h).1 hm |>.1 rfl

/-- `add_job` of a job that is not queued -/
theorem Inv_addJob {s : St} (hT : TimerFn setT) (j : Nat) (h : Inv s) (hj : j ∉ s.queue) :
    Inv (addJob setT s j) := by
  unfold addJob
  split
  · rename_i hr
    have hnr : ∃ t, (s.jobs j).nextRun = some t := (h.st.run j).1 hr
    have hall : ∀ i ∈ s.queue, ∃ t, (s.jobs i).nextRun = some t := fun i hi => (h.st.run i).1 (h.q.run i hi)
    have base : Inv { s with queue := insort s.nr j s.queue } := by
      refine ⟨⟨?_, ?_, ?_⟩, h.st, h.log⟩
      · intro i hi
        have hi' : i ∈ insort s.nr j s.queue := hi
        rw [insort_mem] at hi'
        rcases hi' with rfl | hi'
        · exact hr
        · exact h.q.run i hi'
      · exact (insort_perm _ j s.queue).nodup_iff.2 (List.nodup_cons.2 ⟨hj, h.q.nodup⟩)
      · exact insort_sorted _ j s.queue hnr hall h.q.sorted
    simp only []
    split
    · exact hT.inv _ base
    · exact base
  · exact h

theorem addJob_sub {s : St} (hT : TimerFn setT) (j i : Nat) (h : Inv s) (hj : j ∉ s.queue)
    (hi : i ∈ (addJob setT s j).queue) :
    i = j ∨ i ∈ s.queue := by
  unfold addJob at hi
  split at hi
  · rename_i hr
    have hnr : ∃ t, (s.jobs j).nextRun = some t := (h.st.run j).1 hr
    have hall : ∀ i ∈ s.queue, ∃ t, (s.jobs i).nextRun = some t := fun i hi => (h.st.run i).1 (h.q.run i hi)
    have base : Inv { s with queue := insort s.nr j s.queue } := by
      refine ⟨⟨?_, ?_, ?_⟩, h.st, h.log⟩
      · intro i hi
        have hi' : i ∈ insort s.nr j s.queue := hi
        rw [insort_mem] at hi'
        rcases hi' with rfl | hi'
        · exact hr
        · exact h.q.run i hi'
      · exact (insort_perm _ j s.queue).nodup_iff.2 (List.nodup_cons.2 ⟨hj, h.q.nodup⟩)
      · exact insort_sorted _ j s.queue hnr hall h.q.sorted
    simp only [] at hi
    split at hi
    · have := hT.sub _ base i hi
      exact (insort_mem _ j s.queue i).1 this
    · exact (insort_mem _ j s.queue i).1 hi
  · right; exact hi

end withTimer
end Ea

namespace Ea

/-- the invariant "modulo job `j`": `j`'s run time may already have been changed while it is still queued -/
structure InvEx (j : Nat) (s : St) : Prop where
  q : QInvQ (s.queue.erase j) s.jobs
  nodup : s.queue.Nodup
  st : StatusNR s.jobs
  log : LogOK s.log

theorem Inv.toEx {s : St} (j : Nat) (h : Inv s) : InvEx j s :=
  ⟨QInvQ_erase_self j h.q, h.q.nodup, h.st, h.log⟩

theorem InvEx.toInv {s : St} {j : Nat} (h : InvEx j s) (hj : j ∉ s.queue) : Inv s := by
  have : s.queue.erase j = s.queue := List.erase_of_not_mem hj
  exact ⟨by rw [← this]; exact h.q, h.st, h.log⟩

theorem Inv_emit {s : St} (e : Ev) (h : Inv s) (he : evOK e) : Inv (s.emit e) :=
  ⟨h.q, h.st, LogOK_cons he h.log⟩

theorem InvEx_emit {s : St} {j : Nat} (e : Ev) (h : InvEx j s) (he : evOK e) : InvEx j (s.emit e) :=
  ⟨h.q, h.nodup, h.st, LogOK_cons he h.log⟩

/-- replacing job `j` by a value with a consistent status keeps the invariant modulo `j` -/
theorem InvEx_setJob {s : St} {j : Nat} (b : Job) (h : InvEx j s)
    (hb : JobOK b) : InvEx j (s.setJob j b) :=
  ⟨QInvQ_setJob_notin j b h.q (not_mem_erase_self j h.nodup), h.nodup, StatusNR_set j b h.st hb, h.log⟩

theorem InvEx_setNextRun {s : St} {j : Nat} (nr : Option Int) (h : InvEx j s) :
    InvEx j (setNextRun s j nr).1 := by
  rcases setNextRun_spec s j nr with ⟨h1, _⟩ | ⟨_, b', hb, _, hjobs, hq, _, _, _, hlog⟩
  · rw [h1]; exact h
  · exact ⟨by rw [hq, hjobs]; exact QInvQ_setJob_notin j b' h.q (not_mem_erase_self j h.nodup),
           by rw [hq]; exact h.nodup, by rw [hjobs]; exact StatusNR_set j b' h.st hb, hlog h.log⟩

section withTimer
variable (setT : St → St)

theorem jobFinish_spec {s : St} (hT : TimerFn setT) (j : Nat) (h : Inv s) :
    Inv (jobFinish setT s j).1 ∧ (∀ i, i ∈ (jobFinish setT s j).1.queue → i ∈ s.queue) ∧
    ((jobFinish setT s j).2 = none → j ∉ (jobFinish setT s j).1.queue) := by
  unfold jobFinish
  split
  · exact ⟨h, fun _ hi => hi, by simp⟩
  · simp only []
    have h1 : Inv (removeJob setT s j) := Inv_removeJob setT hT j (QInvQ_erase_self j h.q) h.st h.log
    have hsub : ∀ i, i ∈ (removeJob setT s j).queue → i ∈ s.queue.erase j :=
      fun i hi => removeJob_sub setT hT j i (QInvQ_erase_self j h.q) h.st h.log hi
    have hj : j ∉ (removeJob setT s j).queue := fun hm => not_mem_erase_self j h.q.nodup (hsub j hm)
    -- the job record is replaced by a finished one
    have h2 : Inv ((removeJob setT s j).setJob j
        { (removeJob setT s j).job j with linked := false, status := .finished, nextRun := none, inStore := false }) :=
      ⟨QInvQ_setJob_notin j _ h1.q hj, StatusNR_set j _ h1.st (by simp [JobOK]), h1.log⟩
    obtain ⟨q1, q2, _, _, _, _, q7⟩ := runCbs_frame true j ((removeJob setT s j).job j).onFinished
      (if ((removeJob setT s j).job j).inStore then
        { ((removeJob setT s j).setJob j
          { (removeJob setT s j).job j with linked := false, status := .finished, nextRun := none, inStore := false }) with
          store := (((removeJob setT s j).setJob j
          { (removeJob setT s j).job j with linked := false, status := .finished, nextRun := none, inStore := false })).store.filter
            (fun kv => kv.1 ≠ ((removeJob setT s j).job j).key) }
       else ((removeJob setT s j).setJob j
          { (removeJob setT s j).job j with linked := false, status := .finished, nextRun := none, inStore := false }))
    refine ⟨?_, ?_, ?_⟩
    · refine ⟨?_, ?_, ?_⟩
      · rw [q1, q2]; split <;> exact h2.q
      · rw [q2]; split <;> exact h2.st
      · apply q7; split <;> exact h2.log
    · intro i hi
      rw [q1] at hi
      have : i ∈ (removeJob setT s j).queue := by
        split at hi <;> exact hi
      exact List.mem_of_mem_erase (hsub i this)
    · intro _ hm
      rw [q1] at hm
      have : j ∈ (removeJob setT s j).queue := by
        split at hm <;> exact hm
      exact hj this

end withTimer
end Ea

namespace Ea
section withTimer
variable (setT : St → St)

/-- `update_next`: the invariant holds afterwards modulo `j`, and the queue only shrinks -/
theorem updateNext_spec {s : St} (hT : TimerFn setT) (j : Nat) (h : Inv s) :
    InvEx j (updateNext setT s j).1 ∧ (∀ i, i ∈ (updateNext setT s j).1.queue → i ∈ s.queue) := by
  unfold updateNext
  simp only []
  split
  · obtain ⟨a, b, _⟩ := jobFinish_spec setT hT j h
    exact ⟨a.toEx j, b⟩
  · exact ⟨InvEx_setNextRun none (h.toEx j), fun i hi => by rw [setNextRun_queue] at hi; exact hi⟩
  · rename_i p _
    split
    · exact ⟨h.toEx j, fun _ hi => hi⟩
    · have hb : JobOK ({ s.job j with kind := Kind.recurring (p.anchorAt s.now), calls := (s.job j).calls + 1 } : Job) :=
        h.st j
      have h1 : InvEx j (s.setJob j { s.job j with kind := Kind.recurring (p.anchorAt s.now), calls := (s.job j).calls + 1 }) :=
        InvEx_setJob _ (h.toEx j) hb
      split
      · exact ⟨h1, fun _ hi => hi⟩
      · split
        · exact ⟨h1, fun _ hi => hi⟩
        · exact ⟨InvEx_setNextRun _ h1, fun i hi => by rw [setNextRun_queue] at hi; exact hi⟩

/-- `job.execute()` of a job that was popped from the queue -/
theorem execute_spec {s : St} (hT : TimerFn setT) (j : Nat) (due : Int) (h : Inv s) (hj : j ∉ s.queue)
    (hdue : due ≤ s.now) :
    Inv (execute setT s j due) ∧ (∀ i, i ∈ (execute setT s j due).queue → i ∈ s.queue) := by
  unfold execute
  simp only []
  -- the state right before `update_next`
  generalize hs0 : (if (s.job j).execFail.contains (s.job j).execs = true then
      (((s.emit (Ev.exec j s.now due)).setJob j { s.job j with execs := (s.job j).execs + 1, lastRun := some s.now })).emit (Ev.exc "CallableError")
    else ((s.emit (Ev.exec j s.now due)).setJob j { s.job j with execs := (s.job j).execs + 1, lastRun := some s.now })) = s0
  have hb : JobOK ({ s.job j with execs := (s.job j).execs + 1, lastRun := some s.now } : Job) := h.st j
  have hA : Inv ((s.emit (Ev.exec j s.now due)).setJob j { s.job j with execs := (s.job j).execs + 1, lastRun := some s.now }) :=
    (InvEx_setJob _ ((Inv_emit _ h (by simpa [evOK] using hdue)).toEx j) hb).toInv hj
  have h0 : Inv s0 ∧ s0.queue = s.queue := by
    subst hs0
    split
    · exact ⟨Inv_emit _ hA (by simp [evOK]), rfl⟩
    · exact ⟨hA, rfl⟩
  obtain ⟨h0i, h0q⟩ := h0
  obtain ⟨u1, u2⟩ := updateNext_spec setT hT j h0i
  have hj0 : j ∉ s0.queue := by rw [h0q]; exact hj
  have hju : j ∉ (updateNext setT s0 j).1.queue := fun hm => hj0 (u2 j hm)
  have hInv : Inv (updateNext setT s0 j).1 := u1.toInv hju
  split
  · rename_i s' heq
    have : s' = (updateNext setT s0 j).1 := by rw [heq]
    subst this
    exact ⟨hInv, fun i hi => by rw [← h0q]; exact u2 i hi⟩
  · rename_i s' e heq
    have : s' = (updateNext setT s0 j).1 := by rw [heq]
    subst this
    have hE : Inv ((updateNext setT s0 j).1.emit (Ev.exc e.name)) := Inv_emit _ hInv (by simp [evOK])
    split
    · refine ⟨Inv_setNextRun j none hE hju, ?_⟩
      intro i hi
      rw [setNextRun_queue] at hi
      rw [← h0q]; exact u2 i hi
    · exact ⟨hE, fun i hi => by rw [← h0q]; exact u2 i hi⟩

end withTimer

/-! ### `_set_timer` and `run_jobs` keep the invariant, for every fuel -/

theorem Inv_timer_none {s : St} (h : Inv s) : Inv { s with timer := none } := ⟨h.q, h.st, h.log⟩

theorem setTimer_of_runLoop (fuel : Nat)
    (hrun : ∀ f, f < fuel → ∀ s, Inv s → Inv (runLoop f s) ∧ ∀ i, i ∈ (runLoop f s).queue → i ∈ s.queue) :
    ∀ s, Inv s → Inv (setTimer fuel s) ∧ ∀ i, i ∈ (setTimer fuel s).queue → i ∈ s.queue := by
  intro s h
  unfold setTimer
  simp only []
  repeat' split
  all_goals first
    | exact ⟨Inv_timer_none h, fun _ hi => hi⟩
    | exact ⟨Inv_emit _ (Inv_timer_none h) (by simp [evOK]), fun _ hi => hi⟩
    | exact hrun _ (by omega) _ (Inv_timer_none h)
    | exact ⟨⟨h.q, h.st, h.log⟩, fun _ hi => hi⟩

theorem runLoop_spec (fuel : Nat) :
    ∀ s, Inv s → Inv (runLoop fuel s) ∧ ∀ i, i ∈ (runLoop fuel s).queue → i ∈ s.queue := by
  induction fuel using Nat.strongRecOn with
  | _ fuel ih =>
    intro s h
    have hst : ∀ f, f ≤ fuel → ∀ s, Inv s → Inv (setTimer f s) ∧ ∀ i, i ∈ (setTimer f s).queue → i ∈ s.queue :=
      fun f hf => setTimer_of_runLoop f (fun f' hf' => ih f' (by omega))
    unfold runLoop
    split
    · exact ⟨h, fun _ hi => hi⟩
    · rename_i hd rest hq
      split
      · exact ⟨Inv_emit _ (Inv_emit _ h (by simp [evOK])) (by simp [evOK]), fun _ hi => hi⟩
      · rename_i nr hnr
        split
        · exact hst fuel (Nat.le_refl _) s h
        · rename_i hle
          split
          · exact ⟨Inv_emit _ h (by simp [evOK]), fun _ hi => hi⟩
          · rename_i f
            have hT : TimerFn (setTimer f) :=
              ⟨fun s hs => (hst f (by omega) s hs).1, fun s hs i hi => (hst f (by omega) s hs).2 i hi⟩
            have hnd : hd ∉ rest := by
              have := h.q.nodup; rw [hq] at this; exact (List.nodup_cons.1 this).1
            have h1 : Inv { s with queue := rest } := by
              refine ⟨⟨?_, ?_, ?_⟩, h.st, h.log⟩
              · intro i hi; exact h.q.run i (by rw [hq]; simp [hi])
              · have := h.q.nodup; rw [hq] at this; exact (List.nodup_cons.1 this).2
              · have := h.q.sorted; rw [hq] at this; exact (List.pairwise_cons.1 this).2
            have hdue : nr ≤ ({ s with queue := rest } : St).now := by
              show nr ≤ s.now
              omega
            obtain ⟨e1, e2⟩ := execute_spec (setTimer f) hT hd nr h1 (by simpa using hnd) hdue
            have hd2 : hd ∉ (execute (setTimer f) { s with queue := rest } hd nr).queue :=
              fun hm => hnd (e2 hd hm)
            have a1 := Inv_addJob (setTimer f) hT hd e1 hd2
            obtain ⟨r1, r2⟩ := ih f (by omega) _ a1
            refine ⟨r1, ?_⟩
            intro i hi
            have := r2 i hi
            rcases addJob_sub (setTimer f) hT hd i e1 hd2 this with rfl | hm
            · rw [hq]; simp
            · rw [hq]; exact List.mem_cons_of_mem _ (e2 i hm)

theorem setTimer_spec (fuel : Nat) :
    ∀ s, Inv s → Inv (setTimer fuel s) ∧ ∀ i, i ∈ (setTimer fuel s).queue → i ∈ s.queue :=
  setTimer_of_runLoop fuel (fun f _ => runLoop_spec f)

theorem timerFn_setTimer (fuel : Nat) : TimerFn (setTimer fuel) :=
  ⟨fun s hs => (setTimer_spec fuel s hs).1, fun s hs i hi => (setTimer_spec fuel s hs).2 i hi⟩

end Ea

namespace Ea

/-! ### every public operation keeps the invariant -/

theorem Inv_of_fields {s s' : St} (h : Inv s) (hq : s'.queue = s.queue) (hj : s'.jobs = s.jobs)
    (hl : s'.log = s.log) : Inv s' :=
  ⟨by rw [hq, hj]; exact h.q, by rw [hj]; exact h.st, by rw [hl]; exact h.log⟩

theorem Inv_setJob_notin {s : St} (j : Nat) (b : Job) (h : Inv s) (hj : j ∉ s.queue)
    (hb : JobOK b) : Inv (s.setJob j b) :=
  ⟨QInvQ_setJob_notin j b h.q hj, StatusNR_set j b h.st hb, h.log⟩

/-- a job record may be replaced by one with the same status and run time even while it is queued -/
theorem Inv_setJob_same {s : St} (j : Nat) (b : Job) (h : Inv s)
    (h1 : b.status = (s.job j).status) (h2 : b.nextRun = (s.job j).nextRun)
    (h3 : b.linked = (s.job j).linked := by rfl) : Inv (s.setJob j b) := by
  refine ⟨⟨?_, h.q.nodup, ?_⟩, ?_, h.log⟩
  · intro i hi
    show (if i = j then b else s.jobs i).status = .running
    split
    · next e => subst e; rw [h1]; exact h.q.run i hi
    · exact h.q.run i hi
  · refine h.q.sorted.imp ?_
    intro a c hac
    simp only [leNR] at *
    have key : ∀ i, (if i = j then b else s.jobs i).nextRun = (s.jobs i).nextRun := by
      intro i; split
      · next e => subst e; exact h2
      · rfl
    show ¬ ltNR ((if c = j then b else s.jobs c).nextRun) ((if a = j then b else s.jobs a).nextRun) = true
    rw [key a, key c]; exact hac
  · intro i
    show JobOK (if i = j then b else s.jobs i)
    split
    · next e =>
      subst e
      have := h.st i
      unfold JobOK at this ⊢
      rw [h1, h2, h3]; exact this
    · exact h.st i

theorem runLoop_inv (fuel : Nat) {s : St} (h : Inv s) : Inv (runLoop fuel s) := (runLoop_spec fuel s h).1
theorem setTimer_inv (fuel : Nat) {s : St} (h : Inv s) : Inv (setTimer fuel s) := (setTimer_spec fuel s h).1

theorem runJobs_inv (fuel : Nat) {s : St} (h : Inv s) : Inv (runJobs fuel s) := by
  unfold runJobs
  exact runLoop_inv fuel (Inv_timer_none h)

theorem fireDue_inv {s : St} (h : Inv s) : Inv (fireDue s) := by
  unfold fireDue
  split
  · split
    · exact runJobs_inv _ h
    · exact h
  · exact h

theorem sleepLoop_inv (n : Nat) (target : Int) {s : St} (h : Inv s) : Inv (sleepLoop n target s) := by
  induction n generalizing s with
  | zero => unfold sleepLoop; exact Inv_emit _ h (by simp [evOK])
  | succ n ih =>
    unfold sleepLoop
    split
    · split
      · apply ih
        apply runJobs_inv
        exact ⟨h.q, h.st, h.log⟩
      · exact ⟨h.q, h.st, h.log⟩
    · exact ⟨h.q, h.st, h.log⟩

/-- re-timing a queued or unqueued job: `set_next_run`/`update_next` followed by `update_job` -/
theorem Inv_updateJob {s : St} (fuel : Nat) (j : Nat) (h : InvEx j s) :
    Inv (addJob (setTimer fuel) (removeJob (setTimer fuel) s j) j) := by
  have hT := timerFn_setTimer fuel
  have h1 : Inv (removeJob (setTimer fuel) s j) := Inv_removeJob _ hT j h.q h.st h.log
  have hj : j ∉ (removeJob (setTimer fuel) s j).queue :=
    fun hm => not_mem_erase_self j h.nodup (removeJob_sub _ hT j j h.q h.st h.log hm)
  exact Inv_addJob _ hT j h1 hj

theorem linkJob_inv {s : St} (j : Nat) (h : Inv s) (hj : j ∉ s.queue) : Inv (linkJob s j).1 := by
  have hT := timerFn_setTimer OPFUEL
  have hfirst : ∀ r : R, (Inv r.1 ∧ j ∉ r.1.queue) →
      Inv (match r with
        | (s', none) => (addJob (setTimer OPFUEL) s' j, none)
        | (s', some e) => ((jobFinish (setTimer OPFUEL) s' j).1, some e)).1 := by
    intro r hr
    obtain ⟨s', e⟩ := r
    cases e with
    | none => exact Inv_addJob _ hT j hr.1 hr.2
    | some e => exact (jobFinish_spec _ hT j hr.1).1
  unfold linkJob
  simp only []
  apply hfirst
  split
  · exact ⟨Inv_setNextRun j _ h hj, by rw [setNextRun_queue]; exact hj⟩
  · obtain ⟨u1, u2⟩ := updateNext_spec (setTimer OPFUEL) hT j h
    have hju : j ∉ (updateNext (setTimer OPFUEL) s j).1.queue := fun hm => hj (u2 j hm)
    exact ⟨u1.toInv hju, hju⟩

theorem createJob_inv {s : St} (j : Nat) (key : Option Nat) (spec : JobSpec) (ef tf : List Nat) (tff : Nat) (h : Inv s) :
    Inv (createJob s j key spec ef tf tff).1 := by
  unfold createJob
  split
  · exact h
  · rename_i hcr
    have hcr' : (s.job j).status = .created := by simpa using hcr
    have hjq : j ∉ s.queue := by
      intro hm
      have := h.q.run j hm
      rw [show (s.jobs j).status = (s.job j).status from rfl, hcr'] at this
      cases this
    split
    · exact h
    · split
      · exact h
      · have hs : Inv (storeAdd s key j) ∧ (storeAdd s key j).queue = s.queue := by
          unfold storeAdd
          split
          · exact ⟨⟨h.q, h.st, h.log⟩, rfl⟩
          · exact ⟨h, rfl⟩
        apply linkJob_inv
        · apply Inv_setJob_notin _ _ hs.1 (by rw [hs.2]; exact hjq)
          simp [newJob, JobOK]
        · show j ∉ (storeAdd s key j).queue
          rw [hs.2]; exact hjq

end Ea

namespace Ea

/-- `set_next_run` raises only for run times more than the tolerance in the past -/
theorem setNextRun_ok_of_ge (s : St) (j : Nat) (t : Int) (h : ¬ t < s.now - PAST_TOLERANCE) :
    (setNextRun s j (some t)).2 = none := by
  unfold setNextRun
  simp only [if_neg h]

theorem setNextRun_err_of_lt (s : St) (j : Nat) (t : Int) (h : t < s.now - PAST_TOLERANCE) :
    setNextRun s j (some t) = (s, some .runInThePast) := by
  unfold setNextRun
  simp only [if_pos h]

theorem setNextRun_err {s : St} {j : Nat} {nr : Option Int} {e : Err}
    (he : (setNextRun s j nr).2 = some e) : (setNextRun s j nr).1 = s := by
  rcases setNextRun_spec s j nr with ⟨h1, _⟩ | ⟨h2, _⟩
  · exact h1
  · rw [h2] at he; cases he

/-- a failed `update_next` leaves the schedule of every job as it was -/
theorem updateNext_err_inv {s : St} (j : Nat) {e : Err} (h : Inv s)
    (he : (updateNext (setTimer OPFUEL) s j).2 = some e) : Inv (updateNext (setTimer OPFUEL) s j).1 := by
  have hT := timerFn_setTimer OPFUEL
  revert he
  unfold updateNext
  simp only []
  split
  · intro _; exact (jobFinish_spec _ hT j h).1
  · intro he; rw [setNextRun_err he]; exact h
  · rename_i p _
    split
    · intro _; exact h
    · have hsame : Inv (s.setJob j { s.job j with kind := Kind.recurring (p.anchorAt s.now), calls := (s.job j).calls + 1 }) :=
        Inv_setJob_same j _ h rfl rfl
      split
      · intro _; exact hsame
      · split
        · intro _; exact hsame
        · intro he; rw [setNextRun_err he]; exact hsame

theorem Inv_pauseLike {s : St} (j : Nat) (h : Inv s) :
    Inv (setNextRun (removeJob (setTimer OPFUEL) s j) j none).1 := by
  have hT := timerFn_setTimer OPFUEL
  have h1 : Inv (removeJob (setTimer OPFUEL) s j) := Inv_removeJob _ hT j (QInvQ_erase_self j h.q) h.st h.log
  have hj : j ∉ (removeJob (setTimer OPFUEL) s j).queue :=
    fun hm => not_mem_erase_self j h.q.nodup (removeJob_sub _ hT j j (QInvQ_erase_self j h.q) h.st h.log hm)
  exact Inv_setNextRun j none h1 hj

/-- every public operation keeps the invariant -/
theorem step_inv (s : St) (op : Op) (h : Inv s) : Inv (step s op).1 := by
  have hT := timerFn_setTimer OPFUEL
  unfold step
  simp only []
  cases op with
  | create j key spec ef tf tff => exact createJob_inv j key spec ef tf tff h
  | cancel j => exact (jobFinish_spec _ hT j h).1
  | pause j =>
    simp only []
    split
    · exact h
    · split
      · exact h
      · exact Inv_pauseLike j h
  | stop j =>
    simp only []
    split
    · exact h
    · split
      · exact h
      · exact Inv_pauseLike j h
  | resume j =>
    simp only []
    split
    · exact h
    · split
      · exact h
      · obtain ⟨u1, u2⟩ := updateNext_spec (setTimer OPFUEL) hT j h
        split
        · rename_i s' e heq
          have : s' = (updateNext (setTimer OPFUEL) s j).1 := by rw [heq]
          subst this
          -- the failed resume changed at most the bookkeeping of `j`; the queue entry is as before
          exact updateNext_err_inv j h (by rw [heq])
        · rename_i s' heq
          have : s' = (updateNext (setTimer OPFUEL) s j).1 := by rw [heq]
          subst this
          exact Inv_updateJob OPFUEL j u1
  | reset j =>
    simp only []
    split
    · exact h
    · split
      · exact h
      · split
        · rename_i s' e heq
          have : s' = (setNextRun s j (some (s.now + (s.job j).secs))).1 := by rw [heq]
          subst this
          rw [setNextRun_err (e := e) (by rw [heq])]; exact h
        · rename_i s' heq
          have : s' = (setNextRun s j (some (s.now + (s.job j).secs))).1 := by rw [heq]
          subst this
          exact Inv_updateJob OPFUEL j (InvEx_setNextRun _ (h.toEx j))
  | setCountdown j secs =>
    simp only []
    split
    · exact h
    · split
      · exact h
      · split
        · exact h
        · exact Inv_setJob_same j _ h rfl rfl
  | cbReg fin j c =>
    simp only []
    split
    · split
      · exact h
      · exact Inv_setJob_same j _ h rfl rfl
    · split
      · exact h
      · exact Inv_setJob_same j _ h rfl rfl
  | cbRem fin j c =>
    simp only []
    split
    · exact Inv_setJob_same j _ h rfl rfl
    · exact Inv_setJob_same j _ h rfl rfl
  | cbFails c => exact ⟨h.q, h.st, h.log⟩
  | enable e =>
    simp only []
    split
    · exact h
    · exact setTimer_inv _ ⟨h.q, h.st, h.log⟩
  | advance d => exact ⟨h.q, h.st, h.log⟩
  | yield => exact fireDue_inv h
  | sleep d => exact sleepLoop_inv _ _ h

end Ea
