import EaModel.Lemmas.Least
/-!
# The regularity hypothesis of the order theorems, proved from the zone table

`TimeRegular z r` ("candidates of successive local dates increase") is the interface the least-occurrence
argument for time-of-day triggers needs. Here it is *derived* for every sorted transition table whose UTC
offsets stay within a window narrower than a day minus the 121 minutes the policy `after` may move a run:
`hi - lo + 121 min ≤ 24 h`. That covers every zone of the tz database whose offsets did not jump across the
date line in the exported window (Europe/Berlin: 1 h, Australia/Lord_Howe: 30 min, America/Godthab: 1 h,
Antarctica/Troll: 2 h, ...); it excludes Pacific/Apia and Pacific/Kiritimati-like tables (a whole local day
skipped), for which the hypothesis is indeed false (the day skipped by the date line change and its successor
share one candidate under the policy `later`).

`Zone.narrowB` is the executable form of the side condition; the driver evaluates it for the table of every
case so that the evidence can say for how many zones the hypothesis was discharged by this theorem.
-/
namespace Ea

/-- every UTC offset the table mentions -/
def Zone.offsets (z : Zone) : List Int := z.init :: z.trans.map (·.2)

/-- all offsets of the zone lie in `[lo, hi]` -/
def Zone.OffsetsIn (z : Zone) (lo hi : Int) : Prop := ∀ o ∈ z.offsets, lo ≤ o ∧ o ≤ hi

theorem offAt_mem (cur : Int) (tr : List (Int × Int)) (u : Int) :
    offAt cur tr u ∈ cur :: tr.map (·.2) := by
  induction tr generalizing cur with
  | nil => simp [offAt]
  | cons p rest ih =>
    obtain ⟨t, o⟩ := p
    unfold offAt
    split
    · simp
    · have := ih o
      simp only [List.map_cons, List.mem_cons] at this ⊢
      rcases this with h | h
      · exact Or.inr (Or.inl h)
      · exact Or.inr (Or.inr h)

theorem Zone.offsetAt_mem (z : Zone) (u : Int) : z.offsetAt u ∈ z.offsets := offAt_mem _ _ _

/-- every element of the solution list is the reading minus one of the offsets of the table -/
theorem sols_form (cur : Int) (lo : Option Int) (tr : List (Int × Int)) (L u : Int)
    (h : u ∈ sols cur lo tr L) : ∃ o ∈ cur :: tr.map (·.2), u = L - o := by
  induction tr generalizing cur lo with
  | nil =>
    simp only [sols] at h
    split at h
    · simp at h; exact ⟨cur, by simp, h⟩
    · simp at h
  | cons p rest ih =>
    obtain ⟨t, o⟩ := p
    simp only [sols, List.mem_append] at h
    rcases h with h | h
    · split at h
      · simp at h; exact ⟨cur, by simp, h⟩
      · simp at h
    · obtain ⟨o', ho', e⟩ := ih _ _ h
      refine ⟨o', ?_, e⟩
      simp only [List.map_cons, List.mem_cons] at ho' ⊢
      rcases ho' with h | h
      · exact Or.inr (Or.inl h)
      · exact Or.inr (Or.inr h)

theorem findGap_form (cur : Int) (tr : List (Int × Int)) (L b a : Int)
    (h : findGap cur tr L = some (b, a)) : b ∈ cur :: tr.map (·.2) ∧ a ∈ cur :: tr.map (·.2) := by
  induction tr generalizing cur with
  | nil => simp [findGap] at h
  | cons p rest ih =>
    obtain ⟨t, o⟩ := p
    unfold findGap at h
    split at h
    · simp at h; obtain ⟨rfl, rfl⟩ := h; simp
    · obtain ⟨h1, h2⟩ := ih _ h
      simp only [List.map_cons, List.mem_cons] at h1 h2 ⊢
      exact ⟨by rcases h1 with h | h; exact Or.inr (Or.inl h); exact Or.inr (Or.inr h),
             by rcases h2 with h | h; exact Or.inr (Or.inl h); exact Or.inr (Or.inr h)⟩

/-- whatever `resolve` answers, every instant in the answer is the reading minus an offset of the table -/
def ResForm (z : Zone) (L : Int) : Res → Prop
  | .unique u => ∃ o ∈ z.offsets, u = L - o
  | .gap e l => (∃ o ∈ z.offsets, e = L - o) ∧ (∃ o ∈ z.offsets, l = L - o)
  | .fold a b => (∃ o ∈ z.offsets, a = L - o) ∧ (∃ o ∈ z.offsets, b = L - o)

theorem Zone.resolve_form (z : Zone) (L : Int) : ResForm z L (z.resolve L) := by
  unfold Zone.resolve
  cases hS : sols z.init none z.trans L with
  | nil =>
    simp only []
    cases hg : findGap z.init z.trans L with
    | none => exact ⟨z.init, by simp [Zone.offsets], rfl⟩
    | some p =>
      obtain ⟨before, after⟩ := p
      obtain ⟨h1, h2⟩ := findGap_form _ _ _ _ _ hg
      exact ⟨⟨after, h2, rfl⟩, ⟨before, h1, rfl⟩⟩
  | cons u us =>
    have hu := sols_form z.init none z.trans L u (by rw [hS]; simp)
    cases us with
    | nil => exact hu
    | cons v vs =>
      refine ⟨hu, ?_⟩
      have hne : (v :: vs) ≠ [] := by simp
      have hl : (v :: vs).getLast?.getD u = (v :: vs).getLast hne := by
        rw [List.getLast?_eq_some_getLast hne]; rfl
      show ∃ o ∈ z.offsets, (v :: vs).getLast?.getD u = L - o
      rw [hl]
      exact sols_form z.init none z.trans L _ (by rw [hS]; exact List.mem_cons_of_mem _ (List.getLast_mem hne))

/-- `find_time_after_dst_switch` returns the unique instant of a whole minute 1 … n minutes after its start -/
theorem findAfter_unique (z : Zone) : ∀ (n : Nat) (Lm u : Int), findAfter z n Lm = .ok u →
    ∃ k : Nat, 1 ≤ k ∧ k ≤ n ∧ z.resolve (Lm + k * NS_PER_MIN) = .unique u
  | 0, Lm, u, h => by simp [findAfter] at h
  | n + 1, Lm, u, h => by
    unfold findAfter at h
    simp only [] at h
    split at h
    · next u' hu =>
      simp at h; subst h
      exact ⟨1, by omega, by omega, by simpa using hu⟩
    · obtain ⟨k, hk1, hk2, hres⟩ := findAfter_unique z n _ u h
      refine ⟨k + 1, by omega, by omega, ?_⟩
      have e : Lm + ((k + 1 : Nat) : Int) * NS_PER_MIN = Lm + NS_PER_MIN + (k : Int) * NS_PER_MIN := by
        push_cast; rw [Int.add_mul]; omega
      rw [e]; exact hres
    · simp at h

/-- the shape of every candidate: a reading between the configured one and 121 minutes later, minus an offset -/
theorem cand_form (z : Zone) (r : TimeRep) (d c : Int) (h : c ∈ candsOf z r d) :
    ∃ o ∈ z.offsets, ∃ L, d * NS_PER_DAY + r.tod ≤ L ∧ L ≤ d * NS_PER_DAY + r.tod + 121 * NS_PER_MIN ∧ c = L - o := by
  unfold candsOf at h
  split at h
  · next l hrep =>
    have hform := z.resolve_form (d * NS_PER_DAY + r.tod)
    unfold TimeRep.replace at hrep
    simp only [] at hrep
    have triv : ∀ o ∈ z.offsets, c = d * NS_PER_DAY + r.tod - o →
        ∃ o ∈ z.offsets, ∃ L, d * NS_PER_DAY + r.tod ≤ L ∧ L ≤ d * NS_PER_DAY + r.tod + 121 * NS_PER_MIN ∧ c = L - o :=
      fun o ho e => ⟨o, ho, _, Int.le_refl _, by simp only [NS_PER_MIN]; omega, e⟩
    split at hrep
    · next u hu =>
      rw [hu] at hform
      simp at hrep; subst hrep
      simp at h; subst h
      obtain ⟨o, ho, e⟩ : ∃ o ∈ z.offsets, c = d * NS_PER_DAY + r.tod - o := hform
      exact triv o ho e
    · next e l' hg =>
      rw [hg] at hform
      obtain ⟨⟨o1, ho1, e1⟩, ⟨o2, ho2, e2⟩⟩ : (∃ o ∈ z.offsets, e = d * NS_PER_DAY + r.tod - o) ∧ (∃ o ∈ z.offsets, l' = d * NS_PER_DAY + r.tod - o) := hform
      split at hrep
      · simp at hrep; subst hrep; simp at h
      · simp at hrep; subst hrep; simp at h; subst h; exact triv o1 ho1 e1
      · simp at hrep; subst hrep; simp at h; subst h; exact triv o2 ho2 e2
      · split at hrep
        · next u hf =>
          simp at hrep; subst hrep
          simp at h; subst h
          obtain ⟨k, hk1, hk2, hres⟩ := findAfter_unique z _ _ _ hf
          have hform' := z.resolve_form (d * NS_PER_DAY + r.tod / NS_PER_MIN * NS_PER_MIN + (k : Int) * NS_PER_MIN)
          rw [hres] at hform'
          obtain ⟨o, ho, e⟩ : ∃ o ∈ z.offsets, c = d * NS_PER_DAY + r.tod / NS_PER_MIN * NS_PER_MIN + (k : Int) * NS_PER_MIN - o := hform'
          refine ⟨o, ho, _, ?_, ?_, e⟩
          · have := Int.lt_ediv_add_one_mul_self r.tod (show (0 : Int) < NS_PER_MIN by decide)
            have hk : (1 : Int) ≤ (k : Int) := by omega
            simp only [NS_PER_MIN] at *
            omega
          · have := Int.ediv_mul_le r.tod (show NS_PER_MIN ≠ 0 by decide)
            have hk : (k : Int) ≤ 121 := by simp only [AFTER_TRIES] at hk2; omega
            simp only [NS_PER_MIN] at *
            omega
        · simp at hrep
    · next a b hf =>
      rw [hf] at hform
      obtain ⟨⟨o1, ho1, e1⟩, ⟨o2, ho2, e2⟩⟩ : (∃ o ∈ z.offsets, a = d * NS_PER_DAY + r.tod - o) ∧ (∃ o ∈ z.offsets, b = d * NS_PER_DAY + r.tod - o) := hform
      split at hrep
      · simp at hrep; subst hrep; simp at h
      · simp at hrep; subst hrep; simp at h; subst h; exact triv o1 ho1 e1
      · simp at hrep; subst hrep; simp at h; subst h; exact triv o2 ho2 e2
      · simp at hrep; subst hrep; simp at h
        rcases h with rfl | rfl
        · exact triv o1 ho1 e1
        · exact triv o2 ho2 e2
  · simp at h

/-- the candidates of one local date are in order (only the policy `twice` yields two) -/
theorem cands_sorted (z : Zone) (hs : z.Sorted) (r : TimeRep) (d : Int) : (candsOf z r d).Pairwise (· ≤ ·) := by
  unfold candsOf
  split
  · next l hrep =>
    unfold TimeRep.replace at hrep
    simp only [] at hrep
    split at hrep
    · simp at hrep; subst hrep; simp
    · split at hrep
      · simp at hrep; subst hrep; simp
      · simp at hrep; subst hrep; simp
      · simp at hrep; subst hrep; simp
      · split at hrep
        · simp at hrep; subst hrep; simp
        · simp at hrep
    · next a b hf =>
      have := (z.resolve_fold hs _ a b hf).2.2.1
      split at hrep
      · simp at hrep; subst hrep; simp
      · simp at hrep; subst hrep; simp
      · simp at hrep; subst hrep; simp
      · simp at hrep; subst hrep; simp; omega
  · simp

/-- **regularity from the table**: a sorted table whose offsets stay within a window of at most
`24 h − 121 min` is regular for every time of day and every policy -/
theorem timeRegular_of_narrow (z : Zone) (hs : z.Sorted) (lo hi : Int) (hb : z.OffsetsIn lo hi)
    (hn : hi - lo + 121 * NS_PER_MIN < NS_PER_DAY) (r : TimeRep) (h0 : 0 ≤ r.tod) (h1 : r.tod < NS_PER_DAY) :
    TimeRegular z r := by
  refine ⟨?_, cands_sorted z hs r, ?_⟩
  · intro d d' c c' hd hc hc'
    obtain ⟨o, ho, L, hL1, hL2, rfl⟩ := cand_form z r d c hc
    obtain ⟨o', ho', L', hL1', hL2', rfl⟩ := cand_form z r d' c' hc'
    have b1 := hb o ho
    have b2 := hb o' ho'
    simp only [NS_PER_DAY, NS_PER_MIN] at *
    omega
  · intro d c u hc hu
    obtain ⟨o, ho, L, hL1, hL2, rfl⟩ := cand_form z r d c hc
    have b1 := hb o ho
    have b2 := hb _ (z.offsetAt_mem u)
    have hu' : d + 2 ≤ (u + z.offsetAt u) / NS_PER_DAY := by
      simpa [Zone.localDay, Zone.toLocal, dayOf] using hu
    simp only [NS_PER_DAY, NS_PER_MIN] at *
    omega

/-! ## executable side condition -/

def sortedFromB : Option Int → List (Int × Int) → Bool
  | _, [] => true
  | lo, (t, _) :: rest => (match lo with | none => true | some l => decide (l < t)) && sortedFromB (some t) rest

theorem sortedFromB_iff (lo : Option Int) (tr : List (Int × Int)) : sortedFromB lo tr = true ↔ SortedFrom lo tr := by
  induction tr generalizing lo with
  | nil => simp [sortedFromB, SortedFrom]
  | cons p rest ih =>
    obtain ⟨t, o⟩ := p
    simp only [sortedFromB, SortedFrom, Bool.and_eq_true, ih]
    cases lo <;> simp

/-- least and greatest offset of the table -/
def Zone.offLo (z : Zone) : Int := z.offsets.foldl min z.init
def Zone.offHi (z : Zone) : Int := z.offsets.foldl max z.init

/-- sorted, and the offsets span at most `24 h − 121 min` -/
def Zone.narrowB (z : Zone) : Bool :=
  sortedFromB none z.trans && z.offsets.all (fun o => decide (z.offLo ≤ o ∧ o ≤ z.offHi)) &&
    decide (z.offHi - z.offLo + 121 * NS_PER_MIN < NS_PER_DAY)

/-- the executable condition implies regularity for every time of day and policy (no evaluation of dates needed) -/
theorem timeRegular_of_narrowB (z : Zone) (h : z.narrowB = true) (r : TimeRep) (h0 : 0 ≤ r.tod)
    (h1 : r.tod < NS_PER_DAY) : TimeRegular z r := by
  simp only [Zone.narrowB, Bool.and_eq_true, List.all_eq_true, decide_eq_true_eq] at h
  obtain ⟨⟨hs, hb⟩, hn⟩ := h
  exact timeRegular_of_narrow z ((sortedFromB_iff _ _).1 hs) z.offLo z.offHi hb hn r h0 h1

end Ea
