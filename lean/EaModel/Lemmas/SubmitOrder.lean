import EaModel.Lemmas.Tracked
/-!
# Tasks are created in submission order

`subSeq log` — the coroutines handed to `create_task`, oldest first. In every reachable state of every manager the
coroutines for which a task was created (in the order of creation), followed by the coroutines still waiting in the
queue (in queue order), form a subsequence of `subSeq`: nothing is started out of turn, nothing overtakes; what is
missing from the subsequence was closed unstarted.
-/
namespace Ea

def subOf : TEv → Option Nat
  | .submitted c => some c
  | _ => none

/-- the submitted coroutines, oldest first (the log is kept newest first) -/
def subSeq (log : List TEv) : List Nat := (log.filterMap subOf).reverse

def startSeq (s : TSt) : List Nat := s.tasks.map (·.coro) ++ s.queue.map (·.1)

def InOrder (s : TSt) : Prop := (startSeq s).Sublist (subSeq s.log)

theorem subSeq_cons_other (e : TEv) (log : List TEv) (h : subOf e = none) : subSeq (e :: log) = subSeq log := by
  simp [subSeq, List.filterMap_cons, h]
theorem subSeq_cons_sub (c : Nat) (log : List TEv) : subSeq (.submitted c :: log) = subSeq log ++ [c] := by
  simp [subSeq, List.filterMap_cons, subOf]

theorem map_coro_set (l : List Task) (t : Nat) (x : Task) (h : x.coro = (taskOf l t).coro) :
    (l.set t x).map (·.coro) = l.map (·.coro) := by
  induction l generalizing t with
  | nil => simp
  | cons a l ih =>
    cases t with
    | zero =>
      simp only [List.set_cons_zero, List.map_cons]
      have : taskOf (a :: l) 0 = a := by simp [taskOf]
      rw [this] at h; rw [h]
    | succ t =>
      simp only [List.set_cons_succ, List.map_cons]
      have : taskOf (a :: l) (t + 1) = taskOf l t := by simp [taskOf]
      rw [this] at h; rw [ih t h]

/-- only fields the sequence does not read were changed -/
theorem InOrder.of_eq {s s' : TSt} (h : InOrder s) (ht : s'.tasks = s.tasks) (hq : s'.queue = s.queue) (hl : s'.log = s.log) :
    InOrder s' := by
  unfold InOrder startSeq at *; rw [ht, hq, hl]; exact h

theorem InOrder.emit {s : TSt} (h : InOrder s) (e : TEv) (he : subOf e = none) : InOrder (s.emit e) := by
  unfold InOrder startSeq at *
  show (s.tasks.map (·.coro) ++ s.queue.map (·.1)).Sublist (subSeq (e :: s.log))
  rw [subSeq_cons_other e _ he]; exact h

theorem InOrder.of_set {s s' : TSt} (h : InOrder s) (t : Nat) (x : Task) (ht : s'.tasks = s.tasks.set t x)
    (hq : s'.queue = s.queue) (hl : s'.log = s.log) (hc : x.coro = (s.task t).coro) : InOrder s' := by
  unfold InOrder startSeq at *
  rw [ht, hq, hl, map_coro_set _ _ _ (by rw [← task_eq_taskOf]; exact hc)]; exact h

theorem InOrder.cancelTask {s : TSt} (h : InOrder s) (t : Nat) : InOrder (s.cancelTask t) := by
  unfold TSt.cancelTask
  simp only []
  split
  · exact h
  · exact h.of_set t _ rfl rfl rfl rfl
  · split
    · exact h
    · exact h.of_set t _ rfl rfl rfl rfl

theorem InOrder.finishTask {s : TSt} (h : InOrder s) (t : Nat) : InOrder (finishTask s t) := by
  unfold Ea.finishTask
  exact h.of_set t _ rfl rfl rfl rfl

theorem InOrder.clearCur {s : TSt} (h : InOrder s) (done : Option Nat) : InOrder (clearCur s done) := by
  unfold Ea.clearCur; split
  · exact h.of_eq rfl rfl rfl
  · exact h

/-- the head of the queue becomes the newest task: the sequence is the same list -/
theorem InOrder.seqTaskDone {s : TSt} (h : InOrder s) (done : Option Nat) : InOrder (seqTaskDone s done) := by
  unfold Ea.seqTaskDone
  have h' := h.clearCur done
  generalize Ea.clearCur s done = s1 at h'
  split
  · exact h'
  · next c k rest hq =>
    unfold InOrder startSeq at *
    simp only [startNext, List.map_append, List.map_cons, List.map_nil]
    rw [hq] at h'
    simpa using h'

theorem InOrder.seqTaskStart {s : TSt} (h : InOrder s) : InOrder (seqTaskStart s) := by
  unfold Ea.seqTaskStart; split
  · exact h
  · exact h.seqTaskDone none

/-- after the call was recorded: the queue loses some entries (a sublist) and gets the new one at its end -/
theorem InOrder.enqueue {s : TSt} (h : InOrder s) (c key : Nat) (s' : TSt) (q0 : List (Nat × Nat))
    (hq0 : q0.Sublist s.queue) (ht : s'.tasks = s.tasks) (hq : s'.queue = q0 ++ [(c, key)])
    (hl : s'.log = .submitted c :: s.log ∨ ∃ e, subOf e = none ∧ s'.log = e :: .submitted c :: s.log) : InOrder s' := by
  unfold InOrder startSeq at *
  have hs : subSeq s'.log = subSeq s.log ++ [c] := by
    rcases hl with hl | ⟨e, he, hl⟩
    · rw [hl, subSeq_cons_sub]
    · rw [hl, subSeq_cons_other e _ he, subSeq_cons_sub]
  rw [hs, ht, hq, List.map_append, ← List.append_assoc]
  apply List.Sublist.append _ (List.Sublist.refl _)
  exact ((List.Sublist.refl _).append (hq0.map _)).trans h

/-- after the call was recorded: nothing else happens to tasks and queue (the new coroutine was dropped) -/
theorem InOrder.dropped {s : TSt} (h : InOrder s) (c : Nat) (s' : TSt) (ht : s'.tasks = s.tasks) (hq : s'.queue = s.queue)
    (hl : s'.log = .closed c :: .submitted c :: s.log) : InOrder s' := by
  unfold InOrder startSeq at *
  rw [ht, hq, hl, subSeq_cons_other _ _ rfl, subSeq_cons_sub]
  exact h.trans (List.sublist_append_left _ _)

def IsSeqKind : MgrKind → Prop
  | .sequential | .limitingSeq _ _ | .dedup => True
  | _ => False

/-- the order invariant of the sequential managers -/
structure SeqOrder (s : TSt) : Prop where
  seq : IsSeqKind s.kind
  ord : InOrder s

theorem filter_sublist' {α : Type} (p : α → Bool) (l : List α) : (l.filter p).Sublist l := List.filter_sublist

theorem SeqOrder.submit {s : TSt} (h : SeqOrder s) (c key : Nat) : SeqOrder (submit s c key) := by
  refine ⟨by rw [kind_submit]; exact h.seq, ?_⟩
  have hseq := h.seq
  have ho := h.ord
  unfold Ea.submit submitCore
  have hkind : (s.emit (.submitted c)).kind = s.kind := rfl
  cases hk : s.kind with
  | sequential =>
    simp only [hkind, hk]
    apply InOrder.seqTaskStart
    exact ho.enqueue c key _ s.queue (List.Sublist.refl _) rfl rfl (Or.inl rfl)
  | limitingSeq maxQ pol =>
    simp only [hkind, hk]
    split
    · cases pol with
      | skip => exact ho.dropped c _ rfl rfl rfl
      | skipFirst =>
        simp only []
        split
        · next hq =>
          have hq' : s.queue = [] := hq
          apply InOrder.seqTaskStart
          exact ho.enqueue c key _ [] (List.nil_sublist _) rfl rfl (Or.inl rfl)
        · next c0 k0 rest hq =>
          have hq' : s.queue = (c0, k0) :: rest := hq
          apply InOrder.seqTaskStart
          exact ho.enqueue c key _ rest (by rw [hq']; exact List.sublist_cons_self _ _) rfl rfl (Or.inr ⟨_, rfl, rfl⟩)
      | skipLast =>
        simp only []
        split
        · next hq =>
          apply InOrder.seqTaskStart
          exact ho.enqueue c key _ [] (List.nil_sublist _) rfl rfl (Or.inl rfl)
        · next c0 k0 hq =>
          apply InOrder.seqTaskStart
          exact ho.enqueue c key _ s.queue.dropLast (List.dropLast_sublist _) rfl rfl (Or.inr ⟨_, rfl, rfl⟩)
    · apply InOrder.seqTaskStart
      exact ho.enqueue c key _ s.queue (List.Sublist.refl _) rfl rfl (Or.inl rfl)
  | dedup =>
    simp only [hkind, hk]
    split
    · apply InOrder.seqTaskStart
      exact ho.enqueue c key _ (s.queue.filter (fun x => x.2 ≠ key)) (filter_sublist' _ _) rfl rfl (Or.inr ⟨_, rfl, rfl⟩)
    · apply InOrder.seqTaskStart
      exact ho.enqueue c key _ s.queue (List.Sublist.refl _) rfl rfl (Or.inl rfl)
  | parallel => rw [hk] at hseq; exact hseq.elim
  | limitingPar _ _ => rw [hk] at hseq; exact hseq.elim

theorem SeqOrder.of_eq {s s' : TSt} (h : SeqOrder s) (ht : s'.tasks = s.tasks) (hq : s'.queue = s.queue) (hl : s'.log = s.log)
    (hk : s'.kind = s.kind) : SeqOrder s' := ⟨by rw [hk]; exact h.seq, h.ord.of_eq ht hq hl⟩

theorem SeqOrder.submitAll : ∀ (subs : List (Nat × Nat)) {s : TSt}, SeqOrder s → SeqOrder (submitAll s subs)
  | [], _, h => h
  | (c, k) :: rest, _, h => by unfold Ea.submitAll; exact SeqOrder.submitAll rest (h.submit c k)

theorem SeqOrder.managerDone {s : TSt} (h : SeqOrder s) (t : Nat) : SeqOrder (managerDone s t) := by
  refine ⟨by rw [kind_managerDone]; exact h.seq, ?_⟩
  have hseq := h.seq
  unfold Ea.managerDone
  have h1 : InOrder (s.setTask t { s.task t with delivered := true }) := h.ord.of_set t _ rfl rfl rfl rfl
  have hp : IsSeqKind (s.setTask t { s.task t with delivered := true }).kind := hseq
  simp only []
  split
  · exact h1.seqTaskDone _
  · exact h1.seqTaskDone _
  · exact h1.seqTaskDone _
  · next hk => rw [hk] at hp; exact hp.elim
  · next hk => rw [hk] at hp; exact hp.elim

theorem SeqOrder.runReady {s : TSt} (h : SeqOrder s) (r : Ready) : SeqOrder (runReady s r) := by
  refine ⟨by rw [kind_runReady]; exact h.seq, ?_⟩
  have ho := h.ord
  cases r with
  | step t =>
    simp only [Ea.runReady]
    split
    · exact ho
    · split
      · exact (ho.emit _ rfl).finishTask t
      · apply InOrder.emit _ _ rfl
        exact ho.of_set t _ rfl rfl rfl rfl
  | resume t fail last =>
    simp only [Ea.runReady]
    split
    · exact ho
    · have h1 := (SeqOrder.submitAll last.inside h).ord
      apply InOrder.finishTask
      apply InOrder.emit
      · split
        · exact h1
        · exact h1.of_eq rfl rfl rfl
      · split <;> rfl
  | resumeCancel t =>
    simp only [Ea.runReady]
    split
    · exact ho
    · exact (ho.emit _ rfl).finishTask t
  | doneCb t => exact (h.managerDone t).ord
  | listener subs => exact (SeqOrder.submitAll subs h).ord

theorem SeqOrder.drain : ∀ (n : Nat) {s : TSt}, SeqOrder s → SeqOrder (drain n s)
  | 0, _, h => h
  | n + 1, s, h => by
    unfold Ea.drain
    split
    · exact h
    · apply SeqOrder.drain n
      apply SeqOrder.runReady
      exact h.of_eq rfl rfl rfl rfl

theorem SeqOrder.tstep {s : TSt} (h : SeqOrder s) (op : TOp) : SeqOrder (tstep s op) := by
  apply SeqOrder.drain
  cases op with
  | submit c k => exact h.submit c k
  | complete t fail last =>
    simp only [Ea.applyOp]
    split
    · exact h.of_eq rfl rfl rfl rfl
    · exact h
  | cancel t => exact ⟨by rw [show (Ea.applyOp s (.cancel t)) = s.cancelTask t from rfl, kind_cancelTask]; exact h.seq, h.ord.cancelTask t⟩

/-- **submission order**: in every state a sequential manager can reach, the coroutines that were given a task, in
the order in which the tasks were created, followed by the coroutines that are still waiting, in queue order, form a
subsequence of the coroutines in the order in which they were handed to `create_task` -/
theorem seq_order_reachable (k : MgrKind) (hk : IsSeqKind k) (ops : List TOp) : SeqOrder (ops.foldl tstep { kind := k }) := by
  suffices h : ∀ s, SeqOrder s → SeqOrder (ops.foldl tstep s) from
    h _ ⟨hk, by simp [InOrder, startSeq]⟩
  induction ops with
  | nil => intro s h; exact h
  | cons op ops ih => intro s h; exact ih _ (h.tstep op)

end Ea
