import EaModel.Lemmas.Timer
/-!
# Failures of user code have no effect but their report (C10)

`St.clean` removes the failure injection (callables and callbacks that raise) and the reports of such failures
from the log. Every function of the model commutes with it: the run with failures is the run without failures
plus the reports.
-/
namespace Ea

/-- a report of a raising callable or callback -/
def isInj : Ev → Bool
  | .exc n => n == "CallableError" || n == "CallbackError"
  | _ => false

def St.clean (s : St) : St :=
  { s with cbFail := [], jobs := fun i => { s.jobs i with execFail := [] }, log := s.log.filter (fun e => !isInj e) }

theorem clean_emit (s : St) (e : Ev) (h : isInj e = false) : (s.emit e).clean = s.clean.emit e := by
  simp [St.clean, St.emit, h]

theorem clean_emit_inj (s : St) (e : Ev) (h : isInj e = true) : (s.emit e).clean = s.clean := by
  simp [St.clean, St.emit, h]

@[simp] theorem clean_now (s : St) : s.clean.now = s.now := rfl
@[simp] theorem clean_cbFail (s : St) : s.clean.cbFail = [] := rfl
@[simp] theorem clean_queue (s : St) : s.clean.queue = s.queue := rfl
@[simp] theorem clean_enabled (s : St) : s.clean.enabled = s.enabled := rfl
@[simp] theorem clean_timer (s : St) : s.clean.timer = s.timer := rfl
@[simp] theorem clean_store (s : St) : s.clean.store = s.store := rfl
@[simp] theorem clean_env (s : St) : s.clean.env = s.env := rfl
theorem clean_job (s : St) (j : Nat) : s.clean.job j = { s.job j with execFail := [] } := rfl
@[simp] theorem clean_nr (s : St) (j : Nat) : s.clean.nr j = s.nr j := rfl

theorem runCbs_cons (fin : Bool) (j c : Nat) (cs : List Nat) (s : St) :
    runCbs fin j (c :: cs) s = runCbs fin j cs
      (if s.cbFail.contains c then
        (s.emit (.cb fin c j (s.job j).status (s.job j).nextRun s.now)).emit (.exc "CallbackError")
       else s.emit (.cb fin c j (s.job j).status (s.job j).nextRun s.now)) := rfl

theorem runCbs_clean (fin : Bool) (j : Nat) (cs : List Nat) (s : St) :
    (runCbs fin j cs s).clean = runCbs fin j cs s.clean := by
  induction cs generalizing s with
  | nil => rfl
  | cons c cs ih =>
    rw [runCbs_cons, runCbs_cons, ih]
    congr 1
    have hcb : isInj (Ev.cb fin c j (s.job j).status (s.job j).nextRun s.now) = false := rfl
    have hex : isInj (Ev.exc "CallbackError") = true := by decide
    simp only [clean_cbFail, List.contains_nil, Bool.false_eq_true, if_false, clean_now]
    split
    · rw [clean_emit_inj _ _ hex, clean_emit _ _ hcb]; rfl
    · rw [clean_emit _ _ hcb]; rfl


theorem clean_setJob (s : St) (j : Nat) (b : Job) : (s.setJob j b).clean = s.clean.setJob j { b with execFail := [] } := by
  simp only [St.clean, St.setJob]
  congr 1
  funext i
  split <;> rfl

theorem setNextRun_none_eq (s : St) (j : Nat) :
    setNextRun s j none =
      (runCbs false j (s.job j).onUpdate (s.setJob j { s.job j with nextRun := none, status := .paused }), none) := by
  unfold setNextRun
  simp [St.job, St.setJob]

theorem setNextRun_some_ge (s : St) (j : Nat) (t : Int) (h : ¬ t < s.now - PAST_TOLERANCE) :
    setNextRun s j (some t) =
      (runCbs false j (s.job j).onUpdate (s.setJob j { s.job j with nextRun := some t, status := .running }), none) := by
  unfold setNextRun
  simp [St.job, St.setJob, h]

theorem setNextRun_clean (s : St) (j : Nat) (nr : Option Int) :
    (setNextRun s j nr).1.clean = (setNextRun s.clean j nr).1 ∧ (setNextRun s j nr).2 = (setNextRun s.clean j nr).2 := by
  cases nr with
  | none =>
    rw [setNextRun_none_eq, setNextRun_none_eq]
    refine ⟨?_, rfl⟩
    simp only []
    rw [runCbs_clean, clean_setJob]
    rfl
  | some t =>
    by_cases h : t < s.now - PAST_TOLERANCE
    · rw [setNextRun_err_of_lt s j t h, setNextRun_err_of_lt s.clean j t h]
      exact ⟨rfl, rfl⟩
    · rw [setNextRun_some_ge s j t h, setNextRun_some_ge s.clean j t h]
      refine ⟨?_, rfl⟩
      simp only []
      rw [runCbs_clean, clean_setJob]
      rfl


theorem clean_nr_fun (s : St) : s.clean.nr = s.nr := rfl
@[simp] theorem setJob_env (s : St) (j : Nat) (b : Job) : (s.setJob j b).env = s.env := rfl
@[simp] theorem setJob_now (s : St) (j : Nat) (b : Job) : (s.setJob j b).now = s.now := rfl

/-- does `remove_job` call `_set_timer`? (the queue was empty, became empty, or lost its head) -/
def rmCalls (q : List Nat) (j : Nat) : Bool :=
  match q with
  | [] => true
  | h :: _ =>
    match q.erase j with
    | [] => true
    | _ :: _ => h == j

theorem removeJob_eq (setT : St → St) (s : St) (j : Nat) :
    removeJob setT s j =
      if rmCalls s.queue j then setT { s with queue := s.queue.erase j } else { s with queue := s.queue.erase j } := by
  unfold removeJob rmCalls
  cases hq : s.queue with
  | nil =>
    have : ({ s with queue := ([] : List Nat).erase j } : St) = s := by
      cases s; simp_all
    simp only [this, if_true]
  | cons h rest =>
    simp only []
    cases hq2 : (h :: rest).erase j with
    | nil => simp
    | cons a b =>
      simp only []
      by_cases hh : h = j
      · simp [hh]
      · simp [hh]

/-- the state `job_finish` hands to the `on_finished` callbacks -/
def finState (s : St) (j : Nat) : St :=
  let b := s.job j
  let s := s.setJob j { b with linked := false, status := .finished, nextRun := none, inStore := false }
  if b.inStore then { s with store := s.store.filter (fun kv => kv.1 ≠ b.key) } else s

theorem jobFinish_eq (setT : St → St) (s : St) (j : Nat) (hf : (s.job j).status ≠ .finished) :
    jobFinish setT s j =
      (runCbs true j ((removeJob setT s j).job j).onFinished (finState (removeJob setT s j) j), none) := by
  unfold jobFinish finState
  rw [if_neg hf]

theorem finState_clean (s : St) (j : Nat) : (finState s j).clean = finState s.clean j := by
  have hin : (s.clean.job j).inStore = (s.job j).inStore := rfl
  by_cases h : (s.job j).inStore = true
  · have a : finState s j = { (s.setJob j { s.job j with linked := false, status := .finished, nextRun := none, inStore := false }) with
        store := s.store.filter (fun kv => kv.1 ≠ (s.job j).key) } := by
      unfold finState; simp only [h, if_true]; rfl
    have b : finState s.clean j = { (s.clean.setJob j { s.clean.job j with linked := false, status := .finished, nextRun := none, inStore := false }) with
        store := s.store.filter (fun kv => kv.1 ≠ (s.job j).key) } := by
      unfold finState; simp only [hin, h, if_true]; rfl
    rw [a, b]
    simp only [St.clean, St.setJob]
    congr 1
    funext i
    by_cases e : i = j
    · simp only [e, if_true]; rfl
    · simp only [e, if_false]
  · have a : finState s j = s.setJob j { s.job j with linked := false, status := .finished, nextRun := none, inStore := false } := by
      unfold finState; simp only [h, if_false]; rfl
    have b : finState s.clean j = s.clean.setJob j { s.clean.job j with linked := false, status := .finished, nextRun := none, inStore := false } := by
      unfold finState; simp only [hin, h, if_false]; rfl
    rw [a, b, clean_setJob]; rfl

/-- the state in which `execute` calls `update_next` -/
def preExec (s : St) (j : Nat) (due : Int) : St :=
  let b := s.job j
  let t := s.now
  let s := s.emit (.exec j t due)
  let s := s.setJob j { b with execs := b.execs + 1, lastRun := some t }
  if b.execFail.contains b.execs then s.emit (.exc "CallableError") else s

/-- what `execute` does with the result of `update_next` -/
def postExec (r : R) (j : Nat) (due : Int) : St :=
  match r with
  | (s, none) => s
  | (s, some e) =>
    let s := s.emit (.exc e.name)
    if (s.job j).status = .running ∧ (s.job j).nextRun = some due then (setNextRun s j none).1 else s

theorem execute_eq (setT : St → St) (s : St) (j : Nat) (due : Int) :
    execute setT s j due = postExec (updateNext setT (preExec s j due) j) j due := rfl

theorem err_name_not_inj (e : Err) : isInj (.exc e.name) = false := by
  cases e <;> simp [isInj, Err.name]

theorem preExec_clean (s : St) (j : Nat) (due : Int) : (preExec s j due).clean = preExec s.clean j due := by
  have hb : preExec s.clean j due =
      (s.clean.emit (.exec j s.now due)).setJob j { s.clean.job j with execs := (s.job j).execs + 1, lastRun := some s.now } := by
    unfold preExec
    simp [clean_job]
  rw [hb]
  unfold preExec
  simp only []
  split
  · rw [clean_emit_inj _ _ (by decide), clean_setJob, clean_emit _ _ rfl]; rfl
  · rw [clean_setJob, clean_emit _ _ rfl]; rfl

theorem postExec_clean (s1 s2 : St) (e : Option Err) (j : Nat) (due : Int) (h : s1.clean = s2) :
    (postExec (s1, e) j due).clean = postExec (s2, e) j due := by
  subst h
  cases e with
  | none => rfl
  | some e =>
    unfold postExec
    simp only []
    have hc : (s1.emit (Ev.exc e.name)).clean = s1.clean.emit (Ev.exc e.name) := clean_emit _ _ (err_name_not_inj e)
    by_cases hcond : ((s1.emit (Ev.exc e.name)).job j).status = .running ∧ ((s1.emit (Ev.exc e.name)).job j).nextRun = some due
    · have hcond' : ((s1.clean.emit (Ev.exc e.name)).job j).status = .running ∧
          ((s1.clean.emit (Ev.exc e.name)).job j).nextRun = some due := hcond
      simp only [hcond, hcond', and_self, if_true]
      rw [(setNextRun_clean _ j none).1, hc]
    · have hcond' : ¬ (((s1.clean.emit (Ev.exc e.name)).job j).status = .running ∧
          ((s1.clean.emit (Ev.exc e.name)).job j).nextRun = some due) := hcond
      simp only [hcond, hcond', if_false]
      exact hc

/-- `_set_timer` commutes with `clean` -/
def TimerFnC (setT : St → St) : Prop := ∀ s, (setT s).clean = setT s.clean

section withTimer
variable (setT : St → St) (hT : TimerFnC setT)
include hT

theorem removeJob_clean (s : St) (j : Nat) : (removeJob setT s j).clean = removeJob setT s.clean j := by
  rw [removeJob_eq setT s j, removeJob_eq setT s.clean j]
  simp only [clean_queue]
  by_cases hc : rmCalls s.queue j = true
  · simp only [hc, if_true]; rw [hT]; rfl
  · simp only [hc, if_false]; rfl

theorem addJob_clean (s : St) (j : Nat) : (addJob setT s j).clean = addJob setT s.clean j := by
  have hs : (s.clean.job j).status = (s.job j).status := rfl
  by_cases hr : (s.job j).status = .running
  · by_cases hh : (insort s.nr j s.queue).head? = some j
    · have a : addJob setT s j = setT { s with queue := insort s.nr j s.queue } := by simp [addJob, hr, hh]
      have b : addJob setT s.clean j = setT { s.clean with queue := insort s.nr j s.queue } := by
        simp [addJob, hs, hr, hh, clean_nr_fun]
      rw [a, b, hT]; rfl
    · have a : addJob setT s j = { s with queue := insort s.nr j s.queue } := by simp [addJob, hr, hh]
      have b : addJob setT s.clean j = { s.clean with queue := insort s.nr j s.queue } := by
        simp [addJob, hs, hr, hh, clean_nr_fun]
      rw [a, b]; rfl
  · have a : addJob setT s j = s := by simp [addJob, hr]
    have b : addJob setT s.clean j = s.clean := by simp [addJob, hs, hr]
    rw [a, b]

theorem jobFinish_clean (s : St) (j : Nat) :
    (jobFinish setT s j).1.clean = (jobFinish setT s.clean j).1 ∧ (jobFinish setT s j).2 = (jobFinish setT s.clean j).2 := by
  by_cases hf : (s.job j).status = .finished
  · have a : jobFinish setT s j = (s, some .alreadyFinished) := by unfold jobFinish; rw [if_pos hf]
    have b : jobFinish setT s.clean j = (s.clean, some .alreadyFinished) := by
      unfold jobFinish; rw [if_pos (show (s.clean.job j).status = .finished from hf)]
    rw [a, b]; exact ⟨rfl, rfl⟩
  · rw [jobFinish_eq setT s j hf, jobFinish_eq setT s.clean j (show (s.clean.job j).status ≠ .finished from hf)]
    refine ⟨?_, rfl⟩
    simp only []
    rw [runCbs_clean, finState_clean, ← removeJob_clean setT hT]
    rfl

theorem updateNext_clean (s : St) (j : Nat) :
    (updateNext setT s j).1.clean = (updateNext setT s.clean j).1 ∧
    (updateNext setT s j).2 = (updateNext setT s.clean j).2 := by
  have hk' : (s.clean.job j).kind = (s.job j).kind := rfl
  cases hk : (s.job j).kind with
  | once t =>
    have a : updateNext setT s j = jobFinish setT s j := by unfold updateNext; simp only [hk]
    have b : updateNext setT s.clean j = jobFinish setT s.clean j := by unfold updateNext; simp only [hk', hk]
    rw [a, b]; exact jobFinish_clean setT hT s j
  | countdown =>
    have a : updateNext setT s j = setNextRun s j none := by unfold updateNext; simp only [hk]
    have b : updateNext setT s.clean j = setNextRun s.clean j none := by unfold updateNext; simp only [hk', hk]
    rw [a, b]; exact setNextRun_clean s j none
  | recurring p =>
    by_cases hl : (s.job j).linked = true
    · by_cases hfail : ((s.job j).trigFail.contains (s.job j).calls || decide ((s.job j).trigFailFrom ≤ (s.job j).calls)) = true
      · have a : updateNext setT s j =
            (s.setJob j { s.job j with kind := .recurring (p.anchorAt s.now), calls := (s.job j).calls + 1 }, some .triggerFailed) := by
          unfold updateNext; simp only [hk, hl, hfail]; rfl
        have b : updateNext setT s.clean j =
            (s.clean.setJob j { s.clean.job j with kind := .recurring (p.anchorAt s.now), calls := (s.job j).calls + 1 }, some .triggerFailed) := by
          unfold updateNext
          simp only [hk', hk, show (s.clean.job j).linked = true from hl]
          have : ((s.clean.job j).trigFail.contains (s.clean.job j).calls || decide ((s.clean.job j).trigFailFrom ≤ (s.clean.job j).calls)) = true := hfail
          simp only [this]; rfl
        rw [a, b]
        refine ⟨?_, rfl⟩
        simp only []
        rw [clean_setJob]; rfl
      · have hfail' : ((s.clean.job j).trigFail.contains (s.clean.job j).calls ||
            decide ((s.clean.job j).trigFailFrom ≤ (s.clean.job j).calls)) = true ↔ False := by
          constructor
          · intro h; exact hfail h
          · intro h; exact h.elim
        have hf2 : ¬ ((s.job j).calls ∈ (s.job j).trigFail ∨ (s.job j).trigFailFrom ≤ (s.job j).calls) := by
          simpa using hfail
        have hf3 : ¬ ((s.clean.job j).calls ∈ (s.clean.job j).trigFail ∨ (s.clean.job j).trigFailFrom ≤ (s.clean.job j).calls) := hf2
        cases hg : getNext s.env (p.anchorAt s.now) s.now with
        | error e =>
          have a : updateNext setT s j =
              (s.setJob j { s.job j with kind := .recurring (p.anchorAt s.now), calls := (s.job j).calls + 1 }, some e) := by
            unfold updateNext; simp [hk, hl, hf2, hg]
          have b : updateNext setT s.clean j =
              (s.clean.setJob j { s.clean.job j with kind := .recurring (p.anchorAt s.now), calls := (s.job j).calls + 1 }, some e) := by
            unfold updateNext
            simp [hk', hk, show (s.clean.job j).linked = true from hl, hf3, hg]
            rfl
          rw [a, b]
          refine ⟨?_, rfl⟩
          simp only []
          rw [clean_setJob]; rfl
        | ok n =>
          have a : updateNext setT s j =
              setNextRun (s.setJob j { s.job j with kind := .recurring (p.anchorAt s.now), calls := (s.job j).calls + 1 }) j (some n) := by
            unfold updateNext; simp [hk, hl, hf2, hg]
          have b : updateNext setT s.clean j =
              setNextRun (s.clean.setJob j { s.clean.job j with kind := .recurring (p.anchorAt s.now), calls := (s.job j).calls + 1 }) j (some n) := by
            unfold updateNext
            simp [hk', hk, show (s.clean.job j).linked = true from hl, hf3, hg]
            rfl
          rw [a, b]
          have := setNextRun_clean (s.setJob j { s.job j with kind := .recurring (p.anchorAt s.now), calls := (s.job j).calls + 1 }) j (some n)
          rw [clean_setJob] at this
          exact this
    · have a : updateNext setT s j = (s, some .notLinked) := by
        unfold updateNext; simp only [hk]; simp [hl]
      have b : updateNext setT s.clean j = (s.clean, some .notLinked) := by
        unfold updateNext; simp only [hk', hk]; simp [show (s.clean.job j).linked = (s.job j).linked from rfl, hl]
      rw [a, b]; exact ⟨rfl, rfl⟩

theorem execute_clean (s : St) (j : Nat) (due : Int) :
    (execute setT s j due).clean = execute setT s.clean j due := by
  rw [execute_eq, execute_eq, ← preExec_clean]
  obtain ⟨h1, h2⟩ := updateNext_clean setT hT (preExec s j due) j
  have e1 : updateNext setT (preExec s j due) j = ((updateNext setT (preExec s j due) j).1, (updateNext setT (preExec s j due) j).2) := rfl
  have e2 : updateNext setT (preExec s j due).clean j =
      ((updateNext setT (preExec s j due).clean j).1, (updateNext setT (preExec s j due) j).2) := by rw [h2]
  rw [e1, e2]
  exact postExec_clean _ _ _ j due h1

end withTimer

def CSpec (f : Nat) : Prop := ∀ s, (runLoop f s).clean = runLoop f s.clean

theorem fatal_not_inj (e : Err) : isInj (.fatal e) = false := rfl

theorem setTimer_clean_of (fuel : Nat) (hrun : ∀ f, f < fuel → CSpec f) : TimerFnC (setTimer fuel) := by
  intro s
  cases hq : s.queue with
  | nil =>
    have a : setTimer fuel s = { s with timer := none } := by unfold setTimer; simp [hq]
    have b : setTimer fuel s.clean = { s.clean with timer := none } := by unfold setTimer; simp [hq]
    rw [a, b]; rfl
  | cons h rest =>
    by_cases hen : s.enabled = true
    · cases hnr : s.nr h with
      | none =>
        have hnr2 : (s.jobs h).nextRun = none := hnr
        have hnr3 : (s.clean.jobs h).nextRun = none := hnr
        have a : setTimer fuel s = ({ s with timer := none } : St).emit (.fatal .timeNotSet) := by
          unfold setTimer; simp [St.nr, hq, hen, hnr2, hnr3]
        have b : setTimer fuel s.clean = ({ s.clean with timer := none } : St).emit (.fatal .timeNotSet) := by
          unfold setTimer; simp [St.nr, hq, hen, hnr2, hnr3]
        rw [a, b, clean_emit _ _ (fatal_not_inj _)]; rfl
      | some nr =>
        have hnr2 : (s.jobs h).nextRun = some nr := hnr
        have hnr3 : (s.clean.jobs h).nextRun = some nr := hnr
        by_cases hle : nr ≤ s.now
        · cases fuel with
          | zero =>
            have a : setTimer 0 s = ({ s with timer := none } : St).emit (.fatal .recursion) := by
              unfold setTimer; simp [St.nr, hq, hen, hnr2, hnr3, hle]
            have b : setTimer 0 s.clean = ({ s.clean with timer := none } : St).emit (.fatal .recursion) := by
              unfold setTimer; simp [St.nr, hq, hen, hnr2, hnr3, hle]
            rw [a, b, clean_emit _ _ (fatal_not_inj _)]; rfl
          | succ f =>
            have a : setTimer (f + 1) s = runLoop f { s with timer := none } := by
              unfold setTimer; simp [St.nr, hq, hen, hnr2, hnr3, hle]
            have b : setTimer (f + 1) s.clean = runLoop f { s.clean with timer := none } := by
              unfold setTimer; simp [St.nr, hq, hen, hnr2, hnr3, hle]
            rw [a, b, hrun f (by omega)]; rfl
        · have a : setTimer fuel s = { s with timer := some nr } := by
            unfold setTimer; simp [St.nr, hq, hen, hnr2, hnr3, hle]
          have b : setTimer fuel s.clean = { s.clean with timer := some nr } := by
            unfold setTimer; simp [St.nr, hq, hen, hnr2, hnr3, hle]
          rw [a, b]; rfl
    · have hen' : s.enabled = false := by simpa using hen
      have a : setTimer fuel s = { s with timer := none } := by unfold setTimer; simp [hq, hen']
      have b : setTimer fuel s.clean = { s.clean with timer := none } := by unfold setTimer; simp [hq, hen']
      rw [a, b]; rfl

theorem cSpec (fuel : Nat) : CSpec fuel := by
  induction fuel using Nat.strongRecOn with
  | _ fuel ih =>
    intro s
    have hst : ∀ f, f ≤ fuel → TimerFnC (setTimer f) :=
      fun f hf => setTimer_clean_of f (fun f' hf' => ih f' (by omega))
    cases hq : s.queue with
    | nil =>
      have a : runLoop fuel s = s := by unfold runLoop; simp [hq]
      have b : runLoop fuel s.clean = s.clean := by unfold runLoop; simp [hq]
      rw [a, b]
    | cons h rest =>
      cases hnr : s.nr h with
      | none =>
        have hnr2 : (s.jobs h).nextRun = none := hnr
        have hnr3 : (s.clean.jobs h).nextRun = none := hnr
        have a : runLoop fuel s = (s.emit (.exc Err.timeNotSet.name)).emit (.fatal .timeNotSet) := by
          unfold runLoop; simp [St.nr, hq, hnr2, hnr3]
        have b : runLoop fuel s.clean = (s.clean.emit (.exc Err.timeNotSet.name)).emit (.fatal .timeNotSet) := by
          unfold runLoop; simp [St.nr, hq, hnr2, hnr3]
        rw [a, b, clean_emit _ _ (fatal_not_inj _), clean_emit _ _ (err_name_not_inj _)]
      | some nr =>
        have hnr2 : (s.jobs h).nextRun = some nr := hnr
        have hnr3 : (s.clean.jobs h).nextRun = some nr := hnr
        by_cases hgt : nr > s.now
        · have a : runLoop fuel s = setTimer fuel s := by unfold runLoop; simp [St.nr, hq, hnr2, hnr3, hgt]
          have b : runLoop fuel s.clean = setTimer fuel s.clean := by unfold runLoop; simp [St.nr, hq, hnr2, hnr3, hgt]
          rw [a, b]; exact hst fuel (Nat.le_refl _) s
        · cases fuel with
          | zero =>
            have a : runLoop 0 s = s.emit (.fatal .recursion) := by unfold runLoop; simp [St.nr, hq, hnr2, hnr3, hgt]
            have b : runLoop 0 s.clean = s.clean.emit (.fatal .recursion) := by unfold runLoop; simp [St.nr, hq, hnr2, hnr3, hgt]
            rw [a, b, clean_emit _ _ (fatal_not_inj _)]
          | succ f =>
            have a : runLoop (f + 1) s =
                runLoop f (addJob (setTimer f) (execute (setTimer f) { s with queue := rest } h nr) h) := by
              conv => lhs; unfold runLoop
              simp [St.nr, hq, hnr2, hnr3, hgt]
            have b : runLoop (f + 1) s.clean =
                runLoop f (addJob (setTimer f) (execute (setTimer f) { s.clean with queue := rest } h nr) h) := by
              conv => lhs; unfold runLoop
              simp [St.nr, hq, hnr2, hnr3, hgt]
            have hT := hst f (by omega)
            rw [a, b, ih f (by omega), addJob_clean _ hT, execute_clean _ hT]
            rfl

theorem timerFnC_setTimer (f : Nat) : TimerFnC (setTimer f) := setTimer_clean_of f (fun f' _ => cSpec f')


/-! ### the public operations -/

/-- the same operation without failure injection -/
def Op.clean : Op → Op
  | .create j key spec _ tf tff => .create j key spec [] tf tff
  | .cbFails _ => .advance 0
  | op => op

theorem linkJob_clean (s : St) (j : Nat) :
    (linkJob s j).1.clean = (linkJob s.clean j).1 ∧ (linkJob s j).2 = (linkJob s.clean j).2 := by
  have hT := timerFnC_setTimer OPFUEL
  have hk' : (s.clean.job j).kind = (s.job j).kind := rfl
  -- the first step
  have first : ∀ (r r' : R), r.1.clean = r'.1 → r.2 = r'.2 →
      ((match r with
        | (s', none) => (addJob (setTimer OPFUEL) s' j, none)
        | (s', some e) => ((jobFinish (setTimer OPFUEL) s' j).1, some e)) : R).1.clean =
      ((match r' with
        | (s', none) => (addJob (setTimer OPFUEL) s' j, none)
        | (s', some e) => ((jobFinish (setTimer OPFUEL) s' j).1, some e)) : R).1 ∧
      ((match r with
        | (s', none) => (addJob (setTimer OPFUEL) s' j, none)
        | (s', some e) => ((jobFinish (setTimer OPFUEL) s' j).1, some e)) : R).2 =
      ((match r' with
        | (s', none) => (addJob (setTimer OPFUEL) s' j, none)
        | (s', some e) => ((jobFinish (setTimer OPFUEL) s' j).1, some e)) : R).2 := by
    intro r r' h1 h2
    obtain ⟨a, e⟩ := r
    obtain ⟨a', e'⟩ := r'
    simp only at h1 h2
    subst h1 h2
    cases e with
    | none => exact ⟨addJob_clean _ hT a j, rfl⟩
    | some e => exact ⟨(jobFinish_clean _ hT a j).1, rfl⟩
  unfold linkJob
  simp only []
  cases hk : (s.job j).kind with
  | once t =>
    simp only [hk', hk]
    exact first _ _ (setNextRun_clean s j (some t)).1 (setNextRun_clean s j (some t)).2
  | countdown =>
    simp only [hk', hk]
    exact first _ _ (updateNext_clean _ hT s j).1 (updateNext_clean _ hT s j).2
  | recurring p =>
    simp only [hk', hk]
    exact first _ _ (updateNext_clean _ hT s j).1 (updateNext_clean _ hT s j).2


theorem clean_storeAdd_setJob (s : St) (key : Option Nat) (j : Nat) (b : Job) :
    ((storeAdd s key j).setJob j b).clean = (storeAdd s.clean key j).setJob j { b with execFail := [] } := by
  rw [clean_setJob]
  cases key <;> rfl

theorem createJob_clean (s : St) (j : Nat) (key : Option Nat) (spec : JobSpec) (ef tf : List Nat) (tff : Nat) :
    (createJob s j key spec ef tf tff).1.clean = (createJob s.clean j key spec [] tf tff).1 ∧
    (createJob s j key spec ef tf tff).2 = (createJob s.clean j key spec [] tf tff).2 := by
  have hs : (s.clean.job j).status = (s.job j).status := rfl
  have hd : s.clean.dupKey key = s.dupKey key := by cases key <;> rfl
  by_cases h1 : (s.job j).status ≠ .created
  · have a : createJob s j key spec ef tf tff = (s, some .valueError) := by unfold createJob; rw [if_pos h1]
    have b : createJob s.clean j key spec [] tf tff = (s.clean, some .valueError) := by
      unfold createJob; rw [if_pos (show (s.clean.job j).status ≠ .created from h1)]
    rw [a, b]; exact ⟨rfl, rfl⟩
  · by_cases h2 : spec.bad = true
    · have a : createJob s j key spec ef tf tff = (s, some .valueError) := by
        unfold createJob; rw [if_neg h1, if_pos h2]
      have b : createJob s.clean j key spec [] tf tff = (s.clean, some .valueError) := by
        unfold createJob; rw [if_neg (show ¬ (s.clean.job j).status ≠ .created from h1), if_pos h2]
      rw [a, b]; exact ⟨rfl, rfl⟩
    · by_cases h3 : s.dupKey key = true
      · have a : createJob s j key spec ef tf tff = (s, some .keyError) := by
          unfold createJob; rw [if_neg h1, if_neg h2, if_pos h3]
        have b : createJob s.clean j key spec [] tf tff = (s.clean, some .keyError) := by
          unfold createJob
          rw [if_neg (show ¬ (s.clean.job j).status ≠ .created from h1), if_neg h2, if_pos (by rw [hd]; exact h3)]
        rw [a, b]; exact ⟨rfl, rfl⟩
      · have a : createJob s j key spec ef tf tff =
            linkJob ((storeAdd s key j).setJob j (newJob key spec ef tf tff)) j := by
          unfold createJob; rw [if_neg h1, if_neg h2, if_neg h3]
        have b : createJob s.clean j key spec [] tf tff =
            linkJob ((storeAdd s.clean key j).setJob j (newJob key spec [] tf tff)) j := by
          unfold createJob
          rw [if_neg (show ¬ (s.clean.job j).status ≠ .created from h1), if_neg h2, if_neg (by rw [hd]; exact h3)]
        rw [a, b]
        have := linkJob_clean ((storeAdd s key j).setJob j (newJob key spec ef tf tff)) j
        rw [clean_storeAdd_setJob] at this
        exact this

theorem runJobs_clean (fuel : Nat) (s : St) : (runJobs fuel s).clean = runJobs fuel s.clean := by
  unfold runJobs
  rw [cSpec fuel]; rfl

theorem fireDue_clean (s : St) : (fireDue s).clean = fireDue s.clean := by
  unfold fireDue
  simp only [clean_timer, clean_now]
  cases ht : s.timer with
  | none => rfl
  | some t =>
    simp only []
    by_cases hle : t ≤ s.now
    · simp only [hle, if_true]; exact runJobs_clean OPFUEL s
    · simp only [hle, if_false]

theorem sleepLoop_clean (n : Nat) (target : Int) (s : St) : (sleepLoop n target s).clean = sleepLoop n target s.clean := by
  induction n generalizing s with
  | zero =>
    show (s.emit (.fatal .recursion)).clean = s.clean.emit (.fatal .recursion)
    exact clean_emit _ _ rfl
  | succ n ih =>
    cases ht : s.timer with
    | none =>
      have a : sleepLoop (n + 1) target s = { s with now := target } := by
        conv => lhs; unfold sleepLoop
        simp [ht]
      have b : sleepLoop (n + 1) target s.clean = { s.clean with now := target } := by
        conv => lhs; unfold sleepLoop
        simp [ht]
      rw [a, b]; rfl
    | some t =>
      by_cases hle : t ≤ target
      · have a : sleepLoop (n + 1) target s =
            sleepLoop n target (runJobs OPFUEL { s with now := if t > s.now then t else s.now }) := by
          conv => lhs; unfold sleepLoop
          simp [ht, hle]
        have b : sleepLoop (n + 1) target s.clean =
            sleepLoop n target (runJobs OPFUEL { s.clean with now := if t > s.now then t else s.now }) := by
          conv => lhs; unfold sleepLoop
          simp [ht, hle]
        rw [a, b, ih, runJobs_clean]; rfl
      · have a : sleepLoop (n + 1) target s = { s with now := target } := by
          conv => lhs; unfold sleepLoop
          simp [ht, hle]
        have b : sleepLoop (n + 1) target s.clean = { s.clean with now := target } := by
          conv => lhs; unfold sleepLoop
          simp [ht, hle]
        rw [a, b]; rfl


theorem isRecurring_clean (s : St) (j : Nat) : isRecurring (s.clean.job j) = isRecurring (s.job j) := rfl
theorem isCountdown_clean (s : St) (j : Nat) : isCountdown (s.clean.job j) = isCountdown (s.job j) := rfl

/-- what an operation returns and does is, up to the reports of raising callables / callbacks, what the same
operation does in the history without those failures -/
theorem step_clean (s : St) (op : Op) :
    (step s op).1.clean = (step s.clean op.clean).1 ∧ (step s op).2 = (step s.clean op.clean).2 := by
  have hT := timerFnC_setTimer OPFUEL
  have hst : (fun j => (s.clean.job j).status) = (fun j => (s.job j).status) := rfl
  have pauseLike : ∀ j, (setNextRun (removeJob (setTimer OPFUEL) s j) j none).1.clean =
      (setNextRun (removeJob (setTimer OPFUEL) s.clean j) j none).1 ∧
      (setNextRun (removeJob (setTimer OPFUEL) s j) j none).2 = (setNextRun (removeJob (setTimer OPFUEL) s.clean j) j none).2 := by
    intro j
    rw [← removeJob_clean _ hT]
    exact setNextRun_clean _ j none
  have updJob : ∀ j (s1 : St), (addJob (setTimer OPFUEL) (removeJob (setTimer OPFUEL) s1 j) j).clean =
      addJob (setTimer OPFUEL) (removeJob (setTimer OPFUEL) s1.clean j) j := by
    intro j s1
    rw [addJob_clean _ hT, removeJob_clean _ hT]
  cases op with
  | create j key spec ef tf tff => exact createJob_clean s j key spec ef tf tff
  | cancel j => exact jobFinish_clean _ hT s j
  | pause j =>
    show (step s (.pause j)).1.clean = (step s.clean (.pause j)).1 ∧ (step s (.pause j)).2 = (step s.clean (.pause j)).2
    unfold step
    simp only [isRecurring_clean]
    by_cases h1 : (!isRecurring (s.job j)) = true
    · simp only [h1, if_true]; first | exact ⟨rfl, rfl⟩ | exact ⟨rfl, trivial⟩ | exact ⟨trivial, trivial⟩ | trivial
    · simp only [h1, if_false]
      try simp only [Bool.false_eq_true, if_false]
      by_cases h2 : (s.job j).status = .finished
      · rw [if_pos h2, if_pos (show (s.clean.job j).status = .finished from h2)]; exact ⟨rfl, rfl⟩
      · rw [if_neg h2, if_neg (show ¬ (s.clean.job j).status = .finished from h2)]; exact pauseLike j
  | stop j =>
    show (step s (.stop j)).1.clean = (step s.clean (.stop j)).1 ∧ (step s (.stop j)).2 = (step s.clean (.stop j)).2
    unfold step
    simp only [isCountdown_clean]
    by_cases h1 : (!isCountdown (s.job j)) = true
    · simp only [h1, if_true]; first | exact ⟨rfl, rfl⟩ | exact ⟨rfl, trivial⟩ | exact ⟨trivial, trivial⟩ | trivial
    · simp only [h1, if_false]
      try simp only [Bool.false_eq_true, if_false]
      by_cases h2 : (s.job j).status = .finished
      · rw [if_pos h2, if_pos (show (s.clean.job j).status = .finished from h2)]; exact ⟨rfl, rfl⟩
      · rw [if_neg h2, if_neg (show ¬ (s.clean.job j).status = .finished from h2)]; exact pauseLike j
  | resume j =>
    show (step s (.resume j)).1.clean = (step s.clean (.resume j)).1 ∧ (step s (.resume j)).2 = (step s.clean (.resume j)).2
    unfold step
    simp only [isRecurring_clean]
    by_cases h1 : (!isRecurring (s.job j)) = true
    · simp only [h1, if_true]; first | exact ⟨rfl, rfl⟩ | exact ⟨rfl, trivial⟩ | exact ⟨trivial, trivial⟩ | trivial
    · simp only [h1, if_false]
      try simp only [Bool.false_eq_true, if_false]
      by_cases h2 : (s.job j).status = .finished
      · rw [if_pos h2, if_pos (show (s.clean.job j).status = .finished from h2)]; exact ⟨rfl, rfl⟩
      · rw [if_neg h2, if_neg (show ¬ (s.clean.job j).status = .finished from h2)]
        obtain ⟨u1, u2⟩ := updateNext_clean _ hT s j
        generalize updateNext (setTimer OPFUEL) s j = r at u1 u2
        generalize updateNext (setTimer OPFUEL) s.clean j = r' at u1 u2
        obtain ⟨a, e⟩ := r
        obtain ⟨a', e'⟩ := r'
        simp only at u1 u2
        subst u1 u2
        cases e with
        | some e => exact ⟨rfl, rfl⟩
        | none => exact ⟨updJob j a, rfl⟩
  | reset j =>
    show (step s (.reset j)).1.clean = (step s.clean (.reset j)).1 ∧ (step s (.reset j)).2 = (step s.clean (.reset j)).2
    unfold step
    simp only [isCountdown_clean]
    by_cases h1 : (!isCountdown (s.job j)) = true
    · simp only [h1, if_true]; first | exact ⟨rfl, rfl⟩ | exact ⟨rfl, trivial⟩ | exact ⟨trivial, trivial⟩ | trivial
    · simp only [h1, if_false]
      try simp only [Bool.false_eq_true, if_false]
      by_cases h2 : (!(s.job j).linked) = true
      · rw [if_pos h2, if_pos (show (!(s.clean.job j).linked) = true from h2)]; exact ⟨rfl, rfl⟩
      · rw [if_neg h2, if_neg (show ¬ (!(s.clean.job j).linked) = true from h2)]
        obtain ⟨u1, u2⟩ := setNextRun_clean s j (some (s.now + (s.job j).secs))
        have hsec : s.clean.now + (s.clean.job j).secs = s.now + (s.job j).secs := rfl
        rw [hsec]
        generalize setNextRun s j (some (s.now + (s.job j).secs)) = r at u1 u2
        generalize setNextRun s.clean j (some (s.now + (s.job j).secs)) = r' at u1 u2
        obtain ⟨a, e⟩ := r
        obtain ⟨a', e'⟩ := r'
        simp only at u1 u2
        subst u1 u2
        cases e with
        | some e => exact ⟨rfl, rfl⟩
        | none => exact ⟨updJob j a, rfl⟩
  | setCountdown j secs =>
    show (step s (.setCountdown j secs)).1.clean = (step s.clean (.setCountdown j secs)).1 ∧
      (step s (.setCountdown j secs)).2 = (step s.clean (.setCountdown j secs)).2
    unfold step
    simp only [isCountdown_clean]
    by_cases h1 : (!isCountdown (s.job j)) = true
    · simp only [h1, if_true]; first | exact ⟨rfl, rfl⟩ | exact ⟨rfl, trivial⟩ | exact ⟨trivial, trivial⟩ | trivial
    · simp only [h1, if_false]
      try simp only [Bool.false_eq_true, if_false]
      by_cases h2 : (s.job j).status = .finished
      · rw [if_pos h2, if_pos (show (s.clean.job j).status = .finished from h2)]; exact ⟨rfl, rfl⟩
      · rw [if_neg h2, if_neg (show ¬ (s.clean.job j).status = .finished from h2)]
        by_cases h3 : secs ≤ 0
        · rw [if_pos h3, if_pos h3]; exact ⟨rfl, rfl⟩
        · rw [if_neg h3, if_neg h3]
          refine ⟨?_, rfl⟩
          rw [clean_setJob]; rfl
  | cbReg fin j c =>
    show (step s (.cbReg fin j c)).1.clean = (step s.clean (.cbReg fin j c)).1 ∧
      (step s (.cbReg fin j c)).2 = (step s.clean (.cbReg fin j c)).2
    unfold step
    refine ⟨?_, ?_⟩
    · cases fin with
      | true =>
        simp only [if_true]
        by_cases hc : (s.job j).onFinished.contains c = true
        · rw [if_pos hc, if_pos (show (s.clean.job j).onFinished.contains c = true from hc)]
        · rw [if_neg hc, if_neg (show ¬ (s.clean.job j).onFinished.contains c = true from hc), clean_setJob]; rfl
      | false =>
        simp only [Bool.false_eq_true, if_false]
        by_cases hc : (s.job j).onUpdate.contains c = true
        · rw [if_pos hc, if_pos (show (s.clean.job j).onUpdate.contains c = true from hc)]
        · rw [if_neg hc, if_neg (show ¬ (s.clean.job j).onUpdate.contains c = true from hc), clean_setJob]; rfl
    · cases fin <;> rfl
  | cbRem fin j c =>
    show (step s (.cbRem fin j c)).1.clean = (step s.clean (.cbRem fin j c)).1 ∧
      (step s (.cbRem fin j c)).2 = (step s.clean (.cbRem fin j c)).2
    unfold step
    refine ⟨?_, ?_⟩
    · cases fin with
      | true => simp only [if_true]; rw [clean_setJob]; rfl
      | false => simp only [Bool.false_eq_true, if_false]; rw [clean_setJob]; rfl
    · cases fin <;> rfl
  | cbFails c =>
    refine ⟨?_, rfl⟩
    show ({ s with cbFail := c :: s.cbFail } : St).clean = { s.clean with now := s.clean.now + 0 }
    simp [St.clean]
  | enable e =>
    show (step s (.enable e)).1.clean = (step s.clean (.enable e)).1 ∧ (step s (.enable e)).2 = (step s.clean (.enable e)).2
    unfold step
    simp only [clean_enabled]
    by_cases he : e = s.enabled
    · simp only [he, if_true]; first | exact ⟨rfl, rfl⟩ | exact ⟨rfl, trivial⟩ | exact ⟨trivial, trivial⟩ | trivial
    · simp only [he, if_false]
      refine ⟨?_, ?_⟩
      · rw [hT]; rfl
      · first | rfl | trivial
  | advance d => exact ⟨rfl, rfl⟩
  | yield => exact ⟨fireDue_clean s, rfl⟩
  | sleep d => exact ⟨sleepLoop_clean SLEEPFUEL (s.now + d) s, rfl⟩

end Ea
