import EaModel.Lemmas.Timer
/-!
# A wake-up executes every job that is due (C01 "on time", C02 "other jobs are not suppressed")

`KeepQ i s s'`: a job `i` that is queued in `s` for instant `t` is, in `s'`, either still queued for `t`, or an
execution `exec i now t` was appended to the log on the way from `s` to `s'`. Every job level function keeps every
job other than the one it works on; the run loop keeps every job. Since after the loop no queued job is due
(`Lemmas/Timer.lean`), a job that was due has been executed.
-/
namespace Ea

def KeepQ (i : Nat) (s s' : St) : Prop :=
  ∀ t, i ∈ s.queue → s.nr i = some t →
    (∃ l, s'.log = l ++ s.log ∧ Ev.exec i s.now t ∈ l) ∨ (i ∈ s'.queue ∧ s'.nr i = some t)

theorem KeepQ.same {i : Nat} {s s' : St} (hq : i ∈ s.queue → i ∈ s'.queue) (hnr : s'.nr i = s.nr i) :
    KeepQ i s s' := fun _ hm ht => Or.inr ⟨hq hm, by rw [hnr]; exact ht⟩

theorem KeepQ.refl (i : Nat) (s : St) : KeepQ i s s := KeepQ.same id rfl

theorem KeepQ.trans {i : Nat} {a b c : St} (h1 : KeepQ i a b) (c1 : SameClock a b) (h2 : KeepQ i b c)
    (c2 : SameClock b c) : KeepQ i a c := by
  intro t hm ht
  obtain ⟨l1, e1⟩ := c1.ext
  obtain ⟨l2, e2⟩ := c2.ext
  rcases h1 t hm ht with ⟨l, hl, hin⟩ | ⟨hm', ht'⟩
  · left
    refine ⟨l2 ++ l, by rw [e2, hl, List.append_assoc], List.mem_append_right _ hin⟩
  · rcases h2 t hm' ht' with ⟨l, hl, hin⟩ | hr
    · left
      refine ⟨l ++ l1, by rw [hl, e1, List.append_assoc], List.mem_append_left _ ?_⟩
      rw [c1.now] at hin; exact hin
    · exact Or.inr hr

/-- the contract of `_set_timer`, extended: no queued job is lost -/
structure TimerFn3 (setT : St → St) : Prop where
  base : TimerFn2 setT
  keeps : ∀ s, Inv s → ∀ i, KeepQ i s (setT s)

theorem setNextRun_keep (s : St) (j i : Nat) (nr : Option Int) (hne : i ≠ j) : KeepQ i s (setNextRun s j nr).1 := by
  rcases setNextRun_spec s j nr with ⟨h1, _⟩ | ⟨_, b', _, _, hjobs, hq, _⟩
  · rw [h1]; exact KeepQ.refl i s
  · exact KeepQ.same (fun h => by rw [hq]; exact h) (by unfold St.nr; rw [hjobs]; simp [hne])

theorem setJob_keep (s : St) (j i : Nat) (b : Job) (hne : i ≠ j) : KeepQ i s (s.setJob j b) :=
  KeepQ.same id (nr_setJob_ne s j i b hne)

section withTimer
variable (setT : St → St)

theorem removeJob_keep (hT : TimerFn3 setT) (s : St) (j i : Nat) (hne : i ≠ j)
    (hI : Inv { s with queue := s.queue.erase j }) : KeepQ i s (removeJob setT s j) := by
  have h0 : KeepQ i s { s with queue := s.queue.erase j } :=
    KeepQ.same (fun h => (List.mem_erase_of_ne hne).2 h) rfl
  rcases removeJob_cases setT s j with h | h <;> rw [h]
  · exact h0.trans ⟨rfl, rfl, [], rfl⟩ (hT.keeps _ hI i) (hT.base.clock _ hI)
  · exact h0

theorem addJob_keep (hT : TimerFn3 setT) (s : St) (j i : Nat) (hI : Inv s) (hj : j ∉ s.queue) :
    KeepQ i s (addJob setT s j) := by
  unfold addJob
  split
  · next hr =>
    simp only []
    have h0 : KeepQ i s { s with queue := insort s.nr j s.queue } :=
      KeepQ.same (fun h => (insort_mem _ j s.queue i).2 (Or.inr h)) rfl
    split
    · have hI' := Inv_insorted j hI hj hr
      exact h0.trans ⟨rfl, rfl, [], rfl⟩ (hT.keeps _ hI' i) (hT.base.clock _ hI')
    · exact h0
  · exact KeepQ.refl i s

/-- `job_finish` after `remove_job`: the record of `j` is replaced and the callbacks run -/
theorem jobFinish_tail (s : St) (j : Nat) (hf : (s.job j).status ≠ .finished) :
    SameClock (removeJob setT s j) (jobFinish setT s j).1 ∧
    (jobFinish setT s j).1.queue = (removeJob setT s j).queue ∧
    ∀ i, i ≠ j → (jobFinish setT s j).1.nr i = (removeJob setT s j).nr i := by
  unfold jobFinish
  rw [if_neg hf]
  simp only []
  obtain ⟨q1, q2, _, n4, n5, _, _⟩ := runCbs_frame true j ((removeJob setT s j).job j).onFinished
    (if ((removeJob setT s j).job j).inStore then
      { ((removeJob setT s j).setJob j
        { (removeJob setT s j).job j with linked := false, status := .finished, nextRun := none, inStore := false }) with
        store := (((removeJob setT s j).setJob j
        { (removeJob setT s j).job j with linked := false, status := .finished, nextRun := none, inStore := false })).store.filter
          (fun kv => kv.1 ≠ ((removeJob setT s j).job j).key) }
     else ((removeJob setT s j).setJob j
        { (removeJob setT s j).job j with linked := false, status := .finished, nextRun := none, inStore := false }))
  obtain ⟨l, hl⟩ := runCbs_log_ext true j ((removeJob setT s j).job j).onFinished
    (if ((removeJob setT s j).job j).inStore then
      { ((removeJob setT s j).setJob j
        { (removeJob setT s j).job j with linked := false, status := .finished, nextRun := none, inStore := false }) with
        store := (((removeJob setT s j).setJob j
        { (removeJob setT s j).job j with linked := false, status := .finished, nextRun := none, inStore := false })).store.filter
          (fun kv => kv.1 ≠ ((removeJob setT s j).job j).key) }
     else ((removeJob setT s j).setJob j
        { (removeJob setT s j).job j with linked := false, status := .finished, nextRun := none, inStore := false }))
  refine ⟨⟨?_, ?_, l, ?_⟩, ?_, ?_⟩
  · rw [n4]; split <;> rfl
  · rw [n5]; split <;> rfl
  · rw [hl]; split <;> rfl
  · rw [q1]; split <;> rfl
  · intro i hne
    unfold St.nr; rw [q2]
    split <;> simp [St.setJob, hne]

theorem jobFinish_keep (hT : TimerFn3 setT) (s : St) (j i : Nat) (hne : i ≠ j) (hI : Inv s) :
    KeepQ i s (jobFinish setT s j).1 := by
  by_cases hf : (s.job j).status = .finished
  · unfold jobFinish; rw [if_pos hf]; exact KeepQ.refl i s
  · obtain ⟨c, hq, hnr⟩ := jobFinish_tail setT s j hf
    exact (removeJob_keep setT hT s j i hne (Inv_erased j hI)).trans
      (removeJob_clock setT hT.base s j (Inv_erased j hI))
      (KeepQ.same (fun h => by rw [hq]; exact h) (hnr i hne)) c

theorem updateNext_keep (hT : TimerFn3 setT) (s : St) (j i : Nat) (hne : i ≠ j) (hI : Inv s) :
    KeepQ i s (updateNext setT s j).1 := by
  unfold updateNext
  simp only []
  split
  · exact jobFinish_keep setT hT s j i hne hI
  · exact setNextRun_keep s j i none hne
  · split
    · exact KeepQ.refl i s
    · split
      · exact setJob_keep s j i _ hne
      · split
        · exact setJob_keep s j i _ hne
        · exact (setJob_keep s j i _ hne).trans ⟨rfl, rfl, [], rfl⟩ (setNextRun_keep _ j i _ hne)
            (setNextRun_clock _ _ _)

/-- `job.execute()` of the popped job `j` loses no other job, and logs the execution of `j` -/
theorem execute_keep (hT : TimerFn3 setT) (s : St) (j i : Nat) (due : Int) (hne : i ≠ j) (hI : Inv s)
    (hj : j ∉ s.queue) (hdue : due ≤ s.now) : KeepQ i s (execute setT s j due) := by
  unfold execute
  simp only []
  generalize hs0 : (if (s.job j).execFail.contains (s.job j).execs = true then
      (((s.emit (Ev.exec j s.now due)).setJob j { s.job j with execs := (s.job j).execs + 1, lastRun := some s.now })).emit (Ev.exc "CallableError")
    else ((s.emit (Ev.exec j s.now due)).setJob j { s.job j with execs := (s.job j).execs + 1, lastRun := some s.now })) = s0
  have hb : JobOK ({ s.job j with execs := (s.job j).execs + 1, lastRun := some s.now } : Job) := hI.st j
  have hA : Inv ((s.emit (Ev.exec j s.now due)).setJob j { s.job j with execs := (s.job j).execs + 1, lastRun := some s.now }) :=
    (InvEx_setJob _ ((Inv_emit _ hI (by simpa [evOK] using hdue)).toEx j) hb).toInv hj
  have h0 : SameClock s s0 ∧ s0.queue = s.queue ∧ s0.nr i = s.nr i ∧ Inv s0 := by
    subst hs0
    split
    · exact ⟨⟨rfl, rfl, [Ev.exc "CallableError", Ev.exec j s.now due], rfl⟩, rfl,
        by simp [St.nr, St.emit, St.setJob, hne], Inv_emit _ hA (by simp [evOK])⟩
    · exact ⟨⟨rfl, rfl, [Ev.exec j s.now due], rfl⟩, rfl, by simp [St.nr, St.emit, St.setJob, hne], hA⟩
  obtain ⟨c0, q0, nr0, i0⟩ := h0
  have k0 : KeepQ i s s0 := KeepQ.same (fun h => by rw [q0]; exact h) nr0
  have c1 := updateNext_clock setT hT.base s0 j i0
  have k1 := updateNext_keep setT hT s0 j i hne i0
  have k01 := k0.trans c0 k1 c1
  split
  · next s' heq =>
    have : s' = (updateNext setT s0 j).1 := by rw [heq]
    subst this
    exact k01
  · next s' e heq =>
    have : s' = (updateNext setT s0 j).1 := by rw [heq]
    subst this
    have c2 : SameClock (updateNext setT s0 j).1 ((updateNext setT s0 j).1.emit (Ev.exc e.name)) :=
      ⟨rfl, rfl, [_], rfl⟩
    have k2 : KeepQ i (updateNext setT s0 j).1 ((updateNext setT s0 j).1.emit (Ev.exc e.name)) :=
      KeepQ.same id rfl
    have k012 := k01.trans (c0.trans c1) k2 c2
    split
    · exact k012.trans ((c0.trans c1).trans c2) (setNextRun_keep _ j i none hne) (setNextRun_clock _ _ _)
    · exact k012

end withTimer

/-- what the induction proves about `run_jobs` for a given fuel -/
def WakeSpec (f : Nat) : Prop := ∀ s, Inv s → ∀ i, KeepQ i s (runLoop f s)

theorem setTimer_keep (fuel : Nat) (hrun : ∀ f, f < fuel → WakeSpec f) :
    ∀ s, Inv s → ∀ i, KeepQ i s (setTimer fuel s) := by
  intro s hinv i
  have k0 : KeepQ i s { s with timer := none } := KeepQ.same id rfl
  unfold setTimer
  simp only []
  split
  · exact k0
  · split
    · exact k0
    · split
      · exact KeepQ.same id rfl
      · split
        · split
          · exact KeepQ.same id rfl
          · next f =>
            exact k0.trans ⟨rfl, rfl, [], rfl⟩ (hrun f (by omega) _ (Inv_timer_none hinv) i)
              (runSpec f _ (Inv_timer_none hinv)).1
        · exact KeepQ.same id rfl

theorem wakeSpec (fuel : Nat) : WakeSpec fuel := by
  induction fuel using Nat.strongRecOn with
  | _ fuel ih =>
    intro s h i
    have hst : ∀ f, f ≤ fuel → TimerFn3 (setTimer f) :=
      fun f hf => ⟨timerFn2_setTimer f, setTimer_keep f (fun f' hf' => ih f' (by omega))⟩
    unfold runLoop
    split
    · exact KeepQ.refl i s
    · next hd rest hq =>
      split
      · exact KeepQ.same id rfl
      · next nr hnr =>
        split
        · exact (hst fuel (Nat.le_refl _)).keeps s h i
        · next hle =>
          split
          · exact KeepQ.same id rfl
          · next f =>
            have hT3 := hst f (by omega)
            have hT2 := hT3.base
            have hT := hT2.base
            have hnd : hd ∉ rest := by
              have := h.q.nodup; rw [hq] at this; exact (List.nodup_cons.1 this).1
            have h1 : Inv { s with queue := rest } := by
              refine ⟨⟨?_, ?_, ?_⟩, h.st, h.log⟩
              · intro i hi; exact h.q.run i (by rw [hq]; simp [hi])
              · have := h.q.nodup; rw [hq] at this; exact (List.nodup_cons.1 this).2
              · have := h.q.sorted; rw [hq] at this; exact (List.pairwise_cons.1 this).2
            have hdue : nr ≤ ({ s with queue := rest } : St).now := by
              show nr ≤ s.now
              omega
            obtain ⟨e1, e2⟩ := execute_spec (setTimer f) hT hd nr h1 (by simpa using hnd) hdue
            obtain ⟨c1, _, xl, hxl⟩ := execute_frame (setTimer f) hT2 { s with queue := rest } hd nr h1 (by simpa using hnd) hdue
            have hd2 : hd ∉ (execute (setTimer f) { s with queue := rest } hd nr).queue :=
              fun hm => hnd (e2 hd hm)
            have a1 := Inv_addJob (setTimer f) hT hd e1 hd2
            have c2 := addJob_clock (setTimer f) hT2 _ hd e1 hd2
            have c3 := (runSpec f _ a1).1
            have k2 := addJob_keep (setTimer f) hT3 _ hd i e1 hd2
            have k3 := ih f (by omega) _ a1 i
            by_cases hi : i = hd
            · -- the head itself: its execution is logged by `execute`
              subst hi
              intro t _ ht
              have htn : t = nr := by
                have : s.nr i = some nr := hnr
                rw [this] at ht; cases ht; rfl
              subst htn
              left
              obtain ⟨l2, hl2⟩ := c2.ext
              obtain ⟨l3, hl3⟩ := c3.ext
              refine ⟨l3 ++ l2 ++ xl ++ [Ev.exec i s.now t], ?_, by simp⟩
              rw [hl3, hl2, hxl]
              simp
            · have k0 : KeepQ i s { s with queue := rest } :=
                KeepQ.same (fun hm => by
                  rw [hq] at hm
                  rcases List.mem_cons.1 hm with e | hr
                  · exact absurd e hi
                  · exact hr) rfl
              have k1 := execute_keep (setTimer f) hT3 { s with queue := rest } hd i nr hi h1 (by simpa using hnd) hdue
              have c01 : SameClock s (execute (setTimer f) { s with queue := rest } hd nr) :=
                ⟨c1.now, c1.enabled, c1.ext⟩
              have k01 : KeepQ i s (execute (setTimer f) { s with queue := rest } hd nr) :=
                k0.trans ⟨rfl, rfl, [], rfl⟩ k1 c1
              exact (k01.trans c01 k2 c2).trans (c01.trans c2) k3 c3


theorem timerFn3_setTimer (fuel : Nat) : TimerFn3 (setTimer fuel) :=
  ⟨timerFn2_setTimer fuel, setTimer_keep fuel (fun f _ => wakeSpec f)⟩

theorem runJobs_clock (fuel : Nat) {s : St} (h : Inv s) : SameClock s (runJobs fuel s) := by
  unfold runJobs
  have := (runSpec fuel _ (Inv_timer_none h)).1
  exact ⟨this.now, this.enabled, this.ext⟩

theorem runJobs_keep (fuel : Nat) {s : St} (h : Inv s) (i : Nat) : KeepQ i s (runJobs fuel s) := by
  unfold runJobs
  exact (KeepQ.same (s' := { s with timer := none }) id rfl).trans ⟨rfl, rfl, [], rfl⟩
    (wakeSpec fuel _ (Inv_timer_none h) i) (runSpec fuel _ (Inv_timer_none h)).1

/-- the head of a sorted queue is the earliest job -/
theorem head_le_queued {s : St} (hi : Inv s) {hd : Nat} {rest : List Nat} (hq : s.queue = hd :: rest)
    {i : Nat} {t : Int} (hm : i ∈ s.queue) (ht : s.nr i = some t) : ∃ th, s.nr hd = some th ∧ th ≤ t := by
  obtain ⟨th, hth⟩ := (hi.st.run hd).1 (hi.q.run hd (by rw [hq]; simp))
  refine ⟨th, hth, ?_⟩
  rw [hq] at hm
  rcases List.mem_cons.1 hm with rfl | hr
  · have : s.nr i = some th := hth
    rw [this] at ht; cases ht; exact Int.le_refl _
  · have hs := hi.q.sorted
    rw [hq] at hs
    have hle := (List.pairwise_cons.1 hs).1 i hr
    unfold leNR at hle
    have ht' : (s.jobs i).nextRun = some t := ht
    simp only [hth, ht', ltNR_some] at hle
    have : ¬ t < th := by simpa using hle
    omega

/-- a queued job of an enabled scheduler implies an armed timer that is not later than the job -/
theorem timer_le_queued {s : St} (hi : Inv s) (hk : TimerOK s) (hen : s.enabled = true)
    {i : Nat} {t : Int} (hm : i ∈ s.queue) (ht : s.nr i = some t) : ∃ th, s.timer = some th ∧ th ≤ t := by
  unfold TimerOK at hk
  cases hq : s.queue with
  | nil => rw [hq] at hm; cases hm
  | cons hd rest =>
    rw [hq] at hk
    simp only [hen, if_true] at hk
    obtain ⟨th, hth, hle⟩ := head_le_queued hi hq hm ht
    exact ⟨th, by rw [hk.1, hth], hle⟩

/-- a wake-up executes every job that is due, at the instant of the wake-up -/
theorem runJobs_executes_due (fuel : Nat) {s : St} (hi : Inv s) (hg : Good s) {t0 : Int} (ht0 : s.timer = some t0)
    {i : Nat} {t : Int} (hm : i ∈ s.queue) (ht : s.nr i = some t) (hdue : t ≤ s.now) :
    HasFatal (runJobs fuel s) ∨ ∃ l, (runJobs fuel s).log = l ++ s.log ∧ Ev.exec i s.now t ∈ l := by
  have hc := runJobs_clock fuel hi
  rcases runJobs_goodF fuel hi hg ht0 with hf | ⟨hk, hfr⟩
  · exact Or.inl hf
  · rcases hg with hf | hk0
    · exact Or.inl (HasFatal_mono hf hc.log)
    · rcases runJobs_keep fuel hi i t hm ht with hl | ⟨hm', ht'⟩
      · exact Or.inr hl
      · exfalso
        have hen : (runJobs fuel s).enabled = true := by rw [hc.enabled]; exact enabled_of_armed hk0 ht0
        obtain ⟨t', h1, h2⟩ := queued_after_timer (runJobs_inv fuel hi) hk hfr hen i hm'
        rw [ht'] at h1; cases h1
        rw [hc.now] at h2
        omega

theorem sleepLoop_log (n : Nat) (target : Int) {s : St} (hi : Inv s) :
    (∃ l, (sleepLoop n target s).log = l ++ s.log) ∧ (sleepLoop n target s).enabled = s.enabled := by
  induction n generalizing s with
  | zero => exact ⟨⟨[_], rfl⟩, rfl⟩
  | succ n ih =>
    unfold sleepLoop
    split
    · next t ht =>
      split
      · have hI : Inv { s with now := if t > s.now then t else s.now } := ⟨hi.q, hi.st, hi.log⟩
        obtain ⟨⟨l, hl⟩, he⟩ := ih (runJobs_inv OPFUEL hI)
        have c := runJobs_clock OPFUEL hI
        obtain ⟨l2, hl2⟩ := c.ext
        exact ⟨⟨l ++ l2, by rw [hl, hl2, List.append_assoc]⟩, by rw [he, c.enabled]⟩
      · exact ⟨⟨[], rfl⟩, rfl⟩
    · exact ⟨⟨[], rfl⟩, rfl⟩

/-- under the virtual clock a sleeping loop executes every job whose run time is reached, exactly at its run
time (or at once when it was already overdue) -/
theorem sleepLoop_executes (n : Nat) (target : Int) {s : St} (hi : Inv s) (hg : Good s) (hen : s.enabled = true)
    {i : Nat} {t : Int} (hm : i ∈ s.queue) (ht : s.nr i = some t) (hle : t ≤ target) :
    HasFatal (sleepLoop n target s) ∨
    ∃ l, (sleepLoop n target s).log = l ++ s.log ∧ Ev.exec i (if t > s.now then t else s.now) t ∈ l := by
  induction n generalizing s with
  | zero => exact Or.inl (HasFatal_emit_fatal _)
  | succ n ih =>
    rcases hg with hf | hk
    · left
      obtain ⟨l, hl⟩ := (sleepLoop_log (n + 1) target hi).1
      exact HasFatal_mono hf (fun e he => by rw [hl]; exact List.mem_append_right _ he)
    · obtain ⟨th, hth, hthle⟩ := timer_le_queued hi hk hen hm ht
      have hstep : sleepLoop (n + 1) target s =
          sleepLoop n target (runJobs OPFUEL { s with now := if th > s.now then th else s.now }) := by
        conv => lhs; unfold sleepLoop
        split
        · next t' ht' =>
          rw [hth] at ht'; cases ht'
          rw [if_pos (by omega : th ≤ target)]
        · next hn => rw [hth] at hn; cases hn
      rw [hstep]
      have hI1 : Inv { s with now := if th > s.now then th else s.now } := ⟨hi.q, hi.st, hi.log⟩
      have hg1 : Good { s with now := if th > s.now then th else s.now } := Good_now _ (Or.inr hk)
      have hI2 := runJobs_inv OPFUEL hI1
      have c := runJobs_clock OPFUEL hI1
      obtain ⟨l2, hl2⟩ := c.ext
      obtain ⟨⟨l3, hl3⟩, _⟩ := sleepLoop_log n target hI2
      have gf := runJobs_goodF OPFUEL (t := th) hI1 hg1 hth
      rcases runJobs_keep OPFUEL hI1 i t hm ht with ⟨l, hl, hin⟩ | ⟨hm', ht'⟩
      · -- executed in this wake-up: never early, so this is the instant the job was due at
        right
        have hev : evOK (Ev.exec i (if th > s.now then th else s.now) t) := by
          apply hI2.log
          rw [hl]; exact List.mem_append_left _ hin
        have hnow : (if th > s.now then th else s.now) = (if t > s.now then t else s.now) := by
          simp only [evOK] at hev
          split at hev <;> split <;> omega
        refine ⟨l3 ++ l, by rw [hl3, hl]; simp, List.mem_append_right _ ?_⟩
        rw [← hnow]; exact hin
      · rcases gf with hf | ⟨hk2, hfr2⟩
        · left
          exact HasFatal_mono hf (fun e he => by rw [hl3]; exact List.mem_append_right _ he)
        · have hen2 : (runJobs OPFUEL { s with now := if th > s.now then th else s.now }).enabled = true := by
            rw [c.enabled]; exact hen
          obtain ⟨t', h1, h2⟩ := queued_after_timer hI2 hk2 hfr2 hen2 i hm'
          rw [ht'] at h1; cases h1
          have hnow2 : (runJobs OPFUEL { s with now := if th > s.now then th else s.now }).now =
              (if th > s.now then th else s.now) := c.now
          rcases ih hI2 (Or.inr hk2) hen2 hm' ht' with hf | ⟨l, hl, hin⟩
          · exact Or.inl hf
          · right
            refine ⟨l ++ l2, by rw [hl, hl2, List.append_assoc], List.mem_append_left _ ?_⟩
            have e1 : (if t > (runJobs OPFUEL { s with now := if th > s.now then th else s.now }).now then t
                else (runJobs OPFUEL { s with now := if th > s.now then th else s.now }).now) = t := by
              rw [if_pos h2]
            have e2 : (if t > s.now then t else s.now) = t := by
              rw [hnow2] at h2
              split at h2 <;> split <;> omega
            rw [e1] at hin; rw [e2]; exact hin


/-- `update_job` (remove + add) of job `j` loses no other job -/
theorem updateJob_keep (fuel : Nat) (j i : Nat) (hne : i ≠ j) {s : St} (h : InvEx j s) :
    KeepQ i s (addJob (setTimer fuel) (removeJob (setTimer fuel) s j) j) ∧
    SameClock s (addJob (setTimer fuel) (removeJob (setTimer fuel) s j) j) := by
  have hT3 := timerFn3_setTimer fuel
  have hT := hT3.base.base
  have hIe : Inv { s with queue := s.queue.erase j } := ⟨h.q, h.st, h.log⟩
  have h1 : Inv (removeJob (setTimer fuel) s j) := Inv_removeJob _ hT j h.q h.st h.log
  have hj : j ∉ (removeJob (setTimer fuel) s j).queue := removeJob_notin _ hT j h.q h.nodup h.st h.log
  have c1 := removeJob_clock _ hT3.base s j hIe
  have c2 := addJob_clock _ hT3.base _ j h1 hj
  exact ⟨(removeJob_keep _ hT3 s j i hne hIe).trans c1 (addJob_keep _ hT3 _ j i h1 hj) c2, c1.trans c2⟩

/-- the job a control operation works on -/
def Op.target : Op → Option Nat
  | .cancel j | .pause j | .stop j | .resume j | .reset j | .setCountdown j _ => some j
  | .cbReg _ j _ | .cbRem _ j _ => some j
  | _ => none

/-- a control operation on job `j` neither drops nor re-times another queued job `i`: afterwards `i` is queued
for the same instant, or it was executed on the way (which the wake-up theorems allow only if it was due) -/
theorem control_keep (s : St) (op : Op) (j i : Nat) (htg : op.target = some j) (hne : i ≠ j) (h : Inv s) :
    KeepQ i s (step s op).1 := by
  have hT3 := timerFn3_setTimer OPFUEL
  have hT2 := hT3.base
  have hT := hT2.base
  have pauseLike : KeepQ i s (setNextRun (removeJob (setTimer OPFUEL) s j) j none).1 :=
    (removeJob_keep _ hT3 s j i hne (Inv_erased j h)).trans (removeJob_clock _ hT2 s j (Inv_erased j h))
      (setNextRun_keep _ j i none hne) (setNextRun_clock _ _ _)
  unfold step
  simp only []
  cases op with
  | cancel j' =>
    have : j' = j := by simpa [Op.target] using htg
    subst this
    exact jobFinish_keep _ hT3 s j' i hne h
  | pause j' =>
    have : j' = j := by simpa [Op.target] using htg
    subst this
    simp only []
    split
    · exact KeepQ.refl i s
    · split
      · exact KeepQ.refl i s
      · exact pauseLike
  | stop j' =>
    have : j' = j := by simpa [Op.target] using htg
    subst this
    simp only []
    split
    · exact KeepQ.refl i s
    · split
      · exact KeepQ.refl i s
      · exact pauseLike
  | resume j' =>
    have : j' = j := by simpa [Op.target] using htg
    subst this
    simp only []
    split
    · exact KeepQ.refl i s
    · split
      · exact KeepQ.refl i s
      · obtain ⟨u1, _⟩ := updateNext_spec (setTimer OPFUEL) hT j' h
        have k1 := updateNext_keep _ hT3 s j' i hne h
        have c1 := updateNext_clock _ hT2 s j' h
        split
        · rename_i s' e heq
          have : s' = (updateNext (setTimer OPFUEL) s j').1 := by rw [heq]
          subst this
          exact k1
        · rename_i s' heq
          have : s' = (updateNext (setTimer OPFUEL) s j').1 := by rw [heq]
          subst this
          obtain ⟨k2, c2⟩ := updateJob_keep OPFUEL j' i hne u1
          exact k1.trans c1 k2 c2
  | reset j' =>
    have : j' = j := by simpa [Op.target] using htg
    subst this
    simp only []
    split
    · exact KeepQ.refl i s
    · split
      · exact KeepQ.refl i s
      · have k1 := setNextRun_keep s j' i (some (s.now + (s.job j').secs)) hne
        have c1 := setNextRun_clock s j' (some (s.now + (s.job j').secs))
        split
        · rename_i s' e heq
          have : s' = (setNextRun s j' (some (s.now + (s.job j').secs))).1 := by rw [heq]
          subst this
          exact k1
        · rename_i s' heq
          have : s' = (setNextRun s j' (some (s.now + (s.job j').secs))).1 := by rw [heq]
          subst this
          obtain ⟨k2, c2⟩ := updateJob_keep OPFUEL j' i hne (InvEx_setNextRun _ (h.toEx j'))
          exact k1.trans c1 k2 c2
  | setCountdown j' secs =>
    have : j' = j := by simpa [Op.target] using htg
    subst this
    simp only []
    split
    · exact KeepQ.refl i s
    · split
      · exact KeepQ.refl i s
      · split
        · exact KeepQ.refl i s
        · exact setJob_keep s j' i _ hne
  | cbReg fin j' c =>
    have : j' = j := by simpa [Op.target] using htg
    subst this
    simp only []
    split
    · split
      · exact KeepQ.refl i s
      · exact setJob_keep s j' i _ hne
    · split
      · exact KeepQ.refl i s
      · exact setJob_keep s j' i _ hne
  | cbRem fin j' c =>
    have : j' = j := by simpa [Op.target] using htg
    subst this
    simp only []
    split
    · exact setJob_keep s j' i _ hne
    · exact setJob_keep s j' i _ hne
  | create _ _ _ _ _ _ => simp [Op.target] at htg
  | cbFails _ => simp [Op.target] at htg
  | enable _ => simp [Op.target] at htg
  | advance _ => simp [Op.target] at htg
  | yield => simp [Op.target] at htg
  | sleep _ => simp [Op.target] at htg

end Ea
