import EaModel.Lemmas.DstYear
/-!
# Zones with one forward and one backward change: `validity` described exactly

For a table `init i`, then offset `o1 > i` from `t1`, then offset `o2 < o1` from `t2` (one spring-forward, one
fall-back, the skipped interval ending before the repeated one starts) a wall clock reading is skipped exactly in
`[t1 + i, t1 + o1)`, repeated exactly in `[t2 + o2, t2 + o1)` and valid everywhere else.
-/
namespace Ea

def twoZone (i t1 o1 t2 o2 : Int) : Zone := { init := i, trans := [(t1, o1), (t2, o2)] }

theorem two_trans_validity (i t1 o1 t2 o2 : Int) (h1 : i < o1) (h2 : o2 < o1) (h3 : t1 + o1 ≤ t2 + o2) (h4 : t1 < t2)
    (L : Int) :
    (twoZone i t1 o1 t2 o2).validity L =
      if t1 + i ≤ L ∧ L < t1 + o1 then .skipped else if t2 + o2 ≤ L ∧ L < t2 + o1 then .repeated else .valid := by
  simp only [Zone.validity, Zone.resolve, twoZone, sols, findGap, GeLo]
  by_cases c1 : True ∧ L - i < t1 <;> by_cases c2 : t1 ≤ L - o1 ∧ L - o1 < t2 <;> by_cases c3 : t2 ≤ L - o2 <;>
    by_cases g1 : t1 + i ≤ L ∧ L < t1 + o1 <;> by_cases g2 : t2 + o1 ≤ L ∧ L < t2 + o2 <;>
    by_cases f2 : t2 + o2 ≤ L ∧ L < t2 + o1 <;>
    simp only [c1, c2, c3, g1, g2, f2, if_true, if_false, List.nil_append, List.append_nil, List.cons_append,
      List.getLast?_singleton, Option.getD_some] <;> first | rfl | (exfalso; omega)

/-- **regular zone-years, generically**: a table with one forward change that skips exactly the clock hour `hG` of
local day `DG` and one backward change that repeats exactly the clock hour `hF` of local day `DF` is regular in a
year as soon as the scan of `_iter_date` visits every local date of the year and only those (a finite fact) -/
theorem twoZone_year_regular (i t1 o1 t2 o2 DG hG DF hF year : Int) (InYear : Int → Prop)
    (h1 : i < o1) (h2 : o2 < o1) (h3 : t1 + o1 ≤ t2 + o2) (h4 : t1 < t2)
    (hg : t1 + i = DG * NS_PER_DAY + hG * NS_PER_HOUR) (hgw : o1 - i = NS_PER_HOUR) (hg0 : 0 ≤ hG) (hg1 : hG < 24)
    (hf : t2 + o2 = DF * NS_PER_DAY + hF * NS_PER_HOUR) (hfw : o1 - o2 = NS_PER_HOUR) (hf0 : 0 ≤ hF) (hf1 : hF < 24)
    (hcov : ∀ rev D, InYear D → ∃ m ∈ dstMonths rev, ∃ u ∈ dstMonthInstants (twoZone i t1 o1 t2 o2) year m,
      (twoZone i t1 o1 t2 o2).localDay u = D)
    (hscan : ∀ rev m, m ∈ dstMonths rev → ∀ u ∈ dstMonthInstants (twoZone i t1 o1 t2 o2) year m,
      InYear ((twoZone i t1 o1 t2 o2).localDay u)) :
    YearRegular (twoZone i t1 o1 t2 o2) year InYear := by
  have hv := two_trans_validity i t1 o1 t2 o2 h1 h2 h3 h4
  have hsk : ∀ L, (twoZone i t1 o1 t2 o2).validity L = .skipped ↔ (t1 + i ≤ L ∧ L < t1 + o1) := by
    intro L; rw [hv]
    by_cases a : t1 + i ≤ L ∧ L < t1 + o1
    · simp [a]
    · by_cases b : t2 + o2 ≤ L ∧ L < t2 + o1 <;> simp [a, b]
  have hrp : ∀ L, (twoZone i t1 o1 t2 o2).validity L = .repeated ↔ (t2 + o2 ≤ L ∧ L < t2 + o1) := by
    intro L; rw [hv]
    by_cases a : t1 + i ≤ L ∧ L < t1 + o1
    · have : ¬ (t2 + o2 ≤ L ∧ L < t2 + o1) := by omega
      simp [a, this]
    · by_cases b : t2 + o2 ≤ L ∧ L < t2 + o1 <;> simp [a, b]
  refine ⟨?_, ?_, hcov, hscan⟩
  · intro D t _ h0 hlt hne
    cases hval : (twoZone i t1 o1 t2 o2).validity (D * NS_PER_DAY + t) with
    | valid => exact absurd hval hne
    | skipped =>
      have := (hsk _).1 hval
      apply (hsk _).2
      simp only [HALF, NS_PER_DAY, NS_PER_HOUR, NS_PER_MIN] at *
      omega
    | repeated =>
      have := (hrp _).1 hval
      apply (hrp _).2
      simp only [HALF, NS_PER_DAY, NS_PER_HOUR, NS_PER_MIN] at *
      omega
  · intro D D' t t' _ _ h0 hlt h0' hlt' hne heq
    cases hval : (twoZone i t1 o1 t2 o2).validity (D * NS_PER_DAY + t) with
    | valid => exact absurd hval hne
    | skipped =>
      rw [hval] at heq
      have a := (hsk _).1 hval
      have b := (hsk _).1 heq
      simp only [NS_PER_DAY, NS_PER_HOUR] at *
      omega
    | repeated =>
      rw [hval] at heq
      have a := (hrp _).1 hval
      have b := (hrp _).1 heq
      simp only [NS_PER_DAY, NS_PER_HOUR] at *
      omega

/-! ## instance: the shape of America/New_York in 2021 (skipped hour 02, repeated hour 01) -/

def zUS21 : Zone := twoZone (-18000 * NS_PER_S) (1615705200 * NS_PER_S) (-14400 * NS_PER_S) (1636264800 * NS_PER_S) (-18000 * NS_PER_S)
def InYear21 (D : Int) : Prop := 18628 ≤ D ∧ D < 18993

set_option maxRecDepth 100000 in
theorem zUS21_scans_in_year : ∀ rev : Bool, ∀ m ∈ dstMonths rev, ∀ u ∈ dstMonthInstants zUS21 2021 m,
    18628 ≤ zUS21.localDay u ∧ zUS21.localDay u < 18993 := by
  decide +kernel

set_option maxRecDepth 100000 in
theorem zUS21_covers : ∀ rev : Bool, ∀ n : Nat, n < 365 →
    ∃ m ∈ dstMonths rev, ∃ u ∈ dstMonthInstants zUS21 2021 m, zUS21.localDay u = 18628 + (n : Int) := by
  decide +kernel

theorem zUS21_year_regular : YearRegular zUS21 2021 InYear21 := by
  unfold zUS21
  refine twoZone_year_regular _ _ _ _ _ 18700 2 18938 1 2021 InYear21
    (by decide) (by decide) (by decide) (by decide) (by decide) (by decide) (by decide) (by decide)
    (by decide) (by decide) (by decide) (by decide) ?_ ?_
  · intro rev D hD
    obtain ⟨m, hm, u, hu, e⟩ := zUS21_covers rev (D - 18628).toNat (by unfold InYear21 at hD; omega)
    refine ⟨m, hm, u, hu, ?_⟩
    have e' : zUS21.localDay u = 18628 + ((D - 18628).toNat : Int) := e
    unfold zUS21 at e'
    rw [e']; unfold InYear21 at hD; omega
  · intro rev m hm u hu
    exact zUS21_scans_in_year rev m hm u hu

end Ea
