import EaModel.Lemmas.SubmitOrder
/-!
# A sequential manager never leaves a coroutine waiting while it is idle

`Prog`: whenever a coroutine waits in the queue, `self.task` is set; and `self.task` always is an existing task whose
done callback has not run. (Together with the invariant of `Properties/C11.lean` — a finished, undelivered task has its
done callback scheduled — this gives: when the loop is idle, a waiting coroutine implies a current task that has not
finished; completion, failure or cancellation of the running task therefore always starts the next one.)
-/
namespace Ea

structure Prog (s : TSt) : Prop where
  seq : IsSeqKind s.kind
  wait : s.queue ≠ [] → s.cur ≠ none
  live : ∀ t, s.cur = some t → t < s.tasks.length ∧ (s.task t).delivered = false

/-- the part of `Prog` that survives putting something into the queue -/
structure ProgLive (s : TSt) : Prop where
  seq : IsSeqKind s.kind
  live : ∀ t, s.cur = some t → t < s.tasks.length ∧ (s.task t).delivered = false

theorem Prog.toLive {s : TSt} (h : Prog s) : ProgLive s := ⟨h.seq, h.live⟩

theorem ProgLive.of_eq {s s' : TSt} (h : ProgLive s) (ht : s'.tasks = s.tasks) (hc : s'.cur = s.cur) (hk : s'.kind = s.kind) :
    ProgLive s' := by
  refine ⟨by rw [hk]; exact h.seq, ?_⟩
  intro t hcur
  have : s'.task t = s.task t := by unfold TSt.task; rw [ht]
  rw [ht, this]; exact h.live t (by rw [← hc]; exact hcur)

theorem Prog.of_eq {s s' : TSt} (h : Prog s) (ht : s'.tasks = s.tasks) (hq : s'.queue = s.queue) (hc : s'.cur = s.cur)
    (hk : s'.kind = s.kind) : Prog s' :=
  ⟨by rw [hk]; exact h.seq, by rw [hq, hc]; exact h.wait, (h.toLive.of_eq ht hc hk).live⟩

theorem delivered_set (l : List Task) (t t' : Nat) (x : Task) (hd : x.delivered = (taskOf l t).delivered) :
    (taskOf (l.set t x) t').delivered = (taskOf l t').delivered := by
  by_cases hne : t' = t
  · subst hne
    by_cases hlt : t' < l.length
    · rw [taskOf_set_eq _ _ _ hlt]; exact hd
    · rw [taskOf_set_ge _ _ _ (by omega)]
  · rw [taskOf_set_ne _ _ _ _ hne]

theorem Prog.of_set {s s' : TSt} (h : Prog s) (t : Nat) (x : Task) (ht : s'.tasks = s.tasks.set t x)
    (hq : s'.queue = s.queue) (hc : s'.cur = s.cur) (hk : s'.kind = s.kind)
    (hd : x.delivered = (s.task t).delivered) : Prog s' := by
  refine ⟨by rw [hk]; exact h.seq, by rw [hq, hc]; exact h.wait, ?_⟩
  intro t' hcur
  have := h.live t' (by rw [← hc]; exact hcur)
  have hlen : s'.tasks.length = s.tasks.length := by rw [ht]; simp
  rw [hlen, task_eq_taskOf, ht, delivered_set _ _ _ _ (by rw [← task_eq_taskOf]; exact hd), ← task_eq_taskOf]
  exact this

/-- `_task_done(done)`: whatever waited is started -/
theorem prog_seqTaskDone {s : TSt} (h : ProgLive s) (done : Option Nat)
    (hd : ∀ t, s.cur = some t → done ≠ some t → True) : Prog (seqTaskDone s done) := by
  unfold Ea.seqTaskDone
  have hl : ProgLive (clearCur s done) := by
    unfold Ea.clearCur
    split
    · exact ⟨h.seq, by intro t ht; cases ht⟩
    · exact h
  generalize Ea.clearCur s done = s1 at hl
  split
  · next hq => exact ⟨hl.seq, by intro hne; exact absurd hq hne, hl.live⟩
  · next c k rest hq =>
    refine ⟨hl.seq, (by intro _ e; cases e), ?_⟩
    intro t ht
    simp only [startNext] at ht
    injection ht with ht
    subst ht
    refine ⟨by simp [startNext], ?_⟩
    show (taskOf (s1.tasks ++ [{ coro := c }]) s1.tasks.length).delivered = false
    rw [taskOf_append_len]

theorem prog_seqTaskStart {s : TSt} (h : ProgLive s) : Prog (seqTaskStart s) := by
  unfold Ea.seqTaskStart
  split
  · next t ht => exact ⟨h.seq, (by intro _ e; rw [ht] at e; cases e), h.live⟩
  · exact prog_seqTaskDone h none (fun _ _ _ => trivial)

theorem Prog.emit {s : TSt} (h : Prog s) (e : TEv) : Prog (s.emit e) := h.of_eq rfl rfl rfl rfl

theorem Prog.submit {s : TSt} (h : Prog s) (c key : Nat) : Prog (submit s c key) := by
  have hseq := h.seq
  have hl : ProgLive (s.emit (.submitted c)) := h.toLive.of_eq rfl rfl rfl
  have h1 : Prog (s.emit (.submitted c)) := h.emit _
  unfold Ea.submit submitCore
  generalize s.emit (.submitted c) = s1 at hl h1
  have q : ∀ (y : TSt), y.tasks = s1.tasks → y.cur = s1.cur → y.kind = s1.kind → Prog (Ea.seqTaskStart y) :=
    fun y a b d => prog_seqTaskStart (hl.of_eq a b d)
  have hs1 := hl.seq
  cases hk : s1.kind with
  | sequential => simp only []; exact q _ rfl rfl (by first | rfl | exact hk.symm)
  | limitingSeq maxQ pol =>
    simp only []
    split
    · cases pol with
      | skip => exact h1.emit _
      | skipFirst =>
        simp only []
        split
        · exact q _ rfl rfl (by first | rfl | exact hk.symm)
        · exact q _ rfl rfl (by first | rfl | exact hk.symm)
      | skipLast =>
        simp only []
        split
        · exact q _ rfl rfl (by first | rfl | exact hk.symm)
        · exact q _ rfl rfl (by first | rfl | exact hk.symm)
    · exact q _ rfl rfl (by first | rfl | exact hk.symm)
  | dedup =>
    simp only []
    split
    · exact q _ rfl rfl (by first | rfl | exact hk.symm)
    · exact q _ rfl rfl (by first | rfl | exact hk.symm)
  | parallel => rw [hk] at hs1; exact hs1.elim
  | limitingPar _ _ => rw [hk] at hs1; exact hs1.elim

theorem Prog.submitAll : ∀ (subs : List (Nat × Nat)) {s : TSt}, Prog s → Prog (submitAll s subs)
  | [], _, h => h
  | (c, k) :: rest, _, h => by unfold Ea.submitAll; exact Prog.submitAll rest (h.submit c k)

theorem Prog.cancelTask {s : TSt} (h : Prog s) (t : Nat) : Prog (s.cancelTask t) := by
  unfold TSt.cancelTask
  simp only []
  split
  · exact h
  · exact h.of_set t _ rfl rfl rfl rfl rfl
  · split
    · exact h
    · exact h.of_set t _ rfl rfl rfl rfl rfl

theorem Prog.finishTask {s : TSt} (h : Prog s) (t : Nat) : Prog (finishTask s t) := by
  unfold Ea.finishTask
  exact h.of_set t _ rfl rfl rfl rfl rfl

/-- the done callback of task `t`: if `t` is `self.task` it is released and the next coroutine starts; otherwise
`self.task` is another task, which is untouched -/
theorem Prog.managerDone {s : TSt} (h : Prog s) (t : Nat) : Prog (managerDone s t) := by
  have hseq := h.seq
  unfold Ea.managerDone
  generalize hs1 : s.setTask t { s.task t with delivered := true } = s1
  have hk1 : s1.kind = s.kind := by rw [← hs1]; rfl
  have hc1 : s1.cur = s.cur := by rw [← hs1]; rfl
  have ht1 : s1.tasks = s.tasks.set t { s.task t with delivered := true } := by rw [← hs1]; rfl
  have hp : IsSeqKind s1.kind := by rw [hk1]; exact hseq
  -- `_task_done(t)` on s1
  have key : Prog (Ea.seqTaskDone s1 (some t)) := by
    unfold Ea.seqTaskDone
    have hl : ProgLive (Ea.clearCur s1 (some t)) := by
      unfold Ea.clearCur
      split
      · exact ⟨hp, by intro t' e; cases e⟩
      · next hne =>
        refine ⟨hp, ?_⟩
        intro t' hcur
        have hcs : s.cur = some t' := by rw [← hc1]; exact hcur
        have hne' : t' ≠ t := by
          intro e; subst e; exact hne (by rw [hcur])
        have := h.live t' hcs
        have hlen : s1.tasks.length = s.tasks.length := by rw [ht1]; simp
        rw [hlen, task_eq_taskOf, ht1, taskOf_set_ne _ _ _ _ hne', ← task_eq_taskOf]
        exact this
    generalize Ea.clearCur s1 (some t) = s2 at hl
    split
    · next hq => exact ⟨hl.seq, by intro hne; exact absurd hq hne, hl.live⟩
    · next c k rest hq =>
      refine ⟨hl.seq, (by intro _ e; cases e), ?_⟩
      intro t' ht'
      simp only [startNext] at ht'
      injection ht' with ht'
      subst ht'
      refine ⟨by simp [startNext], ?_⟩
      show (taskOf (s2.tasks ++ [{ coro := c }]) s2.tasks.length).delivered = false
      rw [taskOf_append_len]
  simp only []
  split
  · exact key
  · exact key
  · exact key
  · next hk => rw [hk] at hp; exact hp.elim
  · next hk => rw [hk] at hp; exact hp.elim

theorem Prog.runReady {s : TSt} (h : Prog s) (r : Ready) : Prog (runReady s r) := by
  cases r with
  | step t =>
    simp only [Ea.runReady]
    split
    · exact h
    · split
      · exact (h.emit _).finishTask t
      · apply Prog.emit
        exact h.of_set t _ rfl rfl rfl rfl rfl
  | resume t fail last =>
    simp only [Ea.runReady]
    split
    · exact h
    · have h1 := Prog.submitAll last.inside h
      apply Prog.finishTask
      apply Prog.emit
      split
      · exact h1
      · exact h1.of_eq rfl rfl rfl rfl
  | resumeCancel t =>
    simp only [Ea.runReady]
    split
    · exact h
    · exact (h.emit _).finishTask t
  | doneCb t => exact h.managerDone t
  | listener subs => exact Prog.submitAll subs h

theorem Prog.drain : ∀ (n : Nat) {s : TSt}, Prog s → Prog (drain n s)
  | 0, _, h => h
  | n + 1, s, h => by
    unfold Ea.drain
    split
    · exact h
    · apply Prog.drain n
      apply Prog.runReady
      exact h.of_eq rfl rfl rfl rfl

theorem Prog.tstep {s : TSt} (h : Prog s) (op : TOp) : Prog (tstep s op) := by
  apply Prog.drain
  cases op with
  | submit c k => exact h.submit c k
  | complete t fail last =>
    simp only [Ea.applyOp]
    split
    · exact h.of_eq rfl rfl rfl rfl
    · exact h
  | cancel t => exact h.cancelTask t

theorem prog_reachable (k : MgrKind) (hk : IsSeqKind k) (ops : List TOp) : Prog (ops.foldl tstep { kind := k }) := by
  suffices h : ∀ s, Prog s → Prog (ops.foldl tstep s) from
    h _ ⟨hk, by intro h; exact absurd rfl h, by intro t e; cases e⟩
  induction ops with
  | nil => intro s h; exact h
  | cons op ops ih => intro s h; exact ih _ (h.tstep op)

end Ea
