import EaModel.Civil
/-!
# The calendar of the model is the proleptic Gregorian calendar

`civilFromDays` is pinned down completely: day 0 is 1970-01-01 (a Thursday), and for EVERY integer `z` the date of
day `z + 1` is the calendar successor of the date of day `z` — the next day of the month, or the first of the next
month after the last day of a month (28/29/30/31 by the Gregorian leap rule), or 1 January of the next year after
31 December. Proof: the year-of-era formula is monotone (omega) and is evaluated by the kernel at the first and last
day of each of the 400 years of an era; the month/day formulas are evaluated for the 366 days of a year.
-/
namespace Ea

/-! ## year of era -/

/-- the year-of-era formula of `civilFromDays` -/
def Yf (doe : Int) : Int := (doe - doe / 1460 + doe / 36524 - doe / 146096) / 365
/-- days before (March-based) year `y` of an era -/
def Sy (y : Int) : Int := 365 * y + y / 4 - y / 100

theorem Yf_mono (a b : Int) (h0 : 0 ≤ a) (h : a ≤ b) (hb : b ≤ 146095) : Yf a ≤ Yf b := by
  unfold Yf; omega

theorem Sy_step (y : Int) (h0 : 0 ≤ y) : 365 ≤ Sy (y + 1) - Sy y ∧ Sy (y + 1) - Sy y ≤ 366 := by
  unfold Sy; omega

/-- the formula is right at the first and at the last day of every year of an era (kernel evaluation, 400 years) -/
theorem year_bounds_nat : ∀ y : Nat, y < 400 →
    Yf (Sy y) = y ∧ (y < 399 → Yf (Sy ((y : Int) + 1) - 1) = y) := by
  decide +kernel

theorem year_bounds (y : Int) (h0 : 0 ≤ y) (h1 : y ≤ 399) :
    Yf (Sy y) = y ∧ (y < 399 → Yf (Sy (y + 1) - 1) = y) := by
  have := year_bounds_nat y.toNat (by omega)
  have e : ((y.toNat : Nat) : Int) = y := Int.toNat_of_nonneg h0
  rw [e] at this
  exact ⟨this.1, fun h => this.2 (by omega)⟩

theorem last_year : Yf 146095 = 399 ∧ Yf 146096 = 399 ∧ Sy 399 = 145731 ∧ Sy 0 = 0 := by decide +kernel

/-- every day of an era lies in one of its 400 years -/
theorem year_exists : ∀ n : Nat, n ≤ 146096 → ∃ y : Int, 0 ≤ y ∧ y ≤ 399 ∧ Sy y ≤ n ∧ (y < 399 → (n : Int) < Sy (y + 1))
  | 0, _ => ⟨0, by omega, by omega, by unfold Sy; omega, by intro _; unfold Sy; omega⟩
  | n + 1, h => by
    obtain ⟨y, hy0, hy, h1, h2⟩ := year_exists n (by omega)
    by_cases h399 : y = 399
    · subst h399
      exact ⟨399, by omega, by omega, by omega, by intro h; omega⟩
    · have hlt := h2 (by omega)
      by_cases hn : ((n + 1 : Nat) : Int) < Sy (y + 1)
      · exact ⟨y, hy0, hy, by omega, fun _ => hn⟩
      · refine ⟨y + 1, by omega, by omega, by omega, ?_⟩
        intro _
        have := Sy_step (y + 1) (by omega)
        omega

/-- **the year-of-era formula is correct**: for a day `doe` of year `y` of the era it yields `y` -/
theorem Yf_correct (doe y : Int) (h0 : 0 ≤ doe) (h1 : doe ≤ 146096) (hy0 : 0 ≤ y) (hy : y ≤ 399) (hlo : Sy y ≤ doe)
    (hhi : y < 399 → doe < Sy (y + 1)) : Yf doe = y := by
  by_cases h399 : y = 399
  · subst h399
    obtain ⟨l1, l2, l3, _⟩ := last_year
    by_cases he : doe = 146096
    · rw [he]; exact l2
    · have a := Yf_mono (Sy 399) doe (by rw [l3]; omega) hlo (by omega)
      have b := Yf_mono doe 146095 h0 (by omega) (by omega)
      have c := (year_bounds 399 (by omega) (by omega)).1
      omega
  · have hlt := hhi (by omega)
    obtain ⟨c1, c2⟩ := year_bounds y hy0 hy
    have c2 := c2 (by omega)
    have hs := Sy_step y hy0
    have hub : Sy (y + 1) - 1 ≤ 146095 := by
      have : Sy (y + 1) ≤ 145731 := by unfold Sy; omega
      omega
    have a := Yf_mono (Sy y) doe (by unfold Sy; omega) hlo (by omega)
    have b := Yf_mono doe (Sy (y + 1) - 1) h0 (by omega) hub
    omega

/-- every day of an era, with its year: the formula finds the year and the day of the year is in range -/
theorem year_of_day (doe : Int) (h0 : 0 ≤ doe) (h1 : doe ≤ 146096) :
    0 ≤ Yf doe ∧ Yf doe ≤ 399 ∧ Sy (Yf doe) ≤ doe ∧ (Yf doe < 399 → doe < Sy (Yf doe + 1)) := by
  obtain ⟨y, hy0, hy, hlo, hhi⟩ := year_exists doe.toNat (by omega)
  have e : ((doe.toNat : Nat) : Int) = doe := Int.toNat_of_nonneg h0
  rw [e] at hlo hhi
  have := Yf_correct doe y h0 h1 hy0 hy hlo hhi
  rw [this]
  exact ⟨hy0, hy, hlo, hhi⟩

/-! ## month and day of the (March-based) year -/

def mpOf (doy : Int) : Int := (5 * doy + 2) / 153
def dOf (doy : Int) : Int := doy - (153 * mpOf doy + 2) / 5 + 1
/-- lengths of the months of a March-based year (February last, 29 at most) -/
def mlen (mp : Int) : Int :=
  if mp = 1 ∨ mp = 3 ∨ mp = 6 ∨ mp = 8 then 30 else if mp = 11 then 29 else 31

def mdOK (n : Nat) : Bool :=
  let doy : Int := n
  let mp := mpOf doy
  let d := dOf doy
  decide (0 ≤ mp ∧ mp ≤ 11 ∧ 1 ≤ d ∧ d ≤ mlen mp ∧ (153 * mp + 2) / 5 + d - 1 = doy) &&
  (n == 365 || (if d < mlen mp then decide (mpOf (doy + 1) = mp ∧ dOf (doy + 1) = d + 1)
                else decide (mpOf (doy + 1) = mp + 1 ∧ dOf (doy + 1) = 1)))

theorem md_table_nat : ∀ n : Nat, n < 366 → mdOK n = true := by decide +kernel

theorem md_table (doy : Int) (h0 : 0 ≤ doy) (h1 : doy ≤ 365) :
    0 ≤ mpOf doy ∧ mpOf doy ≤ 11 ∧ 1 ≤ dOf doy ∧ dOf doy ≤ mlen (mpOf doy) ∧
    (153 * mpOf doy + 2) / 5 + dOf doy - 1 = doy ∧
    (doy < 365 → (if dOf doy < mlen (mpOf doy) then mpOf (doy + 1) = mpOf doy ∧ dOf (doy + 1) = dOf doy + 1
                  else mpOf (doy + 1) = mpOf doy + 1 ∧ dOf (doy + 1) = 1)) := by
  have := md_table_nat doy.toNat (by omega)
  have e : ((doy.toNat : Nat) : Int) = doy := Int.toNat_of_nonneg h0
  simp only [mdOK, e, Bool.and_eq_true, decide_eq_true_eq, Bool.or_eq_true, beq_iff_eq] at this
  obtain ⟨⟨a, b, c, d, f⟩, g⟩ := this
  refine ⟨a, b, c, d, f, ?_⟩
  intro hlt
  rcases g with g | g
  · omega
  · split at g
    · next hd => rw [if_pos hd]; simpa using g
    · next hd => rw [if_neg hd]; simpa using g

theorem md_ends : mpOf 0 = 0 ∧ dOf 0 = 1 ∧ mpOf 364 = 11 ∧ dOf 364 = 28 ∧ mpOf 365 = 11 ∧ dOf 365 = 29 := by
  decide +kernel

/-! ## the Gregorian calendar -/

def isLeap (y : Int) : Prop := (y % 4 = 0 ∧ y % 100 ≠ 0) ∨ y % 400 = 0
instance (y : Int) : Decidable (isLeap y) := by unfold isLeap; exact inferInstance

def daysInMonth (y m : Int) : Int :=
  if m = 2 then (if isLeap y then 29 else 28)
  else if m = 4 ∨ m = 6 ∨ m = 9 ∨ m = 11 then 30 else 31

/-- `b` is the calendar day after `a` -/
def IsSucc (a b : YMD) : Prop :=
  if a.d < daysInMonth a.y a.m then b.y = a.y ∧ b.m = a.m ∧ b.d = a.d + 1
  else if a.m < 12 then b.y = a.y ∧ b.m = a.m + 1 ∧ b.d = 1
  else b.y = a.y + 1 ∧ b.m = 1 ∧ b.d = 1

def WellFormed (a : YMD) : Prop := 1 ≤ a.m ∧ a.m ≤ 12 ∧ 1 ≤ a.d ∧ a.d ≤ daysInMonth a.y a.m

/-- `civilFromDays` after the split into era and day of era -/
def civilOf (era doe : Int) : YMD :=
  let yoe := Yf doe
  let doy := doe - Sy yoe
  let mp := mpOf doy
  let m := if mp < 10 then mp + 3 else mp - 9
  { y := if m ≤ 2 then yoe + era * 400 + 1 else yoe + era * 400, m := m, d := dOf doy }

theorem civilFromDays_eq (z : Int) :
    civilFromDays z = civilOf ((z + 719468) / 146097) ((z + 719468) - (z + 719468) / 146097 * 146097) := by
  unfold civilFromDays civilOf Yf Sy mpOf dOf
  rfl

/-- length of (March-based) year `y` of an era -/
def ylen (y : Int) : Int := if y = 399 then 366 else Sy (y + 1) - Sy y

theorem ylen_range (y : Int) (h0 : 0 ≤ y) : ylen y = 365 ∨ ylen y = 366 := by
  unfold ylen; split
  · exact Or.inr rfl
  · have := Sy_step y h0; omega

/-- the year that ends in February of calendar year `y + 400·era + 1` has 366 days exactly when that is a leap year -/
theorem leap_iff (y era : Int) (h0 : 0 ≤ y) (h1 : y ≤ 399) : isLeap (y + era * 400 + 1) ↔ ylen y = 366 := by
  unfold isLeap ylen Sy
  split
  · next h =>
    subst h
    constructor
    · intro _; rfl
    · intro _; right; omega
  · constructor
    · intro h; omega
    · intro h; omega

/-- the calendar date of day `d` of March-based month `mp` of the year that starts in March of calendar year `yy` -/
def realDate (yy mp d : Int) : YMD :=
  let m := if mp < 10 then mp + 3 else mp - 9
  { y := if m ≤ 2 then yy + 1 else yy, m := m, d := d }

theorem mp_cases (mp : Int) (h0 : 0 ≤ mp) (h1 : mp ≤ 11) :
    mp = 0 ∨ mp = 1 ∨ mp = 2 ∨ mp = 3 ∨ mp = 4 ∨ mp = 5 ∨ mp = 6 ∨ mp = 7 ∨ mp = 8 ∨ mp = 9 ∨ mp = 10 ∨ mp = 11 := by
  omega

/-- within a month -/
theorem real_succ_day (yy mp d : Int) (h0 : 0 ≤ mp) (h1 : mp ≤ 11) (hd : 1 ≤ d) (hlt : d < mlen mp)
    (hfeb : mp = 11 → d = 28 → isLeap (yy + 1)) : IsSucc (realDate yy mp d) (realDate yy mp (d + 1)) := by
  rcases mp_cases mp h0 h1 with h | h | h | h | h | h | h | h | h | h | h | h <;> subst h <;>
    simp only [IsSucc, realDate, daysInMonth, mlen] at * <;> simp at * <;> try omega
  -- February
  all_goals
    by_cases hl : isLeap (yy + 1)
    · simp [hl]; omega
    · simp [hl]
      by_cases h28 : d = 28
      · exact absurd (hfeb h28) hl
      · omega

/-- from the last day of a month (not February) to the first of the next month -/
theorem real_succ_month (yy mp d : Int) (h0 : 0 ≤ mp) (h1 : mp ≤ 10) (hd : d = mlen mp) :
    IsSucc (realDate yy mp d) (realDate yy (mp + 1) 1) := by
  rcases mp_cases mp h0 (by omega) with h | h | h | h | h | h | h | h | h | h | h | h <;> subst h <;>
    simp only [IsSucc, realDate, daysInMonth, mlen] at * <;> simp at * <;> try omega

/-- from the last day of February to 1 March -/
theorem real_succ_year (yy d : Int) (hd : d = if isLeap (yy + 1) then 29 else 28) :
    IsSucc (realDate yy 11 d) (realDate (yy + 1) 0 1) := by
  simp only [IsSucc, realDate, daysInMonth]
  by_cases hl : isLeap (yy + 1) <;> simp [hl] at hd ⊢ <;> omega

theorem real_wellFormed (yy mp d : Int) (h0 : 0 ≤ mp) (h1 : mp ≤ 11) (hd : 1 ≤ d) (hle : d ≤ mlen mp)
    (hfeb : mp = 11 → d = 29 → isLeap (yy + 1)) : WellFormed (realDate yy mp d) := by
  rcases mp_cases mp h0 h1 with h | h | h | h | h | h | h | h | h | h | h | h <;> subst h <;>
    simp only [WellFormed, realDate, daysInMonth, mlen] at * <;> simp at * <;> try omega
  all_goals
    by_cases hl : isLeap (yy + 1)
    · simp [hl]; omega
    · simp [hl]
      by_cases h29 : d = 29
      · exact absurd (hfeb h29) hl
      · omega

theorem civilOf_real (era doe : Int) :
    civilOf era doe = realDate (Yf doe + era * 400) (mpOf (doe - Sy (Yf doe))) (dOf (doe - Sy (Yf doe))) := rfl

/-- facts about a day of an era: its year, the day of the year, month and day -/
structure DayFacts (doe : Int) : Prop where
  y0 : 0 ≤ Yf doe
  y1 : Yf doe ≤ 399
  lo : Sy (Yf doe) ≤ doe
  hi : doe - Sy (Yf doe) < ylen (Yf doe)

theorem day_facts (doe : Int) (h0 : 0 ≤ doe) (h1 : doe ≤ 146096) : DayFacts doe := by
  obtain ⟨a, b, c, d⟩ := year_of_day doe h0 h1
  refine ⟨a, b, c, ?_⟩
  unfold ylen
  split
  · next h => rw [h] at c ⊢; have := last_year.2.2.1; omega
  · next h => have := d (by omega); omega

/-- the next day lies in the same year of the era -/
theorem civilOf_succ_same_year (era doe : Int) (h0 : 0 ≤ doe) (h1 : doe + 1 ≤ 146096) (hs : Yf (doe + 1) = Yf doe) :
    IsSucc (civilOf era doe) (civilOf era (doe + 1)) := by
  obtain ⟨fy0, fy1, flo, fhi⟩ := day_facts doe h0 (by omega)
  obtain ⟨_, _, _, fhi'⟩ := day_facts (doe + 1) (by omega) h1
  rw [hs] at fhi'
  rw [civilOf_real, civilOf_real, hs]
  have hdoy : doe + 1 - Sy (Yf doe) = (doe - Sy (Yf doe)) + 1 := by omega
  rw [hdoy] at fhi' ⊢
  generalize Yf doe = y at *
  have hdoy0 : 0 ≤ doe - Sy y := by omega
  generalize doe - Sy y = doy at *
  have hlen := ylen_range y fy0
  obtain ⟨m0, m1, d0, d1, inv, step⟩ := md_table doy hdoy0 (by omega)
  have step := step (by omega)
  by_cases hlt : dOf doy < mlen (mpOf doy)
  · rw [if_pos hlt] at step
    rw [step.1, step.2]
    apply real_succ_day _ _ _ m0 m1 d0 hlt
    intro hm hd28
    rw [hm, hd28] at inv
    have : doy = 364 := by omega
    have hl : ylen y = 366 := by omega
    exact (leap_iff y era fy0 fy1).2 hl
  · rw [if_neg hlt] at step
    rw [step.1, step.2]
    have hm10 : mpOf doy ≤ 10 := by
      by_cases h11 : mpOf doy = 11
      · exfalso
        rw [h11] at inv d1 hlt
        simp only [mlen] at d1 hlt
        simp at d1 hlt
        omega
      · omega
    exact real_succ_month _ _ _ m0 hm10 (by omega)

/-- the last day of a year of the era (February 28 / 29) -/
theorem last_day_of_year (doe : Int) (h0 : 0 ≤ doe) (h1 : doe ≤ 146096) (hl : doe - Sy (Yf doe) + 1 = ylen (Yf doe)) (era : Int) :
    mpOf (doe - Sy (Yf doe)) = 11 ∧
    dOf (doe - Sy (Yf doe)) = if isLeap (Yf doe + era * 400 + 1) then 29 else 28 := by
  obtain ⟨fy0, fy1, flo, fhi⟩ := day_facts doe h0 h1
  obtain ⟨e1, e2, e3, e4, e5, e6⟩ := md_ends
  have hlen := ylen_range (Yf doe) fy0
  have hle := leap_iff (Yf doe) era fy0 fy1
  rcases hlen with h | h
  · have hd : doe - Sy (Yf doe) = 364 := by omega
    rw [hd, if_neg (by intro hlp; have := hle.1 hlp; omega)]
    exact ⟨e3, e4⟩
  · have hd : doe - Sy (Yf doe) = 365 := by omega
    rw [hd, if_pos (hle.2 h)]
    exact ⟨e5, e6⟩

theorem civilOf_succ_next_year (era doe : Int) (h0 : 0 ≤ doe) (h1 : doe + 1 ≤ 146096) (hs : Yf (doe + 1) ≠ Yf doe) :
    IsSucc (civilOf era doe) (civilOf era (doe + 1)) := by
  obtain ⟨fy0, fy1, flo, fhi⟩ := day_facts doe h0 (by omega)
  obtain ⟨gy0, gy1, glo, ghi⟩ := day_facts (doe + 1) (by omega) h1
  -- the next day starts year `Yf doe + 1`
  have hnext : Yf (doe + 1) = Yf doe + 1 ∧ doe + 1 = Sy (Yf doe + 1) := by
    have hmono : Yf doe ≤ Yf (doe + 1) := by
      by_cases hb : doe + 1 ≤ 146095
      · exact Yf_mono doe (doe + 1) h0 (by omega) hb
      · have : doe + 1 = 146096 := by omega
        rw [this]; rw [last_year.2.1]; exact fy1
    have hlt : Yf doe < 399 := by omega
    have hy : Yf doe < Yf (doe + 1) := by omega
    -- doe < Sy (Yf doe + 1) ≤ Sy (Yf (doe+1)) ≤ doe + 1
    have hup : doe < Sy (Yf doe + 1) := by
      have := fhi; unfold ylen at this; rw [if_neg (by omega)] at this; omega
    have hmonoS : Sy (Yf doe + 1) ≤ Sy (Yf (doe + 1)) := by
      have : ∀ a b : Int, 0 ≤ a → a ≤ b → Sy a ≤ Sy b := by intro a b _ _; unfold Sy; omega
      exact this _ _ (by omega) (by omega)
    have he : Sy (Yf (doe + 1)) = doe + 1 := by omega
    have hS : Sy (Yf doe + 1) = doe + 1 := by omega
    refine ⟨?_, hS.symm⟩
    -- Sy is strictly increasing, so equal values have equal arguments
    have hstrict : ∀ a b : Int, 0 ≤ a → a < b → Sy a < Sy b := by intro a b _ _; unfold Sy; omega
    by_cases hne : Yf doe + 1 < Yf (doe + 1)
    · have := hstrict _ _ (by omega) hne; omega
    · omega
  obtain ⟨hy', hS⟩ := hnext
  have hlast : doe - Sy (Yf doe) + 1 = ylen (Yf doe) := by
    unfold ylen; rw [if_neg (by omega)]; omega
  obtain ⟨hm, hd⟩ := last_day_of_year doe h0 (by omega) hlast era
  rw [civilOf_real, civilOf_real, hm, hy']
  have hz : doe + 1 - Sy (Yf doe + 1) = 0 := by omega
  rw [hz, md_ends.1, md_ends.2.1]
  have e : Yf doe + 1 + era * 400 = Yf doe + era * 400 + 1 := by omega
  rw [e]
  exact real_succ_year _ _ hd

theorem civilOf_succ_next_era (era : Int) : IsSucc (civilOf era 146096) (civilOf (era + 1) 0) := by
  obtain ⟨l1, l2, l3, l4⟩ := last_year
  have hlast : (146096 : Int) - Sy (Yf 146096) + 1 = ylen (Yf 146096) := by
    rw [l2, l3]; unfold ylen; simp
  obtain ⟨hm, hd⟩ := last_day_of_year 146096 (by omega) (by omega) hlast era
  have y0 : Yf 0 = 0 := by decide +kernel
  rw [civilOf_real, civilOf_real, hm, y0, l4]
  have hz : (0 : Int) - 0 = 0 := by omega
  rw [hz, md_ends.1, md_ends.2.1]
  have e : (0 : Int) + (era + 1) * 400 = Yf 146096 + era * 400 + 1 := by rw [l2]; omega
  rw [e]
  exact real_succ_year _ _ hd

/-- **the day after**: for every day number, the date of the next day is the calendar successor of its date -/
theorem civil_succ (z : Int) : IsSucc (civilFromDays z) (civilFromDays (z + 1)) := by
  rw [civilFromDays_eq, civilFromDays_eq]
  have hz : z + 1 + 719468 = (z + 719468) + 1 := by omega
  rw [hz]
  generalize z + 719468 = Z
  have hd0 : 0 ≤ Z - Z / 146097 * 146097 := by omega
  have hd1 : Z - Z / 146097 * 146097 ≤ 146096 := by omega
  by_cases hlast : Z - Z / 146097 * 146097 = 146096
  · -- the era ends
    have e1 : (Z + 1) / 146097 = Z / 146097 + 1 := by omega
    have e2 : Z + 1 - (Z + 1) / 146097 * 146097 = 0 := by omega
    rw [e2, e1, hlast]
    exact civilOf_succ_next_era _
  · have e1 : (Z + 1) / 146097 = Z / 146097 := by omega
    have e2 : Z + 1 - (Z + 1) / 146097 * 146097 = (Z - Z / 146097 * 146097) + 1 := by omega
    rw [e2, e1]
    generalize Z - Z / 146097 * 146097 = doe at *
    by_cases hs : Yf (doe + 1) = Yf doe
    · exact civilOf_succ_same_year _ doe hd0 (by omega) hs
    · exact civilOf_succ_next_year _ doe hd0 (by omega) hs

/-- the anchor: day 0 is Thursday, 1 January 1970 -/
theorem civil_epoch : civilFromDays 0 = { y := 1970, m := 1, d := 1 } ∧ isoWeekday 0 = 4 := by decide +kernel

/-- the weekday advances with the day, cyclically Monday = 1 … Sunday = 7 -/
theorem weekday_succ (z : Int) : isoWeekday (z + 1) = if isoWeekday z = 7 then 1 else isoWeekday z + 1 := by
  unfold isoWeekday; split <;> omega

/-- every date the model produces is a date of the calendar: month 1–12, day 1–(length of that month) -/
theorem civil_wellFormed (z : Int) : WellFormed (civilFromDays z) := by
  rw [civilFromDays_eq]
  generalize z + 719468 = Z
  have hd0 : 0 ≤ Z - Z / 146097 * 146097 := by omega
  have hd1 : Z - Z / 146097 * 146097 ≤ 146096 := by omega
  generalize Z - Z / 146097 * 146097 = doe at *
  generalize Z / 146097 = era
  obtain ⟨fy0, fy1, flo, fhi⟩ := day_facts doe hd0 hd1
  rw [civilOf_real]
  have hlen := ylen_range (Yf doe) fy0
  obtain ⟨m0, m1, d0, d1, inv, _⟩ := md_table (doe - Sy (Yf doe)) (by omega) (by omega)
  apply real_wellFormed _ _ _ m0 m1 d0 d1
  intro hm hd29
  rw [hm, hd29] at inv
  have : doe - Sy (Yf doe) = 365 := by omega
  exact (leap_iff (Yf doe) era fy0 fy1).2 (by omega)

/-- `daysFromCivil` is the inverse: the day number of the date of day `z` is `z` -/
theorem days_of_civil (z : Int) :
    daysFromCivil (civilFromDays z).y (civilFromDays z).m (civilFromDays z).d = z := by
  rw [civilFromDays_eq]
  have hZ : z = (z + 719468) / 146097 * 146097 + ((z + 719468) - (z + 719468) / 146097 * 146097) - 719468 := by omega
  generalize z + 719468 = Z at *
  have hd0 : 0 ≤ Z - Z / 146097 * 146097 := by omega
  have hd1 : Z - Z / 146097 * 146097 ≤ 146096 := by omega
  generalize Z - Z / 146097 * 146097 = doe at *
  generalize Z / 146097 = era at *
  obtain ⟨fy0, fy1, flo, fhi⟩ := day_facts doe hd0 hd1
  have hlen := ylen_range (Yf doe) fy0
  obtain ⟨m0, m1, d0, d1, inv, _⟩ := md_table (doe - Sy (Yf doe)) (by omega) (by omega)
  rw [civilOf_real]
  generalize Yf doe = yoe at *
  generalize hmp : mpOf (doe - Sy yoe) = mp at *
  generalize hdd : dOf (doe - Sy yoe) = d at *
  unfold Sy at flo inv
  simp only [realDate, daysFromCivil]
  by_cases h10 : mp < 10
  · have hm : ¬ (mp + 3 ≤ 2) := by omega
    have hm' : mp + 3 > 2 := by omega
    simp only [if_pos h10, if_neg hm, if_pos hm']
    have e1 : (yoe + era * 400) / 400 = era := by omega
    have e2 : mp + 3 - 3 = mp := by omega
    rw [e1, e2]
    omega
  · have hm : mp - 9 ≤ 2 := by omega
    have hm' : ¬ (mp - 9 > 2) := by omega
    simp only [if_neg h10, if_pos hm, if_neg hm']
    have e0 : yoe + era * 400 + 1 - 1 = yoe + era * 400 := by omega
    have e1 : (yoe + era * 400) / 400 = era := by omega
    have e2 : mp - 9 + 9 = mp := by omega
    rw [e0, e1, e2]
    omega

/-! ## the other direction: every calendar date is the date of its day number -/

def mdInvOK (mp d : Nat) : Bool :=
  let doy : Int := (153 * (mp : Int) + 2) / 5 + (d : Int) - 1
  decide (mpOf doy = mp ∧ dOf doy = d ∧ 0 ≤ doy ∧ doy ≤ 365)

theorem md_inv_nat : ∀ mp : Nat, mp < 12 → ∀ d : Nat, d < 32 → 1 ≤ d → (d : Int) ≤ mlen mp → mdInvOK mp d = true := by
  decide +kernel

theorem md_inv (mp d : Int) (h0 : 0 ≤ mp) (h1 : mp ≤ 11) (hd0 : 1 ≤ d) (hd1 : d ≤ mlen mp) :
    mpOf ((153 * mp + 2) / 5 + d - 1) = mp ∧ dOf ((153 * mp + 2) / 5 + d - 1) = d ∧
    0 ≤ (153 * mp + 2) / 5 + d - 1 ∧ (153 * mp + 2) / 5 + d - 1 ≤ 365 := by
  have hml : mlen mp ≤ 31 := by unfold mlen; split <;> (try split) <;> omega
  have := md_inv_nat mp.toNat (by omega) d.toNat (by omega) (by omega)
    (by rw [Int.toNat_of_nonneg (by omega), Int.toNat_of_nonneg h0]; exact hd1)
  simp only [mdInvOK, Int.toNat_of_nonneg h0, Int.toNat_of_nonneg (show 0 ≤ d by omega), decide_eq_true_eq] at this
  exact this

/-- **every well-formed date is hit**: the date of day number `daysFromCivil y m d` is `y-m-d` -/
theorem civil_of_days (y m d : Int) (hw : WellFormed { y := y, m := m, d := d }) :
    civilFromDays (daysFromCivil y m d) = { y := y, m := m, d := d } := by
  obtain ⟨hm1, hm12, hd1, hdm⟩ := hw
  simp only at hm1 hm12 hd1 hdm
  rw [civilFromDays_eq]
  unfold daysFromCivil
  simp only []
  -- March-based year, month
  generalize hyy : (if m ≤ 2 then y - 1 else y) = yy
  generalize hmp : (if m > 2 then m - 3 else m + 9) = mp
  have hmp0 : 0 ≤ mp ∧ mp ≤ 11 := by rw [← hmp]; split <;> omega
  have hdml : d ≤ mlen mp := by
    unfold daysInMonth at hdm
    rw [← hmp]
    unfold mlen
    by_cases h2 : m = 2
    · subst h2; simp at hdm ⊢; split at hdm <;> omega
    · rw [if_neg h2] at hdm
      by_cases h3 : m > 2
      · rw [if_pos h3]
        split at hdm
        · next h => split <;> omega
        · next h => split <;> (try split) <;> omega
      · have : m = 1 := by omega
        subst this
        simp at hdm ⊢
        omega
  obtain ⟨i1, i2, i3, i4⟩ := md_inv mp d hmp0.1 hmp0.2 hd1 hdml
  generalize hdoy : (153 * mp + 2) / 5 + d - 1 = doy at *
  -- era and year of era
  have hyoe0 : 0 ≤ yy - yy / 400 * 400 := by omega
  have hyoe1 : yy - yy / 400 * 400 ≤ 399 := by omega
  generalize hera : yy / 400 = era at *
  generalize hyoe : yy - era * 400 = yoe at *
  -- the day of the year is inside the year
  have hin : doy < ylen yoe := by
    have hr := ylen_range yoe hyoe0
    by_cases h365 : doy = 365
    · -- 29 February: the date is well-formed, so the year is a leap year
      have hmp11 : mp = 11 ∧ d = 29 := by
        have : mpOf 365 = 11 ∧ dOf 365 = 29 := ⟨md_ends.2.2.2.2.1, md_ends.2.2.2.2.2⟩
        rw [h365] at i1 i2; omega
      have hm2 : m = 2 := by rw [← hmp] at hmp11; split at hmp11 <;> omega
      subst hm2
      have hleap : isLeap y := by
        unfold daysInMonth at hdm; simp at hdm
        by_cases hn : isLeap y
        · exact hn
        · rw [if_neg hn] at hdm; omega
      have hyy' : yy = y - 1 := by rw [← hyy]; simp
      have : isLeap (yoe + era * 400 + 1) := by
        have : yoe + era * 400 + 1 = y := by omega
        rw [this]; exact hleap
      have := (leap_iff yoe era hyoe0 hyoe1).1 this
      omega
    · omega
  have hSy : Sy yoe = yoe * 365 + yoe / 4 - yoe / 100 := by unfold Sy; omega
  have hdoe0 : 0 ≤ Sy yoe + doy := by unfold Sy; omega
  have hdoe1 : Sy yoe + doy ≤ 146096 := by
    unfold ylen at hin
    split at hin
    · next h => rw [h]; have := last_year.2.2.1; omega
    · have : Sy (yoe + 1) ≤ 145731 := by unfold Sy; omega
      omega
  have hZ : era * 146097 + (yoe * 365 + yoe / 4 - yoe / 100 + doy) - 719468 + 719468 = era * 146097 + (Sy yoe + doy) := by
    rw [hSy]; omega
  rw [hZ]
  have e1 : (era * 146097 + (Sy yoe + doy)) / 146097 = era := by omega
  have e2 : era * 146097 + (Sy yoe + doy) - era * 146097 = Sy yoe + doy := by omega
  rw [e1, e2]
  have hY : Yf (Sy yoe + doy) = yoe := by
    apply Yf_correct _ _ hdoe0 hdoe1 hyoe0 hyoe1 (by omega)
    intro hlt
    unfold ylen at hin; rw [if_neg (by omega)] at hin; omega
  rw [civilOf_real, hY]
  have e3 : Sy yoe + doy - Sy yoe = doy := by omega
  rw [e3, i1, i2]
  -- back to the calendar year and month
  simp only [realDate]
  by_cases h3 : m > 2
  · have : mp = m - 3 := by rw [← hmp, if_pos h3]
    have hyy' : yy = y := by rw [← hyy, if_neg (by omega)]
    have h10 : mp < 10 := by omega
    simp only [if_pos h10]
    have hm : ¬ (mp + 3 ≤ 2) := by omega
    simp only [if_neg hm]
    congr 1 <;> omega
  · have : mp = m + 9 := by rw [← hmp, if_neg h3]
    have hyy' : yy = y - 1 := by rw [← hyy, if_pos (by omega)]
    have h10 : ¬ mp < 10 := by omega
    simp only [if_neg h10]
    have hm : mp - 9 ≤ 2 := by omega
    simp only [if_pos hm]
    congr 1 <;> omega

end Ea
