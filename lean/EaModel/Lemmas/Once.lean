import EaModel.Lemmas.Frame
import EaModel.Lemmas.Order
/-!
# At most one execution per announced run time (C02)

For every job the due times of its logged executions are strictly increasing: when an execution for the run
time `d` is logged, every earlier execution of the job was for a run time before `d`, and every run time the job
is given afterwards (reschedule, reset, resume) lies after the clock, hence after `d`.
-/
namespace Ea

/-- the due times of the logged executions of job `i`, newest first -/
def duesOf (i : Nat) (l : List Ev) : List Int :=
  l.filterMap (fun e => match e with | .exec j _ d => if j = i then some d else none | _ => none)

theorem duesOf_append (i : Nat) (a b : List Ev) : duesOf i (a ++ b) = duesOf i a ++ duesOf i b := by
  unfold duesOf; exact List.filterMap_append

theorem duesOf_quiet {i : Nat} {l : List Ev} (h : ∀ e ∈ l, notExecOf i e) : duesOf i l = [] := by
  unfold duesOf
  rw [List.filterMap_eq_nil_iff]
  intro e he
  have := h e he
  cases e with
  | exec j t d =>
    have hne : j ≠ i := this
    simp [hne]
  | _ => rfl

theorem duesOf_of_quiet {i : Nat} {s s' : St} (h : Quiet (notExecOf i) s s') : duesOf i s'.log = duesOf i s.log := by
  obtain ⟨l, hl, hp⟩ := h
  rw [hl, duesOf_append, duesOf_quiet hp]; rfl

theorem quiet_all {s s' : St} (h : Quiet notExec s s') (i : Nat) : Quiet (notExecOf i) s s' := by
  obtain ⟨l, hl, hp⟩ := h
  exact ⟨l, hl, fun e he => notExecOf_of_notExec i e (hp e he)⟩

/-- the part of the invariant that holds at every moment -/
structure MW (i : Nat) (s : St) : Prop where
  strict : (duesOf i s.log).Pairwise (· > ·)
  past : ∀ d ∈ duesOf i s.log, d ≤ s.now
  fresh : (s.job i).status = .created → duesOf i s.log = []
  cd : (s.job i).linked = true → isCountdown (s.job i) = true → 0 < (s.job i).secs

/-- the run time a job reports lies after all its logged executions -/
def MB (i : Nat) (s : St) : Prop := ∀ n, s.nr i = some n → ∀ d ∈ duesOf i s.log, d < n

/-- the invariant, with the jobs in `J` (taken out of the queue for execution or re-timing) exempt from `MB` -/
structure MonoP (J : Nat → Prop) (s : St) : Prop where
  w : ∀ i, MW i s
  b : ∀ i, ¬ J i → MB i s

theorem MW_frame {i : Nat} {s s' : St} (h : MW i s) (hl : Quiet (notExecOf i) s s') (hn : s.now ≤ s'.now)
    (hst : (s'.job i).status = .created → (s.job i).status = .created)
    (hcd : (s'.job i).linked = true → isCountdown (s'.job i) = true → 0 < (s'.job i).secs) : MW i s' := by
  have e := duesOf_of_quiet hl
  refine ⟨by rw [e]; exact h.strict, ?_, ?_, hcd⟩
  · intro d hd; rw [e] at hd; exact Int.le_trans (h.past d hd) hn
  · intro hc; rw [e]; exact h.fresh (hst hc)

theorem MW_same {i : Nat} {s s' : St} (h : MW i s) (hl : Quiet (notExecOf i) s s') (hn : s.now ≤ s'.now)
    (hj : s'.jobs i = s.jobs i) : MW i s' :=
  MW_frame h hl hn (by unfold St.job; rw [hj]; exact id) (by unfold St.job; rw [hj]; exact h.cd)

theorem MB_frame {i : Nat} {s s' : St} (h : MB i s) (hl : Quiet (notExecOf i) s s') (hnr : s'.nr i = s.nr i) :
    MB i s' := by
  intro n hn d hd
  rw [hnr] at hn
  rw [duesOf_of_quiet hl] at hd
  exact h n hn d hd

/-- a step that logs no execution, keeps the clock and changes at most the record of job `j`, an exempt job -/
theorem MonoP_step {J : Nat → Prop} {s s' : St} (j : Nat) (hJ : J j) (h : MonoP J s) (hl : Quiet notExec s s')
    (hn : s'.now = s.now) (hjobs : ∀ i, i ≠ j → s'.jobs i = s.jobs i)
    (hst : (s'.job j).status = .created → (s.job j).status = .created)
    (hcd : (s'.job j).linked = true → isCountdown (s'.job j) = true → 0 < (s'.job j).secs) : MonoP J s' := by
  refine ⟨fun i => ?_, fun i hi => ?_⟩
  · by_cases e : i = j
    · subst e; exact MW_frame (h.w i) (quiet_all hl i) (by rw [hn]; exact Int.le_refl _) hst hcd
    · exact MW_same (h.w i) (quiet_all hl i) (by rw [hn]; exact Int.le_refl _) (hjobs i e)
  · have e : i ≠ j := fun e => hi (e ▸ hJ)
    exact MB_frame (h.b i hi) (quiet_all hl i) (by unfold St.nr; rw [hjobs i e])

/-- a step that logs no execution, keeps the clock and every job record -/
theorem MonoP_same {J : Nat → Prop} {s s' : St} (h : MonoP J s) (hl : Quiet notExec s s')
    (hn : s.now ≤ s'.now) (hjobs : s'.jobs = s.jobs) : MonoP J s' :=
  ⟨fun i => MW_same (h.w i) (quiet_all hl i) hn (by rw [hjobs]),
   fun i hi => MB_frame (h.b i hi) (quiet_all hl i) (by unfold St.nr; rw [hjobs])⟩

theorem MonoP.mono {J J' : Nat → Prop} {s : St} (h : MonoP J s) (hJ : ∀ i, J i → J' i) : MonoP J' s :=
  ⟨h.w, fun i hi => h.b i (fun hj => hi (hJ i hj))⟩

theorem MonoP.add {J : Nat → Prop} {s : St} {j : Nat} (h : MonoP (fun x => J x ∨ x = j) s) (hb : MB j s) : MonoP J s :=
  ⟨h.w, fun i hi => by
    by_cases e : i = j
    · subst e; exact hb
    · exact h.b i (fun hh => hh.elim hi e)⟩

/-! ### `set_next_run` -/

theorem setNextRun_jobs (s : St) (j : Nat) (nr : Option Int) :
    (setNextRun s j nr).1 = s ∨
    ∃ st, (st = Status.paused ∨ st = Status.running) ∧
      (setNextRun s j nr).1.jobs = fun i => if i = j then { s.job j with nextRun := nr, status := st } else s.jobs i := by
  unfold setNextRun
  cases nr with
  | none =>
    right
    obtain ⟨_, h2, _⟩ := runCbs_frame false j ((s.setJob j { s.job j with nextRun := none, status := .paused }).job j).onUpdate
      (s.setJob j { s.job j with nextRun := none, status := .paused })
    refine ⟨.paused, Or.inl rfl, ?_⟩
    show (runCbs false j _ _).jobs = _
    rw [h2]; rfl
  | some t =>
    simp only []
    split
    · left; rfl
    · right
      obtain ⟨_, h2, _⟩ := runCbs_frame false j ((s.setJob j { s.job j with nextRun := some t, status := .running }).job j).onUpdate
        (s.setJob j { s.job j with nextRun := some t, status := .running })
      refine ⟨.running, Or.inr rfl, ?_⟩
      show (runCbs false j _ _).jobs = _
      rw [h2]; rfl

theorem setNextRun_mono {J : Nat → Prop} (s : St) (j : Nat) (nr : Option Int) (hJ : J j) (h : MonoP J s) :
    MonoP J (setNextRun s j nr).1 := by
  rcases setNextRun_jobs s j nr with e | ⟨st, hst, hjobs⟩
  · rw [e]; exact h
  · refine MonoP_step j hJ h (setNextRun_quiet (fun _ h => h) s j nr) (setNextRun_clock s j nr).now ?_ ?_ ?_
    · intro i hi; rw [hjobs]; simp [hi]
    · intro hc
      exfalso
      have : ((setNextRun s j nr).1.job j).status = st := by unfold St.job; rw [hjobs]; simp
      rw [this] at hc; rcases hst with rfl | rfl <;> cases hc
    · have hj : (setNextRun s j nr).1.job j = { s.job j with nextRun := nr, status := st } := by
        show (setNextRun s j nr).1.jobs j = _
        rw [hjobs]; simp
      rw [hj]
      exact (h.w j).cd

/-- after a successful `set_next_run(t)` with `t` after the clock (or for a job that never ran) `MB` holds -/
theorem setNextRun_MB (s : St) (j : Nat) (t : Int) (hw : MW j s) (ht : s.now < t ∨ duesOf j s.log = [])
    (hok : (setNextRun s j (some t)).2 = none) : MB j (setNextRun s j (some t)).1 := by
  intro n hn d hd
  rw [duesOf_of_quiet (quiet_all (setNextRun_quiet (fun _ h => h) s j (some t)) j)] at hd
  rcases setNextRun_spec s j (some t) with ⟨_, h2⟩ | ⟨_, b', _, hb, hjobs, _⟩
  · rw [h2] at hok; cases hok
  · have : (setNextRun s j (some t)).1.nr j = some t := by unfold St.nr; rw [hjobs]; simp [hb]
    rw [this] at hn; cases hn
    rcases ht with ht | ht
    · have := hw.past d hd; omega
    · rw [ht] at hd; cases hd

theorem setNextRun_none_MB (s : St) (j : Nat) : MB j (setNextRun s j none).1 := by
  intro n hn
  rcases setNextRun_spec s j none with ⟨_, h2⟩ | ⟨_, b', _, hb, hjobs, _⟩
  · cases h2
  · have : (setNextRun s j none).1.nr j = none := by unfold St.nr; rw [hjobs]; simp [hb]
    rw [this] at hn; cases hn

theorem MB_of_nr_none {s : St} {j : Nat} (h : s.nr j = none) : MB j s := by
  intro n hn; rw [h] at hn; cases hn

/-- the contract of `_set_timer` -/
structure TimerFnM (setT : St → St) : Prop where
  base : TimerFn2 setT
  mono : ∀ (J : Nat → Prop) s, Inv s → (∀ x, J x → x ∉ s.queue) → MonoP J s → MonoP J (setT s)

section withTimer
variable (setT : St → St) (hT : TimerFnM setT)
include hT

theorem removeJob_mono (J : Nat → Prop) (s : St) (j : Nat) (hI : Inv { s with queue := s.queue.erase j })
    (hJ : ∀ x, J x → x ∉ s.queue.erase j) (h : MonoP J s) : MonoP J (removeJob setT s j) := by
  have h0 : MonoP J { s with queue := s.queue.erase j } := MonoP_same h (Quiet.of_eq rfl) (Int.le_refl _) rfl
  rcases removeJob_cases setT s j with e | e <;> rw [e]
  · exact hT.mono J _ hI hJ h0
  · exact h0

theorem addJob_mono (J : Nat → Prop) (s : St) (j : Nat) (hI : Inv s) (hj : j ∉ s.queue)
    (hJ : ∀ x, J x → x ∉ s.queue ∧ x ≠ j) (h : MonoP J s) : MonoP J (addJob setT s j) := by
  unfold addJob
  split
  · next hr =>
    simp only []
    have h0 : MonoP J { s with queue := insort s.nr j s.queue } := MonoP_same h (Quiet.of_eq rfl) (Int.le_refl _) rfl
    split
    · refine hT.mono J _ (Inv_insorted j hI hj hr) ?_ h0
      intro x hx hm
      have hm' : x ∈ insort s.nr j s.queue := hm
      rcases (insort_mem _ j s.queue x).1 hm' with e | e
      · exact (hJ x hx).2 e
      · exact (hJ x hx).1 e
    · exact h0
  · exact h

theorem jobFinish_mono (J : Nat → Prop) (s : St) (j : Nat) (hJj : J j) (hI : Inv s)
    (hJ : ∀ x, J x → x ∉ s.queue.erase j) (h : MonoP J s) :
    MonoP J (jobFinish setT s j).1 ∧ ((jobFinish setT s j).1.nr j = none) := by
  by_cases hf : (s.job j).status = .finished
  · unfold jobFinish; rw [if_pos hf]
    refine ⟨h, ?_⟩
    cases hn : s.nr j with
    | none => rfl
    | some t =>
      have : (s.jobs j).status = .running := (hI.st.run j).2 ⟨t, hn⟩
      rw [show (s.jobs j).status = (s.job j).status from rfl, hf] at this; cases this
  · have m1 := removeJob_mono setT hT J s j (Inv_erased j hI) hJ h
    obtain ⟨c, _, hnr⟩ := jobFinish_tail setT s j hf
    have hq := jobFinish_tail_quiet setT (fun _ h => h) s j hf
    -- the record of `j` afterwards
    have hjob : (jobFinish setT s j).1.jobs = fun i => if i = j then
        { (removeJob setT s j).job j with linked := false, status := .finished, nextRun := none, inStore := false }
        else (removeJob setT s j).jobs i := by
      unfold jobFinish
      rw [if_neg hf]
      simp only []
      obtain ⟨_, q2, _⟩ := runCbs_frame true j ((removeJob setT s j).job j).onFinished
        (if ((removeJob setT s j).job j).inStore then
          { ((removeJob setT s j).setJob j
            { (removeJob setT s j).job j with linked := false, status := .finished, nextRun := none, inStore := false }) with
            store := (((removeJob setT s j).setJob j
            { (removeJob setT s j).job j with linked := false, status := .finished, nextRun := none, inStore := false })).store.filter
              (fun kv => kv.1 ≠ ((removeJob setT s j).job j).key) }
         else ((removeJob setT s j).setJob j
            { (removeJob setT s j).job j with linked := false, status := .finished, nextRun := none, inStore := false }))
      rw [q2]
      split <;> rfl
    refine ⟨MonoP_step j hJj m1 hq c.now ?_ ?_ ?_, ?_⟩
    · intro i hi; rw [hjob]; simp [hi]
    · intro hc; exfalso
      have : ((jobFinish setT s j).1.job j).status = .finished := by unfold St.job; rw [hjob]; simp
      rw [this] at hc; cases hc
    · intro hl; exfalso
      have : ((jobFinish setT s j).1.job j).linked = false := by unfold St.job; rw [hjob]; simp
      rw [this] at hl; cases hl
    · unfold St.nr; rw [hjob]; simp

theorem updateNext_mono (J : Nat → Prop) (s : St) (j : Nat) (hJj : J j) (hI : Inv s)
    (hJ : ∀ x, J x → x ∉ s.queue.erase j) (h : MonoP J s) :
    MonoP J (updateNext setT s j).1 ∧ ((updateNext setT s j).2 = none → MB j (updateNext setT s j).1) ∧
    (∀ e, (updateNext setT s j).2 = some e → MB j s → MB j (updateNext setT s j).1) := by
  unfold updateNext
  simp only []
  split
  · obtain ⟨m, hn⟩ := jobFinish_mono setT hT J s j hJj hI hJ h
    exact ⟨m, fun _ => MB_of_nr_none hn, fun _ _ _ => MB_of_nr_none hn⟩
  · exact ⟨setNextRun_mono s j none hJj h, fun _ => setNextRun_none_MB s j, fun _ _ _ => setNextRun_none_MB s j⟩
  · next p hk =>
    split
    · exact ⟨h, fun hh => (by cases hh), fun _ _ hb => hb⟩
    · have hs1 : MonoP J (s.setJob j { s.job j with kind := Kind.recurring (p.anchorAt s.now), calls := (s.job j).calls + 1 }) := by
        refine MonoP_step j hJj h (Quiet.of_eq rfl) rfl (fun i hi => by simp [St.setJob, hi]) ?_ ?_
        · intro hc; simpa [St.job, St.setJob] using hc
        · intro _ hc; exfalso; simp [St.job, St.setJob, isCountdown] at hc
      have hb1 : MB j s → MB j (s.setJob j { s.job j with kind := Kind.recurring (p.anchorAt s.now), calls := (s.job j).calls + 1 }) :=
        fun hb => MB_frame hb (Quiet.of_eq rfl) (by simp [St.nr, St.setJob]; rfl)
      split
      · exact ⟨hs1, fun hh => (by cases hh), fun _ _ hb => hb1 hb⟩
      · split
        · exact ⟨hs1, fun hh => (by cases hh), fun _ _ hb => hb1 hb⟩
        · next n hn =>
          have hgt : n > s.now := C04.getNext_gt s.env _ _ _ hn
          refine ⟨setNextRun_mono _ j _ hJj hs1, fun hok => setNextRun_MB _ j n (hs1.w j) (Or.inl hgt) hok, ?_⟩
          intro e he hb
          rw [setNextRun_err he]
          exact hb1 hb

/-- `job.execute()` of the popped job `j`, which reports the run time `due` -/
theorem execute_mono (J : Nat → Prop) (s : St) (j : Nat) (due : Int) (hnJ : ¬ J j) (hI : Inv s) (hj : j ∉ s.queue)
    (hdue : due ≤ s.now) (hnr : s.nr j = some due) (hJ : ∀ x, J x → x ∉ s.queue) (h : MonoP J s) :
    MonoP J (execute setT s j due) := by
  have hnrj : (s.job j).nextRun = some due := hnr
  have hur := updateNext_result setT
  unfold execute
  simp only []
  generalize hs0 : (if (s.job j).execFail.contains (s.job j).execs = true then
      (((s.emit (Ev.exec j s.now due)).setJob j { s.job j with execs := (s.job j).execs + 1, lastRun := some s.now })).emit (Ev.exc "CallableError")
    else ((s.emit (Ev.exec j s.now due)).setJob j { s.job j with execs := (s.job j).execs + 1, lastRun := some s.now })) = s0
  have hb : JobOK ({ s.job j with execs := (s.job j).execs + 1, lastRun := some s.now } : Job) := hI.st j
  have hA : Inv ((s.emit (Ev.exec j s.now due)).setJob j { s.job j with execs := (s.job j).execs + 1, lastRun := some s.now }) :=
    (InvEx_setJob _ ((Inv_emit _ hI (by simpa [evOK] using hdue)).toEx j) hb).toInv hj
  have hrun : (s.job j).status = .running := (hI.st.run j).2 ⟨due, hnr⟩
  -- the state in which `update_next` is called: the execution is logged, `j` is exempt
  have h0 : MonoP (fun x => J x ∨ x = j) s0 ∧ s0.queue = s.queue ∧ s0.now = s.now ∧ Inv s0 ∧
      (s0.job j).nextRun = some due := by
    have key : ∀ (s' : St) (l : List Ev), s'.log = l ++ Ev.exec j s.now due :: s.log → (∀ e ∈ l, notExec e) →
        s'.now = s.now → s'.jobs = (fun i => if i = j then { s.job j with execs := (s.job j).execs + 1, lastRun := some s.now } else s.jobs i) →
        MonoP (fun x => J x ∨ x = j) s' := by
      intro s' l hl hp hn hjobs
      have hdj : duesOf j s'.log = due :: duesOf j s.log := by
        rw [hl, duesOf_append, duesOf_quiet (fun e he => notExecOf_of_notExec j e (hp e he))]
        simp [duesOf]
      refine ⟨fun i => ?_, fun i hi => ?_⟩
      · by_cases e : i = j
        · subst e
          refine ⟨?_, ?_, ?_, ?_⟩
          · rw [hdj]
            exact List.pairwise_cons.2 ⟨fun d hd => h.b i hnJ due hnr d hd, (h.w i).strict⟩
          · intro d hd
            rw [hdj] at hd
            rcases List.mem_cons.1 hd with rfl | hd
            · rw [hn]; exact hdue
            · rw [hn]; exact (h.w i).past d hd
          · intro hc; exfalso
            have : (s'.job i).status = .running := by unfold St.job; rw [hjobs]; simp; exact hrun
            rw [this] at hc; cases hc
          · have : s'.job i = { s.job i with execs := (s.job i).execs + 1, lastRun := some s.now } := by
              show s'.jobs i = _
              rw [hjobs]; simp
            rw [this]; exact (h.w i).cd
        · have hq : Quiet (notExecOf i) s s' := by
            refine ⟨l ++ [Ev.exec j s.now due], by rw [hl]; simp, ?_⟩
            intro x hx
            rcases List.mem_append.1 hx with hx | hx
            · exact notExecOf_of_notExec i x (hp x hx)
            · simp at hx; subst hx; exact fun hh => e hh.symm
          exact MW_same (h.w i) hq (by rw [hn]; exact Int.le_refl _) (by rw [hjobs]; simp [e])
      · have e : i ≠ j := fun e => hi (Or.inr e)
        have hq : Quiet (notExecOf i) s s' := by
          refine ⟨l ++ [Ev.exec j s.now due], by rw [hl]; simp, ?_⟩
          intro x hx
          rcases List.mem_append.1 hx with hx | hx
          · exact notExecOf_of_notExec i x (hp x hx)
          · simp at hx; subst hx; exact fun hh => e hh.symm
        exact MB_frame (h.b i (fun hh => hi (Or.inl hh))) hq (by unfold St.nr; rw [hjobs]; simp [e])
    subst hs0
    split
    · exact ⟨key _ [Ev.exc "CallableError"] rfl (fun e he => by simp at he; subst he; trivial) rfl rfl, rfl, rfl,
        Inv_emit _ hA (by simp [evOK]), by simp [St.job, St.setJob, St.emit]; exact hnrj⟩
    · exact ⟨key _ [] rfl (fun e he => by cases he) rfl rfl, rfl, rfl, hA,
        by simp [St.job, St.setJob, St.emit]; exact hnrj⟩
  obtain ⟨m0, q0, n0, i0, nr0⟩ := h0
  have hj0 : j ∉ s0.queue := by rw [q0]; exact hj
  have hJ0 : ∀ x, (J x ∨ x = j) → x ∉ s0.queue.erase j := by
    intro x hx hm
    have hm' := List.mem_of_mem_erase hm
    rcases hx with hx | hx
    · rw [q0] at hm'; exact hJ x hx hm'
    · subst hx; exact hj0 hm'
  obtain ⟨m1, ok1, _⟩ := updateNext_mono setT hT (fun x => J x ∨ x = j) s0 j (Or.inr rfl) i0 hJ0 m0
  obtain ⟨u1, u2⟩ := updateNext_spec setT hT.base.base j i0
  have hju : j ∉ (updateNext setT s0 j).1.queue := fun hm => hj0 (u2 j hm)
  have iu : Inv (updateNext setT s0 j).1 := u1.toInv hju
  obtain ⟨_, r2⟩ := hur s0 j due nr0
  split
  · next s' heq =>
    have e1 : s' = (updateNext setT s0 j).1 := by rw [heq]
    have e2 : (updateNext setT s0 j).2 = none := by rw [heq]
    subst e1
    exact m1.add (ok1 e2)
  · next s' e heq =>
    have e1 : s' = (updateNext setT s0 j).1 := by rw [heq]
    have e2 : (updateNext setT s0 j).2 = some e := by rw [heq]
    subst e1
    have m2 : MonoP (fun x => J x ∨ x = j) ((updateNext setT s0 j).1.emit (Ev.exc e.name)) :=
      MonoP_same m1 (Quiet.emit _ _ trivial) (Int.le_refl _) rfl
    split
    · exact (setNextRun_mono _ j none (Or.inr rfl) m2).add (setNextRun_none_MB _ j)
    · next hc =>
      refine m2.add (MB_of_nr_none ?_)
      cases hn : ((updateNext setT s0 j).1.emit (Ev.exc e.name)).nr j with
      | none => rfl
      | some t =>
        exfalso
        have hn' : ((updateNext setT s0 j).1.jobs j).nextRun = some t := hn
        have hs : ((updateNext setT s0 j).1.job j).status = .running := (iu.st.run j).2 ⟨t, hn'⟩
        exact hc ⟨hs, r2 e e2 hs⟩

end withTimer

def MSpec (f : Nat) : Prop :=
  ∀ (J : Nat → Prop) s, Inv s → (∀ x, J x → x ∉ s.queue) → MonoP J s → MonoP J (runLoop f s)

theorem setTimer_mono_of (fuel : Nat) (hrun : ∀ f, f < fuel → MSpec f) :
    ∀ (J : Nat → Prop) s, Inv s → (∀ x, J x → x ∉ s.queue) → MonoP J s → MonoP J (setTimer fuel s) := by
  intro J s hI hJ h
  have k : ∀ s' : St, Quiet notExec s s' → s'.now = s.now → s'.jobs = s.jobs → MonoP J s' :=
    fun s' hq hn hj => MonoP_same h hq (by rw [hn]; exact Int.le_refl _) hj
  unfold setTimer
  simp only []
  split
  · exact k _ (Quiet.of_eq rfl) rfl rfl
  · split
    · exact k _ (Quiet.of_eq rfl) rfl rfl
    · split
      · exact k _ ((Quiet.of_eq (s' := { s with timer := none }) rfl).trans (Quiet.emit _ _ trivial)) rfl rfl
      · split
        · split
          · exact k _ ((Quiet.of_eq (s' := { s with timer := none }) rfl).trans (Quiet.emit _ _ trivial)) rfl rfl
          · next f => exact hrun f (by omega) J _ (Inv_timer_none hI) hJ (k { s with timer := none } (Quiet.of_eq rfl) rfl rfl)
        · exact k _ (Quiet.of_eq rfl) rfl rfl

theorem mSpec (fuel : Nat) : MSpec fuel := by
  induction fuel using Nat.strongRecOn with
  | _ fuel ih =>
    intro J s h hJ hm
    have hst : ∀ f, f ≤ fuel → TimerFnM (setTimer f) :=
      fun f hf => ⟨timerFn2_setTimer f, setTimer_mono_of f (fun f' hf' => ih f' (by omega))⟩
    have k : ∀ s' : St, Quiet notExec s s' → s'.now = s.now → s'.jobs = s.jobs → MonoP J s' :=
      fun s' hq hn hj => MonoP_same hm hq (by rw [hn]; exact Int.le_refl _) hj
    unfold runLoop
    split
    · exact hm
    · next hd rest hq =>
      split
      · exact k _ ((Quiet.emit s _ trivial).trans (Quiet.emit _ _ trivial)) rfl rfl
      · next nr hnr =>
        split
        · exact (hst fuel (Nat.le_refl _)).mono J s h hJ hm
        · next hle =>
          split
          · exact k _ (Quiet.emit s _ trivial) rfl rfl
          · next f =>
            have hTM := hst f (by omega)
            have hT := hTM.base.base
            have hnd : hd ∉ rest := by
              have := h.q.nodup; rw [hq] at this; exact (List.nodup_cons.1 this).1
            have hnJ : ¬ J hd := fun hh => hJ hd hh (by rw [hq]; simp)
            have h1 : Inv { s with queue := rest } := by
              refine ⟨⟨?_, ?_, ?_⟩, h.st, h.log⟩
              · intro i hi; exact h.q.run i (by rw [hq]; simp [hi])
              · have := h.q.nodup; rw [hq] at this; exact (List.nodup_cons.1 this).2
              · have := h.q.sorted; rw [hq] at this; exact (List.pairwise_cons.1 this).2
            have hJ1 : ∀ x, J x → x ∉ ({ s with queue := rest } : St).queue :=
              fun x hx hm' => hJ x hx (by rw [hq]; exact List.mem_cons_of_mem _ hm')
            have hdue : nr ≤ ({ s with queue := rest } : St).now := by
              show nr ≤ s.now
              omega
            have m1 : MonoP J { s with queue := rest } := k _ (Quiet.of_eq rfl) rfl rfl
            obtain ⟨e1, e2⟩ := execute_spec (setTimer f) hT hd nr h1 (by simpa using hnd) hdue
            have hd2 : hd ∉ (execute (setTimer f) { s with queue := rest } hd nr).queue :=
              fun hm' => hnd (e2 hd hm')
            have m2 := execute_mono (setTimer f) hTM J { s with queue := rest } hd nr hnJ h1 (by simpa using hnd) hdue hnr hJ1 m1
            have a1 := Inv_addJob (setTimer f) hT hd e1 hd2
            have hJ2 : ∀ x, J x → x ∉ (execute (setTimer f) { s with queue := rest } hd nr).queue ∧ x ≠ hd :=
              fun x hx => ⟨fun hm' => hJ1 x hx (e2 x hm'), fun e => hnJ (e ▸ hx)⟩
            have m3 := addJob_mono (setTimer f) hTM J _ hd e1 hd2 hJ2 m2
            refine ih f (by omega) J _ a1 ?_ m3
            intro x hx hm'
            rcases addJob_sub (setTimer f) hT hd x e1 hd2 hm' with e | e
            · exact (hJ2 x hx).2 e
            · exact (hJ2 x hx).1 e

theorem timerFnM_setTimer (f : Nat) : TimerFnM (setTimer f) :=
  ⟨timerFn2_setTimer f, setTimer_mono_of f (fun f' _ => mSpec f')⟩


/-! ### every public operation keeps the invariant (the clock never goes back) -/

abbrev NoJ : Nat → Prop := fun _ => False
abbrev OnlyJ (j : Nat) : Nat → Prop := fun x => x = j

/-- the full invariant -/
def Mono (s : St) : Prop := MonoP NoJ s

theorem Mono.only {s : St} (h : Mono s) (j : Nat) : MonoP (OnlyJ j) s := h.mono (fun _ hf => hf.elim)

theorem Mono.of_only {s : St} {j : Nat} (h : MonoP (OnlyJ j) s) (hb : MB j s) : Mono s :=
  ⟨h.w, fun i _ => by
    by_cases e : i = j
    · subst e; exact hb
    · exact h.b i e⟩

theorem noJ_notin (q : List Nat) : ∀ x, NoJ x → x ∉ q := fun _ hf => hf.elim

theorem runJobs_mono (fuel : Nat) {s : St} (hI : Inv s) (h : Mono s) : Mono (runJobs fuel s) := by
  unfold runJobs
  exact mSpec fuel NoJ _ (Inv_timer_none hI) (noJ_notin _) (MonoP_same h (Quiet.of_eq rfl) (Int.le_refl _) rfl)

theorem sleepLoop_mono (n : Nat) (target : Int) {s : St} (hI : Inv s) (hle : s.now ≤ target) (h : Mono s) :
    Mono (sleepLoop n target s) := by
  induction n generalizing s with
  | zero => exact MonoP_same h (Quiet.emit s _ trivial) (Int.le_refl _) rfl
  | succ n ih =>
    unfold sleepLoop
    split
    · next t ht =>
      split
      · next htt =>
        show Mono (sleepLoop n target (runJobs OPFUEL { s with now := if t > s.now then t else s.now }))
        have hI1 : Inv { s with now := if t > s.now then t else s.now } := ⟨hI.q, hI.st, hI.log⟩
        have h1 : Mono { s with now := if t > s.now then t else s.now } :=
          MonoP_same h (Quiet.of_eq rfl) (by show s.now ≤ (if t > s.now then t else s.now); split <;> omega) rfl
        have c1 := runJobs_clock OPFUEL hI1
        have hle2 : (runJobs OPFUEL { s with now := if t > s.now then t else s.now }).now ≤ target := by
          rw [c1.now]
          show (if t > s.now then t else s.now) ≤ target
          split <;> omega
        exact ih (runJobs_inv OPFUEL hI1) hle2 (runJobs_mono OPFUEL hI1 h1)
      · exact MonoP_same h (Quiet.of_eq rfl) hle rfl
    · exact MonoP_same h (Quiet.of_eq rfl) hle rfl

theorem updateJob_mono (s : St) (j : Nat) (hx : InvEx j s) (h : Mono s) :
    Mono (addJob (setTimer OPFUEL) (removeJob (setTimer OPFUEL) s j) j) := by
  have hTM := timerFnM_setTimer OPFUEL
  have hT := hTM.base.base
  have hI1 : Inv (removeJob (setTimer OPFUEL) s j) := Inv_removeJob _ hT j hx.q hx.st hx.log
  have hj : j ∉ (removeJob (setTimer OPFUEL) s j).queue := removeJob_notin _ hT j hx.q hx.nodup hx.st hx.log
  have m1 := removeJob_mono _ hTM NoJ s j ⟨hx.q, hx.st, hx.log⟩ (noJ_notin _) h
  exact addJob_mono _ hTM NoJ _ j hI1 hj (fun _ hf => hf.elim) m1

theorem linkJob_mono (s : St) (j : Nat) (hI : Inv s) (hj : j ∉ s.queue) (h : Mono s)
    (hfresh : duesOf j s.log = []) : Mono (linkJob s j).1 := by
  have hTM := timerFnM_setTimer OPFUEL
  have hT := hTM.base.base
  have hJe : ∀ (s' : St), ∀ x, OnlyJ j x → x ∉ s'.queue.erase j → True := fun _ _ _ _ => trivial
  have hfirst : ∀ r : R, (Inv r.1 ∧ j ∉ r.1.queue ∧ MonoP (OnlyJ j) r.1 ∧ (r.2 = none → MB j r.1)) →
      Mono (match r with
        | (s', none) => (addJob (setTimer OPFUEL) s' j, none)
        | (s', some e) => ((jobFinish (setTimer OPFUEL) s' j).1, some e)).1 := by
    intro r hr
    obtain ⟨s', e⟩ := r
    cases e with
    | none =>
      exact addJob_mono _ hTM NoJ s' j hr.1 hr.2.1 (fun _ hf => hf.elim) (Mono.of_only hr.2.2.1 (hr.2.2.2 rfl))
    | some e =>
      obtain ⟨m, hn⟩ := jobFinish_mono _ hTM (OnlyJ j) s' j rfl hr.1
        (fun x hx hm => by
          have : x = j := hx
          subst this
          exact hr.2.1 (List.mem_of_mem_erase hm)) hr.2.2.1
      exact Mono.of_only m (MB_of_nr_none hn)
  unfold linkJob
  simp only []
  apply hfirst
  split
  · next t _ =>
    have hq : j ∉ (setNextRun s j (some t)).1.queue := by rw [setNextRun_queue]; exact hj
    exact ⟨Inv_setNextRun j _ hI hj, hq, setNextRun_mono s j _ rfl (h.only j),
      fun hok => setNextRun_MB s j t (h.w j) (Or.inr hfresh) hok⟩
  · obtain ⟨u1, u2⟩ := updateNext_spec (setTimer OPFUEL) hT j hI
    have hju : j ∉ (updateNext (setTimer OPFUEL) s j).1.queue := fun hm => hj (u2 j hm)
    obtain ⟨m, ok, _⟩ := updateNext_mono _ hTM (OnlyJ j) s j rfl hI
      (fun x hx hm => by
        have : x = j := hx
        subst this
        exact hj (List.mem_of_mem_erase hm)) (h.only j)
    exact ⟨u1.toInv hju, hju, m, ok⟩

theorem createJob_mono (s : St) (j : Nat) (key : Option Nat) (spec : JobSpec) (ef tf : List Nat) (tff : Nat)
    (hI : Inv s) (h : Mono s) : Mono (createJob s j key spec ef tf tff).1 := by
  unfold createJob
  split
  · exact h
  · rename_i hcr
    have hcr' : (s.job j).status = .created := by simpa using hcr
    have hjq : j ∉ s.queue := by
      intro hm
      have := hI.q.run j hm
      rw [show (s.jobs j).status = (s.job j).status from rfl, hcr'] at this
      cases this
    split
    · exact h
    · rename_i hbad
      split
      · exact h
      · have hs : Inv (storeAdd s key j) ∧ (storeAdd s key j).queue = s.queue ∧ (storeAdd s key j).log = s.log ∧
            (storeAdd s key j).now = s.now ∧ (storeAdd s key j).jobs = s.jobs := by
          unfold storeAdd
          split
          · exact ⟨⟨hI.q, hI.st, hI.log⟩, rfl, rfl, rfl, rfl⟩
          · exact ⟨hI, rfl, rfl, rfl, rfl⟩
        have hjq' : j ∉ ((storeAdd s key j).setJob j (newJob key spec ef tf tff)).queue := by
          show j ∉ (storeAdd s key j).queue
          rw [hs.2.1]; exact hjq
        have hI1 : Inv ((storeAdd s key j).setJob j (newJob key spec ef tf tff)) := by
          apply Inv_setJob_notin _ _ hs.1 hjq'
          simp [newJob, JobOK]
        have hfr : duesOf j s.log = [] := (h.w j).fresh hcr'
        have hq1 : Quiet notExec s ((storeAdd s key j).setJob j (newJob key spec ef tf tff)) := Quiet.of_eq hs.2.2.1
        have m1 : MonoP (OnlyJ j) ((storeAdd s key j).setJob j (newJob key spec ef tf tff)) := by
          refine MonoP_step j rfl (h.only j) hq1 hs.2.2.2.1 (fun i hi => by simp [St.setJob, hi, hs.2.2.2.2]) ?_ ?_
          · intro _; exact hcr'
          · intro _ hc
            have hjb : ((storeAdd s key j).setJob j (newJob key spec ef tf tff)).job j = newJob key spec ef tf tff := by
              simp [St.job, St.setJob]
            rw [hjb] at hc ⊢
            cases spec with
            | countdown secs =>
              have : ¬ secs ≤ 0 := by simpa [JobSpec.bad] using hbad
              simp [newJob, JobSpec.secs]; omega
            | once t => simp [newJob, JobSpec.kind, isCountdown] at hc
            | «at» p => simp [newJob, JobSpec.kind, isCountdown] at hc
        have hb1 : MB j ((storeAdd s key j).setJob j (newJob key spec ef tf tff)) :=
          MB_of_nr_none (by simp [St.nr, St.setJob, newJob])
        apply linkJob_mono _ j hI1 hjq' (Mono.of_only m1 hb1)
        rw [duesOf_of_quiet (quiet_all hq1 j)]; exact hfr

/-- operations under which the clock does not go back -/
def Op.forward : Op → Prop
  | .advance d => 0 ≤ d
  | .sleep d => 0 ≤ d
  | _ => True

theorem step_mono (s : St) (op : Op) (hI : Inv s) (h : Mono s) (hf : op.forward) : Mono (step s op).1 := by
  have hTM := timerFnM_setTimer OPFUEL
  have hT := hTM.base.base
  have pauseLike : ∀ j, Mono (setNextRun (removeJob (setTimer OPFUEL) s j) j none).1 := by
    intro j
    have m1 := removeJob_mono _ hTM NoJ s j (Inv_erased j hI) (noJ_notin _) h
    exact Mono.of_only (setNextRun_mono _ j none rfl (Mono.only m1 j)) (setNextRun_none_MB _ j)
  have setJobSame : ∀ (j : Nat) (b : Job), b.nextRun = (s.job j).nextRun → b.status = (s.job j).status →
      (b.linked = true → isCountdown b = true → 0 < b.secs) → Mono (s.setJob j b) := by
    intro j b hnr hst hcd
    refine Mono.of_only (MonoP_step j rfl (h.only j) (Quiet.of_eq rfl) rfl (fun i hi => by simp [St.setJob, hi]) ?_ ?_) ?_
    · intro hc
      have : (s.setJob j b).job j = b := by simp [St.job, St.setJob]
      rw [this, hst] at hc; exact hc
    · have : (s.setJob j b).job j = b := by simp [St.job, St.setJob]
      rw [this]; exact hcd
    · exact MB_frame (h.b j id) (Quiet.of_eq rfl) (by simp [St.nr, St.setJob, hnr]; rfl)
  unfold step
  simp only []
  cases op with
  | create j key spec ef tf tff => exact createJob_mono s j key spec ef tf tff hI h
  | cancel j =>
    obtain ⟨m, hn⟩ := jobFinish_mono _ hTM (OnlyJ j) s j rfl hI
      (fun x hx hm => by
        have : x = j := hx
        subst this
        exact not_mem_erase_self x hI.q.nodup hm) (h.only j)
    exact Mono.of_only m (MB_of_nr_none hn)
  | pause j =>
    simp only []
    split
    · exact h
    · split
      · exact h
      · exact pauseLike j
  | stop j =>
    simp only []
    split
    · exact h
    · split
      · exact h
      · exact pauseLike j
  | resume j =>
    simp only []
    split
    · exact h
    · split
      · exact h
      · obtain ⟨u1, _⟩ := updateNext_spec (setTimer OPFUEL) hT j hI
        obtain ⟨m, ok, er⟩ := updateNext_mono _ hTM (OnlyJ j) s j rfl hI
          (fun x hx hm => by
            have : x = j := hx
            subst this
            exact not_mem_erase_self x hI.q.nodup hm) (h.only j)
        split
        · rename_i s' e heq
          have e1 : s' = (updateNext (setTimer OPFUEL) s j).1 := by rw [heq]
          have e2 : (updateNext (setTimer OPFUEL) s j).2 = some e := by rw [heq]
          subst e1
          exact Mono.of_only m (er e e2 (h.b j id))
        · rename_i s' heq
          have e1 : s' = (updateNext (setTimer OPFUEL) s j).1 := by rw [heq]
          have e2 : (updateNext (setTimer OPFUEL) s j).2 = none := by rw [heq]
          subst e1
          exact updateJob_mono _ j u1 (Mono.of_only m (ok e2))
  | reset j =>
    simp only []
    split
    · exact h
    · rename_i hc
      split
      · exact h
      · rename_i hl
        have hc' : isCountdown (s.job j) = true := by simpa using hc
        have hl' : (s.job j).linked = true := by simpa using hl
        have hpos : 0 < (s.job j).secs := (h.w j).cd hl' hc'
        have m : MonoP (OnlyJ j) (setNextRun s j (some (s.now + (s.job j).secs))).1 :=
          setNextRun_mono (J := OnlyJ j) s j (some (s.now + (s.job j).secs)) rfl (h.only j)
        split
        · rename_i s' e heq
          have e1 : s' = (setNextRun s j (some (s.now + (s.job j).secs))).1 := by rw [heq]
          subst e1
          rw [setNextRun_err (e := e) (by rw [heq])]; exact h
        · rename_i s' heq
          have e1 : s' = (setNextRun s j (some (s.now + (s.job j).secs))).1 := by rw [heq]
          have e2 : (setNextRun s j (some (s.now + (s.job j).secs))).2 = none := by rw [heq]
          subst e1
          exact updateJob_mono _ j (InvEx_setNextRun _ (hI.toEx j))
            (Mono.of_only m (setNextRun_MB s j _ (h.w j) (Or.inl (by omega)) e2))
  | setCountdown j secs =>
    simp only []
    split
    · exact h
    · split
      · exact h
      · split
        · exact h
        · rename_i hs
          exact setJobSame j _ rfl rfl (fun _ _ => by show 0 < secs; omega)
  | cbReg fin j c =>
    simp only []
    split
    · split
      · exact h
      · exact setJobSame j _ rfl rfl (h.w j).cd
    · split
      · exact h
      · exact setJobSame j _ rfl rfl (h.w j).cd
  | cbRem fin j c =>
    simp only []
    split
    · exact setJobSame j _ rfl rfl (h.w j).cd
    · exact setJobSame j _ rfl rfl (h.w j).cd
  | cbFails c => exact MonoP_same h (Quiet.of_eq rfl) (Int.le_refl _) rfl
  | advance d =>
    have hd : 0 ≤ d := hf
    exact MonoP_same h (Quiet.of_eq rfl) (by show s.now ≤ s.now + d; omega) rfl
  | enable e =>
    simp only []
    split
    · exact h
    · exact hTM.mono NoJ { s with enabled := e } ⟨hI.q, hI.st, hI.log⟩ (noJ_notin _)
        (MonoP_same h (Quiet.of_eq rfl) (Int.le_refl _) rfl)
  | yield =>
    show Mono (fireDue s)
    unfold fireDue
    split
    · split
      · exact runJobs_mono OPFUEL hI h
      · exact h
    · exact h
  | sleep d =>
    have hd : 0 ≤ d := hf
    exact sleepLoop_mono SLEEPFUEL (s.now + d) hI (by omega) h

end Ea
