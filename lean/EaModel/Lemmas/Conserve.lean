import EaModel.Tasks
/-!
# Conservation: no submitted coroutine is lost and none gets two tasks

For every coroutine `c`, in every state any history of operations can reach (all five managers):

    number of `create_task` calls with c  =  entries of c waiting in the queue
                                           + tasks created for c
                                           + times c was closed unstarted by the manager

and, for the de-duplicating manager, the keys of the waiting entries are pairwise different (which is what makes
"close the entry with this key" close exactly one coroutine). With distinct coroutine objects (each submitted once)
this says: a coroutine is in exactly one of the three places — waiting, started (exactly one task), or dropped.
-/
namespace Ea

def cSub (c : Nat) (log : List TEv) : Nat := log.count (.submitted c)
def cClosed (c : Nat) (log : List TEv) : Nat := log.count (.closed c)
def cQueue (c : Nat) (q : List (Nat × Nat)) : Nat := q.countP (fun x => x.1 = c)
def cTasks (c : Nat) (ts : List Task) : Nat := ts.countP (fun x => x.coro = c)

/-- where the coroutines are -/
def bal (s : TSt) (c : Nat) : Nat := cQueue c s.queue + cTasks c s.tasks + cClosed c s.log

structure Cons (s : TSt) : Prop where
  eq : ∀ c, cSub c s.log = bal s c
  keys : s.kind = .dedup → (s.queue.map (·.2)).Nodup

/-! ## counting lemmas -/

theorem cQueue_append (c : Nat) (a b : List (Nat × Nat)) : cQueue c (a ++ b) = cQueue c a + cQueue c b := by
  simp [cQueue, List.countP_append]
theorem cTasks_append (c : Nat) (a b : List Task) : cTasks c (a ++ b) = cTasks c a + cTasks c b := by
  simp [cTasks, List.countP_append]
@[simp] theorem cQueue_nil (c : Nat) : cQueue c [] = 0 := rfl
theorem cQueue_single (c c' k : Nat) : cQueue c [(c', k)] = if c' = c then 1 else 0 := by
  simp [cQueue, List.countP_cons]
theorem cTasks_single (c : Nat) (x : Task) : cTasks c [x] = if x.coro = c then 1 else 0 := by
  simp [cTasks, List.countP_cons]
theorem cQueue_cons (c c' k : Nat) (q : List (Nat × Nat)) :
    cQueue c ((c', k) :: q) = cQueue c q + if c' = c then 1 else 0 := by
  simp [cQueue, List.countP_cons]

theorem cSub_cons (c : Nat) (e : TEv) (log : List TEv) :
    cSub c (e :: log) = cSub c log + if e = .submitted c then 1 else 0 := by
  simp [cSub, List.count_cons]
theorem cClosed_cons (c : Nat) (e : TEv) (log : List TEv) :
    cClosed c (e :: log) = cClosed c log + if e = .closed c then 1 else 0 := by
  simp [cClosed, List.count_cons]

/-- replacing a list element by one with the same value of the predicate keeps the count -/
theorem countP_set_same {α : Type} (p : α → Bool) : ∀ (l : List α) (t : Nat) (x : α),
    (∀ y, l[t]? = some y → p y = p x) → (l.set t x).countP p = l.countP p
  | [], _, _, _ => by simp
  | a :: l, 0, x, h => by
    have := h a (by simp)
    simp [List.countP_cons, this]
  | a :: l, t + 1, x, h => by
    simp only [List.set_cons_succ, List.countP_cons]
    rw [countP_set_same p l t x (by intro y hy; exact h y (by simpa using hy))]

theorem cTasks_setTask (s : TSt) (t : Nat) (x : Task) (c : Nat) (h : x.coro = (s.task t).coro) :
    cTasks c (s.setTask t x).tasks = cTasks c s.tasks := by
  unfold cTasks TSt.setTask
  apply countP_set_same
  intro y hy
  have : s.task t = y := by
    unfold TSt.task
    rw [List.getD_eq_getElem?_getD, hy]; rfl
  rw [h, this]

/-! ## frame rules -/

/-- the log gets an entry that is neither `submitted` nor `closed` -/
theorem Cons.emit_other {s : TSt} (h : Cons s) (e : TEv) (h1 : ∀ c, e ≠ .submitted c) (h2 : ∀ c, e ≠ .closed c) :
    Cons (s.emit e) := by
  refine ⟨?_, h.keys⟩
  intro c
  have := h.eq c
  simp only [bal, TSt.emit, cSub_cons, cClosed_cons, if_neg (h1 c), if_neg (h2 c)] at *
  omega

/-- only fields the balance does not read were changed -/
theorem Cons.frame {s s' : TSt} (h : Cons s) (hq : s'.queue = s.queue) (ht : s'.tasks = s.tasks) (hl : s'.log = s.log)
    (hk : s'.kind = s.kind) : Cons s' := by
  refine ⟨?_, by rw [hk, hq]; exact h.keys⟩
  intro c
  have := h.eq c
  simp only [bal, hq, ht, hl] at *
  exact this

/-- only the task records changed, and no task changed its coroutine -/
theorem Cons.frame' {s s' : TSt} (h : Cons s) (hq : s'.queue = s.queue)
    (ht : ∀ c, cTasks c s'.tasks = cTasks c s.tasks) (hl : s'.log = s.log) (hk : s'.kind = s.kind) : Cons s' := by
  refine ⟨?_, by rw [hk, hq]; exact h.keys⟩
  intro c
  have := h.eq c
  simp only [bal, hq, ht, hl] at *
  exact this

theorem Cons.setTask {s : TSt} (h : Cons s) (t : Nat) (x : Task) (hx : x.coro = (s.task t).coro) :
    Cons (s.setTask t x) := by
  refine ⟨?_, h.keys⟩
  intro c
  have := h.eq c
  simp only [bal, cTasks_setTask s t x c hx] at *
  exact this

theorem Cons.cancelTask {s : TSt} (h : Cons s) (t : Nat) : Cons (s.cancelTask t) := by
  unfold TSt.cancelTask
  simp only []
  split
  · exact h
  · exact h.frame' rfl (fun c => cTasks_setTask s t _ c rfl) rfl rfl
  · split
    · exact h
    · exact h.frame' rfl (fun c => cTasks_setTask s t _ c rfl) rfl rfl

theorem Cons.finishTask {s : TSt} (h : Cons s) (t : Nat) : Cons (finishTask s t) := by
  unfold Ea.finishTask
  exact h.frame' rfl (fun c => cTasks_setTask s t _ c rfl) rfl rfl

/-! ## the sequential core -/

theorem Cons.clearCur {s : TSt} (h : Cons s) (done : Option Nat) : Cons (clearCur s done) := by
  unfold Ea.clearCur
  split
  · exact h.frame rfl rfl rfl rfl
  · exact h

/-- `_task_done`: the head of the queue becomes a task -/
theorem Cons.seqTaskDone {s : TSt} (h : Cons s) (done : Option Nat) : Cons (seqTaskDone s done) := by
  unfold Ea.seqTaskDone
  have h' := h.clearCur done
  generalize Ea.clearCur s done = s1 at h'
  split
  · exact h'
  · next c k rest hq =>
    refine ⟨?_, ?_⟩
    · intro c'
      have := h'.eq c'
      simp only [bal, startNext, hq, cQueue_cons, cTasks_append, cTasks_single] at *
      omega
    · intro hk
      have := h'.keys hk
      rw [hq] at this
      simp only [startNext]
      exact (List.nodup_cons.1 (by simpa using this)).2

theorem Cons.seqTaskStart {s : TSt} (h : Cons s) : Cons (seqTaskStart s) := by
  unfold Ea.seqTaskStart
  split
  · exact h
  · exact h.seqTaskDone none

/-- a new entry at the end of the queue, the call recorded -/
theorem cons_enqueue {s : TSt} (h : Cons s) (c key : Nat) (hk : s.kind = .dedup → key ∉ s.queue.map (·.2)) :
    Cons { (s.emit (.submitted c)) with queue := s.queue ++ [(c, key)] } := by
  refine ⟨?_, ?_⟩
  · intro c'
    have := h.eq c'
    simp only [bal, TSt.emit, cSub_cons, cClosed_cons, cQueue_append, cQueue_single] at *
    by_cases e : c = c'
    · subst e; simp; omega
    · have : TEv.submitted c ≠ TEv.submitted c' := by intro x; injection x with x; exact e x
      simp [e, this]; omega
  · intro hd
    show ((s.queue ++ [(c, key)]).map (·.2)).Nodup
    rw [List.map_append, List.nodup_append]
    refine ⟨h.keys hd, by simp, ?_⟩
    intro a ha b hb
    simp at hb; subst hb
    intro e; subst e
    exact hk hd ha

/-- the new coroutine is closed at once (policy skip), the call recorded -/
theorem cons_drop_new {s : TSt} (h : Cons s) (c : Nat) : Cons ((s.emit (.submitted c)).emit (.closed c)) := by
  refine ⟨?_, h.keys⟩
  intro c'
  have := h.eq c'
  simp only [bal, TSt.emit, cSub_cons, cClosed_cons] at *
  by_cases e : c = c'
  · subst e; simp; omega
  · have h1 : TEv.submitted c ≠ TEv.submitted c' := by intro x; injection x with x; exact e x
    have h2 : TEv.closed c ≠ TEv.closed c' := by intro x; injection x with x; exact e x
    have h3 : TEv.closed c ≠ TEv.submitted c' := by intro x; cases x
    have h4 : TEv.submitted c ≠ TEv.closed c' := by intro x; cases x
    simp [h1, h2, h3, h4]; omega

/-- a waiting coroutine `c0` is closed and leaves the queue, the new one is appended, the call recorded:
the queue before was `pre ++ (c0, k0) :: post`, afterwards it is `pre ++ post ++ [(c, key)]` -/
theorem cons_replace {s : TSt} (h : Cons s) (c key c0 k0 : Nat) (pre post : List (Nat × Nat))
    (hq : s.queue = pre ++ (c0, k0) :: post) (hk : s.kind = .dedup → key ∉ (pre ++ post).map (·.2)) :
    Cons { ((s.emit (.submitted c)).emit (.closed c0)) with queue := pre ++ post ++ [(c, key)] } := by
  refine ⟨?_, ?_⟩
  · intro c'
    have := h.eq c'
    simp only [bal, TSt.emit, cSub_cons, cClosed_cons, hq, cQueue_append, cQueue_cons, cQueue_single] at *
    have h3 : TEv.closed c0 ≠ TEv.submitted c' := by intro x; cases x
    have h4 : TEv.submitted c ≠ TEv.closed c' := by intro x; cases x
    by_cases e : c = c' <;> by_cases e0 : c0 = c'
    · subst e; subst e0; simp [h3, h4] at this ⊢; omega
    · subst e
      have h5 : TEv.closed c0 ≠ TEv.closed c := by intro x; injection x with x; exact e0 x
      simp [h3, h4, e0, h5] at this ⊢; omega
    · subst e0
      have h5 : TEv.submitted c ≠ TEv.submitted c0 := by intro x; injection x with x; exact e x
      simp [h3, h4, e, h5] at this ⊢; omega
    · have h1 : TEv.submitted c ≠ TEv.submitted c' := by intro x; injection x with x; exact e x
      have h2 : TEv.closed c0 ≠ TEv.closed c' := by intro x; injection x with x; exact e0 x
      simp [h1, h2, h3, h4, e, e0] at this ⊢; omega
  · intro hd
    have hn := h.keys hd
    rw [hq] at hn
    show ((pre ++ post ++ [(c, key)]).map (·.2)).Nodup
    have hpp : ((pre ++ post).map (·.2)).Nodup := by
      simp only [List.map_append, List.map_cons] at hn ⊢
      rw [List.nodup_append] at hn ⊢
      obtain ⟨h1, h2, h3⟩ := hn
      refine ⟨h1, (List.nodup_cons.1 h2).2, ?_⟩
      intro a ha b hb
      exact h3 a ha b (List.mem_cons_of_mem _ hb)
    rw [List.map_append, List.nodup_append]
    refine ⟨hpp, by simp, ?_⟩
    intro a ha b hb
    simp at hb; subst hb
    intro e; subst e
    exact hk hd ha

theorem dropLast_append_getLast {α : Type} (l : List α) (x : α) (h : l.getLast? = some x) : l = l.dropLast ++ [x] := by
  have hne : l ≠ [] := by intro e; subst e; simp at h
  have := List.dropLast_concat_getLast hne
  rw [List.getLast?_eq_some_getLast hne] at h
  injection h with h
  rw [h] at this
  exact this.symm

/-- the entry with key `key` in a queue whose keys are pairwise different: the queue splits around it and no other
entry carries the key -/
theorem split_at_key : ∀ (q : List (Nat × Nat)) (key c0 k0 : Nat), (q.map (·.2)).Nodup →
    q.find? (fun x => x.2 = key) = some (c0, k0) →
    ∃ pre post, q = pre ++ (c0, k0) :: post ∧ k0 = key ∧ q.filter (fun x => x.2 ≠ key) = pre ++ post ∧
      key ∉ (pre ++ post).map (·.2)
  | [], _, _, _, _, h => by simp at h
  | (a, b) :: q, key, c0, k0, hn, h => by
    simp only [List.map_cons, List.nodup_cons] at hn
    by_cases e : b = key
    · subst e
      simp at h
      obtain ⟨rfl, rfl⟩ := h
      refine ⟨[], q, rfl, rfl, ?_, ?_⟩
      · have : ∀ x ∈ q, x.2 ≠ b := by
          intro x hx e
          exact hn.1 (by rw [← e]; exact List.mem_map_of_mem hx)
        simp only [List.nil_append]
        rw [List.filter_cons]
        simp
        intro x y hxy
        exact this (x, y) hxy
      · simpa using hn.1
    · have hf : q.find? (fun x => x.2 = key) = some (c0, k0) := by
        rw [List.find?_cons] at h
        simpa [e] using h
      obtain ⟨pre, post, h1, h2, h3, h4⟩ := split_at_key q key c0 k0 hn.2 hf
      refine ⟨(a, b) :: pre, post, by rw [h1]; rfl, h2, ?_, ?_⟩
      · rw [List.filter_cons]
        simp [e]
        simpa using h3
      · simp only [List.cons_append, List.map_cons, List.mem_cons, not_or]
        exact ⟨fun x => e x.symm, h4⟩

theorem find_none_not_mem (q : List (Nat × Nat)) (key : Nat) (h : q.find? (fun x => x.2 = key) = none) :
    key ∉ q.map (·.2) := by
  intro hm
  obtain ⟨x, hx, e⟩ := List.mem_map.1 hm
  have := List.find?_eq_none.1 h x hx
  simp [e] at this

/-- transport along equal fields -/
theorem Cons.congr {s s' : TSt} (h : Cons s) (hq : s'.queue = s.queue) (ht : s'.tasks = s.tasks) (hl : s'.log = s.log)
    (hk : s'.kind = s.kind) : Cons s' := h.frame hq ht hl hk

/-! ## `create_task` of every manager -/

theorem Cons.createTask_tracked {s : TSt} (h : Cons s) (c : Nat) (s' : TSt)
    (hq : s'.queue = s.queue) (ht : s'.tasks = s.tasks ++ [{ coro := c }]) (hl : s'.log = .submitted c :: s.log)
    (hk : s'.kind = s.kind) : Cons s' := by
  refine ⟨?_, by rw [hk, hq]; exact h.keys⟩
  intro c'
  have := h.eq c'
  have h4 : TEv.submitted c ≠ TEv.closed c' := by intro x; cases x
  simp only [bal, hq, ht, hl, cSub_cons, cClosed_cons, cTasks_append, cTasks_single, if_neg h4] at *
  by_cases e : c = c'
  · subst e; simp; omega
  · have : TEv.submitted c ≠ TEv.submitted c' := by intro x; injection x with x; exact e x
    simp [e, this]; omega

theorem cancelTask_frame (s : TSt) (t : Nat) :
    (s.cancelTask t).queue = s.queue ∧ (s.cancelTask t).log = s.log ∧ (s.cancelTask t).kind = s.kind ∧
    (s.cancelTask t).tasks.length = s.tasks.length ∧ ∀ c, cTasks c (s.cancelTask t).tasks = cTasks c s.tasks := by
  unfold TSt.cancelTask
  simp only []
  split
  · exact ⟨rfl, rfl, rfl, rfl, fun _ => rfl⟩
  · exact ⟨rfl, rfl, rfl, by simp [TSt.setTask], fun c => cTasks_setTask s t _ c rfl⟩
  · split
    · exact ⟨rfl, rfl, rfl, rfl, fun _ => rfl⟩
    · exact ⟨rfl, rfl, rfl, by simp [TSt.setTask], fun c => cTasks_setTask s t _ c rfl⟩

/-- a tracked task is cancelled, then the new task is created (policies cancel_first / cancel_last) -/
theorem Cons.cancel_then_create {s : TSt} (h : Cons s) (c t0 : Nat) (s0 s' : TSt)
    (h0q : s0.queue = s.queue) (h0t : s0.tasks = s.tasks) (h0l : s0.log = .submitted c :: s.log) (h0k : s0.kind = s.kind)
    (hq : s'.queue = (s0.cancelTask t0).queue) (ht : s'.tasks = (s0.cancelTask t0).tasks ++ [{ coro := c }])
    (hl : s'.log = (s0.cancelTask t0).log) (hk : s'.kind = (s0.cancelTask t0).kind) : Cons s' := by
  obtain ⟨f1, f2, f3, _, f5⟩ := cancelTask_frame s0 t0
  refine ⟨?_, by rw [hk, f3, h0k, hq, f1, h0q]; exact h.keys⟩
  intro c'
  have := h.eq c'
  have h4 : TEv.submitted c ≠ TEv.closed c' := by intro x; cases x
  simp only [bal, hq, ht, hl, f1, f2, h0q, h0l, cSub_cons, cClosed_cons, cTasks_append, cTasks_single, f5, h0t, if_neg h4] at *
  by_cases e : c = c'
  · subst e; simp; omega
  · have : TEv.submitted c ≠ TEv.submitted c' := by intro x; injection x with x; exact e x
    simp [e, this]; omega

/-- the same in the shape of the code of the limiting parallel manager -/
theorem Cons.cancel_create {s : TSt} (h : Cons s) (c t0 : Nat) (s0 : TSt)
    (h0q : s0.queue = s.queue) (h0t : s0.tasks = s.tasks) (h0l : s0.log = .submitted c :: s.log) (h0k : s0.kind = s.kind) :
    Cons { ((s0.cancelTask t0).createTask c).1 with
           tracked := ((s0.cancelTask t0).createTask c).1.tracked ++ [((s0.cancelTask t0).createTask c).2] } :=
  h.cancel_then_create c t0 s0 _ h0q h0t h0l h0k rfl rfl rfl rfl

theorem Cons.submit {s : TSt} (h : Cons s) (c key : Nat) : Cons (submit s c key) := by
  unfold Ea.submit submitCore
  have hkind : (s.emit (.submitted c)).kind = s.kind := rfl
  cases hk : s.kind with
  | sequential =>
    simp only [hkind, hk]
    apply Cons.seqTaskStart
    apply (cons_enqueue h c key (by intro e; rw [hk] at e; cases e)).congr <;> first | rfl | exact hk.symm | simp [TSt.emit] | (show _ ++ _ = _; rw [e])
  | limitingSeq maxQ pol =>
    simp only [hkind, hk]
    have nd : s.kind = .dedup → False := by intro e; rw [hk] at e; cases e
    split
    · cases pol with
      | skip => exact cons_drop_new h c
      | skipFirst =>
        simp only []
        split
        · next hq =>
          have hq' : s.queue = [] := hq
          have := cons_enqueue h c key (fun e => (nd e).elim)
          rw [hq'] at this
          apply Cons.seqTaskStart
          apply this.congr <;> first | rfl | exact hk.symm | simp [TSt.emit] | (show _ ++ _ = _; rw [e])
        · next c0 k0 rest hq =>
          have hq' : s.queue = [] ++ (c0, k0) :: rest := hq
          have := cons_replace h c key c0 k0 [] rest hq' (fun e => (nd e).elim)
          apply Cons.seqTaskStart
          apply this.congr <;> first | rfl | exact hk.symm | simp [TSt.emit] | (show _ ++ _ = _; rw [e])
      | skipLast =>
        simp only []
        split
        · next hq =>
          have hq' : s.queue = [] := by
            have : s.queue.getLast? = none := hq
            simpa using this
          have := cons_enqueue h c key (fun e => (nd e).elim)
          rw [hq'] at this
          apply Cons.seqTaskStart
          apply this.congr <;> first | rfl | exact hk.symm | simp [TSt.emit] | (show _ ++ _ = _; rw [e])
        · next c0 k0 hq =>
          have hq' : s.queue = s.queue.dropLast ++ (c0, k0) :: [] := dropLast_append_getLast s.queue (c0, k0) hq
          have := cons_replace h c key c0 k0 s.queue.dropLast [] hq' (fun e => (nd e).elim)
          apply Cons.seqTaskStart
          apply this.congr <;> first | rfl | exact hk.symm | simp [TSt.emit] | (show _ ++ _ = _; rw [e])
    · apply Cons.seqTaskStart
      apply (cons_enqueue h c key (fun e => (nd e).elim)).congr <;> first | rfl | exact hk.symm | simp [TSt.emit] | (show _ ++ _ = _; rw [e])
  | dedup =>
    simp only [hkind, hk]
    split
    · next c0 k0 hf =>
      have hf' : s.queue.find? (fun x => x.2 = key) = some (c0, k0) := hf
      obtain ⟨pre, post, h1, _, h3, h4⟩ := split_at_key s.queue key c0 k0 (h.keys hk) hf'
      have := cons_replace h c key c0 k0 pre post h1 (fun _ => h4)
      have e : (s.emit (.submitted c)).queue.filter (fun x => x.2 ≠ key) = pre ++ post := h3
      apply Cons.seqTaskStart
      apply this.congr
      · show (s.emit (.submitted c)).queue.filter (fun x => x.2 ≠ key) ++ [(c, key)] = pre ++ post ++ [(c, key)]
        rw [e]
      · rfl
      · rfl
      · first | rfl | exact hk.symm
    · next hf =>
      have hf' : s.queue.find? (fun x => x.2 = key) = none := hf
      apply Cons.seqTaskStart
      apply (cons_enqueue h c key (fun _ => find_none_not_mem s.queue key hf')).congr <;> first | rfl | exact hk.symm | simp [TSt.emit] | (show _ ++ _ = _; rw [e])
  | parallel =>
    simp only [hkind, hk]
    exact h.createTask_tracked c _ rfl rfl rfl (by first | rfl | exact hk.symm)
  | limitingPar limit pol =>
    simp only [hkind, hk]
    split
    · cases pol with
      | skip => exact cons_drop_new h c
      | cancelFirst =>
        simp only []
        split
        · exact h.createTask_tracked c _ rfl rfl rfl (by first | rfl | exact hk.symm)
        · exact Cons.cancel_create h c _ _ rfl rfl rfl (by first | rfl | exact hk.symm)
      | cancelLast =>
        simp only []
        split
        · exact h.createTask_tracked c _ rfl rfl rfl (by first | rfl | exact hk.symm)
        · exact Cons.cancel_create h c _ _ rfl rfl rfl (by first | rfl | exact hk.symm)
    · exact h.createTask_tracked c _ rfl rfl rfl (by first | rfl | exact hk.symm)

theorem Cons.submitAll : ∀ (subs : List (Nat × Nat)) {s : TSt}, Cons s → Cons (submitAll s subs)
  | [], _, h => h
  | (c, k) :: rest, _, h => by unfold Ea.submitAll; exact Cons.submitAll rest (h.submit c k)

/-! ## the loop -/

theorem Cons.managerDone {s : TSt} (h : Cons s) (t : Nat) : Cons (managerDone s t) := by
  unfold Ea.managerDone
  have h1 : Cons (s.setTask t { s.task t with delivered := true }) :=
    h.frame' rfl (fun c => cTasks_setTask s t _ c rfl) rfl rfl
  simp only []
  split
  · exact h1.seqTaskDone (some t)
  · exact h1.seqTaskDone (some t)
  · exact h1.seqTaskDone (some t)
  · exact h1.frame rfl rfl rfl rfl
  · exact h1.frame rfl rfl rfl rfl

theorem Cons.runReady {s : TSt} (h : Cons s) (r : Ready) : Cons (runReady s r) := by
  cases r with
  | step t =>
    simp only [Ea.runReady]
    split
    · exact h
    · split
      · apply Cons.finishTask
        apply Cons.emit_other h
        · intro c e; cases e
        · intro c e; cases e
      · apply Cons.emit_other
        · apply Cons.setTask h; rfl
        · intro c e; cases e
        · intro c e; cases e
  | resume t fail last =>
    simp only [Ea.runReady]
    split
    · exact h
    · have h1 := Cons.submitAll last.inside h
      apply Cons.finishTask
      apply Cons.emit_other
      · split
        · exact h1
        · exact h1.frame rfl rfl rfl rfl
      · intro c e; split at e <;> cases e
      · intro c e; split at e <;> cases e
  | resumeCancel t =>
    simp only [Ea.runReady]
    split
    · exact h
    · apply Cons.finishTask
      apply Cons.emit_other h
      · intro c e; cases e
      · intro c e; cases e
  | doneCb t => exact h.managerDone t
  | listener subs => exact Cons.submitAll subs h

theorem Cons.drain : ∀ (n : Nat) {s : TSt}, Cons s → Cons (drain n s)
  | 0, _, h => h
  | n + 1, s, h => by
    unfold Ea.drain
    split
    · exact h
    · apply Cons.drain n
      apply Cons.runReady
      exact h.frame rfl rfl rfl rfl

theorem Cons.applyOp {s : TSt} (h : Cons s) (op : TOp) : Cons (applyOp s op) := by
  cases op with
  | submit c k => exact h.submit c k
  | complete t fail last =>
    simp only [Ea.applyOp]
    split
    · exact h.frame rfl rfl rfl rfl
    · exact h
  | cancel t => exact h.cancelTask t

theorem Cons.tstep {s : TSt} (h : Cons s) (op : TOp) : Cons (tstep s op) := Cons.drain _ (h.applyOp op)

theorem Cons.init (k : MgrKind) : Cons { kind := k } :=
  ⟨fun c => by simp [cSub, bal, cQueue, cTasks, cClosed], fun _ => by simp⟩

/-- in every state any finite history of operations can reach — for each of the five managers -/
theorem cons_reachable (k : MgrKind) (ops : List TOp) : Cons (ops.foldl tstep { kind := k }) := by
  suffices h : ∀ s, Cons s → Cons (ops.foldl tstep s) from h _ (Cons.init k)
  induction ops with
  | nil => intro s h; exact h
  | cons op ops ih => intro s h; exact ih _ (h.tstep op)

/-- for a coroutine that was submitted exactly once: it is in exactly one place — waiting in the queue (once), started
(exactly one task was created for it), or closed unstarted by the manager (once) -/
theorem one_place {s : TSt} (h : Cons s) (c : Nat) (hs : cSub c s.log = 1) :
    (cQueue c s.queue = 1 ∧ cTasks c s.tasks = 0 ∧ cClosed c s.log = 0) ∨
    (cQueue c s.queue = 0 ∧ cTasks c s.tasks = 1 ∧ cClosed c s.log = 0) ∨
    (cQueue c s.queue = 0 ∧ cTasks c s.tasks = 0 ∧ cClosed c s.log = 1) := by
  have := h.eq c
  unfold bal at this
  omega

end Ea
