import EaModel.DstParam
/-!
# `dst_param`: from the probed hour to every day of the year

`find_time` inspects one day. That this day speaks for the whole year is a property of the zone's rules in that
year, made explicit here as `YearRegular`: clock changes are aligned to full clock hours, all skipped readings of
the year lie in one clock hour and all repeated readings in one clock hour, and the scan of `_iter_date` visits
every local date of the year (and only those). Under it, acceptance without a policy implies that the time is
valid on every day of the year (`Properties/C20.lean`).
-/
namespace Ea

theorem dstScan_some (z : Zone) (year : Int) (rev : Bool) (u : Int) (h : Nat) (v : Validity)
    (hs : dstScan z year rev = some (u, h, v)) :
    (u, h) ∈ dstCands z year rev ∧ v = z.validity (dstProbe z (u, h)) ∧ v ≠ .valid := by
  unfold dstScan at hs
  rw [Option.map_eq_some_iff] at hs
  obtain ⟨c, hc, e⟩ := hs
  obtain ⟨cu, ch⟩ := c
  simp only [Prod.mk.injEq] at e
  obtain ⟨rfl, rfl, rfl⟩ := e
  have hm := List.mem_of_find?_eq_some hc
  have hp := List.find?_some hc
  exact ⟨hm, rfl, by simpa using hp⟩

theorem dstScan_none (z : Zone) (year : Int) (rev : Bool) (hs : dstScan z year rev = none) :
    ∀ c ∈ dstCands z year rev, z.validity (dstProbe z c) = .valid := by
  unfold dstScan at hs
  rw [Option.map_eq_none_iff, List.find?_eq_none] at hs
  intro c hc
  have := hs c hc
  simpa using this

theorem mem_dstCands (z : Zone) (year : Int) (rev : Bool) (u : Int) (h : Nat) :
    (u, h) ∈ dstCands z year rev ↔
      ∃ m ∈ dstMonths rev, h ∈ dstHours rev ∧ u ∈ dstMonthInstants z year m := by
  unfold dstCands
  simp only [List.mem_flatMap, List.mem_map, Prod.mk.injEq]
  constructor
  · rintro ⟨m, hm, h', hh, u', hu, rfl, rfl⟩
    exact ⟨m, hm, hh, hu⟩
  · rintro ⟨m, hm, hh, hu⟩
    exact ⟨m, hm, h, hh, u, hu, rfl, rfl⟩

/-- the hours `_iter_date` yields are exactly 0 … 23 (in either direction; the orders are those of the source) -/
theorem dstHours_lt (rev : Bool) : ∀ h ∈ dstHours rev, h < 24 := by cases rev <;> decide
theorem dstHours_complete (rev : Bool) : ∀ h, h < 24 → h ∈ dstHours rev := by cases rev <;> decide

/-- regularity of a zone in one calendar year with respect to the scan of `dst_param` -/
structure YearRegular (z : Zone) (year : Int) (InYear : Int → Prop) : Prop where
  /-- clock changes are aligned to clock hours: a reading that is not valid has the same defect at `hh:30` -/
  aligned : ∀ D t, InYear D → 0 ≤ t → t < NS_PER_DAY → z.validity (D * NS_PER_DAY + t) ≠ .valid →
    z.validity (D * NS_PER_DAY + t / NS_PER_HOUR * NS_PER_HOUR + HALF) = z.validity (D * NS_PER_DAY + t)
  /-- all readings of the year with the same defect lie in one clock hour -/
  one_hour : ∀ D D' t t', InYear D → InYear D' → 0 ≤ t → t < NS_PER_DAY → 0 ≤ t' → t' < NS_PER_DAY →
    z.validity (D * NS_PER_DAY + t) ≠ .valid →
    z.validity (D' * NS_PER_DAY + t') = z.validity (D * NS_PER_DAY + t) → t / NS_PER_HOUR = t' / NS_PER_HOUR
  /-- the scan visits every local date of the year … -/
  covers : ∀ rev D, InYear D → ∃ m ∈ dstMonths rev, ∃ u ∈ dstMonthInstants z year m, z.localDay u = D
  /-- … and only local dates of the year -/
  scans_in_year : ∀ rev m, m ∈ dstMonths rev → ∀ u ∈ dstMonthInstants z year m, InYear (z.localDay u)

/-- in a regular year a defect anywhere makes the scan (either direction) find something -/
theorem scan_finds (z : Zone) (year : Int) (InYear : Int → Prop) (hreg : YearRegular z year InYear)
    (D t : Int) (hD : InYear D) (h0 : 0 ≤ t) (h1 : t < NS_PER_DAY)
    (hv : z.validity (D * NS_PER_DAY + t) ≠ .valid) (rev : Bool) : dstScan z year rev ≠ none := by
  intro hnone
  obtain ⟨m, hm, u, hu, hday⟩ := hreg.covers rev D hD
  have hh : (t / NS_PER_HOUR).toNat < 24 := by
    have : t / NS_PER_HOUR < 24 := by simp only [NS_PER_HOUR, NS_PER_DAY] at *; omega
    have : 0 ≤ t / NS_PER_HOUR := by simp only [NS_PER_HOUR]; omega
    omega
  have hmem : (u, (t / NS_PER_HOUR).toNat) ∈ dstCands z year rev :=
    (mem_dstCands z year rev u _).2 ⟨m, hm, dstHours_complete rev _ hh, hu⟩
  have hvalid := dstScan_none z year rev hnone _ hmem
  have hal := hreg.aligned D t hD h0 h1 hv
  have e : dstProbe z (u, (t / NS_PER_HOUR).toNat) = D * NS_PER_DAY + t / NS_PER_HOUR * NS_PER_HOUR + HALF := by
    simp only [dstProbe, hday]
    have : ((t / NS_PER_HOUR).toNat : Int) = t / NS_PER_HOUR := Int.toNat_of_nonneg (by simp only [NS_PER_HOUR]; omega)
    rw [this]
  rw [e, hal] at hvalid
  exact hv hvalid

/-- in a regular year the hour the scan reports for a defect is the clock hour of every reading with that defect -/
theorem scan_hour (z : Zone) (year : Int) (InYear : Int → Prop) (hreg : YearRegular z year InYear)
    (rev : Bool) (u : Int) (h : Nat) (v : Validity) (hs : dstScan z year rev = some (u, h, v))
    (D t : Int) (hD : InYear D) (h0 : 0 ≤ t) (h1 : t < NS_PER_DAY) (hv : z.validity (D * NS_PER_DAY + t) = v) :
    (h : Int) * NS_PER_HOUR ≤ t ∧ t ≤ (h : Int) * NS_PER_HOUR + HOUR_END := by
  obtain ⟨hmem, hveq, hvne⟩ := dstScan_some z year rev u h v hs
  obtain ⟨m, hm, hh, hu⟩ := (mem_dstCands z year rev u h).1 hmem
  have hin := hreg.scans_in_year rev m hm u hu
  have hlt := dstHours_lt rev h hh
  have key := hreg.one_hour (z.localDay u) D ((h : Int) * NS_PER_HOUR + HALF) t hin hD
    (by simp only [NS_PER_HOUR, HALF, NS_PER_MIN]; omega)
    (by simp only [NS_PER_HOUR, HALF, NS_PER_MIN, NS_PER_DAY]; omega) h0 h1
    (by
      have : z.localDay u * NS_PER_DAY + ((h : Int) * NS_PER_HOUR + HALF) = dstProbe z (u, h) := by
        simp only [dstProbe]; omega
      rw [this, ← hveq]; exact hvne)
    (by
      have : z.localDay u * NS_PER_DAY + ((h : Int) * NS_PER_HOUR + HALF) = dstProbe z (u, h) := by
        simp only [dstProbe]; omega
      rw [this, ← hveq]; exact hv)
  have e : ((h : Int) * NS_PER_HOUR + HALF) / NS_PER_HOUR = h := by
    simp only [NS_PER_HOUR, HALF, NS_PER_MIN]; omega
  rw [e] at key
  simp only [NS_PER_HOUR, HOUR_END] at *
  omega

end Ea
