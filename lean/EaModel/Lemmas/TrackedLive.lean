import EaModel.Lemmas.Tracked
/-!
# The parallel managers never track a task whose done callback has run

For both parallel managers, in every reachable state: every tracked id belongs to an existing task that is not yet
delivered, and no id is tracked twice. (For the unbounded manager `Tracked.lean` shows the converse as well.)
-/
namespace Ea

def IsPar : MgrKind → Prop
  | .parallel | .limitingPar _ _ => True
  | _ => False

structure TrackedLive (s : TSt) : Prop where
  par : IsPar s.kind
  mem : ∀ t, t ∈ s.tracked → (t < s.tasks.length ∧ (s.task t).delivered = false)
  nodup : s.tracked.Nodup

theorem TrackedLive.of_set {s s' : TSt} (h : TrackedLive s) (t : Nat) (x : Task)
    (ht : s'.tasks = s.tasks.set t x) (htr : s'.tracked = s.tracked) (hk : s'.kind = s.kind)
    (hd : x.delivered = (s.task t).delivered) : TrackedLive s' := by
  refine ⟨by rw [hk]; exact h.par, ?_, by rw [htr]; exact h.nodup⟩
  intro t' hin
  rw [htr] at hin
  have := h.mem t' hin
  have hlen : s'.tasks.length = s.tasks.length := by rw [ht]; simp
  have htask : (s'.task t').delivered = (s.task t').delivered := by
    rw [task_eq_taskOf, task_eq_taskOf, ht]
    by_cases hne : t' = t
    · subst hne
      by_cases hlt : t' < s.tasks.length
      · rw [taskOf_set_eq _ _ _ hlt]; exact hd
      · rw [taskOf_set_ge _ _ _ (by omega)]
    · rw [taskOf_set_ne _ _ _ _ hne]
  rw [hlen, htask]; exact this

/-- tasks unchanged, the tracked list shrinks to a sublist -/
theorem TrackedLive.of_sub {s s' : TSt} (h : TrackedLive s) (ht : s'.tasks = s.tasks)
    (htr : s'.tracked.Sublist s.tracked) (hk : s'.kind = s.kind) : TrackedLive s' := by
  refine ⟨by rw [hk]; exact h.par, ?_, htr.nodup h.nodup⟩
  intro t hin
  have : s'.task t = s.task t := by unfold TSt.task; rw [ht]
  rw [ht, this]; exact h.mem t (htr.subset hin)

theorem TrackedLive.of_eq {s s' : TSt} (h : TrackedLive s) (ht : s'.tasks = s.tasks) (htr : s'.tracked = s.tracked)
    (hk : s'.kind = s.kind) : TrackedLive s' := h.of_sub ht (by rw [htr]; exact List.Sublist.refl _) hk

theorem TrackedLive.append {s s' : TSt} (h : TrackedLive s) (x : Task) (hx : x.delivered = false)
    (ht : s'.tasks = s.tasks ++ [x]) (htr : s'.tracked = s.tracked ++ [s.tasks.length]) (hk : s'.kind = s.kind) :
    TrackedLive s' := by
  refine ⟨by rw [hk]; exact h.par, ?_, ?_⟩
  · intro t hin
    rw [htr, List.mem_append, List.mem_singleton] at hin
    rw [task_eq_taskOf, ht, List.length_append, List.length_singleton]
    rcases hin with hin | heq
    · have := h.mem t hin
      rw [taskOf_append_lt _ _ _ this.1, ← task_eq_taskOf]
      exact ⟨by omega, this.2⟩
    · subst heq
      rw [taskOf_append_len]
      exact ⟨by omega, hx⟩
  · rw [htr, List.nodup_append]
    refine ⟨h.nodup, by simp, ?_⟩
    intro a ha b hb
    simp at hb; subst hb
    intro e; subst e
    have := (h.mem _ ha).1
    omega

theorem TrackedLive.deliver {s s' : TSt} (h : TrackedLive s) (t : Nat)
    (ht : s'.tasks = s.tasks.set t { s.task t with delivered := true }) (htr : s'.tracked = s.tracked.erase t)
    (hk : s'.kind = s.kind) : TrackedLive s' := by
  refine ⟨by rw [hk]; exact h.par, ?_, by rw [htr]; exact List.Nodup.erase _ h.nodup⟩
  intro t' hin
  rw [htr, List.Nodup.mem_erase_iff h.nodup] at hin
  have := h.mem t' hin.2
  have hlen : s'.tasks.length = s.tasks.length := by rw [ht]; simp
  rw [hlen, task_eq_taskOf s', ht, taskOf_set_ne _ _ _ _ hin.1, ← task_eq_taskOf]
  exact this

theorem TrackedLive.cancelTask {s : TSt} (h : TrackedLive s) (t : Nat) : TrackedLive (s.cancelTask t) := by
  unfold TSt.cancelTask
  simp only []
  split
  · exact h
  · exact h.of_set t _ rfl rfl rfl rfl
  · split
    · exact h
    · exact h.of_set t _ rfl rfl rfl rfl

theorem TrackedLive.finishTask {s : TSt} (h : TrackedLive s) (t : Nat) : TrackedLive (finishTask s t) := by
  unfold Ea.finishTask
  exact h.of_set t _ rfl rfl rfl rfl

theorem TrackedLive.emit {s : TSt} (h : TrackedLive s) (e : TEv) : TrackedLive (s.emit e) := h.of_eq rfl rfl rfl

/-- `create_task` after the victim (if any) was untracked and cancelled -/
theorem TrackedLive.untrack_cancel_create {s : TSt} (h : TrackedLive s) (c t0 : Nat) (s0 : TSt)
    (h0t : s0.tasks = s.tasks) (h0tr : s0.tracked.Sublist s.tracked) (h0k : s0.kind = s.kind) :
    TrackedLive { ((s0.cancelTask t0).createTask c).1 with
                  tracked := ((s0.cancelTask t0).createTask c).1.tracked ++ [((s0.cancelTask t0).createTask c).2] } := by
  have h1 : TrackedLive (s0.cancelTask t0) := (h.of_sub h0t h0tr h0k).cancelTask t0
  exact h1.append { coro := c } rfl rfl rfl rfl

theorem TrackedLive.submit {s : TSt} (h : TrackedLive s) (c key : Nat) : TrackedLive (submit s c key) := by
  unfold Ea.submit submitCore
  have hpar := h.par
  have h' : TrackedLive (s.emit (.submitted c)) := h.emit _
  generalize s.emit (.submitted c) = s1 at h'
  have hp1 := h'.par
  cases hk : s1.kind with
  | sequential => rw [hk] at hp1; exact hp1.elim
  | limitingSeq _ _ => rw [hk] at hp1; exact hp1.elim
  | dedup => rw [hk] at hp1; exact hp1.elim
  | parallel =>
    simp only []
    apply TrackedLive.append h' { coro := c } rfl <;> first | rfl | exact hk.symm
  | limitingPar limit pol =>
    simp only []
    split
    · cases pol with
      | skip => exact h'.emit _
      | cancelFirst =>
        simp only []
        split
        · next he =>
          have he' : s1.tracked = [] := he
          apply TrackedLive.append h' { coro := c } rfl
          · rfl
          · show [s1.tasks.length] = s1.tracked ++ [s1.tasks.length]
            rw [he']; rfl
          · first | rfl | exact hk.symm
        · next t0 rest ht =>
          apply TrackedLive.untrack_cancel_create h' c t0
          · rfl
          · show rest.Sublist s1.tracked
            rw [ht]; exact List.sublist_cons_self _ _
          · first | rfl | exact hk.symm
      | cancelLast =>
        simp only []
        split
        · next he =>
          have he' : s1.tracked = [] := by
            have : s1.tracked.getLast? = none := he
            simpa using this
          apply TrackedLive.append h' { coro := c } rfl
          · rfl
          · show [s1.tasks.length] = s1.tracked ++ [s1.tasks.length]
            rw [he']; rfl
          · first | rfl | exact hk.symm
        · next t0 ht =>
          apply TrackedLive.untrack_cancel_create h' c t0
          · rfl
          · show s1.tracked.dropLast.Sublist s1.tracked
            exact List.dropLast_sublist _
          · first | rfl | exact hk.symm
    · apply TrackedLive.append h' { coro := c } rfl <;> first | rfl | exact hk.symm

theorem TrackedLive.submitAll : ∀ (subs : List (Nat × Nat)) {s : TSt}, TrackedLive s → TrackedLive (submitAll s subs)
  | [], _, h => h
  | (c, k) :: rest, _, h => by unfold Ea.submitAll; exact TrackedLive.submitAll rest (h.submit c k)

theorem TrackedLive.managerDone {s : TSt} (h : TrackedLive s) (t : Nat) : TrackedLive (managerDone s t) := by
  unfold Ea.managerDone
  have hp : IsPar (s.setTask t { s.task t with delivered := true }).kind := h.par
  simp only []
  split
  · next hk => rw [hk] at hp; exact hp.elim
  · next hk => rw [hk] at hp; exact hp.elim
  · next hk => rw [hk] at hp; exact hp.elim
  · apply TrackedLive.deliver h t <;> rfl
  · apply TrackedLive.deliver h t <;> rfl

theorem TrackedLive.runReady {s : TSt} (h : TrackedLive s) (r : Ready) : TrackedLive (runReady s r) := by
  cases r with
  | step t =>
    simp only [Ea.runReady]
    split
    · exact h
    · split
      · exact (h.emit _).finishTask t
      · apply TrackedLive.emit
        exact h.of_set t _ rfl rfl rfl rfl
  | resume t fail last =>
    simp only [Ea.runReady]
    split
    · exact h
    · have h1 := TrackedLive.submitAll last.inside h
      apply TrackedLive.finishTask
      apply TrackedLive.emit
      split
      · exact h1
      · exact h1.of_eq rfl rfl rfl
  | resumeCancel t =>
    simp only [Ea.runReady]
    split
    · exact h
    · exact (h.emit _).finishTask t
  | doneCb t => exact h.managerDone t
  | listener subs => exact TrackedLive.submitAll subs h

theorem TrackedLive.drain : ∀ (n : Nat) {s : TSt}, TrackedLive s → TrackedLive (drain n s)
  | 0, _, h => h
  | n + 1, s, h => by
    unfold Ea.drain
    split
    · exact h
    · apply TrackedLive.drain n
      apply TrackedLive.runReady
      exact h.of_eq rfl rfl rfl

theorem TrackedLive.tstep {s : TSt} (h : TrackedLive s) (op : TOp) : TrackedLive (tstep s op) := by
  apply TrackedLive.drain
  cases op with
  | submit c k => exact h.submit c k
  | complete t fail last =>
    simp only [Ea.applyOp]
    split
    · exact h.of_eq rfl rfl rfl
    · exact h
  | cancel t => exact h.cancelTask t

/-- in every state a parallel manager (bounded or not) can reach, every tracked task exists and its done callback
has not run yet, and no task is tracked twice -/
theorem tracked_live_reachable (k : MgrKind) (hk : IsPar k) (ops : List TOp) :
    TrackedLive (ops.foldl tstep { kind := k }) := by
  suffices h : ∀ s, TrackedLive s → TrackedLive (ops.foldl tstep s) from
    h _ ⟨hk, fun t hin => by simp at hin, by simp⟩
  induction ops with
  | nil => intro s h; exact h
  | cons op ops ih => intro s h; exact ih _ (h.tstep op)

end Ea
