import EaModel.Lemmas.KindFrame
/-!
# The unbounded parallel manager tracks exactly the tasks whose done callback has not run

`ParallelTaskManager.tasks` is a set with `add_done_callback(self.tasks.discard)`: a task is in it from `create_task`
until its done callback. `TrackedExact`: in every reachable state the tracked ids are exactly the ids of the tasks
that exist and are not yet delivered, without repetition.
-/
namespace Ea

structure TrackedExact (s : TSt) : Prop where
  par : s.kind = .parallel
  mem : ∀ t, t ∈ s.tracked ↔ (t < s.tasks.length ∧ (s.task t).delivered = false)
  nodup : s.tracked.Nodup

def DEFAULT_TASK : Task := { coro := 0, status := .done, delivered := true }
def taskOf (l : List Task) (t : Nat) : Task := l.getD t DEFAULT_TASK
theorem task_eq_taskOf (s : TSt) (t : Nat) : s.task t = taskOf s.tasks t := rfl

theorem taskOf_ge (l : List Task) (t : Nat) (h : l.length ≤ t) : taskOf l t = DEFAULT_TASK := by
  unfold taskOf; rw [List.getD_eq_getElem?_getD, List.getElem?_eq_none h]; rfl
theorem taskOf_append_lt (l : List Task) (x : Task) (t : Nat) (h : t < l.length) : taskOf (l ++ [x]) t = taskOf l t := by
  unfold taskOf; simp [List.getD_eq_getElem?_getD, List.getElem?_append_left h]
theorem taskOf_append_len (l : List Task) (x : Task) : taskOf (l ++ [x]) l.length = x := by
  unfold taskOf; simp [List.getD_eq_getElem?_getD]
theorem taskOf_set_eq (l : List Task) (x : Task) (t : Nat) (h : t < l.length) : taskOf (l.set t x) t = x := by
  unfold taskOf; simp [List.getD_eq_getElem?_getD, h]
theorem taskOf_set_ne (l : List Task) (x : Task) (t t' : Nat) (h : t' ≠ t) : taskOf (l.set t x) t' = taskOf l t' := by
  unfold taskOf; simp [List.getD_eq_getElem?_getD, List.getElem?_set_ne (Ne.symm h)]
theorem taskOf_set_ge (l : List Task) (x : Task) (t : Nat) (h : l.length ≤ t) : l.set t x = l := by
  exact List.set_eq_of_length_le h

theorem task_lt (s : TSt) (t : Nat) (h : (s.task t).delivered = false) : t < s.tasks.length := by
  by_cases hlt : t < s.tasks.length
  · exact hlt
  · exfalso
    rw [task_eq_taskOf, taskOf_ge _ _ (by omega)] at h
    cases h

/-- a record is replaced without touching the delivery flag; everything else the invariant reads is unchanged -/
theorem TrackedExact.of_set {s s' : TSt} (h : TrackedExact s) (t : Nat) (x : Task)
    (ht : s'.tasks = s.tasks.set t x) (htr : s'.tracked = s.tracked) (hk : s'.kind = s.kind)
    (hd : x.delivered = (s.task t).delivered) : TrackedExact s' := by
  refine ⟨by rw [hk]; exact h.par, ?_, by rw [htr]; exact h.nodup⟩
  intro t'
  rw [htr, h.mem t']
  have hlen : s'.tasks.length = s.tasks.length := by rw [ht]; simp
  have htask : (s'.task t').delivered = (s.task t').delivered := by
    rw [task_eq_taskOf, task_eq_taskOf, ht]
    by_cases hne : t' = t
    · subst hne
      by_cases hlt : t' < s.tasks.length
      · rw [taskOf_set_eq _ _ _ hlt]; exact hd
      · rw [taskOf_set_ge _ _ _ (by omega)]
    · rw [taskOf_set_ne _ _ _ _ hne]
  rw [hlen, htask]

theorem TrackedExact.of_eq {s s' : TSt} (h : TrackedExact s) (ht : s'.tasks = s.tasks) (htr : s'.tracked = s.tracked)
    (hk : s'.kind = s.kind) : TrackedExact s' := by
  refine ⟨by rw [hk]; exact h.par, ?_, by rw [htr]; exact h.nodup⟩
  intro t
  have : s'.task t = s.task t := by unfold TSt.task; rw [ht]
  rw [htr, ht, this]; exact h.mem t

/-- a new task is created and tracked -/
theorem TrackedExact.append {s s' : TSt} (h : TrackedExact s) (x : Task) (hx : x.delivered = false)
    (ht : s'.tasks = s.tasks ++ [x]) (htr : s'.tracked = s.tracked ++ [s.tasks.length]) (hk : s'.kind = s.kind) :
    TrackedExact s' := by
  refine ⟨by rw [hk]; exact h.par, ?_, ?_⟩
  · intro t
    rw [htr, task_eq_taskOf, ht, List.mem_append, List.mem_singleton, List.length_append, List.length_singleton]
    have hm := h.mem t
    rcases Nat.lt_trichotomy t s.tasks.length with hlt | heq | hgt
    · rw [taskOf_append_lt _ _ _ hlt, ← task_eq_taskOf]
      constructor
      · rintro (hin | heq)
        · exact ⟨by omega, (hm.1 hin).2⟩
        · omega
      · intro ⟨_, hd⟩; exact Or.inl (hm.2 ⟨hlt, hd⟩)
    · subst heq
      rw [taskOf_append_len]
      exact ⟨fun _ => ⟨by omega, hx⟩, fun _ => Or.inr rfl⟩
    · constructor
      · rintro (hin | heq)
        · have := (hm.1 hin).1; omega
        · omega
      · intro ⟨h1, _⟩; omega
  · rw [htr, List.nodup_append]
    refine ⟨h.nodup, by simp, ?_⟩
    intro a ha b hb
    simp at hb; subst hb
    intro e; subst e
    have := (h.mem _).1 ha
    omega

/-- the done callback: the task is delivered and leaves the set -/
theorem TrackedExact.deliver {s s' : TSt} (h : TrackedExact s) (t : Nat)
    (ht : s'.tasks = s.tasks.set t { s.task t with delivered := true }) (htr : s'.tracked = s.tracked.erase t)
    (hk : s'.kind = s.kind) : TrackedExact s' := by
  refine ⟨by rw [hk]; exact h.par, ?_, by rw [htr]; exact List.Nodup.erase _ h.nodup⟩
  intro t'
  have hlen : s'.tasks.length = s.tasks.length := by rw [ht]; simp
  rw [htr, List.Nodup.mem_erase_iff h.nodup, h.mem t', hlen, task_eq_taskOf s', ht]
  by_cases hne : t' = t
  · subst hne
    constructor
    · intro ⟨hne, _⟩; exact absurd rfl hne
    · intro ⟨hlt, hd⟩
      rw [taskOf_set_eq _ _ _ hlt] at hd
      cases hd
  · rw [taskOf_set_ne _ _ _ _ hne, ← task_eq_taskOf]
    exact ⟨fun ⟨_, h2⟩ => h2, fun h2 => ⟨hne, h2⟩⟩

theorem TrackedExact.cancelTask {s : TSt} (h : TrackedExact s) (t : Nat) : TrackedExact (s.cancelTask t) := by
  unfold TSt.cancelTask
  simp only []
  split
  · exact h
  · exact h.of_set t _ rfl rfl rfl rfl
  · split
    · exact h
    · exact h.of_set t _ rfl rfl rfl rfl

theorem TrackedExact.finishTask {s : TSt} (h : TrackedExact s) (t : Nat) : TrackedExact (finishTask s t) := by
  unfold Ea.finishTask
  exact h.of_set t _ rfl rfl rfl rfl

theorem TrackedExact.submit {s : TSt} (h : TrackedExact s) (c key : Nat) : TrackedExact (submit s c key) := by
  unfold Ea.submit submitCore
  have hk : (s.emit (.submitted c)).kind = .parallel := h.par
  simp only [hk]
  apply TrackedExact.append h { coro := c } rfl <;> first | rfl | exact h.par.symm

theorem TrackedExact.submitAll : ∀ (subs : List (Nat × Nat)) {s : TSt}, TrackedExact s → TrackedExact (submitAll s subs)
  | [], _, h => h
  | (c, k) :: rest, _, h => by unfold Ea.submitAll; exact TrackedExact.submitAll rest (h.submit c k)

theorem TrackedExact.managerDone {s : TSt} (h : TrackedExact s) (t : Nat) : TrackedExact (managerDone s t) := by
  unfold Ea.managerDone
  have hk : (s.setTask t { s.task t with delivered := true }).kind = .parallel := h.par
  simp only [hk]
  apply TrackedExact.deliver h t <;> first | rfl | exact h.par.symm

theorem TrackedExact.emit {s : TSt} (h : TrackedExact s) (e : TEv) : TrackedExact (s.emit e) := h.of_eq rfl rfl rfl

theorem TrackedExact.runReady {s : TSt} (h : TrackedExact s) (r : Ready) : TrackedExact (runReady s r) := by
  cases r with
  | step t =>
    simp only [Ea.runReady]
    split
    · exact h
    · split
      · exact (h.emit _).finishTask t
      · apply TrackedExact.emit
        exact h.of_set t _ rfl rfl rfl rfl
  | resume t fail last =>
    simp only [Ea.runReady]
    split
    · exact h
    · have h1 := TrackedExact.submitAll last.inside h
      apply TrackedExact.finishTask
      apply TrackedExact.emit
      split
      · exact h1
      · exact h1.of_eq rfl rfl rfl
  | resumeCancel t =>
    simp only [Ea.runReady]
    split
    · exact h
    · exact (h.emit _).finishTask t
  | doneCb t => exact h.managerDone t
  | listener subs => exact TrackedExact.submitAll subs h

theorem TrackedExact.drain : ∀ (n : Nat) {s : TSt}, TrackedExact s → TrackedExact (drain n s)
  | 0, _, h => h
  | n + 1, s, h => by
    unfold Ea.drain
    split
    · exact h
    · apply TrackedExact.drain n
      apply TrackedExact.runReady
      exact h.of_eq rfl rfl rfl

theorem TrackedExact.tstep {s : TSt} (h : TrackedExact s) (op : TOp) : TrackedExact (tstep s op) := by
  apply TrackedExact.drain
  cases op with
  | submit c k => exact h.submit c k
  | complete t fail last =>
    simp only [Ea.applyOp]
    split
    · exact h.of_eq rfl rfl rfl
    · exact h
  | cancel t => exact h.cancelTask t

/-- **strong references until done, forgotten afterwards**: in every state the unbounded parallel manager can reach,
the tracked tasks are exactly the tasks whose done callback has not run yet, each once -/
theorem tracked_exact_reachable (ops : List TOp) : TrackedExact (ops.foldl tstep { kind := .parallel }) := by
  suffices h : ∀ s, TrackedExact s → TrackedExact (ops.foldl tstep s) from
    h _ ⟨rfl, fun t => by simp, by simp⟩
  induction ops with
  | nil => intro s h; exact h
  | cons op ops ih => intro s h; exact ih _ (h.tstep op)

end Ea
