import EaModel.Zone
/-!
# `resolve` is sound and complete with respect to `toLocal` (PEP 495 semantics by proof)
-/
namespace Ea

/-- transitions strictly increasing (above the optional lower bound) -/
def SortedFrom : Option Int → List (Int × Int) → Prop
  | _, [] => True
  | lo, (t, _) :: rest => (match lo with | none => True | some l => l < t) ∧ SortedFrom (some t) rest

def Zone.Sorted (z : Zone) : Prop := SortedFrom none z.trans

theorem mem_sols (cur : Int) (lo : Option Int) (tr : List (Int × Int)) (L u : Int)
    (hs : SortedFrom lo tr) :
    u ∈ sols cur lo tr L ↔ (GeLo lo u ∧ u + offAt cur tr u = L) := by
  induction tr generalizing cur lo with
  | nil =>
    simp only [sols, offAt]
    constructor
    · intro h
      split at h
      · next hc => simp at h; subst h; exact ⟨hc, by omega⟩
      · simp at h
    · intro ⟨h1, h2⟩
      have : u = L - cur := by omega
      subst this
      simp [h1]
  | cons p rest ih =>
    obtain ⟨t, o⟩ := p
    simp only [SortedFrom] at hs
    simp only [sols, List.mem_append]
    rw [ih o (some t) hs.2]
    simp only [offAt]
    constructor
    · rintro (h | ⟨h1, h2⟩)
      · split at h
        · next hc =>
          simp at h; subst h
          exact ⟨hc.1, by simp [hc.2]⟩
        · simp at h
      · refine ⟨?_, ?_⟩
        · cases lo with
          | none => trivial
          | some l => simp [GeLo] at hs h1 ⊢; omega
        · have : ¬ u < t := by simp [GeLo] at h1; omega
          simp [this]; exact h2
    · rintro ⟨h1, h2⟩
      by_cases hu : u < t
      · left
        simp [hu] at h2
        have : u = L - cur := by omega
        subst this
        simp [hu, h1]
      · right
        simp [hu] at h2
        exact ⟨by simp [GeLo]; omega, h2⟩

/-- the solutions of `toLocal u = L`, exactly -/
theorem Zone.mem_sols (z : Zone) (hs : z.Sorted) (L u : Int) :
    u ∈ sols z.init none z.trans L ↔ z.toLocal u = L := by
  rw [Ea.mem_sols z.init none z.trans L u hs]
  simp [GeLo, Zone.toLocal, Zone.offsetAt]

/-- the solution list is strictly increasing -/
theorem sols_sorted (cur : Int) (lo : Option Int) (tr : List (Int × Int)) (L : Int)
    (hs : SortedFrom lo tr) : (sols cur lo tr L).Pairwise (· < ·) := by
  induction tr generalizing cur lo with
  | nil => simp only [sols]; split <;> simp
  | cons p rest ih =>
    obtain ⟨t, o⟩ := p
    simp only [SortedFrom] at hs
    simp only [sols]
    rw [List.pairwise_append]
    refine ⟨by split <;> simp, ih o (some t) hs.2, ?_⟩
    intro a ha b hb
    split at ha
    · next hc =>
      simp at ha; subst ha
      have := (Ea.mem_sols o (some t) rest L b hs.2).1 hb
      simp [GeLo] at this
      omega
    · simp at ha

theorem findGap_spec (cur : Int) (tr : List (Int × Int)) (L b a : Int)
    (h : findGap cur tr L = some (b, a)) : ∃ t, (t, a) ∈ tr ∧ t + b ≤ L ∧ L < t + a := by
  induction tr generalizing cur with
  | nil => simp [findGap] at h
  | cons p rest ih =>
    obtain ⟨t, o⟩ := p
    unfold findGap at h
    split at h
    · next hc => simp at h; obtain ⟨rfl, rfl⟩ := h; exact ⟨t, by simp, hc.1, hc.2⟩
    · obtain ⟨t', h1, h2⟩ := ih _ h
      exact ⟨t', by simp [h1], h2⟩

/-- **unique**: the only instant whose local reading is `L` -/
theorem Zone.resolve_unique (z : Zone) (hs : z.Sorted) (L u : Int) (h : z.resolve L = .unique u)
    (hne : sols z.init none z.trans L ≠ []) :
    z.toLocal u = L ∧ ∀ v, z.toLocal v = L → v = u := by
  unfold Zone.resolve at h
  split at h
  · next u' heq =>
    simp at h; subst h
    refine ⟨(z.mem_sols hs L u').1 (by rw [heq]; simp), ?_⟩
    intro v hv
    have := (z.mem_sols hs L v).2 hv
    rw [heq] at this; simpa using this
  · simp at h
  · next heq => exact absurd heq hne

/-- **repeated**: both instants read `L`, the first is earlier, and there is no solution outside them -/
theorem Zone.resolve_fold (z : Zone) (hs : z.Sorted) (L a b : Int) (h : z.resolve L = .fold a b) :
    z.toLocal a = L ∧ z.toLocal b = L ∧ a < b ∧ ∀ v, z.toLocal v = L → a ≤ v ∧ v ≤ b := by
  unfold Zone.resolve at h
  split at h
  · simp at h
  · next u us hne heq =>
    simp at h
    obtain ⟨rfl, hb⟩ := h
    have hsorted := sols_sorted z.init none z.trans L hs
    rw [heq] at hsorted
    have hus : us ≠ [] := by
      intro e; subst e; exact hne rfl
    obtain ⟨l, hl⟩ := List.getLast?_eq_some_iff.1 (show us.getLast? = some (us.getLast hus) from List.getLast?_eq_some_getLast hus)
    have hbv : b = us.getLast hus := by
      rw [← hb, List.getLast?_eq_some_getLast hus]; rfl
    have hbm : b ∈ us := by rw [hbv]; exact List.getLast_mem hus
    have hall : ∀ v ∈ us, u < v := (List.pairwise_cons.1 hsorted).1
    refine ⟨(z.mem_sols hs L u).1 (by rw [heq]; simp), (z.mem_sols hs L b).1 (by rw [heq]; simp [hbm]),
            hall b hbm, ?_⟩
    intro v hv
    have hm := (z.mem_sols hs L v).2 hv
    rw [heq] at hm
    rcases List.mem_cons.1 hm with rfl | hm
    · exact ⟨Int.le_refl _, Int.le_of_lt (hall b hbm)⟩
    · refine ⟨Int.le_of_lt (hall v hm), ?_⟩
      -- v is in the strictly increasing tail whose last element is b
      have htail := (List.pairwise_cons.1 hsorted).2
      rw [hl] at htail hm
      rw [List.pairwise_append] at htail
      rw [hbv]
      have hlast : us.getLast hus = (l ++ [us.getLast hus]).getLast (by simp) := by simp
      rcases List.mem_append.1 hm with hm | hm
      · have := htail.2.2 v hm (us.getLast hus) (by simp)
        omega
      · simp at hm; omega
  · split at h <;> simp at h

/-- **skipped**: no instant reads `L`; the two shifted instants differ by exactly the size of the gap -/
theorem Zone.resolve_gap (z : Zone) (hs : z.Sorted) (L e l : Int) (h : z.resolve L = .gap e l) :
    (∀ v, z.toLocal v ≠ L) ∧ ∃ t before after, (t, after) ∈ z.trans ∧ t + before ≤ L ∧ L < t + after ∧
      e = L - after ∧ l = L - before ∧ e < t ∧ t ≤ l := by
  unfold Zone.resolve at h
  split at h
  · simp at h
  · simp at h
  · next heq =>
    split at h
    · next before after hg =>
      simp at h
      obtain ⟨rfl, rfl⟩ := h
      obtain ⟨t, h1, h2, h3⟩ := findGap_spec _ _ _ _ _ hg
      refine ⟨?_, t, before, after, h1, h2, h3, rfl, rfl, by omega, by omega⟩
      intro v hv
      have := (z.mem_sols hs L v).2 hv
      rw [heq] at this; cases this
    · simp at h

/-- in a sorted table a reading without solution lies in the gap of some transition: the search of `findGap`
succeeds (the last branch of `resolve` is unreachable) -/
theorem findGap_of_no_sols (cur : Int) (lo : Option Int) (tr : List (Int × Int)) (L : Int)
    (hlo : GeLo lo (L - cur)) (h : sols cur lo tr L = []) : ∃ b a, findGap cur tr L = some (b, a) := by
  induction tr generalizing cur lo with
  | nil =>
    simp only [sols] at h
    rw [if_pos hlo] at h
    cases h
  | cons p rest ih =>
    obtain ⟨t, o⟩ := p
    simp only [sols, List.append_eq_nil_iff] at h
    obtain ⟨h1, h2⟩ := h
    have ht : t ≤ L - cur := by
      by_cases c : L - cur < t
      · rw [if_pos ⟨hlo, c⟩] at h1; cases h1
      · omega
    unfold findGap
    by_cases c : t + cur ≤ L ∧ L < t + o
    · rw [if_pos c]; exact ⟨cur, o, rfl⟩
    · rw [if_neg c]
      exact ih o (some t) (by show t ≤ L - o; omega) h2

/-- **totality of `resolve`**: for every table and reading the answer is one of the three PEP 495 cases, and the
fall-through `unique (L − init)` of the definition is never taken (no sortedness needed) -/
theorem Zone.resolve_total (z : Zone) (L : Int) (h : sols z.init none z.trans L = []) :
    ∃ e l, z.resolve L = .gap e l := by
  obtain ⟨b, a, hg⟩ := findGap_of_no_sols z.init none z.trans L (by simp [GeLo]) h
  exact ⟨L - a, L - b, by simp [Zone.resolve, h, hg]⟩

/-- **unique**, without side condition: the answer `unique u` means that `u` is the one and only instant whose local
reading is `L` -/
theorem Zone.resolve_unique' (z : Zone) (hs : z.Sorted) (L u : Int) (h : z.resolve L = .unique u) :
    z.toLocal u = L ∧ ∀ v, z.toLocal v = L → v = u := by
  refine z.resolve_unique hs L u h ?_
  intro hnil
  obtain ⟨e, l, hg⟩ := z.resolve_total L hnil
  rw [hg] at h; cases h

/-- **the three cases are exhaustive and exclusive** (sorted tables): a reading has exactly one instant, none, or at
least two — and `resolve` says which -/
theorem Zone.resolve_cases (z : Zone) (hs : z.Sorted) (L : Int) :
    (∃ u, z.resolve L = .unique u ∧ z.toLocal u = L ∧ ∀ v, z.toLocal v = L → v = u) ∨
    (∃ e l, z.resolve L = .gap e l ∧ ∀ v, z.toLocal v ≠ L) ∨
    (∃ a b, z.resolve L = .fold a b ∧ a < b ∧ z.toLocal a = L ∧ z.toLocal b = L) := by
  cases hr : z.resolve L with
  | unique u => exact Or.inl ⟨u, rfl, z.resolve_unique' hs L u hr⟩
  | gap e l => exact Or.inr (Or.inl ⟨e, l, rfl, (z.resolve_gap hs L e l hr).1⟩)
  | fold a b =>
    obtain ⟨h1, h2, h3, _⟩ := z.resolve_fold hs L a b hr
    exact Or.inr (Or.inr ⟨a, b, rfl, h3, h1, h2⟩)

end Ea
