import EaModel.Lemmas.Wake
import EaModel.Lemmas.Order
import EaModel.Lemmas.Clean
/-!
# One round of a recurring job: executed when due, queued again for the next occurrence (C03)
-/
namespace Ea

/-! ## the environment (zone, location, draws) is never changed -/

theorem runCbs_env (fin : Bool) (j : Nat) (cs : List Nat) (s : St) : (runCbs fin j cs s).env = s.env := by
  induction cs generalizing s with
  | nil => rfl
  | cons c cs ih =>
    unfold runCbs
    simp only []
    split <;> rw [ih] <;> rfl

theorem setNextRun_env (s : St) (j : Nat) (nr : Option Int) : (setNextRun s j nr).1.env = s.env := by
  unfold setNextRun
  cases nr with
  | none => simp only []; rw [runCbs_env]; rfl
  | some t =>
    simp only []
    split
    · rfl
    · rw [runCbs_env]; rfl

def TimerFnE (setT : St → St) : Prop := ∀ s, (setT s).env = s.env

section withTimer
variable (setT : St → St) (hT : TimerFnE setT)
include hT

theorem removeJob_env (s : St) (j : Nat) : (removeJob setT s j).env = s.env := by
  rcases removeJob_cases setT s j with e | e <;> rw [e]
  · rw [hT]

theorem addJob_env (s : St) (j : Nat) : (addJob setT s j).env = s.env := by
  unfold addJob
  split
  · simp only []
    split
    · rw [hT]
    · rfl
  · rfl

theorem jobFinish_env (s : St) (j : Nat) : (jobFinish setT s j).1.env = s.env := by
  unfold jobFinish
  split
  · rfl
  · simp only []
    rw [runCbs_env]
    split <;> exact removeJob_env setT hT s j

theorem updateNext_env (s : St) (j : Nat) : (updateNext setT s j).1.env = s.env := by
  unfold updateNext
  simp only []
  split
  · exact jobFinish_env setT hT s j
  · exact setNextRun_env s j none
  · split
    · rfl
    · split
      · rfl
      · split
        · rfl
        · rw [setNextRun_env]; rfl

theorem execute_env (s : St) (j : Nat) (due : Int) : (execute setT s j due).env = s.env := by
  unfold execute
  simp only []
  generalize hs0 : (if (s.job j).execFail.contains (s.job j).execs = true then
      (((s.emit (Ev.exec j s.now due)).setJob j { s.job j with execs := (s.job j).execs + 1, lastRun := some s.now })).emit (Ev.exc "CallableError")
    else ((s.emit (Ev.exec j s.now due)).setJob j { s.job j with execs := (s.job j).execs + 1, lastRun := some s.now })) = s0
  have h0 : s0.env = s.env := by subst hs0; split <;> rfl
  have h1 := updateNext_env setT hT s0 j
  split
  · next s' heq =>
    have : s' = (updateNext setT s0 j).1 := by rw [heq]
    subst this; rw [h1, h0]
  · next s' e heq =>
    have : s' = (updateNext setT s0 j).1 := by rw [heq]
    subst this
    split
    · rw [setNextRun_env]; show (updateNext setT s0 j).1.env = s.env; rw [h1, h0]
    · show (updateNext setT s0 j).1.env = s.env; rw [h1, h0]

end withTimer

theorem setTimer_env_of (fuel : Nat) (hrun : ∀ f, f < fuel → ∀ s, (runLoop f s).env = s.env) : TimerFnE (setTimer fuel) := by
  intro s
  unfold setTimer
  simp only []
  split
  · rfl
  · split
    · rfl
    · split
      · rfl
      · split
        · split
          · rfl
          · next f => rw [hrun f (by omega)]
        · rfl

theorem runLoop_env (fuel : Nat) : ∀ s, (runLoop fuel s).env = s.env := by
  induction fuel using Nat.strongRecOn with
  | _ fuel ih =>
    intro s
    have hst : ∀ f, f ≤ fuel → TimerFnE (setTimer f) :=
      fun f hf => setTimer_env_of f (fun f' hf' => ih f' (by omega))
    unfold runLoop
    split
    · rfl
    · split
      · rfl
      · split
        · exact hst fuel (Nat.le_refl _) s
        · split
          · rfl
          · next f =>
            have hT := hst f (by omega)
            rw [ih f (by omega), addJob_env _ hT, execute_env _ hT]

theorem timerFnE_setTimer (f : Nat) : TimerFnE (setTimer f) := setTimer_env_of f (fun f' _ => runLoop_env f')


/-! ## following one job through a wake-up: its record is the old one until it is executed, the new one afterwards -/

section track
variable (i : Nat) (r0 r1 : Job) (N : Int) (E : Env)

/-- job `i` is queued with record `r` -/
def At (r : Job) (s : St) : Prop := i ∈ s.queue ∧ s.jobs i = r

/-- from `s` to `s'` the job keeps its old record `r0` or has got its new record `r1`; `r1` stays -/
def Tr (s s' : St) : Prop := (At i r0 s → At i r0 s' ∨ At i r1 s') ∧ (At i r1 s → At i r1 s')

variable {i r0 r1 N E}

theorem Tr.refl (s : St) : Tr i r0 r1 s s := ⟨fun h => Or.inl h, fun h => h⟩

theorem Tr.trans {a b c : St} (h1 : Tr i r0 r1 a b) (h2 : Tr i r0 r1 b c) : Tr i r0 r1 a c :=
  ⟨fun h => (h1.1 h).elim (fun hb => h2.1 hb) (fun hb => Or.inr (h2.2 hb)), fun h => h2.2 (h1.2 h)⟩

theorem Tr.of_same {s s' : St} (hq : i ∈ s.queue → i ∈ s'.queue) (hj : s'.jobs i = s.jobs i) : Tr i r0 r1 s s' :=
  ⟨fun h => Or.inl ⟨hq h.1, by rw [hj]; exact h.2⟩, fun h => ⟨hq h.1, by rw [hj]; exact h.2⟩⟩

theorem setNextRun_tr (s : St) (j : Nat) (nr : Option Int) (hne : i ≠ j) : Tr i r0 r1 s (setNextRun s j nr).1 := by
  rcases setNextRun_spec s j nr with ⟨h1, _⟩ | ⟨_, b', _, _, hjobs, hq, _⟩
  · rw [h1]; exact Tr.refl s
  · exact Tr.of_same (fun h => by rw [hq]; exact h) (by rw [hjobs]; simp [hne])

theorem setJob_tr (s : St) (j : Nat) (b : Job) (hne : i ≠ j) : Tr i r0 r1 s (s.setJob j b) :=
  Tr.of_same id (by simp [St.setJob, hne])

variable (i r0 r1 N E) in
/-- the contract of `_set_timer` -/
structure TimerFnR (setT : St → St) : Prop where
  base : TimerFn2 setT
  env : TimerFnE setT
  tr : ∀ s, Inv s → s.now = N → s.env = E → Tr i r0 r1 s (setT s)

section withTimer
variable (setT : St → St) (hT : TimerFnR i r0 r1 N E setT)
include hT

theorem removeJob_tr (s : St) (j : Nat) (hne : i ≠ j) (hI : Inv { s with queue := s.queue.erase j }) (hn : s.now = N) (he : s.env = E) :
    Tr i r0 r1 s (removeJob setT s j) := by
  have h0 : Tr i r0 r1 s { s with queue := s.queue.erase j } :=
    Tr.of_same (fun h => (List.mem_erase_of_ne hne).2 h) rfl
  rcases removeJob_cases setT s j with e | e <;> rw [e]
  · exact h0.trans (hT.tr _ hI hn he)
  · exact h0

theorem addJob_tr (s : St) (j : Nat) (hI : Inv s) (hj : j ∉ s.queue) (hn : s.now = N) (he : s.env = E) :
    Tr i r0 r1 s (addJob setT s j) := by
  unfold addJob
  split
  · next hr =>
    simp only []
    have h0 : Tr i r0 r1 s { s with queue := insort s.nr j s.queue } :=
      Tr.of_same (fun h => (insort_mem _ j s.queue i).2 (Or.inr h)) rfl
    split
    · exact h0.trans (hT.tr _ (Inv_insorted j hI hj hr) hn he)
    · exact h0
  · exact Tr.refl s

theorem jobFinish_tr (s : St) (j : Nat) (hne : i ≠ j) (hI : Inv s) (hn : s.now = N) (he : s.env = E) :
    Tr i r0 r1 s (jobFinish setT s j).1 := by
  by_cases hf : (s.job j).status = .finished
  · unfold jobFinish; rw [if_pos hf]; exact Tr.refl s
  · obtain ⟨_, hq, _⟩ := jobFinish_tail setT s j hf
    refine (removeJob_tr setT hT s j hne (Inv_erased j hI) hn he).trans (Tr.of_same (fun h => by rw [hq]; exact h) ?_)
    unfold jobFinish
    rw [if_neg hf]
    simp only []
    obtain ⟨_, q2, _⟩ := runCbs_frame true j ((removeJob setT s j).job j).onFinished
      (if ((removeJob setT s j).job j).inStore then
        { ((removeJob setT s j).setJob j
          { (removeJob setT s j).job j with linked := false, status := .finished, nextRun := none, inStore := false }) with
          store := (((removeJob setT s j).setJob j
          { (removeJob setT s j).job j with linked := false, status := .finished, nextRun := none, inStore := false })).store.filter
            (fun kv => kv.1 ≠ ((removeJob setT s j).job j).key) }
       else ((removeJob setT s j).setJob j
          { (removeJob setT s j).job j with linked := false, status := .finished, nextRun := none, inStore := false }))
    rw [q2]
    split <;> simp [St.setJob, hne]

theorem updateNext_tr (s : St) (j : Nat) (hne : i ≠ j) (hI : Inv s) (hn : s.now = N) (he : s.env = E) :
    Tr i r0 r1 s (updateNext setT s j).1 := by
  unfold updateNext
  simp only []
  split
  · exact jobFinish_tr setT hT s j hne hI hn he
  · exact setNextRun_tr s j none hne
  · split
    · exact Tr.refl s
    · split
      · exact setJob_tr s j _ hne
      · split
        · exact setJob_tr s j _ hne
        · exact (setJob_tr s j _ hne).trans (setNextRun_tr _ j _ hne)

theorem execute_tr (s : St) (j : Nat) (due : Int) (hne : i ≠ j) (hI : Inv s) (hj : j ∉ s.queue) (hdue : due ≤ s.now)
    (hn : s.now = N) (he : s.env = E) : Tr i r0 r1 s (execute setT s j due) := by
  unfold execute
  simp only []
  generalize hs0 : (if (s.job j).execFail.contains (s.job j).execs = true then
      (((s.emit (Ev.exec j s.now due)).setJob j { s.job j with execs := (s.job j).execs + 1, lastRun := some s.now })).emit (Ev.exc "CallableError")
    else ((s.emit (Ev.exec j s.now due)).setJob j { s.job j with execs := (s.job j).execs + 1, lastRun := some s.now })) = s0
  have hb : JobOK ({ s.job j with execs := (s.job j).execs + 1, lastRun := some s.now } : Job) := hI.st j
  have hA : Inv ((s.emit (Ev.exec j s.now due)).setJob j { s.job j with execs := (s.job j).execs + 1, lastRun := some s.now }) :=
    (InvEx_setJob _ ((Inv_emit _ hI (by simpa [evOK] using hdue)).toEx j) hb).toInv hj
  have h0 : Tr i r0 r1 s s0 ∧ Inv s0 ∧ s0.now = N ∧ s0.env = E := by
    subst hs0
    split
    · exact ⟨Tr.of_same id (by simp [St.emit, St.setJob, hne]), Inv_emit _ hA (by simp [evOK]), hn, he⟩
    · exact ⟨Tr.of_same id (by simp [St.emit, St.setJob, hne]), hA, hn, he⟩
  obtain ⟨t0, i0, n0, e0⟩ := h0
  have t1 := updateNext_tr setT hT s0 j hne i0 n0 e0
  split
  · next s' heq =>
    have : s' = (updateNext setT s0 j).1 := by rw [heq]
    subst this
    exact t0.trans t1
  · next s' e heq =>
    have : s' = (updateNext setT s0 j).1 := by rw [heq]
    subst this
    have t2 : Tr i r0 r1 (updateNext setT s0 j).1 ((updateNext setT s0 j).1.emit (Ev.exc e.name)) := Tr.of_same id rfl
    split
    · exact ((t0.trans t1).trans t2).trans (setNextRun_tr _ j none hne)
    · exact (t0.trans t1).trans t2

end withTimer
end track


/-- the record of a recurring job after an execution at instant `now` whose reschedule gave `n` -/
def nextRecord (r0 : Job) (p : Producer) (now n : Int) : Job :=
  { r0 with execs := r0.execs + 1, kind := .recurring (p.anchorAt now), calls := r0.calls + 1,
            nextRun := some n, status := .running, lastRun := some now }

theorem preExec_job (s : St) (j : Nat) (due : Int) :
    (preExec s j due).jobs j = { s.jobs j with execs := (s.jobs j).execs + 1, lastRun := some s.now } ∧ (preExec s j due).now = s.now ∧
    (preExec s j due).env = s.env := by
  unfold preExec
  simp only []
  split <;> simp [St.setJob, St.emit, St.job]

/-- `job.execute()` of a healthy recurring job: the new record -/
theorem execute_recurring_ok (setT : St → St) (s : St) (j : Nat) (due : Int) (p : Producer) (n : Int)
    (hk : (s.jobs j).kind = .recurring p) (hl : (s.jobs j).linked = true)
    (hf : ¬ ((s.jobs j).calls ∈ (s.jobs j).trigFail ∨ (s.jobs j).trigFailFrom ≤ (s.jobs j).calls))
    (hg : getNext s.env (p.anchorAt s.now) s.now = .ok n) :
    (execute setT s j due).jobs j = nextRecord (s.jobs j) p s.now n := by
  obtain ⟨hj0, hn0, he0⟩ := preExec_job s j due
  have hgt : n > s.now := C04.getNext_gt s.env _ _ _ hg
  rw [execute_eq]
  generalize preExec s j due = s0 at hj0 hn0 he0
  have hk0 : (s0.job j).kind = .recurring p := by show (s0.jobs j).kind = _; rw [hj0]; exact hk
  have hl0 : (s0.job j).linked = true := by show (s0.jobs j).linked = _; rw [hj0]; exact hl
  have hf0 : ¬ ((s0.job j).calls ∈ (s0.job j).trigFail ∨ (s0.job j).trigFailFrom ≤ (s0.job j).calls) := by
    show ¬ ((s0.jobs j).calls ∈ (s0.jobs j).trigFail ∨ (s0.jobs j).trigFailFrom ≤ (s0.jobs j).calls)
    rw [hj0]; exact hf
  have hg0 : getNext s0.env (p.anchorAt s0.now) s0.now = .ok n := by rw [he0, hn0]; exact hg
  have a : updateNext setT s0 j =
      setNextRun (s0.setJob j { s0.job j with kind := .recurring (p.anchorAt s0.now), calls := (s0.job j).calls + 1 }) j (some n) := by
    unfold updateNext; simp [hk0, hl0, hf0, hg0]
  have hok : ¬ n < (s0.setJob j { s0.job j with kind := .recurring (p.anchorAt s0.now), calls := (s0.job j).calls + 1 }).now
      - PAST_TOLERANCE := by
    have := past_tolerance_pos
    show ¬ n < s0.now - PAST_TOLERANCE
    omega
  rw [a, setNextRun_some_ge _ j n hok]
  show (runCbs false j _ _).jobs j = _
  obtain ⟨_, q2, _⟩ := runCbs_frame false j
    ((s0.setJob j { s0.job j with kind := .recurring (p.anchorAt s0.now), calls := (s0.job j).calls + 1 }).job j).onUpdate
    ((s0.setJob j { s0.job j with kind := .recurring (p.anchorAt s0.now), calls := (s0.job j).calls + 1 }).setJob j
      { (s0.setJob j { s0.job j with kind := .recurring (p.anchorAt s0.now), calls := (s0.job j).calls + 1 }).job j with
        nextRun := some n, status := .running })
  rw [q2]
  simp [St.setJob, St.job, nextRecord, hj0, hn0]


section round
variable (i : Nat) (r0 : Job) (p : Producer) (N n t0 : Int) (E : Env)
variable (hk : r0.kind = .recurring p) (hl : r0.linked = true)
  (hf : ¬ (r0.calls ∈ r0.trigFail ∨ r0.trigFailFrom ≤ r0.calls))
  (hnr : r0.nextRun = some t0) (hg : getNext E (p.anchorAt N) N = .ok n)

def RSpec (f : Nat) : Prop :=
  ∀ s, Inv s → s.now = N → s.env = E → Tr i r0 (nextRecord r0 p N n) s (runLoop f s)

include hk hl hf hnr hg

theorem setTimer_tr_of (fuel : Nat) (hrun : ∀ f, f < fuel → RSpec i r0 p N n E f) :
    ∀ s, Inv s → s.now = N → s.env = E → Tr i r0 (nextRecord r0 p N n) s (setTimer fuel s) := by
  intro s hI hn he
  have k0 : Tr i r0 (nextRecord r0 p N n) s { s with timer := none } := Tr.of_same id rfl
  unfold setTimer
  simp only []
  split
  · exact k0
  · split
    · exact k0
    · split
      · exact Tr.of_same id rfl
      · split
        · split
          · exact Tr.of_same id rfl
          · next f => exact k0.trans (hrun f (by omega) _ (Inv_timer_none hI) hn he)
        · exact Tr.of_same id rfl

theorem rSpec (fuel : Nat) : RSpec i r0 p N n E fuel := by
  have hgt : n > N := C04.getNext_gt E _ _ _ hg
  induction fuel using Nat.strongRecOn with
  | _ fuel ih =>
    intro s h hn he
    have hst : ∀ f, f ≤ fuel → TimerFnR i r0 (nextRecord r0 p N n) N E (setTimer f) :=
      fun f hf' => ⟨timerFn2_setTimer f, timerFnE_setTimer f,
        setTimer_tr_of i r0 p N n t0 E hk hl hf hnr hg f (fun f' hf'' => ih f' (by omega))⟩
    unfold runLoop
    split
    · exact Tr.refl s
    · next hd rest hq =>
      split
      · exact Tr.of_same id rfl
      · next nr hnr' =>
        split
        · exact (hst fuel (Nat.le_refl _)).tr s h hn he
        · next hle =>
          split
          · exact Tr.of_same id rfl
          · next f =>
            have hTR := hst f (by omega)
            have hT2 := hTR.base
            have hT := hT2.base
            have hnd : hd ∉ rest := by
              have := h.q.nodup; rw [hq] at this; exact (List.nodup_cons.1 this).1
            have h1 : Inv { s with queue := rest } := by
              refine ⟨⟨?_, ?_, ?_⟩, h.st, h.log⟩
              · intro i hi; exact h.q.run i (by rw [hq]; simp [hi])
              · have := h.q.nodup; rw [hq] at this; exact (List.nodup_cons.1 this).2
              · have := h.q.sorted; rw [hq] at this; exact (List.pairwise_cons.1 this).2
            have hdue : nr ≤ ({ s with queue := rest } : St).now := by
              show nr ≤ s.now
              omega
            obtain ⟨e1, e2⟩ := execute_spec (setTimer f) hT hd nr h1 (by simpa using hnd) hdue
            obtain ⟨c1, _, _⟩ := execute_frame (setTimer f) hT2 { s with queue := rest } hd nr h1 (by simpa using hnd) hdue
            have hd2 : hd ∉ (execute (setTimer f) { s with queue := rest } hd nr).queue :=
              fun hm => hnd (e2 hd hm)
            have a1 := Inv_addJob (setTimer f) hT hd e1 hd2
            have c2 := addJob_clock (setTimer f) hT2 _ hd e1 hd2
            have n2 : (execute (setTimer f) { s with queue := rest } hd nr).now = N := by rw [c1.now]; exact hn
            have n3 : (addJob (setTimer f) (execute (setTimer f) { s with queue := rest } hd nr) hd).now = N := by
              rw [c2.now]; exact n2
            have ee2 : (execute (setTimer f) { s with queue := rest } hd nr).env = E := by
              rw [execute_env _ hTR.env]; exact he
            have ee3 : (addJob (setTimer f) (execute (setTimer f) { s with queue := rest } hd nr) hd).env = E := by
              rw [addJob_env _ hTR.env]; exact ee2
            have t3 := ih f (by omega) _ a1 n3 ee3
            by_cases hi : i = hd
            · -- the job itself is the head
              subst hi
              refine ⟨fun hat => ?_, fun hat => ?_⟩
              · right
                -- executed: the record is the new one, and it is queued again
                have hj0 : ({ s with queue := rest } : St).jobs i = r0 := hat.2
                have hrec : (execute (setTimer f) { s with queue := rest } i nr).jobs i = nextRecord r0 p N n := by
                  have := execute_recurring_ok (setTimer f) { s with queue := rest } i nr p n
                    (by rw [hj0]; exact hk) (by rw [hj0]; exact hl) (by rw [hj0]; exact hf)
                    (by show getNext s.env (p.anchorAt s.now) s.now = .ok n; rw [he, hn]; exact hg)
                  rw [this, hj0]
                  show nextRecord r0 p s.now n = nextRecord r0 p N n
                  rw [hn]
                have hrun : ((execute (setTimer f) { s with queue := rest } i nr).job i).status = .running := by
                  show ((execute (setTimer f) { s with queue := rest } i nr).jobs i).status = .running
                  rw [hrec]; rfl
                -- `add_job` puts it back
                have hadd : At i (nextRecord r0 p N n)
                    (addJob (setTimer f) (execute (setTimer f) { s with queue := rest } i nr) i) := by
                  unfold addJob
                  rw [if_pos hrun]
                  simp only []
                  have hin : At i (nextRecord r0 p N n)
                      { (execute (setTimer f) { s with queue := rest } i nr) with
                        queue := insort (execute (setTimer f) { s with queue := rest } i nr).nr i
                          (execute (setTimer f) { s with queue := rest } i nr).queue } :=
                    ⟨(insort_mem _ i _ i).2 (Or.inl rfl), hrec⟩
                  split
                  · exact (hTR.tr _ (Inv_insorted i e1 hd2 hrun) n2 ee2).2 hin
                  · exact hin
                exact t3.2 hadd
              · -- it already has the new record, which is not due: impossible as head of a due queue
                exfalso
                have : s.nr i = some n := by
                  show (s.jobs i).nextRun = some n
                  rw [hat.2]; rfl
                rw [this] at hnr'; cases hnr'
                omega
            · have k0 : Tr i r0 (nextRecord r0 p N n) s { s with queue := rest } :=
                Tr.of_same (fun hm => by
                  rw [hq] at hm
                  rcases List.mem_cons.1 hm with e | hr
                  · exact absurd e hi
                  · exact hr) rfl
              have t1 := execute_tr (setTimer f) hTR { s with queue := rest } hd nr hi h1 (by simpa using hnd) hdue hn he
              have t2 := addJob_tr (setTimer f) hTR _ hd e1 hd2 n2 ee2
              exact ((k0.trans t1).trans t2).trans t3

end round

end Ea
