import EaModel.Lemmas.DstYear
/-!
# A regular zone-year: the hypotheses of the all-year theorem of C20 are satisfiable

`zEU70` has the shape of Europe/Berlin: +1 h, +2 h from 1970-03-29 01:00 UTC, +1 h again from 1970-10-25 01:00 UTC.
`YearRegular zEU70 1970 InYear70` is proved here: the two analytic clauses from an exact description of `validity`
in this zone (`zEU70_validity`), the two clauses about the scan of `_iter_date` by kernel evaluation of the scan
(`decide +kernel`, no axioms) over all 12 months × all 365 local dates.
-/
namespace Ea

def zEU70 : Zone := { init := NS_PER_HOUR, trans := [(7516800 * NS_PER_S + 3600 * NS_PER_S, 2 * NS_PER_HOUR),
                                                     (25660800 * NS_PER_S + 3600 * NS_PER_S, NS_PER_HOUR)] }

/-- the local dates of 1970 as day numbers -/
def InYear70 (D : Int) : Prop := 0 ≤ D ∧ D < 365

-- gap: local [87 d 02:00, 87 d 03:00); fold: local [297 d 02:00, 297 d 03:00)
def G0 : Int := 87 * NS_PER_DAY + 2 * NS_PER_HOUR
def F0 : Int := 297 * NS_PER_DAY + 2 * NS_PER_HOUR
theorem zEU70_validity (L : Int) : zEU70.validity L =
    if G0 ≤ L ∧ L < G0 + NS_PER_HOUR then .skipped else if F0 ≤ L ∧ L < F0 + NS_PER_HOUR then .repeated else .valid := by
  simp only [Zone.validity, Zone.resolve, zEU70, sols, findGap, GeLo, NS_PER_HOUR, NS_PER_S, NS_PER_DAY, G0, F0]
  have e1 : (True ∧ L - 3600 * 1000000000 < 7516800 * 1000000000 + 3600 * 1000000000) ↔ L < 7524000000000000 := by
    constructor
    · intro h; omega
    · intro h; exact ⟨trivial, by omega⟩
  have e2 : (7516800 * 1000000000 + 3600 * 1000000000 ≤ L - 2 * (3600 * 1000000000) ∧
      L - 2 * (3600 * 1000000000) < 25660800 * 1000000000 + 3600 * 1000000000) ↔
      (7527600000000000 ≤ L ∧ L < 25671600000000000) := by
    constructor <;> intro h <;> omega
  have e3 : (25660800 * 1000000000 + 3600 * 1000000000 ≤ L - 3600 * 1000000000) ↔ 25668000000000000 ≤ L := by
    constructor <;> intro h <;> omega
  have e4 : (7516800 * 1000000000 + 3600 * 1000000000 + 3600 * 1000000000 ≤ L ∧
      L < 7516800 * 1000000000 + 3600 * 1000000000 + 2 * (3600 * 1000000000)) ↔
      (7524000000000000 ≤ L ∧ L < 7527600000000000) := by
    constructor <;> intro h <;> omega
  have e5 : (25660800 * 1000000000 + 3600 * 1000000000 + 2 * (3600 * 1000000000) ≤ L ∧
      L < 25660800 * 1000000000 + 3600 * 1000000000 + 3600 * 1000000000) ↔ False := by
    constructor
    · intro h; omega
    · intro h; exact h.elim
  have e6 : (87 * (86400 * 1000000000) + 2 * (3600 * 1000000000) ≤ L ∧
      L < 87 * (86400 * 1000000000) + 2 * (3600 * 1000000000) + 3600 * 1000000000) ↔
      (7524000000000000 ≤ L ∧ L < 7527600000000000) := by
    constructor <;> intro h <;> omega
  have e7 : (297 * (86400 * 1000000000) + 2 * (3600 * 1000000000) ≤ L ∧
      L < 297 * (86400 * 1000000000) + 2 * (3600 * 1000000000) + 3600 * 1000000000) ↔
      (25668000000000000 ≤ L ∧ L < 25671600000000000) := by
    constructor <;> intro h <;> omega
  simp only [e1, e2, e3, e4, e5, e6, e7]
  by_cases h1 : L < 7524000000000000
  · have n2 : ¬ (7527600000000000 ≤ L ∧ L < 25671600000000000) := by omega
    have n3 : ¬ (25668000000000000 ≤ L) := by omega
    have n4 : ¬ (7524000000000000 ≤ L ∧ L < 7527600000000000) := by omega
    have n7 : ¬ (25668000000000000 ≤ L ∧ L < 25671600000000000) := by omega
    simp [h1, n2, n3, n4]
  · by_cases h2 : L < 7527600000000000
    · have p4 : (7524000000000000 ≤ L ∧ L < 7527600000000000) := by omega
      have n2 : ¬ (7527600000000000 ≤ L ∧ L < 25671600000000000) := by omega
      have n3 : ¬ (25668000000000000 ≤ L) := by omega
      simp [h1, n2, n3, p4]
    · by_cases h3 : L < 25668000000000000
      · have p2 : (7527600000000000 ≤ L ∧ L < 25671600000000000) := by omega
        have n3 : ¬ (25668000000000000 ≤ L) := by omega
        have n4 : ¬ (7524000000000000 ≤ L ∧ L < 7527600000000000) := by omega
        have n7 : ¬ (25668000000000000 ≤ L ∧ L < 25671600000000000) := by omega
        simp [h1, p2, n3, n4]
      · by_cases h4 : L < 25671600000000000
        · have p2 : (7527600000000000 ≤ L ∧ L < 25671600000000000) := by omega
          have p3 : (25668000000000000 ≤ L) := by omega
          have n4 : ¬ (7524000000000000 ≤ L ∧ L < 7527600000000000) := by omega
          have p7 : (25668000000000000 ≤ L ∧ L < 25671600000000000) := by omega
          simp [h1, p2, p3, n4]
        · have n2 : ¬ (7527600000000000 ≤ L ∧ L < 25671600000000000) := by omega
          have p3 : (25668000000000000 ≤ L) := by omega
          have n4 : ¬ (7524000000000000 ≤ L ∧ L < 7527600000000000) := by omega
          have n7 : ¬ (25668000000000000 ≤ L ∧ L < 25671600000000000) := by omega
          simp [h1, n2, p3, n4]
          omega

theorem zEU70_skipped_iff (L : Int) : zEU70.validity L = .skipped ↔ G0 ≤ L ∧ L < G0 + NS_PER_HOUR := by
  rw [zEU70_validity]
  by_cases h1 : G0 ≤ L ∧ L < G0 + NS_PER_HOUR
  · simp [h1]
  · by_cases h2 : F0 ≤ L ∧ L < F0 + NS_PER_HOUR <;> simp [h1, h2]

theorem zEU70_repeated_iff (L : Int) : zEU70.validity L = .repeated ↔ F0 ≤ L ∧ L < F0 + NS_PER_HOUR := by
  rw [zEU70_validity]
  by_cases h1 : G0 ≤ L ∧ L < G0 + NS_PER_HOUR
  · have : ¬ (F0 ≤ L ∧ L < F0 + NS_PER_HOUR) := by
      simp only [G0, F0, NS_PER_DAY, NS_PER_HOUR] at *; omega
    simp [h1, this]
  · by_cases h2 : F0 ≤ L ∧ L < F0 + NS_PER_HOUR <;> simp [h1, h2]

set_option maxRecDepth 100000 in
theorem zEU70_scans_in_year : ∀ rev : Bool, ∀ m ∈ dstMonths rev, ∀ u ∈ dstMonthInstants zEU70 1970 m,
    0 ≤ zEU70.localDay u ∧ zEU70.localDay u < 365 := by
  decide +kernel

set_option maxRecDepth 100000 in
theorem zEU70_covers : ∀ rev : Bool, ∀ n : Nat, n < 365 →
    ∃ m ∈ dstMonths rev, ∃ u ∈ dstMonthInstants zEU70 1970 m, zEU70.localDay u = (n : Int) := by
  decide +kernel

/-- the zone-year (zEU70, 1970) is regular -/
theorem zEU70_year_regular : YearRegular zEU70 1970 InYear70 := by
  refine ⟨?_, ?_, ?_, ?_⟩
  · intro D t _ h0 h1 hv
    cases hval : zEU70.validity (D * NS_PER_DAY + t) with
    | valid => exact absurd hval hv
    | skipped =>
      have := (zEU70_skipped_iff _).1 hval
      apply (zEU70_skipped_iff _).2
      simp only [G0, HALF, NS_PER_DAY, NS_PER_HOUR, NS_PER_MIN] at *
      omega
    | repeated =>
      have := (zEU70_repeated_iff _).1 hval
      apply (zEU70_repeated_iff _).2
      simp only [F0, HALF, NS_PER_DAY, NS_PER_HOUR, NS_PER_MIN] at *
      omega
  · intro D D' t t' _ _ h0 h1 h0' h1' hv heq
    cases hval : zEU70.validity (D * NS_PER_DAY + t) with
    | valid => exact absurd hval hv
    | skipped =>
      rw [hval] at heq
      have a := (zEU70_skipped_iff _).1 hval
      have b := (zEU70_skipped_iff _).1 heq
      simp only [G0, NS_PER_DAY, NS_PER_HOUR] at *
      omega
    | repeated =>
      rw [hval] at heq
      have a := (zEU70_repeated_iff _).1 hval
      have b := (zEU70_repeated_iff _).1 heq
      simp only [F0, NS_PER_DAY, NS_PER_HOUR] at *
      omega
  · intro rev D hD
    obtain ⟨m, hm, u, hu, e⟩ := zEU70_covers rev D.toNat (by unfold InYear70 at hD; omega)
    refine ⟨m, hm, u, hu, ?_⟩
    rw [e]; unfold InYear70 at hD; omega
  · intro rev m hm u hu
    exact zEU70_scans_in_year rev m hm u hu

end Ea
