import EaModel.Basic
/-!
# Proleptic Gregorian calendar on day numbers (days since 1970-01-01)

`civilFromDays` / `daysFromCivil` follow the well known era based algorithms; all divisions are
Euclidean (`Int./`, `Int.%`), the divisors are positive.
-/
namespace Ea

structure YMD where
  y : Int
  m : Int
  d : Int
deriving Repr, DecidableEq

def daysFromCivil (y m d : Int) : Int :=
  let y := if m ≤ 2 then y - 1 else y
  let era := y / 400
  let yoe := y - era * 400
  let mp := if m > 2 then m - 3 else m + 9
  let doy := (153 * mp + 2) / 5 + d - 1
  let doe := yoe * 365 + yoe / 4 - yoe / 100 + doy
  era * 146097 + doe - 719468

def civilFromDays (z : Int) : YMD :=
  let z := z + 719468
  let era := z / 146097
  let doe := z - era * 146097
  let yoe := (doe - doe / 1460 + doe / 36524 - doe / 146096) / 365
  let y := yoe + era * 400
  let doy := doe - (365 * yoe + yoe / 4 - yoe / 100)
  let mp := (5 * doy + 2) / 153
  let d := doy - (153 * mp + 2) / 5 + 1
  let m := if mp < 10 then mp + 3 else mp - 9
  { y := if m ≤ 2 then y + 1 else y, m := m, d := d }

/-- ISO weekday 1 = Monday … 7 = Sunday (1970-01-01 was a Thursday) -/
def isoWeekday (z : Int) : Int := (z + 3) % 7 + 1

/-- day number of a local (or UTC) nanosecond count -/
def dayOf (l : Int) : Int := l / NS_PER_DAY
/-- nanosecond of the day of a local (or UTC) nanosecond count -/
def todOf (l : Int) : Int := l % NS_PER_DAY

end Ea
