import EaModel.Lemmas.Least
import EaModel.Lemmas.Regular
import EaModel.Generated
/-!
# C05 — earliest admissible occurrence: no missed run, filters honoured

For time-of-day, interval and group triggers with any combination of member-level and group-level filters
(any nesting of groups), `getNext` returns the least element of the trigger's admissible occurrence set
after the reference instant. Occurrence sets are defined declaratively (`Adm`):
* time of day: the candidates the DST policy yields for any local date, admitted by the filter;
* interval: the grid `start + m·interval` for every integer `m`, admitted by the filter;
* group: the union of the members' admissible occurrences, admitted by the group filter.

The zone enters through `TimeRegular` (candidates of successive local dates increase). That hypothesis is
*proved* here for every sorted transition table whose UTC offsets stay within a window of less than
`24 h − 121 min` (`getNext_least_narrow`, `Lemmas/Regular.lean`; the side condition `Zone.narrowB` is executable
and evaluated by the driver for the table of every case), and it is false for a table that skips a whole local
day (`dateline_zone_not_regular`). For the remaining tables the harness evaluates the hypothesis for every zone /
time / policy it generates.
-/
namespace Ea.C05

mutual
/-- the admissible occurrence set of a trigger of the time / interval / group fragment -/
def Adm (env : Env) : Producer → Int → Prop
  | .time r f, t => TimeAdm env r f t
  | .interval (some a) step f, t => IntervalAdm env a step f t
  | .group ps f, t => AdmAny env ps t ∧ env.allows f t = true
  | _, _ => False
def AdmAny (env : Env) : List Producer → Int → Prop
  | [], _ => False
  | p :: ps, t => Adm env p t ∨ AdmAny env ps t
end

mutual
/-- the trigger belongs to the fragment and every time-of-day node sees a regular zone -/
def InFragment (env : Env) : Producer → Prop
  | .time r _ => TimeRegular env.zone r
  | .interval (some _) _ _ => True
  | .group ps _ => AllInFragment env ps
  | _ => False
def AllInFragment (env : Env) : List Producer → Prop
  | [] => True
  | p :: ps => InFragment env p ∧ AllInFragment env ps
end

theorem admAny_iff (env : Env) (ps : List Producer) (t : Int) :
    AdmAny env ps t ↔ ∃ p ∈ ps, Adm env p t := by
  induction ps with
  | nil => simp [AdmAny]
  | cons p ps ih => simp [AdmAny, ih]

mutual
/-- **C05**: a rejected occurrence is never returned and an earlier admissible occurrence is never skipped -/
theorem getNext_least (env : Env) : ∀ (p : Producer), InFragment env p → ∀ dt r,
    getNext env p dt = .ok r → LeastAfter (Adm env p) dt r
  | .time tr f, hf => fun dt r h => by
      unfold getNext at h
      simp only [InFragment] at hf
      simpa [Adm] using timeNext_least env tr f dt r hf h
  | .interval (some a) step f, _ => fun dt r h => by
      unfold getNext at h
      simpa [Adm] using intervalNext_least env a step f dt r h
  | .interval none step f, hf => by simp [InFragment] at hf
  | .group ps f, hf => fun dt r h => by
      simp only [InFragment] at hf
      have := groupNext_least env ps f (Adm env) (getNext_least_list env ps hf) dt r h
      obtain ⟨⟨h1, h1'⟩, h2, h3⟩ := this
      refine ⟨?_, h2, ?_⟩
      · simp only [Adm]; exact ⟨(admAny_iff env ps r).2 h1, h1'⟩
      · intro t ht
        simp only [Adm] at ht
        exact h3 t ⟨(admAny_iff env ps t).1 ht.1, ht.2⟩
  | .offset _ _ _, hf => by simp [InFragment] at hf
  | .earliest _ _ _, hf => by simp [InFragment] at hf
  | .latest _ _ _, hf => by simp [InFragment] at hf
  | .jitter _ _ _ _, hf => by simp [InFragment] at hf
  | .sun _ _, hf => by simp [InFragment] at hf
theorem getNext_least_list (env : Env) : ∀ (ps : List Producer), AllInFragment env ps →
    ∀ p ∈ ps, ∀ c v, getNext env p c = .ok v → LeastAfter (Adm env p) c v
  | [], _ => fun p hp => by cases hp
  | q :: qs, hf => fun p hp c v h => by
      simp only [AllInFragment] at hf
      have hq := getNext_least env q hf.1
      have hqs := getNext_least_list env qs hf.2
      cases List.mem_cons.1 hp with
      | inl e => subst e; exact hq c v h
      | inr hp' => exact hqs p hp' c v h
end

/-- the filter of every node is honoured: an admissible occurrence of a filtered trigger passes the filter -/
theorem result_passes_filter (env : Env) (ps : List Producer) (f : Option Filter) (dt r : Int)
    (hf : InFragment env (.group ps f)) (h : getNext env (.group ps f) dt = .ok r) :
    env.allows f r = true := by
  have := (getNext_least env _ hf dt r h).1
  simp only [Adm] at this
  exact this.2

-- non-vacuity (executable checks), finding F1 of DESIGN.md: hourly interval + 12:00, group filter "not before 10:30"
-- from 09:30 the earliest admissible occurrence is 11:00 (the pinned code returned 12:00)
#guard okVal (getNext {} (.group [.interval (some 0) (3600 * NS_PER_S) none,
      .time { tod := 12 * NS_PER_HOUR } none] (some (.time (some (10 * NS_PER_HOUR + 30 * NS_PER_MIN)) none)))
    (9 * NS_PER_HOUR + 30 * NS_PER_MIN)) == some (11 * NS_PER_HOUR)
-- UTC is a regular zone for every wall clock time (spot check of the hypothesis on 400 dates)
#guard (List.range 400).all fun d => candsOf {} { tod := 5 } d == [(d : Int) * NS_PER_DAY + 5]


/-! ### the regularity hypothesis is satisfiable: zones without clock changes -/

/-- in a zone with a fixed UTC offset (UTC itself, Asia/Kolkata, ...) every time of day is regular -/
theorem timeRegular_fixed_offset (o : Int) (r : TimeRep) (h0 : 0 ≤ r.tod) (h1 : r.tod < NS_PER_DAY) :
    TimeRegular { init := o, trans := [] } r := by
  have hc : ∀ d, candsOf { init := o, trans := [] } r d = [d * NS_PER_DAY + r.tod - o] := by
    intro d
    simp [candsOf, TimeRep.replace, Zone.resolve, sols, GeLo]
  refine ⟨?_, ?_, ?_⟩
  · intro d d' c c' hd hcm hcm'
    rw [hc] at hcm hcm'
    simp at hcm hcm'
    subst hcm hcm'
    have : d * NS_PER_DAY < d' * NS_PER_DAY := by
      apply Int.mul_lt_mul_of_pos_right hd
      decide
    omega
  · intro d; rw [hc]; simp
  · intro d c u hcm hu
    rw [hc] at hcm
    simp at hcm
    subst hcm
    have hu' : d + 2 ≤ (u + o) / NS_PER_DAY := by
      simpa [Zone.localDay, Zone.toLocal, Zone.offsetAt, offAt, dayOf] using hu
    simp only [NS_PER_DAY] at *
    omega

/-- hence, with a fixed UTC offset, the earliest-admissible-occurrence theorem holds for every time-of-day trigger
without any hypothesis about the zone -/
theorem time_least_fixed_offset (env : Env) (o : Int) (hz : env.zone = { init := o, trans := [] }) (r : TimeRep)
    (f : Option Filter) (h0 : 0 ≤ r.tod) (h1 : r.tod < NS_PER_DAY) (dt x : Int)
    (h : getNext env (.time r f) dt = .ok x) : LeastAfter (Adm env (.time r f)) dt x :=
  getNext_least env (.time r f) (by simp only [InFragment]; rw [hz]; exact timeRegular_fixed_offset o r h0 h1) dt x h

/-! ### the regularity hypothesis proved from the transition table -/

mutual
/-- the syntactic fragment of C05: time of day (a time within the day) / interval with a start / groups of them -/
def Wf : Producer → Prop
  | .time r _ => 0 ≤ r.tod ∧ r.tod < NS_PER_DAY
  | .interval (some _) _ _ => True
  | .group ps _ => AllWf ps
  | _ => False
def AllWf : List Producer → Prop
  | [] => True
  | p :: ps => Wf p ∧ AllWf ps
end

mutual
theorem inFragment_of_narrow (env : Env) (hz : env.zone.narrowB = true) : ∀ p : Producer, Wf p → InFragment env p
  | .time r _, h => by
      simp only [Wf] at h; simp only [InFragment]
      exact timeRegular_of_narrowB env.zone hz r h.1 h.2
  | .interval (some _) _ _, _ => by simp [InFragment]
  | .interval none _ _, h => by simp [Wf] at h
  | .group ps _, h => by
      simp only [Wf] at h; simp only [InFragment]
      exact allInFragment_of_narrow env hz ps h
  | .offset _ _ _, h => by simp [Wf] at h
  | .earliest _ _ _, h => by simp [Wf] at h
  | .latest _ _ _, h => by simp [Wf] at h
  | .jitter _ _ _ _, h => by simp [Wf] at h
  | .sun _ _, h => by simp [Wf] at h
theorem allInFragment_of_narrow (env : Env) (hz : env.zone.narrowB = true) :
    ∀ ps : List Producer, AllWf ps → AllInFragment env ps
  | [], _ => by simp [AllInFragment]
  | p :: ps, h => by
      simp only [AllWf] at h; simp only [AllInFragment]
      exact ⟨inFragment_of_narrow env hz p h.1, allInFragment_of_narrow env hz ps h.2⟩
end

/-- **C05 without a hypothesis about dates**: in every zone whose transition table is sorted and whose UTC
offsets span less than `24 h − 121 min` (`Zone.narrowB`, an executable test of the table) the computed next
occurrence of any time / interval / group trigger, filters at every level, is the least admissible occurrence
after the reference instant -/
theorem getNext_least_narrow (env : Env) (hz : env.zone.narrowB = true) (p : Producer) (hp : Wf p) (dt r : Int)
    (h : getNext env p dt = .ok r) : LeastAfter (Adm env p) dt r :=
  getNext_least env p (inFragment_of_narrow env hz p hp) dt r h

/-- a table with the shape of Europe/Berlin (+1 h / +2 h, two changes) passes the executable test … -/
def zNarrow : Zone := { init := 1 * NS_PER_HOUR, trans := [(1000 * NS_PER_HOUR, 2 * NS_PER_HOUR), (5000 * NS_PER_HOUR, 1 * NS_PER_HOUR)] }
example : zNarrow.narrowB = true := by decide
/-- … a table that jumps across the date line (−10 h → +14 h, Pacific/Apia 2011) does not … -/
def zDateline : Zone := { init := -10 * NS_PER_HOUR, trans := [(10 * NS_PER_HOUR, 14 * NS_PER_HOUR)] }
example : zDateline.narrowB = false := by decide
/-- … and there the hypothesis is indeed false: the skipped local day 0 (policy `later`) and day 1 share one candidate -/
theorem dateline_zone_not_regular :
    ¬ TimeRegular zDateline { tod := 12 * NS_PER_HOUR, skipped := .later } := by
  intro h
  have := h.mono 0 1 (22 * NS_PER_HOUR) (22 * NS_PER_HOUR) (by decide) (by decide) (by decide)
  exact absurd this (by decide)

end Ea.C05
