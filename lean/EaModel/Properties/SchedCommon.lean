import EaModel.Lemmas.Sched
/-!
# Shared definitions of the scheduler property files: histories and reachable states
-/
namespace Ea

/-- the state after a finite history of public operations -/
def runOps (s : St) (ops : List Op) : St := ops.foldl (fun s op => (step s op).1) s

/-- a fresh scheduler at instant `now` in environment `env` -/
def initSt (env : Env) (now : Int) (enabled : Bool := true) : St := { now := now, env := env, enabled := enabled }

theorem inv_init (env : Env) (now : Int) (en : Bool) : Inv (initSt env now en) := by
  refine ⟨⟨?_, ?_, ?_⟩, ?_, ?_⟩
  · intro i hi; cases hi
  · exact List.nodup_nil
  · exact List.Pairwise.nil
  · intro j; simp [initSt, JobOK]
  · intro e he; cases he

theorem runOps_inv (s : St) (ops : List Op) (h : Inv s) : Inv (runOps s ops) := by
  induction ops generalizing s with
  | nil => exact h
  | cons op ops ih => exact ih _ (step_inv s op h)

/-- every state that any finite history of operations can reach satisfies the invariant -/
theorem inv_reachable (env : Env) (now : Int) (en : Bool) (ops : List Op) :
    Inv (runOps (initSt env now en) ops) :=
  runOps_inv _ ops (inv_init env now en)

end Ea
