import EaModel.Lemmas.Sched
/-!
# Shared definitions of the scheduler property files: histories and reachable states
-/
namespace Ea

/-- the state after a finite history of public operations -/
def runOps (s : St) (ops : List Op) : St := ops.foldl (fun s op => (step s op).1) s

/-- a fresh scheduler at instant `now` in environment `env` -/
def initSt (env : Env) (now : Int) (enabled : Bool := true) : St := { now := now, env := env, enabled := enabled }

theorem inv_init (env : Env) (now : Int) (en : Bool) : Inv (initSt env now en) := by
  refine ⟨⟨?_, ?_, ?_⟩, ?_, ?_⟩
  · intro i hi; cases hi
  · exact List.nodup_nil
  · exact List.Pairwise.nil
  · intro j; simp [initSt, JobOK]
  · intro e he; cases he

theorem runOps_inv (s : St) (ops : List Op) (h : Inv s) : Inv (runOps s ops) := by
  induction ops generalizing s with
  | nil => exact h
  | cons op ops ih => exact ih _ (step_inv s op h)

/-- every state that any finite history of operations can reach satisfies the invariant -/
theorem inv_reachable (env : Env) (now : Int) (en : Bool) (ops : List Op) :
    Inv (runOps (initSt env now en) ops) :=
  runOps_inv _ ops (inv_init env now en)

/-- the late sleep of the test driver is a history of `advance` and `yield` operations, so every theorem about
histories covers it -/
theorem sleepLate_ops (n : Nat) (target late : Int) (s : St) :
    ∃ ops : List Op, (∀ op ∈ ops, op = .yield ∨ ∃ d, op = .advance d) ∧ sleepLate n target late s = runOps s ops := by
  induction n generalizing s with
  | zero => exact ⟨[], fun _ h => (by cases h), rfl⟩
  | succ n ih =>
    unfold sleepLate
    have last : ∃ ops : List Op, (∀ op ∈ ops, op = .yield ∨ ∃ d, op = .advance d) ∧
        (step (step s (.advance (target - s.now))).1 .yield).1 = runOps s ops :=
      ⟨[.advance (target - s.now), .yield], fun op h => (by
        simp at h; rcases h with rfl | rfl
        · exact Or.inr ⟨_, rfl⟩
        · exact Or.inl rfl), rfl⟩
    split
    · next t _ =>
      split
      · simp only []
        generalize hw : (if (if t > s.now then t else s.now) + late > target then target
          else (if t > s.now then t else s.now) + late) = w
        obtain ⟨ops, h1, h2⟩ := ih (step (step s (.advance (w - s.now))).1 .yield).1
        refine ⟨.advance (w - s.now) :: .yield :: ops, ?_, ?_⟩
        · intro op h
          simp at h
          rcases h with rfl | rfl | h
          · exact Or.inr ⟨_, rfl⟩
          · exact Or.inl rfl
          · exact h1 op h
        · rw [h2]; rfl
      · exact last
    · exact last

end Ea
