import EaModel.Properties.C13
/-!
# C14 — at most one firing per occurrence of the underlying trigger

A job follows a trigger by computing each next occurrence from the previous firing instant:
`dt₀, dt₁ = get_next(dt₀), dt₂ = get_next(dt₁), …`. Every firing of an offset / jitter trigger is attributed to
the occurrence `n` of the underlying trigger it was computed from.

* `offset` (any sign, any size): **proved** — attributed occurrences strictly increase along the chain.
* `jitter` with `low ≥ 0`: **proved** for every draw function — the attributed occurrence is strictly after the
  reference instant, hence strictly after the previously attributed one.
* `jitter` with `low < 0`: **false of the current code** (known finding F5, the behaviour is pinned by
  `test_jitter_shift_forward`): `jitter_negative_double_fires` exhibits two consecutive firings that are
  attributed to the same occurrence. The full statement `C14_full` is therefore not provable; the proved
  part is `C14_partial`.
-/
namespace Ea.C14

/-- offset: two consecutive firings belong to two different, increasing occurrences of the underlying trigger -/
theorem offset_chain_injective (env : Env) (p : Producer) (off : Int) (f : Option Filter) (dt r1 r2 : Int)
    (h1 : getNext env (.offset p off f) dt = .ok r1) (h2 : getNext env (.offset p off f) r1 = .ok r2) :
    ∃ n1 n2, r1 = n1 + off ∧ r2 = n2 + off ∧ n1 < n2 ∧
      (∃ c, getNext env p c = .ok n1) ∧ (∃ c, getNext env p c = .ok n2) := by
  obtain ⟨c1, n1, _, g1, e1, _⟩ := C13.offset_exact env p off f dt r1 h1
  obtain ⟨c2, n2, _, g2, e2, hgt⟩ := C13.offset_exact env p off f r1 r2 h2
  exact ⟨n1, n2, e1, e2, by omega, ⟨c1, g1⟩, ⟨c2, g2⟩⟩

/-- jitter with a non-negative lower bound: the occurrence a firing is attributed to lies strictly after the
reference instant — for every draw function that stays in the requested range -/
theorem jitter_nonneg_attribution (env : Env) (p : Producer) (low high : Int) (f : Option Filter) (dt r : Int)
    (hlow : 0 ≤ low) (h : getNext env (.jitter p low high f) dt = .ok r) :
    ∃ cur n, dt ≤ cur ∧ getNext env p cur = .ok n ∧ dt < n ∧ r = n + env.draw low high n dt := by
  unfold getNext at h
  obtain ⟨cur, n, h1, h2, h3, _, _⟩ :=
    C13.op_result_from_inner env p f dt r (fun n => .ok (jitterApply env low high n dt)) h
  have hn := C04.getNext_gt env p cur n h2
  refine ⟨cur, n, h1, h2, by omega, ?_⟩
  simp [jitterApply, hlow] at h3
  exact h3.symm

/-- **C14 for non-negative jitter**: along a chain the attributed occurrences strictly increase, so no
occurrence fires twice -/
theorem jitter_chain_nonneg (env : Env) (p : Producer) (low high : Int) (f : Option Filter) (dt r1 r2 : Int)
    (hd : C13.DrawInRange env) (hlh : low ≤ high) (hlow : 0 ≤ low)
    (h1 : getNext env (.jitter p low high f) dt = .ok r1) (h2 : getNext env (.jitter p low high f) r1 = .ok r2) :
    ∃ n1 n2, n1 < n2 ∧ n1 + low ≤ r1 ∧ r1 ≤ n1 + high ∧ n2 + low ≤ r2 ∧ r2 ≤ n2 + high := by
  obtain ⟨_, n1, _, _, _, e1⟩ := jitter_nonneg_attribution env p low high f dt r1 hlow h1
  obtain ⟨_, n2, _, _, hgt, e2⟩ := jitter_nonneg_attribution env p low high f r1 r2 hlow h2
  have d1 := hd low high n1 dt hlh
  have d2 := hd low high n2 r1 hlh
  exact ⟨n1, n2, by omega, by omega, by omega, by omega, by omega⟩

/-- the proved part of C14: offsets of any sign and jitter with `low ≥ 0` -/
theorem C14_partial (env : Env) (p : Producer) (f : Option Filter) (dt r1 r2 : Int) :
    (∀ off, getNext env (.offset p off f) dt = .ok r1 → getNext env (.offset p off f) r1 = .ok r2 →
      r1 - off < r2 - off) ∧
    (∀ low high, C13.DrawInRange env → low ≤ high → 0 ≤ low →
      getNext env (.jitter p low high f) dt = .ok r1 → getNext env (.jitter p low high f) r1 = .ok r2 →
      ∃ n1 n2, n1 < n2 ∧ n1 + low ≤ r1 ∧ r1 ≤ n1 + high ∧ n2 + low ≤ r2 ∧ r2 ≤ n2 + high) := by
  constructor
  · intro off h1 h2
    have := C04.getNext_gt env _ _ _ h2
    omega
  · intro low high hd hlh hlow h1 h2
    exact jitter_chain_nonneg env p low high f dt r1 r2 hd hlh hlow h1 h2

/-- the environment of the counterexample: every draw returns the lower end of the requested range -/
def envLow : Env := { draw := fun a _ _ _ => a }

/-- **known finding F5** (negation of the full property, concrete witness in the model): an interval with
period 100 and `jitter(-30, 30)`. From reference 0 the occurrence 100 fires at 70; following from 70 the SAME
occurrence 100 fires again (the window is "shifted forward"), at 70 + ε. -/
theorem jitter_negative_double_fires :
    okVal (getNext envLow (.jitter (.interval (some 0) 100 none) (-30) 30 none) 0) = some 70 ∧
    okVal (getNext envLow (.interval (some 0) 100 none) 70) = some 100 ∧
    okVal (getNext envLow (.jitter (.interval (some 0) 100 none) (-30) 30 none) 70) = some (100 + (-30 + JITTER_EPS)) := by
  decide +kernel

example : C13.DrawInRange envLow := by intro a b n dt h; simp [envLow]; exact h

end Ea.C14
