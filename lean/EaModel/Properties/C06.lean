import EaModel.Lemmas.Least
import EaModel.Lemmas.Regular
import EaModel.Generated
/-!
# C06 — time-of-day triggers honour the wall clock and the DST policy

`Zone.resolve` is proved sound and complete against `toLocal` for every sorted transition table
(`Lemmas/Zone.lean`): *skipped* means no instant shows that wall clock reading, *repeated* means exactly the
instants between the first and the second solution do. On top of that, `TimeRep.replace` implements the
4 × 4 policy table — proved here by cases, not sampled — and `timeNext` visits the candidates in order.
-/
namespace Ea.C06

/-- a wall clock time that exists exactly once on the date: that instant, whatever the policy -/
theorem replace_unique (r : TimeRep) (z : Zone) (hs : z.Sorted) (day u : Int)
    (h : z.resolve (day * NS_PER_DAY + r.tod) = .unique u) :
    r.replace z day = .ok [u] ∧ z.toLocal u = day * NS_PER_DAY + r.tod ∧
      ∀ v, z.toLocal v = day * NS_PER_DAY + r.tod → v = u := by
  obtain ⟨h1, h2⟩ := z.resolve_unique' hs _ u h
  exact ⟨by simp [TimeRep.replace, h], h1, h2⟩

/-- skipped time, policy **skip**: no run for that date -/
theorem replace_gap_skip (r : TimeRep) (z : Zone) (day e l : Int) (hp : r.skipped = .skip)
    (h : z.resolve (day * NS_PER_DAY + r.tod) = .gap e l) : r.replace z day = .ok [] := by
  simp [TimeRep.replace, h, hp]

/-- skipped time, policy **earlier** / **later**: the wall clock time shifted back / forward by exactly the
size of the gap (`after − before`): the instants `L − after` and `L − before` -/
theorem replace_gap_earlier_later (r : TimeRep) (z : Zone) (hs : z.Sorted) (day e l : Int)
    (h : z.resolve (day * NS_PER_DAY + r.tod) = .gap e l) :
    (r.skipped = .earlier → r.replace z day = .ok [e]) ∧ (r.skipped = .later → r.replace z day = .ok [l]) ∧
    (∀ v, z.toLocal v ≠ day * NS_PER_DAY + r.tod) ∧
    ∃ t before after, (t, after) ∈ z.trans ∧ e = day * NS_PER_DAY + r.tod - after ∧
      l = day * NS_PER_DAY + r.tod - before ∧ l - e = after - before ∧ e < t ∧ t ≤ l := by
  obtain ⟨hno, t, b, a, hm, _, _, he, hl, h1, h2⟩ := z.resolve_gap hs _ e l h
  refine ⟨fun hp => by simp [TimeRep.replace, h, hp], fun hp => by simp [TimeRep.replace, h, hp], hno,
          t, b, a, hm, he, hl, by omega, h1, h2⟩

/-- `find_time_after_dst_switch`: the result is the first whole minute after the start minute that is not
skipped; every whole minute before it is skipped -/
theorem findAfter_first (z : Zone) : ∀ (n : Nat) (Lm u : Int), findAfter z n Lm = .ok u →
    ∃ k : Nat, 1 ≤ k ∧ k ≤ n ∧ z.resolve (Lm + k * NS_PER_MIN) = .unique u ∧
      ∀ i : Nat, 1 ≤ i → i < k → ∃ a b, z.resolve (Lm + i * NS_PER_MIN) = .gap a b
  | 0, Lm, u, h => by simp [findAfter] at h
  | n + 1, Lm, u, h => by
    unfold findAfter at h
    simp only [] at h
    split at h
    · next u' hu =>
      simp at h; subst h
      exact ⟨1, by omega, by omega, by simpa using hu, fun i h1 h2 => by omega⟩
    · next a b hg =>
      obtain ⟨k, hk1, hk2, hres, hall⟩ := findAfter_first z n _ u h
      refine ⟨k + 1, by omega, by omega, ?_, ?_⟩
      · have e : Lm + ((k + 1 : Nat) : Int) * NS_PER_MIN = Lm + NS_PER_MIN + (k : Int) * NS_PER_MIN := by
          push_cast; rw [Int.add_mul]; omega
        rw [e]; exact hres
      · intro i hi1 hi2
        cases i with
        | zero => omega
        | succ i =>
          cases i with
          | zero => exact ⟨a, b, by simpa using hg⟩
          | succ i =>
            obtain ⟨a', b', hab⟩ := hall (i + 1) (by omega) (by omega)
            refine ⟨a', b', ?_⟩
            have e : Lm + ((i + 1 + 1 : Nat) : Int) * NS_PER_MIN = Lm + NS_PER_MIN + ((i + 1 : Nat) : Int) * NS_PER_MIN := by
              push_cast; rw [Int.add_mul]; omega
            rw [e]; exact hab
    · simp at h

/-- skipped time, policy **after**: the first whole minute after the gap -/
theorem replace_gap_after (r : TimeRep) (z : Zone) (day e l u : Int) (hp : r.skipped = .after)
    (h : z.resolve (day * NS_PER_DAY + r.tod) = .gap e l) (hr : r.replace z day = .ok [u]) :
    ∃ k : Nat, 1 ≤ k ∧ k ≤ AFTER_TRIES ∧
      z.resolve (day * NS_PER_DAY + (r.tod / NS_PER_MIN) * NS_PER_MIN + k * NS_PER_MIN) = .unique u ∧
      ∀ i : Nat, 1 ≤ i → i < k →
        ∃ a b, z.resolve (day * NS_PER_DAY + (r.tod / NS_PER_MIN) * NS_PER_MIN + i * NS_PER_MIN) = .gap a b := by
  simp only [TimeRep.replace, h, hp] at hr
  split at hr
  · next u' hf =>
    simp at hr; subst hr
    exact findAfter_first z _ _ _ hf
  · simp at hr

/-- repeated time: **skip** – none, **earlier** – the first, **later** – the second, **twice** – both
repetitions, in order; both instants show the configured wall clock time -/
theorem replace_fold (r : TimeRep) (z : Zone) (hs : z.Sorted) (day a b : Int)
    (h : z.resolve (day * NS_PER_DAY + r.tod) = .fold a b) :
    (r.repeated = .skip → r.replace z day = .ok []) ∧ (r.repeated = .earlier → r.replace z day = .ok [a]) ∧
    (r.repeated = .later → r.replace z day = .ok [b]) ∧ (r.repeated = .twice → r.replace z day = .ok [a, b]) ∧
    z.toLocal a = day * NS_PER_DAY + r.tod ∧ z.toLocal b = day * NS_PER_DAY + r.tod ∧ a < b := by
  obtain ⟨h1, h2, h3, _⟩ := z.resolve_fold hs _ a b h
  exact ⟨fun hp => by simp [TimeRep.replace, h, hp], fun hp => by simp [TimeRep.replace, h, hp],
         fun hp => by simp [TimeRep.replace, h, hp], fun hp => by simp [TimeRep.replace, h, hp], h1, h2, h3⟩

/-- the chain `dt ↦ get_next(dt)` visits the candidates of the local dates in increasing order, none skipped,
none twice: each result is the least candidate after the previous one (regular zone) -/
theorem time_once_per_day (env : Env) (r : TimeRep) (dt x : Int) (hreg : TimeRegular env.zone r)
    (h : getNext env (.time r none) dt = .ok x) :
    (∃ d, x ∈ candsOf env.zone r d) ∧ dt < x ∧
    ∀ d c, c ∈ candsOf env.zone r d → dt < c → x ≤ c := by
  unfold getNext at h
  obtain ⟨⟨hx, _⟩, h2, h3⟩ := timeNext_least env r none dt x hreg h
  refine ⟨hx, h2, ?_⟩
  intro d c hc hdt
  exact h3 c ⟨⟨d, hc⟩, by simp [Env.allows, allowOpt]⟩ hdt

/-- the same without a hypothesis about dates, for every sorted table whose offsets span less than `24 h − 121 min` -/
theorem time_once_per_day_narrow (env : Env) (hz : env.zone.narrowB = true) (r : TimeRep) (h0 : 0 ≤ r.tod)
    (h1 : r.tod < NS_PER_DAY) (dt x : Int) (h : getNext env (.time r none) dt = .ok x) :
    (∃ d, x ∈ candsOf env.zone r d) ∧ dt < x ∧ ∀ d c, c ∈ candsOf env.zone r d → dt < c → x ≤ c :=
  time_once_per_day env r dt x (timeRegular_of_narrowB env.zone hz r h0 h1) h

/-- in such a zone the runs of successive local dates are strictly ordered: a date never fires before an earlier one -/
theorem days_in_order_narrow (z : Zone) (hz : z.narrowB = true) (r : TimeRep) (h0 : 0 ≤ r.tod) (h1 : r.tod < NS_PER_DAY)
    (d d' c c' : Int) (hd : d < d') (hc : c ∈ candsOf z r d) (hc' : c' ∈ candsOf z r d') : c < c' :=
  (timeRegular_of_narrowB z hz r h0 h1).mono d d' c c' hd hc hc'

/-- the number of minutes `find_time_after_dst_switch` tries in the code is the one the model uses -/
theorem after_tries_matches : Ea.Gen.afterTries = Ea.AFTER_TRIES := by decide

-- non-vacuity (executable checks) in a zone +1 h → +2 h at t = 1000 h, back at t = 5000 h
def zTest : Zone := { init := 1 * NS_PER_HOUR, trans := [(1000 * NS_PER_HOUR, 2 * NS_PER_HOUR), (5000 * NS_PER_HOUR, 1 * NS_PER_HOUR)] }
-- local 1001:30 is skipped (gap 1001:00–1002:00); day 41 = 984 h; tod = 17:30
#guard zTest.resolve (1001 * NS_PER_HOUR + 30 * NS_PER_MIN) == .gap (999 * NS_PER_HOUR + 30 * NS_PER_MIN) (1000 * NS_PER_HOUR + 30 * NS_PER_MIN)
#guard okVal (({ tod := 17 * NS_PER_HOUR + 30 * NS_PER_MIN, skipped := .after } : TimeRep).replace zTest 41) == some [1000 * NS_PER_HOUR]
-- local 5001:30 is repeated (fold 5001:00–5002:00); day 208 = 4992 h; tod = 09:30
#guard okVal (({ tod := 9 * NS_PER_HOUR + 30 * NS_PER_MIN, repeated := .twice } : TimeRep).replace zTest 208)
  == some [4999 * NS_PER_HOUR + 30 * NS_PER_MIN, 5000 * NS_PER_HOUR + 30 * NS_PER_MIN]

example : zTest.narrowB = true := by decide

end Ea.C06
