import EaModel.Properties.SchedCommon
/-!
# C01 — due jobs are executed on time and never early

Theorems about the scheduler model (`EaModel/Sched.lean`), for every finite history of operations
(`List Op`: creations of the three job kinds with arbitrary triggers, control operations, callback
(de)registrations, enable/disable, arbitrary clock advances with and without the loop running, injected
failures), every environment (zone, jitter draws, ephemeris) and every start instant.
-/
namespace Ea.C01

/-- In every reachable state the queue holds only RUNNING jobs, each at most once, sorted by their
run time, and a job is RUNNING exactly when it reports a run time. -/
theorem queue_invariant (env : Env) (now : Int) (en : Bool) (ops : List Op) :
    let s := runOps (initSt env now en) ops
    (∀ i ∈ s.queue, (s.job i).status = .running) ∧ s.queue.Nodup ∧
    s.queue.Pairwise (fun a b => ¬ ltNR (s.nr b) (s.nr a) = true) ∧
    (∀ j, (s.job j).status = .running ↔ ∃ t, (s.job j).nextRun = some t) := by
  intro s
  have h := inv_reachable env now en ops
  exact ⟨h.q.run, h.q.nodup, h.q.sorted, fun j => (h.st j).1⟩

/-- Never early: every execution recorded in any reachable history happened at an instant `t` that is
not before the run time `due` the job reported when it was taken from the queue
(`due` is `job.next_run` read by `run_jobs` immediately before `job.execute()`). -/
theorem never_early (env : Env) (now : Int) (en : Bool) (ops : List Op) (j : Nat) (t due : Int)
    (h : Ev.exec j t due ∈ (runOps (initSt env now en) ops).log) : due ≤ t :=
  (inv_reachable env now en ops).log _ h

-- non-vacuity (executable check of the model, not a theorem): a history in which a job is executed
#guard ((runOps (initSt {} 0) [.create 1 none (.once 5) [] [], .sleep 10]).log.any
  fun e => match e with | .exec 1 5 5 => true | _ => false)

end Ea.C01
