import EaModel.Properties.SchedCommon
import EaModel.Lemmas.Wake
/-!
# C01 — due jobs are executed on time and never early

Theorems about the scheduler model (`EaModel/Sched.lean`), for every finite history of operations
(`List Op`: creations of the three job kinds with arbitrary triggers, control operations, callback
(de)registrations, enable/disable, arbitrary clock advances with and without the loop running, injected
failures), every environment (zone, jitter draws, ephemeris) and every start instant.
-/
namespace Ea.C01

/-- In every reachable state the queue holds only RUNNING jobs, each at most once, sorted by their
run time, and a job is RUNNING exactly when it reports a run time. -/
theorem queue_invariant (env : Env) (now : Int) (en : Bool) (ops : List Op) :
    let s := runOps (initSt env now en) ops
    (∀ i ∈ s.queue, (s.job i).status = .running) ∧ s.queue.Nodup ∧
    s.queue.Pairwise (fun a b => ¬ ltNR (s.nr b) (s.nr a) = true) ∧
    (∀ j, (s.job j).status = .running ↔ ∃ t, (s.job j).nextRun = some t) := by
  intro s
  have h := inv_reachable env now en ops
  exact ⟨h.q.run, h.q.nodup, h.q.sorted, fun j => (h.st j).1⟩

/-- Never early: every execution recorded in any reachable history happened at an instant `t` that is
not before the run time `due` the job reported when it was taken from the queue
(`due` is `job.next_run` read by `run_jobs` immediately before `job.execute()`). -/
theorem never_early (env : Env) (now : Int) (en : Bool) (ops : List Op) (j : Nat) (t due : Int)
    (h : Ev.exec j t due ∈ (runOps (initSt env now en) ops).log) : due ≤ t :=
  (inv_reachable env now en ops).log _ h

/-- the recursion budget of the model (`OPFUEL` nested wake-ups inside one operation, Python's recursion limit
in the code) ran out somewhere in the history; the theorems below say nothing about such histories -/
def Exhausted (s : St) : Prop := Ev.fatal .recursion ∈ s.log

theorem exhausted_of_hasFatal {s : St} (h : HasFatal s) : Exhausted s := by
  obtain ⟨e, he, hf⟩ := h
  cases e with
  | fatal x => cases x <;> first | exact he | cases hf
  | _ => cases hf

theorem good_reachable (env : Env) (now : Int) (en : Bool) (ops : List Op) :
    Good (runOps (initSt env now en) ops) := by
  suffices h : ∀ s, Inv s → Good s → Good (runOps s ops) from
    h _ (inv_init env now en) (Or.inr (by simp [TimerOK, initSt]))
  induction ops with
  | nil => intro s _ hg; exact hg
  | cons op ops ih => intro s hi hg; exact ih _ (step_inv s op hi) (step_good s op hi hg)

/-- On time, part 1 — the wake-up is requested for the right instant: in every reachable state the loop timer
(`call_at`) is armed exactly when the scheduler is enabled and a job is queued, and then for the run time the
head of the queue (the job with the earliest run time, `queue_invariant`) reports. -/
theorem timer_armed_for_head (env : Env) (now : Int) (en : Bool) (ops : List Op) :
    let s := runOps (initSt env now en) ops
    Exhausted s ∨
    match s.queue with
    | [] => s.timer = none
    | h :: _ => if s.enabled then s.timer = s.nr h ∧ s.nr h ≠ none else s.timer = none := by
  intro s
  exact (good_reachable env now en ops).elim (fun h => Or.inl (exhausted_of_hasFatal h)) Or.inr

/-- On time, part 2 — nothing is left behind by a wake-up: after the loop ran its ready callbacks (`yield`) or
slept (`sleep d`), no queued job of an enabled scheduler is due: every one of them has a run time strictly after
the current instant. Together with `never_early`, `timer_armed_for_head` and the fact that a job leaves the
queue of the loop only by being executed, a job that is due is executed in the wake-up in which it became due. -/
theorem nothing_due_after_wakeup (env : Env) (now : Int) (en : Bool) (ops : List Op) (op : Op)
    (hop : op = .yield ∨ ∃ d, op = .sleep d) :
    let s := runOps (initSt env now en) (ops ++ [op])
    Exhausted s ∨ s.enabled = false ∨ ∀ i ∈ s.queue, ∃ t, s.nr i = some t ∧ s.now < t := by
  intro s
  have hs : s = (step (runOps (initSt env now en) ops) op).1 := by
    show runOps _ (ops ++ [op]) = _
    unfold runOps; rw [List.foldl_append]; rfl
  have hi0 := inv_reachable env now en ops
  have hg0 := good_reachable env now en ops
  have hi : Inv s := inv_reachable env now en (ops ++ [op])
  have hgf : GoodF s := by
    rw [hs]
    rcases hop with rfl | ⟨d, rfl⟩
    · exact fireDue_goodF hi0 hg0
    · exact sleepLoop_goodF _ _ hi0 hg0
  rcases hgf with hf | ⟨hk, hfr⟩
  · exact Or.inl (exhausted_of_hasFatal hf)
  · cases hen : s.enabled with
    | false => exact Or.inr (Or.inl rfl)
    | true => exact Or.inr (Or.inr (queued_after_timer hi hk hfr hen))

/-- On time, part 3 — a wake-up executes everything that is due, now: in every reachable state of an enabled
scheduler, when the loop gets to run its ready callbacks (`yield`), every queued job whose reported run time `t`
has been reached is executed in that wake-up — an `exec i now t` entry is appended to the log by this very
operation — whatever else is queued and whatever the executed jobs, their callbacks and their triggers do
(fail, finish, reschedule, re-arm the timer recursively). -/
theorem due_jobs_executed_in_wakeup (env : Env) (now : Int) (en : Bool) (ops : List Op) (i : Nat) (t : Int) :
    let s := runOps (initSt env now en) ops
    s.enabled = true → i ∈ s.queue → s.nr i = some t → t ≤ s.now →
    let s' := (step s .yield).1
    Exhausted s' ∨ ∃ l, s'.log = l ++ s.log ∧ Ev.exec i s.now t ∈ l := by
  intro s hen hm ht hdue s'
  have hi : Inv s := inv_reachable env now en ops
  have hg : Good s := good_reachable env now en ops
  show Exhausted (fireDue s) ∨ ∃ l, (fireDue s).log = l ++ s.log ∧ Ev.exec i s.now t ∈ l
  rcases hg with hf | hk
  · left
    apply exhausted_of_hasFatal
    unfold fireDue
    split
    · split
      · exact HasFatal_mono hf (runJobs_clock OPFUEL hi).log
      · exact hf
    · exact hf
  · obtain ⟨th, hth, hle⟩ := timer_le_queued hi hk hen hm ht
    have : fireDue s = runJobs OPFUEL s := by
      unfold fireDue
      rw [hth]
      simp only []
      rw [if_pos (by omega : th ≤ s.now)]
    rw [this]
    exact (runJobs_executes_due OPFUEL hi (Or.inr hk) hth hm ht hdue).elim
      (fun h => Or.inl (exhausted_of_hasFatal h)) Or.inr

/-- On time, part 4 — without further delay: while the loop sleeps under the virtual clock (the clock jumps from
timer to timer), every queued job of an enabled scheduler whose run time `t` lies within the sleep is executed
at the instant `t` itself (at once if `t` was already reached), by this sleep. -/
theorem due_jobs_executed_at_their_time (env : Env) (now : Int) (en : Bool) (ops : List Op) (i : Nat) (t d : Int) :
    let s := runOps (initSt env now en) ops
    s.enabled = true → i ∈ s.queue → s.nr i = some t → t ≤ s.now + d →
    let s' := (step s (.sleep d)).1
    Exhausted s' ∨ ∃ l, s'.log = l ++ s.log ∧ Ev.exec i (if t > s.now then t else s.now) t ∈ l := by
  intro s hen hm ht hle s'
  have hi : Inv s := inv_reachable env now en ops
  have hg : Good s := good_reachable env now en ops
  exact (sleepLoop_executes SLEEPFUEL (s.now + d) hi hg hen hm ht hle).elim
    (fun h => Or.inl (exhausted_of_hasFatal h)) Or.inr

/-- On time, part 5 — re-enabling: when a disabled scheduler is switched on, every queued job whose reported run
time has been reached in the meantime is executed by that very call, at the current instant. -/
theorem due_jobs_executed_on_enable (env : Env) (now : Int) (en : Bool) (ops : List Op) (i : Nat) (t : Int) :
    let s := runOps (initSt env now en) ops
    s.enabled = false → i ∈ s.queue → s.nr i = some t → t ≤ s.now →
    let s' := (step s (.enable true)).1
    Exhausted s' ∨ ∃ l, s'.log = l ++ s.log ∧ Ev.exec i s.now t ∈ l := by
  intro s hdis hm ht hdue s'
  have hi : Inv s := inv_reachable env now en ops
  have hT3 := timerFn3_setTimer OPFUEL
  have hI' : Inv { s with enabled := true } := ⟨hi.q, hi.st, hi.log⟩
  have hs' : s' = setTimer OPFUEL { s with enabled := true } := by
    show (step s (.enable true)).1 = _
    unfold step
    simp only []
    rw [if_neg (by rw [hdis]; simp)]
  rw [hs']
  have hc := hT3.base.clock _ hI'
  rcases hT3.base.post _ hI' with hf | ⟨hk, hfr⟩
  · exact Or.inl (exhausted_of_hasFatal hf)
  · rcases hT3.keeps _ hI' i t hm ht with hl | ⟨hm', ht'⟩
    · exact Or.inr hl
    · exfalso
      have hen : (setTimer OPFUEL { s with enabled := true }).enabled = true := by rw [hc.enabled]
      obtain ⟨t', h1, h2⟩ := queued_after_timer (setTimer_inv OPFUEL hI') hk hfr hen i hm'
      rw [ht'] at h1; cases h1
      have : (setTimer OPFUEL { s with enabled := true }).now = s.now := hc.now
      omega

-- non-vacuity (executable check of the model, not a theorem): a history in which a job is executed
#guard ((runOps (initSt {} 0) [.create 1 none (.once 5) [] [], .sleep 10]).log.any
  fun e => match e with | .exec 1 5 5 => true | _ => false)

-- non-vacuity: a reachable state with an armed timer, and a wake-up that leaves a later job queued
#guard (runOps (initSt {} 0) [.create 1 none (.once 5) [] [], .create 2 none (.once 3) [] []]).timer == some 3
#guard (runOps (initSt {} 0) [.create 1 none (.once 5) [] [], .create 2 none (.once 3) [] [], .sleep 4]).queue == [1]
#guard !((runOps (initSt {} 0) [.create 1 none (.once 5) [] [], .create 2 none (.once 3) [] [], .sleep 4]).log.any
  fun e => match e with | .fatal _ => true | _ => false)

#guard ((step (runOps (initSt {} 0) [.create 1 none (.once 5) [] [], .create 2 none (.once 3) [] [], .advance 7]) .yield).1.log.take 2
  |>.all fun e => match e with | .exec _ 7 _ => true | _ => false)

end Ea.C01
