import EaModel.Tasks
import EaModel.Lemmas.StartsOnce
import EaModel.Lemmas.KindFrame
import EaModel.Lemmas.SubmitOrder
import EaModel.Lemmas.SeqProgress
import EaModel.Lemmas.QueueBound
/-!
# C11 — sequential task managers: one at a time, in order, nothing lost

Theorems about the task-manager model for the three sequential managers, for every finite list of harness
operations (submissions from outside, from inside the running task and from a listener the finishing task
wakes — i.e. also in the window between the completion of a task and its done callback; completions,
failures, cancellations), every queue bound and policy and every key assignment.
-/
namespace Ea.C11

def runT (s : TSt) (ops : List TOp) : TSt := ops.foldl tstep s

def IsSeq : MgrKind → Prop
  | .sequential | .limitingSeq _ _ | .dedup => True
  | _ => False

/-- the done callbacks that are scheduled -/
def doneCbs : List Ready → List Nat
  | [] => []
  | .doneCb t :: rest => t :: doneCbs rest
  | _ :: rest => doneCbs rest

theorem doneCbs_append (a b : List Ready) : doneCbs (a ++ b) = doneCbs a ++ doneCbs b := by
  induction a with
  | nil => rfl
  | cons r rest ih => cases r <;> simp [doneCbs, ih]

/-- the invariant of a sequential manager:
* every task whose done callback has not run yet is `self.task` — so there is at most one such task;
* a scheduled done callback belongs to a finished task whose callback has not run, and is scheduled once. -/
structure SeqInv (s : TSt) : Prop where
  seq : IsSeq s.kind
  one : ∀ t, t < s.tasks.length → (s.task t).delivered = false → s.cur = some t
  cbs : ∀ t ∈ doneCbs s.ready, t < s.tasks.length ∧ (s.task t).status = .done ∧ (s.task t).delivered = false
  nodup : (doneCbs s.ready).Nodup
  -- a finished task that was not delivered has its callback scheduled (so `self.task` is released)
  pend : ∀ t, t < s.tasks.length → (s.task t).status = .done → (s.task t).delivered = false → t ∈ doneCbs s.ready
  -- only finished tasks are delivered
  deliv : ∀ t, t < s.tasks.length → (s.task t).delivered = true → (s.task t).status = .done

theorem task_old {s s' : TSt} {x : Task} (h : s'.tasks = s.tasks ++ [x]) {t : Nat} (ht : t < s.tasks.length) :
    s'.task t = s.task t := by
  simp [TSt.task, h, List.getD_eq_getElem?_getD, List.getElem?_append_left ht]

theorem task_new {s s' : TSt} {x : Task} (h : s'.tasks = s.tasks ++ [x]) : s'.task s.tasks.length = x := by
  simp [TSt.task, h, List.getD_eq_getElem?_getD]

theorem task_same {s s' : TSt} (h : s'.tasks = s.tasks) (t : Nat) : s'.task t = s.task t := by
  simp [TSt.task, h]

/-- all tasks delivered and `self.task` empty: the state in which the next coroutine may be started -/
def Idle (s : TSt) : Prop := s.cur = none ∧ ∀ t, t < s.tasks.length → (s.task t).delivered = true

theorem startNext_inv (s : TSt) (c : Nat) (rest : List (Nat × Nat)) (h : SeqInv s) (hi : Idle s) :
    SeqInv (startNext s c rest) := by
  have ht : (startNext s c rest).tasks = s.tasks ++ [{ coro := c }] := rfl
  have hl : (startNext s c rest).tasks.length = s.tasks.length + 1 := by rw [ht]; simp
  have hr : doneCbs (startNext s c rest).ready = doneCbs s.ready := by
    show doneCbs (s.ready ++ [Ready.step s.tasks.length]) = _
    simp [doneCbs_append, doneCbs]
  refine ⟨h.seq, ?_, ?_, by rw [hr]; exact h.nodup, ?_, ?_⟩
  rotate_left 3
  · intro t htl hd
    rw [hl] at htl
    by_cases hlt : t < s.tasks.length
    · rw [task_old ht hlt] at hd ⊢; exact h.deliv t hlt hd
    · have : t = s.tasks.length := by omega
      subst this
      rw [task_new ht] at hd; cases hd
  · intro t htl hd
    rw [hl] at htl
    by_cases hlt : t < s.tasks.length
    · rw [task_old ht hlt, hi.2 t hlt] at hd; cases hd
    · have : t = s.tasks.length := by omega
      subst this; rfl
  · intro t htm
    rw [hr] at htm
    obtain ⟨a, b, c'⟩ := h.cbs t htm
    exact ⟨by rw [hl]; omega, by rw [task_old ht a]; exact b, by rw [task_old ht a]; exact c'⟩
  · intro t htl hst hd
    rw [hl] at htl
    by_cases hlt : t < s.tasks.length
    · rw [task_old ht hlt, hi.2 t hlt] at hd; cases hd
    · have : t = s.tasks.length := by omega
      subst this
      rw [task_new ht] at hst; cases hst

theorem clearCur_frame (s : TSt) (done : Option Nat) :
    (clearCur s done).tasks = s.tasks ∧ (clearCur s done).ready = s.ready ∧ (clearCur s done).kind = s.kind ∧
    (clearCur s done).queue = s.queue := by
  unfold clearCur; split <;> simp

/-- `_task_done` keeps the invariant when, after its first line, no task is pending -/
theorem seqTaskDone_inv (s : TSt) (done : Option Nat) (h : SeqInv s) (hi : Idle (clearCur s done)) :
    SeqInv (seqTaskDone s done) := by
  obtain ⟨f1, f2, f3, f4⟩ := clearCur_frame s done
  have hc : SeqInv (clearCur s done) := by
    refine ⟨by rw [f3]; exact h.seq, ?_, ?_, by rw [f2]; exact h.nodup, ?_, ?_⟩
    · intro t ht hd
      rw [hi.2 t ht] at hd; cases hd
    · intro t htm
      rw [f2] at htm
      obtain ⟨a, b, c⟩ := h.cbs t htm
      exact ⟨by rw [f1]; exact a, by rw [task_same f1]; exact b, by rw [task_same f1]; exact c⟩
    · intro t ht hst hd
      rw [hi.2 t ht] at hd; cases hd
    · intro t ht hd
      rw [f1] at ht; rw [task_same f1] at hd ⊢; exact h.deliv t ht hd
  unfold seqTaskDone
  split
  · exact hc
  · exact startNext_inv _ _ _ hc hi

/-- `_task_start`: nothing happens while a task is pending; otherwise the head of the queue is started -/
theorem seqTaskStart_inv (s : TSt) (h : SeqInv s) : SeqInv (seqTaskStart s) := by
  unfold seqTaskStart
  split
  · exact h
  · next hcur =>
    apply seqTaskDone_inv s none h
    have hcc : clearCur s none = { s with cur := none } := by simp [clearCur, hcur]
    rw [hcc]
    refine ⟨rfl, ?_⟩
    intro t ht
    cases hd : (s.task t).delivered with
    | true => simpa [TSt.task] using hd
    | false =>
      have := h.one t ht hd
      rw [hcur] at this; cases this

/-- changing only the waiting queue and the log keeps the invariant -/
theorem SeqInv_of_frame {s s' : TSt} (h : SeqInv s) (h1 : s'.tasks = s.tasks) (h2 : s'.ready = s.ready)
    (h3 : s'.kind = s.kind) (h4 : s'.cur = s.cur) : SeqInv s' := by
  refine ⟨by rw [h3]; exact h.seq, ?_, ?_, by rw [h2]; exact h.nodup, ?_, ?_⟩
  · intro t ht hd
    rw [h1] at ht; rw [task_same h1] at hd; rw [h4]; exact h.one t ht hd
  · intro t htm
    rw [h2] at htm
    obtain ⟨a, b, c⟩ := h.cbs t htm
    exact ⟨by rw [h1]; exact a, by rw [task_same h1]; exact b, by rw [task_same h1]; exact c⟩
  · intro t ht hst hd
    rw [h1] at ht; rw [task_same h1] at hst hd; rw [h2]; exact h.pend t ht hst hd
  · intro t ht hd
    rw [h1] at ht; rw [task_same h1] at hd ⊢; exact h.deliv t ht hd

/-- `create_task` of every sequential manager keeps the invariant -/
theorem submitCore_inv (s : TSt) (c k : Nat) (h : SeqInv s) : SeqInv (submitCore s c k) := by
  have hs := h.seq
  unfold submitCore
  split
  · exact seqTaskStart_inv _ (SeqInv_of_frame h rfl rfl rfl rfl)
  · split
    · split
      · exact SeqInv_of_frame h rfl rfl rfl rfl
      · split
        · exact seqTaskStart_inv _ (SeqInv_of_frame h rfl rfl rfl rfl)
        · exact seqTaskStart_inv _ (SeqInv_of_frame h rfl rfl rfl rfl)
      · split
        · exact seqTaskStart_inv _ (SeqInv_of_frame h rfl rfl rfl rfl)
        · exact seqTaskStart_inv _ (SeqInv_of_frame h rfl rfl rfl rfl)
    · exact seqTaskStart_inv _ (SeqInv_of_frame h rfl rfl rfl rfl)
  · split
    · exact seqTaskStart_inv _ (SeqInv_of_frame h rfl rfl rfl rfl)
    · exact seqTaskStart_inv _ (SeqInv_of_frame h rfl rfl rfl rfl)
  · next hk => rw [hk] at hs; exact hs.elim
  · next hk => rw [hk] at hs; exact hs.elim


theorem submit_inv (s : TSt) (c k : Nat) (h : SeqInv s) : SeqInv (submit s c k) :=
  submitCore_inv _ c k (SeqInv_of_frame h rfl rfl rfl rfl)

theorem submitAll_inv : ∀ (subs : List (Nat × Nat)) (s : TSt), SeqInv s → SeqInv (submitAll s subs)
  | [], s, h => h
  | (c, k) :: rest, s, h => by unfold submitAll; exact submitAll_inv rest _ (submit_inv s c k h)

theorem setTask_task (s : TSt) (t : Nat) (x : Task) (t' : Nat) :
    (s.setTask t x).task t' = if t' = t ∧ t < s.tasks.length then x else s.task t' := by
  simp only [TSt.setTask, TSt.task, List.getD_eq_getElem?_getD, List.getElem?_set]
  by_cases h1 : t = t'
  · subst h1
    by_cases h2 : t < s.tasks.length
    · simp [h2]
    · simp [h2]
  · have : ¬ (t' = t ∧ t < s.tasks.length) := fun h => h1 h.1.symm
    simp [h1, this]

theorem setTask_len (s : TSt) (t : Nat) (x : Task) : (s.setTask t x).tasks.length = s.tasks.length := by
  simp [TSt.setTask]

/-- replacing a task record by one with the same status and delivery flag -/
theorem SeqInv_setTask_same {s : TSt} (t : Nat) (x : Task) (h : SeqInv s)
    (h1 : x.status = .done ↔ (s.task t).status = .done) (h2 : x.delivered = (s.task t).delivered) (extra : List Ready)
    (hex : doneCbs extra = []) :
    SeqInv { (s.setTask t x) with ready := s.ready ++ extra } := by
  have hr : doneCbs (s.ready ++ extra) = doneCbs s.ready := by rw [doneCbs_append, hex]; simp
  have key : ∀ t', (((s.setTask t x).task t').status = .done ↔ (s.task t').status = .done) ∧
      ((s.setTask t x).task t').delivered = (s.task t').delivered := by
    intro t'
    rw [setTask_task]
    split
    · next hc => rw [hc.1]; exact ⟨h1, h2⟩
    · exact ⟨Iff.rfl, rfl⟩
  have tk : ∀ t', ({ (s.setTask t x) with ready := s.ready ++ extra } : TSt).task t' = (s.setTask t x).task t' :=
    fun _ => rfl
  refine ⟨h.seq, ?_, ?_, by show (doneCbs (s.ready ++ extra)).Nodup; rw [hr]; exact h.nodup, ?_, ?_⟩
  · intro t' ht hd
    rw [tk, (key t').2] at hd
    exact h.one t' (by simpa [setTask_len] using ht) hd
  · intro t' htm
    have htm' : t' ∈ doneCbs s.ready := by rw [← hr]; exact htm
    obtain ⟨a, b, c⟩ := h.cbs t' htm'
    exact ⟨by show t' < (s.setTask t x).tasks.length; rw [setTask_len]; exact a,
           by rw [tk]; exact (key t').1.2 b, by rw [tk, (key t').2]; exact c⟩
  · intro t' ht hst hd
    rw [tk] at hst hd
    have hst := (key t').1.1 hst
    rw [(key t').2] at hd
    show t' ∈ doneCbs (s.ready ++ extra)
    rw [hr]
    exact h.pend t' (by simpa [setTask_len] using ht) hst hd
  · intro t' ht hd
    rw [tk] at hd ⊢
    rw [(key t').2] at hd
    exact (key t').1.2 (h.deliv t' (by simpa [setTask_len] using ht) hd)

theorem cancelTask_inv (s : TSt) (t : Nat) (h : SeqInv s) : SeqInv (s.cancelTask t) := by
  unfold TSt.cancelTask
  simp only []
  split
  · exact h
  · have := SeqInv_setTask_same t { s.task t with cancelReq := true } h Iff.rfl rfl [] rfl
    exact SeqInv_of_frame this rfl (by show s.ready = s.ready ++ []; simp) rfl rfl
  · split
    · exact h
    · exact SeqInv_setTask_same t { s.task t with cancelReq := true } h Iff.rfl rfl [.resumeCancel t] rfl

/-- a task that is not done finishes: its done callback is scheduled, exactly once -/
theorem finishTask_inv (s : TSt) (t : Nat) (h : SeqInv s) (ht : t < s.tasks.length)
    (hst : (s.task t).status ≠ .done) : SeqInv (finishTask s t) := by
  have hnd : (s.task t).delivered = false := by
    cases hd : (s.task t).delivered with
    | false => rfl
    | true => exact absurd (h.deliv t ht hd) hst
  have hnot : t ∉ doneCbs s.ready := fun hm => hst (h.cbs t hm).2.1
  have hr : doneCbs (finishTask s t).ready = doneCbs s.ready ++ [t] := by
    show doneCbs (s.ready ++ [Ready.doneCb t]) = _
    rw [doneCbs_append]; rfl
  have tk : ∀ t', (finishTask s t).task t' = if t' = t then { s.task t with status := .done } else s.task t' := by
    intro t'
    show (s.setTask t { s.task t with status := .done }).task t' = _
    rw [setTask_task]
    by_cases e : t' = t
    · simp [e, ht]
    · simp [e]
  have hl : (finishTask s t).tasks.length = s.tasks.length := setTask_len _ _ _
  refine ⟨h.seq, ?_, ?_, ?_, ?_, ?_⟩
  · intro t' ht' hd
    rw [tk] at hd
    rw [hl] at ht'
    show s.cur = some t'
    split at hd
    · next e => subst e; exact h.one t' ht hnd
    · exact h.one t' ht' hd
  · intro t' htm
    rw [hr] at htm
    rw [hl, tk]
    rcases List.mem_append.1 htm with hm | hm
    · obtain ⟨a, b, c⟩ := h.cbs t' hm
      have : t' ≠ t := fun e => hnot (e ▸ hm)
      simp [this]; exact ⟨a, b, c⟩
    · simp at hm; subst hm
      simp; exact ⟨ht, hnd⟩
  · rw [hr]
    exact List.nodup_append.2 ⟨h.nodup, by simp, by intro a ha b hb; simp at hb; subst hb; intro e; subst e; exact hnot ha⟩
  · intro t' ht' hst' hd
    rw [hl] at ht'
    rw [tk] at hst' hd
    rw [hr]
    by_cases e : t' = t
    · subst e; simp
    · simp [e] at hst' hd
      exact List.mem_append_left _ (h.pend t' ht' hst' hd)
  · intro t' ht' hd
    rw [hl] at ht'
    rw [tk] at hd ⊢
    by_cases e : t' = t
    · subst e; simp
    · simp [e] at hd ⊢; exact h.deliv t' ht' hd


theorem lt_of_not_done (s : TSt) (t : Nat) (h : (s.task t).status ≠ .done) : t < s.tasks.length := by
  by_cases hl : t < s.tasks.length
  · exact hl
  · exfalso; apply h
    simp [TSt.task, List.getD_eq_getElem?_getD, List.getElem?_eq_none (by omega : s.tasks.length ≤ t)]

/-- existing tasks are not touched by a submission to a sequential manager; tasks are only appended -/
structure Grows (s s' : TSt) : Prop where
  len : s.tasks.length ≤ s'.tasks.length
  old : ∀ t, t < s.tasks.length → s'.task t = s.task t

theorem Grows.refl (s : TSt) : Grows s s := ⟨Nat.le_refl _, fun _ _ => rfl⟩
theorem Grows.trans {a b c : TSt} (h1 : Grows a b) (h2 : Grows b c) : Grows a c :=
  ⟨Nat.le_trans h1.len h2.len, fun t ht => by rw [h2.old t (Nat.lt_of_lt_of_le ht h1.len), h1.old t ht]⟩
theorem Grows.of_tasks_eq {s s' : TSt} (h : s'.tasks = s.tasks) : Grows s s' :=
  ⟨by rw [h]; exact Nat.le_refl _, fun t _ => task_same h t⟩

theorem seqTaskDone_grows (s : TSt) (done : Option Nat) : Grows s (seqTaskDone s done) := by
  have f1 := (clearCur_frame s done).1
  unfold seqTaskDone
  split
  · exact Grows.of_tasks_eq f1
  · next c key rest _ =>
    have ht : (startNext (clearCur s done) c rest).tasks = (clearCur s done).tasks ++ [{ coro := c }] := rfl
    refine ⟨by rw [ht, f1]; simp, ?_⟩
    intro t htl
    rw [task_old ht (by rw [f1]; exact htl), task_same f1]

theorem seqTaskStart_grows (s : TSt) : Grows s (seqTaskStart s) := by
  unfold seqTaskStart; split
  · exact Grows.refl s
  · exact seqTaskDone_grows s none

theorem grows_start {s s1 : TSt} (h : s1.tasks = s.tasks) : Grows s (seqTaskStart s1) :=
  (Grows.of_tasks_eq h).trans (seqTaskStart_grows s1)

theorem submitCore_grows (s : TSt) (c k : Nat) (hs : IsSeq s.kind) : Grows s (submitCore s c k) := by
  unfold submitCore
  split
  · exact grows_start rfl
  · split
    · split
      · exact Grows.of_tasks_eq rfl
      · split <;> exact grows_start rfl
      · split <;> exact grows_start rfl
    · exact grows_start rfl
  · split <;> exact grows_start rfl
  · next hk => rw [hk] at hs; exact hs.elim
  · next hk => rw [hk] at hs; exact hs.elim

theorem submit_grows (s : TSt) (c k : Nat) (hs : IsSeq s.kind) : Grows s (submit s c k) :=
  (Grows.of_tasks_eq (s := s) (s' := s.emit (.submitted c)) rfl).trans (submitCore_grows _ c k hs)

theorem submitAll_grows : ∀ (subs : List (Nat × Nat)) (s : TSt), SeqInv s → Grows s (submitAll s subs)
  | [], s, _ => Grows.refl s
  | (c, k) :: rest, s, h => by
    unfold submitAll
    exact (submit_grows s c k h.seq).trans (submitAll_grows rest _ (submit_inv s c k h))

/-- taking a ready entry that is not a done callback off the queue keeps the invariant -/
theorem pop_inv {s : TSt} (r : Ready) (rest : List Ready) (h : SeqInv s) (hr : s.ready = r :: rest)
    (hnd : ∀ t, r ≠ .doneCb t) : SeqInv { s with ready := rest } := by
  have e : doneCbs s.ready = doneCbs rest := by
    rw [hr]; cases r <;> simp [doneCbs]
    next t => exact absurd rfl (hnd t)
  refine ⟨h.seq, h.one, ?_, by show (doneCbs rest).Nodup; rw [← e]; exact h.nodup, ?_, h.deliv⟩
  · intro t ht; exact h.cbs t (by rw [e]; exact ht)
  · intro t ht hst hd; show t ∈ doneCbs rest; rw [← e]; exact h.pend t ht hst hd

/-- the done callback of the manager: `self.task` is released and the next coroutine is started -/
theorem doneCb_inv {s : TSt} (t : Nat) (rest : List Ready) (h : SeqInv s) (hr : s.ready = .doneCb t :: rest) :
    SeqInv (managerDone { s with ready := rest } t) := by
  have hm : t ∈ doneCbs s.ready := by rw [hr]; simp [doneCbs]
  obtain ⟨hlt, hst, hnd⟩ := h.cbs t hm
  have hcur : s.cur = some t := h.one t hlt hnd
  have hnot : t ∉ doneCbs rest := by
    have := h.nodup; rw [hr] at this; simp [doneCbs] at this; exact this.1
  have hcbs : doneCbs s.ready = t :: doneCbs rest := by rw [hr]; simp [doneCbs]
  -- the state after `delivered := true`
  generalize hs2 : ({ s with ready := rest } : TSt).setTask t { ({ s with ready := rest } : TSt).task t with delivered := true } = s2
  have tk : ∀ t', s2.task t' = if t' = t then { s.task t with delivered := true } else s.task t' := by
    intro t'
    subst hs2
    rw [setTask_task]
    by_cases e : t' = t
    · subst e
      have : t' < ({ s with ready := rest } : TSt).tasks.length := hlt
      simp [this]
      exact ⟨rfl, rfl, rfl⟩
    · simp [e]; rfl
  have hl : s2.tasks.length = s.tasks.length := by subst hs2; exact setTask_len _ _ _
  have hc2 : s2.cur = some t := by subst hs2; exact hcur
  have hr2 : s2.ready = rest := by subst hs2; rfl
  have hk2 : s2.kind = s.kind := by subst hs2; rfl
  have inv2 : SeqInv s2 := by
    refine ⟨by rw [hk2]; exact h.seq, ?_, ?_, by rw [hr2]; have := h.nodup; rw [hcbs] at this; exact (List.nodup_cons.1 this).2, ?_, ?_⟩
    · intro t' ht' hd
      rw [tk] at hd
      by_cases e : t' = t
      · subst e; simp at hd
      · simp [e] at hd; rw [hc2, ← hcur]; exact h.one t' (by rw [← hl]; exact ht') hd
    · intro t' htm
      rw [hr2] at htm
      have e : t' ≠ t := fun e => hnot (e ▸ htm)
      obtain ⟨a, b, c⟩ := h.cbs t' (by rw [hcbs]; exact List.mem_cons_of_mem _ htm)
      rw [tk]; simp [e]; exact ⟨by rw [hl]; exact a, b, c⟩
    · intro t' ht' hst' hd
      rw [tk] at hst' hd
      by_cases e : t' = t
      · subst e; simp at hd
      · simp [e] at hst' hd
        have := h.pend t' (by rw [← hl]; exact ht') hst' hd
        rw [hcbs] at this
        rw [hr2]
        rcases List.mem_cons.1 this with e' | hm'
        · exact absurd e' e
        · exact hm'
    · intro t' ht' hd
      rw [tk] at hd ⊢
      by_cases e : t' = t
      · subst e; simp; exact hst
      · simp [e] at hd ⊢; exact h.deliv t' (by rw [← hl]; exact ht') hd
  unfold managerDone
  simp only []
  rw [hs2]
  have hseq := h.seq
  have : s2.kind = s.kind := hk2
  have hdone : SeqInv (seqTaskDone s2 (some t)) := by
    apply seqTaskDone_inv s2 (some t) inv2
    have hcc : clearCur s2 (some t) = { s2 with cur := none } := by simp [clearCur, hc2]
    rw [hcc]
    refine ⟨rfl, ?_⟩
    intro t' ht'
    show (s2.task t').delivered = true
    rw [tk]
    by_cases e : t' = t
    · simp [e]
    · simp [e]
      cases hd : (s.task t').delivered with
      | true => rfl
      | false =>
        have := h.one t' (by rw [← hl]; exact ht') hd
        rw [hcur] at this
        exact absurd (Option.some.inj this).symm e
  revert hdone
  cases hk : s2.kind <;> intro hdone
  · exact hdone
  · exact hdone
  · exact hdone
  · rw [hk2] at hk; rw [hk] at hseq; exact hseq.elim
  · rw [hk2] at hk; rw [hk] at hseq; exact hseq.elim

theorem emit_inv {s : TSt} (e : TEv) (h : SeqInv s) : SeqInv (s.emit e) := SeqInv_of_frame h rfl rfl rfl rfl

/-- running one ready entry keeps the invariant -/
theorem runReady_inv {s : TSt} (r : Ready) (rest : List Ready) (h : SeqInv s) (hr : s.ready = r :: rest) :
    SeqInv (runReady { s with ready := rest } r) := by
  cases r with
  | doneCb t => exact doneCb_inv t rest h hr
  | step t =>
    have h1 := pop_inv _ rest h hr (by intro t'; simp)
    simp only [runReady]
    split
    · exact h1
    · next hst =>
      have hst' : (({ s with ready := rest } : TSt).task t).status = .pendingStart := by simpa using hst
      have hlt : t < ({ s with ready := rest } : TSt).tasks.length := lt_of_not_done _ t (by rw [hst']; simp)
      split
      · exact finishTask_inv _ t (emit_inv _ h1) hlt (by show (({ s with ready := rest } : TSt).task t).status ≠ .done; rw [hst']; simp)
      · have := SeqInv_setTask_same t { ({ s with ready := rest } : TSt).task t with status := .suspended } h1
          (by rw [hst']; simp) rfl [] rfl
        exact emit_inv _ (SeqInv_of_frame this rfl (by show rest = rest ++ []; simp) rfl rfl)
  | resume t fail last =>
    have h1 := pop_inv _ rest h hr (by intro t'; simp)
    simp only [runReady]
    split
    · exact h1
    · next hc =>
      have hst' : (({ s with ready := rest } : TSt).task t).status = .suspended := by
        have := hc; simp at this; exact this.1
      have hlt : t < ({ s with ready := rest } : TSt).tasks.length := lt_of_not_done _ t (by rw [hst']; simp)
      have h2 := submitAll_inv last.inside _ h1
      have g2 := submitAll_grows last.inside _ h1
      have hlt2 : t < (submitAll { s with ready := rest } last.inside).tasks.length := Nat.lt_of_lt_of_le hlt g2.len
      have hst2 : ((submitAll { s with ready := rest } last.inside).task t).status ≠ .done := by
        rw [g2.old t hlt, hst']; simp
      apply finishTask_inv _ t
      · apply emit_inv
        split
        · exact h2
        · refine ⟨h2.seq, h2.one, ?_, ?_, ?_, h2.deliv⟩
          · intro t' ht'
            have : doneCbs ((submitAll { s with ready := rest } last.inside).ready ++ [Ready.listener last.listener]) =
                doneCbs (submitAll { s with ready := rest } last.inside).ready := by simp [doneCbs_append, doneCbs]
            exact h2.cbs t' (by rw [← this]; exact ht')
          · show (doneCbs ((submitAll { s with ready := rest } last.inside).ready ++ [Ready.listener last.listener])).Nodup
            simp [doneCbs_append, doneCbs]; exact h2.nodup
          · intro t' ht' a b
            show t' ∈ doneCbs ((submitAll { s with ready := rest } last.inside).ready ++ [Ready.listener last.listener])
            simp [doneCbs_append, doneCbs]; exact h2.pend t' ht' a b
      · show t < (if last.listener.isEmpty = true then submitAll { s with ready := rest } last.inside
            else { submitAll { s with ready := rest } last.inside with
                   ready := (submitAll { s with ready := rest } last.inside).ready ++ [Ready.listener last.listener] }).tasks.length
        split <;> exact hlt2
      · show ((if last.listener.isEmpty = true then submitAll { s with ready := rest } last.inside
            else { submitAll { s with ready := rest } last.inside with
                   ready := (submitAll { s with ready := rest } last.inside).ready ++ [Ready.listener last.listener] }).task t).status ≠ .done
        split <;> exact hst2
  | resumeCancel t =>
    have h1 := pop_inv _ rest h hr (by intro t'; simp)
    simp only [runReady]
    split
    · exact h1
    · next hst =>
      have hst' : (({ s with ready := rest } : TSt).task t).status = .suspended := by simpa using hst
      have hlt : t < ({ s with ready := rest } : TSt).tasks.length := lt_of_not_done _ t (by rw [hst']; simp)
      exact finishTask_inv _ t (emit_inv _ h1) hlt (by show (({ s with ready := rest } : TSt).task t).status ≠ .done; rw [hst']; simp)
  | listener subs =>
    have h1 := pop_inv _ rest h hr (by intro t'; simp)
    simp only [runReady]
    exact submitAll_inv subs _ h1

theorem drain_inv : ∀ (n : Nat) (s : TSt), SeqInv s → SeqInv (drain n s)
  | 0, s, h => h
  | n + 1, s, h => by
    unfold drain
    split
    · exact h
    · next r rest hr => exact drain_inv n _ (runReady_inv r rest h hr)

theorem applyOp_inv (s : TSt) (op : TOp) (h : SeqInv s) : SeqInv (applyOp s op) := by
  cases op with
  | submit c k => exact submit_inv s c k h
  | complete t fail last =>
    simp only [applyOp]
    split
    · refine ⟨h.seq, h.one, ?_, ?_, ?_, h.deliv⟩
      · intro t' ht'
        exact h.cbs t' (by simpa [doneCbs_append, doneCbs] using ht')
      · show (doneCbs (s.ready ++ [Ready.resume t fail last])).Nodup
        simp [doneCbs_append, doneCbs]; exact h.nodup
      · intro t' ht' a b
        show t' ∈ doneCbs (s.ready ++ [Ready.resume t fail last])
        simp [doneCbs_append, doneCbs]; exact h.pend t' ht' a b
    · exact h
  | cancel t => exact cancelTask_inv s t h

theorem tstep_inv (s : TSt) (op : TOp) (h : SeqInv s) : SeqInv (tstep s op) :=
  drain_inv _ _ (applyOp_inv s op h)

theorem init_inv (k : MgrKind) (hk : IsSeq k) : SeqInv { kind := k } := by
  refine ⟨hk, ?_, ?_, by simp [doneCbs], ?_, ?_⟩
  · intro t ht; simp at ht
  · intro t ht; simp [doneCbs] at ht
  · intro t ht; simp at ht
  · intro t ht; simp at ht

/-- the invariant holds in every state any finite history of operations can reach -/
theorem reachable_inv (k : MgrKind) (hk : IsSeq k) (ops : List TOp) : SeqInv (runT { kind := k } ops) := by
  suffices h : ∀ s, SeqInv s → SeqInv (runT s ops) from h _ (init_inv k hk)
  induction ops with
  | nil => intro s h; exact h
  | cons op ops ih => intro s h; exact ih _ (tstep_inv s op h)

/-- **one at a time**: in every reachable state of a sequential manager at most one task exists whose done
callback has not run, and it is the manager's `self.task` -/
theorem at_most_one (k : MgrKind) (hk : IsSeq k) (ops : List TOp) (t1 t2 : Nat) :
    let s := runT { kind := k } ops
    t1 < s.tasks.length → t2 < s.tasks.length →
    (s.task t1).delivered = false → (s.task t2).delivered = false → t1 = t2 ∧ s.cur = some t1 := by
  intro s h1 h2 d1 d2
  have inv := reachable_inv k hk ops
  have c1 := inv.one t1 h1 d1
  have c2 := inv.one t2 h2 d2
  rw [c1] at c2
  exact ⟨Option.some.inj c2, c1⟩

/-- a coroutine is only started by taking it from the head of the queue: start order is queue order -/
theorem fifo (s : TSt) (done : Option Nat) (c k : Nat) (rest : List (Nat × Nat))
    (hq : (clearCur s done).queue = (c, k) :: rest) :
    (seqTaskDone s done).queue = rest ∧
    (seqTaskDone s done).tasks = s.tasks ++ [{ coro := c }] := by
  unfold seqTaskDone
  rw [hq]
  exact ⟨rfl, by show (clearCur s done).tasks ++ _ = _; rw [(clearCur_frame s done).1]⟩

/-- de-duplication: after a submission at most one waiting coroutine carries the submitted key — the new one -/
theorem dedup_newest_core (s : TSt) (c k : Nat) (hk : s.kind = .dedup) (hcur : s.cur ≠ none) :
    (submitCore s c k).queue = s.queue.filter (·.2 ≠ k) ++ [(c, k)] := by
  unfold submitCore
  rw [hk]
  simp only []
  obtain ⟨t, ht⟩ : ∃ t, s.cur = some t := by
    cases hc : s.cur with
    | none => exact absurd hc hcur
    | some t => exact ⟨t, rfl⟩
  have hst : ∀ s1 : TSt, s1.cur = some t → seqTaskStart s1 = s1 := by
    intro s1 h1; simp [seqTaskStart, h1]
  split
  · rw [hst _ (by show s.cur = some t; exact ht)]
  · next hnone =>
    rw [hst _ (by show s.cur = some t; exact ht)]
    have : ∀ x ∈ s.queue, ¬ (x.2 = k) := by
      intro x hx e
      have := List.find?_eq_none.1 hnone x hx
      simp [e] at this
    show s.queue ++ [(c, k)] = _
    rw [List.filter_eq_self.2 (by intro x hx; simpa using this x hx)]

theorem dedup_newest (s : TSt) (c k : Nat) (hk : s.kind = .dedup) (hcur : s.cur ≠ none) :
    (submit s c k).queue = s.queue.filter (·.2 ≠ k) ++ [(c, k)] :=
  dedup_newest_core (s.emit (.submitted c)) c k hk hcur

/-! ### the bounded queue and its victims -/

/-- the limiting manager (bound ≥ 1) never holds more than `maxQ` waiting coroutines, in any reachable state -/
theorem queue_bounded (maxQ : Nat) (pol : SeqPolicy) (hm : 1 ≤ maxQ) (ops : List TOp) :
    (runT { kind := .limitingSeq maxQ pol } ops).queue.length ≤ maxQ :=
  (qbound_reachable maxQ pol hm ops).2

/-- bound reached, policy **skip**: the NEW coroutine is closed unstarted, nothing else changes -/
theorem full_skip_drops_new (s : TSt) (maxQ c key : Nat) (hk : s.kind = .limitingSeq maxQ .skip)
    (hfull : s.queue.length ≥ maxQ) : submit s c key = (s.emit (.submitted c)).emit (.closed c) := by
  unfold submit submitCore
  have hk' : (s.emit (.submitted c)).kind = .limitingSeq maxQ .skip := hk
  have hf' : (s.emit (.submitted c)).queue.length ≥ maxQ := hfull
  simp only [hk']
  rw [if_pos hf']

/-- bound reached, policy **skip_first**: the OLDEST waiting coroutine is closed unstarted, the new one is appended -/
theorem full_skip_first_drops_oldest (s : TSt) (maxQ c key c0 k0 : Nat) (rest : List (Nat × Nat))
    (hk : s.kind = .limitingSeq maxQ .skipFirst) (hfull : s.queue.length ≥ maxQ) (hq : s.queue = (c0, k0) :: rest) :
    submit s c key =
      seqTaskStart { ((s.emit (.submitted c)).emit (.closed c0)) with queue := rest ++ [(c, key)] } := by
  unfold submit submitCore
  have hk' : (s.emit (.submitted c)).kind = .limitingSeq maxQ .skipFirst := hk
  have hf' : (s.emit (.submitted c)).queue.length ≥ maxQ := hfull
  have hq' : (s.emit (.submitted c)).queue = (c0, k0) :: rest := hq
  simp only [hk']
  rw [if_pos hf']
  simp only [hq']

/-- bound reached, policy **skip_last**: the NEWEST waiting coroutine is closed unstarted, the new one is appended -/
theorem full_skip_last_drops_newest (s : TSt) (maxQ c key c0 k0 : Nat)
    (hk : s.kind = .limitingSeq maxQ .skipLast) (hfull : s.queue.length ≥ maxQ) (hq : s.queue.getLast? = some (c0, k0)) :
    submit s c key =
      seqTaskStart { ((s.emit (.submitted c)).emit (.closed c0)) with queue := s.queue.dropLast ++ [(c, key)] } := by
  unfold submit submitCore
  have hk' : (s.emit (.submitted c)).kind = .limitingSeq maxQ .skipLast := hk
  have hf' : (s.emit (.submitted c)).queue.length ≥ maxQ := hfull
  have hq' : (s.emit (.submitted c)).queue.getLast? = some (c0, k0) := hq
  simp only [hk']
  rw [if_pos hf']
  simp only [hq']
  rfl

/-! ### conservation (`Lemmas/Conserve.lean`, `Lemmas/StartsOnce.lean`) -/

/-- **none is lost and none runs twice**: in every state a sequential manager (any of the three) can reach, a
coroutine that was handed to `create_task` exactly once is in exactly one place — waiting in the queue (once), or
closed unstarted by the manager (once), or it has exactly one task — and its body was entered at most once -/
theorem nothing_lost_nothing_twice (k : MgrKind) (ops : List TOp) (c : Nat)
    (hs : cSub c (runT { kind := k } ops).log = 1) :
    let s := runT { kind := k } ops
    ((cQueue c s.queue = 1 ∧ cTasks c s.tasks = 0 ∧ cClosed c s.log = 0) ∨
     (cQueue c s.queue = 0 ∧ cTasks c s.tasks = 1 ∧ cClosed c s.log = 0) ∨
     (cQueue c s.queue = 0 ∧ cTasks c s.tasks = 0 ∧ cClosed c s.log = 1)) ∧ cEnter c s.log ≤ 1 :=
  submitted_once k ops c hs

/-- **in submission order**: in every state a sequential manager can reach, the coroutines that got a task (in the
order in which their tasks were created) followed by the coroutines still waiting (in queue order) are a subsequence
of the coroutines in the order in which they were handed to `create_task`: no coroutine is started before one that
was submitted earlier and is still to be started; whatever is missing from the subsequence was closed unstarted -/
theorem started_in_submission_order (k : MgrKind) (hk : IsSeq k) (ops : List TOp) :
    let s := runT { kind := k } ops
    (s.tasks.map (·.coro) ++ s.queue.map (·.1)).Sublist (subSeq s.log) :=
  (seq_order_reachable k (by cases k <;> first | trivial | exact hk.elim) ops).ord

/-- **the next one always starts**: in every reachable state a coroutine waits in the queue only while `self.task`
is set to a task whose done callback has not run; and when the loop is idle (nothing scheduled) that task has not
finished. So completion, failure or cancellation of the running task — each of which schedules its done callback —
always lets the next coroutine start: a sequential manager is never idle with work waiting -/
theorem waiting_only_behind_a_running_task (k : MgrKind) (hk : IsSeq k) (ops : List TOp) :
    let s := runT { kind := k } ops
    s.queue ≠ [] → ∃ t, s.cur = some t ∧ t < s.tasks.length ∧ (s.task t).delivered = false ∧
      (s.ready = [] → (s.task t).status ≠ .done) := by
  intro s hq
  have hp := prog_reachable k (by cases k <;> first | trivial | exact hk.elim) ops
  have hi := reachable_inv k hk ops
  have hc := hp.wait hq
  obtain ⟨t, ht⟩ : ∃ t, s.cur = some t := by
    cases h : s.cur with
    | none => exact absurd h hc
    | some t => exact ⟨t, rfl⟩
  obtain ⟨hlt, hd⟩ := hp.live t ht
  refine ⟨t, ht, hlt, hd, ?_⟩
  intro hr hdone
  have := hi.pend t hlt hdone hd
  rw [hr] at this
  simp [doneCbs] at this

/-- the general balance, for any number of submissions of `c`: calls = waiting + tasks + closed by the manager -/
theorem submissions_accounted (k : MgrKind) (ops : List TOp) (c : Nat) :
    let s := runT { kind := k } ops
    cSub c s.log = cQueue c s.queue + cTasks c s.tasks + cClosed c s.log :=
  (cons_reachable k ops).eq c

/-- de-duplication: in every reachable state the waiting coroutines carry pairwise different keys -/
theorem dedup_keys_unique (ops : List TOp) : ((runT { kind := .dedup } ops).queue.map (·.2)).Nodup :=
  (cons_reachable .dedup ops).keys (kind_run ops _)

-- non-vacuity (executable checks): three submissions run strictly one after the other, in order
#guard (observable (runT { kind := .sequential } [.submit 1 0, .submit 2 0, .submit 3 0, .complete 0 false {}, .complete 1 false {}]).log
  == [.enter 1, .exit 1, .enter 2, .exit 2, .enter 3])
-- the window: the finishing task wakes a listener that submits two coroutines; they still run one after the other
#guard (observable (runT { kind := .sequential } [.submit 1 0, .complete 0 false { listener := [(2, 0), (3, 0)] }, .complete 1 false {}]).log
  == [.enter 1, .exit 1, .enter 2, .exit 2, .enter 3])

-- the hypothesis of `nothing_lost_nothing_twice` is met: coroutine 2 was submitted once, waits; bound 1 + skip_first
-- closes a waiting coroutine, which is then in the third place
#guard subSeq (runT { kind := .limitingSeq 1 .skipFirst } [.submit 1 0, .submit 2 0, .submit 3 0]).log == [1, 2, 3]
#guard startSeq (runT { kind := .limitingSeq 1 .skipFirst } [.submit 1 0, .submit 2 0, .submit 3 0]) == [1, 3]
#guard cSub 2 (runT { kind := .sequential } [.submit 1 0, .submit 2 0]).log == 1
#guard cQueue 2 (runT { kind := .sequential } [.submit 1 0, .submit 2 0]).queue == 1
#guard cClosed 2 (runT { kind := .limitingSeq 1 .skipFirst } [.submit 1 0, .submit 2 0, .submit 3 0]).log == 1

end Ea.C11
