import EaModel.Tasks
namespace Ea.C11
theorem placeholder : True := trivial
end Ea.C11
