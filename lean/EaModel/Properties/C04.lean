import EaModel.Lemmas.Producer
import EaModel.Generated
/-!
# C04 — the next occurrence of any trigger is strictly in the future

`getNext_gt` holds for EVERY producer expression of the model (time of day with any DST policy, interval,
sun producers over an arbitrary ephemeris, groups and any nesting of offset / earliest / latest / jitter,
with or without filters), every environment (zone table — no well-formedness needed —, ephemeris,
jitter draw function, holiday predicate) and every reference instant.
-/
namespace Ea.C04

theorem opStep_gt (env : Env) (f : Option Filter) (dt n : Int) (v : Except Err Int) (a : Int)
    (h : opStep env f dt n v = .ok (.inr a)) : a > dt := by
  unfold opStep at h
  split at h
  · simp at h
  · split at h
    · next hc => simp at h; subst h; exact hc.1
    · simp at h

theorem timeNext_gt (env : Env) (r : TimeRep) (f : Option Filter) (dt x : Int)
    (h : timeNext env r f dt = .ok x) : x > dt := by
  unfold timeNext at h
  refine loopN_post (fun x => x > dt) _ ?_ _ _ _ h
  intro st a hb
  split at hb
  · simp at hb
  · split at hb
    · next c hc => simp at hb; subst hb; exact (firstCand_spec _ _ _ _ _ hc).2.1
    · simp at hb

theorem intervalNext_gt (env : Env) (start : Option Int) (step : Int) (f : Option Filter) (dt x : Int)
    (h : intervalNext env start step f dt = .ok x) : x > dt := by
  unfold intervalNext at h
  split at h
  · simp at h
  · next hs =>
    have hs' : 0 < step := by omega
    obtain ⟨h1, _, _⟩ := gridSearch_spec env f step hs' _ _ _ h
    have := gridAfter_gt (intervalAnchor start dt) step dt hs'
    omega

theorem sunNext_gt (env : Env) (kind : Nat) (f : Option Filter) (dt x : Int)
    (h : sunNext env kind f dt = .ok x) : x > dt := by
  unfold sunNext at h
  refine loopN_post (fun x => x > dt) _ ?_ _ _ _ h
  intro st a hb
  split at hb
  · simp at hb
  · split at hb
    · next hc => simp at hb; subst hb; exact hc.1
    · simp at hb

/-- **C04**: a computed next occurrence is strictly later than the reference instant — for every trigger
expression, every environment and every reference instant. -/
theorem getNext_gt (env : Env) : ∀ (p : Producer) (dt r : Int), getNext env p dt = .ok r → r > dt
  | .time tr f, dt, r, h => by unfold getNext at h; exact timeNext_gt env tr f dt r h
  | .interval st step f, dt, r, h => by unfold getNext at h; exact intervalNext_gt env st step f dt r h
  | .sun k f, dt, r, h => by unfold getNext at h; exact sunNext_gt env k f dt r h
  | .group ps f, dt, r, h => by
      unfold getNext at h
      refine loopN_post (fun r => r > dt) _ ?_ _ _ _ h
      intro st a hb
      split at hb
      · simp at hb
      · split at hb
        · simp at hb
        · split at hb
          · next hc => simp at hb; subst hb; exact hc.1
          · simp at hb
  | .offset p off f, dt, r, h => by
      unfold getNext at h
      refine loopN_post (fun r => r > dt) _ ?_ _ _ _ h
      intro st a hb
      split at hb
      · simp at hb
      · exact opStep_gt _ _ _ _ _ _ hb
  | .earliest p tr f, dt, r, h => by
      unfold getNext at h
      refine loopN_post (fun r => r > dt) _ ?_ _ _ _ h
      intro st a hb
      split at hb
      · simp at hb
      · exact opStep_gt _ _ _ _ _ _ hb
  | .latest p tr f, dt, r, h => by
      unfold getNext at h
      refine loopN_post (fun r => r > dt) _ ?_ _ _ _ h
      intro st a hb
      split at hb
      · simp at hb
      · exact opStep_gt _ _ _ _ _ _ hb
  | .jitter p lo hi f, dt, r, h => by
      unfold getNext at h
      refine loopN_post (fun r => r > dt) _ ?_ _ _ _ h
      intro st a hb
      split at hb
      · simp at hb
      · exact opStep_gt _ _ _ _ _ _ hb

/-- a job can never be rescheduled for the instant it just ran at, or for the past: the query the objects
actually perform (first query anchors an interval without start) has the same guarantee -/
theorem query_gt (env : Env) (p : Producer) (dt r : Int) (h : getNext env (p.anchorAt dt) dt = .ok r) : r > dt :=
  getNext_gt env _ dt r h

/-- the loop bound of the code (`not_infinite_loop`, read from the imported source on every run) is the one
the model uses -/
theorem loop_bound_matches : Ea.Gen.loopBound = Ea.LOOP := by decide

-- non-vacuity (executable checks): results exist, also exactly on an occurrence and with a negative offset
#guard okVal (getNext {} (.offset (.group [.interval (some 0) 10 none, .interval (some 3) 7 none] none) (-4) none) 20)
  == some 26
#guard okVal (getNext {} (.interval (some 0) 10 none) 30) == some 40
#guard (okVal (getNext {} (.jitter (.interval (some 0) 100 none) (-30) 30 none) 95)).isSome

end Ea.C04
