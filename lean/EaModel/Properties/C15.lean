import EaModel.Lemmas.Least
import EaModel.Generated
/-!
# C15 — triggers and filters are pure values; builders have no side effects

In the model a trigger IS a value and `getNext` a function of (environment, trigger, reference instant):
repeating a query, querying other instants in between or querying a copy cannot change an answer.
The Python objects are *stateful* in two places, and the theorems show that this state is unobservable:

* `IntervalProducer._next` (the last result, used as the anchor of the next query) — `interval_anchor_irrelevant`:
  any grid point as anchor gives the same answers; `anchor_idempotent`: after the first query the object no longer
  changes;
* the global `SUN_CACHE` — `sun_cache_transparent`: a cache whose entries were computed for the current location
  returns exactly what a recomputation returns, and stays consistent (the cache is cleared when the location
  changes — repair of finding F12).
-/
namespace Ea.C15

theorem gridAfter_shift (a step dt j : Int) (hs : 0 < step) :
    gridAfter (a + j * step) step dt = gridAfter a step dt := by
  unfold gridAfter
  have e : dt - (a + j * step) = dt - a + (-j) * step := by rw [Int.neg_mul]; omega
  rw [e, Int.add_mul_ediv_right _ _ (Int.ne_of_gt hs)]
  rw [Int.add_mul, Int.add_mul, Int.add_mul, Int.neg_mul]
  omega

/-- the cached `_next` of an interval trigger is always a grid point; which one is irrelevant -/
theorem interval_anchor_irrelevant (env : Env) (a step j : Int) (f : Option Filter) (dt : Int) :
    intervalNext env (some (a + j * step)) step f dt = intervalNext env (some a) step f dt := by
  unfold intervalNext
  split
  · rfl
  · next hs =>
    simp only [intervalAnchor, Option.getD]
    rw [gridAfter_shift a step dt j (by omega)]

/-- the result of an interval query is a grid point, so it is a valid anchor for all later queries -/
theorem interval_result_on_grid (env : Env) (a step : Int) (f : Option Filter) (dt r : Int)
    (h : intervalNext env (some a) step f dt = .ok r) : ∃ j : Int, r = a + j * step :=
  (intervalNext_least env a step f dt r h).1.1

mutual
/-- once anchored, a trigger is not changed by further queries -/
theorem anchor_idempotent (dt dt' : Int) : ∀ p : Producer, (p.anchorAt dt).anchorAt dt' = p.anchorAt dt
  | .time _ _ => by simp [Producer.anchorAt]
  | .interval none _ _ => by simp [Producer.anchorAt]
  | .interval (some _) _ _ => by simp [Producer.anchorAt]
  | .sun _ _ => by simp [Producer.anchorAt]
  | .group ps _ => by simp [Producer.anchorAt, anchor_list_idempotent dt dt' ps]
  | .offset p _ _ => by simp [Producer.anchorAt, anchor_idempotent dt dt' p]
  | .earliest p _ _ => by simp [Producer.anchorAt, anchor_idempotent dt dt' p]
  | .latest p _ _ => by simp [Producer.anchorAt, anchor_idempotent dt dt' p]
  | .jitter p _ _ _ => by simp [Producer.anchorAt, anchor_idempotent dt dt' p]
theorem anchor_list_idempotent (dt dt' : Int) : ∀ ps : List Producer,
    Producer.anchorListAt dt' (Producer.anchorListAt dt ps) = Producer.anchorListAt dt ps
  | [] => by simp [Producer.anchorListAt]
  | p :: ps => by simp [Producer.anchorListAt, anchor_idempotent dt dt' p, anchor_list_idempotent dt dt' ps]
end

/-- the object semantics: the state of a trigger object is its (anchored) definition -/
def queryObj (env : Env) (p : Producer) (dt : Int) : Except Err Int × Producer :=
  (getNext env (p.anchorAt dt) dt, p.anchorAt dt)

/-- after its first query an object answers every later query like the pure function of its anchored
definition and never changes again: repeating a query, or querying other instants in between, gives the same answer -/
theorem object_is_pure_after_first_query (env : Env) (p : Producer) (dt0 dt : Int) :
    queryObj env (queryObj env p dt0).2 dt = (getNext env (p.anchorAt dt0) dt, p.anchorAt dt0) := by
  simp [queryObj, anchor_idempotent]

/-! ## the sun cache -/

/-- `SUN_CACHE`: key (UTC date of the query, kind) ↦ rounded instant; oldest first -/
abbrev SunCache := List ((Int × Nat) × Int)

/-- every entry is what a recomputation for its key yields (for the location that is configured now) -/
def CacheOK (env : Env) (c : SunCache) : Prop :=
  ∀ k v, (k, v) ∈ c → ∃ dt, dayOf dt = k.1 ∧ sunNextRaw env k.2 dt = .ok v

def cacheLookup (c : SunCache) (k : Int × Nat) : Option Int := (c.find? (·.1 = k)).map (·.2)

/-- `_get_next_sun` with the cache: a hit returns the stored instant (and moves the entry to the end), a miss
computes, evicts the `sunCacheEvict` oldest entries when `sunCacheMax` is reached, and stores -/
def sunNextCached (env : Env) (c : SunCache) (kind : Nat) (dt : Int) : Except Err Int × SunCache :=
  if !env.hasLocation then (.error .locationNotSet, c) else
  let k := (dayOf dt, kind)
  match cacheLookup c k with
  | some v => (.ok v, c.filter (·.1 ≠ k) ++ [(k, v)])
  | none =>
    match sunNextRaw env kind dt with
    | .error e => (.error e, c)
    | .ok v =>
      let c := if c.length ≥ Ea.Gen.sunCacheMax then c.drop Ea.Gen.sunCacheEvict else c
      (.ok v, c ++ [(k, v)])

/-- `sunNextRaw` depends on `dt` only through its UTC date -/
theorem sunNextRaw_date (env : Env) (kind : Nat) (dt dt' : Int) (h : dayOf dt = dayOf dt') :
    sunNextRaw env kind dt = sunNextRaw env kind dt' := by
  unfold sunNextRaw; rw [h]

/-- **the cache is transparent**: with a consistent cache the cached answer equals the recomputed one and the
cache stays consistent -/
theorem sun_cache_transparent (env : Env) (c : SunCache) (kind : Nat) (dt : Int) (hc : CacheOK env c) :
    (sunNextCached env c kind dt).1 = sunNextRaw env kind dt ∧ CacheOK env (sunNextCached env c kind dt).2 := by
  unfold sunNextCached
  split
  · next hl =>
    refine ⟨?_, hc⟩
    unfold sunNextRaw; simp [hl]
  · simp only []
    split
    · next v hv =>
      unfold cacheLookup at hv
      have hm : ∃ e ∈ c, e.1 = (dayOf dt, kind) ∧ e.2 = v := by
        cases hf : c.find? (·.1 = (dayOf dt, kind)) with
        | none => simp [hf] at hv
        | some e =>
          simp [hf] at hv
          exact ⟨e, List.mem_of_find?_eq_some hf, by simpa using List.find?_some hf, hv⟩
      obtain ⟨e, he, hk, hv'⟩ := hm
      obtain ⟨dt', hd, hr⟩ := hc e.1 e.2 (by simpa using he)
      rw [hk] at hd hr
      simp only [] at hd hr
      refine ⟨?_, ?_⟩
      · rw [sunNextRaw_date env kind dt dt' hd.symm, hr, hv']
      · intro k' v' hmem
        rcases List.mem_append.1 hmem with hmem | hmem
        · exact hc k' v' (List.mem_filter.1 hmem).1
        · simp at hmem
          obtain ⟨rfl, rfl⟩ := hmem
          exact ⟨dt', hd, by rw [← hv']; exact hr⟩
    · split
      · next e he => exact ⟨he.symm, hc⟩
      · next v hv =>
        refine ⟨hv.symm, ?_⟩
        intro k' v' hmem
        rcases List.mem_append.1 hmem with hmem | hmem
        · apply hc k' v'
          split at hmem
          · exact List.mem_of_mem_drop hmem
          · exact hmem
        · simp at hmem
          obtain ⟨rfl, rfl⟩ := hmem
          exact ⟨dt, rfl, hv⟩

/-- `set_location` clears the cache (repair of F12): the empty cache is consistent for every location -/
theorem cache_cleared_is_consistent (env : Env) : CacheOK env [] := by
  intro k v h; cases h

/-- cache sizes of the code as read from the imported source on this run -/
theorem cache_sizes : Ea.Gen.sunCacheMax = 64 ∧ Ea.Gen.sunCacheEvict = 10 := by decide

-- non-vacuity (executable check): anchoring and querying an interval without start
#guard (queryObj {} (.interval none 10 none) 5).2 matches .interval (some 1005) 10 none

end Ea.C15
