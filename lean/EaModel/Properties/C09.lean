import EaModel.Properties.SchedCommon
import EaModel.Lemmas.Order
import EaModel.Reentrant
/-!
# C09 — due jobs run in chronological order

`run_jobs` always takes the head of the queue; the theorems show that in every reachable state the queue
is sorted by the reported run times, holds no job twice and never holds a job without run time.
-/
namespace Ea.C09

/-- the queue is sorted by `next_run` in every reachable state: for entries `a` before `b`,
`next_run a ≤ next_run b` -/
theorem queue_sorted (env : Env) (now : Int) (en : Bool) (ops : List Op) :
    let s := runOps (initSt env now en) ops
    s.queue.Pairwise (fun a b => ∀ x y, s.nr a = some x → s.nr b = some y → x ≤ y) := by
  intro s
  have h := inv_reachable env now en ops
  refine h.q.sorted.imp ?_
  intro a b hab x y hx hy
  simp only [leNR] at hab
  have hx' : (s.jobs a).nextRun = some x := hx
  have hy' : (s.jobs b).nextRun = some y := hy
  rw [hx', hy', ltNR_some] at hab
  simpa using hab

/-- a paused job, or any job without run time, is never in the queue, so it cannot delay a due one -/
theorem paused_never_queued (env : Env) (now : Int) (en : Bool) (ops : List Op) (j : Nat) :
    let s := runOps (initSt env now en) ops
    (s.job j).nextRun = none → j ∉ s.queue := by
  intro s hn hm
  have h := inv_reachable env now en ops
  obtain ⟨t, ht⟩ := (h.st.run j).1 (h.q.run j hm)
  have : (s.jobs j).nextRun = none := hn
  rw [this] at ht; cases ht

/-- no job is queued twice -/
theorem queue_nodup (env : Env) (now : Int) (en : Bool) (ops : List Op) :
    (runOps (initSt env now en) ops).queue.Nodup :=
  (inv_reachable env now en ops).q.nodup

/-- `insort` puts a new job behind all jobs that are due at the same or an earlier instant and before all
later ones: the result is sorted again (the step that keeps `queue_sorted`) -/
theorem insort_keeps_sorted (nr : Nat → Option Int) (x : Nat) (q : List Nat)
    (hx : ∃ t, nr x = some t) (hq : ∀ i ∈ q, ∃ t, nr i = some t)
    (hs : q.Pairwise (leNR nr)) : (insort nr x q).Pairwise (leNR nr) :=
  insort_sorted nr x q hx hq hs

/-- the operations in which the loop executes jobs: a wake-up after the loop was blocked (`yield`), a sleep
of the loop (any number of wake-ups), switching the scheduler on or off -/
def isWakeup : Op → Prop
  | .yield => True
  | .sleep d => 0 ≤ d
  | .enable _ => True
  | _ => False

/-- Chronological order: in every reachable state, the executions that a wake-up, a sleep or re-enabling the
scheduler performs are logged in non-decreasing order of the run times the jobs reported (`dues l` lists them
newest first, hence non-increasing), each of them due no later than the clock, and whatever is still queued
afterwards is due no earlier than any job that was executed: no job overtakes an earlier one, however many
jobs are due, whatever they do when they run (finish, fail, reschedule, re-arm the timer recursively). -/
theorem executions_in_due_order (env : Env) (now : Int) (en : Bool) (ops : List Op) (op : Op) (hop : isWakeup op) :
    let s := runOps (initSt env now en) ops
    let s' := (step s op).1
    ∃ l, s'.log = l ++ s.log ∧ (dues l).Pairwise (· ≥ ·) ∧
      ∀ d ∈ dues l, d ≤ s'.now ∧ ∀ x ∈ s'.queue, ∀ t, s'.nr x = some t → d ≤ t := by
  intro s s'
  have hI : Inv s := inv_reachable env now en ops
  have key : Ordered s s' := by
    cases op with
    | yield =>
      show Ordered s (fireDue s)
      unfold fireDue
      split
      · split
        · exact runJobs_ordered OPFUEL hI
        · exact Ordered.refl s
      · exact Ordered.refl s
    | sleep d =>
      have hd : 0 ≤ d := hop
      exact sleepLoop_ordered SLEEPFUEL (s.now + d) hI (by omega)
    | enable e =>
      show Ordered s (step s (.enable e)).1
      unfold step
      simp only []
      split
      · exact Ordered.refl s
      · have hI' : Inv { s with enabled := e } := ⟨hI.q, hI.st, hI.log⟩
        exact setTimer_ordered OPFUEL hI'
    | _ => exact absurd hop (by simp [isWakeup])
  obtain ⟨l, hl, hs, hg⟩ := key
  exact ⟨l, hl, hs, fun d hd => ⟨(hg d hd).2, (hg d hd).1⟩⟩

/-! ### a callable that creates jobs in the middle of a wake-up (`Reentrant.lean`) -/

/-- in a wake-up in which synchronous callables create further jobs, the job that is started always is one with the
earliest run time among everything waiting in the queue at that moment (jobs created a moment ago included), and the
queue stays sorted: no job runs before another one that was already waiting with an earlier run time -/
theorem reentrant_order (spawn : Nat → List Re.J) (now : Int) (fuel : Nat) (q : List Re.J) (hq : Re.Sorted q) :
    Re.Sorted (Re.run spawn now fuel q []).1 ∧
    ∀ e ∈ (Re.run spawn now fuel q []).2, ∀ y ∈ e.2, e.1.due ≤ y.due :=
  Re.run_order spawn now fuel q [] hq (by intro e he; cases he)

/-- queues built by `add_job` (`insort`) are sorted, so the hypothesis of `reentrant_order` holds for them -/
theorem reentrant_queue_sorted (js : List Re.J) : Re.Sorted (js.foldl Re.insort []) :=
  Re.foldl_insort_sorted js [] trivial

-- non-vacuity (executable check): three jobs created out of order run in order after the loop was blocked
#guard ((runOps (initSt {} 0) [.create 1 none (.once 30) [] [], .create 2 none (.once 10) [] [],
    .create 3 none (.once 20) [] [], .advance 50, .yield]).log.reverse.filterMap
  fun e => match e with | .exec j _ _ => some j | _ => none) == [2, 3, 1]

#guard dues ((runOps (initSt {} 0) [.create 1 none (.once 30) [] [], .create 2 none (.once 10) [] [],
    .create 3 none (.once 20) [] [], .advance 50, .yield]).log) == [30, 20, 10]

end Ea.C09
