import EaModel.Properties.SchedCommon
import EaModel.Lemmas.Frame
import EaModel.Lemmas.Store
/-!
# C07 — job status, callbacks and job store stay consistent
-/
namespace Ea.C07

/-- running exactly when a next-run time is reported (hence paused / finished / created exactly when none is) -/
theorem status_next_run (env : Env) (now : Int) (en : Bool) (ops : List Op) (j : Nat) :
    let s := runOps (initSt env now en) ops
    (s.job j).status = .running ↔ ∃ t, (s.job j).nextRun = some t :=
  ((inv_reachable env now en ops).st j).1

/-- the control operations of the public API -/
def isControl (j : Nat) : Op → Prop
  | .cancel i | .pause i | .resume i | .stop i | .reset i | .setCountdown i _ => i = j
  | _ => False

/-- finished is terminal: every control operation on a finished job raises and changes nothing,
in every reachable state -/
theorem finished_terminal (env : Env) (now : Int) (en : Bool) (ops : List Op) (j : Nat) (op : Op)
    (hop : isControl j op) :
    let s := runOps (initSt env now en) ops
    (s.job j).status = .finished → (step s op).1 = s ∧ (step s op).2 ≠ none := by
  intro s hf
  have hl : (s.job j).linked = false := ((inv_reachable env now en ops).st j).2 hf
  cases op <;> simp only [isControl] at hop <;> subst hop <;> unfold step <;>
    simp [jobFinish, hf, hl]
  all_goals (split <;> simp)

/-- `JobCallbackHandler.run`: the callback events it adds, oldest first -/
def cbEvents (fin : Bool) (j : Nat) (st : Status) (nr : Option Int) (now : Int) (fail : List Nat) :
    List Nat → List Ev
  | [] => []
  | c :: cs => (Ev.cb fin c j st nr now :: (if fail.contains c then [Ev.exc "CallbackError"] else []))
      ++ cbEvents fin j st nr now fail cs

/-- every registered callback is invoked exactly once, in registration order, with the job's current
(new) status and run time; a raising callback is reported once and does not stop the others -/
theorem callbacks_once (fin : Bool) (j : Nat) (cs : List Nat) (s : St) :
    (runCbs fin j cs s).log =
      (cbEvents fin j (s.job j).status (s.job j).nextRun s.now s.cbFail cs).reverse ++ s.log := by
  induction cs generalizing s with
  | nil => simp [runCbs, cbEvents]
  | cons c cs ih =>
    unfold runCbs cbEvents
    simp only []
    split
    · rename_i hc
      rw [ih]
      have hc' : c ∈ s.cbFail := by simpa [St.emit] using hc
      simp [St.emit, St.job, hc']
    · rename_i hc
      rw [ih]
      have hc' : c ∉ s.cbFail := by simpa [St.emit] using hc
      simp [St.emit, St.job, hc']

/-- (re)scheduling or pausing invokes the on_update callbacks once with the NEW state visible -/
theorem set_next_run_callbacks (s : St) (j : Nat) (nr : Option Int) (h : (setNextRun s j nr).2 = none) :
    ∃ st, (st = .running ↔ nr ≠ none) ∧
    (setNextRun s j nr).1.log =
      (cbEvents false j st nr s.now s.cbFail (s.job j).onUpdate).reverse ++ s.log := by
  unfold setNextRun at h ⊢
  cases nr with
  | none =>
    refine ⟨.paused, by simp, ?_⟩
    simp only []
    rw [callbacks_once]
    simp [St.setJob, St.job]
  | some t =>
    simp only [] at h ⊢
    split at h
    · simp at h
    · rename_i hlt
      refine ⟨.running, by simp, ?_⟩
      simp only [hlt, if_false]
      rw [callbacks_once]
      simp [St.setJob, St.job]

-- non-vacuity (executable check): a finished one-shot job exists in a reachable state
#guard ((runOps (initSt {} 0) [.create 1 (some 7) (.once 5) [] [], .sleep 10]).job 1).status == .finished


/-- The record of a job that is not RUNNING — status, (absent) run time, countdown value, callbacks, store
membership — is not changed by anything but an operation on that very job: not by wake-ups, sleeps, switching
the scheduler, creations of and operations on other jobs, however many. In particular a finished job stays
finished and a paused or stopped job stays as it is until its own resume/reset. -/
theorem not_running_record_frozen (env : Env) (now : Int) (en : Bool) (ops more : List Op) (i : Nat) :
    let s := runOps (initSt env now en) ops
    (s.job i).status ≠ .running → (∀ op ∈ more, op.target ≠ some i ∧ op.adds ≠ some i) →
    (runOps s more).job i = s.job i := by
  intro s hs hop
  have hI : Inv s := inv_reachable env now en ops
  have hnq : i ∉ s.queue := fun hm => hs (hI.q.run i hm)
  suffices h : ∀ (more : List Op) (s : St), Inv s → i ∉ s.queue →
      (∀ op ∈ more, op.target ≠ some i ∧ op.adds ≠ some i) → Frozen i s (runOps s more) from (h more s hI hnq hop).1
  intro more
  induction more with
  | nil => intro s _ h _; exact Frozen.refl h
  | cons op more ih =>
    intro s hI hnq hop
    have f1 := step_frozen s op i hI hnq (hop op (by simp)).1 (hop op (by simp)).2
    exact f1.trans (ih _ (step_inv s op hI) f1.2 (fun o ho => hop o (by simp [ho])))


theorem storeInv_reachable (env : Env) (now : Int) (en : Bool) (ops : List Op) :
    StoreInvX none (runOps (initSt env now en) ops) := by
  suffices h : ∀ (ops : List Op) (s : St), Inv s → StoreInvX none s → StoreInvX none (runOps s ops) by
    refine h ops _ (inv_init env now en) ⟨?_, ?_, ?_, ?_⟩
    · intro k j hm; simp [initSt] at hm
    · intro j hi; simp [initSt, St.job] at hi
    · simp [initSt]
    · intro j _ _; simp [initSt, St.job]
  intro ops
  induction ops with
  | nil => intro s _ h; exact h
  | cons op ops ih => intro s hI h; exact ih _ (step_inv s op hI) (step_storeInv s op hI h)

/-- The job store is exact, in every reachable state: an entry `(id, job)` is in the store exactly when the job
was added to a store under that id and has not finished (`inStore` is set at creation and cleared by
`job_finish`); ids are unique; stored jobs are neither FINISHED nor still being created, and a finished job is
in no store. Together with `C02.duplicate_id_inert` (a duplicate id is refused and changes nothing). -/
theorem store_exact (env : Env) (now : Int) (en : Bool) (ops : List Op) :
    let s := runOps (initSt env now en) ops
    (∀ k j, (k, j) ∈ s.store ↔ ((s.job j).inStore = true ∧ (s.job j).key = k)) ∧
    (s.store.map Prod.fst).Nodup ∧
    (∀ j, (s.job j).inStore = true → (s.job j).status ≠ .finished ∧ (s.job j).status ≠ .created) ∧
    (∀ k j, (s.job j).status = .finished → (k, j) ∉ s.store) := by
  intro s
  have h := storeInv_reachable env now en ops
  refine ⟨fun k j => ⟨fun hm => ⟨(h.mem k j hm).1, (h.mem k j hm).2.1⟩, fun ⟨hi, hk⟩ => hk ▸ h.has j hi⟩, h.uniq, ?_, ?_⟩
  · intro j hi
    refine ⟨(h.mem _ j (h.has j hi)).2.2, fun hc => ?_⟩
    have := h.fresh j (by simp) hc
    rw [hi] at this; cases this
  · intro k j hf hm
    exact (h.mem k j hm).2.2 hf

-- non-vacuity: a stored one-shot job leaves the store when it has run; a duplicate id is refused meanwhile
#guard (runOps (initSt {} 0) [.create 1 (some 7) (.once 5) [] [], .create 2 (some 7) (.once 6) [] []]).store == [(7, 1)]
#guard (runOps (initSt {} 0) [.create 1 (some 7) (.once 5) [] [], .sleep 10]).store == []

end Ea.C07
