import EaModel.Properties.C04
/-!
# C16 — computing the next occurrence always terminates

`getNext` is a total Lean function: every loop of the code is a structural recursion on an explicit counter
(`loopN LOOP` for `for _ in not_infinite_loop()`, 121 minutes in `find_time_after_dst_switch`, 367 dates in the
sun lookup), so the kernel has checked termination of the model for every trigger expression, environment and
reference instant. The theorems below say how the loops end.

**Known finding F7a**: the filter search of `IntervalProducer.get_next` is a plain `while` in the code. The model
gives it a fuel `env.intervalFuel`; `interval_unsat_never_returns` shows that for a filter that rejects every
grid point NO fuel suffices — the real loop does not return (it ends only when the instant leaves whenever's
range). Everything else is bounded (`C16_partial`).
-/
namespace Ea.C16

/-- a `for _ in not_infinite_loop()` loop runs its body at most `n` times -/
theorem loop_iterations_bounded {σ α : Type} (body : σ → Except Err (Sum σ α)) :
    ∀ (n : Nat) (st : σ) (c : Nat), (loopNC n st body c).2 ≤ c + n := by
  intro n
  induction n with
  | zero => intro st c; simp [loopNC]
  | succ n ih =>
    intro st c
    unfold loopNC
    split
    · show c + 1 ≤ c + (n + 1); omega
    · show c + 1 ≤ c + (n + 1); omega
    · next st' _ => have := ih st' (c + 1); omega

/-- the counting loop computes the same result as the plain one -/
theorem loopNC_fst {σ α : Type} (body : σ → Except Err (Sum σ α)) :
    ∀ (n : Nat) (st : σ) (c : Nat), (loopNC n st body c).1 = loopN n st body := by
  intro n
  induction n with
  | zero => intro st c; simp [loopNC, loopN]
  | succ n ih =>
    intro st c
    unfold loopNC loopN
    split <;> simp_all

/-- when the counter of a bounded loop runs out the outcome is `InfiniteLoopDetectedError`, nothing else -/
theorem loop_exhausted {σ α : Type} (st : σ) (body : σ → Except Err (Sum σ α)) :
    loopN 0 st body = (.error .infiniteLoop : Except Err α) := rfl

/-- the grid search of an interval trigger returns as soon as a grid point is admitted … -/
theorem interval_sat_returns (env : Env) (f : Option Filter) (step g : Int) (k : Nat) (fuel : Nat)
    (hk : k < fuel) (hadm : env.allows f (g + k * step) = true)
    (hrej : ∀ i : Nat, i < k → env.allows f (g + i * step) = false) :
    gridSearch env f step fuel g = .ok (g + k * step) := by
  induction k generalizing g fuel with
  | zero =>
    cases fuel with
    | zero => omega
    | succ n => unfold gridSearch; simp at hadm; simp [hadm]
  | succ k ih =>
    cases fuel with
    | zero => omega
    | succ n =>
      unfold gridSearch
      have h0 := hrej 0 (by omega)
      simp at h0
      simp [h0]
      have := ih (g + step) n (by omega)
        (by have e : g + step + (k : Int) * step = g + ((k + 1 : Nat) : Int) * step := by
              push_cast; rw [Int.add_mul]; omega
            rw [e]; exact hadm)
        (by intro i hi
            have e : g + step + (i : Int) * step = g + ((i + 1 : Nat) : Int) * step := by
              push_cast; rw [Int.add_mul]; omega
            rw [e]; exact hrej (i + 1) (by omega))
      rw [this]
      congr 1
      push_cast; rw [Int.add_mul]; omega

/-- … **known finding F7a**: and never returns when the filter rejects every grid point: for EVERY fuel the
model reports `DIVERGED` (the stand-in for "the real `while` loop keeps spinning") -/
theorem interval_unsat_never_returns (env : Env) (f : Option Filter) (step : Int)
    (hrej : ∀ t, env.allows f t = false) : ∀ (fuel : Nat) (g : Int), gridSearch env f step fuel g = .error .diverged := by
  intro fuel
  induction fuel with
  | zero => intro g; rfl
  | succ n ih => intro g; unfold gridSearch; simp [hrej g, ih]

/-- outcomes of a time-of-day trigger: an instant, `InfiniteLoopDetectedError`, or an error of `replace`
(`ValueError` after 121 minutes, `RepeatedTime` from the *after* policy) — the loop itself is bounded -/
theorem timeNext_outcomes (env : Env) (r : TimeRep) (f : Option Filter) (dt : Int) (e : Err)
    (h : timeNext env r f dt = .error e) :
    e = .infiniteLoop ∨ ∃ day, r.replace env.zone day = .error e := by
  unfold timeNext at h
  refine loopN_err (fun e => e = .infiniteLoop ∨ ∃ day, r.replace env.zone day = .error e) _ (Or.inl rfl) ?_ _ _ _ h
  intro st e' hb
  split at hb
  · next e'' hr => simp at hb; subst hb; exact Or.inr ⟨st, hr⟩
  · split at hb <;> simp at hb

/-- the proved part of C16: everything except the filter search of the interval trigger is bounded by
explicit counters, and the loop bound of the code is the one of the model -/
theorem C16_partial :
    Ea.Gen.loopBound = Ea.LOOP ∧ Ea.Gen.afterTries = Ea.AFTER_TRIES ∧ Ea.Gen.sunTries = Ea.SUN_TRIES := by
  decide

-- non-vacuity (executable checks): with an unsatisfiable filter the fuel of the interval search runs out;
-- a bounded loop that is exhausted reports InfiniteLoopDetectedError (the 99 999-date case of a time-of-day
-- trigger is exercised by the correspondence run, it is too slow for the build)
#guard (match getNext { intervalFuel := 5000 } (.interval (some 0) 10 (some (.all [.dow [1], .dow [2]]))) 0 with
  | .error .diverged => true | _ => false)
#guard (match (loopN 50 (0 : Int) (fun st => .ok (.inl (st + 1))) : Except Err Int) with
  | .error .infiniteLoop => true | _ => false)

end Ea.C16
