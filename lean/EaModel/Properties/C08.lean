import EaModel.Properties.SchedCommon
/-!
# C08 — one-shot and countdown jobs fire exactly when promised
-/
namespace Ea.C08

/-- what `reset` announces: the run time is the instant of the reset plus the countdown value in force -/
theorem reset_announces (s : St) (j : Nat) (h : (setNextRun s j (some (s.now + (s.job j).secs))).2 = none) :
    ((setNextRun s j (some (s.now + (s.job j).secs))).1.job j).nextRun = some (s.now + (s.job j).secs) ∧
    ((setNextRun s j (some (s.now + (s.job j).secs))).1.job j).status = .running := by
  rcases setNextRun_spec s j (some (s.now + (s.job j).secs)) with ⟨_, h2⟩ | ⟨_, b', hb, hnr, hjobs, _⟩
  · rw [h2] at h; cases h
  · have : (setNextRun s j (some (s.now + (s.job j).secs))).1.job j = b' := by
      show (setNextRun s j (some (s.now + (s.job j).secs))).1.jobs j = b'
      rw [hjobs]; simp
    rw [this]
    exact ⟨hnr, hb.1.2 ⟨_, hnr⟩⟩

/-- a positive countdown is never rejected as "in the past" -/
theorem reset_accepted (s : St) (j : Nat) (hpos : 0 < (s.job j).secs) :
    (setNextRun s j (some (s.now + (s.job j).secs))).2 = none := by
  apply setNextRun_ok_of_ge
  simp only [PAST_TOLERANCE, NS_PER_MS]
  omega

/-- after it fired a countdown job is paused and reports no run time until the next reset -/
theorem countdown_fire_pauses (setT : St → St) (s : St) (j : Nat) (hk : (s.job j).kind = .countdown) :
    ((updateNext setT s j).1.job j).nextRun = none ∧ ((updateNext setT s j).1.job j).status = .paused := by
  unfold updateNext
  simp only [hk]
  unfold setNextRun
  simp only []
  obtain ⟨_, h2, _⟩ := runCbs_frame false j
      ((s.setJob j { s.job j with nextRun := none, status := .paused }).job j).onUpdate
      (s.setJob j { s.job j with nextRun := none, status := .paused })
  show ((runCbs false j _ _).jobs j).nextRun = none ∧ ((runCbs false j _ _).jobs j).status = .paused
  rw [h2]
  simp [St.setJob]

/-- a one-shot job is finished by its execution: `update_next` of a one-shot job is `job_finish` -/
theorem once_finishes (setT : St → St) (s : St) (j : Nat) (t : Int) (hk : (s.job j).kind = .once t)
    (hst : (s.job j).status ≠ .finished) :
    (updateNext setT s j).2 = none := by
  unfold updateNext
  simp only [hk]
  unfold jobFinish
  simp [hst]

/-- the queue never holds a job twice, so a one-shot job can be taken from it at most once -/
theorem queued_once (env : Env) (now : Int) (en : Bool) (ops : List Op) :
    (runOps (initSt env now en) ops).queue.Nodup :=
  (inv_reachable env now en ops).q.nodup

-- non-vacuity (executable checks): reset at 2 with 5 s fires at 7; a second reset at 4 moves it to 9
#guard ((runOps (initSt {} 0) [.create 1 none (.countdown 5) [] [], .advance 2, .reset 1, .sleep 10]).log.filterMap
  fun e => match e with | .exec j t _ => some (j, t) | _ => none) == [(1, 7)]
#guard ((runOps (initSt {} 0) [.create 1 none (.countdown 5) [] [], .advance 2, .reset 1, .sleep 2, .reset 1,
    .sleep 10]).log.filterMap fun e => match e with | .exec j t _ => some (j, t) | _ => none) == [(1, 9)]

end Ea.C08
