import EaModel.Properties.C01
import EaModel.Lemmas.Create
import EaModel.Lemmas.History
/-!
# C08 — one-shot and countdown jobs fire exactly when promised
-/
namespace Ea.C08

/-- what `reset` announces: the run time is the instant of the reset plus the countdown value in force -/
theorem reset_announces (s : St) (j : Nat) (h : (setNextRun s j (some (s.now + (s.job j).secs))).2 = none) :
    ((setNextRun s j (some (s.now + (s.job j).secs))).1.job j).nextRun = some (s.now + (s.job j).secs) ∧
    ((setNextRun s j (some (s.now + (s.job j).secs))).1.job j).status = .running := by
  rcases setNextRun_spec s j (some (s.now + (s.job j).secs)) with ⟨_, h2⟩ | ⟨_, b', hb, hnr, hjobs, _⟩
  · rw [h2] at h; cases h
  · have : (setNextRun s j (some (s.now + (s.job j).secs))).1.job j = b' := by
      show (setNextRun s j (some (s.now + (s.job j).secs))).1.jobs j = b'
      rw [hjobs]; simp
    rw [this]
    exact ⟨hnr, hb.1.2 ⟨_, hnr⟩⟩

/-- a positive countdown is never rejected as "in the past" -/
theorem reset_accepted (s : St) (j : Nat) (hpos : 0 < (s.job j).secs) :
    (setNextRun s j (some (s.now + (s.job j).secs))).2 = none := by
  apply setNextRun_ok_of_ge
  simp only [PAST_TOLERANCE, NS_PER_MS]
  omega

/-- after it fired a countdown job is paused and reports no run time until the next reset -/
theorem countdown_fire_pauses (setT : St → St) (s : St) (j : Nat) (hk : (s.job j).kind = .countdown) :
    ((updateNext setT s j).1.job j).nextRun = none ∧ ((updateNext setT s j).1.job j).status = .paused := by
  unfold updateNext
  simp only [hk]
  unfold setNextRun
  simp only []
  obtain ⟨_, h2, _⟩ := runCbs_frame false j
      ((s.setJob j { s.job j with nextRun := none, status := .paused }).job j).onUpdate
      (s.setJob j { s.job j with nextRun := none, status := .paused })
  show ((runCbs false j _ _).jobs j).nextRun = none ∧ ((runCbs false j _ _).jobs j).status = .paused
  rw [h2]
  simp [St.setJob]

/-- a one-shot job is finished by its execution: `update_next` of a one-shot job is `job_finish` -/
theorem once_finishes (setT : St → St) (s : St) (j : Nat) (t : Int) (hk : (s.job j).kind = .once t)
    (hst : (s.job j).status ≠ .finished) :
    (updateNext setT s j).2 = none := by
  unfold updateNext
  simp only [hk]
  unfold jobFinish
  simp [hst]

/-- the queue never holds a job twice, so a one-shot job can be taken from it at most once -/
theorem queued_once (env : Env) (now : Int) (en : Bool) (ops : List Op) :
    (runOps (initSt env now en) ops).queue.Nodup :=
  (inv_reachable env now en ops).q.nodup

/-- A one-shot job fires exactly when promised: in every reachable state, `once(t)` for a future instant `t`
on a fresh handle succeeds and queues the job for `t`; if the loop then sleeps past `t`, the job is executed at
the instant `t` itself with the due time `t` — whatever other jobs exist and whatever they do. -/
theorem once_runs_at_its_instant (env : Env) (now : Int) (en : Bool) (ops : List Op) (j : Nat) (key : Option Nat)
    (t d : Int) (ef tf : List Nat) :
    let s := runOps (initSt env now en) ops
    s.enabled = true → (s.job j).status = .created → s.dupKey key = false → t > s.now → t ≤ s.now + d →
    let s1 := (step s (.create j key (.once t) ef tf)).1
    let s2 := (step s1 (.sleep d)).1
    (step s (.create j key (.once t) ef tf)).2 = none ∧ s1.nr j = some t ∧
    (C01.Exhausted s2 ∨ ∃ l, s2.log = l ++ s1.log ∧ Ev.exec j t t ∈ l) := by
  intro s hen hfresh hkey ht hle s1 s2
  have hI : Inv s := inv_reachable env now en ops
  obtain ⟨h1, h2, h3⟩ := create_once_queued s j key t ef tf hI hfresh hkey ht
  refine ⟨h1, h3, ?_⟩
  have hc := C01.due_jobs_executed_at_their_time env now en (ops ++ [.create j key (.once t) ef tf]) j t d
  have hs1 : runOps (initSt env now en) (ops ++ [.create j key (.once t) ef tf]) = s1 := by
    unfold runOps; rw [List.foldl_append]; rfl
  simp only [hs1] at hc
  have hn1 : s1.now = s.now ∧ s1.enabled = s.enabled :=
    ⟨(createJob_clock s j key (.once t) ef tf _ hI).now, (createJob_clock s j key (.once t) ef tf _ hI).enabled⟩
  have := hc (by rw [hn1.2]; exact hen) h2 h3 (by rw [hn1.1]; exact hle)
  rw [if_pos (by rw [hn1.1]; exact ht)] at this
  exact this

/-- A countdown job fires at (instant of the reset + countdown value): in every reachable state, `reset()` of a
linked countdown job with a positive countdown queues it for now + countdown; if the loop then sleeps past that
instant, the job is executed exactly then. -/
theorem countdown_runs_at_reset_plus_countdown (env : Env) (now : Int) (en : Bool) (ops : List Op) (j : Nat) (d : Int) :
    let s := runOps (initSt env now en) ops
    s.enabled = true → isCountdown (s.job j) = true → (s.job j).linked = true → 0 < (s.job j).secs →
    (s.job j).secs ≤ d →
    let s1 := (step s (.reset j)).1
    let s2 := (step s1 (.sleep d)).1
    (step s (.reset j)).2 = none ∧ s1.nr j = some (s.now + (s.job j).secs) ∧
    (C01.Exhausted s2 ∨
      ∃ l, s2.log = l ++ s1.log ∧ Ev.exec j (s.now + (s.job j).secs) (s.now + (s.job j).secs) ∈ l) := by
  intro s hen hc hl hpos hle s1 s2
  have hI : Inv s := inv_reachable env now en ops
  obtain ⟨h1, h2, h3⟩ := reset_queued s j hI hc hl hpos
  refine ⟨h1, h3, ?_⟩
  have hx := C01.due_jobs_executed_at_their_time env now en (ops ++ [.reset j]) j (s.now + (s.job j).secs) d
  have hs1 : runOps (initSt env now en) (ops ++ [.reset j]) = s1 := by
    unfold runOps; rw [List.foldl_append]; rfl
  simp only [hs1] at hx
  have c := reset_clock s j hI
  have := hx (by rw [c.enabled]; exact hen) h2 h3 (by rw [c.now]; omega)
  rw [if_pos (by rw [c.now]; omega)] at this
  exact this

/-- A job that is queued for the instant `t` stays queued for `t` until it is executed for `t` (never before `t`),
through any history of operations that do not address it: creations of and operations on other jobs, clock
advances, wake-ups, sleeps, switching the scheduler off and on, failures of other jobs. -/
theorem queued_until_executed (env : Env) (now : Int) (en : Bool) (ops more : List Op) (i : Nat) (t : Int) :
    let s := runOps (initSt env now en) ops
    i ∈ s.queue → s.nr i = some t → (∀ op ∈ more, op.target ≠ some i ∧ op.adds ≠ some i) →
    let s' := runOps s more
    (∃ l t', s'.log = l ++ s.log ∧ Ev.exec i t' t ∈ l ∧ t ≤ t') ∨ (i ∈ s'.queue ∧ s'.nr i = some t) := by
  intro s hm ht hop s'
  have hI : Inv s := inv_reachable env now en ops
  have key : ∀ (more : List Op) (s : St), Inv s → (∀ op ∈ more, op.target ≠ some i ∧ op.adds ≠ some i) →
      KeepH i s (runOps s more) ∧ LogExt s (runOps s more) ∧ Inv (runOps s more) := by
    intro more
    induction more with
    | nil => intro s hI _; exact ⟨KeepH.refl i s, LogExt.refl s, hI⟩
    | cons op more ih =>
      intro s hI hop
      have k1 := step_keepH s op i hI (hop op (by simp)).1 (hop op (by simp)).2
      have e1 := step_ext s op hI
      obtain ⟨k2, e2, i2⟩ := ih (step s op).1 (step_inv s op hI) (fun o ho => hop o (by simp [ho]))
      exact ⟨k1.trans k2 e1 e2, e1.trans e2, i2⟩
  obtain ⟨k, _, hI'⟩ := key more s hI hop
  rcases k t hm ht with ⟨l, t', hl, hin⟩ | hr
  · left
    have : evOK (Ev.exec i t' t) := hI'.log _ (by rw [hl]; exact List.mem_append_left _ hin)
    exact ⟨l, t', hl, hin, this⟩
  · exact Or.inr hr

/-- A countdown job that was reset fires for (instant of the reset + countdown value in force) provided no
reset, stop, cancel or other operation on it happens before: whatever else happens, it stays queued for that
instant until it is executed for it, and never earlier. -/
theorem countdown_fires_unless_touched (env : Env) (now : Int) (en : Bool) (ops more : List Op) (j : Nat) :
    let s := runOps (initSt env now en) ops
    isCountdown (s.job j) = true → (s.job j).linked = true → 0 < (s.job j).secs →
    (∀ op ∈ more, op.target ≠ some j ∧ op.adds ≠ some j) →
    let s1 := (step s (.reset j)).1
    let s2 := runOps s1 more
    (∃ l t', s2.log = l ++ s1.log ∧ Ev.exec j t' (s.now + (s.job j).secs) ∈ l ∧ s.now + (s.job j).secs ≤ t') ∨
    (j ∈ s2.queue ∧ s2.nr j = some (s.now + (s.job j).secs)) := by
  intro s hc hl hpos hop s1 s2
  have hI : Inv s := inv_reachable env now en ops
  obtain ⟨_, h2, h3⟩ := reset_queued s j hI hc hl hpos
  have hs1 : runOps (initSt env now en) (ops ++ [.reset j]) = s1 := by
    unfold runOps; rw [List.foldl_append]; rfl
  have := queued_until_executed env now en (ops ++ [.reset j]) more j (s.now + (s.job j).secs)
  simp only [hs1] at this
  exact this h2 h3 hop

-- non-vacuity (executable checks): reset at 2 with 5 s fires at 7; a second reset at 4 moves it to 9
#guard ((runOps (initSt {} 0) [.create 1 none (.countdown 5) [] [], .advance 2, .reset 1, .sleep 10]).log.filterMap
  fun e => match e with | .exec j t _ => some (j, t) | _ => none) == [(1, 7)]
#guard ((runOps (initSt {} 0) [.create 1 none (.countdown 5) [] [], .advance 2, .reset 1, .sleep 2, .reset 1,
    .sleep 10]).log.filterMap fun e => match e with | .exec j t _ => some (j, t) | _ => none) == [(1, 9)]

end Ea.C08
