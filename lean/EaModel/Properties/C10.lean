import EaModel.Properties.C01
import EaModel.Properties.C09
import EaModel.Lemmas.Clean
/-!
# C10 — failures in user code stay isolated
-/
namespace Ea.C10

/-- a raising callback is reported and the remaining callbacks still run: `runCbs` changes nothing but the log -/
theorem callbacks_only_log (fin : Bool) (j : Nat) (cs : List Nat) (s : St) :
    (runCbs fin j cs s).queue = s.queue ∧ (runCbs fin j cs s).jobs = s.jobs ∧
    (runCbs fin j cs s).timer = s.timer ∧ (runCbs fin j cs s).enabled = s.enabled ∧
    (runCbs fin j cs s).store = s.store := by
  obtain ⟨h1, h2, h3, _, h5, h6, _⟩ := runCbs_frame fin j cs s
  exact ⟨h1, h2, h3, h5, h6⟩

/-- whatever raises inside a wake-up (callable, callback, trigger), the scheduler's invariant holds
afterwards — for every fuel, every state, every failure injection -/
theorem wakeup_keeps_invariant (fuel : Nat) (s : St) (h : Inv s) : Inv (runJobs fuel s) :=
  runJobs_inv fuel h

/-- a failed reschedule does not leave the job RUNNING with the run time it was just executed for:
after `execute` the job's run time differs from `due` or the job is not running -/
theorem trigger_failure_no_reexec (setT : St → St) (s : St) (j : Nat) (due : Int) (e : Err)
    (hfail : (updateNext setT (
        (if (s.job j).execFail.contains (s.job j).execs = true then
          (((s.emit (Ev.exec j s.now due)).setJob j { s.job j with execs := (s.job j).execs + 1, lastRun := some s.now })).emit (Ev.exc "CallableError")
        else ((s.emit (Ev.exec j s.now due)).setJob j { s.job j with execs := (s.job j).execs + 1, lastRun := some s.now }))) j).2 = some e) :
    ¬ (((execute setT s j due).job j).status = .running ∧ ((execute setT s j due).job j).nextRun = some due) := by
  unfold execute
  simp only []
  generalize (if (s.job j).execFail.contains (s.job j).execs = true then
      (((s.emit (Ev.exec j s.now due)).setJob j { s.job j with execs := (s.job j).execs + 1, lastRun := some s.now })).emit (Ev.exc "CallableError")
    else ((s.emit (Ev.exec j s.now due)).setJob j { s.job j with execs := (s.job j).execs + 1, lastRun := some s.now })) = s0 at hfail ⊢
  split
  · rename_i s' heq
    rw [heq] at hfail; cases hfail
  · rename_i s' e' heq
    split
    · -- paused by the repair of finding F4
      intro ⟨hr, _⟩
      have := (setNextRun_spec (s'.emit (Ev.exc e'.name)) j none)
      rcases this with ⟨_, h2⟩ | ⟨_, b', hb, hnr, hjobs, _⟩
      · simp [setNextRun] at h2
      · have hj : (setNextRun (s'.emit (Ev.exc e'.name)) j none).1.job j = b' := by
          show (setNextRun (s'.emit (Ev.exc e'.name)) j none).1.jobs j = b'
          rw [hjobs]; simp
        rw [hj] at hr
        have := hb.1.1 hr
        rw [hnr] at this
        obtain ⟨t, ht⟩ := this
        cases ht
    · rename_i hcond
      intro hh
      exact hcond hh

-- non-vacuity (executable check): the trigger of job 1 raises at its 2nd query (after the 1st execution):
-- the job is executed once for that run time, is paused afterwards, and job 2 still runs
#guard ((runOps (initSt {} 0) [.create 1 none (.at (.interval (some 0) 10 none)) [] [1],
    .create 2 none (.at (.interval (some 5) 10 none)) [] [], .sleep 30]).log.reverse.filterMap
  fun e => match e with | .exec j t _ => some (j, t) | _ => none) == [(2, 5), (1, 10), (2, 15), (2, 25)]


/-- the results (raised errors) of the operations of a history, in order -/
def results (s : St) : List Op → List (Option Err)
  | [] => []
  | op :: ops => (step s op).2 :: results (step s op).1 ops

theorem runOps_clean (s : St) (ops : List Op) :
    (runOps s ops).clean = runOps s.clean (ops.map Op.clean) ∧ results s ops = results s.clean (ops.map Op.clean) := by
  induction ops generalizing s with
  | nil => exact ⟨rfl, rfl⟩
  | cons op ops ih =>
    obtain ⟨h1, h2⟩ := step_clean s op
    obtain ⟨i1, i2⟩ := ih (step s op).1
    refine ⟨?_, ?_⟩
    · show (runOps (step s op).1 ops).clean = runOps (step s.clean op.clean).1 (ops.map Op.clean)
      rw [i1, h1]
    · show (step s op).2 :: results (step s op).1 ops =
        (step s.clean op.clean).2 :: results (step s.clean op.clean).1 (ops.map Op.clean)
      rw [i2, h1, h2]

/-- Failures in user code have no other effect than their report: take any history in which callables and
callbacks raise (any jobs, any invocations), and the same history with those failures removed (`Op.clean`:
no failing executions are injected, no callback is made to fail). Every operation returns / raises the same in
both, and the final states agree in everything — job status and run times, queue, armed timer, job store,
clock, every execution and every callback invocation logged, in order — except for the reports themselves
(`St.clean` drops the `CallableError` / `CallbackError` reports from the log and forgets the injection). In
particular the failing job keeps its normal schedule, other due jobs execute as they would, and the scheduler
stays armed. (Failures while the next run is computed are a different matter: `trigger_failure_no_reexec`.) -/
theorem failures_have_no_other_effect (env : Env) (now : Int) (en : Bool) (ops : List Op) :
    (runOps (initSt env now en) ops).clean = runOps (initSt env now en) (ops.map Op.clean) ∧
    results (initSt env now en) ops = results (initSt env now en) (ops.map Op.clean) := by
  have h := runOps_clean (initSt env now en) ops
  have e : (initSt env now en).clean = initSt env now en := rfl
  rw [e] at h
  exact h

/-- what `clean` keeps: everything but the injection and the reports -/
theorem clean_keeps (s : St) :
    s.clean.queue = s.queue ∧ s.clean.timer = s.timer ∧ s.clean.store = s.store ∧ s.clean.now = s.now ∧
    s.clean.enabled = s.enabled ∧
    (∀ j, (s.clean.job j).status = (s.job j).status ∧ (s.clean.job j).nextRun = (s.job j).nextRun ∧
      (s.clean.job j).execs = (s.job j).execs) ∧
    s.clean.log = s.log.filter (fun e => !isInj e) :=
  ⟨rfl, rfl, rfl, rfl, rfl, fun _ => ⟨rfl, rfl, rfl⟩, rfl⟩

-- non-vacuity: a failing callable and a failing callback are reported, nothing else differs
#guard (runOps (initSt {} 0) [.create 1 none (.countdown 5) [0] [], .cbReg false 1 7, .cbFails 7, .reset 1, .sleep 10]).log.length
  == (runOps (initSt {} 0) [.create 1 none (.countdown 5) [] [], .cbReg false 1 7, .reset 1, .sleep 10]).log.length + 3

end Ea.C10
