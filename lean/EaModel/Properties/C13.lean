import EaModel.Properties.C04
/-!
# C13 — offset, earliest, latest and jitter mean what they say

Each theorem is about an arbitrary inner trigger `p`, so nested forms follow by composition.
-/
namespace Ea.C13

/-- the value an operation returns is `apply n` for an occurrence `n` of the underlying trigger that was
queried from an instant not before the reference instant -/
theorem op_result_from_inner (env : Env) (p : Producer) (f : Option Filter) (dt r : Int)
    (apply : Int → Except Err Int)
    (h : loopN LOOP dt (fun cur =>
      match getNext env p cur with
      | .error e => .error e
      | .ok n => opStep env f dt n (apply n)) = .ok r) :
    ∃ cur n, dt ≤ cur ∧ getNext env p cur = .ok n ∧ apply n = .ok r ∧ r > dt ∧ env.allows f r = true := by
  refine loopN_inv (fun cur => dt ≤ cur)
    (fun r => ∃ cur n, dt ≤ cur ∧ getNext env p cur = .ok n ∧ apply n = .ok r ∧ r > dt ∧ env.allows f r = true)
    _ ?_ ?_ _ _ _ (Int.le_refl _) h
  · intro cur a hcur hb
    split at hb
    · simp at hb
    · next n hn =>
      unfold opStep at hb
      split at hb
      · simp at hb
      · next v hv =>
        split at hb
        · next hc => simp at hb; subst hb; exact ⟨cur, n, hcur, hn, hv, hc.1, hc.2⟩
        · simp at hb
  · intro cur cur' hcur hb
    split at hb
    · simp at hb
    · next n hn =>
      unfold opStep at hb
      split at hb
      · simp at hb
      · split at hb
        · simp at hb
        · simp at hb; subst hb
          have := C04.getNext_gt env p cur n hn
          omega

/-- the occurrences of the underlying trigger as a job follows them from `dt`: each one is `get_next` of the one
before; `ChainTo dt ns cur` — `ns` lists them in order and `cur` is the last one (`dt` itself when there is none) -/
inductive ChainTo (env : Env) (p : Producer) (dt : Int) : List Int → Int → Prop
  | nil : ChainTo env p dt [] dt
  | snoc {ns : List Int} {cur n : Int} : ChainTo env p dt ns cur → getNext env p cur = .ok n →
      ChainTo env p dt (ns ++ [n]) n

/-- **no occurrence of the underlying trigger is passed over**: the search of an operation walks the occurrences of
the underlying trigger one by one, starting at the reference instant; the occurrence `n` whose image is returned is
the first one whose image lies after the reference instant and passes the operation's filter — every occurrence
before it in the chain was transformed, tested and rejected for exactly that reason -/
theorem op_tries_every_occurrence (env : Env) (p : Producer) (f : Option Filter) (dt r : Int)
    (apply : Int → Except Err Int)
    (h : loopN LOOP dt (fun cur =>
      match getNext env p cur with
      | .error e => .error e
      | .ok n => opStep env f dt n (apply n)) = .ok r) :
    ∃ ns n, ChainTo env p dt (ns ++ [n]) n ∧ apply n = .ok r ∧ r > dt ∧ env.allows f r = true ∧
      ∀ m ∈ ns, ∃ v, apply m = .ok v ∧ ¬ (v > dt ∧ env.allows f v = true) := by
  refine loopN_inv
    (fun cur => ∃ ns, ChainTo env p dt ns cur ∧ ∀ m ∈ ns, ∃ v, apply m = .ok v ∧ ¬ (v > dt ∧ env.allows f v = true))
    (fun r => ∃ ns n, ChainTo env p dt (ns ++ [n]) n ∧ apply n = .ok r ∧ r > dt ∧ env.allows f r = true ∧
      ∀ m ∈ ns, ∃ v, apply m = .ok v ∧ ¬ (v > dt ∧ env.allows f v = true))
    _ ?_ ?_ _ _ _ ⟨[], ChainTo.nil, by simp⟩ h
  · intro cur a ⟨ns, hch, hrej⟩ hb
    split at hb
    · simp at hb
    · next n hn =>
      unfold opStep at hb
      split at hb
      · simp at hb
      · next v hv =>
        split at hb
        · next hc =>
          simp at hb; subst hb
          exact ⟨ns, n, ChainTo.snoc hch hn, hv, hc.1, hc.2, hrej⟩
        · simp at hb
  · intro cur cur' ⟨ns, hch, hrej⟩ hb
    split at hb
    · simp at hb
    · next n hn =>
      unfold opStep at hb
      split at hb
      · simp at hb
      · next v hv =>
        split at hb
        · simp at hb
        · next hc =>
          simp at hb; subst hb
          refine ⟨ns ++ [n], ChainTo.snoc hch hn, ?_⟩
          intro m hm
          rcases List.mem_append.1 hm with hm | hm
          · exact hrej m hm
          · simp at hm; subst hm; exact ⟨v, hv, hc⟩

/-- for **offset**: the returned instant is `n + off` for the first occurrence `n` in the chain of the underlying
trigger from `dt` with `n + off > dt` admitted by the filter; none before it is skipped -/
theorem offset_first_in_chain (env : Env) (p : Producer) (off : Int) (f : Option Filter) (dt r : Int)
    (h : getNext env (.offset p off f) dt = .ok r) :
    ∃ ns n, ChainTo env p dt (ns ++ [n]) n ∧ r = n + off ∧ r > dt ∧ env.allows f r = true ∧
      ∀ m ∈ ns, ¬ (m + off > dt ∧ env.allows f (m + off) = true) := by
  unfold getNext at h
  obtain ⟨ns, n, h1, h2, h3, h4, h5⟩ := op_tries_every_occurrence env p f dt r (fun n => .ok (n + off)) h
  simp at h2
  refine ⟨ns, n, h1, h2.symm, h3, h4, ?_⟩
  intro m hm
  obtain ⟨v, hv, hc⟩ := h5 m hm
  simp at hv; subst hv; exact hc

/-- **offset** shifts an occurrence of the underlying trigger by exactly the given amount -/
theorem offset_exact (env : Env) (p : Producer) (off : Int) (f : Option Filter) (dt r : Int)
    (h : getNext env (.offset p off f) dt = .ok r) :
    ∃ cur n, dt ≤ cur ∧ getNext env p cur = .ok n ∧ r = n + off ∧ r > dt := by
  unfold getNext at h
  obtain ⟨cur, n, h1, h2, h3, h4, _⟩ := op_result_from_inner env p f dt r (fun n => .ok (n + off)) h
  simp at h3
  exact ⟨cur, n, h1, h2, h3.symm, h4⟩

/-- the bound `replace` selects lies among the candidates of the local date of the occurrence -/
theorem bound_is_candidate (env : Env) (r : TimeRep) (n dt b : Int) (h : boundFor env r n dt = .ok (some b)) :
    ∃ cs, r.replace env.zone (env.zone.localDay n) = .ok cs ∧ b ∈ cs := by
  unfold boundFor at h
  split at h
  · simp at h
  · simp at h
  · next b' hb => simp at h; subst h; exact ⟨[b'], hb, by simp⟩
  · next a c rest hb =>
    simp at h
    refine ⟨a :: c :: rest, hb, ?_⟩
    split at h <;> subst h <;> simp

/-- **earliest**: unchanged when the occurrence is not before the bound, otherwise the bound's instant;
with policy *skip* on a day without such wall clock time the occurrence is unchanged -/
theorem earliest_clamp (env : Env) (r : TimeRep) (n dt v : Int) (h : earliestApply env r n dt = .ok v) :
    (boundFor env r n dt = .ok none ∧ v = n) ∨
    (∃ b, boundFor env r n dt = .ok (some b) ∧ ((b ≤ n ∧ v = n) ∨ (n < b ∧ v = b))) := by
  unfold earliestApply at h
  split at h
  · simp at h
  · next hb => simp at h; left; exact ⟨hb, h.symm⟩
  · next b hb =>
    simp at h
    right
    refine ⟨b, hb, ?_⟩
    split at h
    · next hlt => right; exact ⟨hlt, h.symm⟩
    · next hge => left; exact ⟨by omega, h.symm⟩

/-- **latest**: unchanged when the occurrence is not after the bound, otherwise the bound's instant -/
theorem latest_clamp (env : Env) (r : TimeRep) (n dt v : Int) (h : latestApply env r n dt = .ok v) :
    (boundFor env r n dt = .ok none ∧ v = n) ∨
    (∃ b, boundFor env r n dt = .ok (some b) ∧ ((n ≤ b ∧ v = n) ∨ (b < n ∧ v = b))) := by
  unfold latestApply at h
  split at h
  · simp at h
  · next hb => simp at h; left; exact ⟨hb, h.symm⟩
  · next b hb =>
    simp at h
    right
    refine ⟨b, hb, ?_⟩
    split at h
    · next hgt => right; exact ⟨hgt, h.symm⟩
    · next hle => left; exact ⟨by omega, h.symm⟩

/-- earliest / latest never move an occurrence beyond the bound, and never move one that is within it -/
theorem earliest_latest_result (env : Env) (p : Producer) (tr : TimeRep) (f : Option Filter) (dt r : Int) :
    (getNext env (.earliest p tr f) dt = .ok r →
      ∃ cur n, dt ≤ cur ∧ getNext env p cur = .ok n ∧ earliestApply env tr n dt = .ok r ∧ n ≤ r) ∧
    (getNext env (.latest p tr f) dt = .ok r →
      ∃ cur n, dt ≤ cur ∧ getNext env p cur = .ok n ∧ latestApply env tr n dt = .ok r ∧ r ≤ n) := by
  constructor
  · intro h
    unfold getNext at h
    obtain ⟨cur, n, h1, h2, h3, _, _⟩ := op_result_from_inner env p f dt r (fun n => earliestApply env tr n dt) h
    refine ⟨cur, n, h1, h2, h3, ?_⟩
    rcases earliest_clamp env tr n dt r h3 with ⟨_, e⟩ | ⟨b, _, ⟨_, e⟩ | ⟨hlt, e⟩⟩ <;> omega
  · intro h
    unfold getNext at h
    obtain ⟨cur, n, h1, h2, h3, _, _⟩ := op_result_from_inner env p f dt r (fun n => latestApply env tr n dt) h
    refine ⟨cur, n, h1, h2, h3, ?_⟩
    rcases latest_clamp env tr n dt r h3 with ⟨_, e⟩ | ⟨b, _, ⟨_, e⟩ | ⟨hlt, e⟩⟩ <;> omega

/-- a random source that returns a value inside the requested range, as `random.uniform(a, b)` does -/
def DrawInRange (env : Env) : Prop := ∀ a b n dt, a ≤ b → a ≤ env.draw a b n dt ∧ env.draw a b n dt ≤ b

/-- **jitter**: whenever the window `[n + low, n + high]` lies after the reference instant (always, for
`low ≥ 0`) the result is inside it; otherwise the window is shifted to start just after the reference instant -/
theorem jitter_window (env : Env) (low high n dt : Int) (hd : DrawInRange env) (hlh : low ≤ high) :
    ((0 ≤ low ∨ dt - n < low) → n + low ≤ jitterApply env low high n dt ∧ jitterApply env low high n dt ≤ n + high) ∧
    (¬ (0 ≤ low ∨ dt - n < low) →
      dt + JITTER_EPS ≤ jitterApply env low high n dt ∧ jitterApply env low high n dt ≤ dt + JITTER_EPS + (high - low)) := by
  unfold jitterApply
  constructor
  · intro hc
    split
    · have := hd low high n dt hlh; omega
    · next hneg =>
      simp only []
      split
      · have := hd low high n dt hlh; omega
      · next hge => rcases hc with hc | hc <;> omega
  · intro hc
    split
    · next h0 => exact absurd (Or.inl h0) hc
    · simp only []
      split
      · next hlt => exact absurd (Or.inr hlt) hc
      · have := hd (low + (dt - n - low + JITTER_EPS)) (high + (dt - n - low + JITTER_EPS)) n dt (by omega)
        omega

/-- the jitter epsilon of the code (read from the imported source on every run) is the one of the model -/
theorem jitter_eps_matches : Ea.Gen.jitterEpsNs = Ea.JITTER_EPS := by decide

-- non-vacuity (executable checks)
#guard okVal (getNext {} (.offset (.interval (some 0) 10 none) (-4) none) 20) == some 26
#guard okVal (earliestApply {} { tod := 8 * NS_PER_HOUR } (5 * NS_PER_HOUR) 0) == some (8 * NS_PER_HOUR)
#guard okVal (latestApply {} { tod := 8 * NS_PER_HOUR } (9 * NS_PER_HOUR) 0) == some (8 * NS_PER_HOUR)
example : DrawInRange {} := by intro a b n dt h; simp; exact h

-- the chain theorem is not vacuous: an offset of 8 h over a 6 h grid, queried at 0, returns 6 h + 8 h
#guard okVal (getNext {} (.offset (.interval (some 0) (6 * NS_PER_HOUR) none) (8 * NS_PER_HOUR) none) 0) == some (14 * NS_PER_HOUR)

end Ea.C13
