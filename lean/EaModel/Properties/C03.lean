import EaModel.Properties.C01
import EaModel.Properties.C04
import EaModel.Properties.C05
import EaModel.Lemmas.Recur
import EaModel.Properties.C02
/-!
# C03 — recurring jobs realise their trigger occurrence sequence end to end

C03 is the composition of two proved layers:
* the scheduler (C01): a job is executed when the clock reaches the run time it reports, never earlier
  (`Ea.C01.never_early`, `Ea.inv_reachable`), and after an execution `update_next` asks the trigger for
  `getNext producer now` where `now` is the execution instant;
* the trigger (C04/C05): `getNext` returns the least admissible occurrence strictly after its argument
  (`Ea.C05.getNext_least`, `Ea.C04.getNext_gt`).
`reschedule_is_next_occurrence` states the link: what the job reports after an execution is the least admissible
occurrence of its trigger after the execution instant. `recurring_round` is one full round of the cycle in any
reachable state, whatever else is queued: the due job is executed by the wake-up and is queued again, for exactly
that next occurrence. By `C02.one_execution_per_announcement` no announcement is executed twice. The statement
over days to weeks in real zones is in addition decided by the correspondence run (model vs. real scheduler under
the virtual clock in zones with clock changes, with late wake-ups) and by an oracle that enumerates occurrences
independently.
-/
namespace Ea.C03

/-- after an execution at `s.now` a recurring job whose trigger belongs to the time / interval / group fragment
reports the least admissible occurrence of the trigger strictly after `s.now` -/
theorem reschedule_is_next_occurrence (setT : St → St) (s : St) (j : Nat) (p : Producer)
    (hk : (s.job j).kind = .recurring p) (hl : (s.job j).linked = true)
    (hf : C05.InFragment s.env (p.anchorAt s.now))
    (hnofail : (s.job j).trigFail.contains (s.job j).calls = false)
    (hnoperm : ¬ (s.job j).trigFailFrom ≤ (s.job j).calls)
    (r : Int) (hr : getNext s.env (p.anchorAt s.now) s.now = .ok r) :
    LeastAfter (C05.Adm s.env (p.anchorAt s.now)) s.now r ∧
    (updateNext setT s j).2 = none ∧ ((updateNext setT s j).1.job j).nextRun = some r := by
  refine ⟨C05.getNext_least s.env _ hf s.now r hr, ?_⟩
  have hgt := C04.getNext_gt s.env _ s.now r hr
  have hp : decide ((s.job j).trigFailFrom ≤ (s.job j).calls) = false := by simpa using hnoperm
  unfold updateNext
  simp only [hk, hl, hnofail, hp]
  simp only [Bool.not_true, Bool.false_eq_true, Bool.or_self, if_false]
  generalize hs' : s.setJob j _ = s'
  have henv : s'.env = s.env := by subst hs'; rfl
  have hnow : s'.now = s.now := by subst hs'; rfl
  rw [henv, hnow, hr]
  simp only []
  have hok := setNextRun_ok_of_ge s' j r
    (by rw [hnow]; simp [PAST_TOLERANCE, NS_PER_MS]; omega)
  refine ⟨hok, ?_⟩
  rcases setNextRun_spec s' j (some r) with ⟨_, h2⟩ | ⟨_, b', _, hnr, hjobs, _⟩
  · rw [hok] at h2; cases h2
  · show ((setNextRun s' j (some r)).1.jobs j).nextRun = some r
    rw [hjobs]; simp [hnr]


/-- the same with the hypothesis about the zone discharged: for every sorted transition table whose offsets span
less than 24 h − 121 min (`Zone.narrowB`, an executable test) and every trigger of the time / interval / group
fragment, the run time a recurring job reports after an execution is the least admissible occurrence of its
trigger after the execution instant -/
theorem reschedule_is_next_occurrence_narrow (setT : St → St) (s : St) (j : Nat) (p : Producer)
    (hk : (s.job j).kind = .recurring p) (hl : (s.job j).linked = true)
    (hz : s.env.zone.narrowB = true) (hw : C05.Wf (p.anchorAt s.now))
    (hnofail : (s.job j).trigFail.contains (s.job j).calls = false)
    (hnoperm : ¬ (s.job j).trigFailFrom ≤ (s.job j).calls)
    (r : Int) (hr : getNext s.env (p.anchorAt s.now) s.now = .ok r) :
    LeastAfter (C05.Adm s.env (p.anchorAt s.now)) s.now r ∧
    (updateNext setT s j).2 = none ∧ ((updateNext setT s j).1.job j).nextRun = some r :=
  reschedule_is_next_occurrence setT s j p hk hl (C05.inFragment_of_narrow s.env hz _ hw) hnofail hnoperm r hr

/-- **a redundant `resume()` changes nothing**: a recurring job that is RUNNING for `n` — the least admissible
occurrence after some earlier instant `t0` (its creation, last execution or last resume) — and is resumed at an
instant `now` with `t0 ≤ now < n` asks its trigger again and announces the very same `n`: the pending occurrence is
neither skipped nor moved. (`p` is anchored: `anchorAt` is the identity after the first query, C15.) -/
theorem resume_keeps_announcement (setT : St → St) (s : St) (j : Nat) (p : Producer)
    (hk : (s.job j).kind = .recurring p) (hl : (s.job j).linked = true) (hanch : p.anchorAt s.now = p)
    (hf : C05.InFragment s.env p)
    (hnofail : (s.job j).trigFail.contains (s.job j).calls = false)
    (hnoperm : ¬ (s.job j).trigFailFrom ≤ (s.job j).calls)
    (t0 n : Int) (hn : LeastAfter (C05.Adm s.env p) t0 n) (h0 : t0 ≤ s.now) (h1 : s.now < n)
    (r : Int) (hr : getNext s.env p s.now = .ok r) :
    r = n ∧ (updateNext setT s j).2 = none ∧ ((updateNext setT s j).1.job j).nextRun = some n := by
  have hr' : getNext s.env (p.anchorAt s.now) s.now = .ok r := by rw [hanch]; exact hr
  obtain ⟨hleast, hok, hnr⟩ := reschedule_is_next_occurrence setT s j p hk hl (by rw [hanch]; exact hf)
    hnofail hnoperm r hr'
  rw [hanch] at hleast
  obtain ⟨hA, hgt, hmin⟩ := hleast
  obtain ⟨hAn, _, hminn⟩ := hn
  have e : r = n := by
    have a := hmin n hAn h1
    have b := hminn r hA (by omega)
    omega
  exact ⟨e, hok, by rw [hnr, e]⟩

/-- `last_run` after an execution is the instant of that execution (part of the record `nextRecord` that
`recurring_round` establishes; stated on its own here) -/
theorem execution_records_last_run (setT : St → St) (s : St) (j : Nat) (due : Int) (p : Producer) (n : Int)
    (hk : (s.jobs j).kind = .recurring p) (hl : (s.jobs j).linked = true)
    (hf : ¬ ((s.jobs j).calls ∈ (s.jobs j).trigFail ∨ (s.jobs j).trigFailFrom ≤ (s.jobs j).calls))
    (hg : getNext s.env (p.anchorAt s.now) s.now = .ok n) :
    ((execute setT s j due).jobs j).lastRun = some s.now := by
  rw [execute_recurring_ok setT s j due p n hk hl hf hg]
  rfl

/-- One round of a recurring job, in every reachable state and whatever else is queued or happens in the same
wake-up (other due jobs, failing callables and callbacks, jobs that finish, the timer being re-armed
recursively): when the loop runs and the job's reported run time `t` has been reached, the job is executed in
that wake-up (an `exec j now t` entry is appended), and afterwards it is queued again with the record
`nextRecord`: RUNNING, reporting `n = get_next(trigger, now)` — the next occurrence after the instant of the
execution, strictly in the future — its grid anchored, one more execution and one more trigger query counted.
(Hypotheses: the trigger query of this round does not raise and yields `n`.) -/
theorem recurring_round (env : Env) (now : Int) (en : Bool) (ops : List Op) (j : Nat) (p : Producer) (t n : Int) :
    let s := runOps (initSt env now en) ops
    s.enabled = true → j ∈ s.queue → s.nr j = some t → t ≤ s.now →
    (s.job j).kind = .recurring p → (s.job j).linked = true →
    ¬ ((s.job j).calls ∈ (s.job j).trigFail ∨ (s.job j).trigFailFrom ≤ (s.job j).calls) →
    getNext s.env (p.anchorAt s.now) s.now = .ok n →
    let s' := (step s .yield).1
    C01.Exhausted s' ∨
      ((∃ l, s'.log = l ++ s.log ∧ Ev.exec j s.now t ∈ l) ∧ j ∈ s'.queue ∧
        s'.job j = nextRecord (s.job j) p s.now n ∧ s.now < n) := by
  intro s hen hm ht hdue hk hl hf hg s'
  have hi : Inv s := inv_reachable env now en ops
  have hg0 : Good s := C01.good_reachable env now en ops
  have hgt : n > s.now := C04.getNext_gt s.env _ _ _ hg
  have hexec := C01.due_jobs_executed_in_wakeup env now en ops j t hen hm ht hdue
  rcases hexec with hx | hx
  · exact Or.inl hx
  · rcases hg0 with hfat | hk0
    · -- a fatal entry in the log stays there
      left
      obtain ⟨l, hl', _⟩ := hx
      apply C01.exhausted_of_hasFatal
      exact HasFatal_mono hfat (fun e he => by
        show e ∈ (step s .yield).1.log
        rw [hl']; exact List.mem_append_right _ he)
    · obtain ⟨th, hth, hle⟩ := timer_le_queued hi hk0 hen hm ht
      have hfire : (step s .yield).1 = runJobs OPFUEL s := by
        show fireDue s = runJobs OPFUEL s
        unfold fireDue
        rw [hth]
        simp only []
        rw [if_pos (by omega : th ≤ s.now)]
      have htr := rSpec j (s.jobs j) p s.now n t s.env hk hl hf ht hg OPFUEL
        { s with timer := none } (Inv_timer_none hi) rfl rfl
      have hat : At j (s.jobs j) { s with timer := none } := ⟨hm, rfl⟩
      have hgf := runJobs_goodF OPFUEL hi (Or.inr hk0) hth
      have hc := runJobs_clock OPFUEL hi
      have hs' : s' = runJobs OPFUEL s := hfire
      rw [hs']
      rw [hfire] at hx
      rcases hgf with hfat | ⟨hk2, hfr2⟩
      · exact Or.inl (C01.exhausted_of_hasFatal hfat)
      · right
        refine ⟨hx, ?_⟩
        rcases htr.1 hat with h0 | h1
        · -- still queued for `t`: impossible, nothing that is due is left behind
          exfalso
          have hen2 : (runJobs OPFUEL s).enabled = true := by rw [hc.enabled]; exact hen
          obtain ⟨t', h1', h2'⟩ := queued_after_timer (runJobs_inv OPFUEL hi) hk2 hfr2 hen2 j h0.1
          have : (runJobs OPFUEL s).nr j = some t := by
            show ((runJobs OPFUEL s).jobs j).nextRun = some t
            have := h0.2
            unfold runJobs
            rw [this]; exact ht
          rw [this] at h1'; cases h1'
          rw [hc.now] at h2'
          omega
        · have h1' : j ∈ (runJobs OPFUEL s).queue ∧ (runJobs OPFUEL s).job j = nextRecord (s.job j) p s.now n := by
            unfold runJobs; exact ⟨h1.1, h1.2⟩
          exact ⟨h1'.1, h1'.2, hgt⟩

end Ea.C03
