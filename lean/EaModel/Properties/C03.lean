import EaModel.Properties.C01
import EaModel.Properties.C04
import EaModel.Properties.C05
/-!
# C03 — recurring jobs realise their trigger occurrence sequence end to end

C03 is the composition of two proved layers:
* the scheduler (C01): a job is executed when the clock reaches the run time it reports, never earlier
  (`Ea.C01.never_early`, `Ea.inv_reachable`), and after an execution `update_next` asks the trigger for
  `getNext producer now` where `now` is the execution instant;
* the trigger (C04/C05): `getNext` returns the least admissible occurrence strictly after its argument
  (`Ea.C05.getNext_least`, `Ea.C04.getNext_gt`).
The theorem below states the link: what the job reports after an execution is the least admissible occurrence of
its trigger after the execution instant. The end-to-end statement over days to weeks is decided by the correspondence
run (model vs. real scheduler under the virtual clock in zones with clock changes) and by an oracle that enumerates
occurrences independently.
-/
namespace Ea.C03

/-- after an execution at `s.now` a recurring job whose trigger belongs to the time / interval / group fragment
reports the least admissible occurrence of the trigger strictly after `s.now` -/
theorem reschedule_is_next_occurrence (setT : St → St) (s : St) (j : Nat) (p : Producer)
    (hk : (s.job j).kind = .recurring p) (hl : (s.job j).linked = true)
    (hf : C05.InFragment s.env (p.anchorAt s.now))
    (hnofail : (s.job j).trigFail.contains (s.job j).calls = false)
    (hnoperm : ¬ (s.job j).trigFailFrom ≤ (s.job j).calls)
    (r : Int) (hr : getNext s.env (p.anchorAt s.now) s.now = .ok r) :
    LeastAfter (C05.Adm s.env (p.anchorAt s.now)) s.now r ∧
    (updateNext setT s j).2 = none ∧ ((updateNext setT s j).1.job j).nextRun = some r := by
  refine ⟨C05.getNext_least s.env _ hf s.now r hr, ?_⟩
  have hgt := C04.getNext_gt s.env _ s.now r hr
  have hp : decide ((s.job j).trigFailFrom ≤ (s.job j).calls) = false := by simpa using hnoperm
  unfold updateNext
  simp only [hk, hl, hnofail, hp]
  simp only [Bool.not_true, Bool.false_eq_true, Bool.or_self, if_false]
  generalize hs' : s.setJob j _ = s'
  have henv : s'.env = s.env := by subst hs'; rfl
  have hnow : s'.now = s.now := by subst hs'; rfl
  rw [henv, hnow, hr]
  simp only []
  have hok := setNextRun_ok_of_ge s' j r
    (by rw [hnow]; simp [PAST_TOLERANCE, NS_PER_MS]; omega)
  refine ⟨hok, ?_⟩
  rcases setNextRun_spec s' j (some r) with ⟨_, h2⟩ | ⟨_, b', _, hnr, hjobs, _⟩
  · rw [hok] at h2; cases h2
  · show ((setNextRun s' j (some r)).1.jobs j).nextRun = some r
    rw [hjobs]; simp [hnr]

end Ea.C03
