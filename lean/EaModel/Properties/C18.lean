import EaModel.Properties.C04
/-!
# C18 — sun triggers fire at the real solar event, once per solar day (PARTIAL by nature)

The astronomy is delegated to `astral`: in the model the ephemeris is a parameter
`env.eph kind day : Option Instant` — what astral returns for the UTC date `day` (`none`: it raises `ValueError`,
the event does not occur on that date). Proved: every result is an event of the ephemeris, rounded up to the full
second and strictly after the reference instant; dates without an event are skipped (up to 366); the per-date
lookup. **Not provable, and false of the current code (known finding F9)**: "no day's event is skipped or fired
twice" — the producers look up one event per UTC *date of the reference instant*; when the event time drifts across
00:00 UTC an event is skipped or fired twice (`sun_midnight_fires_twice` is a concrete witness in the model).
That each ephemeris value really is the instant of the defining elevation is checked on every run against
`astral.sun.elevation` around every returned instant (validation, not proof).
-/
namespace Ea.C18

/-- rounding up to the next full second -/
theorem ceilSec_spec (t : Int) : t ≤ ceilSec t ∧ ceilSec t < t + NS_PER_S ∧ ceilSec t % NS_PER_S = 0 := by
  unfold ceilSec NS_PER_S
  split <;> omega

/-- the date search: the first of the next `n` UTC dates that has the event; all dates before it have none
(polar day / night: the next date that has one is used) -/
theorem sunFind_spec (env : Env) (kind : Nat) : ∀ (n : Nat) (day t : Int), sunFind env kind n day = .ok t →
    ∃ i : Nat, i < n ∧ env.eph kind (day + i) = some t ∧ ∀ j : Nat, j < i → env.eph kind (day + j) = none
  | 0, day, t, h => by simp [sunFind] at h
  | n + 1, day, t, h => by
    unfold sunFind at h
    split at h
    · next t' ht => simp at h; subst h; exact ⟨0, by omega, by simpa using ht, fun j hj => by omega⟩
    · next hn =>
      obtain ⟨i, hi, he, hall⟩ := sunFind_spec env kind n (day + 1) t h
      refine ⟨i + 1, by omega, ?_, ?_⟩
      · have e : day + ((i + 1 : Nat) : Int) = day + 1 + (i : Int) := by push_cast; omega
        rw [e]; exact he
      · intro j hj
        cases j with
        | zero => simpa using hn
        | succ j =>
          have e : day + ((j + 1 : Nat) : Int) = day + 1 + (j : Int) := by push_cast; omega
          rw [e]; exact hall j (by omega)

/-- one lookup: the event of the first date from the UTC date of `dt` on that has one, rounded up to the second -/
theorem sunNextRaw_spec (env : Env) (kind : Nat) (dt s : Int) (h : sunNextRaw env kind dt = .ok s) :
    ∃ (i : Nat) (t : Int), i ≤ SUN_TRIES ∧ env.eph kind (dayOf dt + i) = some t ∧ s = ceilSec t ∧
      ∀ j : Nat, j < i → env.eph kind (dayOf dt + j) = none := by
  unfold sunNextRaw at h
  split at h
  · simp at h
  · split at h
    · simp at h
    · next t ht =>
      simp at h
      obtain ⟨i, hi, he, hall⟩ := sunFind_spec env kind _ _ _ ht
      exact ⟨i, t, by omega, he, h.symm, hall⟩

/-- **every result is an event of the ephemeris**, rounded up to the full second, strictly after the reference
instant and admitted by the filter -/
theorem sun_result_is_event (env : Env) (kind : Nat) (f : Option Filter) (dt r : Int)
    (h : getNext env (.sun kind f) dt = .ok r) :
    ∃ (d t : Int), env.eph kind d = some t ∧ r = ceilSec t ∧ dt < r ∧ env.allows f r = true := by
  unfold getNext sunNext at h
  refine loopN_post
    (fun r => ∃ (d t : Int), env.eph kind d = some t ∧ r = ceilSec t ∧ dt < r ∧ env.allows f r = true) _ ?_ _ _ _ h
  intro cur a hb
  split at hb
  · simp at hb
  · next s hs =>
    split at hb
    · next hc =>
      simp at hb; subst hb
      obtain ⟨i, t, _, he, hst, _⟩ := sunNextRaw_spec env kind cur s hs
      exact ⟨dayOf cur + i, t, he, hst, hc.1, hc.2⟩
    · simp at hb

/-- without a configured location every sun trigger raises `LocationNotSetError` -/
theorem no_location (env : Env) (kind : Nat) (f : Option Filter) (dt : Int) (h : env.hasLocation = false) :
    getNext env (.sun kind f) dt = .error .locationNotSet := by
  unfold getNext sunNext
  unfold loopN LOOP
  simp [sunNextRaw, h]

/-- **once per day, for a date-aligned ephemeris**: if the reference instant lies before the event of its own
UTC date, that event (rounded) is returned when the filter admits it — the per-date lookup is right whenever the
event of date `d` is looked up from an instant of date `d` -/
theorem sun_same_date (env : Env) (kind : Nat) (dt t : Int) (hl : env.hasLocation = true)
    (he : env.eph kind (dayOf dt) = some t) (hlt : dt < ceilSec t) :
    getNext env (.sun kind none) dt = .ok (ceilSec t) := by
  unfold getNext sunNext
  unfold loopN LOOP
  have : sunNextRaw env kind dt = .ok (ceilSec t) := by
    unfold sunNextRaw
    simp [hl]
    unfold sunFind SUN_TRIES
    simp [he]
  simp [this, hlt, Env.allows, allowOpt]

/-- the environment of the F9 witness (the shape astral shows for Dhaka sunrise, 2024-10-22/23): for UTC date 0
it reports the event at 23:59:45 of date 0, for UTC date 1 the *same* physical event at 00:00:16 of date 1 -/
def envDup : Env :=
  { eph := fun _ d => if d = 0 then some (23 * NS_PER_HOUR + 59 * NS_PER_MIN + 45 * NS_PER_S)
                      else if d = 1 then some (NS_PER_DAY + 16 * NS_PER_S)
                      else if d = 2 then some (2 * NS_PER_DAY + 47 * NS_PER_S)
                      else none }

/-- **known finding F9** (negation witness in the model): one event per UTC *date* is looked up; when the event
time crosses 00:00 UTC the same solar event is fired twice, 31 seconds apart — not "one solar day apart". -/
theorem sun_midnight_fires_twice :
    okVal (getNext envDup (.sun 0 none) 0) = some (23 * NS_PER_HOUR + 59 * NS_PER_MIN + 45 * NS_PER_S) ∧
    okVal (getNext envDup (.sun 0 none) (23 * NS_PER_HOUR + 59 * NS_PER_MIN + 45 * NS_PER_S)) =
      some (NS_PER_DAY + 16 * NS_PER_S) := by
  decide +kernel

/-- the number of further dates the code tries (read from the imported source) is the one of the model -/
theorem sun_tries_matches : Ea.Gen.sunTries = Ea.SUN_TRIES := by decide

end Ea.C18
