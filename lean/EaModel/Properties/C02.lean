import EaModel.Properties.C01
import EaModel.Lemmas.Quiet
import EaModel.Lemmas.Once
/-!
# C02 — no unauthorised and no duplicate execution

A job can only be executed by `run_jobs` taking it from the head of the queue. The theorems show that the
queue never holds a job twice, holds only RUNNING jobs, and that a creation call that failed leaves the job
outside the queue (so it can never execute).
-/
namespace Ea.C02

/-- only RUNNING jobs are queued and none is queued twice, in every reachable state: a cancelled, paused,
stopped or finished job is not in the queue, hence `run_jobs` cannot start it -/
theorem only_running_queued_once (env : Env) (now : Int) (en : Bool) (ops : List Op) :
    let s := runOps (initSt env now en) ops
    (∀ j ∈ s.queue, (s.job j).status = .running) ∧ s.queue.Nodup := by
  intro s
  exact ⟨(inv_reachable env now en ops).q.run, (inv_reachable env now en ops).q.nodup⟩

/-- a job that is not RUNNING (paused, stopped, cancelled, finished one-shot) is not queued -/
theorem not_running_not_queued (env : Env) (now : Int) (en : Bool) (ops : List Op) (j : Nat) :
    let s := runOps (initSt env now en) ops
    (s.job j).status ≠ .running → j ∉ s.queue := by
  intro s hs hm
  exact hs ((inv_reachable env now en ops).q.run j hm)

/-- a duplicate id is refused before the job is linked: nothing changes -/
theorem duplicate_id_inert (s : St) (j : Nat) (k : Nat) (spec : JobSpec) (ef tf : List Nat)
    (hfresh : (s.job j).status = .created) (hbad : spec.bad = false) (hdup : s.hasKey k = true) :
    createJob s j (some k) spec ef tf = (s, some .keyError) := by
  unfold createJob
  simp [hfresh, hbad, St.dupKey, hdup]

/-- invalid arguments are refused before a job exists: nothing changes -/
theorem bad_argument_inert (s : St) (j : Nat) (key : Option Nat) (spec : JobSpec) (ef tf : List Nat)
    (hfresh : (s.job j).status = .created) (hbad : spec.bad = true) :
    createJob s j key spec ef tf = (s, some .valueError) := by
  unfold createJob
  simp [hfresh, hbad]

/-- whatever error a creation call raises, the job is not in the queue afterwards -/
theorem failed_creation_not_queued (s : St) (j : Nat) (key : Option Nat) (spec : JobSpec) (ef tf : List Nat)
    (h : Inv s) (hfresh : (s.job j).status = .created) (e : Err)
    (herr : (createJob s j key spec ef tf).2 = some e) :
    j ∉ (createJob s j key spec ef tf).1.queue := by
  have hT := timerFn_setTimer OPFUEL
  revert herr
  unfold createJob
  split
  · rename_i hcr
    exact absurd hfresh hcr
  · have hcr' : (s.job j).status = .created := hfresh
    have hjq : j ∉ s.queue := by
      intro hm
      have := h.q.run j hm
      rw [show (s.jobs j).status = (s.job j).status from rfl, hcr'] at this
      cases this
    split
    · intro _; exact hjq
    · split
      · intro _; exact hjq
      · -- the link failed: `job_finish` removed the job again
        have hs : Inv (storeAdd s key j) ∧ (storeAdd s key j).queue = s.queue := by
          unfold storeAdd
          split
          · exact ⟨⟨h.q, h.st, h.log⟩, rfl⟩
          · exact ⟨h, rfl⟩
        generalize hs0 : (storeAdd s key j).setJob j (newJob key spec ef tf) = s0
        have h0 : Inv s0 ∧ j ∉ s0.queue := by
          subst hs0
          exact ⟨Inv_setJob_notin _ _ hs.1 (by rw [hs.2]; exact hjq) (by simp [newJob, JobOK]),
                 by show j ∉ (storeAdd s key j).queue; rw [hs.2]; exact hjq⟩
        unfold linkJob
        simp only []
        have hfirst : ∀ r : R, (Inv r.1 ∧ j ∉ r.1.queue) →
            (match r with
              | (s', none) => (addJob (setTimer OPFUEL) s' j, none)
              | (s', some e) => ((jobFinish (setTimer OPFUEL) s' j).1, some e)).2 = some e →
            j ∉ (match r with
              | (s', none) => (addJob (setTimer OPFUEL) s' j, none)
              | (s', some e) => ((jobFinish (setTimer OPFUEL) s' j).1, some e)).1.queue := by
          intro r hr
          obtain ⟨s', e'⟩ := r
          cases e' with
          | none => intro hc; cases hc
          | some e' =>
            intro _ hm
            exact hr.2 ((jobFinish_spec _ hT j hr.1).2.1 j hm)
        apply hfirst
        split
        · exact ⟨Inv_setNextRun j _ h0.1 h0.2, by rw [setNextRun_queue]; exact h0.2⟩
        · obtain ⟨u1, u2⟩ := updateNext_spec (setTimer OPFUEL) hT j h0.1
          have hju : j ∉ (updateNext (setTimer OPFUEL) s0 j).1.queue := fun hm => h0.2 (u2 j hm)
          exact ⟨u1.toInv hju, hju⟩

-- non-vacuity (executable check): the second creation with id 7 fails and only the first job executes
#guard ((runOps (initSt {} 0) [.create 1 (some 7) (.once 5) [] [], .create 2 (some 7) (.once 6) [] [],
    .sleep 10]).log.filterMap fun e => match e with | .exec j _ _ => some j | _ => none) == [1]


/-- the entries an operation appended to the log -/
def Appended (s s' : St) (l : List Ev) : Prop := s'.log = l ++ s.log

/-- Only while it is running: in every reachable state, a job `i` that is not RUNNING — cancelled, paused,
stopped, a finished one-shot, or a handle that was never created — is not executed by any operation (wake-ups,
sleeps, re-enabling, operations on other jobs, its own cancel/pause/stop), and stays out of the queue, until
its own `resume`, `reset` or creation. -/
theorem not_running_never_executed (env : Env) (now : Int) (en : Bool) (ops : List Op) (i : Nat) (op : Op) :
    let s := runOps (initSt env now en) ops
    (s.job i).status ≠ .running → op.adds ≠ some i →
    let s' := (step s op).1
    (∃ l, Appended s s' l ∧ ∀ t due, Ev.exec i t due ∉ l) ∧ i ∉ s'.queue := by
  intro s hs hop s'
  have hI : Inv s := inv_reachable env now en ops
  have hnq : i ∉ s.queue := fun hm => hs (hI.q.run i hm)
  obtain ⟨⟨l, hl, hp⟩, hq⟩ := step_quiet_notQueued s op i hI hnq hop
  refine ⟨⟨l, hl, ?_⟩, hq⟩
  intro t due hm
  exact hp _ hm rfl

/-- the same over any number of further operations: as long as none of them is the job's own `resume`,
`reset` or creation, no execution of the job is logged -/
theorem not_running_never_executed_history (env : Env) (now : Int) (en : Bool) (ops more : List Op) (i : Nat) :
    let s := runOps (initSt env now en) ops
    (s.job i).status ≠ .running → (∀ op ∈ more, op.adds ≠ some i) →
    let s' := runOps s more
    ∃ l, Appended s s' l ∧ ∀ t due, Ev.exec i t due ∉ l := by
  intro s hs hop
  have hI : Inv s := inv_reachable env now en ops
  have hnq : i ∉ s.queue := fun hm => hs (hI.q.run i hm)
  suffices h : ∀ (more : List Op) (s : St), Inv s → i ∉ s.queue → (∀ op ∈ more, op.adds ≠ some i) →
      Quiet (notExecOf i) s (runOps s more) by
    obtain ⟨l, hl, hp⟩ := h more s hI hnq hop
    exact ⟨l, hl, fun t due hm => hp _ hm rfl⟩
  intro more
  induction more with
  | nil => intro s _ _ _; exact Quiet.refl _ s
  | cons op more ih =>
    intro s hI hnq hop
    obtain ⟨q, p⟩ := step_quiet_notQueued s op i hI hnq (hop op (by simp))
    exact q.trans (ih _ (step_inv s op hI) p (fun o ho => hop o (by simp [ho])))

/-- While the scheduler is disabled nothing is executed: in every reachable state with the switch off, no
operation other than `enable(True)` logs an execution (and the switch stays off). -/
theorem disabled_executes_nothing (env : Env) (now : Int) (en : Bool) (ops : List Op) (op : Op) :
    let s := runOps (initSt env now en) ops
    s.enabled = false → op ≠ .enable true →
    let s' := (step s op).1
    C01.Exhausted s ∨ ((∃ l, Appended s s' l ∧ ∀ j t due, Ev.exec j t due ∉ l) ∧ s'.enabled = false) := by
  intro s hd hop s'
  have hI : Inv s := inv_reachable env now en ops
  have hg : Good s := C01.good_reachable env now en ops
  rcases step_quiet_disabled s op hI hg hd hop with hf | ⟨⟨l, hl, hp⟩, he⟩
  · exact Or.inl (C01.exhausted_of_hasFatal hf)
  · exact Or.inr ⟨⟨l, hl, fun j t due hm => hp _ hm⟩, he⟩

/-- Operations on one job neither suppress nor re-time another: after any control operation on job `j`
(cancel, pause, stop, resume, reset, set_countdown, callback registration), every other queued job `i` is still
queued for the same instant — or it was executed by that operation, which happens only when it was already due. -/
theorem control_leaves_other_jobs (env : Env) (now : Int) (en : Bool) (ops : List Op) (op : Op) (j i : Nat)
    (t : Int) (htg : op.target = some j) (hne : i ≠ j) :
    let s := runOps (initSt env now en) ops
    i ∈ s.queue → s.nr i = some t →
    let s' := (step s op).1
    (i ∈ s'.queue ∧ s'.nr i = some t) ∨ (t ≤ s.now ∧ ∃ l, Appended s s' l ∧ Ev.exec i s.now t ∈ l) := by
  intro s hm ht s'
  have hI : Inv s := inv_reachable env now en ops
  rcases control_keep s op j i htg hne hI t hm ht with ⟨l, hl, hin⟩ | hr
  · right
    have hI' : Inv s' := step_inv s op hI
    have : evOK (Ev.exec i s.now t) := hI'.log _ (by rw [hl]; exact List.mem_append_left _ hin)
    exact ⟨this, l, hl, hin⟩
  · exact Or.inl hr

theorem mono_reachable (env : Env) (now : Int) (en : Bool) (ops : List Op) (hf : ∀ op ∈ ops, op.forward) :
    Mono (runOps (initSt env now en) ops) := by
  suffices h : ∀ (ops : List Op) (s : St), Inv s → Mono s → (∀ op ∈ ops, op.forward) → Mono (runOps s ops) by
    refine h ops _ (inv_init env now en) ⟨fun i => ⟨?_, ?_, ?_, ?_⟩, fun i _ n _ d hd => ?_⟩ hf
    · simp [duesOf, initSt]
    · intro d hd; simp [duesOf, initSt] at hd
    · intro _; simp [duesOf, initSt]
    · intro hl; simp [initSt, St.job] at hl
    · simp [duesOf, initSt] at hd
  intro ops
  induction ops with
  | nil => intro s _ h _; exact h
  | cons op ops ih =>
    intro s hI h hf
    exact ih _ (step_inv s op hI) (step_mono s op hI h (hf op (by simp))) (fun o ho => hf o (by simp [ho]))

/-- At most one execution per announced run time: in every history in which the clock does not go back, the run
times for which a job was executed (`duesOf i log`, newest first) are strictly increasing in time — each
execution is for a later announced run time than every earlier execution of the same job; in particular no job
is executed twice for the same announced run time. -/
theorem one_execution_per_announcement (env : Env) (now : Int) (en : Bool) (ops : List Op)
    (hf : ∀ op ∈ ops, op.forward) (i : Nat) :
    (duesOf i (runOps (initSt env now en) ops).log).Pairwise (· > ·) ∧
    ∀ d, (duesOf i (runOps (initSt env now en) ops).log).count d ≤ 1 := by
  have h := ((mono_reachable env now en ops hf).w i).strict
  refine ⟨h, fun d => ?_⟩
  have hnd : (duesOf i (runOps (initSt env now en) ops).log).Nodup :=
    h.imp (fun hab => by omega)
  exact List.nodup_iff_count.1 hnd d

/-- ... and a running job always reports a run time for which it has not been executed yet -/
theorem reported_run_time_is_new (env : Env) (now : Int) (en : Bool) (ops : List Op)
    (hf : ∀ op ∈ ops, op.forward) (i : Nat) (n : Int) :
    let s := runOps (initSt env now en) ops
    s.nr i = some n → ∀ d ∈ duesOf i s.log, d < n :=
  fun hn => (mono_reachable env now en ops hf).b i id n hn

-- non-vacuity: a paused job stays unexecuted over a sleep; a disabled scheduler with a due job
#guard (runOps (initSt {} 0) [.create 1 none (.countdown 5) [] [], .reset 1, .stop 1, .sleep 10]).log.all
  fun e => match e with | .exec _ _ _ => false | _ => true
#guard (runOps (initSt {} 0 false) [.create 1 none (.once 5) [] [], .sleep 10]).queue == [1]

#guard duesOf 1 (runOps (initSt {} 0) [.create 1 none (.countdown 5) [] [], .reset 1, .sleep 10, .reset 1, .sleep 10]).log == [15, 5]

end Ea.C02
