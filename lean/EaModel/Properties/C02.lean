import EaModel.Properties.SchedCommon
/-!
# C02 — no unauthorised and no duplicate execution

A job can only be executed by `run_jobs` taking it from the head of the queue. The theorems show that the
queue never holds a job twice, holds only RUNNING jobs, and that a creation call that failed leaves the job
outside the queue (so it can never execute).
-/
namespace Ea.C02

/-- only RUNNING jobs are queued and none is queued twice, in every reachable state: a cancelled, paused,
stopped or finished job is not in the queue, hence `run_jobs` cannot start it -/
theorem only_running_queued_once (env : Env) (now : Int) (en : Bool) (ops : List Op) :
    let s := runOps (initSt env now en) ops
    (∀ j ∈ s.queue, (s.job j).status = .running) ∧ s.queue.Nodup := by
  intro s
  exact ⟨(inv_reachable env now en ops).q.run, (inv_reachable env now en ops).q.nodup⟩

/-- a job that is not RUNNING (paused, stopped, cancelled, finished one-shot) is not queued -/
theorem not_running_not_queued (env : Env) (now : Int) (en : Bool) (ops : List Op) (j : Nat) :
    let s := runOps (initSt env now en) ops
    (s.job j).status ≠ .running → j ∉ s.queue := by
  intro s hs hm
  exact hs ((inv_reachable env now en ops).q.run j hm)

/-- a duplicate id is refused before the job is linked: nothing changes -/
theorem duplicate_id_inert (s : St) (j : Nat) (k : Nat) (spec : JobSpec) (ef tf : List Nat)
    (hfresh : (s.job j).status = .created) (hbad : spec.bad = false) (hdup : s.hasKey k = true) :
    createJob s j (some k) spec ef tf = (s, some .keyError) := by
  unfold createJob
  simp [hfresh, hbad, St.dupKey, hdup]

/-- invalid arguments are refused before a job exists: nothing changes -/
theorem bad_argument_inert (s : St) (j : Nat) (key : Option Nat) (spec : JobSpec) (ef tf : List Nat)
    (hfresh : (s.job j).status = .created) (hbad : spec.bad = true) :
    createJob s j key spec ef tf = (s, some .valueError) := by
  unfold createJob
  simp [hfresh, hbad]

/-- whatever error a creation call raises, the job is not in the queue afterwards -/
theorem failed_creation_not_queued (s : St) (j : Nat) (key : Option Nat) (spec : JobSpec) (ef tf : List Nat)
    (h : Inv s) (hfresh : (s.job j).status = .created) (e : Err)
    (herr : (createJob s j key spec ef tf).2 = some e) :
    j ∉ (createJob s j key spec ef tf).1.queue := by
  have hT := timerFn_setTimer OPFUEL
  revert herr
  unfold createJob
  split
  · rename_i hcr
    exact absurd hfresh hcr
  · have hcr' : (s.job j).status = .created := hfresh
    have hjq : j ∉ s.queue := by
      intro hm
      have := h.q.run j hm
      rw [show (s.jobs j).status = (s.job j).status from rfl, hcr'] at this
      cases this
    split
    · intro _; exact hjq
    · split
      · intro _; exact hjq
      · -- the link failed: `job_finish` removed the job again
        have hs : Inv (storeAdd s key j) ∧ (storeAdd s key j).queue = s.queue := by
          unfold storeAdd
          split
          · exact ⟨⟨h.q, h.st, h.log⟩, rfl⟩
          · exact ⟨h, rfl⟩
        generalize hs0 : (storeAdd s key j).setJob j (newJob key spec ef tf) = s0
        have h0 : Inv s0 ∧ j ∉ s0.queue := by
          subst hs0
          exact ⟨Inv_setJob_notin _ _ hs.1 (by rw [hs.2]; exact hjq) (by simp [newJob, JobOK]),
                 by show j ∉ (storeAdd s key j).queue; rw [hs.2]; exact hjq⟩
        unfold linkJob
        simp only []
        have hfirst : ∀ r : R, (Inv r.1 ∧ j ∉ r.1.queue) →
            (match r with
              | (s', none) => (addJob (setTimer OPFUEL) s' j, none)
              | (s', some e) => ((jobFinish (setTimer OPFUEL) s' j).1, some e)).2 = some e →
            j ∉ (match r with
              | (s', none) => (addJob (setTimer OPFUEL) s' j, none)
              | (s', some e) => ((jobFinish (setTimer OPFUEL) s' j).1, some e)).1.queue := by
          intro r hr
          obtain ⟨s', e'⟩ := r
          cases e' with
          | none => intro hc; cases hc
          | some e' =>
            intro _ hm
            exact hr.2 ((jobFinish_spec _ hT j hr.1).2.1 j hm)
        apply hfirst
        split
        · exact ⟨Inv_setNextRun j _ h0.1 h0.2, by rw [setNextRun_queue]; exact h0.2⟩
        · obtain ⟨u1, u2⟩ := updateNext_spec (setTimer OPFUEL) hT j h0.1
          have hju : j ∉ (updateNext (setTimer OPFUEL) s0 j).1.queue := fun hm => h0.2 (u2 j hm)
          exact ⟨u1.toInv hju, hju⟩

-- non-vacuity (executable check): the second creation with id 7 fails and only the first job executes
#guard ((runOps (initSt {} 0) [.create 1 (some 7) (.once 5) [] [], .create 2 (some 7) (.once 6) [] [],
    .sleep 10]).log.filterMap fun e => match e with | .exec j _ _ => some j | _ => none) == [1]

end Ea.C02
