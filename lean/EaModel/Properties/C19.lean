import EaModel.GetInstant
import EaModel.Lemmas.Zone
import EaModel.Lemmas.Sched
import EaModel.Generated
/-!
# C19 — every accepted way to say "when" resolves to the instant it denotes
-/
namespace Ea.C19

/-- None means now; numbers, timedeltas and ISO-8601 durations mean now plus that duration; aware datetimes,
SystemDateTime and Instant denote themselves -/
theorem instant_simple (z : Zone) (now d u : Int) :
    getInstant z now .now = .ok now ∧ getInstant z now (.after d) = .ok (now + d) ∧
    getInstant z now (.aware u) = .ok u := ⟨rfl, rfl, rfl⟩

/-- a naive datetime is system-local: the result shows exactly that wall clock reading, unless the reading is
skipped (then it is the reading shifted forward by the gap) -/
theorem instant_naive (z : Zone) (hs : z.Sorted) (now L u : Int) (h : getInstant z now (.naive L) = .ok u) :
    z.toLocal u = L ∨ (∀ v, z.toLocal v ≠ L) := by
  simp only [getInstant, resolveCompatible] at h
  split at h
  · next u' hu =>
    simp at h; subst h
    by_cases hne : sols z.init none z.trans L = []
    · right
      intro v hv
      have := (z.mem_sols hs L v).2 hv
      rw [hne] at this; cases this
    · left; exact (z.resolve_unique hs L u' hu hne).1
  · next e l hg => right; exact (z.resolve_gap hs L e l hg).1
  · next a b hf => simp at h; subst h; left; exact (z.resolve_fold hs L a b hf).1

/-- a time of day: the result shows that wall clock time today — and is then not before now — or tomorrow,
and then today's instant with that wall clock time has already passed -/
theorem instant_time (z : Zone) (hs : z.Sorted) (now t u : Int) (h : getInstant z now (.tod t) = .ok u) :
    (z.toLocal u = z.localDay now * NS_PER_DAY + t ∧ now ≤ u) ∨
    (z.toLocal u = (z.localDay now + 1) * NS_PER_DAY + t ∧
      ∃ u0, z.toLocal u0 = z.localDay now * NS_PER_DAY + t ∧ u0 < now) := by
  have key : ∀ L v, resolveRaise z L = .ok v → z.toLocal v = L := by
    intro L v hv
    simp only [resolveRaise] at hv
    split at hv
    · next u' hu =>
      simp at hv; subst hv
      exact (z.resolve_unique' hs L u' hu).1
    · simp at hv
    · simp at hv
  simp only [getInstant] at h
  split at h
  · simp at h
  · next u0 h0 =>
    split at h
    · next hlt => right; exact ⟨key _ _ h, u0, key _ _ h0, hlt⟩
    · next hge => simp at h; subst h; left; exact ⟨key _ _ h0, by omega⟩

/-- **known finding F3b**: a time of day that is skipped or repeated TODAY raises instead of resolving -/
theorem instant_time_raises_when_ambiguous_today (z : Zone) (now t : Int) :
    (∀ e l, z.resolve (z.localDay now * NS_PER_DAY + t) = .gap e l → getInstant z now (.tod t) = .error .skippedTime) ∧
    (∀ a b, z.resolve (z.localDay now * NS_PER_DAY + t) = .fold a b → getInstant z now (.tod t) = .error .repeatedTime) := by
  constructor
  · intro e l h; simp [getInstant, resolveRaise, h]
  · intro a b h; simp [getInstant, resolveRaise, h]

/-- non-positive countdowns and intervals are rejected, positive ones accepted unchanged -/
theorem reject_nonpositive (d : Int) :
    (d ≤ 0 → getPosTimedelta d = .error .valueError) ∧ (0 < d → getPosTimedelta d = .ok d) := by
  constructor <;> intro h <;> simp [getPosTimedelta] <;> omega

/-- one-shot instants more than 100 ms in the past are rejected, everything else is accepted -/
theorem reject_past (s : St) (j : Nat) (t : Int) :
    (t < s.now - 100 * 1000000 → setNextRun s j (some t) = (s, some .runInThePast)) ∧
    (s.now - 100 * 1000000 ≤ t → (setNextRun s j (some t)).2 = none) := by
  constructor
  · intro h; exact setNextRun_err_of_lt s j t (by simpa [PAST_TOLERANCE, NS_PER_MS] using h)
  · intro h; exact setNextRun_ok_of_ge s j t (by simp [PAST_TOLERANCE, NS_PER_MS]; omega)

/-- the tolerance of the code (measured on the imported source on every run) is the one of the model -/
theorem past_tolerance_matches : Ea.Gen.pastToleranceNs = Ea.PAST_TOLERANCE := by decide

-- non-vacuity (executable checks) in a zone +1 h → +2 h at t = 1000 h: 17:30 of day 41 is skipped
def zTest : Zone := { init := 1 * NS_PER_HOUR, trans := [(1000 * NS_PER_HOUR, 2 * NS_PER_HOUR)] }
#guard okVal (getInstant zTest (990 * NS_PER_HOUR) (.tod (8 * NS_PER_HOUR))) == some (991 * NS_PER_HOUR)
#guard okVal (getInstant zTest (990 * NS_PER_HOUR) (.tod (20 * NS_PER_HOUR))) == some (1002 * NS_PER_HOUR)
#guard (getInstant zTest (990 * NS_PER_HOUR) (.tod (17 * NS_PER_HOUR + 30 * NS_PER_MIN))).toOption.isNone

end Ea.C19
