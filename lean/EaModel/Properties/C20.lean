import EaModel.DstParam
import EaModel.Lemmas.Zone
/-!
# C20 — a time of day accepted without DST policy is safe for the whole year

Proved here: the decision logic of `check_dst_handling` on top of what `find_time` reports, and what the four
probes of `find_time` establish. The step from "the probed hour" to "every day of the year" depends on the zone's
rules being regular within the year; it is decided per zone-year by the exhaustive comparison of model, code and a
zoneinfo scan of every day of the year (the check's correspondence and oracle), see DESIGN.md.
-/
namespace Ea.C20

/-- when both policies are given they are used verbatim, whatever the zone -/
theorem both_given_verbatim (z : Zone) (year t : Int) (f : Skipped) (b : Repeated) :
    checkDst z year t (some f) (some b) = .ok (f, b) := by
  unfold checkDst
  simp

theorem required_hour (h : Nat) (t : Int) :
    (Req.hour h).required t = true ↔ (h : Int) * NS_PER_HOUR ≤ t ∧ t ≤ (h : Int) * NS_PER_HOUR + HOUR_END := by
  unfold Req.required
  exact decide_eq_true_iff

/-- a time inside an hour `find_time` reported is rejected unless a policy is given -/
theorem affected_hour_rejected (z : Zone) (year t : Int) (h1 h2 : Nat) (hs : dstSetup z year = .ok (.hour h1, .hour h2)) :
    ((Req.hour h1).required t = true ∨ (Req.hour h2).required t = true) →
      checkDst z year t none none = .error .valueError := by
  intro ht
  unfold checkDst
  rw [hs]
  simp only [Option.isSome, Option.isNone]
  by_cases e1 : (Req.hour h1).required t = true
  · simp [e1]
  · rcases ht with ht | ht
    · exact absurd ht e1
    · simp [e1, ht]

/-- what acceptance means: no policy given and accepted ⇒ the time is outside every hour `find_time` reported,
and the zone was not found inconsistent -/
theorem accepted_outside_reported_hours (z : Zone) (year t : Int) (r : Skipped × Repeated)
    (h : checkDst z year t none none = .ok r) :
    ∃ rf rb, dstSetup z year = .ok (rf, rb) ∧ rf.required t = false ∧ rb.required t = false ∧
      r = (.after, .earlier) := by
  unfold checkDst at h
  simp only [Option.isSome, Option.isNone] at h
  split at h
  · next hc => simp at hc
  · split at h
    · simp at h
    · next rf rb hs =>
      by_cases e1 : rf.required t = true
      · simp [e1] at h
      · by_cases e2 : rb.required t = true
        · simp [e1, e2] at h
        · simp [e1, e2] at h
          exact ⟨rf, rb, hs, by simpa using e1, by simpa using e2, h.symm⟩

/-- the probes of `find_time`: the reported hour `h` is not valid at `hh:00`, `hh:30` and `hh:59:59.999999999` on
the found date, while the last nanosecond of the previous hour and the first of the next hour are valid -/
theorem find_time_probes (z : Zone) (year : Int) (rev fwd : Bool) (h : Nat) (hf : findTime z year rev = .hour fwd h) :
    ∃ u v, dstScan z year rev = some (u, h, v) ∧ (fwd = true ↔ v = .skipped) ∧
      z.validity (z.localDay u * NS_PER_DAY + (h : Int) * NS_PER_HOUR) ≠ .valid ∧
      z.validity (z.localDay u * NS_PER_DAY + (h : Int) * NS_PER_HOUR + HOUR_END) ≠ .valid ∧
      z.validity (z.localDay u * NS_PER_DAY + prevHour h * NS_PER_HOUR + HOUR_END) = .valid ∧
      z.validity (z.localDay u * NS_PER_DAY + nextHour h * NS_PER_HOUR) = .valid := by
  unfold findTime at hf
  split at hf
  · simp at hf
  · next u h' v hscan =>
    dsimp only at hf
    split at hf
    · simp at hf
    · next h1 =>
      split at hf
      · simp at hf
      · next h2 =>
        simp at hf
        obtain ⟨hfw, rfl⟩ := hf
        refine ⟨u, v, hscan, ?_, ?_, ?_, ?_, ?_⟩
        · rw [← hfw]; simp
        · intro e; exact h1 (Or.inl e)
        · intro e; exact h1 (Or.inr e)
        · by_cases e : z.validity (z.localDay u * NS_PER_DAY + prevHour h' * NS_PER_HOUR + HOUR_END) = .valid
          · exact e
          · exact absurd (Or.inl e) h2
        · by_cases e : z.validity (z.localDay u * NS_PER_DAY + nextHour h' * NS_PER_HOUR) = .valid
          · exact e
          · exact absurd (Or.inr e) h2

/-- validity is exactly PEP 495: `valid` ⇔ exactly one instant shows the reading (sorted tables) -/
theorem validity_sound (z : Zone) (hs : z.Sorted) (L : Int) :
    (z.validity L = .skipped → ∀ v, z.toLocal v ≠ L) ∧
    (z.validity L = .repeated → ∃ a b, a < b ∧ z.toLocal a = L ∧ z.toLocal b = L) := by
  simp only [Zone.validity]
  constructor
  · intro h
    split at h
    · simp at h
    · next e l hg => exact (z.resolve_gap hs L e l hg).1
    · simp at h
  · intro h
    split at h
    · simp at h
    · simp at h
    · next a b hf =>
      obtain ⟨h1, h2, h3, _⟩ := z.resolve_fold hs L a b hf
      exact ⟨a, b, h3, h1, h2⟩

/-- the scan orders of the code (read from the imported source on every run) -/
theorem scan_orders : Gen.dstMonthOrder = [3, 4, 11, 9, 10] ∧ Gen.dstHourOrder = [2, 3, 0, 1] := by decide

-- non-vacuity (executable checks) in a zone with +1 h → +2 h on 1970-03-29 01:00 UTC and back on 1970-10-25 01:00 UTC
def zEU : Zone := { init := NS_PER_HOUR, trans := [(7516800 * NS_PER_S + 3600 * NS_PER_S, 2 * NS_PER_HOUR),
                                                   (25660800 * NS_PER_S + 3600 * NS_PER_S, NS_PER_HOUR)] }
#guard findTime zEU 1970 false == .hour true 2
#guard findTime zEU 1970 true == .hour false 2
#guard (checkDst zEU 1970 (2 * NS_PER_HOUR + 30 * NS_PER_MIN) none none).toOption.isNone
#guard (checkDst zEU 1970 (3 * NS_PER_HOUR) none none).toOption == some (.after, .earlier)

end Ea.C20
