import EaModel.DstParam
import EaModel.Lemmas.Zone
import EaModel.Lemmas.DstYear
import EaModel.Lemmas.DstYearEU
import EaModel.Lemmas.DstYear2
/-!
# C20 — a time of day accepted without DST policy is safe for the whole year

Proved here: the decision logic of `check_dst_handling` on top of what `find_time` reports, what the four
probes of `find_time` establish, and the step from "the probed hour" to "every day of the year"
(`accepted_safe_all_year`) under an explicit regularity hypothesis on the zone's rules within the year
(`YearRegular`: changes aligned to clock hours, one hour per direction, the scan visits every local date), which is
proved for a zone-year with the shape of Europe/Berlin (`accepted_safe_all_year_zEU70`). Whether a real zone-year
is regular is decided per zone-year by the exhaustive comparison of model, code and a zoneinfo scan of every day
of the year (the check's correspondence and oracle), see DESIGN.md.
-/
namespace Ea.C20

/-- when both policies are given they are used verbatim, whatever the zone -/
theorem both_given_verbatim (z : Zone) (year t : Int) (f : Skipped) (b : Repeated) :
    checkDst z year t (some f) (some b) = .ok (f, b) := by
  unfold checkDst
  simp

theorem required_hour (h : Nat) (t : Int) :
    (Req.hour h).required t = true ↔ (h : Int) * NS_PER_HOUR ≤ t ∧ t ≤ (h : Int) * NS_PER_HOUR + HOUR_END := by
  unfold Req.required
  exact decide_eq_true_iff

/-- a time inside an hour `find_time` reported is rejected unless a policy is given -/
theorem affected_hour_rejected (z : Zone) (year t : Int) (h1 h2 : Nat) (hs : dstSetup z year = .ok (.hour h1, .hour h2)) :
    ((Req.hour h1).required t = true ∨ (Req.hour h2).required t = true) →
      checkDst z year t none none = .error .valueError := by
  intro ht
  unfold checkDst
  rw [hs]
  simp only [Option.isSome, Option.isNone]
  by_cases e1 : (Req.hour h1).required t = true
  · simp [e1]
  · rcases ht with ht | ht
    · exact absurd ht e1
    · simp [e1, ht]

/-- what acceptance means: no policy given and accepted ⇒ the time is outside every hour `find_time` reported,
and the zone was not found inconsistent -/
theorem accepted_outside_reported_hours (z : Zone) (year t : Int) (r : Skipped × Repeated)
    (h : checkDst z year t none none = .ok r) :
    ∃ rf rb, dstSetup z year = .ok (rf, rb) ∧ rf.required t = false ∧ rb.required t = false ∧
      r = (.after, .earlier) := by
  unfold checkDst at h
  simp only [Option.isSome, Option.isNone] at h
  split at h
  · next hc => simp at hc
  · split at h
    · simp at h
    · next rf rb hs =>
      by_cases e1 : rf.required t = true
      · simp [e1] at h
      · by_cases e2 : rb.required t = true
        · simp [e1, e2] at h
        · simp [e1, e2] at h
          exact ⟨rf, rb, hs, by simpa using e1, by simpa using e2, h.symm⟩

/-- the probes of `find_time`: the reported hour `h` is not valid at `hh:00`, `hh:30` and `hh:59:59.999999999` on
the found date, while the last nanosecond of the previous hour and the first of the next hour are valid -/
theorem find_time_probes (z : Zone) (year : Int) (rev fwd : Bool) (h : Nat) (hf : findTime z year rev = .hour fwd h) :
    ∃ u v, dstScan z year rev = some (u, h, v) ∧ (fwd = true ↔ v = .skipped) ∧
      z.validity (z.localDay u * NS_PER_DAY + (h : Int) * NS_PER_HOUR) ≠ .valid ∧
      z.validity (z.localDay u * NS_PER_DAY + (h : Int) * NS_PER_HOUR + HOUR_END) ≠ .valid ∧
      z.validity (z.localDay u * NS_PER_DAY + prevHour h * NS_PER_HOUR + HOUR_END) = .valid ∧
      z.validity (z.localDay u * NS_PER_DAY + nextHour h * NS_PER_HOUR) = .valid := by
  unfold findTime at hf
  split at hf
  · simp at hf
  · next u h' v hscan =>
    dsimp only at hf
    split at hf
    · simp at hf
    · next h1 =>
      split at hf
      · simp at hf
      · next h2 =>
        simp at hf
        obtain ⟨hfw, rfl⟩ := hf
        refine ⟨u, v, hscan, ?_, ?_, ?_, ?_, ?_⟩
        · rw [← hfw]; simp
        · intro e; exact h1 (Or.inl e)
        · intro e; exact h1 (Or.inr e)
        · by_cases e : z.validity (z.localDay u * NS_PER_DAY + prevHour h' * NS_PER_HOUR + HOUR_END) = .valid
          · exact e
          · exact absurd (Or.inl e) h2
        · by_cases e : z.validity (z.localDay u * NS_PER_DAY + nextHour h' * NS_PER_HOUR) = .valid
          · exact e
          · exact absurd (Or.inr e) h2

/-- validity is exactly PEP 495 (sorted tables): `valid` ⇔ exactly one instant shows the reading, `skipped` ⇔ none,
`repeated` ⇔ at least two -/
theorem validity_sound (z : Zone) (hs : z.Sorted) (L : Int) :
    (z.validity L = .valid → ∃ u, z.toLocal u = L ∧ ∀ v, z.toLocal v = L → v = u) ∧
    (z.validity L = .skipped → ∀ v, z.toLocal v ≠ L) ∧
    (z.validity L = .repeated → ∃ a b, a < b ∧ z.toLocal a = L ∧ z.toLocal b = L) := by
  simp only [Zone.validity]
  refine ⟨?_, ?_, ?_⟩
  · intro h
    split at h
    · next u hu => exact ⟨u, z.resolve_unique' hs L u hu⟩
    · simp at h
    · simp at h
  · intro h
    split at h
    · simp at h
    · next e l hg => exact (z.resolve_gap hs L e l hg).1
    · simp at h
  · intro h
    split at h
    · simp at h
    · simp at h
    · next a b hf =>
      obtain ⟨h1, h2, h3, _⟩ := z.resolve_fold hs L a b hf
      exact ⟨a, b, h3, h1, h2⟩

/-! ### from the probed hour to every day of the year -/

theorem findTime_hour_scan (z : Zone) (year : Int) (rev fwd : Bool) (h : Nat) (hf : findTime z year rev = .hour fwd h) :
    ∃ u v, dstScan z year rev = some (u, h, v) ∧ (fwd = true ↔ v = .skipped) := by
  obtain ⟨u, v, h1, h2, _⟩ := find_time_probes z year rev fwd h hf
  exact ⟨u, v, h1, h2⟩

theorem findTime_nothing_scan (z : Zone) (year : Int) (rev : Bool) (hf : findTime z year rev = .nothing) :
    dstScan z year rev = none := by
  unfold findTime at hf
  split at hf
  · assumption
  · dsimp only at hf
    split at hf
    · simp at hf
    · split at hf <;> simp at hf

/-- **C20, the whole year**: in a year in which the zone's rules are regular (`YearRegular`: changes aligned to
clock hours, one hour per direction, the scan visits every local date of the year) a time of day that
`check_dst_handling` accepts without a forward policy is skipped on no day of the year, and one accepted without
a backward policy is repeated on no day of the year — for every combination of given / missing policies -/
theorem accepted_safe_all_year (z : Zone) (year : Int) (InYear : Int → Prop) (hreg : YearRegular z year InYear)
    (t : Int) (h0 : 0 ≤ t) (h1 : t < NS_PER_DAY) (fwd : Option Skipped) (bwd : Option Repeated)
    (r : Skipped × Repeated) (h : checkDst z year t fwd bwd = .ok r) :
    (fwd = none → ∀ D, InYear D → z.validity (D * NS_PER_DAY + t) ≠ .skipped) ∧
    (bwd = none → ∀ D, InYear D → z.validity (D * NS_PER_DAY + t) ≠ .repeated) := by
  -- what an accepted call tells us about the setup
  have hacc : ¬ (fwd.isSome ∧ bwd.isSome) → ∃ rf rb, dstSetup z year = .ok (rf, rb) ∧
      (fwd = none → rf.required t = false) ∧ (bwd = none → rb.required t = false) := by
    intro hnb
    unfold checkDst at h
    rw [if_neg (by simpa using hnb)] at h
    split at h
    · simp at h
    · next rf rb hs =>
      refine ⟨rf, rb, hs, ?_, ?_⟩
      · intro hf; subst hf
        by_cases e : rf.required t = true
        · simp [e] at h
        · simpa using e
      · intro hb; subst hb
        by_cases e1 : fwd.isNone ∧ rf.required t = true
        · simp [e1] at h
        · rw [if_neg (by simpa using e1)] at h
          by_cases e : rb.required t = true
          · simp [e] at h
          · simpa using e
  -- the core: a defect of kind `v` on a day of the year contradicts acceptance when the matching policy is missing
  have core : ∀ (v : Validity), v ≠ .valid → ∀ D, InYear D → z.validity (D * NS_PER_DAY + t) = v →
      ∀ rf rb, dstSetup z year = .ok (rf, rb) →
        (v = .skipped → rf.required t = false) → (v = .repeated → rb.required t = false) → False := by
    intro v hv D hD hval rf rb hs hrf hrb
    have hne : z.validity (D * NS_PER_DAY + t) ≠ .valid := by rw [hval]; exact hv
    have hf1 := scan_finds z year InYear hreg D t hD h0 h1 hne false
    have hf2 := scan_finds z year InYear hreg D t hD h0 h1 hne true
    unfold dstSetup at hs
    split at hs
    · next hn => exact hf1 (findTime_nothing_scan z year false hn)
    · -- inconsistent: both directions required
      simp at hs
      obtain ⟨rfl, rfl⟩ := hs
      cases v with
      | valid => exact hv rfl
      | skipped => simpa [Req.required] using hrf rfl
      | repeated => simpa [Req.required] using hrb rfl
    · next fwd1 hh1 hft1 =>
      split at hs
      · next hn => exact hf2 (findTime_nothing_scan z year true hn)
      · simp at hs
        obtain ⟨rfl, rfl⟩ := hs
        cases v with
        | valid => exact hv rfl
        | skipped => simpa [Req.required] using hrf rfl
        | repeated => simpa [Req.required] using hrb rfl
      · next fwd2 hh2 hft2 =>
        obtain ⟨u1, v1, hs1, hd1⟩ := findTime_hour_scan z year false fwd1 hh1 hft1
        obtain ⟨u2, v2, hs2, hd2⟩ := findTime_hour_scan z year true fwd2 hh2 hft2
        have hv1 := (dstScan_some z year false u1 hh1 v1 hs1).2.2
        have hv2 := (dstScan_some z year true u2 hh2 v2 hs2).2.2
        split at hs
        · simp at hs
        · next hdiff =>
          -- exactly one of the two scans found a skipped reading, the other a repeated one
          have hin : ∀ (rev : Bool) (u : Int) (hh : Nat) (w : Validity), dstScan z year rev = some (u, hh, w) → w = v →
              (Req.hour hh).required t = true := by
            intro rev u hh w hsw hw
            subst hw
            exact (required_hour hh t).2 (scan_hour z year InYear hreg rev u hh w hsw D t hD h0 h1 hval)
          split at hs
          · next hf1t =>
            -- forward scan found the skipped hour hh1, reverse scan the repeated hour hh2
            simp at hs
            obtain ⟨rfl, rfl⟩ := hs
            have e1 : v1 = .skipped := hd1.1 hf1t
            have e2 : v2 = .repeated := by
              have : ¬ (fwd2 = true) := fun e => hdiff (by rw [hf1t, e])
              cases v2 with
              | valid => exact absurd rfl hv2
              | skipped => exact absurd (hd2.2 rfl) this
              | repeated => rfl
            cases v with
            | valid => exact hv rfl
            | skipped => have := hin false u1 hh1 v1 hs1 e1; rw [hrf rfl] at this; cases this
            | repeated => have := hin true u2 hh2 v2 hs2 e2; rw [hrb rfl] at this; cases this
          · next hf1f =>
            simp at hs
            obtain ⟨rfl, rfl⟩ := hs
            have e2 : v2 = .skipped := by
              have : fwd2 = true := by
                cases fwd2 with
                | true => rfl
                | false =>
                  have : fwd1 = false := by cases fwd1 with
                    | true => exact absurd rfl hf1f
                    | false => rfl
                  exact absurd this hdiff
              exact hd2.1 this
            have e1 : v1 = .repeated := by
              cases v1 with
              | valid => exact absurd rfl hv1
              | skipped => exact absurd (hd1.2 rfl) hf1f
              | repeated => rfl
            cases v with
            | valid => exact hv rfl
            | skipped => have := hin true u2 hh2 v2 hs2 e2; rw [hrf rfl] at this; cases this
            | repeated => have := hin false u1 hh1 v1 hs1 e1; rw [hrb rfl] at this; cases this
  constructor
  · intro hf D hD hval
    obtain ⟨rf, rb, hs, h1', h2'⟩ := hacc (by subst hf; simp)
    exact core .skipped (by decide) D hD hval rf rb hs (fun _ => h1' hf) (fun e => by cases e)
  · intro hb D hD hval
    obtain ⟨rf, rb, hs, h1', h2'⟩ := hacc (by subst hb; simp)
    exact core .repeated (by decide) D hD hval rf rb hs (fun e => by cases e) (fun _ => h2' hb)

/-- the hypothesis is satisfiable — a zone-year with the shape of Europe/Berlin is regular (`Lemmas/DstYearEU.lean`:
the analytic clauses by an exact description of `validity`, the scan clauses by kernel evaluation over all 365
dates) — so there the statement holds without any hypothesis -/
theorem accepted_safe_all_year_zEU70 (t : Int) (h0 : 0 ≤ t) (h1 : t < NS_PER_DAY) (fwd : Option Skipped)
    (bwd : Option Repeated) (r : Skipped × Repeated) (h : checkDst zEU70 1970 t fwd bwd = .ok r) :
    (fwd = none → ∀ D, InYear70 D → zEU70.validity (D * NS_PER_DAY + t) ≠ .skipped) ∧
    (bwd = none → ∀ D, InYear70 D → zEU70.validity (D * NS_PER_DAY + t) ≠ .repeated) :=
  accepted_safe_all_year zEU70 1970 InYear70 zEU70_year_regular t h0 h1 fwd bwd r h
-- … and not vacuously: 03:00 is accepted without any policy, 02:30 is rejected, 02:30 with a forward policy only is rejected too
#guard (checkDst zEU70 1970 (3 * NS_PER_HOUR) none none).toOption == some (.after, .earlier)
#guard (checkDst zEU70 1970 (2 * NS_PER_HOUR + 30 * NS_PER_MIN) none none).toOption.isNone
#guard (checkDst zEU70 1970 (2 * NS_PER_HOUR + 30 * NS_PER_MIN) (some .skip) none).toOption.isNone

/-- a second regular zone-year, with the shape of America/New_York 2021: the skipped hour (02) and the repeated hour
(01) differ. `twoZone_year_regular` (`Lemmas/DstYear2.lean`) derives the two analytic clauses of `YearRegular` for EVERY
table with one forward change that skips exactly one clock hour and one backward change that repeats exactly one
clock hour; only the two clauses about the scan are evaluated per zone-year -/
theorem accepted_safe_all_year_zUS21 (t : Int) (h0 : 0 ≤ t) (h1 : t < NS_PER_DAY) (fwd : Option Skipped)
    (bwd : Option Repeated) (r : Skipped × Repeated) (h : checkDst zUS21 2021 t fwd bwd = .ok r) :
    (fwd = none → ∀ D, InYear21 D → zUS21.validity (D * NS_PER_DAY + t) ≠ .skipped) ∧
    (bwd = none → ∀ D, InYear21 D → zUS21.validity (D * NS_PER_DAY + t) ≠ .repeated) :=
  accepted_safe_all_year zUS21 2021 InYear21 zUS21_year_regular t h0 h1 fwd bwd r h
-- 01:30 (repeated on 7 November) is rejected without a backward policy and accepted with one; 02:30 needs a forward policy
#guard (checkDst zUS21 2021 (1 * NS_PER_HOUR + 30 * NS_PER_MIN) none none).toOption.isNone
#guard (checkDst zUS21 2021 (1 * NS_PER_HOUR + 30 * NS_PER_MIN) none (some .twice)).toOption == some (.after, .twice)
#guard (checkDst zUS21 2021 (2 * NS_PER_HOUR + 30 * NS_PER_MIN) none (some .twice)).toOption.isNone
#guard (checkDst zUS21 2021 (4 * NS_PER_HOUR) none none).toOption == some (.after, .earlier)

/-- the scan orders of the code (read from the imported source on every run) -/
theorem scan_orders : Gen.dstMonthOrder = [3, 4, 11, 9, 10] ∧ Gen.dstHourOrder = [2, 3, 0, 1] := by decide

-- non-vacuity (executable checks) in a zone with +1 h → +2 h on 1970-03-29 01:00 UTC and back on 1970-10-25 01:00 UTC
def zEU : Zone := { init := NS_PER_HOUR, trans := [(7516800 * NS_PER_S + 3600 * NS_PER_S, 2 * NS_PER_HOUR),
                                                   (25660800 * NS_PER_S + 3600 * NS_PER_S, NS_PER_HOUR)] }
#guard findTime zEU 1970 false == .hour true 2
#guard findTime zEU 1970 true == .hour false 2
#guard (checkDst zEU 1970 (2 * NS_PER_HOUR + 30 * NS_PER_MIN) none none).toOption.isNone
#guard (checkDst zEU 1970 (3 * NS_PER_HOUR) none none).toOption == some (.after, .earlier)

end Ea.C20
