import EaModel.Tasks
namespace Ea.C12
theorem placeholder : True := trivial
end Ea.C12
