import EaModel.Tasks
import EaModel.Lemmas.StartsOnce
import EaModel.Lemmas.Tracked
import EaModel.Lemmas.TrackedLive
/-!
# C12 — parallel task managers respect their bound and keep tasks alive

Theorems about the task-manager model (`EaModel/Tasks.lean`) for every finite list of harness operations
(submissions from outside, from inside running tasks and from listeners woken by finishing tasks; completions,
failures, external cancellations) and every limit ≥ 1 and policy.
-/
namespace Ea.C12

def runT (s : TSt) (ops : List TOp) : TSt := ops.foldl tstep s

/-- the invariant: a limiting parallel manager never tracks more than `limit` tasks -/
def Bounded (limit : Nat) (s : TSt) : Prop := s.tracked.length ≤ limit

theorem createTask_tracked (s : TSt) (c : Nat) : (s.createTask c).1.tracked = s.tracked := rfl

theorem cancelTask_tracked (s : TSt) (t : Nat) : (s.cancelTask t).tracked = s.tracked := by
  unfold TSt.cancelTask
  simp only []
  split
  · rfl
  · rfl
  · split <;> rfl

theorem cancelTask_kind (s : TSt) (t : Nat) : (s.cancelTask t).kind = s.kind := by
  unfold TSt.cancelTask
  simp only []
  split
  · rfl
  · rfl
  · split <;> rfl

theorem submit_kind_core (s : TSt) (limit : Nat) (p : ParPolicy) (c k : Nat) (hk : s.kind = .limitingPar limit p) :
    (submitCore s c k).kind = .limitingPar limit p := by
  unfold submitCore
  rw [hk]
  simp only []
  split
  · cases p <;> simp only []
    · exact hk
    · split
      · exact hk
      · simp [TSt.createTask, cancelTask_kind, hk]
    · split
      · exact hk
      · simp [TSt.createTask, cancelTask_kind, hk]
  · exact hk

theorem submit_kind (s : TSt) (limit : Nat) (p : ParPolicy) (c k : Nat) (hk : s.kind = .limitingPar limit p) :
    (submit s c k).kind = .limitingPar limit p :=
  submit_kind_core (s.emit (.submitted c)) limit p c k hk

/-- `create_task` of the limiting parallel manager keeps the bound: at the limit it either drops the new
coroutine (skip) or untracks the oldest / newest task before it tracks the new one -/
theorem submit_bounded_core (s : TSt) (limit : Nat) (p : ParPolicy) (c k : Nat) (hl : 1 ≤ limit)
    (hk : s.kind = .limitingPar limit p) (h : Bounded limit s) : Bounded limit (submitCore s c k) := by
  unfold Bounded at *
  unfold submitCore
  rw [hk]
  simp only []
  split
  · next hge =>
    cases p <;> simp only []
    · exact h
    · split
      · next he => simp [TSt.createTask]; omega
      · next t0 rest he =>
        simp [TSt.createTask, cancelTask_tracked]
        rw [he] at h; simp at h; omega
    · split
      · next he => simp [TSt.createTask]; omega
      · next t0 he =>
        simp [TSt.createTask, cancelTask_tracked]
        have : s.tracked ≠ [] := by intro e; rw [e] at he; simp at he
        have := List.length_pos_iff.2 this
        omega
  · next hlt =>
    simp [TSt.createTask]; omega

theorem submit_bounded (s : TSt) (limit : Nat) (p : ParPolicy) (c k : Nat) (hl : 1 ≤ limit)
    (hk : s.kind = .limitingPar limit p) (h : Bounded limit s) : Bounded limit (submit s c k) :=
  submit_bounded_core (s.emit (.submitted c)) limit p c k hl hk h

theorem submitAll_bounded (limit : Nat) (p : ParPolicy) (hl : 1 ≤ limit) :
    ∀ (subs : List (Nat × Nat)) (s : TSt), s.kind = .limitingPar limit p → Bounded limit s →
      (submitAll s subs).kind = .limitingPar limit p ∧ Bounded limit (submitAll s subs)
  | [], s, hk, h => ⟨hk, h⟩
  | (c, k) :: rest, s, hk, h => by
    unfold submitAll
    exact submitAll_bounded limit p hl rest _ (submit_kind s limit p c k hk) (submit_bounded s limit p c k hl hk h)

theorem setTask_frame (s : TSt) (t : Nat) (x : Task) :
    (s.setTask t x).tracked = s.tracked ∧ (s.setTask t x).kind = s.kind := ⟨rfl, rfl⟩

theorem runReady_bounded (limit : Nat) (p : ParPolicy) (hl : 1 ≤ limit) (s : TSt) (r : Ready)
    (hk : s.kind = .limitingPar limit p) (h : Bounded limit s) :
    (runReady s r).kind = .limitingPar limit p ∧ Bounded limit (runReady s r) := by
  unfold Bounded at *
  cases r with
  | step t =>
    simp only [runReady]
    split
    · exact ⟨hk, h⟩
    · split
      · exact ⟨hk, h⟩
      · exact ⟨hk, h⟩
  | resume t fail last =>
    simp only [runReady]
    split
    · exact ⟨hk, h⟩
    · obtain ⟨k1, b1⟩ := submitAll_bounded limit p hl last.inside s hk h
      split
      · exact ⟨k1, b1⟩
      · exact ⟨k1, b1⟩
  | resumeCancel t =>
    simp only [runReady]
    split
    · exact ⟨hk, h⟩
    · exact ⟨hk, h⟩
  | doneCb t =>
    simp only [runReady, managerDone]
    have hk' : (s.setTask t { s.task t with delivered := true }).kind = .limitingPar limit p := hk
    rw [hk']
    simp only []
    constructor
    · first | exact hk | trivial
    · show ((s.tracked).erase t).length ≤ limit
      have := List.length_erase_le (a := t) (l := s.tracked)
      omega
  | listener subs =>
    simp only [runReady]
    exact submitAll_bounded limit p hl subs s hk h

theorem drain_bounded (limit : Nat) (p : ParPolicy) (hl : 1 ≤ limit) :
    ∀ (n : Nat) (s : TSt), s.kind = .limitingPar limit p → Bounded limit s →
      (drain n s).kind = .limitingPar limit p ∧ Bounded limit (drain n s)
  | 0, s, hk, h => ⟨hk, h⟩
  | n + 1, s, hk, h => by
    unfold drain
    split
    · exact ⟨hk, h⟩
    · next r rest hr =>
      obtain ⟨k1, b1⟩ := runReady_bounded limit p hl { s with ready := rest } r hk h
      exact drain_bounded limit p hl n _ k1 b1

/-- **bound**: in every reachable state the limiting parallel manager tracks at most `limit` tasks -/
theorem bound (limit : Nat) (p : ParPolicy) (hl : 1 ≤ limit) (ops : List TOp) :
    (runT { kind := .limitingPar limit p } ops).tracked.length ≤ limit := by
  suffices h : ∀ (s : TSt), s.kind = .limitingPar limit p → Bounded limit s →
      (runT s ops).kind = .limitingPar limit p ∧ Bounded limit (runT s ops) from
    (h _ rfl (by simp [Bounded])).2
  induction ops with
  | nil => intro s hk h; exact ⟨hk, h⟩
  | cons op ops ih =>
    intro s hk h
    simp only [runT, List.foldl]
    have key : (applyOp s op).kind = .limitingPar limit p ∧ Bounded limit (applyOp s op) := by
      cases op with
      | submit c k => exact ⟨submit_kind s limit p c k hk, submit_bounded s limit p c k hl hk h⟩
      | complete t fail last => simp only [applyOp]; split <;> exact ⟨hk, h⟩
      | cancel t =>
        exact ⟨by simp only [applyOp]; rw [cancelTask_kind]; exact hk,
               by simp only [applyOp]; unfold Bounded; rw [cancelTask_tracked]; exact h⟩
    have := drain_bounded limit p hl DRAIN_FUEL _ key.1 key.2
    exact ih _ this.1 this.2

/-- **skip** closes the new coroutine unstarted and changes nothing else -/
theorem skip_closes_core (s : TSt) (limit c k : Nat) (hk : s.kind = .limitingPar limit .skip)
    (hfull : s.tracked.length ≥ limit) : submitCore s c k = s.emit (.closed c) := by
  unfold submitCore; rw [hk]; simp [hfull]

/-- **skip** closes the new coroutine unstarted and changes nothing else (but the bookkeeping entry of the call) -/
theorem skip_closes (s : TSt) (limit c k : Nat) (hk : s.kind = .limitingPar limit .skip)
    (hfull : s.tracked.length ≥ limit) : submit s c k = (s.emit (.submitted c)).emit (.closed c) :=
  skip_closes_core (s.emit (.submitted c)) limit c k hk hfull

/-- **cancel_first** cancels and untracks the OLDEST tracked task before the new one is created -/
theorem cancel_first_oldest_core (s : TSt) (limit c k t0 : Nat) (rest : List Nat)
    (hk : s.kind = .limitingPar limit .cancelFirst) (hfull : s.tracked.length ≥ limit) (ht : s.tracked = t0 :: rest) :
    submitCore s c k =
      (let s1 := { s with tracked := rest }.cancelTask t0
       { (s1.createTask c).1 with tracked := (s1.createTask c).1.tracked ++ [(s1.createTask c).2] }) := by
  unfold submitCore
  rw [hk]
  simp only []
  rw [if_pos hfull]
  simp only [ht]

/-- **cancel_first** cancels and untracks the OLDEST tracked task before the new one is created -/
theorem cancel_first_oldest (s : TSt) (limit c k t0 : Nat) (rest : List Nat)
    (hk : s.kind = .limitingPar limit .cancelFirst) (hfull : s.tracked.length ≥ limit) (ht : s.tracked = t0 :: rest) :
    submit s c k =
      (let s1 := { (s.emit (.submitted c)) with tracked := rest }.cancelTask t0
       { (s1.createTask c).1 with tracked := (s1.createTask c).1.tracked ++ [(s1.createTask c).2] }) :=
  cancel_first_oldest_core (s.emit (.submitted c)) limit c k t0 rest hk hfull ht

/-- **cancel_last** cancels and untracks the NEWEST tracked task before the new one is created -/
theorem cancel_last_newest_core (s : TSt) (limit c k t0 : Nat)
    (hk : s.kind = .limitingPar limit .cancelLast) (hfull : s.tracked.length ≥ limit)
    (ht : s.tracked.getLast? = some t0) :
    submitCore s c k =
      (let s1 := { s with tracked := s.tracked.dropLast }.cancelTask t0
       { (s1.createTask c).1 with tracked := (s1.createTask c).1.tracked ++ [(s1.createTask c).2] }) := by
  unfold submitCore
  rw [hk]
  simp only []
  rw [if_pos hfull]
  simp only [ht]

/-- **cancel_last** cancels and untracks the NEWEST tracked task before the new one is created -/
theorem cancel_last_newest (s : TSt) (limit c k t0 : Nat)
    (hk : s.kind = .limitingPar limit .cancelLast) (hfull : s.tracked.length ≥ limit)
    (ht : s.tracked.getLast? = some t0) :
    submit s c k =
      (let s1 := { (s.emit (.submitted c)) with tracked := s.tracked.dropLast }.cancelTask t0
       { (s1.createTask c).1 with tracked := (s1.createTask c).1.tracked ++ [(s1.createTask c).2] }) :=
  cancel_last_newest_core (s.emit (.submitted c)) limit c k t0 hk hfull ht

/-- ... and the victim gets its `CancelledError` before the new coroutine takes its first step: a victim that is
waiting (suspended in an `await`) is woken first, the first step of the new task is scheduled behind it, so more
than `limit` coroutine bodies are never live -/
theorem victim_cancelled_before_replacement_core (s : TSt) (limit c k t0 : Nat) (rest : List Nat)
    (hk : s.kind = .limitingPar limit .cancelFirst) (hfull : s.tracked.length ≥ limit) (ht : s.tracked = t0 :: rest)
    (hsus : (s.task t0).status = .suspended) (hnc : (s.task t0).cancelReq = false) :
    (submitCore s c k).ready = s.ready ++ [.resumeCancel t0, .step s.tasks.length] := by
  rw [cancel_first_oldest_core s limit c k t0 rest hk hfull ht]
  have ht0 : ({ s with tracked := rest } : TSt).task t0 = s.task t0 := rfl
  simp only [TSt.cancelTask, ht0, hsus, hnc, TSt.createTask, TSt.setTask]
  simp

/-- ... and the victim gets its `CancelledError` before the new coroutine takes its first step (see the core lemma) -/
theorem victim_cancelled_before_replacement (s : TSt) (limit c k t0 : Nat) (rest : List Nat)
    (hk : s.kind = .limitingPar limit .cancelFirst) (hfull : s.tracked.length ≥ limit) (ht : s.tracked = t0 :: rest)
    (hsus : (s.task t0).status = .suspended) (hnc : (s.task t0).cancelReq = false) :
    (submit s c k).ready = s.ready ++ [.resumeCancel t0, .step s.tasks.length] :=
  victim_cancelled_before_replacement_core (s.emit (.submitted c)) limit c k t0 rest hk hfull ht hsus hnc

/-- a finished task frees its slot: the done callback removes it from the tracked tasks -/
theorem slot_freed (s : TSt) (limit : Nat) (p : ParPolicy) (t : Nat) (hk : s.kind = .limitingPar limit p) :
    (managerDone s t).tracked = s.tracked.erase t := by
  unfold managerDone
  have hk' : (s.setTask t { s.task t with delivered := true }).kind = .limitingPar limit p := hk
  simp only [hk']
  rfl

/-- the unbounded manager creates a task for EVERY submitted coroutine and tracks it (strong reference)
until its done callback -/
theorem unbounded_starts_and_tracks_core (s : TSt) (c k : Nat) (hk : s.kind = .parallel) :
    (submitCore s c k).tasks = s.tasks ++ [{ coro := c }] ∧ (submitCore s c k).tracked = s.tracked ++ [s.tasks.length] ∧
    (submitCore s c k).ready = s.ready ++ [.step s.tasks.length] := by
  unfold submitCore; rw [hk]; simp [TSt.createTask]

/-- the unbounded manager creates a task for EVERY submitted coroutine and tracks it until its done callback -/
theorem unbounded_starts_and_tracks (s : TSt) (c k : Nat) (hk : s.kind = .parallel) :
    (submit s c k).tasks = s.tasks ++ [{ coro := c }] ∧ (submit s c k).tracked = s.tracked ++ [s.tasks.length] ∧
    (submit s c k).ready = s.ready ++ [.step s.tasks.length] :=
  unbounded_starts_and_tracks_core (s.emit (.submitted c)) c k hk

/-! ### conservation (`Lemmas/Conserve.lean`, `Lemmas/StartsOnce.lean`) -/

/-- every coroutine handed to a parallel manager (bounded or not) is accounted for in every reachable state: it has
exactly one task or — limiting manager, policy skip — was closed unstarted, and its body was entered at most once -/
theorem every_submission_accounted (k : MgrKind) (ops : List TOp) (c : Nat)
    (hs : cSub c (runT { kind := k } ops).log = 1) :
    let s := runT { kind := k } ops
    ((cQueue c s.queue = 1 ∧ cTasks c s.tasks = 0 ∧ cClosed c s.log = 0) ∨
     (cQueue c s.queue = 0 ∧ cTasks c s.tasks = 1 ∧ cClosed c s.log = 0) ∨
     (cQueue c s.queue = 0 ∧ cTasks c s.tasks = 0 ∧ cClosed c s.log = 1)) ∧ cEnter c s.log ≤ 1 :=
  submitted_once k ops c hs

/-- **strong references until done, forgotten afterwards**: in every state the unbounded parallel manager can reach,
the set of tracked tasks is exactly the set of tasks whose done callback has not run yet — a task is tracked from
`create_task` until it is done and not a moment longer — and no task is tracked twice -/
theorem unbounded_tracks_exactly (ops : List TOp) (t : Nat) :
    let s := runT { kind := .parallel } ops
    (t ∈ s.tracked ↔ (t < s.tasks.length ∧ (s.task t).delivered = false)) ∧ s.tracked.Nodup :=
  ⟨(tracked_exact_reachable ops).mem t, (tracked_exact_reachable ops).nodup⟩

/-- **a finished task never holds a slot**: in every state the limiting parallel manager can reach (any limit, any
policy), every tracked task exists, its done callback has not run yet, and no task is tracked twice — together with
`bound`: never more than `limit` live tasks are tracked -/
theorem limiting_tracks_only_live (limit : Nat) (p : ParPolicy) (ops : List TOp) :
    let s := runT { kind := .limitingPar limit p } ops
    (∀ t ∈ s.tracked, t < s.tasks.length ∧ (s.task t).delivered = false) ∧ s.tracked.Nodup :=
  ⟨(tracked_live_reachable (.limitingPar limit p) trivial ops).mem, (tracked_live_reachable (.limitingPar limit p) trivial ops).nodup⟩

-- non-vacuity (executable checks): limit 2, cancel_first: the third submission cancels the first coroutine
#guard (observable (runT { kind := .limitingPar 2 .cancelFirst } [.submit 1 0, .submit 2 0, .submit 3 0]).log
  == [.enter 1, .enter 2, .cancelled 1, .enter 3])
#guard (runT { kind := .limitingPar 2 .cancelFirst } [.submit 1 0, .submit 2 0, .submit 3 0]).tracked.length == 2

#guard cSub 3 (runT { kind := .limitingPar 2 .skip } [.submit 1 0, .submit 2 0, .submit 3 0]).log == 1
#guard cClosed 3 (runT { kind := .limitingPar 2 .skip } [.submit 1 0, .submit 2 0, .submit 3 0]).log == 1
#guard cTasks 2 (runT { kind := .parallel } [.submit 1 0, .submit 2 0, .submit 3 0]).tasks == 1

end Ea.C12
