import EaModel.Filter
import EaModel.Parse
import EaModel.Lemmas.Calendar
/-!
# C17 — filters implement their algebra and their range syntax
-/
namespace Ea.C17

variable (ext : Nat → Int → Bool)

theorem anyAllow_iff (fs : List Filter) (L : Int) :
    Filter.anyAllow ext fs L = true ↔ ∃ f ∈ fs, f.allow ext L = true := by
  induction fs with
  | nil => simp [Filter.anyAllow]
  | cons f fs ih => simp [Filter.anyAllow, ih]

theorem allAllow_iff (fs : List Filter) (L : Int) :
    Filter.allAllow ext fs L = true ↔ ∀ f ∈ fs, f.allow ext L = true := by
  induction fs with
  | nil => simp [Filter.allAllow]
  | cons f fs ih => simp [Filter.allAllow, ih]

/-- `any(...)` accepts exactly when at least one member accepts -/
theorem any_iff (fs : List Filter) (L : Int) :
    (Filter.any fs).allow ext L = true ↔ ∃ f ∈ fs, f.allow ext L = true := by
  simp [Filter.allow, anyAllow_iff]

/-- `all(...)` accepts exactly when every member accepts -/
theorem all_iff (fs : List Filter) (L : Int) :
    (Filter.all fs).allow ext L = true ↔ ∀ f ∈ fs, f.allow ext L = true := by
  simp [Filter.allow, allAllow_iff]

/-- `not_` inverts -/
theorem not_iff (f : Filter) (L : Int) : (Filter.not f).allow ext L = true ↔ f.allow ext L = false := by
  simp [Filter.allow]

/-- the time filter accepts exactly `lower ≤ local time < upper` (a missing bound does not restrict) -/
theorem time_iff (lo hi : Option Int) (L : Int) :
    (Filter.time lo hi).allow ext L = true ↔
      (∀ l, lo = some l → l ≤ todOf L) ∧ (∀ h, hi = some h → todOf L < h) := by
  cases lo <;> cases hi <;> simp [Filter.allow] <;> omega

/-- weekday / day-of-month / month filters accept exactly the members of their set -/
theorem dow_iff (ds : List Int) (L : Int) : (Filter.dow ds).allow ext L = true ↔ isoWeekday (dayOf L) ∈ ds := by
  simp [Filter.allow]
theorem dom_iff (ds : List Int) (L : Int) : (Filter.dom ds).allow ext L = true ↔ (civilFromDays (dayOf L)).d ∈ ds := by
  simp [Filter.allow]
theorem moy_iff (ms : List Int) (L : Int) : (Filter.moy ms).allow ext L = true ↔ (civilFromDays (dayOf L)).m ∈ ms := by
  simp [Filter.allow]

/-! ## what "day of the month", "month" and "weekday" mean: the Gregorian calendar (`Lemmas/Calendar.lean`)

The three date filters read `civilFromDays` / `isoWeekday` of the local day number. These functions are the proleptic
Gregorian calendar, for every integer day number: -/

/-- day 0 is Thursday 1970-01-01; the date of the next day is the calendar successor (next day of the month; first of
the next month after the 28th/29th/30th/31st as the Gregorian rules say; 1 January after 31 December); every date is
well-formed; `daysFromCivil` is the inverse in both directions (day numbers ↔ well-formed dates is a bijection); the
weekday advances cyclically -/
theorem calendar_is_gregorian :
    (civilFromDays 0 = { y := 1970, m := 1, d := 1 } ∧ isoWeekday 0 = 4) ∧
    (∀ z, IsSucc (civilFromDays z) (civilFromDays (z + 1))) ∧
    (∀ z, WellFormed (civilFromDays z)) ∧
    (∀ z, daysFromCivil (civilFromDays z).y (civilFromDays z).m (civilFromDays z).d = z) ∧
    (∀ y m d, WellFormed { y := y, m := m, d := d } → civilFromDays (daysFromCivil y m d) = { y := y, m := m, d := d }) ∧
    (∀ z, isoWeekday (z + 1) = if isoWeekday z = 7 then 1 else isoWeekday z + 1) :=
  ⟨civil_epoch, civil_succ, civil_wellFormed, days_of_civil, civil_of_days, weekday_succ⟩

-- e.g. 2024-02-29 exists and is followed by 2024-03-01; 2100-02-28 is followed by 2100-03-01
#guard civilFromDays (daysFromCivil 2024 2 29 + 1) == { y := 2024, m := 3, d := 1 }
#guard civilFromDays (daysFromCivil 2100 2 28 + 1) == { y := 2100, m := 3, d := 1 }

/-- all filters look at the instant through its LOCAL date and time only: instants with the same local
reading are treated alike, in any zone -/
theorem filters_local (z : Zone) (f : Option Filter) (u v : Int) (h : z.toLocal u = z.toLocal v) :
    allowOpt ext f (z.toLocal u) = allowOpt ext f (z.toLocal v) := by rw [h]

/-! ## ranges -/

theorem mem_up (a b x : Int) :
    x ∈ ((List.range (b - a + 1).toNat).map fun (i : Nat) => a + (i : Int)) ↔ a ≤ x ∧ x ≤ b := by
  simp only [List.mem_map, List.mem_range]
  constructor
  · rintro ⟨i, hi, rfl⟩; omega
  · intro ⟨h1, h2⟩
    exact ⟨(x - a).toNat, by omega, by omega⟩

/-- `a-b` denotes `a..b`; `a-a` denotes `{a}`; a wrap-around range `a-b` with `a > b` (Fr-Mo, Oct-Feb) denotes
`a..max` together with `1..b` -/
theorem wrapped_range_mem (a b max x : Int) :
    x ∈ wrappedRange a b max ↔
      (a < b ∧ a ≤ x ∧ x ≤ b) ∨ (a = b ∧ x = a) ∨ (b < a ∧ ((a ≤ x ∧ x ≤ max) ∨ (1 ≤ x ∧ x ≤ b))) := by
  unfold wrappedRange
  simp only []
  split
  · next h => rw [mem_up]; constructor <;> intro hx <;> omega
  · split
    · next h1 h2 => subst h2; simp
    · next h1 h2 =>
      rw [List.mem_append, mem_up, mem_up]
      constructor <;> intro hx <;> omega

/-- a single value outside `min..max` is rejected, inside it is accepted unchanged -/
theorem single_int_range (min max n : Int) :
    parseSingleInt min max n = (if min ≤ n ∧ n ≤ max then .ok n else .error .valueError) := rfl

/-- an empty argument list is rejected -/
theorem empty_rejected (table : Option (List (String × Nat))) (min max : Int) :
    parseItems table min max [] = .error .valueError := by simp [parseItems]

/-! ## names: checked against the tables extracted from the imported source on this run -/

def englishDays : List (String × Nat) := [("monday", 1), ("tuesday", 2), ("wednesday", 3), ("thursday", 4),
  ("friday", 5), ("saturday", 6), ("sunday", 7), ("mon", 1), ("tue", 2), ("wed", 3), ("thu", 4), ("fri", 5),
  ("sat", 6), ("sun", 7)]
def germanDays : List (String × Nat) := [("montag", 1), ("dienstag", 2), ("mittwoch", 3), ("donnerstag", 4),
  ("freitag", 5), ("samstag", 6), ("sonntag", 7), ("mo", 1), ("di", 2), ("mi", 3), ("do", 4), ("fr", 5),
  ("sa", 6), ("so", 7)]
def englishMonths : List (String × Nat) := [("january", 1), ("february", 2), ("march", 3), ("april", 4), ("may", 5),
  ("june", 6), ("july", 7), ("august", 8), ("september", 9), ("october", 10), ("november", 11), ("december", 12),
  ("jan", 1), ("feb", 2), ("mar", 3), ("apr", 4), ("jun", 6), ("jul", 7), ("aug", 8), ("sep", 9), ("oct", 10),
  ("nov", 11), ("dec", 12)]
def germanMonths : List (String × Nat) := [("januar", 1), ("februar", 2), ("märz", 3), ("april", 4), ("mai", 5),
  ("juni", 6), ("juli", 7), ("august", 8), ("september", 9), ("oktober", 10), ("november", 11), ("dezember", 12),
  ("mär", 3), ("mrz", 3), ("okt", 10), ("dez", 12)]

/-- table lookup on character lists (what `DAY_NAMES.get(key)` does once the key is lower-cased and stripped) -/
def lookupC (table : List (List Char × Nat)) (key : List Char) : Option Nat :=
  (table.find? (·.1 = key)).map (·.2)

def expectC (l : List (String × Nat)) : List (List Char × Nat) := l.map fun p => (p.1.toList, p.2)

/-- every English and German weekday name, full and abbreviated, maps to its ISO number — in the table that was
read from the imported source on this run -/
theorem day_names_table :
    ([(['m','o','n','d','a','y'], 1), (['t','u','e','s','d','a','y'], 2), (['w','e','d','n','e','s','d','a','y'], 3),
      (['t','h','u','r','s','d','a','y'], 4), (['f','r','i','d','a','y'], 5), (['s','a','t','u','r','d','a','y'], 6),
      (['s','u','n','d','a','y'], 7), (['m','o','n'], 1), (['t','u','e'], 2), (['w','e','d'], 3), (['t','h','u'], 4),
      (['f','r','i'], 5), (['s','a','t'], 6), (['s','u','n'], 7),
      (['m','o','n','t','a','g'], 1), (['d','i','e','n','s','t','a','g'], 2), (['m','i','t','t','w','o','c','h'], 3),
      (['d','o','n','n','e','r','s','t','a','g'], 4), (['f','r','e','i','t','a','g'], 5), (['s','a','m','s','t','a','g'], 6),
      (['s','o','n','n','t','a','g'], 7), (['m','o'], 1), (['d','i'], 2), (['m','i'], 3), (['d','o'], 4), (['f','r'], 5),
      (['s','a'], 6), (['s','o'], 7)] : List (List Char × Nat)).all
      (fun p => lookupC Gen.dayNamesC p.1 == some p.2) = true := by
  decide +kernel

/-- every English and German month name, full and abbreviated, maps to its number -/
theorem month_names_table :
    ([(['j','a','n','u','a','r','y'], 1), (['f','e','b','r','u','a','r','y'], 2), (['m','a','r','c','h'], 3),
      (['a','p','r','i','l'], 4), (['m','a','y'], 5), (['j','u','n','e'], 6), (['j','u','l','y'], 7),
      (['a','u','g','u','s','t'], 8), (['s','e','p','t','e','m','b','e','r'], 9), (['o','c','t','o','b','e','r'], 10),
      (['n','o','v','e','m','b','e','r'], 11), (['d','e','c','e','m','b','e','r'], 12),
      (['j','a','n'], 1), (['f','e','b'], 2), (['m','a','r'], 3), (['a','p','r'], 4), (['j','u','n'], 6), (['j','u','l'], 7),
      (['a','u','g'], 8), (['s','e','p'], 9), (['o','c','t'], 10), (['n','o','v'], 11), (['d','e','c'], 12),
      (['j','a','n','u','a','r'], 1), (['f','e','b','r','u','a','r'], 2), (['m','ä','r','z'], 3), (['m','a','i'], 5),
      (['j','u','n','i'], 6), (['j','u','l','i'], 7), (['o','k','t','o','b','e','r'], 10), (['d','e','z','e','m','b','e','r'], 12),
      (['m','ä','r'], 3), (['m','r','z'], 3), (['o','k','t'], 10), (['d','e','z'], 12)] : List (List Char × Nat)).all
      (fun p => lookupC Gen.monthNamesC p.1 == some p.2) = true := by
  decide +kernel

/-- the tables contain nothing but numbers of the right range -/
theorem name_tables_in_range :
    Gen.dayNamesC.all (fun p => 1 ≤ p.2 && p.2 ≤ 7) = true ∧ Gen.monthNamesC.all (fun p => 1 ≤ p.2 && p.2 ≤ 12) = true := by
  decide +kernel

-- the character-list tables are the string tables the executable model uses (executable check)
#guard expectC Gen.dayNames == Gen.dayNamesC && expectC Gen.monthNames == Gen.monthNamesC
#guard (englishDays ++ germanDays).all fun p => lookupName Gen.dayNames p.1 == some (p.2 : Int)
#guard (englishMonths ++ germanMonths).all fun p => lookupName Gen.monthNames p.1 == some (p.2 : Int)

-- non-vacuity (executable checks): the spellings named in the property
#guard okVal (getWeekdays [.str "Fr-Mo"]) == some [1, 5, 6, 7]
#guard okVal (getMonths [.str "Oct-Feb"]) == some [1, 2, 10, 11, 12]
#guard okVal (getWeekdays [.str " Mon , Wed-Fri ", .int 7]) == some [1, 3, 4, 5, 7]
#guard okVal (getDays [.str "1-5,10-15"]) == some [1, 2, 3, 4, 5, 10, 11, 12, 13, 14, 15]
#guard (getWeekdays [.str "Mon-"]).toOption.isNone
#guard (getDays [.str "32"]).toOption.isNone
#guard (getMonths [.str "Okt-Mär", .list [.int 5]]).toOption == some [1, 2, 3, 5, 10, 11, 12]

end Ea.C17
