import EaModel.Zone
/-!
# `get_instant`, `get_pos_timedelta_secs` (`builder/helper.py`): every accepted way to say "when"
-/
namespace Ea

/-- the argument of `get_instant` after the type dispatch -/
inductive When
  | now                      -- None
  | after (d : Int)          -- int / float / timedelta / TimeDelta / ISO-8601 duration string: nanoseconds
  | tod (t : Int)            -- datetime.time / whenever.Time / 'HH:MM:SS' string: nanosecond of the day
  | naive (L : Int)          -- naive datetime: system-local wall clock reading
  | aware (u : Int)          -- aware datetime, SystemDateTime, Instant
deriving Repr, Inhabited

/-- `SystemDateTime(...)` without `disambiguate` (whenever 0.7 default: compatible = later in a gap, first in a fold) -/
def resolveCompatible (z : Zone) (L : Int) : Int :=
  match z.resolve L with
  | .unique u => u
  | .gap _ l => l
  | .fold a _ => a

/-- `disambiguate='raise'` -/
def resolveRaise (z : Zone) (L : Int) : Except Err Int :=
  match z.resolve L with
  | .unique u => .ok u
  | .gap _ _ => .error .skippedTime
  | .fold _ _ => .error .repeatedTime

def getInstant (z : Zone) (now : Int) : When → Except Err Int
  | .now => .ok now
  | .after d => .ok (now + d)
  | .aware u => .ok u
  | .naive L => .ok (resolveCompatible z L)
  | .tod t =>
    match resolveRaise z (z.localDay now * NS_PER_DAY + t) with
    | .error e => .error e
    | .ok u =>
      if u < now then resolveRaise z ((z.localDay now + 1) * NS_PER_DAY + t)   -- `new.add(days=1, disambiguate='raise')`
      else .ok u

/-- `get_pos_timedelta_secs`: non-positive durations are rejected -/
def getPosTimedelta (d : Int) : Except Err Int := if d ≤ 0 then .error .valueError else .ok d

end Ea
