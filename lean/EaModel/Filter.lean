import EaModel.Zone
/-!
# Producer filters (`producers/prod_filter.py`)

A filter looks only at the local date and time of the instant (`dt: SystemDateTime`); the model passes the
local nanosecond count `L = toLocal z u`.
-/
namespace Ea

inductive Filter
  | dow (days : List Int)            -- DayOfWeekProducerFilter, ISO weekdays 1..7
  | dom (days : List Int)            -- DayOfMonthProducerFilter
  | moy (months : List Int)          -- MonthOfYearProducerFilter
  | time (lo hi : Option Int)        -- TimeProducerFilter, nanosecond of day
  | any (fs : List Filter)           -- AnyGroupProducerFilter
  | all (fs : List Filter)           -- AllGroupProducerFilter
  | not (f : Filter)                 -- InvertingProducerFilter
  | ext (id : Nat)                   -- opaque predicate on the local date (holiday filters)
deriving Repr, Inhabited

mutual
/-- `filter.allow(dt)` on the local nanosecond count `L`; `ext` is the opaque date predicate -/
def Filter.allow (ext : Nat → Int → Bool) : Filter → Int → Bool
  | .dow ds, L => ds.contains (isoWeekday (dayOf L))
  | .dom ds, L => ds.contains (civilFromDays (dayOf L)).d
  | .moy ms, L => ms.contains (civilFromDays (dayOf L)).m
  | .time lo hi, L =>
      (match lo with | none => true | some l => !(todOf L < l)) &&
      (match hi with | none => true | some h => !(todOf L ≥ h))
  | .any fs, L => Filter.anyAllow ext fs L
  | .all fs, L => Filter.allAllow ext fs L
  | .not f, L => !(Filter.allow ext f L)
  | .ext id, L => ext id (dayOf L)
def Filter.anyAllow (ext : Nat → Int → Bool) : List Filter → Int → Bool
  | [], _ => false
  | f :: fs, L => Filter.allow ext f L || Filter.anyAllow ext fs L
def Filter.allAllow (ext : Nat → Int → Bool) : List Filter → Int → Bool
  | [], _ => true
  | f :: fs, L => Filter.allow ext f L && Filter.allAllow ext fs L
end

/-- `(f := self._filter) is None or f.allow(...)` -/
def allowOpt (ext : Nat → Int → Bool) : Option Filter → Int → Bool
  | none, _ => true
  | some f, L => f.allow ext L

end Ea
