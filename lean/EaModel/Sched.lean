import EaModel.Producer
/-!
# The scheduler, the three job kinds, callbacks, the job store and the event loop timer

Model of `schedulers/async_scheduler.py`, `jobs/*.py`, `job_control/*.py`, `builder/jobs.py`,
`job_stores/memory.py`, `jobs/event_handler.py`, `executor/base.py` and `errors/handler.py`
under a virtual clock. `_set_timer` ↔ `run_jobs` are mutually recursive on a fuel argument whose
exhaustion is a visible outcome (`RecursionError`).
-/
namespace Ea

inductive Status | created | running | paused | finished
deriving DecidableEq, Repr, Inhabited

def Status.name : Status → String
  | .created => "created" | .running => "running" | .paused => "paused" | .finished => "finished"

inductive Kind
  | once (t : Int)
  | countdown
  | recurring (p : Producer)
deriving Repr, Inhabited

structure Job where
  kind : Kind := .countdown
  status : Status := .created
  nextRun : Option Int := none
  /-- countdown value in nanoseconds (`_seconds`) -/
  secs : Int := 0
  /-- `_scheduler is not None` -/
  linked : Bool := false
  /-- id of the job in the job store -/
  key : Nat := 0
  inStore : Bool := false
  onUpdate : List Nat := []
  onFinished : List Nat := []
  /-- number of executions so far / indices of the executions whose callable raises -/
  execs : Nat := 0
  execFail : List Nat := []
  /-- number of `get_next` calls so far / indices of the calls that raise -/
  calls : Nat := 0
  trigFail : List Nat := []
  /-- every `get_next` call with index ≥ this raises (a permanent failure such as a missing location) -/
  trigFailFrom : Nat := 1000000000
  /-- `last_run`: the instant of the most recent execution -/
  lastRun : Option Int := none
deriving Repr, Inhabited

inductive Ev
  | exec (j : Nat) (t : Int) (due : Int)
  | cb (fin : Bool) (cb : Nat) (j : Nat) (st : Status) (nr : Option Int) (now : Int)
  | exc (name : String)
  /-- an exception that would escape a loop callback or `_set_timer`; unreachable by theorem -/
  | fatal (e : Err)
deriving Repr

structure St where
  now : Int := 0
  enabled : Bool := true
  /-- `when` of the armed `TimerHandle` -/
  timer : Option Int := none
  queue : List Nat := []
  jobs : Nat → Job := fun _ => {}
  /-- job store: key ↦ job -/
  store : List (Nat × Nat) := []
  /-- callbacks that raise when they are invoked -/
  cbFail : List Nat := []
  env : Env := {}
  /-- newest first -/
  log : List Ev := []

def St.job (s : St) (j : Nat) : Job := s.jobs j
def St.setJob (s : St) (j : Nat) (b : Job) : St :=
  { s with jobs := fun i => if i = j then b else s.jobs i }
def St.emit (s : St) (e : Ev) : St := { s with log := e :: s.log }
def St.nr (s : St) (j : Nat) : Option Int := (s.jobs j).nextRun

/-- `JobBase.__lt__` on next_run values -/
def ltNR (a b : Option Int) : Bool :=
  match b with
  | none => true
  | some y => match a with
    | none => false
    | some x => x < y

/-- `bisect.insort` (= insort_right) as a linear scan: insert before the first element that is greater -/
def insort (nr : Nat → Option Int) (x : Nat) : List Nat → List Nat
  | [] => [x]
  | e :: es => if ltNR (nr x) (nr e) then x :: e :: es else e :: insort nr x es

/-- `JobCallbackHandler.run`: every registered callback once, in registration order, with the new
state visible; a raising callback is reported to the exception handler and the others still run -/
def runCbs (fin : Bool) (j : Nat) : List Nat → St → St
  | [], s => s
  | c :: cs, s =>
    let s := s.emit (.cb fin c j (s.job j).status (s.job j).nextRun s.now)
    let s := if s.cbFail.contains c then s.emit (.exc "CallbackError") else s
    runCbs fin j cs s

/-- tolerance of `set_next_run` for run times in the past (100 ms) -/
def PAST_TOLERANCE : Int := 100 * NS_PER_MS

/-- result of an API level function: the new state and the exception it raises, if any -/
abbrev R := St × Option Err

/-- `JobBase.set_next_run` -/
def setNextRun (s : St) (j : Nat) (nr : Option Int) : R :=
  match nr with
  | none =>
    let s := s.setJob j { s.job j with nextRun := none, status := .paused }
    (runCbs false j (s.job j).onUpdate s, none)
  | some t =>
    if t < s.now - PAST_TOLERANCE then (s, some .runInThePast) else
    let s := s.setJob j { s.job j with nextRun := some t, status := .running }
    (runCbs false j (s.job j).onUpdate s, none)

section withTimer
-- `setT` is `_set_timer` (at the fuel that is left)
variable (setT : St → St)

/-- `AsyncScheduler.remove_job` -/
def removeJob (s : St) (j : Nat) : St :=
  match s.queue with
  | [] => setT s
  | h :: _ =>
    let s' := { s with queue := s.queue.erase j }
    match s'.queue with
    | [] => setT s'
    | _ :: _ => if h = j then setT s' else s'

/-- `AsyncScheduler.add_job` -/
def addJob (s : St) (j : Nat) : St :=
  if (s.job j).status = .running then
    let q := insort s.nr j s.queue
    let s' := { s with queue := q }
    if q.head? = some j then setT s' else s'
  else s

/-- `JobBase.job_finish` -/
def jobFinish (s : St) (j : Nat) : R :=
  if (s.job j).status = .finished then (s, some .alreadyFinished) else
  let s := removeJob setT s j
  let b := s.job j
  let s := s.setJob j { b with linked := false, status := .finished, nextRun := none, inStore := false }
  -- `InMemoryStore._job_finished` is the first on_finished callback of a stored job
  let s := if b.inStore then { s with store := s.store.filter (fun kv => kv.1 ≠ b.key) } else s
  (runCbs true j b.onFinished s, none)

/-- `update_next` of the three job kinds -/
def updateNext (s : St) (j : Nat) : R :=
  let b := s.job j
  match b.kind with
  | .once _ => jobFinish setT s j
  | .countdown => setNextRun s j none
  | .recurring p =>
    if !b.linked then (s, some .notLinked) else
    -- the first query anchors an interval without start; the test double counts its calls
    let p := p.anchorAt s.now
    let s := s.setJob j { b with kind := .recurring p, calls := b.calls + 1 }
    if b.trigFail.contains b.calls || decide (b.trigFailFrom ≤ b.calls) then (s, some .triggerFailed) else
    match getNext s.env p s.now with
    | .error e => (s, some e)
    | .ok n => setNextRun s j (some n)

/-- `JobBase.execute` inside the `try` of `run_jobs`, including the handling of a failed reschedule -/
def execute (s : St) (j : Nat) (due : Int) : St :=
  let b := s.job j
  let t := s.now
  let s := s.emit (.exec j t due)
  let s := s.setJob j { b with execs := b.execs + 1, lastRun := some t }
  let s := if b.execFail.contains b.execs then s.emit (.exc "CallableError") else s
  match updateNext setT s j with
  | (s, none) => s
  | (s, some e) =>
    let s := s.emit (.exc e.name)
    if (s.job j).status = .running ∧ (s.job j).nextRun = some due then (setNextRun s j none).1 else s

end withTimer

mutual
/-- `AsyncScheduler._set_timer` -/
def setTimer (fuel : Nat) (s : St) : St :=
  let s := { s with timer := none }
  match s.queue with
  | [] => s
  | h :: _ =>
    if !s.enabled then s else
    match s.nr h with
    | none => s.emit (.fatal .timeNotSet)
    | some nr =>
      if nr ≤ s.now then
        match fuel with
        | 0 => s.emit (.fatal .recursion)
        | f + 1 => runLoop f s
      else { s with timer := some nr }

/-- the `while jobs` loop of `AsyncScheduler.run_jobs` followed by `if jobs: self._set_timer()` -/
def runLoop (fuel : Nat) (s : St) : St :=
  match s.queue with
  | [] => s
  | h :: rest =>
    match s.nr h with
    | none => (s.emit (.exc Err.timeNotSet.name)).emit (.fatal .timeNotSet)
    | some nr =>
      if nr > s.now then setTimer fuel s
      else
        match fuel with
        | 0 => s.emit (.fatal .recursion)
        | f + 1 =>
          let s1 := { s with queue := rest }
          let s2 := execute (setTimer f) s1 h nr
          runLoop f (addJob (setTimer f) s2 h)
end

/-- `run_jobs` as the timer callback -/
def runJobs (fuel : Nat) (s : St) : St := runLoop fuel { s with timer := none }

/-! ## Operations of the public API -/

inductive JobSpec
  | once (t : Int)
  | countdown (secs : Int)
  | at (p : Producer)
deriving Repr

inductive Op
  /-- `JobBuilder.once/countdown/at` with job handle `j`, optional store key, failure injection -/
  | create (j : Nat) (key : Option Nat) (spec : JobSpec) (execFail trigFail : List Nat) (trigFailFrom : Nat := 1000000000)
  | cancel (j : Nat)
  | pause (j : Nat)      -- DateTimeJobControl.pause
  | resume (j : Nat)     -- DateTimeJobControl.resume
  | stop (j : Nat)       -- CountdownJobControl.stop
  | reset (j : Nat)      -- CountdownJobControl.reset
  | setCountdown (j : Nat) (secs : Int)
  | cbReg (fin : Bool) (j : Nat) (cb : Nat)
  | cbRem (fin : Bool) (j : Nat) (cb : Nat)
  | cbFails (cb : Nat)   -- from now on callback `cb` raises
  | enable (e : Bool)
  | advance (d : Int)    -- the clock moves, the loop does not run (it is blocked)
  | yield                -- the loop runs all ready callbacks
  | sleep (d : Int)      -- the loop runs until the clock reached now + d
deriving Repr

/-- fuel of one public operation (Python's recursion limit plays this role) -/
def OPFUEL : Nat := 400

def St.hasKey (s : St) (k : Nat) : Bool := s.store.any (fun kv => kv.1 = k)

/-- `job_id in self._jobs` for a builder with a store (`key = none`: builder without job store) -/
def St.dupKey (s : St) : Option Nat → Bool
  | some k => s.hasKey k
  | none => false

/-- rejected by `get_pos_timedelta_secs` / `CountdownJob.set_countdown` before a job exists -/
def JobSpec.bad : JobSpec → Bool
  | .countdown secs => decide (secs ≤ 0)
  | _ => false

def JobSpec.kind : JobSpec → Kind
  | .once t => .once t
  | .countdown _ => .countdown
  | .at p => .recurring p

def JobSpec.secs : JobSpec → Int
  | .countdown secs => secs
  | _ => 0

/-- the freshly constructed job object, already marked as linked (`self._scheduler = scheduler`) -/
def newJob (key : Option Nat) (spec : JobSpec) (execFail trigFail : List Nat) (trigFailFrom : Nat := 1000000000) : Job :=
  { kind := spec.kind, secs := spec.secs, execFail := execFail, trigFail := trigFail, trigFailFrom := trigFailFrom, linked := true,
    key := key.getD 0, inStore := key.isSome }

/-- `InMemoryStore.add_job` -/
def storeAdd (s : St) (key : Option Nat) (j : Nat) : St :=
  match key with
  | some k => { s with store := (k, j) :: s.store }
  | none => s

/-- `link_scheduler` (update_first, add_job) inside the try/except of `JobBuilder._add_job` -/
def linkJob (s : St) (j : Nat) : R :=
  let setT := setTimer OPFUEL
  let first : R := match (s.job j).kind with
    | .once t => setNextRun s j (some t)
    | _ => updateNext setT s j
  match first with
  | (s', none) => (addJob setT s' j, none)
  | (s', some e) => ((jobFinish setT s' j).1, some e)

/-- `JobBuilder.once/countdown/at`: argument validation, job construction and `_add_job` -/
def createJob (s : St) (j : Nat) (key : Option Nat) (spec : JobSpec) (execFail trigFail : List Nat)
    (trigFailFrom : Nat := 1000000000) : R :=
  -- the handle `j` stands for the new Python object: it must not be in use
  if (s.job j).status ≠ .created then (s, some .valueError) else
  if spec.bad then (s, some .valueError) else
  -- job store first: a refused job is never linked
  if s.dupKey key then (s, some .keyError) else
  linkJob ((storeAdd s key j).setJob j (newJob key spec execFail trigFail trigFailFrom)) j

/-- fire the loop timer if it is due -/
def fireDue (s : St) : St :=
  match s.timer with
  | some t => if t ≤ s.now then runJobs OPFUEL s else s
  | none => s

/-- `await asyncio.sleep(d)` of the driver under the virtual clock -/
def sleepLoop : Nat → Int → St → St
  | 0, _, s => s.emit (.fatal .recursion)
  | n + 1, target, s =>
    match s.timer with
    | some t =>
      if t ≤ target then
        let s := { s with now := if t > s.now then t else s.now }
        sleepLoop n target (runJobs OPFUEL s)
      else { s with now := target }
    | none => { s with now := target }

def SLEEPFUEL : Nat := 100000

def isRecurring (b : Job) : Bool := match b.kind with | .recurring _ => true | _ => false
def isCountdown (b : Job) : Bool := match b.kind with | .countdown => true | _ => false

/-- one public operation; the error is what the API call raises -/
def step (s : St) (op : Op) : R :=
  let setT := setTimer OPFUEL
  match op with
  | .create j key spec ef tf tff => createJob s j key spec ef tf tff
  | .cancel j => jobFinish setT s j
  | .pause j =>
    if !isRecurring (s.job j) then (s, some .notImplemented) else
    if (s.job j).status = .finished then (s, some .alreadyFinished) else
    setNextRun (removeJob setT s j) j none
  | .stop j =>
    if !isCountdown (s.job j) then (s, some .notImplemented) else
    if (s.job j).status = .finished then (s, some .alreadyFinished) else
    setNextRun (removeJob setT s j) j none
  | .resume j =>
    if !isRecurring (s.job j) then (s, some .notImplemented) else
    if (s.job j).status = .finished then (s, some .alreadyFinished) else
    match updateNext setT s j with
    | (s', some e) => (s', some e)
    | (s', none) => (addJob setT (removeJob setT s' j) j, none)
  | .reset j =>
    if !isCountdown (s.job j) then (s, some .notImplemented) else
    if !(s.job j).linked then (s, some .notLinked) else
    match setNextRun s j (some (s.now + (s.job j).secs)) with
    | (s', some e) => (s', some e)
    | (s', none) => (addJob setT (removeJob setT s' j) j, none)
  | .setCountdown j secs =>
    if !isCountdown (s.job j) then (s, some .notImplemented) else
    if (s.job j).status = .finished then (s, some .alreadyFinished) else
    if secs ≤ 0 then (s, some .valueError) else
    (s.setJob j { s.job j with secs := secs }, none)
  | .cbReg fin j c =>
    let b := s.job j
    if fin then
      (if b.onFinished.contains c then s else s.setJob j { b with onFinished := b.onFinished ++ [c] }, none)
    else
      (if b.onUpdate.contains c then s else s.setJob j { b with onUpdate := b.onUpdate ++ [c] }, none)
  | .cbRem fin j c =>
    let b := s.job j
    if fin then (s.setJob j { b with onFinished := b.onFinished.filter (· ≠ c) }, none)
    else (s.setJob j { b with onUpdate := b.onUpdate.filter (· ≠ c) }, none)
  | .cbFails c => ({ s with cbFail := c :: s.cbFail }, none)
  | .enable e => if e = s.enabled then (s, none) else (setT { s with enabled := e }, none)
  | .advance d => ({ s with now := s.now + d }, none)
  | .yield => (fireDue s, none)
  | .sleep d => (sleepLoop SLEEPFUEL (s.now + d) s, none)

/-- a sleep of the driver during which every wake-up of the loop is `late` ns late (a real loop is never exactly
on time): not a new primitive but a sequence of `advance` and `yield` operations (`sleepLate_ops`) -/
def sleepLate : Nat → Int → Int → St → St
  | 0, _, _, s => s
  | n + 1, target, late, s =>
    match s.timer with
    | some t =>
      if t ≤ target then
        let w := (if t > s.now then t else s.now) + late
        let w := if w > target then target else w
        sleepLate n target late (step (step s (.advance (w - s.now))).1 .yield).1
      else (step (step s (.advance (target - s.now))).1 .yield).1
    | none => (step (step s (.advance (target - s.now))).1 .yield).1

end Ea
