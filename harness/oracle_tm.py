"""Executable statement of C11 / C12 on the trace of the real task managers: a few-line reference description of
what each manager promises (who runs, who waits, who is dropped), replayed next to the trace."""
from __future__ import annotations


def pairs(s: str):
    return [] if s == '-' else [tuple(int(x) for x in p.split(':')) for p in s.split(',')]


def tm_oracle(kind: str, args: list[str], lines: list[str], blocks: list[list[str]]) -> list[tuple[str, str]]:
    v: list[tuple[str, str]] = []
    seq = kind in ('sequential', 'limseq', 'dedup')
    pid = 'C11' if seq else 'C12'
    limit = int(args[0]) if args else None
    policy = args[1] if args else None
    running: list[int] = []          # entered and not finished, in start order
    cancel_req: set[int] = set()
    queue: list[tuple[int, int]] = []    # sequential: waiting (coroutine, key)
    tracked: list[int] = []          # parallel: coroutines whose task is tracked, oldest first
    entered: set[int] = set()
    closed: set[int] = set()
    submitted: list[int] = []
    expect_closed: set[int] = set()
    expect_cancel: set[int] = set()

    def spec_submit(c: int, key: int, occupied: bool) -> None:
        """the promise of create_task; `occupied`: a coroutine of this manager is running or its completion has not
        been processed yet"""
        submitted.append(c)
        if seq:
            if kind == 'limseq' and len(queue) >= limit:
                if policy == 'skip':
                    expect_closed.add(c)
                    return
                victim = queue.pop(0) if policy == 'skip_first' else queue.pop()
                expect_closed.add(victim[0])
            if kind == 'dedup':
                for i, (c0, k0) in enumerate(queue):
                    if k0 == key:
                        expect_closed.add(c0)
                        queue.pop(i)
                        break
            queue.append((c, key))
        else:
            if kind == 'limpar' and len(tracked) >= limit:
                if policy == 'skip':
                    expect_closed.add(c)
                    return
                victim = tracked.pop(0) if policy == 'cancel_first' else tracked.pop()
                expect_cancel.add(victim)
            tracked.append(c)

    for gi, (line, blk) in enumerate(zip(lines, blocks)):
        if blk == ['notask']:
            continue
        tok = line.split()
        op = tok[1]
        ended_now: list[int] = []
        if op == 'submit':
            spec_submit(int(tok[2]), int(tok[3]), bool(running))
        elif op == 'complete':
            c = int(tok[2])
            for c2, k2 in pairs(tok[4]):
                spec_submit(c2, k2, True)
            for c2, k2 in pairs(tok[5]):
                spec_submit(c2, k2, True)
            if not seq and c in tracked:
                tracked.remove(c)
        elif op == 'cancel':
            c = int(tok[2])
            cancel_req.add(c)
            if not seq and c in tracked:
                tracked.remove(c)
        # ---- events of the real managers
        for ln in blk:
            t = ln.split()
            if t[0] == 'enter':
                c = int(t[1])
                if c in entered:
                    v.append((pid, f'op {gi}: coroutine {c} was started twice'))
                if c in closed:
                    v.append((pid, f'op {gi}: coroutine {c} was closed and started'))
                entered.add(c)
                running.append(c)
                if seq:
                    if len(running) > 1:
                        v.append(('C11', f'op {gi}: two coroutines run at once: {running}'))
                    if not queue or queue[0][0] != c:
                        v.append(('C11', f'op {gi}: coroutine {c} started but the next in line is '
                                         f'{queue[0][0] if queue else None} (waiting: {[x for x, _ in queue]})'))
                    queue[:] = [x for x in queue if x[0] != c]
                else:
                    active = [x for x in running if x not in cancel_req and x not in expect_cancel]
                    if kind == 'limpar' and len(active) > limit:
                        v.append(('C12', f'op {gi}: {len(active)} active coroutines exceed the limit {limit}: {active}'))
                    # the policy cancels its victim before the new coroutine starts: the CancelledError reaches the
                    # victim first, so more than `limit` bodies are never live
                    late = [x for x in running if x != c and x in expect_cancel]
                    if kind == 'limpar' and late and len(running) > limit:
                        v.append(('C12', f'op {gi}: coroutine {c} started while the victim(s) {late} of the policy were still '
                                         f'running ({len(running)} live bodies, limit {limit})'))
            elif t[0] in ('exit', 'failed', 'cancelled'):
                c = int(t[1])
                if c in running:
                    running.remove(c)
                ended_now.append(c)
                if t[0] == 'cancelled' and c not in cancel_req and c not in expect_cancel:
                    v.append((pid, f'op {gi}: coroutine {c} got CancelledError although nobody cancelled it'))
                if t[0] == 'cancelled':
                    expect_cancel.discard(c)
                    if not seq and c in tracked:
                        tracked.remove(c)
            elif t[0] == 'closed':
                c = int(t[1])
                closed.add(c)
                if c in entered:
                    v.append((pid, f'op {gi}: coroutine {c} was started and closed'))
                if c in expect_closed:
                    expect_closed.discard(c)
                elif c in cancel_req or c in expect_cancel:
                    expect_cancel.discard(c)      # cancelled before its first step
                    if not seq and c in tracked:
                        tracked.remove(c)
                else:
                    v.append((pid, f'op {gi}: coroutine {c} was dropped but the policy names another victim '
                                   f'(expected {sorted(expect_closed)})'))
                queue[:] = [x for x in queue if x[0] != c]
            elif t[0] == 'lost':
                v.append(('C12', f'op {gi}: the task of coroutine {t[1]} was garbage collected while pending'))
            elif t[0] == 'state':
                st = dict(x.split('=') for x in t[1:])
                if expect_closed:
                    v.append((pid, f'op {gi}: the policy names {sorted(expect_closed)} as victim(s) but they were not closed'))
                    expect_closed.clear()
                if seq:
                    if int(st['queue']) > 0 and not running:
                        v.append(('C11', f'op {gi}: {st["queue"]} coroutine(s) wait although nothing is running'))
                    if int(st['queue']) != len(queue):
                        v.append(('C11', f'op {gi}: {st["queue"]} coroutines wait, expected {[x for x, _ in queue]}'))
                    if kind == 'dedup' and len({k for _, k in queue}) != len(queue):
                        v.append(('C11', f'op {gi}: two waiting coroutines share a key'))
                    lost = [c for c in submitted if c not in entered and c not in closed and c not in [x for x, _ in queue]]
                    if lost:
                        v.append(('C11', f'op {gi}: coroutine(s) {lost} neither started nor closed nor waiting'))
                else:
                    if kind == 'limpar' and int(st['tracked']) > limit:
                        v.append(('C12', f'op {gi}: {st["tracked"]} tracked tasks exceed the limit {limit}'))
                    alive = [c for c in running]
                    if int(st['tracked']) != len([c for c in tracked if c in running or c not in entered]):
                        pass
                    if kind == 'parallel':
                        missing = [c for c in submitted if c not in entered and c not in closed]
                        if missing:
                            v.append(('C12', f'op {gi}: coroutine(s) {missing} were not started'))
                        if int(st['tracked']) != len(running):
                            v.append(('C12', f'op {gi}: {st["tracked"]} tasks tracked but {len(running)} are pending'))
                    else:
                        # a finished task frees its slot; pending (not cancel-requested) tasks stay tracked
                        want = len([c for c in running if c not in cancel_req and c not in expect_cancel])
                        if int(st['tracked']) != want:
                            v.append(('C12', f'op {gi}: {st["tracked"]} tasks tracked, expected {want} '
                                             f'(running {running}, cancel requested {sorted(cancel_req)})'))
    return v
