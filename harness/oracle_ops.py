"""C13 / C14 oracles: an operation (offset / earliest / latest / jitter) judged against the occurrence list of the
UNDERLYING trigger, which is obtained by querying a separately built object of the underlying trigger alone."""
from __future__ import annotations

import datetime as dtm

from build import prod_sx
from common import NS_DAY
from oracle_prod import day_candidates, local_of

JITTER_EPS = 100_000


def anchor_spec(p, dt: int):
    """an interval without start inside an operation was anchored by the operation's first query at `dt`"""
    k = p[0]
    if k == 'interval':
        return ('interval', dt + 1000 if p[1] is None else p[1], p[2], p[3])
    if k == 'group':
        return ('group', p[1], [anchor_spec(x, dt) for x in p[2]])
    if k == 'offset':
        return ('offset', p[1], p[2], anchor_spec(p[3], dt))
    if k in ('earliest', 'latest'):
        return (k, p[1], p[2], p[3], p[4], anchor_spec(p[5], dt))
    if k == 'jitter':
        return ('jitter', p[1], p[2], p[3], anchor_spec(p[4], dt))
    return p


class BaseOcc:
    """occurrences of a base trigger in a window, through the real code of the base trigger alone"""

    def __init__(self, tz: str, seed: int, base) -> None:
        from prod_impl import ProdImpl
        self.impl = ProdImpl(tz, seed)
        assert self.impl.define(1, base) == 'ok'

    def window(self, lo: int, hi: int, limit: int = 4000) -> list[int] | None:
        out = []
        cur = lo
        for _ in range(limit):
            r = self.impl.next(1, cur)
            if not r.startswith('ok'):
                return out if out else None
            v = int(r.split()[1])
            if v > hi:
                return out
            out.append(v)
            cur = v
        return None

    def close(self) -> None:
        self.impl.close()


def _bound(tz: str, n: int, dt: int, tod: int, sk: str, rp: str):
    date = local_of(tz, n)[0].date()
    cands = day_candidates(tz, date, tod, sk, rp)
    if not cands:
        return None
    if len(cands) == 1:
        return cands[0]
    return cands[0] if cands[0] > dt else cands[1]


def check_op(case, pid: int, dt: int, res: str) -> str | None:
    spec = case.specs[pid]
    k = spec[0]
    if k not in ('offset', 'earliest', 'latest', 'jitter') or not res.startswith('ok'):
        return None
    r = int(res.split()[1])
    base = spec[3] if k == 'offset' else spec[5] if k in ('earliest', 'latest') else spec[4]
    if spec[2 if k == 'offset' else 4 if k in ('earliest', 'latest') else 3] is not None:
        return None                      # an operation-level filter: outside this oracle
    from build import prod_kinds
    if not prod_kinds(base) <= {'time', 'interval', 'group'}:
        return None                      # the occurrence list of a nested operation is not well defined by a chain
    span = abs(spec[1]) if k == 'offset' else max(abs(spec[1]), abs(spec[2])) if k == 'jitter' else NS_DAY
    base = anchor_spec(base, case.anchor.get(pid, dt))
    lo, hi = min(dt, r) - span - 2 * NS_DAY, max(dt, r) + span + 2 * NS_DAY
    cache = case.__dict__.setdefault('_occ_cache', {})
    ent = cache.get(pid)
    if ent is None or not (ent[0] <= lo and hi <= ent[1]):
        # one enumeration for all queries of this trigger in the case
        qs = [q for p2, q in case.queries if p2 == pid]
        rs = [int(x.split()[1]) for (p2, _), x in zip(case.queries, case.impl) if p2 == pid and x.startswith('ok')]
        lo2 = min([lo, *qs]) - span - 2 * NS_DAY
        hi2 = max([hi, *qs, *rs]) + span + 2 * NS_DAY
        if hi2 - lo2 > 400 * NS_DAY:
            lo2, hi2 = lo, hi
        bo = BaseOcc(case.tz, case.seed, base)
        try:
            ent = (lo2, hi2, bo.window(lo2, hi2, limit=60000))
        finally:
            bo.close()
        cache[pid] = ent
    occ = ent[2]
    if not occ:
        return None
    import bisect
    occ = occ[bisect.bisect_left(occ, lo):bisect.bisect_right(occ, hi)]
    if not occ:
        return None
    where = f'[zone {case.tz}, {prod_sx(spec)[:170]}, reference {dt}]'
    if k == 'offset':
        off = spec[1]
        # exactness: the result is an occurrence of the underlying trigger shifted by exactly `off`; and it is the
        # shifted value of the first underlying occurrence after dt whose shifted value is after dt
        if r - off not in set(occ):
            near = 'F15:1ns ' if (r - off - 1 in set(occ) or r - off + 1 in set(occ)) else ''
            return f'{near}offset result {r} is not an occurrence of the underlying trigger shifted by {off} {where}'
        cand = [n + off for n in occ if n > dt and n + off > dt]
        if cand and cand[0] != r:
            return f'offset returned {r}, expected {cand[0]} (= first occurrence after the reference + {off}) {where}'
        return None
    if k in ('earliest', 'latest'):
        tod, sk, rp = spec[1], spec[2], spec[3]
        # the operation returns apply(n) for the first occurrence n after dt whose value is after dt
        for n in occ:
            if n <= dt:
                continue
            b = _bound(case.tz, n, dt, tod, sk, rp)
            v = n if b is None else (max(n, b) if k == 'earliest' else min(n, b))
            if v <= dt:
                continue
            if v != r:
                return (f'{k} returned {r} but the occurrence {n} of the underlying trigger with bound {b} gives {v} '
                        f'{where}')
            # never to another day when the bound lies on the day of the occurrence
            if b is not None and local_of(case.tz, b)[0].date() == local_of(case.tz, n)[0].date():
                if local_of(case.tz, r)[0].date() != local_of(case.tz, n)[0].date():
                    return f'{k} moved the occurrence {n} to another local day ({r}) {where}'
            return None
        return None
    low, high = spec[1], spec[2]
    for n in occ:
        if n <= dt:
            continue
        if low >= 0 or dt - n < low:
            if n + low <= r <= n + high:
                return None
            return f'jitter result {r} is outside [{n + low}, {n + high}] of the occurrence {n} {where}'
        if dt < r <= dt + JITTER_EPS + (high - low):
            return None
        return f'jitter result {r} is outside the shifted window ({dt}, {dt + JITTER_EPS + high - low}] {where}'
    return None


def attribute_chain(case, pid: int, firings: list[int]) -> list[tuple[int, int]] | None:
    """C14: attribute every firing to the nearest occurrence of the underlying trigger"""
    spec = case.specs[pid]
    k = spec[0]
    base = spec[3] if k == 'offset' else spec[4]
    span = abs(spec[1]) if k == 'offset' else max(abs(spec[1]), abs(spec[2]))
    base = anchor_spec(base, case.anchor.get(pid, firings[0]))
    bo = BaseOcc(case.tz, case.seed, base)
    try:
        occ = bo.window(min(firings) - span - 2 * NS_DAY, max(firings) + span + 2 * NS_DAY, limit=20000)
    finally:
        bo.close()
    if not occ:
        return None
    if k == 'jitter':
        # the windows of two occurrences that are closer than the window is wide overlap (a time of day shown twice on
        # the day the clock goes back, dense groups): a firing cannot be attributed, the property is about shifts that
        # are narrower than the distance of the occurrences
        so = sorted(occ)
        if any(b - a <= spec[2] - spec[1] for a, b in zip(so, so[1:])):
            return None
    out = []
    for r in firings:
        target = r - spec[1] if k == 'offset' else r - (spec[1] + spec[2]) // 2
        n = min(occ, key=lambda x: abs(x - target))
        out.append((r, n))
    return out
