"""Seeded generator of scheduler histories (op lines) + the python-side specs of `at` jobs."""
from __future__ import annotations

import random

from build import prod_sx
from common import NS_MS, NS_US

U = 250 * NS_MS     # time grid of the generated histories


def gen_filter(rnd: random.Random, depth: int = 0, empty_any: bool = False):
    r = rnd.random()
    if r < 0.25:
        return ('dow', sorted(rnd.sample(range(1, 8), rnd.randint(1, 6))))
    if r < 0.35:
        return ('dom', sorted(rnd.sample(range(1, 32), rnd.randint(1, 25))))
    if r < 0.45:
        return ('moy', sorted(rnd.sample(range(1, 13), rnd.randint(1, 10))))
    if r < 0.7 or depth >= 2:
        lo = rnd.choice([None, rnd.randrange(0, 86400) * 1_000_000_000])
        hi = rnd.choice([None, rnd.randrange(1, 86400) * 1_000_000_000])
        if lo is None and hi is None:
            lo = 0
        if lo is not None and hi is not None and lo >= hi and rnd.random() < 0.9:
            lo, hi = hi, lo + 1_000_000_000      # an empty window only rarely
        return ('time', lo, hi)
    if r < 0.8:
        return ('not', gen_filter(rnd, depth + 1, empty_any))
    k = 'any' if r < 0.9 else 'all'
    if rnd.random() < 0.12 and (k == 'all' or empty_any):
        # a group without members is legal: all() accepts every instant, any() none (the latter makes a trigger
        # unsatisfiable - seconds per query on the real code - so it is generated for the filter checks only)
        return (k, [])
    if rnd.random() < 0.3:
        # a group whose only member is a group of the other kind
        other = 'all' if k == 'any' else 'any'
        return (k, [(other, [gen_filter(rnd, depth + 2, empty_any) for _ in range(rnd.randint(2, 3))])])
    return (k, [gen_filter(rnd, depth + 1, empty_any) for _ in range(rnd.randint(1, 3))])


def gen_sched_producer(rnd: random.Random, now: int, depth: int = 0):
    """producers for scheduler histories: short periods so that they fire within the simulated seconds"""
    r = rnd.random()
    if r < 0.55 or depth >= 2:
        start = rnd.choice([None, None, now + rnd.randint(-8, 8) * U, now + rnd.randint(-3, 3) * U + 17 * NS_US])
        return ('interval', start, rnd.choice([1, 2, 2, 3, 4, 6]) * U, None)
    if r < 0.7:
        return ('group', None, [gen_sched_producer(rnd, now, depth + 1) for _ in range(rnd.randint(1, 3))])
    if r < 0.85:
        return ('offset', rnd.choice([-3, -2, -1, 1, 2, 5]) * U // 2, None, gen_sched_producer(rnd, now, depth + 1))
    lo = rnd.choice([0, 0, U // 4])
    return ('jitter', lo, lo + rnd.choice([1, 2]) * U // 2, None, gen_sched_producer(rnd, now, depth + 1))


class SchedCase:
    def __init__(self, seed: int, executor: str, epoch_ns: int, lines: list[str], specs: dict, meta: dict,
                 tz: str = 'UTC') -> None:
        self.seed, self.executor, self.epoch_ns = seed, executor, epoch_ns
        self.lines, self.specs, self.meta, self.tz = lines, specs, meta, tz

    def header(self) -> list[str]:
        from tz import zone_line
        return [zone_line(self.tz), f'seed {self.seed}', f'sched-reset {self.epoch_ns}']


SCHED_ZONES = ['Europe/Berlin', 'America/New_York', 'Australia/Lord_Howe', 'America/Havana', 'Pacific/Chatham']


def pick_epoch(rnd: random.Random) -> tuple[str, int]:
    """70 %: UTC at 2024-01-01; otherwise a zone with DST, a few grid steps before one of its clock changes"""
    if rnd.random() < 0.7:
        return 'UTC', 1_704_067_200_000_000_000 + rnd.choice([0, 0, 12345 * NS_US])
    from tz import transitions
    z = rnd.choice(SCHED_ZONES)
    tr = transitions(z, 1_577_836_800, 1_893_456_000)      # 2020 .. 2030
    t, _, _ = rnd.choice(tr)
    return z, t * 1_000_000_000 - rnd.choice([0, 1, 2, 4, 8, 12]) * U


PROFILES = {
    # cumulative thresholds: create, time, enable, callbacks, (rest: control operations)
    None: (0.22, 0.50, 0.56, 0.66),
    'C02': (0.20, 0.44, 0.56, 0.60),
    'C07': (0.20, 0.40, 0.44, 0.68),
    'C08': (0.14, 0.50, 0.53, 0.55),
    'C09': (0.30, 0.62, 0.70, 0.72),
    'C10': (0.24, 0.52, 0.56, 0.70),
}


def gen_retime_case(seed: int, rnd: random.Random) -> SchedCase:
    """directed scenario: several queued jobs, then re-timings (set_countdown + reset, pause/resume, cancel) that
    move a job to another queue position, then everything becomes due (in one wake-up or one after another)"""
    tzname, epoch = pick_epoch(rnd)
    executor = rnd.choice(['sync', 'async'])
    lines: list[str] = []
    specs: dict[int, tuple] = {}
    jobs: list[tuple[int, str]] = []

    def emit(x: str) -> None:
        lines.append('op ' + x)
    n = rnd.randint(3, 7)
    for h in range(1, n + 1):
        kind = rnd.choice(['once', 'countdown', 'countdown', 'at'])
        if kind == 'once':
            emit(f'create {h} - (once {epoch + rnd.randint(1, 24) * U}) - -')
        elif kind == 'countdown':
            emit(f'create {h} - (countdown {rnd.randint(2, 24) * U}) - -')
        else:
            p = ('interval', rnd.choice([None, epoch + rnd.randint(1, 24) * U]), rnd.randint(10, 30) * U, None)
            specs[h] = p
            emit(f'create {h} - (at {prod_sx(p)}) - -')
        emit('yield')
        emit(f'cbreg u {h} 0')
        emit(f'cbreg f {h} 0')
        if kind == 'countdown':
            emit(f'reset {h}')
            emit('yield')
        jobs.append((h, kind))
    for _ in range(rnd.randint(1, 5)):
        h, kind = rnd.choice(jobs)
        r = rnd.random()
        if kind == 'countdown' and r < 0.75:
            emit(f'setcd {h} {rnd.randint(1, 24) * U}')
            emit(f'reset {h}')
        elif kind == 'at' and r < 0.75:
            if rnd.random() < 0.5:
                emit(f'pause {h}')
                emit('yield')
            emit(f'resume {h}')
        elif r < 0.9:
            emit(f'cancel {h}')
        else:
            emit(f'enable {rnd.choice([0, 1])}')
        emit('yield')
        if rnd.random() < 0.4:
            emit(f'sleep {rnd.randint(0, 3) * U // 2}')
    if rnd.random() < 0.5:
        emit(f'advance {rnd.randint(8, 30) * U}')
        emit('enable 1')
        emit('yield')
    else:
        emit('enable 1')
        emit(f'sleep {rnd.randint(8, 30) * U}')
    meta = {'executor': executor, 'ops': len(lines), 'jobs': n, 'tz': tzname, 'scenario': 'retime'}
    return SchedCase(seed, executor, epoch, lines, specs, meta, tzname)


def gen_recurring_case(seed: int, rnd: random.Random) -> SchedCase:
    """C03: undisturbed recurring jobs (time of day with any DST policy, interval, groups, filters) followed over days
    to weeks across a clock change / month end / year end of the system zone; the loop keeps up (sleep only)"""
    from gen_prod import ZoneCtx, gen_producer
    from tz import SHAPE_ZONES
    from common import NS_DAY, NS_HOUR, NS_MIN, NS_S
    zc = ZoneCtx(rnd.choice(SHAPE_ZONES))
    r = rnd.random()
    chosen = None
    # the exported zone tables end in 2038: histories start early enough for year-long searches to stay inside
    trs = [x for x in zc.trans if x[0] < 2_050_000_000]
    if trs and r < 0.7:
        chosen = rnd.choice(trs)
        t = chosen[0]
        epoch = (t - rnd.randint(1, 4) * 86400 + rnd.randint(0, 86399)) * NS_S
    elif r < 0.85:
        y = rnd.randint(2001, 2034)
        import datetime as dtm
        epoch = int((dtm.datetime(y, 12, 29, rnd.randint(0, 23)) - dtm.datetime(1970, 1, 1)).total_seconds()) * NS_S
    else:
        epoch = rnd.randrange(946_684_800, 2_050_000_000) * NS_S
    epoch += rnd.choice([0, 0, 123_456_000])
    executor = rnd.choice(['sync', 'async'])
    lines: list[str] = []
    specs: dict[int, tuple] = {}

    def emit(x: str) -> None:
        lines.append('op ' + x)
    def snap(p):
        """the virtual event loop works on the microsecond grid (float timer deadlines): no sub-microsecond parts"""
        k = p[0]
        if k == 'time':
            return ('time', p[1] // 1000 * 1000, p[2], p[3], p[4])
        if k == 'interval':
            return ('interval', None if p[1] is None else p[1] // 1000 * 1000, p[2], p[3])
        return ('group', p[1], [snap(x) for x in p[2]])
    epoch = epoch // 1000 * 1000

    def searchable(p) -> bool:
        """an interval with a filter is searched step by step in an unbounded loop (known finding F7a): the histories
        use only intervals whose filter admits one of the next 3000 grid points (judged by the independent filter
        denotation, not by the code under test)"""
        from oracle_prod import filt_allow
        if p[0] == 'group':
            return all(searchable(x) for x in p[2])
        if p[0] != 'interval' or p[3] is None:
            return True
        start = epoch + 1000 if p[1] is None else p[1]
        k0 = max(0, (epoch - start) // p[2])
        return any(filt_allow(zc.name, p[3], start + (k0 + k) * p[2]) for k in range(3000))

    def has_occurrence(p) -> bool:
        """a trigger none of whose occurrences is admitted (a group filter that excludes every member's time of day, a
        time of day outside its own time window) makes the code search up to its bound of 99 999 candidates per member
        before it raises InfiniteLoopDetectedError — tens of seconds, which is C16's subject, not C03's. The histories
        of C03 use triggers with at least one admissible occurrence in the next 120 days (independent enumeration)."""
        from oracle_prod import occurrences
        if p[0] == 'group' and not all(has_occurrence(x) for x in p[2]):
            return False        # a member without occurrences makes the whole group raise, after its full search
        try:
            occ = occurrences(zc.name, p, epoch, epoch + 120 * NS_DAY, epoch)
        except Exception:  # noqa: BLE001
            return True
        return occ is None or len(occ) > 0
    # directed variants (two in five cases): a time of day inside the interval a clock change repeats / skips, with the
    # job created (or first executed, a little late) at a moment at which the run of that day is still ahead
    variant = {1: 'near_start', 2: 'twice_late', 3: 'later_backward', 4: 'later_forward'}.get(seed % 5)
    force_late = None
    special = None
    if variant and trs:
        back = [x for x in trs if x[2] < x[1]]
        fwd = [x for x in trs if x[2] > x[1]]
        if variant == 'twice_late' and back:
            t, a, b = chosen = rnd.choice(back)
            w = ((t + b) + (a - b) // 2) % 86400           # wall clock reading in the middle of the repeated interval
            special = ('time', w * NS_S, rnd.choice(['skip', 'earlier', 'later', 'after']), 'twice', None)
            epoch = (t - rnd.randint(1, 3) * 86400 + rnd.randint(0, 3600)) * NS_S
            force_late = rnd.choice([1_000, 500_000, 750_000])
        elif variant == 'later_backward' and back:
            t, a, b = chosen = rnd.choice(back)
            w = ((t + b) + (a - b) // 2) % 86400
            special = ('time', w * NS_S, rnd.choice(['skip', 'earlier', 'later', 'after']), rnd.choice(['later', 'twice']), None)
            # created during the first pass, after the reading was shown for the first time
            epoch = (t - (a - b) // 2 + rnd.randint(60, max(61, (a - b) // 2 - 60))) * NS_S
        elif variant == 'later_forward' and fwd:
            t, a, b = chosen = rnd.choice(fwd)
            w = ((t + a) + (b - a) // 2) % 86400           # a reading inside the skipped interval
            special = ('time', w * NS_S, rnd.choice(['later', 'after']), rnd.choice(['skip', 'earlier', 'later', 'twice']), None)
            # created right after the clock jumped, before the moved run of that day
            epoch = (t + rnd.randint(1, max(2, (b - a) // 2 - 60))) * NS_S
    if variant == 'near_start':
        # an interval whose start lies less than one interval after the creation of the job and is NOT admitted by the
        # filter of the trigger: the first run is the first admitted grid point, not the start
        from oracle_prod import filt_allow
        step = rnd.choice([NS_HOUR, 90 * NS_MIN, 6 * NS_HOUR, NS_DAY])
        start = (epoch + rnd.randint(1, 9) * step // 10) // 1000 * 1000
        cands = [('dow', sorted(rnd.sample(range(1, 8), rnd.randint(1, 5)))) for _ in range(6)] + \
                [('time', rnd.randrange(0, 86400) * NS_S, None) for _ in range(3)] + \
                [('time', None, rnd.randrange(1, 86400) * NS_S) for _ in range(3)] + \
                [('not', ('dow', sorted(rnd.sample(range(1, 8), rnd.randint(1, 5))))) for _ in range(3)]
        rnd.shuffle(cands)
        for f in cands:
            p0 = ('interval', start, step, f)
            if not filt_allow(zc.name, f, start) and searchable(p0):
                special = p0
                break
    n = rnd.randint(1, 3)
    for h in range(1, n + 1):
        p = snap(gen_producer(rnd, zc, epoch, rnd.randint(1, 2), filters=0.3, ops=('group',)))
        for _ in range(20):
            if searchable(p) and has_occurrence(p):
                break
            p = snap(gen_producer(rnd, zc, epoch, rnd.randint(1, 2), filters=0.3, ops=('group',)))
        else:
            p = ('interval', None, 3600 * NS_S, None)
        if h == 1 and special is not None:
            p = special
        elif h == 1 and trs and r < 0.7 and rnd.random() < 0.7:
            # a time of day inside / at the edge of the interval the coming clock change skips or repeats
            from gen_prod import REPEATED, SKIPPED
            p = ('time', rnd.choice(zc.interesting_tods(rnd, chosen)) // 1000 * 1000, rnd.choice(SKIPPED), rnd.choice(REPEATED), None)
        specs[h] = p
        emit(f'create {h} - (at {prod_sx(p)}) - -')
        emit('yield')
        emit(f'cbreg u {h} 0')
        emit(f'cbreg f {h} 0')
    total = rnd.choice([3, 5, 8, 14]) * NS_DAY
    done = 0
    paused: set[int] = set()
    # in half of the cases every wake-up of the loop is a little late, as on a real loop
    late = [1_000, 500_000, 750_000][(seed // 8) % 3] if (seed // 4) % 2 == 1 else 0
    if force_late is not None:
        late = force_late
    while done < total:
        d = rnd.choice([6 * NS_HOUR, 12 * NS_HOUR, NS_DAY, 36 * NS_HOUR, 90 * NS_MIN])
        emit(f'sleepl {d} {late}' if late else f'sleep {d}')
        done += d
        if rnd.random() < 0.12:
            h = rnd.randint(1, n)
            if h in paused:
                emit(f'resume {h}')
                paused.discard(h)
            elif rnd.random() < 0.5:
                emit(f'pause {h}')
                paused.add(h)
            else:
                emit(f'resume {h}')         # resuming a job that is not paused is legal and must not change its schedule
            emit('yield')
    meta = {'executor': executor, 'ops': len(lines), 'jobs': n, 'tz': zc.name, 'scenario': 'recurring'}
    return SchedCase(seed, executor, epoch, lines, specs, meta, zc.name)


def gen_reentrant_case(seed: int, rnd: random.Random) -> SchedCase:
    """directed scenario (model: `Reentrant.lean`, not the operation model of `Sched.lean`): several jobs are due in one
    wake-up and the synchronous callable of one of them creates a further job that is due at once — later than some
    of the jobs that are still waiting in that wake-up, possibly earlier than others"""
    tzname, epoch = pick_epoch(rnd)
    lines: list[str] = []

    def emit(x: str) -> None:
        lines.append('op ' + x)
    n = rnd.randint(2, 6)
    far = [rnd.randint(1, 12) for _ in range(n)]
    wake = max(far) + rnd.randint(2, 8)            # the loop was blocked until then (in units of U)
    now = wake * U
    dues = []
    for k in far:
        # some of the waiting jobs are due just before the wake-up: a job created "now" may sort in front of them
        dues.append(now - rnd.choice([0, 10, 30, 60, 90]) * 1_000_000 if rnd.random() < 0.35 else k * U)
    order = list(range(n))
    rnd.shuffle(order)
    due_of: dict[int, int] = {}
    created: list[int] = []
    for i in order:
        h = i + 1
        due_of[h] = dues[i]
        created.append(h)
        emit(f'create {h} - (once {epoch + dues[i]}) - -')
        emit('yield')
    spawner = rnd.randint(1, n)
    hx = n + 1
    # due at once (a one-shot instant may lie up to 100 ms in the past)
    tx = now - rnd.choice([0, 1_000, 20_000_000, 50_000_000, 95_000_000])
    due_of[hx] = tx
    emit(f'spawn {spawner} 0 {hx} {epoch + tx}')
    if rnd.random() < 0.5:
        emit(f'advance {now}')
        emit('yield')
    else:
        emit('enable 0')
        emit(f'sleep {now}')
        emit('enable 1')
        emit('yield')
    emit(f'sleep {2 * U}')
    meta = {'executor': 'sync', 'ops': len(lines), 'jobs': n + 1, 'tz': tzname, 'scenario': 'reentrant',
            'dues': {str(k): v for k, v in due_of.items()}, 'spawned': {str(hx): spawner}, 'now': now,
            'created': created}
    return SchedCase(seed, 'sync', epoch, lines, {}, meta, tzname)


def gen_tight_case(seed: int, rnd: random.Random) -> SchedCase:
    """directed scenario: an operation that makes an overdue job the head of the queue (creation of a job that is due
    at once, re-enabling, removing the head in front of an overdue job while the loop is blocked) is followed directly,
    without the loop running in between, by switching the scheduler off. Synchronous executor: a callable runs inside
    the call that starts it."""
    tzname, epoch = pick_epoch(rnd)
    lines: list[str] = []
    specs: dict[int, tuple] = {}

    def emit(x: str, tight: bool = False) -> None:
        lines.append(('op! ' if tight else 'op ') + x)
    h = 0
    for _ in range(rnd.randint(1, 3)):
        pat = rnd.choice(['create_due', 'reenable', 'remove_head'])
        if pat == 'create_due':
            h += 1
            emit(f'create {h} - (once {epoch}) - -')            # due at once (inside the tolerance)
            emit('enable 0', tight=True)
        elif pat == 'reenable':
            emit('enable 0')
            emit('yield')
            for _ in range(rnd.randint(1, 2)):
                h += 1
                emit(f'create {h} - (once {epoch + rnd.randint(1, 6) * U}) - -')
                emit('yield')
            emit(f'advance {rnd.randint(8, 12) * U}')
            emit('enable 1')
            emit('enable 0', tight=True)
        else:
            a, b = h + 1, h + 2
            h += 2
            emit(f'create {a} - (once {epoch + 2 * U}) - -')
            emit('yield')
            emit(f'create {b} - (once {epoch + 4 * U}) - -')
            emit('yield')
            emit(f'advance {rnd.randint(8, 12) * U}')          # the loop is blocked: both are overdue now
            emit(f'cancel {a}')
            emit('enable 0', tight=True)
        emit('yield')
        emit(f'sleep {rnd.randint(1, 4) * U}')
        emit('enable 1')
        emit('yield')
        epoch_shift = 0
    meta = {'executor': 'sync', 'ops': len(lines), 'jobs': h, 'tz': tzname, 'scenario': 'tight'}
    return SchedCase(seed, 'sync', epoch, lines, specs, meta, tzname)


def gen_sched_case(seed: int, max_ops: int = 40, max_jobs: int = 6, *, failures: bool = True,
                   kinds=('once', 'countdown', 'at'), focus: str | None = None) -> SchedCase:
    rnd = random.Random(seed)
    if focus == 'C03':
        return gen_recurring_case(seed, rnd)
    if focus in (None, 'C02', 'C10') and seed % 20 == 7:
        return gen_tight_case(seed, rnd)
    if focus in (None, 'C08', 'C09', 'C02') and rnd.random() < 0.3:
        return gen_retime_case(seed, rnd)
    p_create, p_time, p_enable, p_cb = PROFILES.get(focus, PROFILES[None])
    fail_p = 0.45 if focus == 'C10' else 0.2
    tzname, epoch = pick_epoch(rnd)
    now = epoch
    executor = rnd.choice(['sync', 'async'])
    lines: list[str] = []
    specs: dict[int, tuple] = {}
    alive: list[tuple[int, str]] = []     # (handle, kind) of successfully created jobs
    used_keys: set[int] = set()           # keys that may currently be in the store (over-approximation not needed)
    nh = 0
    ncb = 0
    regs: list[tuple[str, int, int]] = []
    kinds_count = {'create': 0, 'control': 0, 'time': 0, 'cb': 0, 'enable': 0, 'expect_fail': 0}

    def emit(s: str) -> None:
        lines.append('op ' + s)

    nops = rnd.randint(5, max_ops)
    for _ in range(nops):
        r = rnd.random()
        if r < p_create or not alive:
            if nh >= max_jobs and alive:
                continue
            nh += 1
            h = nh
            kind = rnd.choice(kinds)
            # key: none (no store) / small explicit id (collisions wanted) / default id
            kr = rnd.random()
            if kr < 0.3:
                key = None
            elif kr < 0.8:
                key = rnd.randint(0, 4)      # 0: a falsy but valid id
            else:
                key = 1000 + h
            expect_fail = key is not None and key in used_keys
            ef = sorted(rnd.sample(range(0, 6), rnd.randint(1, 2))) if failures and rnd.random() < fail_p else []
            tf: list[int] = []
            if kind == 'once':
                k = rnd.choice([-4, -1, 0, 0, 1, 1, 2, 3, 5, 8, 'tol', 'tol-', 'half'])
                if k == 'tol':
                    t = now - 100 * NS_MS
                elif k == 'tol-':
                    t = now - 100 * NS_MS - NS_US
                    expect_fail = True
                elif k == 'half':
                    t = now - 50 * NS_MS
                else:
                    t = now + k * U
                    expect_fail = expect_fail or k < 0
                spec = f'(once {t})'
            elif kind == 'countdown':
                secs = rnd.choice([1, 1, 2, 3, 5, 8, 12]) * U if rnd.random() < 0.9 else rnd.choice([0, -U])
                expect_fail = expect_fail or secs <= 0
                spec = f'(countdown {secs})'
            else:
                p = gen_sched_producer(rnd, now)
                specs[h] = p
                spec = f'(at {prod_sx(p)})'
                if failures and rnd.random() < fail_p:
                    tf = sorted(rnd.sample(range(0, 6), rnd.randint(1, 3)))
                    expect_fail = expect_fail or 0 in tf
                    if rnd.random() < 0.3:
                        tf = [f'p{rnd.randint(1, 4)}']       # a permanent failure from the k-th query on
            csv = lambda xs: ','.join(map(str, xs)) if xs else '-'   # noqa: E731
            emit(f'create {h} {"-" if key is None else key} {spec} {csv(ef)} {csv(tf)}')
            emit('yield')
            kinds_count['create'] += 1
            if expect_fail:
                kinds_count['expect_fail'] += 1
            else:
                alive.append((h, kind))
                if key is not None:
                    used_keys.add(key)
            # observer callbacks (id 0): every (re)scheduling and the finishing become visible in the trace
            # (answered with NoHandle when the creation failed)
            emit(f'cbreg u {h} 0')
            emit(f'cbreg f {h} 0')
        elif r < p_time:
            d = rnd.choice([0, 0, 1, 1, 2, 2, 3, 4, 6, 10, 20]) * U // rnd.choice([1, 1, 2])
            m = rnd.random()
            if m < (0.35 if focus == 'C09' else 0.6):
                emit(f'sleep {d}')
            elif m < 0.8:
                emit(f'advance {d}')
                emit('yield')
            else:
                emit(f'advance {d}')      # the next op is issued before the loop gets to run
            now += d
            kinds_count['time'] += 1
        elif r < p_enable:
            emit(f'enable {rnd.choice([0, 1])}')
            emit('yield')
            kinds_count['enable'] += 1
        elif r < p_cb:
            h, kind = rnd.choice(alive)
            k = rnd.choice(['u', 'f'])
            if regs and rnd.random() < 0.4:
                k, h, c = rnd.choice(regs)
                emit(f'cbrem {k} {h} {c}')
            elif failures and ncb and rnd.random() < 0.15:
                emit(f'cbfails {rnd.randint(1, ncb)}')
            else:
                ncb += 1
                c = ncb if rnd.random() < 0.8 else rnd.randint(1, ncb)
                emit(f'cbreg {k} {h} {c}')
                regs.append((k, h, c))
            kinds_count['cb'] += 1
        else:
            h, kind = rnd.choice(alive)
            valid = {'once': ['cancel'], 'countdown': ['cancel', 'stop', 'reset', 'reset', 'reset', 'setcd', 'setcd'],
                     'at': ['cancel', 'pause', 'resume', 'resume']}[kind]
            op = rnd.choice(valid) if rnd.random() < 0.93 else rnd.choice(['pause', 'resume', 'stop', 'reset', 'setcd'])
            if op == 'setcd':
                secs = rnd.choice([1, 2, 3, 4, 6, 9]) * U if rnd.random() < 0.85 else rnd.choice([0, -U])
                emit(f'setcd {h} {secs}')
                if kind == 'countdown' and rnd.random() < 0.6:
                    # re-time the running countdown with the new value (earlier or later than before)
                    emit('yield')
                    emit(f'reset {h}')
            else:
                emit(f'{op} {h}')
            emit('yield')
            kinds_count['control'] += 1
    emit('sleep ' + str(rnd.choice([2, 5, 12]) * U))
    meta = {'executor': executor, 'ops': len(lines), 'jobs': nh, 'tz': tzname, **kinds_count}
    return SchedCase(seed, executor, epoch, lines, specs, meta, tzname)
