"""Seeded generators for producer (trigger) expressions, zones and reference instants."""
from __future__ import annotations

import random

from common import NS_DAY, NS_HOUR, NS_MIN, NS_S, NS_US, make_exact
from gen_sched import gen_filter
from tz import SHAPE_ZONES, transitions, zones

Y2000 = 946_684_800
Y2038 = 2_145_916_800


class ZoneCtx:
    def __init__(self, name: str) -> None:
        self.name = name
        self.trans = [(t, a, b) for (t, a, b) in transitions(name, Y2000, Y2038) if abs(b - a) <= 7200]

    def interesting_tods(self, rnd: random.Random, only=None) -> list[int]:
        """wall clock times (ns of day) at and around the skipped / repeated intervals of this zone"""
        out = []
        for (t, a, b) in ([only] if only else rnd.sample(self.trans, min(3, len(self.trans)))):
            lo, hi = (t + a, t + b) if b > a else (t + b, t + a)
            for x in (lo, hi, (lo + hi) // 2, lo - 60, hi + 60, lo + 1, hi - 1):
                out.append((x % 86400) * NS_S)
        return out


def gen_tod(rnd: random.Random, zc: ZoneCtx | None) -> int:
    r = rnd.random()
    if zc is not None and zc.trans and r < 0.5:
        return rnd.choice(zc.interesting_tods(rnd)) + rnd.choice([0, 0, 0, 1, 500_000 * NS_US, 999_999_999])
    if r < 0.6:
        return rnd.choice([0, 86399 * NS_S + 999_999_000, 12 * NS_HOUR, NS_DAY - NS_US])
    return rnd.randrange(0, 86400) * NS_S + rnd.choice([0, 0, 123_456_000])


SKIPPED = ['skip', 'earlier', 'later', 'after']
REPEATED = ['skip', 'earlier', 'later', 'twice']


def maybe_filter(rnd: random.Random, p: float):
    return gen_filter(rnd) if rnd.random() < p else None


def gen_base(rnd: random.Random, zc: ZoneCtx, ref: int, *, filters: float = 0.35, kinds=('time', 'interval')):
    k = rnd.choice(kinds)
    if k == 'time':
        tod = gen_tod(rnd, zc)
        f = maybe_filter(rnd, filters)
        # a time window that excludes the configured time of day makes the trigger unsatisfiable
        # (3-5 s per query on the real code): keep that for a small fraction only
        if f is not None and f[0] == 'time' and rnd.random() < 0.85:
            lo, hi = f[1], f[2]
            if (lo is not None and tod < lo) or (hi is not None and tod >= hi):
                f = ('time', None if lo is None else min(lo, tod), None if hi is None else max(hi, tod + 1))
        return ('time', tod, rnd.choice(SKIPPED), rnd.choice(REPEATED), f)
    step = rnd.choice([15 * NS_MIN, 30 * NS_MIN, NS_HOUR, 90 * NS_MIN, 6 * NS_HOUR, NS_DAY, 7 * NS_DAY,
                       NS_HOUR + 7 * NS_S + 123 * NS_US, 37 * NS_MIN])
    start = rnd.choice([None, ref + rnd.randint(-400, 400) * NS_HOUR + rnd.choice([0, 1, 999])])
    return ('interval', start, make_exact(step), maybe_filter(rnd, filters))


def gen_producer(rnd: random.Random, zc: ZoneCtx, ref: int, depth: int, *, filters: float = 0.35,
                 ops=('group', 'offset', 'earliest', 'latest', 'jitter'), base_kinds=('time', 'interval')):
    if depth <= 1 or rnd.random() < 0.25:
        return gen_base(rnd, zc, ref, filters=filters, kinds=base_kinds)
    k = rnd.choice(ops)
    sub = lambda: gen_producer(rnd, zc, ref, depth - 1, filters=filters, ops=ops, base_kinds=base_kinds)  # noqa: E731
    f = maybe_filter(rnd, filters * 0.6)
    if k == 'group':
        members = [sub() for _ in range(rnd.randint(1, 3))]
        if rnd.random() < 0.3:
            i = rnd.randrange(len(members))
            tw = twin_of(rnd, members[i], sub, filters)
            if members[i][0] in ('time', 'interval') and members[i][-1] is None and rnd.random() < 0.8:
                # an unfiltered member contains its filtered twin: give both a filter, so that each contributes
                members[i] = twin_of(rnd, tw, sub, filters)
            members.insert(rnd.randint(0, len(members)), tw)
        return ('group', f, members)
    if k == 'offset':
        off = rnd.choice([-1, 1]) * rnd.choice([NS_S, 10 * NS_MIN, 90 * NS_MIN, 5 * NS_HOUR, 30 * NS_HOUR, 1, 1234 * NS_US])
        return ('offset', make_exact(off), f, sub())
    if k in ('earliest', 'latest'):
        return (k, gen_tod(rnd, zc), rnd.choice(SKIPPED), rnd.choice(REPEATED), f, sub())
    lo = rnd.choice([0, 0, 10 * NS_S, -10 * NS_MIN, -NS_S, -3 * NS_HOUR])
    hi = lo + rnd.choice([NS_S, 10 * NS_MIN, 20 * NS_MIN, 2 * NS_HOUR])
    return ('jitter', make_exact(lo), make_exact(hi), f, sub())


def twin_of(rnd: random.Random, p, sub, filters: float):
    """a second member of the same kind with the same own parameters that differs only in the part every trigger
    class shares (its filter, the trigger it wraps): two different triggers that must both contribute to a group"""
    def other_filter(f):
        for _ in range(20):
            g = maybe_filter(rnd, 0.9)
            if g != f:
                return g
        return None
    k = p[0]
    if k == 'time':
        g = other_filter(p[4])
        if g is not None and g[0] == 'time' and rnd.random() < 0.85:      # as in gen_base: keep the twin satisfiable
            lo, hi = g[1], g[2]
            if (lo is not None and p[1] < lo) or (hi is not None and p[1] >= hi):
                g = ('time', None if lo is None else min(lo, p[1]), None if hi is None else max(hi, p[1] + 1))
        return ('time', p[1], p[2], p[3], g)
    if k == 'interval':
        return ('interval', p[1], p[2], other_filter(p[3]))
    if k == 'group':
        return ('group', other_filter(p[1]), list(p[2]))
    # offset / earliest / latest / jitter: same amount or bound, another wrapped trigger (and sometimes another filter)
    inner = sub()
    head = list(p[:-2])
    return (*head, p[-2] if rnd.random() < 0.5 else other_filter(p[-2]), inner)


def pick_zone(rnd: random.Random, tier: str) -> ZoneCtx:
    if tier == 'thorough' and rnd.random() < 0.5:
        return ZoneCtx(rnd.choice(zones()))
    return ZoneCtx(rnd.choice(SHAPE_ZONES))


def ref_instants(rnd: random.Random, zc: ZoneCtx, n: int) -> list[int]:
    """reference instants: around clock changes of the zone, and anywhere in 2000-2037"""
    out = []
    for _ in range(n):
        if zc.trans and rnd.random() < 0.6:
            t, a, b = rnd.choice(zc.trans)
            out.append((t + rnd.choice([-3, -2, -1, 0, 0, 1]) * 86400 + rnd.randint(-7200, 7200)) * NS_S
                       + rnd.choice([0, 0, 1, 999_999_999]))
        else:
            out.append(rnd.randrange(Y2000, Y2038 - 86400 * 400) * NS_S + rnd.choice([0, 1, 500 * NS_US]))
    return out
