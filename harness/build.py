"""Producer / filter expressions: Python tuples <-> S-expression text <-> real eascheduler objects
(built through the public builder API)."""
from __future__ import annotations

from common import NS_S, use_repo_sources

use_repo_sources()

from whenever import Time, TimeDelta  # noqa: E402

from vclock import instant_of_ns  # noqa: E402


def tod_time(tod_ns: int) -> Time:
    s, ns = divmod(tod_ns, NS_S)
    h, rem = divmod(s, 3600)
    m, sec = divmod(rem, 60)
    return Time(h, m, sec, nanosecond=ns)


def opt(x) -> str:
    return '-' if x is None else str(x)


# ------------------------------------------------------------------ S-expressions
def filt_sx(f) -> str:
    if f is None:
        return '-'
    k = f[0]
    if k in ('dow', 'dom', 'moy'):
        return '(' + ' '.join([k, *map(str, f[1])]) + ')'
    if k == 'time':
        return f'(time {opt(f[1])} {opt(f[2])})'
    if k in ('any', 'all'):
        return '(' + ' '.join([k, *map(filt_sx, f[1])]) + ')'
    if k == 'not':
        return f'(not {filt_sx(f[1])})'
    if k == 'ext':
        return f'(ext {f[1]})'
    raise ValueError(f)


def prod_sx(p) -> str:
    k = p[0]
    if k == 'time':
        return f'(time {p[1]} {p[2]} {p[3]} {filt_sx(p[4])})'
    if k == 'interval':
        return f'(interval {opt(p[1])} {p[2]} {filt_sx(p[3])})'
    if k == 'group':
        return '(' + ' '.join(['group', filt_sx(p[1]), *map(prod_sx, p[2])]) + ')'
    if k == 'offset':
        return f'(offset {p[1]} {filt_sx(p[2])} {prod_sx(p[3])})'
    if k in ('earliest', 'latest'):
        return f'({k} {p[1]} {p[2]} {p[3]} {filt_sx(p[4])} {prod_sx(p[5])})'
    if k == 'jitter':
        return f'(jitter {p[1]} {p[2]} {filt_sx(p[3])} {prod_sx(p[4])})'
    if k == 'sun':
        return f'(sun {p[1]} {filt_sx(p[2])})'
    raise ValueError(p)


def prod_depth(p) -> int:
    k = p[0]
    if k == 'group':
        return 1 + max([prod_depth(x) for x in p[2]] or [0])
    if k == 'offset':
        return 1 + prod_depth(p[3])
    if k in ('earliest', 'latest'):
        return 1 + prod_depth(p[5])
    if k == 'jitter':
        return 1 + prod_depth(p[4])
    return 1


def prod_kinds(p, acc=None) -> set:
    acc = set() if acc is None else acc
    acc.add(p[0])
    k = p[0]
    subs = p[2] if k == 'group' else [p[3]] if k == 'offset' else [p[5]] if k in ('earliest', 'latest') else \
        [p[4]] if k == 'jitter' else []
    for s in subs:
        prod_kinds(s, acc)
    return acc


# ------------------------------------------------------------------ real objects
EXT_DAYS: dict[int, set[int]] = {}     # ext filter id -> set of local day numbers


def _ext_filter_cls():
    from eascheduler.producers.base import ProducerFilterBase

    class ExtFilter(ProducerFilterBase):
        """opaque predicate on the local date (stands for the holiday filters)"""
        __slots__ = ('_id',)

        def __init__(self, fid: int) -> None:
            self._id = fid

        def copy(self):
            return self.__class__(self._id)

        def allow(self, dt) -> bool:
            d = dt.date().py_date().toordinal() - 719163
            return d in EXT_DAYS.get(self._id, ())

    return ExtFilter


_EXT = None


def build_filter(f):
    """-> eascheduler.builder.filters.FilterObject"""
    global _EXT
    from eascheduler.builder import FilterBuilder as F
    from eascheduler.builder.filters import FilterObject
    k = f[0]
    if k == 'dow':
        return F.weekdays(*f[1])
    if k == 'dom':
        return F.days(*f[1])
    if k == 'moy':
        return F.months(*f[1])
    if k == 'time':
        return F.time(lower=tod_time(f[1]) if f[1] is not None else None,
                      upper=tod_time(f[2]) if f[2] is not None else None)
    if k == 'any':
        return F.any(*[build_filter(x) for x in f[1]])
    if k == 'all':
        return F.all(*[build_filter(x) for x in f[1]])
    if k == 'not':
        return F.not_(build_filter(f[1]))
    if k == 'ext':
        if _EXT is None:
            _EXT = _ext_filter_cls()
        return FilterObject(_EXT(f[1]))
    raise ValueError(f)


SUN_KINDS = {0: 'dawn', 1: 'sunrise', 2: 'noon', 3: 'sunset', 4: 'dusk'}
# kinds >= 10 are parameterised: registered by the sun harness
SUN_PARAM: dict[int, tuple] = {}


def build_trigger(p):
    """-> eascheduler.builder.triggers.TriggerObject, through the public builder API only"""
    from eascheduler.builder import TriggerBuilder as T
    k = p[0]
    if k == 'time':
        t = T.time(tod_time(p[1]), clock_forward=p[2], clock_backward=p[3])
        f = p[4]
    elif k == 'interval':
        t = T.interval(instant_of_ns(p[1]) if p[1] is not None else None, TimeDelta(nanoseconds=p[2]))
        f = p[3]
    elif k == 'group':
        t = T.group(*[build_trigger(x) for x in p[2]])
        f = p[1]
    elif k == 'offset':
        t = build_trigger(p[3]).offset(TimeDelta(nanoseconds=p[1]))
        f = p[2]
    elif k in ('earliest', 'latest'):
        base = build_trigger(p[5])
        t = getattr(base, k)(tod_time(p[1]), clock_forward=p[2], clock_backward=p[3])
        f = p[4]
    elif k == 'jitter':
        t = build_trigger(p[4]).jitter(TimeDelta(nanoseconds=p[1]), TimeDelta(nanoseconds=p[2]))
        f = p[3]
    elif k == 'sun':
        kind = p[1]
        if kind in SUN_KINDS:
            t = getattr(T, SUN_KINDS[kind])()
        else:
            name, *args = SUN_PARAM[kind]
            t = getattr(T, name)(*args)
        f = p[2]
    else:
        raise ValueError(p)
    if f is not None:
        t = t.only_on(build_filter(f))
    return t
