"""Virtual-time asyncio loop: the driver coroutine owns the clock (integer nanoseconds)."""
from __future__ import annotations

import asyncio
import heapq

import whenever
from whenever import Instant, TimeDelta


def instant_of_ns(ns: int) -> Instant:
    return Instant.from_timestamp_nanos(ns)


def ns_of_instant(i: Instant) -> int:
    return i.timestamp_nanos()


class VLoop(asyncio.SelectorEventLoop):
    """`time()` is virtual; wall clock of `whenever` is frozen at epoch + virtual time."""

    def __init__(self, epoch_ns: int = 1_704_067_200_000_000_000) -> None:   # 2024-01-01T00:00:00Z
        super().__init__()
        self.epoch_ns = epoch_ns
        self.vns = 0
        # the loop's monotonic clock may run ahead of the wall clock (NTP slew, clock steps): a timer then fires
        # `skew_ns` before the wall clock reaches the instant it was armed for
        self.skew_ns = 0
        self._sync()

    def _sync(self) -> None:
        whenever._patch_time_frozen(instant_of_ns(self.epoch_ns + self.vns))

    def time(self) -> float:
        return self.vns / 1e9

    def call_at(self, when, callback, *args, context=None):
        # a timer of the loop's monotonic clock may fire before the wall clock reaches the instant it was armed for
        # (clock slew / steps): timers with a delay of more than 2 x skew fire `skew_ns` early
        if self.skew_ns and (when - self.time()) * 1e9 > 2 * self.skew_ns:
            when -= self.skew_ns / 1e9
        return super().call_at(when, callback, *args, context=context)

    @property
    def now_ns(self) -> int:
        return self.epoch_ns + self.vns

    def set_rel(self, vns: int) -> None:
        assert vns >= self.vns, (vns, self.vns)
        self.vns = vns
        self._sync()

    def next_timer_rel(self) -> int | None:
        """relative ns of the earliest pending (not cancelled) timer, snapped to the microsecond grid"""
        sched = self._scheduled
        while sched and sched[0]._cancelled:
            h = heapq.heappop(sched)
            h._scheduled = False
            if self._timer_cancelled_count > 0:
                self._timer_cancelled_count -= 1
        if not sched:
            return None
        return round(sched[0]._when * 1e6) * 1000

    def timer_due(self) -> bool:
        nt = self.next_timer_rel()
        return nt is not None and nt <= self.vns


async def drain(loop: VLoop) -> None:
    """let the loop run everything that is ready (tasks, done callbacks, due timers) at the current instant"""
    for _ in range(10_000):
        await asyncio.sleep(0)
        if not loop._ready and not loop.timer_due():
            # one more round: callbacks scheduled by the last handle of this iteration
            await asyncio.sleep(0)
            if not loop._ready and not loop.timer_due():
                return
    raise RuntimeError('event loop does not become idle')


async def drain_tasks(loop: VLoop) -> None:
    """run the tasks / callbacks that are ready now, but no timer: what the loop does before it looks at its
    timers again (a task created by an operation starts in the next loop iteration, ahead of any timer that
    became due while the loop was blocked)"""
    stash = loop._scheduled
    loop._scheduled = []
    try:
        for _ in range(10_000):
            await asyncio.sleep(0)
            if not loop._ready:
                await asyncio.sleep(0)
                if not loop._ready:
                    break
        else:
            raise RuntimeError('event loop does not become idle')
    finally:
        new = loop._scheduled
        loop._scheduled = stash
        for h in new:
            heapq.heappush(stash, h)


async def vsleep(loop: VLoop, d_ns: int, late_ns: int = 0) -> None:
    """sleep of the driver: the clock jumps from timer to timer; with `late_ns` every wake-up happens that much after
    the instant its timer was armed for (a real loop is never exactly on time), but not after the end of the sleep"""
    target = loop.vns + d_ns
    for _ in range(1_000_000):
        nt = loop.next_timer_rel()
        if nt is None or nt > target:
            break
        loop.set_rel(min(max(nt, loop.vns) + late_ns, target))
        await drain(loop)
    else:
        raise RuntimeError('timer storm')
    loop.set_rel(target)
    await drain(loop)


def run_virtual(coro_fn, epoch_ns: int = 1_704_067_200_000_000_000, skew_ns: int = 0):
    loop = VLoop(epoch_ns)
    loop.skew_ns = skew_ns
    asyncio.set_event_loop(loop)
    try:
        return loop.run_until_complete(coro_fn(loop))
    finally:
        whenever._unpatch_time()
        try:
            loop.run_until_complete(loop.shutdown_asyncgens())
        except Exception:  # noqa: BLE001
            pass
        asyncio.set_event_loop(None)
        loop.close()
