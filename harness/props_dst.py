"""C20: a time of day accepted without DST policy is safe for the whole year."""
from __future__ import annotations

import datetime as dtm
import importlib
import json
import logging
import os
import random
from concurrent.futures import ProcessPoolExecutor

from common import CORPUS, NS_HOUR, NS_MIN, NS_S, NS_US, run_model, use_repo_sources
from framework import Finding, Run
from tz import SHAPE_ZONES, parse, set_tz, zone_line, zones

use_repo_sources()

EPOCH = dtm.datetime(1970, 1, 1)


def affected(zone: str, year: int):
    """the skipped / repeated local intervals of the year: (kind, start, end) as naive datetimes"""
    _, trans, _ = parse(zone)
    out = []
    for t, o1, o2 in trans:
        if o1 == o2:
            continue
        lo, hi = (t + o1, t + o2) if o2 > o1 else (t + o2, t + o1)
        a, b = EPOCH + dtm.timedelta(seconds=lo), EPOCH + dtm.timedelta(seconds=hi)
        if a.year != year and (b - dtm.timedelta(microseconds=1)).year != year:
            continue
        out.append(('skipped' if o2 > o1 else 'repeated', a, b))
    return out


def tod_affected(t_ns: int, aff, year: int):
    """is the time of day skipped / repeated on some date of the year?  (scan of the dates the intervals touch)"""
    us = t_ns // 1000
    for kind, a, b in aff:
        d = a.date()
        while d <= b.date():
            if d.year == year:
                x = dtm.datetime(d.year, d.month, d.day) + dtm.timedelta(microseconds=us)
                if a <= x < b:
                    return kind, d
            d += dtm.timedelta(days=1)
    return None


def probe_times(rnd: random.Random) -> list[int]:
    ts = {h * NS_HOUR + m * NS_MIN for h in range(24) for m in range(0, 60, 10)}
    ts |= {h * NS_HOUR + 59 * NS_MIN + 59 * NS_S + 999_999_000 for h in range(24)}
    ts |= {h * NS_HOUR + 1 for h in range(24)}
    ts |= {rnd.randrange(86400) * NS_S + rnd.choice([0, 500_000_000]) for _ in range(40)}
    return sorted(ts)


def zone_year_worker(args):
    zone, year, times = args
    import whenever
    from whenever import SystemDateTime, Time
    logging.disable(logging.CRITICAL)
    set_tz(zone)
    import eascheduler.helpers.dst_param as dp
    # the library is imported in the year before and used in `year`: "the current calendar year" is the year of the call
    whenever._patch_time_frozen(SystemDateTime(year - 1, 12, 20, 12).instant())
    try:
        importlib.reload(dp)
        whenever._patch_time_frozen(SystemDateTime(year, 7, 1, 12).instant())
        out = {}
        # through the public API (TriggerBuilder.time / .earliest / .latest -> get_time_replacer -> check_dst_handling);
        # the calls that name one policy come first: what they are told must not leak into the call without any policy
        from eascheduler.builder.triggers import TriggerBuilder
        base_trigger = TriggerBuilder.interval(None, 3600)
        for mode, (f, b) in (('fwd', ('skip', None)), ('bwd', (None, 'twice')), ('none', (None, None))):
            res = []
            for i, t in enumerate(times):
                s, ns = divmod(t, NS_S)
                tm = Time(s // 3600, s % 3600 // 60, s % 60, nanosecond=ns)
                try:
                    if i % 3 == 0:
                        TriggerBuilder.time(tm, clock_forward=f, clock_backward=b)
                    elif i % 3 == 1:
                        base_trigger.earliest(tm, clock_forward=f, clock_backward=b)
                    else:
                        base_trigger.latest(tm, clock_forward=f, clock_backward=b)
                    res.append('a')
                except ValueError:
                    res.append('r')
                except Exception as e:  # noqa: BLE001
                    res.append('E')
            out[mode] = ''.join(res)
        verb = None
        try:
            verb = dp.check_dst_handling(Time(2, 30), 'skip', 'twice')
        except Exception as e:  # noqa: BLE001
            verb = repr(e)
        return zone, year, out, tuple(getattr(v, 'value', v) for v in verb) if isinstance(verb, tuple) else verb
    finally:
        whenever._unpatch_time()


class DstProp:
    component = 'dst'
    pid = 'C20'
    module = 'EaModel.Properties.C20'
    assumptions = ['the current year is set with a patched clock; helpers.dst_param is reloaded per zone-year',
                   'zone database as input (see C05)']

    def __init__(self, theorems: list[str]) -> None:
        self.theorems = theorems

    def run_T(self, run: Run) -> None:
        rnd = random.Random(run.seed * 1_000_003 + 20)
        if run.tier == 'quick':
            zs = list(SHAPE_ZONES) + ['Africa/El_Aaiun', 'Pacific/Fiji', 'America/Nuuk']
            zs = [z for z in dict.fromkeys(zs) if os.path.exists('/usr/share/zoneinfo/' + z)]
            years = sorted(rnd.sample(range(2020, 2038), 4))
        else:
            zs = zones()
            years = list(range(2020, 2038))
        times = probe_times(rnd)
        run.rule = ('(zone, current year, time of day): every zone-year is one case of its own; times on a 10-minute grid plus hour '
                    'edges and random times; accepted/rejected compared with the model and with a scan of every clock change of the '
                    'year in the zone file; distinct = distinct (zone, year, time)')
        jobs = [(z, y, times) for z in zs for y in years
                if not any((b - a).total_seconds() > 7200 for _, a, b in affected(z, y))]
        run.stats['zone_years'] = len(jobs)
        run.stats['zone_years_skipped_change_gt_2h'] = len(zs) * len(years) - len(jobs)
        with ProcessPoolExecutor(max_workers=min(16, os.cpu_count() or 4)) as ex:
            results = list(ex.map(zone_year_worker, jobs, chunksize=1))
        cnt = {'accept_all': 0, 'reject_all': 0, 'mixed': 0}
        for zone, year, out, verb in results:
            aff = affected(zone, year)
            run.evaluations += 3 * len(times)
            for t in times[::7]:
                run.nontrivial.add((zone, year, t))
            res0 = out['none']
            cnt['accept_all' if set(res0) == {'a'} else 'reject_all' if set(res0) == {'r'} else 'mixed'] += 1
            if verb != ('skip', 'twice'):
                run.findings.append(Finding('oracle', f'[{zone} {year}] both policies given but not used verbatim: {verb}',
                                            {'component': 'dst', 'zone': zone, 'year': year}))
            for mode, res in out.items():
                # which kinds of clock change must an accepted time be safe from, given the policy that was supplied
                kinds = {'none': ('skipped', 'repeated'), 'fwd': ('repeated',), 'bwd': ('skipped',)}[mode]
                for t, r in zip(times, res):
                    if r == 'a':
                        hit = tod_affected(t, [x for x in aff if x[0] in kinds], year)
                        if hit:
                            given = {'none': 'no DST policy', 'fwd': 'only clock_forward', 'bwd': 'only clock_backward'}[mode]
                            run.findings.append(Finding(
                                'oracle', f'[{zone} {year}] time of day {t} ns is accepted with {given} given but is {hit[0]} on {hit[1]}',
                                {'component': 'dst', 'zone': zone, 'year': year, 'time': t, 'mode': mode}))
                            break
                    elif r == 'E':
                        run.findings.append(Finding('oracle', f'[{zone} {year}] unexpected exception for time {t}',
                                                    {'component': 'dst', 'zone': zone, 'year': year, 'time': t}))
                        break
                mod = run_model([zone_line(zone), f'dstcheck {year} {mode} ' + ' '.join(map(str, times))])[1]
                run.traces_validated += 1
                if len(mod) < 2 or mod[1] != res:
                    i = next((i for i, (a, b) in enumerate(zip(res, mod[1] if len(mod) > 1 else '')) if a != b), 0)
                    run.findings.append(Finding('correspondence', f'dst_param model and code differ for {zone} {year} (policies given: {mode}): '
                                                                  f'time {times[i]} code {res[i]} / model '
                                                                  f'{(mod[1][i] if len(mod) > 1 and len(mod[1]) > i else "?")} ({mod[0] if mod else ""})',
                                                {'component': 'dst', 'zone': zone, 'year': year, 'time': times[i], 'mode': mode,
                                                 'broken': 'correspondence dst'}))
            run.sample({'zone': zone, 'year': year, 'model_setup': mod[0] if mod else '', 'affected': [(k, str(a), str(b)) for k, a, b in aff],
                        'accepted': res0.count('a'), 'rejected': res0.count('r')})
        run.stats.update(cnt)

    def replay(self, run: Run, obj: dict) -> None:
        self.run_T(run)
