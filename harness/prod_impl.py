"""Adapter: producer / filter queries on the real eascheduler objects (built through the builder API)."""
from __future__ import annotations

import signal

from common import ScriptedUniform, use_repo_sources

use_repo_sources()

from build import build_filter, build_trigger  # noqa: E402
from tz import set_tz  # noqa: E402
from vclock import instant_of_ns, ns_of_instant  # noqa: E402


class Diverged(BaseException):
    pass


def _alarm(*_a):
    raise Diverged()


def _has_filtered_interval(p) -> bool:
    k = p[0]
    if k == 'interval':
        return p[3] is not None
    subs = p[2] if k == 'group' else [p[3]] if k == 'offset' else [p[5]] if k in ('earliest', 'latest') else \
        [p[4]] if k == 'jitter' else []
    return any(_has_filtered_interval(s) for s in subs)


class ProdImpl:
    """one instance per case: fixed zone and draw seed; producers are addressed by a small integer"""

    def __init__(self, tz: str, seed: int, budget_s: float = 10.0) -> None:
        self.tz, self.seed, self.budget_s = tz, seed, budget_s
        self.trig: dict[int, object] = {}
        self.prod: dict[int, object] = {}
        self.risky: dict[int, bool] = {}
        set_tz(tz)
        import eascheduler.producers.prod_operation as po
        self._po = po
        self._old_uniform = po.uniform
        po.uniform = ScriptedUniform(seed, ns_of_instant)

    def close(self) -> None:
        self._po.uniform = self._old_uniform

    def define(self, pid: int, spec) -> str:
        try:
            t = build_trigger(spec)
        except Exception as e:  # noqa: BLE001
            return f'err {type(e).__name__}'
        self.trig[pid] = t
        self.risky[pid] = _has_filtered_interval(spec)
        self.prod[pid] = t._producer
        return 'ok'

    def next(self, pid: int, dt_ns: int) -> str:
        p = self.prod[pid]
        old = signal.signal(signal.SIGALRM, _alarm)
        # an interval with a filter is searched in an unbounded loop (known finding F7a): short watchdog
        signal.setitimer(signal.ITIMER_REAL, 2.5 if self.risky.get(pid) else self.budget_s)
        try:
            r = p.get_next(instant_of_ns(dt_ns))
            return f'ok {ns_of_instant(r)}'
        except Diverged:
            return 'err DIVERGED'
        except Exception as e:  # noqa: BLE001
            return f'err {type(e).__name__}'
        finally:
            signal.setitimer(signal.ITIMER_REAL, 0)
            signal.signal(signal.SIGALRM, old)

    def allow(self, f, u_ns: int) -> str:
        fo = build_filter(f)
        return 'true' if fo._filter.allow(instant_of_ns(u_ns).to_system_tz()) else 'false'
