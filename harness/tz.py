"""Time zones: TZif parser (the OS database is the ground truth the real code uses through glibc/whenever),
zone list, TZ switching, export of transition tables for the Lean model."""
from __future__ import annotations

import hashlib
import os
import struct
import time
from functools import lru_cache

ZI = '/usr/share/zoneinfo'


@lru_cache(maxsize=None)
def parse(zone: str):
    """-> (initial offset, [(utc transition second, offset before, offset after)], footer TZ string)"""
    b = open(os.path.join(ZI, zone), 'rb').read()

    def hdr(off):
        assert b[off:off + 4] == b'TZif'
        return struct.unpack('>6l', b[off + 20:off + 44])
    isutcnt, isstdcnt, leapcnt, timecnt, typecnt, charcnt = hdr(0)
    off = 44 + timecnt * 4 + timecnt + typecnt * 6 + charcnt + leapcnt * 8 + isstdcnt + isutcnt
    isutcnt, isstdcnt, leapcnt, timecnt, typecnt, charcnt = hdr(off)
    off += 44
    times = struct.unpack(f'>{timecnt}q', b[off:off + 8 * timecnt])
    off += 8 * timecnt
    idx = b[off:off + timecnt]
    off += timecnt
    tt = []
    for _ in range(typecnt):
        ut, _dst, _ab = struct.unpack('>lBB', b[off:off + 6])
        off += 6
        tt.append(ut)
    off += charcnt + leapcnt * 12 + isstdcnt + isutcnt
    footer = b[off:].strip().decode()
    cur = tt[0]
    init = cur
    trans = []
    for t, i in zip(times, idx):
        trans.append((t, cur, tt[i]))
        cur = tt[i]
    return init, trans, footer


@lru_cache(maxsize=None)
def zones() -> list[str]:
    """one name per distinct zone file"""
    seen: dict[str, str] = {}
    for root, dirs, files in os.walk(ZI):
        dirs[:] = sorted(d for d in dirs if d not in ('posix', 'right'))
        for f in sorted(files):
            p = os.path.join(root, f)
            try:
                data = open(p, 'rb').read()
            except OSError:
                continue
            if data[:4] != b'TZif':
                continue
            h = hashlib.sha1(data).hexdigest()
            name = os.path.relpath(p, ZI)
            if h not in seen or ('/' in name and '/' not in seen[h]):
                seen[h] = name
    return sorted(seen.values())


def set_tz(zone: str) -> None:
    os.environ['TZ'] = zone
    time.tzset()


WINDOW = (631152000, 2208988800)     # 1990-01-01 .. 2040-01-01


def zone_line(zone: str, lo: int = WINDOW[0], hi: int = WINDOW[1]) -> str:
    """`zone <offset at lo> (<utc second> <new offset>)*` for the transitions inside the window"""
    init, trans, _ = parse(zone)
    cur = init
    out = []
    for t, o1, o2 in trans:
        if t < lo:
            cur = o2
        elif t < hi:
            if o1 != o2:
                out.append(f'{t} {o2}')
    return ' '.join(['zone', str(cur), *out])


def transitions(zone: str, lo: int, hi: int):
    """real clock changes (offset changes) with lo <= t < hi: (t, before, after)"""
    _, trans, _ = parse(zone)
    return [(t, a, b) for t, a, b in trans if lo <= t < hi and a != b]


def well_formed(zone: str, lo: int = WINDOW[0], hi: int = WINDOW[1]) -> bool:
    """the decidable `Zone.WF` of the model: shifts <= 2 h, transitions >= 4 h apart... evaluated on the table"""
    tr = transitions(zone, lo, hi)
    for (t, a, b) in tr:
        if abs(b - a) > 7200:
            return False
    for (t1, *_), (t2, *_) in zip(tr, tr[1:]):
        if t2 - t1 < 4 * 3600 + 2 * 7200:
            return False
    return True


SHAPE_ZONES = [
    'UTC', 'Europe/Berlin', 'America/New_York', 'Australia/Lord_Howe', 'America/Godthab', 'America/Havana',
    'Africa/Cairo', 'Antarctica/Troll', 'Pacific/Chatham', 'America/St_Johns', 'Asia/Tehran', 'Asia/Kolkata',
    'America/Sao_Paulo', 'Australia/Sydney', 'Pacific/Auckland', 'America/Santiago', 'Asia/Amman',
    'Europe/London', 'America/Goose_Bay', 'Asia/Gaza', 'Africa/Casablanca', 'America/Asuncion', 'Asia/Beirut',
    'Europe/Chisinau', 'America/Scoresbysund',
]
