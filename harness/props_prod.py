"""Producer-component properties: C04, C05, C06, C13, C14, C15, C16."""
from __future__ import annotations

import json
import os
import random
import subprocess
from concurrent.futures import ProcessPoolExecutor

from build import prod_depth, prod_kinds, prod_sx
from common import CORPUS, NS_DAY, NS_HOUR, NS_MIN, NS_S, make_exact, run_model
from framework import Finding, Run
from gen_prod import (REPEATED, SKIPPED, ZoneCtx, gen_base, gen_producer, gen_tod, maybe_filter, pick_zone,
                      ref_instants)
from prod_impl import _has_filtered_interval
from tz import well_formed, zone_line


class ProdCase:
    def __init__(self, tz: str, seed: int) -> None:
        self.tz, self.seed = tz, seed
        self.specs: dict[int, tuple] = {}
        self.queries: list[tuple[int, int]] = []
        self.impl: list[str] = []          # impl answers to the queries
        self.defs: dict[int, str] = {}     # impl answers to the definitions
        self.anchor: dict[int, int] = {}   # first reference instant per producer (anchors `interval(None, ..)`)
        self.meta: dict = {}

    def time_nodes(self) -> list[tuple]:
        out = []

        def walk(p):
            k = p[0]
            if k == 'time':
                out.append((p[1], p[2], p[3]))
            subs = p[2] if k == 'group' else [p[3]] if k == 'offset' else [p[5]] if k in ('earliest', 'latest') else \
                [p[4]] if k == 'jitter' else []
            if k in ('earliest', 'latest'):
                out.append((p[1], p[2], p[3]))
            for s in subs:
                walk(s)
        for sp in self.specs.values():
            walk(sp)
        return sorted(set(out))

    def regular_lines(self) -> list[str]:
        """executable check of the `TimeRegular` hypothesis of the C05/C06 theorems on the dates this case touches"""
        if not self.queries:
            return []
        lo = min(dt for _, dt in self.queries)
        hi = max([dt for _, dt in self.queries] + [int(r.split()[1]) for r in self.impl if r.startswith('ok')])
        d0, d1 = lo // NS_DAY - 3, min(hi // NS_DAY + 3, lo // NS_DAY + 800)
        # `narrow`: the executable side condition of `timeRegular_of_narrowB` — where it holds the hypothesis is a theorem
        return ['narrow'] + [f'regular {tod} {sk} {rp} {d0} {d1}' for tod, sk, rp in self.time_nodes()]

    def lines(self) -> list[str]:
        out = [zone_line(self.tz), f'seed {self.seed}']
        out += [f'prod {pid} {prod_sx(sp)}' for pid, sp in self.specs.items()]
        out += self.regular_lines()
        out += [f'next {pid} {dt}' for pid, dt in self.queries]
        return out

    def to_json(self) -> dict:
        return {'component': 'prod', 'tz': self.tz, 'seed': self.seed, 'specs': {str(k): v for k, v in self.specs.items()},
                'queries': self.queries}


def has_unanchored(p) -> bool:
    k = p[0]
    if k == 'interval':
        return p[1] is None
    subs = p[2] if k == 'group' else [p[3]] if k == 'offset' else [p[5]] if k in ('earliest', 'latest') else \
        [p[4]] if k == 'jitter' else []
    return any(has_unanchored(x) for x in subs)


def has_inexact_amount(p) -> bool:
    """an offset / jitter / interval amount that is not a binary fraction (1/8 s) of a second: finding F15"""
    from common import exact_secs
    k = p[0]
    if k == 'interval':
        return not exact_secs(p[2])
    if k == 'offset':
        return not exact_secs(p[1]) or has_inexact_amount(p[3])
    if k == 'jitter':
        return not exact_secs(p[1]) or not exact_secs(p[2]) or has_inexact_amount(p[4])
    if k == 'group':
        return any(has_inexact_amount(x) for x in p[2])
    if k in ('earliest', 'latest'):
        return has_inexact_amount(p[5])
    return False


def spec_from_json(x):
    if isinstance(x, list):
        if x and isinstance(x[0], str):
            return tuple(spec_from_json(y) for y in x)
        return [spec_from_json(y) for y in x]
    return x


def run_case_impl(case: ProdCase, plan) -> None:
    """`plan(impl, case)` issues the queries adaptively through `ask`"""
    from prod_impl import ProdImpl
    impl = ProdImpl(case.tz, case.seed, budget_s=case.meta.get('watchdog_s', 10.0))
    try:
        for pid, sp in case.specs.items():
            case.defs[pid] = impl.define(pid, sp)

        import time as _t
        t_start = _t.time()
        dead: set[int] = set()

        def ask(pid: int, dt: int) -> str:
            if case.defs.get(pid) != 'ok':
                return 'err undefined'
            if _t.time() - t_start > case.meta.get('budget_s', 8.0):
                case.meta['budget_exhausted'] = True
                return 'err budget'
            if pid in dead:
                return 'err dead'
            r = impl.next(pid, dt)
            if r.startswith('ok'):
                case.anchor.setdefault(pid, dt)
            elif pid not in case.anchor and has_unanchored(case.specs[pid]):
                # the first query failed: which `interval(None, ..)` nodes were anchored by it is an
                # implementation detail; do not query this object again
                dead.add(pid)
            if r == 'err DIVERGED' and not impl.risky.get(pid) and not case.meta.get('keep_diverged'):
                # a bounded but very expensive search (e.g. an unsatisfiable group filter: up to 99 999 member
                # queries) was cut off by the watchdog: inconclusive, not compared with the model
                case.meta['inconclusive'] = case.meta.get('inconclusive', 0) + 1
                return r
            case.queries.append((pid, dt))
            case.impl.append(r)
            return r
        plan(ask, case)
    finally:
        impl.close()


def replay_case_impl(case: ProdCase) -> None:
    qs = list(case.queries)
    case.queries, case.impl = [], []

    def plan(ask, c):
        for pid, dt in qs:
            ask(pid, dt)
    run_case_impl(case, plan)


def model_answers(case: ProdCase) -> tuple[dict[int, str], list[str]]:
    blocks = run_model(case.lines(), timeout=180)
    nd = len(case.specs)
    nr = len(case.regular_lines())
    defs = {pid: (blocks[2 + i][0] if blocks[2 + i] else '') for i, pid in enumerate(case.specs)}
    case.regular = [b[0] if b else '' for b in blocks[2 + nd:2 + nd + nr]]
    return defs, [b[0] if b else '' for b in blocks[2 + nd + nr:]]


def chain_plan(refs: list[int], steps: int, boundary: bool = True):
    import time as _time

    def plan(ask, case: ProdCase) -> None:
        for pid in case.specs:
            slow = 0
            for ref in refs:
                if slow >= 1:
                    break           # one expensive (unsatisfiable) query per trigger is enough
                dt = ref
                for i in range(steps):
                    t0 = _time.time()
                    r = ask(pid, dt)
                    if _time.time() - t0 > 1.0:
                        slow += 1
                    if not r.startswith('ok'):
                        break
                    v = int(r.split()[1])
                    if boundary and i == 0:
                        # exactly on, one nanosecond before and after the occurrence
                        ask(pid, v - 1)
                        ask(pid, v + 1)
                    dt = v
    return plan


# ------------------------------------------------------------------------------------------------ profiles
INEXACT_STEPS = [100_000_000, 300_000_000, 1_100_000_000, 90_100_000_000, 700_000_000, 2_600_000_000]


def make_case(pid: str, seed: int, tier: str) -> ProdCase:
    rnd = random.Random(seed)
    zc = pick_zone(rnd, tier)
    case = ProdCase(zc.name, rnd.randint(0, 10_000))
    refs = ref_instants(rnd, zc, 3)
    ref0 = refs[0]
    steps = 5
    case.meta['probes'] = []
    if pid in ('C04', 'C05', 'C06', 'C13') and zc.trans and rnd.random() < 0.6:
        # directed: a dense grid of reference instants (15 min apart, +-1 ns) around one clock change
        t, a, b = rnd.choice(zc.trans)
        case.meta['trans'] = (t, a, b)
        case.meta['grid'] = [t * NS_S + k * 15 * NS_MIN + e for k in range(-14, 15) for e in (0,)] + \
                            [t * NS_S + e for e in (-1, 1)]
    if pid == 'C04' and rnd.random() < 0.25:
        # amounts that are not binary fractions of a second (0.1 s, 0.3 s ...): the float arithmetic of the code
        # may be off by a nanosecond (known finding F15), so only the property oracle judges these cases;
        # every query goes to a FRESH object, exactly on an occurrence far from the anchor
        case.meta['oracle_only'] = True
        step = rnd.choice(INEXACT_STEPS)
        start = (ref0 // NS_S) * NS_S
        base = ('interval', start, step, None)
        spec = base if rnd.random() < 0.6 else ('offset', rnd.choice([-1, 1]) * rnd.choice(INEXACT_STEPS), None, base)
        for k in range(1, 41):
            case.specs[k] = spec
            case.meta['probes'].append((k, start + k * step + rnd.choice([0, 0, 0, -1, 1])))
        case.meta.update({'refs': [], 'steps': 0})
        return case
    if pid == 'C04':
        for i in range(2):
            case.specs[i + 1] = gen_producer(rnd, zc, ref0, rnd.randint(1, 4))
    elif pid == 'C05':
        for i in range(2):
            case.specs[i + 1] = gen_producer(rnd, zc, ref0, rnd.randint(1, 3), filters=0.6, ops=('group',))
        steps = 4
    elif pid == 'C06':
        for i in range(3):
            case.specs[i + 1] = ('time', gen_tod(rnd, zc), rnd.choice(SKIPPED), rnd.choice(REPEATED), None)
        steps = 8
        refs = [r for r in refs if True]
    elif pid == 'C13' and 'grid' in case.meta and rnd.random() < 0.7:
        # directed: the bound's wall clock time lies inside the skipped / repeated interval of the clock change the
        # grid of reference instants surrounds; a dense underlying trigger has occurrences all around it
        t, a, b = case.meta['trans']
        lo, hi = (t + a, t + b) if b > a else (t + b, t + a)
        for i in range(3):
            x = rnd.choice([(lo + hi) // 2, lo, hi - 1, lo + (hi - lo) // 4, hi, lo - 1])
            tod = (x % 86400) * NS_S
            base = ('interval', (t - 86400) * NS_S + rnd.choice([0, 1, 7]) * NS_MIN, rnd.choice([10, 15, 25]) * NS_MIN, None)
            k = rnd.choice(['earliest', 'latest'])
            case.specs[i + 1] = (k, tod, rnd.choice(SKIPPED), rnd.choice(REPEATED), None, base)
        steps = 3
    elif pid == 'C13':
        for i in range(2):
            base = gen_producer(rnd, zc, ref0, rnd.randint(1, 2), filters=0.2, ops=('group',))
            k = rnd.choice(['offset', 'earliest', 'latest', 'jitter'])
            case.specs[i + 1] = gen_producer(rnd, zc, ref0, 2, ops=(k,), filters=0.0) if False else wrap_op(rnd, zc, k, base)
        # directed: a shift by several periods of a dense underlying trigger, and a narrow time window on the shifted
        # trigger itself: most candidates are rejected, the first admitted one must not be passed over
        step = rnd.choice([15 * NS_MIN, 30 * NS_MIN, NS_HOUR])
        h0 = rnd.randrange(1, 21)
        window = ('time', h0 * NS_HOUR, h0 * NS_HOUR + rnd.choice([1, 2, 3]) * step)
        shift = rnd.randint(2, 9) * step + rnd.choice([0, 0, 5 * NS_MIN])
        dense = ('interval', (ref0 // NS_HOUR) * NS_HOUR - 3 * NS_DAY, step, None)
        case.specs[3] = rnd.choice([('offset', make_exact(shift), window, dense),
                                    ('jitter', make_exact(shift), make_exact(shift + NS_S), window, dense)])
        # directed: a two-sided jitter that is not symmetric (|low| < high and |low| > high), queried from instants
        # shortly before an occurrence of the underlying trigger: closer than |low|, between |low| and high, further away
        step4 = rnd.choice([NS_HOUR, 6 * NS_HOUR])
        start4 = (ref0 // NS_HOUR) * NS_HOUR - 2 * NS_DAY
        a, b = rnd.choice([(10 * NS_S, 120 * NS_S), (NS_S, 10 * NS_MIN), (5 * NS_MIN, 20 * NS_MIN), (10 * NS_MIN, 2 * NS_MIN)])
        case.specs[4] = ('jitter', make_exact(-a), make_exact(b), None, ('interval', start4, step4, None))
        for kk in range(3):
            occ = start4 + (48 + 5 * kk) * step4
            for dd in (a // 2, a, a + NS_S, (a + b) // 2, b, b + NS_S, max(a, b) + 10 * NS_MIN):
                case.meta['probes'].append((4, occ - dd))
    elif pid == 'C16':
        # unsatisfiable / contradictory filters at every level, plus satisfiable controls
        unsat = [('all', [('dow', [1]), ('dow', [2])]), ('all', [('dom', [31]), ('moy', [2])]),
                 ('not', ('dow', [1, 2, 3, 4, 5, 6, 7])), ('time', 12 * NS_HOUR, 12 * NS_HOUR),
                 ('all', [('moy', [4]), ('dom', [31])])]
        u = rnd.choice(unsat)
        tod = gen_tod(rnd, zc)
        shapes = [
            ('time', tod, rnd.choice(SKIPPED), rnd.choice(REPEATED), u),
            ('time', tod, rnd.choice(SKIPPED), rnd.choice(REPEATED), ('time', (tod + NS_HOUR) % NS_DAY, None)
             if tod + NS_HOUR < NS_DAY else u),
            ('interval', ref0, make_exact(rnd.choice([NS_HOUR, 6 * NS_HOUR, NS_DAY, 7 * NS_DAY])), u),
            ('group', u, [('time', tod, 'after', 'earlier', None)]),
            ('offset', NS_HOUR, u, ('time', tod, 'after', 'earlier', None)),
            ('group', None, [('time', tod, 'skip', 'skip', u), ('interval', ref0, NS_HOUR, None)]),
            ('jitter', 0, 10 * NS_S, u, ('interval', ref0, NS_DAY, None)),
            gen_producer(rnd, zc, ref0, rnd.randint(1, 3)),
            # the bound is a number of candidates, not a span of time: fast members under a filter nothing passes
            ('group', u, [('interval', ref0, 60 * NS_S, None), ('interval', ref0, NS_S // 8, None)]),
            ('offset', 60 * NS_S, u, ('interval', ref0, NS_S // 8, None)),
            ('group', u, [('interval', ref0 + 1, NS_S, None), ('time', tod, 'after', 'earlier', None)]),
        ]
        rnd.shuffle(shapes)
        for i, sp in enumerate(shapes[:3]):
            case.specs[i + 1] = sp
        steps = 1
        refs = refs[:1]
        case.meta['budget_s'] = 120.0
        case.meta['watchdog_s'] = 90.0
        case.meta['keep_diverged'] = True
        case.meta.pop('grid', None)
    elif pid == 'C14':
        for i in range(2):
            base = gen_base(rnd, zc, ref0, filters=0.2)
            k = rnd.choice(['offset', 'jitter'])
            case.specs[i + 1] = wrap_op(rnd, zc, k, base, narrow=True)
        steps = 40
        refs = refs[:1]
    else:
        case.specs[1] = gen_producer(rnd, zc, ref0, rnd.randint(1, 3))
    case.meta.update({'refs': refs, 'steps': steps})
    return case


def base_period(spec) -> int:
    if spec[0] == 'interval':
        return spec[2]
    return NS_DAY


def wrap_op(rnd: random.Random, zc: ZoneCtx, k: str, base, narrow: bool = False):
    per = base_period(base)
    # C14 chains: in a third of the cases the shifted trigger itself carries a (mild) filter
    flt = None
    if narrow and rnd.random() < 0.35:
        flt = rnd.choice([('not', ('dow', [rnd.randint(1, 7)])), ('dow', sorted(rnd.sample(range(1, 8), 5))),
                          ('not', ('dom', [rnd.randint(1, 28)]))])
    elif not narrow and k in ('offset', 'jitter') and rnd.random() < 0.4:
        # C13: the operation itself carries a filter; candidates it rejects must not make the search skip occurrences
        h0 = rnd.randrange(0, 20)
        flt = rnd.choice([('dow', sorted(rnd.sample(range(1, 8), rnd.randint(2, 5)))),
                          ('time', h0 * NS_HOUR, (h0 + rnd.randint(2, 4)) * NS_HOUR),
                          ('not', ('time', h0 * NS_HOUR, (h0 + rnd.randint(2, 4)) * NS_HOUR)),
                          ('not', ('dom', sorted(rnd.sample(range(1, 29), 6))))])
    if k == 'offset':
        if narrow:
            off = rnd.choice([-1, 1]) * rnd.choice([per // 7, per // 3, per // 2 - 1, NS_S, 17 * NS_MIN])
        else:
            off = rnd.choice([-1, 1]) * rnd.choice([NS_S, 10 * NS_MIN, 90 * NS_MIN, 5 * NS_HOUR, 30 * NS_HOUR, 1])
        return ('offset', make_exact(off), flt, base)
    if k in ('earliest', 'latest'):
        return (k, gen_tod(rnd, zc), rnd.choice(SKIPPED), rnd.choice(REPEATED), None, base)
    width = rnd.choice([per // 10, per // 4, per // 2 - 2, NS_S]) if narrow else rnd.choice([NS_S, 10 * NS_MIN, 2 * NS_HOUR])
    width = max(width, 1000)
    lo = rnd.choice([0, 0, -width // 2, -width, width // 3, -1])
    return ('jitter', make_exact(lo), make_exact(lo + width), flt, base)


def make_sweep_case(zone: str, seed: int) -> ProdCase:
    """C06 sweep: one zone, two of its clock changes, wall clock times at the start / inside / at the end of the
    affected interval, all 4 x 4 policies, reference instants before, inside and after the change"""
    rnd = random.Random(seed)
    zc = ZoneCtx(zone)
    case = ProdCase(zone, 0)
    case.meta = {'refs': [], 'steps': 0, 'probes': [], 'budget_s': 30.0}
    if not zc.trans:
        case.specs[1] = ('time', 12 * NS_HOUR, 'after', 'earlier', None)
        case.meta['probes'] = [(1, 1_700_000_000 * NS_S)]
        return case
    pid = 0
    for (t, a, b) in rnd.sample(zc.trans, min(2, len(zc.trans))):
        lo, hi = (t + a, t + b) if b > a else (t + b, t + a)       # affected local interval [lo, hi)
        tods = {(x % 86400) * NS_S + e for x, e in ((lo, 0), (hi, 0), ((lo + hi) // 2, 0), (hi - 60, 0), (lo - 60, 0),
                                                     (lo, 1), (hi, -1) if False else (hi - 1, 999_999_999))}
        for tod in sorted(tods):
            for sk in SKIPPED:
                for rp in REPEATED:
                    if (b > a and rp != 'earlier' and rnd.random() < 0.7) or (b < a and sk != 'after' and rnd.random() < 0.7):
                        continue        # the policy of the other direction does not matter for this change
                    pid += 1
                    case.specs[pid] = ('time', tod % NS_DAY, sk, rp, None)
                    for ref in (t - 30 * 3600, t - 3 * 3600, t - 1, t, t + abs(b - a) // 2, t + 3 * 3600):
                        case.meta['probes'].append((pid, ref * NS_S))
    return case


def make_strict_sweep_case(zone: str, seed: int) -> ProdCase:
    """C04 sweep: one zone, two of its clock changes, a bare time-of-day trigger whose wall clock time lies inside / at
    the edges of the affected interval, all 4 x 4 policies, reference instants on a 10-minute grid from before the
    change to after the affected interval has passed (and 1 ns around the change itself): wherever a wall clock
    comparison and a comparison of instants disagree"""
    rnd = random.Random(seed)
    zc = ZoneCtx(zone)
    case = ProdCase(zone, 0)
    case.meta = {'refs': [], 'steps': 0, 'probes': [], 'budget_s': 60.0}
    if not zc.trans:
        case.specs[1] = ('time', 12 * NS_HOUR, 'after', 'earlier', None)
        case.meta['probes'] = [(1, 1_700_000_000 * NS_S)]
        return case
    pid = 0
    for (t, a, b) in rnd.sample(zc.trans, min(2, len(zc.trans))):
        lo, hi = (t + a, t + b) if b > a else (t + b, t + a)       # affected local interval [lo, hi)
        width = hi - lo
        tods = {(x % 86400) * NS_S for x in (lo, (lo + hi) // 2, hi - 60)}
        refs = [t - width - 1800 + k * 600 for k in range((2 * width + 3600) // 600 + 1)]
        refs_ns = sorted({r * NS_S for r in refs} | {t * NS_S - 1, t * NS_S, t * NS_S + 1})
        for tod in sorted(tods):
            for sk in SKIPPED:
                for rp in REPEATED:
                    pid += 1
                    case.specs[pid] = ('time', tod % NS_DAY, sk, rp, None)
                    for ref in refs_ns:
                        case.meta['probes'].append((pid, ref))
    return case


def make_bound_sweep_case(zone: str, seed: int) -> ProdCase:
    """C13 sweep: one zone, one forward and one backward clock change, an earliest / latest bound whose wall clock time
    lies at the start / inside / at the end of the affected interval, every policy of the matching direction, a dense
    underlying trigger, reference instants around the change"""
    rnd = random.Random(seed)
    zc = ZoneCtx(zone)
    case = ProdCase(zone, 0)
    case.meta = {'refs': [], 'steps': 0, 'probes': [], 'budget_s': 30.0}
    fwd = [x for x in zc.trans if x[2] > x[1]]
    back = [x for x in zc.trans if x[2] < x[1]]
    if not fwd and not back:
        case.specs[1] = ('earliest', 12 * NS_HOUR, 'after', 'earlier', None, ('interval', 1_700_000_000 * NS_S, NS_HOUR, None))
        case.meta['probes'] = [(1, 1_700_000_000 * NS_S)]
        return case
    pid = 0
    for group in (fwd, back):
        if not group:
            continue
        t, a, b = rnd.choice(group)
        lo, hi = (t + a, t + b) if b > a else (t + b, t + a)
        step = rnd.choice([5, 10, 15]) * NS_MIN
        base = ('interval', (t - 2 * 86400) * NS_S + rnd.choice([0, 1, 7]) * NS_MIN, step, None)
        for x in ((lo + hi) // 2, lo, lo + (hi - lo) // 3, hi - 1):
            tod = (x % 86400) * NS_S
            for pol in (SKIPPED if b > a else REPEATED):
                sk, rp = (pol, rnd.choice(REPEATED)) if b > a else (rnd.choice(SKIPPED), pol)
                for k in ('earliest', 'latest'):
                    pid += 1
                    case.specs[pid] = (k, tod, sk, rp, None, base)
                    for ref in (t - 3 * 3600, t - abs(b - a) - 60, t - 1, t + 60, t + abs(b - a) // 2, t + abs(b - a) + 300):
                        case.meta['probes'].append((pid, ref * NS_S))
    return case


class ProdProp:
    component = 'prod'
    assumptions = [
        'the OS time zone database is an input: model and code are compared on the transition tables of /usr/share/zoneinfo (1990-2040)',
        'whenever 0.7.3 zone arithmetic is modelled (PEP 495 resolution), validated by this run',
        'random.uniform is replaced by a scripted deterministic source; theorems quantify over all draw functions',
    ]

    def __init__(self, pid: str, theorems: list[str]) -> None:
        self.pid = pid
        self.module = f'EaModel.Properties.{pid}'
        self.theorems = theorems

    # per property oracle on one query: returns a violation description or None
    def oracle(self, case: ProdCase, pid: int, dt: int, res: str) -> str | None:
        from oracle_prod import check_least
        spec = case.specs[pid]
        if self.pid == 'C04':
            if res.startswith('ok') and int(res.split()[1]) <= dt:
                return f'get_next({dt}) returned {res.split()[1]} which is not strictly later (trigger {prod_sx(spec)[:120]})'
            return None
        if self.pid == 'C16':
            ok_err = {'err InfiniteLoopDetectedError', 'err LocationNotSetError', 'err HolidaysNotSetUpError'}
            if res.startswith('ok') or res in ok_err:
                return None
            return (f'get_next({dt}) of {prod_sx(spec)[:160]} in zone {case.tz} ended with {res!r}: not an instant and not '
                    f'InfiniteLoopDetectedError within the work budget')
        if self.pid == 'C13':
            from oracle_ops import check_op
            return check_op(case, pid, dt, res)
        if self.pid in ('C05', 'C06'):
            if not well_formed(case.tz):
                return None
            kinds = prod_kinds(spec)
            if kinds <= {'time', 'interval', 'group'}:
                m = check_least(case.tz, spec, dt, res, case.anchor.get(pid))
                return None if m is None else f'{m} [zone {case.tz}, trigger {prod_sx(spec)[:160]}]'
        return None

    def case_oracle(self, case: ProdCase) -> list[tuple[str, str | None, dict]]:
        """oracles over a whole chain of queries -> (description, known-finding id, replay object)"""
        out: list[tuple[str, str | None, dict]] = []
        if self.pid != 'C14':
            return out
        from oracle_ops import attribute_chain
        for pid, spec in case.specs.items():
            if spec[0] not in ('offset', 'jitter') or spec[2 if spec[0] == 'offset' else 3] is not None:
                continue
            if not prod_kinds(spec[3] if spec[0] == 'offset' else spec[4]) <= {'time', 'interval', 'group'}:
                continue
            # the chains: consecutive queries where each reference instant is the previous result
            chain: list[int] = []
            chains: list[list[int]] = []
            prev = None
            for (p2, dt), res in zip(case.queries, case.impl):
                if p2 != pid or not res.startswith('ok'):
                    continue
                v = int(res.split()[1])
                if prev is not None and dt == prev:
                    chain.append(v)
                else:
                    if len(chain) > 1:
                        chains.append(chain)
                    chain = [v]
                prev = v
            if len(chain) > 1:
                chains.append(chain)
            for ch in chains:
                att = attribute_chain(case, pid, ch)
                if not att:
                    continue
                seen: dict[int, int] = {}
                for r, n in att:
                    if n in seen:
                        sig = 'F5' if spec[0] == 'jitter' and spec[1] < 0 else None
                        single = ProdCase(case.tz, case.seed)
                        single.specs = {pid: spec}
                        first = case.anchor.get(pid)
                        single.queries = ([(pid, first)] if first is not None and has_unanchored(spec) else []) + \
                            [(pid, seen[n] - 1), (pid, seen[n])]
                        out.append((f'occurrence {n} of the underlying trigger fired twice: at {seen[n]} and at {r} '
                                    f'[zone {case.tz}, {prod_sx(spec)[:160]}]', sig, single.to_json()))
                        break
                    seen[n] = r
        return out

    def known_signature(self, case: ProdCase, pid: int, dt: int, res: str, msg: str) -> str | None:
        spec = case.specs[pid]
        if self.pid == 'C13' and has_inexact_amount(spec) and 'F15:1ns' in msg:
            return 'F15'
        if self.pid == 'C16' and res in ('err DIVERGED', 'err ValueError', 'err OverflowError') and _has_filtered_interval(spec):
            return 'F7a'
        return None

    def check_case(self, run: Run, case: ProdCase) -> None:
        run.evaluations += len(case.queries)
        run_idx: list[int] = []
        # the model's answers first: a failure counts as a KNOWN finding only when the model (which encodes the recorded
        # defect, see the negation theorems) predicts exactly the same answers for this case
        if case.meta.get('oracle_only'):
            mdefs, mres, agrees = {}, [], False
        else:
            try:
                mdefs, mres = model_answers(case)
            except subprocess.TimeoutExpired:
                # the model itself needs minutes for this case (nested bounded searches that find nothing): not judged
                run.stats['model_too_slow'] = run.stats.get('model_too_slow', 0) + 1
                return
            inexact = self.pid == 'C13' and any(has_inexact_amount(sp) for sp in case.specs.values())
            agrees = len(mres) == len(case.impl) and all(self.same(a, b, inexact) for a, b in zip(case.impl, mres))
        run.stats['inconclusive_watchdog'] = run.stats.get('inconclusive_watchdog', 0) + case.meta.get('inconclusive', 0)
        for (pid, dt), res in zip(case.queries, case.impl):
            run.nontrivial.add((case.tz, prod_sx(case.specs[pid]), dt))
            st = run.stats
            key = 'res_' + (res.split()[1] if res.startswith('err') else 'ok')
            st[key] = st.get(key, 0) + 1
            pre = getattr(case, 'oracle_msgs', None)
            msg = pre[len(run_idx)] if pre is not None else self.oracle(case, pid, dt, res)
            run_idx.append(1)
            if msg:
                single = ProdCase(case.tz, case.seed)
                single.specs = {pid: case.specs[pid]}
                # keep the anchoring first query of this producer
                single.queries = ([(pid, case.anchor[pid])] if case.anchor.get(pid, dt) != dt and has_unanchored(case.specs[pid]) else []) + [(pid, dt)]
                run.findings.append(Finding('oracle', msg, single.to_json(),
                                            self.known_signature(case, pid, dt, res, msg) if agrees else None))
        cm = getattr(case, 'case_msgs', None)
        for msg, sig, rep in (cm if cm is not None else self.case_oracle(case)):
            run.findings.append(Finding('oracle', msg, rep, sig if agrees else None))
        for sp in case.specs.values():
            for k in prod_kinds(sp):
                run.stats['kind_' + k] = run.stats.get('kind_' + k, 0) + 1
            run.stats['depth_max'] = max(run.stats.get('depth_max', 0), prod_depth(sp))
        zs = run.stats.setdefault('zones', [])
        if case.tz not in zs:
            zs.append(case.tz)
        run.sample({'zone': case.tz, 'trigger': prod_sx(next(iter(case.specs.values())))[:200],
                    'queries': [(dt, r) for (_, dt), r in list(zip(case.queries, case.impl))[:4]]})
        if case.meta.get('oracle_only'):
            run.stats['oracle_only_cases'] = run.stats.get('oracle_only_cases', 0) + 1
            return
        run.traces_validated += 1
        regs = list(getattr(case, 'regular', []))
        narrow = bool(regs) and regs.pop(0) == 'narrow yes'
        for r in regs:
            if r == 'regular ok':
                run.stats['hyp_TimeRegular_by_theorem' if narrow else 'hyp_TimeRegular_by_evaluation_only'] = \
                    run.stats.get('hyp_TimeRegular_by_theorem' if narrow else 'hyp_TimeRegular_by_evaluation_only', 0) + 1
            elif narrow:
                # the theorem says this cannot happen: the driver's evaluation contradicts `timeRegular_of_narrowB`
                run.findings.append(Finding('correspondence', f'[zone {case.tz}] narrow table but TimeRegular evaluation failed: {r}',
                                            {**case.to_json(), 'broken': 'model self-consistency narrow/regular'}))
            key = 'hyp_TimeRegular_' + ('ok' if r == 'regular ok' else 'fail')
            run.stats[key] = run.stats.get(key, 0) + 1
            if r != 'regular ok':
                run.stats.setdefault('hyp_TimeRegular_fail_zones', [])
                if case.tz not in run.stats['hyp_TimeRegular_fail_zones']:
                    run.stats['hyp_TimeRegular_fail_zones'].append(case.tz)
        for pid in case.specs:
            if (case.defs[pid] == 'ok') != (mdefs[pid] == 'ok'):
                run.findings.append(Finding('correspondence', f'definition of {prod_sx(case.specs[pid])[:150]}: code {case.defs[pid]} / model {mdefs[pid]}',
                                            {**case.to_json(), 'broken': 'correspondence prod/define'}))
        for i, ((pid, dt), a, b) in enumerate(zip(case.queries, case.impl, mres)):
            if not self.same(a, b, self.pid == 'C13' and has_inexact_amount(case.specs[pid])):
                if a == 'err DIVERGED' and self.pid != 'C16':
                    # the short watchdog of triggers that contain a filtered interval cut off a search the model finishes:
                    # ask again, alone, with a long budget, before calling it a difference
                    a2 = self.confirm_diverged(case, pid, i)
                    if a2 is not None and self.same(a2, b, self.pid == 'C13' and has_inexact_amount(case.specs[pid])):
                        run.stats['diverged_confirmed_slow'] = run.stats.get('diverged_confirmed_slow', 0) + 1
                        continue
                    if a2 is None or a2 == 'err DIVERGED':
                        # still no answer within the long budget (nested groups over dense triggers under filters that
                        # pass a few days of the month take minutes on the real code): a timeout is never a verdict.
                        # Whether the search ends at all is C16's subject and is judged there.
                        run.stats['inconclusive_no_answer_in_budget'] = run.stats.get('inconclusive_no_answer_in_budget', 0) + 1
                        break
                run.findings.append(Finding(
                    'correspondence',
                    f'producer model and code differ in zone {case.tz} for get_next({dt}) of {prod_sx(case.specs[pid])[:200]}: code {a} / model {b}',
                    {**case.to_json(), 'broken': 'correspondence prod/' + self.pid, 'query': i}))
                break

    def confirm_diverged(self, case: ProdCase, pid: int, qi: int) -> str | None:
        """replay the queries of trigger `pid` up to query `qi` on a fresh object with a 60 s budget per query"""
        from prod_impl import ProdImpl
        impl = ProdImpl(case.tz, case.seed, budget_s=60.0)
        try:
            if impl.define(pid, case.specs[pid]) != 'ok':
                return None
            impl.risky[pid] = False
            r = None
            for (p2, dt2) in case.queries[:qi + 1]:
                if p2 == pid:
                    r = impl.next(pid, dt2)
            return r
        except BaseException:  # noqa: BLE001
            return None
        finally:
            impl.close()

    def same(self, a: str, b: str, one_ns: bool = False) -> bool:
        if one_ns and a.startswith('ok') and b.startswith('ok') and abs(int(a.split()[1]) - int(b.split()[1])) <= 1:
            return True          # known finding F15: float seconds are truncated to nanoseconds
        # an interval whose filter admits no grid point never returns (known finding F7a): the real code spins
        # until the watchdog fires or until the instant leaves whenever's range (ValueError/OverflowError);
        # the model reports DIVERGED when its fuel is used up
        nores = {'err DIVERGED', 'err ValueError', 'err OverflowError'}
        if a in nores and b == 'err DIVERGED':
            return True
        # a search that leaves whenever's range (years beyond 9999: ValueError / OverflowError) and a search that uses up
        # the loop bound of the model (unbounded integers) both found no occurrence
        if a in ('err ValueError', 'err OverflowError') and b == 'err InfiniteLoopDetectedError':
            return True
        # the short watchdog of producers that contain a filtered interval may also cut off a slow but
        # bounded search that ends in InfiniteLoopDetectedError: inconclusive, not a difference
        if a == 'err DIVERGED' and b == 'err InfiniteLoopDetectedError':
            return True
        # the exported zone tables end with 2037 (the 64-bit data of the zone files; later years are a POSIX rule the
        # model does not have): an answer of the code beyond that horizon cannot be judged by the model
        if a.startswith('ok') and int(a.split()[1]) > 2_140_000_000 * NS_S and a != b:
            return True
        return a == b

    def cases(self, run: Run):
        n = {'quick': 60, 'thorough': 3000}[run.tier]
        if self.pid == 'C16':
            n = {'quick': 20, 'thorough': 600}[run.tier]
        base = run.seed * 1_000_003 + int(self.pid[1:]) * 7919
        if self.pid == 'C06':
            from tz import SHAPE_ZONES, zones
            nz = len(zones()) if run.tier == 'thorough' else len(SHAPE_ZONES)
            for i in range(nz):
                yield -(1 + i + (run.seed % 1000) * 1000)      # sweep cases: negative seeds select the zone
        if self.pid in ('C13', 'C04'):
            from tz import SHAPE_ZONES, zones
            nz = len(zones()) if run.tier == 'thorough' else len(SHAPE_ZONES)
            for i in range(nz):
                yield -(1 + i + (run.seed % 1000) * 1000)
        for i in range(n):
            yield base + i

    def build(self, seed: int, tier: str) -> ProdCase:
        if self.pid == 'C06' and seed < 0:
            from tz import SHAPE_ZONES, zones
            zl = zones() if tier == 'thorough' else SHAPE_ZONES
            case = make_sweep_case(zl[((-seed - 1) % 1000) % len(zl)], -seed)
        elif self.pid == 'C04' and seed < 0:
            from tz import SHAPE_ZONES, zones
            zl = zones() if tier == 'thorough' else SHAPE_ZONES
            case = make_strict_sweep_case(zl[((-seed - 1) % 1000) % len(zl)], -seed)
        elif self.pid == 'C13' and seed < 0:
            from tz import SHAPE_ZONES, zones
            zl = zones() if tier == 'thorough' else SHAPE_ZONES
            case = make_bound_sweep_case(zl[((-seed - 1) % 1000) % len(zl)], -seed)
        else:
            case = make_case(self.pid, seed, tier)
        chain = chain_plan(case.meta['refs'], case.meta['steps'])

        def plan(ask, c: ProdCase) -> None:
            for pid, dt in c.meta.get('probes', []):
                ask(pid, dt)
            if c.meta.get('steps'):
                chain(ask, c)
            for dt in c.meta.get('grid', []):
                for pid in c.specs:
                    r = ask(pid, dt)
                    if not r.startswith('ok'):
                        break
        run_case_impl(case, plan)
        return case

    def run_T(self, run: Run) -> None:
        run.rule = ('seeded trigger expressions (time of day with every DST policy, interval, group, offset, earliest, latest, '
                    'jitter, filters) in zones covering every clock-change shape, queried in chains from reference instants around '
                    'clock changes and exactly on / 1 ns before / 1 ns after occurrences; every (zone, expression, reference instant) '
                    'is one case; distinct = distinct triple')
        cdir = CORPUS / 'prod'
        if cdir.is_dir():
            for f in sorted(cdir.glob('*.json')):
                d = json.loads(f.read_text())
                if d.get('only') and self.pid not in d['only']:
                    continue
                self.replay(run, d)
        seeds = list(self.cases(run))
        workers = min(16 if run.tier == 'thorough' else 8, os.cpu_count() or 4)
        with ProcessPoolExecutor(max_workers=workers) as ex:
            for case in ex.map(_build_worker, [(self.pid, s, run.tier) for s in seeds], chunksize=2):
                self.check_case(run, case)
            if self.pid == 'C16':
                # interval amounts at and below the resolution of the library (1 ns): rejected or searched in bounded time
                for x, built, res in ex.submit(_tiny_interval_probe).result():
                    run.evaluations += 1
                    if res == 'err DIVERGED':
                        run.findings.append(Finding(
                            'oracle', f'interval({x!r} s) is accepted ({built}) and get_next does not return within 5 s',
                            {'component': 'prod', 'tiny_interval': x}))

    def replay(self, run: Run, obj: dict) -> None:
        if 'tiny_interval' in obj:
            for x, built, res in _tiny_interval_probe():
                if res == 'err DIVERGED':
                    run.findings.append(Finding(
                        'oracle', f'interval({x!r} s) is accepted ({built}) and get_next does not return within 5 s',
                        {'component': 'prod', 'tiny_interval': x}))
            return
        case = ProdCase(obj['tz'], obj['seed'])
        case.specs = {int(k): spec_from_json(v) for k, v in obj['specs'].items()}
        case.queries = [tuple(q) for q in obj['queries']]
        replay_case_impl(case)
        self.check_case(run, case)


def _tiny_interval_probe():
    """interval triggers whose amount is a float at / below one nanosecond, built through the public builder"""
    import signal
    from tz import set_tz
    set_tz('UTC')
    from common import use_repo_sources
    use_repo_sources()
    from eascheduler.builder import TriggerBuilder
    from vclock import instant_of_ns

    class _Div(BaseException):
        pass

    def _alarm(*_a):
        raise _Div()
    out = []
    for x in (1e-10, 4e-10, 5e-10, 1e-9, 2.5e-9):
        try:
            trig = TriggerBuilder.interval(None, x)
        except Exception as e:  # noqa: BLE001
            out.append((x, f'rejected {type(e).__name__}', ''))
            continue
        old = signal.signal(signal.SIGALRM, _alarm)
        signal.setitimer(signal.ITIMER_REAL, 5.0)
        try:
            r = trig._producer.get_next(instant_of_ns(1_700_000_000 * NS_S))
            res = 'ok'
        except _Div:
            res = 'err DIVERGED'
        except Exception as e:  # noqa: BLE001
            res = f'err {type(e).__name__}'
        finally:
            signal.setitimer(signal.ITIMER_REAL, 0)
            signal.signal(signal.SIGALRM, old)
        out.append((x, 'built', res))
    return out


def _build_worker(args):
    pid, seed, tier = args
    from registry import PROPS
    prop = PROPS[pid]
    case = prop.build(seed, tier)
    # the oracles run in the worker too (they enumerate occurrence lists with zoneinfo / the underlying trigger)
    case.oracle_msgs = [prop.oracle(case, p, dt, res) for (p, dt), res in zip(case.queries, case.impl)]
    case.case_msgs = prop.case_oracle(case)
    case.__dict__.pop('_occ_cache', None)
    return case
