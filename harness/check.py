#!/venv/bin/python
"""vcheck <property> <quick|thorough> [--replay file]"""
from __future__ import annotations

import json
import os
import sys
import time
from pathlib import Path

sys.path.insert(0, str(Path(__file__).resolve().parent))

from common import lake_build, seed_from_env  # noqa: E402
from framework import Run, audit, finish, grep_forbidden, leanchecker  # noqa: E402
from registry import PROPS  # noqa: E402


def main() -> int:
    args = [a for a in sys.argv[1:] if not a.startswith('--')]
    pid = args[0]
    tier = args[1] if len(args) > 1 else os.environ.get('VERIF_TIER', 'quick')
    replay = None
    if '--replay' in sys.argv:
        replay = sys.argv[sys.argv.index('--replay') + 1]
    prop = PROPS[pid]
    run = Run(pid, tier, seed_from_env())
    # 0. constants and tables regenerated from the imported source
    import extract
    extract.write_generated()
    if extract.FALLBACKS:
        run.notes.append('constants not found in the source text any more (value of the model used, behaviour still compared): '
                         + ', '.join(extract.FALLBACKS))
    # 1. P: proof obligations
    ok, log = lake_build(['eadriver'])
    if not ok:
        print(log[-2000:])
        print(f'VIOLATION property={pid} replay=/dev/null no-failing-input-found')
        print('  the model driver does not build')
        return 1
    aud = audit(pid, prop.module, prop.theorems)
    forbidden = grep_forbidden()
    if tier == 'thorough' and aud['built']:
        okc, logc = leanchecker(prop.module)
        run.notes.append('leanchecker: ' + ('ok' if okc else 'FAILED ' + logc[-300:]))
        if not okc:
            aud['built'] = False
            aud['log'] = logc
    # 2./3. K + T (+ S inside)
    try:
        if replay:
            obj = json.loads(Path(replay).read_text())
            prop.replay(run, obj.get('replay', obj))
        else:
            prop.run_T(run)
    except KeyboardInterrupt:
        raise
    except BaseException as e:  # noqa: BLE001
        # a watchdog that fired outside a guarded call (the real code does not return): a finding, not a crash
        from framework import Finding
        run.findings.append(Finding('correspondence', f'the run on the real code was aborted: {type(e).__name__}: {e}',
                                    {'broken': 'adapter', 'error': f'{type(e).__name__}: {e}'}))
    return finish(run, aud, forbidden, prop)


if __name__ == '__main__':
    sys.exit(main())
