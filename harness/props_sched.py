"""Scheduler-component properties: C01, C02, C07, C08, C09, C10."""
from __future__ import annotations

import json
import os
import random
import time
from concurrent.futures import ProcessPoolExecutor

from common import CORPUS, run_model
from framework import Finding, Run
from gen_sched import SchedCase, gen_sched_case
from trace import Group, first_diff, group_blocks


def _impl_groups(case: SchedCase) -> list[Group]:
    os.environ['TZ'] = case.tz
    time.tzset()
    from sched_impl import SchedImpl
    blocks = SchedImpl(case.executor, case.epoch_ns, case.specs, case.seed, case.tz).run(case.lines)
    return group_blocks(case.lines, blocks)


def _impl_worker(args):
    seed, kw = args
    case = gen_sched_case(seed, **kw)
    try:
        return seed, _impl_groups(case), None
    except BaseException as e:  # noqa: BLE001
        return seed, None, f'{type(e).__name__}: {e}'


def case_to_json(case: SchedCase) -> dict:
    return {'component': 'sched', 'seed': case.seed, 'executor': case.executor, 'epoch_ns': case.epoch_ns, 'tz': case.tz,
            'lines': case.lines, 'specs': {str(k): v for k, v in case.specs.items()},
            **({'meta': case.meta} if case.meta.get('scenario') == 'reentrant' else {})}


def _tuplify(x):
    if isinstance(x, list):
        return tuple(_tuplify(y) for y in x) if not (x and isinstance(x[0], list) and False) else x
    return x


def _spec_from_json(x):
    """JSON lists -> the tuple/list structure of build.py (lists stay lists where build.py expects lists)"""
    if isinstance(x, list):
        if x and isinstance(x[0], str):
            return tuple(_spec_from_json(y) for y in x)
        return [_spec_from_json(y) for y in x]
    return x


def case_from_json(d: dict) -> SchedCase:
    specs = {int(k): _spec_from_json(v) for k, v in d.get('specs', {}).items()}
    return SchedCase(d['seed'], d['executor'], d['epoch_ns'], list(d['lines']), specs, dict(d.get('meta', {})), d.get('tz', 'UTC'))


# ----------------------------------------------------------------------------------------------- projections
def proj(pid: str):
    def jobs_of(g: Group):
        return tuple(sorted(g.state['jobs'].items()))

    def ret(g: Group):
        return g.ret if g.ret == 'ok' else 'err'
    def last_of(g: Group):
        return tuple(sorted(g.state.get('last', {}).items()))
    if pid in ('C01', 'C03'):
        return lambda g: (tuple(sorted(g.execs)), jobs_of(g), g.now, last_of(g))
    if pid == 'C02':
        return lambda g: (ret(g), tuple(sorted(g.execs)), jobs_of(g))
    if pid == 'C07':
        return lambda g: (ret(g), tuple(sorted(g.cbs)), jobs_of(g), tuple(g.state['store']), last_of(g))
    if pid == 'C08':
        return lambda g: (tuple(sorted(g.execs)), jobs_of(g))
    if pid == 'C09':
        return lambda g: (tuple(g.execs),)
    if pid == 'C10':
        return lambda g: (ret(g), tuple(sorted(g.excs)), tuple(g.fatal), tuple(sorted(g.execs)), jobs_of(g))
    raise KeyError(pid)


GEN_KW = {
    'C01': {},
    'C03': {'focus': 'C03'},
    'C02': {'focus': 'C02'},
    'C07': {'focus': 'C07'},
    'C08': {'focus': 'C08', 'kinds': ('once', 'countdown', 'countdown', 'countdown', 'at')},
    'C09': {'focus': 'C09', 'max_jobs': 9},
    'C10': {'focus': 'C10'},
}


def strip_failures(case: SchedCase) -> SchedCase:
    """the same history with no failing callable and no failing callback (trigger failures stay: they change
    the schedule by design - the job is paused - so they are part of the history)"""
    lines = []
    for ln in case.lines:
        if ln.startswith('op cbfails'):
            ln = 'op cbfails 999999'
        elif ln.startswith('op create'):
            t = ln.split()
            t[-2] = '-'
            ln = ' '.join(t)
        lines.append(ln)
    return SchedCase(case.seed, case.executor, case.epoch_ns, lines, case.specs, case.meta, case.tz)


def recurring_oracle(case: SchedCase, groups: list[Group]) -> list[str]:
    """C03: an undisturbed recurring job is executed exactly once at every occurrence of its trigger after its creation /
    last resume, and after every execution the reported next run is the next occurrence. The occurrence list is
    enumerated independently (zoneinfo, PEP 495), see oracle_prod.occurrences."""
    from build import prod_kinds, prod_sx
    from oracle_prod import occurrences
    from tz import well_formed
    out: list[str] = []
    if not well_formed(case.tz):
        return out
    start: dict[int, int | None] = {}       # job -> instant from which it is undisturbed (creation / last resume)
    anchor: dict[int, int] = {}
    seen: dict[int, list[int]] = {}
    prev_now = case.epoch_ns
    for gi, g in enumerate(groups):
        t = g.ops[0].split()
        if t[0] == 'create' and g.ret == 'ok':
            h = int(t[1])
            start[h] = prev_now
            anchor[h] = prev_now
            seen[h] = []
        elif t[0] == 'pause' and g.ret == 'ok':
            start[int(t[1])] = None
        elif t[0] == 'resume' and g.ret == 'ok':
            start[int(t[1])] = prev_now
            seen[int(t[1])] = []
        for (h, at) in g.execs:
            if h in seen:
                seen[h].append(at)
        if t[0] in ('sleep', 'sleepl'):
            late = int(t[2]) if t[0] == 'sleepl' else 0
            for h, s0 in start.items():
                spec = case.specs.get(h)
                if s0 is None or spec is None or not prod_kinds(spec) <= {'time', 'interval', 'group'}:
                    continue
                want = occurrences(case.tz, spec, s0, g.now, anchor[h])
                if want is None:
                    continue
                got = [x for x in seen[h] if x > s0]
                # a wake-up that is `late` ns late starts the job at most that much after the occurrence; occurrences
                # that fall between an occurrence and the (late) start of its run are over when the job is rescheduled
                ok, i = True, 0
                for x in got:
                    if i >= len(want) or not (want[i] <= x <= want[i] + late):
                        ok = False
                        break
                    i += 1
                    while late and i < len(want) and want[i] <= x:
                        i += 1
                if not ok or i != len(want):
                    miss = [w for w in want if not any(w <= x <= w + late for x in got)][:3]
                    extra = [x for x in got if not any(w <= x <= w + late for w in want)][:3]
                    out.append(f'group {gi}: job {h} ({prod_sx(spec)[:120]}, zone {case.tz}) executed at {len(got)} instants, its trigger has '
                               f'{len(want)} occurrences in ({s0}, {g.now}]: missing {miss}, unexpected {extra}')
                    return out
                st = g.state['jobs'].get(h)
                if st and st[0] == 'running':
                    nxt = occurrences(case.tz, spec, g.now, g.now + 40 * 86400 * 10**9, anchor[h])
                    if nxt and str(st[1]).lstrip('-').isdigit() and int(st[1]) != nxt[0]:
                        out.append(f'group {gi}: job {h} reports next run {st[1]} but the next occurrence of its trigger after '
                                   f'{g.now} is {nxt[0]} (zone {case.tz}, {prod_sx(spec)[:120]})')
                        return out
        prev_now = g.now
    return out


def reentrant_oracle(case: SchedCase, groups: list[Group]) -> list[str]:
    """C09 for the re-entrant scenario: among the jobs started in one wake-up (same instant, same operation group) a job
    never runs before another one with an earlier run time that already existed when it was started"""
    dues = {int(k): v for k, v in case.meta['dues'].items()}
    spawned = {int(k): v for k, v in case.meta['spawned'].items()}
    out = []
    for gi, g in enumerate(groups):
        started: list[int] = []
        for i, (h1, a1) in enumerate(g.execs):
            for (h2, a2) in g.execs[i + 1:]:
                if a1 != a2 or h1 not in dues or h2 not in dues:
                    continue
                existed = h2 not in spawned or spawned[h2] in started
                if existed and dues[h1] > dues[h2]:
                    out.append(f'group {gi}: at {a1} job {h1} (due {dues[h1]}) ran before job {h2} (due {dues[h2]}), '
                               f'which was waiting in the same wake-up')
            started.append(h1)
    want = set(dues)
    got = {h for g in groups for h, _ in g.execs}
    if want - got:
        out.append(f'jobs {sorted(want - got)} were never executed although their run time has passed')
    return out


def reentrant_model_order(case: SchedCase) -> list[int]:
    """the order `Reentrant.lean` predicts for the wake-up of a re-entrant case"""
    m = case.meta
    (hx, spawner), = m['spawned'].items()
    line = f"reent {m['now']} {spawner} {hx} {m['dues'][str(hx)]} " + ' '.join(f"{h} {m['dues'][str(h)]}" for h in m['created'])
    blocks = run_model([line])
    return [int(x.split()[1]) for x in blocks[0] if x.startswith('exec')]


class SchedProp:
    component = 'sched'
    assumptions = [
        'virtual clock: a loop timer fires when the clock reaches it (no real-time drift, no float rounding of deadlines)',
        'operations are issued from application code, not re-entrantly from synchronous callables/callbacks',
        'asyncio task start order is FIFO (AsyncExecutor on ParallelTaskManager)',
    ]

    def __init__(self, pid: str, theorems: list[str]) -> None:
        self.pid = pid
        self.module = f'EaModel.Properties.{pid}'
        self.theorems = theorems

    # -------------------------------------------------------------------------------------------
    def oracle(self, case: SchedCase, groups: list[Group]) -> list[str]:
        from oracle_sched import exc_oracle, sched_oracle
        if self.pid == 'C03':
            return recurring_oracle(case, groups)
        found = sched_oracle(groups, case.executor)
        out = [m for p, m in found if p == self.pid]
        if self.pid == 'C10':
            # "a failure while a job's next run is being computed must not cause that job to be executed again for
            # the same due time": duplicate executions in histories with failing triggers
            if any(ln.startswith('op create') and ln.split()[-1] != '-' for ln in case.lines):
                out += [m for p, m in found if p == 'C02' and 'for the run time' in m]
            out += [m for p, m in exc_oracle(case.lines, groups) if p == 'C10']
            out += self.isolation_oracle(case, groups)
        return out

    def isolation_oracle(self, case: SchedCase, groups: list[Group]) -> list[str]:
        """C10: apart from the handler reports, the history with failing callables/callbacks behaves exactly
        like the same history without those failures"""
        clean = _impl_groups(strip_failures(case))
        out = []
        for i, (a, b) in enumerate(zip(groups, clean)):
            if a.fatal:
                out.append(f'group {i}: exception escaped: {a.fatal}')
            ka = (a.ret == 'ok', sorted(a.execs), a.state['jobs'], a.state['store'], sorted(a.cbs))
            kb = (b.ret == 'ok', sorted(b.execs), b.state['jobs'], b.state['store'], sorted(b.cbs))
            if ka != kb:
                out.append(f'group {i} {a.ops}: a failing callable/callback changed the behaviour: '
                           f'with failures {ka} / without {kb}')
                break
        return out

    # -------------------------------------------------------------------------------------------
    def check_case(self, run: Run, case: SchedCase, impl: list[Group] | None = None, *, model: bool = True) -> None:
        if impl is None:
            impl = _impl_groups(case)
        run.evaluations += 1
        nexec = sum(len(g.execs) for g in impl)
        sig = (tuple(g.ops[0].split()[0] for g in impl), nexec, sum(len(g.cbs) for g in impl))
        if nexec >= 1 and len(impl) >= 4:
            run.nontrivial.add(hash(sig))
        run.sample({'executor': case.executor, 'lines': case.lines[:12] + (['...'] if len(case.lines) > 12 else []),
                     'execs': [g.execs for g in impl if g.execs][:6]})
        for k in ('groups', 'execs', 'cbs', 'excs', 'err_rets'):
            run.stats.setdefault(k, 0)
        run.stats['groups'] += len(impl)
        run.stats['execs'] += nexec
        run.stats['cbs'] += sum(len(g.cbs) for g in impl)
        run.stats['excs'] += sum(len(g.excs) for g in impl)
        run.stats['err_rets'] += sum(1 for g in impl if g.ret != 'ok')
        for msg in self.oracle(case, impl):
            run.findings.append(Finding('oracle', msg, case_to_json(case)))
        if model:
            # `op!` (no loop iteration since the previous operation) is an ordinary operation of the model
            blocks = run_model(case.header() + [('op ' + ln[4:]) if ln.startswith('op! ') else ln for ln in case.lines])[3:]
            mod = group_blocks(case.lines, blocks)
            d = first_diff(impl, mod, key=proj(self.pid))
            run.traces_validated += 1
            if d is not None:
                a, b = impl[d], mod[d]
                run.findings.append(Finding(
                    'correspondence',
                    f'scheduler model and code differ (projection {self.pid}) at group {d} {a.ops}: '
                    f'code {proj(self.pid)(a)} / model {proj(self.pid)(b)}',
                    {**case_to_json(case), 'broken': 'correspondence sched/' + self.pid, 'group': d}))

    def crashed(self, run: Run, case: SchedCase, err: str) -> None:
        """the real scheduler did not get through the history"""
        if err.startswith('TooSlow'):
            run.stats['too_slow'] = run.stats.get('too_slow', 0) + 1        # inconclusive: not judged
            return
        run.stats['crashes'] = run.stats.get('crashes', 0) + 1
        if err.startswith('Runaway') or 'does not return' in err:
            # a failing input for every scheduler property: the operation does not complete and a job is executed over
            # and over for one announced run time
            run.findings.append(Finding('oracle', 'the real scheduler does not get through the history: ' + err, case_to_json(case)))
        else:
            run.findings.append(Finding('correspondence', f'adapter crashed on the real code: {err}',
                                        {**case_to_json(case), 'broken': 'adapter'}))

    def run_T(self, run: Run) -> None:
        n = {'quick': 400, 'thorough': 16000}[run.tier]
        if self.pid == 'C03':
            n = {'quick': 40, 'thorough': 3000}[run.tier]
        run.rule = ('seeded random scheduler histories (creations of once/countdown/at jobs with interval, group, '
                    'offset and jitter triggers, control operations, callback (de)registration, enable/disable, '
                    'sleep / blocked-loop advances on a 250 ms grid, injected failures); a case is non-trivial when '
                    'it has >= 4 operation groups and >= 1 execution; distinct = distinct (op kinds, #exec, #cb) signature')
        # corpus first
        cdir = CORPUS / 'sched'
        if cdir.is_dir():
            for f in sorted(cdir.glob('*.json')):
                ccase = case_from_json(json.loads(f.read_text()))
                try:
                    self.check_case(run, ccase)
                except KeyboardInterrupt:
                    raise
                except BaseException as e:  # noqa: BLE001
                    self.crashed(run, ccase, f'{type(e).__name__}: {e}')
        kw = GEN_KW[self.pid]
        base = run.seed * 1_000_003 + int(self.pid[1:]) * 7919
        seeds = [base + i for i in range(n)]
        if run.tier == 'thorough':
            with ProcessPoolExecutor(max_workers=min(16, os.cpu_count() or 4)) as ex:
                for seed, groups, err in ex.map(_impl_worker, [(s, kw) for s in seeds], chunksize=50):
                    case = gen_sched_case(seed, **kw)
                    if err:
                        self.crashed(run, case, err)
                        if run.stats.get('crashes', 0) >= 6:
                            break
                        continue
                    self.check_case(run, case, groups)
        else:
            for seed in seeds:
                case = gen_sched_case(seed, **kw)
                try:
                    impl = _impl_groups(case)
                except BaseException as e:  # noqa: BLE001
                    if isinstance(e, KeyboardInterrupt):
                        raise
                    self.crashed(run, case, f'{type(e).__name__}: {e}')
                    if run.stats.get('crashes', 0) >= 6:
                        break           # every further case would spend its whole watchdog budget as well
                    continue
                self.check_case(run, case, impl)
        if self.pid == 'C09':
            # directed, oracle only: a synchronous callable creates a job that is due at once in the middle of a wake-up
            from gen_sched import gen_reentrant_case
            import random as _random
            for i in range({'quick': 40, 'thorough': 1500}[run.tier]):
                seed = base + 20_000_000 + i
                case = gen_reentrant_case(seed, _random.Random(seed))
                try:
                    impl = _impl_groups(case)
                except BaseException as e:  # noqa: BLE001
                    if isinstance(e, KeyboardInterrupt):
                        raise
                    self.crashed(run, case, f'{type(e).__name__}: {e}')
                    break
                run.evaluations += 1
                run.stats['reentrant_cases'] = run.stats.get('reentrant_cases', 0) + 1
                for msg in reentrant_oracle(case, impl):
                    run.findings.append(Finding('oracle', msg, case_to_json(case)))
                got = [h for g in impl for h, _ in g.execs]
                want = reentrant_model_order(case)
                run.traces_validated += 1
                if got != want:
                    run.findings.append(Finding('correspondence', f're-entrant wake-up: the code started the jobs in the order {got}, '
                                                                  f'the model (Reentrant.lean) in the order {want}',
                                                {**case_to_json(case), 'broken': 'correspondence sched/reentrant'}))
        # S: a broken correspondence without a failing input -> search harder on the real code alone
        if any(f.kind == 'correspondence' for f in run.findings) and not any(f.kind == 'oracle' for f in run.findings):
            extra = [base + 10_000_000 + i for i in range(n * 2)]
            crashes = 0
            for seed in extra:
                case = gen_sched_case(seed, **kw)
                try:
                    self.check_case(run, case, model=False)
                except BaseException as e:  # noqa: BLE001
                    if isinstance(e, KeyboardInterrupt):
                        raise
                    if type(e).__name__ == 'Runaway':
                        self.crashed(run, case, f'Runaway: {e}')
                    crashes += 1
                    if crashes >= 4:
                        break
                    continue
                if any(f.kind == 'oracle' for f in run.findings):
                    break
        self.shrink(run)

    def shrink(self, run: Run) -> None:
        """delta-debug the first failing input (remove operations while the oracle still fails)"""
        for f in run.findings:
            if f.kind != 'oracle' or f.replay.get('meta', {}).get('scenario') == 'reentrant':
                continue
            case = case_from_json(f.replay)
            lines = list(case.lines)

            kind0 = ' '.join(f.desc.split(':', 1)[-1].split()[:3])

            def fails(ls):
                c = SchedCase(case.seed, case.executor, case.epoch_ns, ls, case.specs, {}, case.tz)
                try:
                    return any(kind0 in m for m in self.oracle(c, _impl_groups(c)))
                except BaseException:  # noqa: BLE001
                    return False
            chunk = max(1, len(lines) // 2)
            budget = 150
            t0 = time.time()
            while chunk >= 1 and budget > 0 and time.time() - t0 < 120:
                i = 0
                while i < len(lines) and budget > 0 and time.time() - t0 < 120:
                    cand = lines[:i] + lines[i + chunk:]
                    budget -= 1
                    if cand and fails(cand):
                        lines = cand
                    else:
                        i += chunk
                chunk //= 2
            c = SchedCase(case.seed, case.executor, case.epoch_ns, lines, case.specs, {}, case.tz)
            f.replay = {**case_to_json(c), 'shrunk_from': len(case.lines)}
            msgs = self.oracle(c, _impl_groups(c))
            if msgs:
                f.desc = msgs[0]
            break

    def replay(self, run: Run, obj: dict) -> None:
        case = case_from_json(obj)
        try:
            if case.meta.get('scenario') == 'reentrant':
                run.evaluations += 1
                impl = _impl_groups(case)
                for msg in reentrant_oracle(case, impl):
                    run.findings.append(Finding('oracle', msg, case_to_json(case)))
                got, want = [h for g in impl for h, _ in g.execs], reentrant_model_order(case)
                if got != want:
                    run.findings.append(Finding('correspondence', f're-entrant wake-up: code order {got}, model order {want}',
                                                {**case_to_json(case), 'broken': 'correspondence sched/reentrant'}))
                return
            self.check_case(run, case)
        except KeyboardInterrupt:
            raise
        except BaseException as e:  # noqa: BLE001
            self.crashed(run, case, f'{type(e).__name__}: {e}')
