"""C15: triggers and filters are pure values; builders have no side effects."""
from __future__ import annotations

import json
import os
import random
from concurrent.futures import ProcessPoolExecutor

from build import build_filter, build_trigger, filt_sx, prod_sx, tod_time
from common import CORPUS, NS_DAY, NS_HOUR, NS_MIN, NS_S, ScriptedUniform, make_exact, run_model, use_repo_sources
from framework import Finding, Run
from gen_prod import REPEATED, SKIPPED, ZoneCtx, gen_producer, gen_tod, pick_zone, ref_instants
from gen_sched import gen_filter
from oracle_ops import anchor_spec
from tz import set_tz, zone_line

use_repo_sources()


class Slow(BaseException):
    pass


def _alarm(*_a):
    raise Slow()


def q(p, dt: int) -> str:
    import signal
    from vclock import instant_of_ns, ns_of_instant
    old = signal.signal(signal.SIGALRM, _alarm)
    signal.setitimer(signal.ITIMER_REAL, 1.5)
    try:
        return f'ok {ns_of_instant(p.get_next(instant_of_ns(dt)))}'
    except Exception as e:  # noqa: BLE001
        return f'err {type(e).__name__}'
    finally:
        signal.setitimer(signal.ITIMER_REAL, 0)
        signal.signal(signal.SIGALRM, old)


def pure_case(args):
    try:
        return _pure_case(args)
    except Slow:
        # an expensive (unsatisfiable) search: not a purity question, skipped
        return {'seed': args[0], 'tz': 'UTC', 'dseed': 0, 'problems': [], 'model': [], 'n': 0, 'skipped_slow': True}


def _pure_case(args):
    seed, tier = args
    rnd = random.Random(seed)
    from whenever import TimeDelta
    from eascheduler.builder import FilterBuilder as F, TriggerBuilder as T
    from eascheduler.builder.triggers import _get_producer
    import eascheduler.producers.prod_operation as po
    from vclock import ns_of_instant
    zc = pick_zone(rnd, tier)
    set_tz(zc.name)
    dseed = rnd.randint(0, 9999)
    old_uniform = po.uniform
    po.uniform = ScriptedUniform(dseed, ns_of_instant)
    out = {'seed': seed, 'tz': zc.name, 'dseed': dseed, 'problems': [], 'model': [], 'n': 0}
    try:
        refs = ref_instants(rnd, zc, 4)
        spec = gen_producer(rnd, zc, refs[0], rnd.randint(1, 3), filters=0.3)
        out['spec'] = spec
        t0 = build_trigger(spec)
        dts = sorted(set(refs + [refs[0] + k * rnd.choice([NS_HOUR, 7 * NS_HOUR, NS_DAY]) for k in range(1, 4)]))
        first = dts[0]
        a0 = {dt: q(t0._producer, dt) for dt in dts}            # first query anchors an interval without start
        if not all(r.startswith('ok') for r in a0.values()):
            return out
        anchored = anchor_spec(spec, first)
        out['model'].append((anchored, [(dt, a0[dt]) for dt in dts]))

        def check(label: str) -> None:
            order = dts[:]
            rnd.shuffle(order)
            for dt in order:
                out['n'] += 1
                r = q(t0._producer, dt)
                if r != a0[dt]:
                    out['problems'].append(f'{label}: get_next({dt}) of the ORIGINAL trigger changed from {a0[dt]} to {r} '
                                           f'[zone {zc.name}, {prod_sx(spec)[:150]}]')
                    return
        # ---- repeated / interleaved queries
        check('after repeating the queries in another order')
        # ---- deriving new triggers from the object
        derived = []
        off = make_exact(rnd.choice([-1, 1]) * rnd.choice([NS_S, 10 * NS_MIN, 5 * NS_HOUR]))
        derived.append(('offset', t0.offset(TimeDelta(nanoseconds=off)), ('offset', off, None, anchored)))
        tod = gen_tod(rnd, zc)
        sk, rp = rnd.choice(SKIPPED), rnd.choice(REPEATED)
        derived.append(('earliest', t0.earliest(tod_time(tod), clock_forward=sk, clock_backward=rp),
                        ('earliest', tod, sk, rp, None, anchored)))
        derived.append(('latest', t0.latest(tod_time(tod), clock_forward=sk, clock_backward=rp),
                        ('latest', tod, sk, rp, None, anchored)))
        lo = make_exact(rnd.choice([0, 10 * NS_S, -10 * NS_MIN]))
        hi = lo + make_exact(rnd.choice([NS_S, 10 * NS_MIN]))
        derived.append(('jitter', t0.jitter(TimeDelta(nanoseconds=lo), TimeDelta(nanoseconds=hi)), ('jitter', lo, hi, None, anchored)))
        other = gen_producer(rnd, zc, refs[0], 1, filters=0.0)
        other_t = build_trigger(other)
        derived.append(('group', T.group(t0, other_t), ('group', None, [anchored, other])))
        if spec[{'time': 4, 'interval': 3, 'group': 1, 'offset': 2, 'earliest': 4, 'latest': 4, 'jitter': 3, 'sun': 2}[spec[0]]] is None:
            f = gen_filter(rnd)
            fo = build_filter(f)
            derived.append(('only_on', t0.only_on(fo), with_filter(anchored, f)))
        for name, t, dspec in derived:
            answers = [(dt, q(t._producer, dt)) for dt in dts[:4]]
            if name != 'group' or not has_none_interval(other):
                out['model'].append((anchor_spec(dspec, dts[0]), answers))
            check(f'after deriving and querying a trigger with {name}()')
        # ---- copies, and jobs built from the same trigger object, do not influence one another
        c1 = _get_producer(t0)
        r1 = [(dt, q(c1, dt)) for dt in dts]
        if [r for _, r in r1] != [a0[dt] for dt in dts]:
            out['problems'].append(f'a copy of the trigger answers {r1[:3]} but the original {[(d, a0[d]) for d in dts[:3]]} '
                                   f'[zone {zc.name}, {prod_sx(spec)[:150]}]')
        check('after querying a copy')
        # two copies of a FRESH (never queried) trigger, first queried at different instants: each is anchored by its own
        # first query (what two jobs built from one trigger object at different times do)
        fresh = build_trigger(spec)
        derived_fresh = fresh.offset(TimeDelta(nanoseconds=off))
        for base_t, mk in ((fresh, lambda s: s), (derived_fresh, lambda s: ('offset', off, None, s))):
            j1, j2 = _get_producer(base_t), _get_producer(base_t)
            dta, dtb = dts[1], dts[2]
            ra = [(dta, q(j1, dta)), (dtb, q(j1, dtb))]
            rb = [(dtb, q(j2, dtb)), (dts[3], q(j2, dts[3]))]
            out['model'].append((anchor_spec(mk(spec), dta), ra))
            out['model'].append((anchor_spec(mk(spec), dtb), rb))
            # the second job must behave like a job built from an identical, completely separate trigger object
            sep = build_trigger(spec)
            if base_t is derived_fresh:
                sep = sep.offset(TimeDelta(nanoseconds=off))
            j3 = _get_producer(sep)
            rc = [(dtb, q(j3, dtb)), (dts[3], q(j3, dts[3]))]
            out['n'] += 2
            if rc != rb:
                out['problems'].append(f'two jobs built from one trigger object influence one another: the second job answers {rb}, a job '
                                       f'built from an identical separate trigger answers {rc} [zone {zc.name}, {prod_sx(mk(spec))[:150]}]')
        # ---- filters: deriving a filter leaves the one it was derived from unchanged
        fa, fb, fc = gen_filter(rnd), gen_filter(rnd), gen_filter(rnd)
        for kind in ('any', 'all'):
            base_f = getattr(F, kind)(build_filter(fa), build_filter(fb))
            pts = [refs[0] + k * 3 * NS_HOUR for k in range(24)]
            from vclock import instant_of_ns
            before = [base_f._filter.allow(instant_of_ns(u).to_system_tz()) for u in pts]
            _d1 = getattr(F, kind)(base_f, build_filter(fc))
            _d2 = F.not_(base_f)
            _d3 = getattr(F, 'all' if kind == 'any' else 'any')(base_f, build_filter(fc))
            _t = build_trigger(('interval', refs[0], NS_HOUR, None)).only_on(base_f)
            after = [base_f._filter.allow(instant_of_ns(u).to_system_tz()) for u in pts]
            out['n'] += len(pts)
            if before != after:
                i = next(i for i, (x, y) in enumerate(zip(before, after)) if x != y)
                out['problems'].append(f'deriving filters from {kind}({filt_sx(fa)}, {filt_sx(fb)}) changed what it accepts at {pts[i]}: '
                                       f'{before[i]} -> {after[i]} [zone {zc.name}]')
    finally:
        po.uniform = old_uniform
    return out


def has_none_interval(p) -> bool:
    from props_prod import has_unanchored
    return has_unanchored(p)


def with_filter(p, f):
    k = p[0]
    idx = {'time': 4, 'interval': 3, 'group': 1, 'offset': 2, 'earliest': 4, 'latest': 4, 'jitter': 3, 'sun': 2}[k]
    return tuple(f if i == idx else x for i, x in enumerate(p))


class PureProp:
    component = 'pure'
    pid = 'C15'
    module = 'EaModel.Properties.C15'
    assumptions = ['jitter is evaluated with a fixed (scripted) random source',
                   'an interval trigger without start is defined from its first query on (it anchors its grid)',
                   'sun triggers: the cache is judged by re-configuring the location (same coordinates, other observer elevation) and '
                   'comparing with a fresh computation; the astronomy itself is the subject of C18']

    def __init__(self, theorems: list[str]) -> None:
        self.theorems = theorems

    def run_T(self, run: Run) -> None:
        n = {'quick': 120, 'thorough': 5000}[run.tier]
        run.rule = ('one trigger object per case: queried, re-queried in another order, derived from with offset / earliest / latest / '
                    'jitter / group / only_on, copied, used for two jobs; one filter object derived from with any / all / not_; '
                    'distinct = distinct (zone, expression)')
        base = run.seed * 1_000_003 + 15 * 7919
        with ProcessPoolExecutor(max_workers=min(8 if run.tier == 'quick' else 16, os.cpu_count() or 4)) as ex:
            for c in ex.map(pure_case, [(base + i, run.tier) for i in range(n)], chunksize=4):
                self.check_case(run, c)
            # sun triggers: the answer depends on the configured location, not on what was queried / configured before
            from props_sun import sun_case
            k = {'quick': 16, 'thorough': 400}[run.tier]
            for c in ex.map(sun_case, [(base + 5_000_000 + i, 'quick') for i in range(k)], chunksize=2):
                self.check_sun(run, c)

    def check_sun(self, run: Run, c: dict) -> None:
        run.evaluations += len(c['relocate'])
        for q, a, b in c['relocate']:
            if a != b:
                run.findings.append(Finding(
                    'oracle', f"[zone {c['tz']} lat {c['lat']:.3f} lon {c['lon']:.3f} sun kind {c['kind']}] after set_location(...) was "
                    f'called again (another observer elevation, then another place) get_next({q}) returns {a}, a fresh computation for the configured '
                    f'location gives {b}: the answer depends on earlier queries',
                    {'component': 'sun', 'seed': c['seed'], 'lat': c['lat'], 'lon': c['lon'], 'kind': c['kind'],
                     'start': c['queries'][0], 'tz': c['tz'], 'relocate': True}))

    def check_case(self, run: Run, c: dict) -> None:
        run.evaluations += c['n']
        if c.get('skipped_slow'):
            run.stats['skipped_slow'] = run.stats.get('skipped_slow', 0) + 1
        if 'spec' in c:
            run.nontrivial.add((c['tz'], prod_sx(c['spec'])))
        for msg in c['problems']:
            run.findings.append(Finding('oracle', msg, {'component': 'pure', 'seed': c['seed']}))
        # every recorded answer is also what the pure model computes for the (anchored) definition
        for spec, answers in c['model']:
            lines = [zone_line(c['tz']), f'seed {c["dseed"]}', f'prod 1 {prod_sx(spec)}'] + [f'next 1 {dt}' for dt, _ in answers]
            try:
                mod = [b[0] if b else '' for b in run_model(lines)[3:]]
            except Exception as e:  # noqa: BLE001
                continue
            run.traces_validated += 1
            for (dt, a), b in zip(answers, mod):
                nores = {'err DIVERGED', 'err ValueError', 'err OverflowError'}
                # beyond the horizon of the exported zone tables (end of 2037) the model cannot judge an answer; a search
                # that leaves whenever's range (ValueError) and one that uses up the loop bound both found nothing
                beyond = (a.startswith('ok') and int(a.split()[1]) > 2_140_000_000 * NS_S) or \
                         (b.startswith('ok') and int(b.split()[1]) > 2_140_000_000 * NS_S) or dt > 2_110_000_000 * NS_S
                nothing = a in nores and b in ('err DIVERGED', 'err InfiniteLoopDetectedError')
                if a != b and not nothing and not beyond:
                    run.findings.append(Finding('correspondence', f'[zone {c["tz"]}] object answer differs from the pure model for '
                                                                  f'{prod_sx(spec)[:160]} at {dt}: code {a} / model {b}',
                                                {'component': 'pure', 'seed': c['seed'], 'broken': 'correspondence pure'}))
                    break
        if 'spec' in c:
            run.sample({'zone': c['tz'], 'trigger': prod_sx(c['spec'])[:160], 'checked_answers': c['n']})

    def replay(self, run: Run, obj: dict) -> None:
        if obj.get('relocate'):
            from props_sun import sun_case
            self.check_sun(run, sun_case(({k: obj[k] for k in ('seed', 'lat', 'lon', 'kind', 'start')}, 'quick')))
            return
        self.check_case(run, pure_case((obj['seed'], run.tier)))
