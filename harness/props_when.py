"""C19: every accepted way to say "when" resolves to the instant it denotes."""
from __future__ import annotations

import datetime as dtm
import json
import random

from common import CORPUS, NS_DAY, NS_HOUR, NS_MIN, NS_MS, NS_S, NS_US, run_model, use_repo_sources
from framework import Finding, Run
from oracle_prod import local_of, resolve as o_resolve, zi
from tz import SHAPE_ZONES, set_tz, transitions, zone_line, zones

use_repo_sources()


def tod_parts(t: int):
    s, ns = divmod(t, NS_S)
    h, rem = divmod(s, 3600)
    m, sec = divmod(rem, 60)
    return h, m, sec, ns


def oracle_tod(tz: str, now: int, t: int):
    """the next instant >= now at which the local wall clock shows time of day t (zoneinfo, PEP 495);
    also reports whether t is skipped / repeated today or tomorrow"""
    loc, _ = local_of(tz, now)
    us, rem = divmod(t, NS_US)
    cands = []
    ambiguous = False
    for k in range(0, 3):
        d = loc.date() + dtm.timedelta(days=k)
        naive = dtm.datetime(d.year, d.month, d.day) + dtm.timedelta(microseconds=us)
        r = o_resolve(tz, naive)
        if r[0] == 'unique':
            cands.append(r[1] + rem)
        else:
            if k <= 1:
                ambiguous = True
            if r[0] == 'fold':
                cands += [r[1] + rem, r[2] + rem]
    later = [c for c in cands if c >= now]
    return (min(later) if later else None), ambiguous


class WhenProp:
    component = 'when'
    pid = 'C19'
    module = 'EaModel.Properties.C19'
    assumptions = ['the clock is patched (whenever._patch_time_frozen) and the system zone switched per case',
                   'zone database as input (see C05); whenever arithmetic modelled']

    def __init__(self, theorems: list[str]) -> None:
        self.theorems = theorems

    def known(self, tzname: str, now: int, kind: str, val: int, res: str) -> str | None:
        if kind == 'tod' and res in ('err SkippedTime', 'err RepeatedTime'):
            _, amb = oracle_tod(tzname, now, val)
            if amb:
                return 'F3b'
        return None

    def run_T(self, run: Run) -> None:
        import whenever
        from whenever import Instant, SystemDateTime, Time, TimeDelta
        from eascheduler.builder.helper import get_instant, get_pos_timedelta_secs
        from vclock import instant_of_ns, ns_of_instant
        rnd = random.Random(run.seed * 1_000_003 + 19)
        n = {'quick': 1500, 'thorough': 40000}[run.tier]
        zs = SHAPE_ZONES if run.tier == 'quick' else zones()
        run.rule = ('(zone, current instant on the eve of / on the day of a clock change or anywhere, argument) with every accepted '
                    'argument type (None, int, float, timedelta, TimeDelta, ISO duration, time / Time / time string, naive and aware '
                    'datetime, SystemDateTime, Instant) incl. boundary durations and past instants; distinct = distinct triple')
        corpus = []
        cdir = CORPUS / 'when'
        if cdir.is_dir():
            for f in sorted(cdir.glob('*.json')):
                corpus.append(json.loads(f.read_text()))
        cases = [(c['tz'], c['now'], c['kind'], c['val'], c.get('form', 0)) for c in corpus]
        for _ in range(n):
            tzname = rnd.choice(zs)
            tr = transitions(tzname, 946_684_800, 2_145_916_800)
            tr = [x for x in tr if abs(x[2] - x[1]) <= 7200]
            if tr and rnd.random() < 0.7:
                t, a, b = rnd.choice(tr)
                now = (t + rnd.choice([-30, -26, -20, -12, -3, -1, 0, 1, 5]) * 3600 + rnd.randint(-1800, 1800)) * NS_S
                lo, hi = (t + a, t + b) if b > a else (t + b, t + a)
                tods = [(x % 86400) * NS_S for x in (lo, hi, (lo + hi) // 2, lo - 3600, hi + 3600, hi - 1)]
            else:
                now = rnd.randrange(946_684_800, 2_145_916_800) * NS_S
                tods = []
            now += rnd.choice([0, 0, 500 * NS_MS, 1])
            if not tods:
                t = a = b = 0
            kind = rnd.choice(['now', 'after', 'after', 'tod', 'tod', 'tod', 'naive', 'aware', 'postd', 'postd'])
            form = rnd.randrange(4)
            if kind == 'after':
                val = rnd.choice([0, 1, -1, 2]) * rnd.choice([NS_S, 90 * NS_MIN, 36 * NS_HOUR, 125 * NS_MS])
            elif kind == 'tod':
                val = rnd.choice(tods + [rnd.randrange(86400) * NS_S, (local_tod(tzname, now) // NS_S) * NS_S,
                                         rnd.randrange(86400) * NS_S + 250 * NS_MS])
            elif kind == 'naive':
                loc, _ = local_of(tzname, now + rnd.randint(-40, 40) * NS_HOUR)
                val = ((loc - dtm.datetime(1970, 1, 1)) // dtm.timedelta(microseconds=1)) * NS_US
                if tods and rnd.random() < 0.5:
                    val = (val // NS_DAY) * NS_DAY + rnd.choice(tods)
            elif kind == 'aware':
                val = now + rnd.randint(-100, 100) * NS_HOUR
                if tods and rnd.random() < 0.6:
                    # inside / around the repeated or skipped hour: first pass, second pass, edges
                    g = abs(b - a)
                    val = (t + rnd.choice([-g, -g // 2, -1, 0, 1, g // 2, g - 1, g])) * NS_S
            elif kind == 'postd':
                # 0.1 / 0.4: durations below the resolution of the library (1 ns): zero, hence not positive
                val = rnd.choice([0, -NS_S, NS_S, 1_000, 125 * NS_MS, -125 * NS_MS, 3600 * NS_S, 0.1, 0.4])
            else:
                val = 0
            cases.append((tzname, now, kind, val, form))
        lines_by_zone: dict[str, list] = {}
        pending: dict = {}
        for tzname, now, kind, val, form in cases:
            set_tz(tzname)
            whenever._patch_time_frozen(instant_of_ns(now))
            try:
                try:
                    if kind == 'postd':
                        if isinstance(val, float):
                            arg = val / 1e9
                        else:
                            arg = [TimeDelta(nanoseconds=val), dtm.timedelta(microseconds=val // 1000), val / 1e9, val / 1e9][form]
                            if form == 1 and val % 1000:
                                arg = TimeDelta(nanoseconds=val)
                        r = get_pos_timedelta_secs(arg)
                        res = f'ok {round(r * 1e9)}'
                    else:
                        if kind == 'now':
                            arg = None
                        elif kind == 'after':
                            s = val / 1e9
                            iso = ('-' if val < 0 else '') + f'PT{abs(val) // NS_S}.{abs(val) % NS_S:09d}S'
                            arg = [TimeDelta(nanoseconds=val), dtm.timedelta(microseconds=val // 1000), s, iso][form]
                            if form == 2 and val % NS_S == 0 and rnd.random() < 0.5:
                                arg = val // NS_S          # int
                        elif kind == 'tod':
                            h, m, sec, ns = tod_parts(val)
                            arg = [Time(h, m, sec, nanosecond=ns), dtm.time(h, m, sec, ns // 1000), f'{h:02d}:{m:02d}:{sec:02d}',
                                   Time(h, m, sec, nanosecond=ns)][form]
                            if form in (1, 2):
                                val = (val // NS_US) * NS_US if form == 1 else (val // NS_S) * NS_S
                        elif kind == 'naive':
                            arg = dtm.datetime(1970, 1, 1) + dtm.timedelta(microseconds=val // 1000)
                        else:
                            inst = instant_of_ns(val)
                            arg = [inst, inst.to_system_tz(), inst.py_datetime(), inst.to_tz('Asia/Tokyo').py_datetime()][form]
                            if form >= 2:
                                val = (val // NS_US) * NS_US
                        res = f'ok {ns_of_instant(get_instant(arg))}'
                        if kind == 'after':
                            # the same argument as the optional `start` of an interval trigger (public API): the grid starts
                            # at the instant the argument denotes - also when the argument is a zero duration
                            from eascheduler.builder.triggers import TriggerBuilder
                            p = TriggerBuilder.interval(arg, 3600)._producer
                            r2 = ns_of_instant(p.get_next(instant_of_ns(now + val - 1)))
                            if r2 != now + val:
                                res = f'ok {r2} (as start of TriggerBuilder.interval; get_instant alone gave {res})'
                except Exception as e:  # noqa: BLE001
                    res = f'err {type(e).__name__}'
            finally:
                whenever._unpatch_time()
            run.evaluations += 1
            run.nontrivial.add((tzname, now, kind, val))
            st = run.stats
            st['kind_' + kind] = st.get('kind_' + kind, 0) + 1
            st['res_' + res.split()[0] + ('_' + res.split()[1] if res.startswith('err') else '')] = \
                st.get('res_' + res.split()[0] + ('_' + res.split()[1] if res.startswith('err') else ''), 0) + 1
            # ---- oracle
            msg = None
            if kind == 'now':
                msg = None if res == f'ok {now}' else f'None gave {res}, now is {now}'
            elif kind == 'after':
                msg = None if res == f'ok {now + val}' else f'duration {val} ns gave {res}, expected {now + val}'
            elif kind == 'aware':
                msg = None if res == f'ok {val}' else f'an aware datetime / SystemDateTime / Instant for {val} gave {res}'
            elif kind == 'postd':
                want = f'ok {val}' if int(val) > 0 else 'err ValueError'
                msg = None if res == want else f'duration {val} ns: get_pos_timedelta_secs gave {res}, expected {want}'
            elif kind == 'naive':
                naive = dtm.datetime(1970, 1, 1) + dtm.timedelta(microseconds=val // 1000)
                r = o_resolve(tzname, naive)
                ok = {'unique': [r[1]], 'fold': [r[1], r[2]] if len(r) > 2 else [], 'gap': [r[1], r[2]] if len(r) > 2 else []}[r[0]]
                if not (res.startswith('ok') and int(res.split()[1]) in ok):
                    msg = f'naive datetime {naive} (system-local) gave {res}, admissible {ok}'
            elif kind == 'tod':
                want, amb = oracle_tod(tzname, now, val)
                if not (res.startswith('ok') and want is not None and int(res.split()[1]) == want):
                    msg = (f'time of day {val} ns at now={now} in {tzname} gave {res}; the next instant at which the local clock '
                           f'shows that time is {want}')
            if msg:
                f = Finding('oracle', f'[zone {tzname}] {msg}',
                            {'component': 'when', 'tz': tzname, 'now': now, 'kind': kind, 'val': val, 'form': form},
                            self.known(tzname, now, kind, val, res))
                pending[(tzname, now, kind, val, form)] = f
                run.findings.append(f)
            mk = {'postd': f'postd {int(val)}'}.get(kind, f'getinstant {now} {kind} {val}')
            lines_by_zone.setdefault(tzname, []).append((mk, res, (tzname, now, kind, val, form)))
        for tzname, items in lines_by_zone.items():
            model = [b[0] if b else '' for b in run_model([zone_line(tzname)] + [m for m, _, _ in items])[1:]]
            run.traces_validated += 1
            for (m, res, key), b in zip(items, model):
                if res != b and key in pending:
                    pending[key].signature = None      # not the recorded finding: the model does not predict this answer
            for (m, res, key), b in zip(items, model):
                if res != b:
                    run.findings.append(Finding('correspondence', f'get_instant model and code differ in zone {tzname} for {m}: code {res} / model {b}',
                                                {'component': 'when', 'tz': key[0], 'now': key[1], 'kind': key[2], 'val': key[3],
                                                 'form': key[4], 'broken': 'correspondence when'},
                                                self.known(key[0], key[1], key[2], key[3], res) if False else None))
                    break
        run.sample({'cases': [(c, r) for c, r in [(k, res) for items in list(lines_by_zone.values())[:2] for (_, res, k) in items[:2]]]})

    def replay(self, run: Run, obj: dict) -> None:
        self.run_T(run)


def local_tod(tz: str, now: int) -> int:
    loc, rem = local_of(tz, now)
    return ((loc.hour * 60 + loc.minute) * 60 + loc.second) * NS_S + loc.microsecond * NS_US
