"""Independent oracles for the producer properties, built on zoneinfo (PEP 495 fold semantics) and datetime -
they never use whenever's zone arithmetic nor the Lean model."""
from __future__ import annotations

import datetime as dtm
from functools import lru_cache
from zoneinfo import ZoneInfo

from common import NS_DAY, NS_MIN, NS_S, NS_US

UTC = dtm.timezone.utc
EPOCH = dtm.datetime(1970, 1, 1, tzinfo=UTC)
EPOCH_NAIVE = dtm.datetime(1970, 1, 1)


@lru_cache(maxsize=64)
def zi(name: str) -> ZoneInfo:
    return ZoneInfo(name)


def to_utc_ns(aware: dtm.datetime) -> int:
    d = aware.astimezone(UTC) - EPOCH
    return (d.days * 86400 + d.seconds) * NS_S + d.microseconds * NS_US


def local_of(tz: str, u_ns: int) -> tuple[dtm.datetime, int]:
    """-> (naive local datetime with microseconds, nanosecond remainder below the microsecond)"""
    us, rem = divmod(u_ns, NS_US)
    aware = (EPOCH + dtm.timedelta(microseconds=us)).astimezone(zi(tz))
    return aware.replace(tzinfo=None), rem


def resolve(tz: str, naive: dtm.datetime):
    """PEP 495: ('unique', u) | ('gap', earlier, later) | ('fold', first, second); u in ns"""
    z = zi(tz)
    d0 = naive.replace(tzinfo=z, fold=0)
    d1 = naive.replace(tzinfo=z, fold=1)
    u0, u1 = to_utc_ns(d0), to_utc_ns(d1)
    ok0 = d0.astimezone(UTC).astimezone(z).replace(tzinfo=None) == naive
    ok1 = d1.astimezone(UTC).astimezone(z).replace(tzinfo=None) == naive
    if u0 == u1:
        return ('unique', u0)
    if ok0 and ok1:
        return ('fold', min(u0, u1), max(u0, u1))
    # skipped: fold=0 uses the offset before the change (lands after the gap), fold=1 the one after
    return ('gap', min(u0, u1), max(u0, u1))


def day_candidates(tz: str, date: dtm.date, tod_ns: int, skipped: str, repeated: str) -> list[int]:
    """instants at which a time-of-day trigger with the given DST policy fires for local date `date`"""
    us, rem = divmod(tod_ns, NS_US)
    naive = dtm.datetime(date.year, date.month, date.day) + dtm.timedelta(microseconds=us)
    r = resolve(tz, naive)
    if r[0] == 'unique':
        return [r[1] + rem]
    if r[0] == 'fold':
        return {'skip': [], 'earlier': [r[1] + rem], 'later': [r[2] + rem], 'twice': [r[1] + rem, r[2] + rem]}[repeated]
    if skipped == 'skip':
        return []
    if skipped == 'earlier':
        return [r[1] + rem]
    if skipped == 'later':
        return [r[2] + rem]
    # after: the first whole minute after the gap
    m = naive.replace(second=0, microsecond=0)
    for _ in range(121):
        m += dtm.timedelta(minutes=1)
        rr = resolve(tz, m)
        if rr[0] == 'unique':
            return [rr[1]]
        if rr[0] == 'fold':
            return [rr[1]]
    return []


def filt_allow(tz: str, f, u_ns: int, ext_days=None) -> bool:
    if f is None:
        return True
    loc, rem = local_of(tz, u_ns)
    return _fa(f, loc, rem, ext_days or {})


def _fa(f, loc: dtm.datetime, rem: int, ext) -> bool:
    k = f[0]
    if k == 'dow':
        return loc.isoweekday() in f[1]
    if k == 'dom':
        return loc.day in f[1]
    if k == 'moy':
        return loc.month in f[1]
    if k == 'time':
        tod = ((loc.hour * 60 + loc.minute) * 60 + loc.second) * NS_S + loc.microsecond * NS_US + rem
        if f[1] is not None and tod < f[1]:
            return False
        return not (f[2] is not None and tod >= f[2])
    if k == 'any':
        return any(_fa(x, loc, rem, ext) for x in f[1])
    if k == 'all':
        return all(_fa(x, loc, rem, ext) for x in f[1])
    if k == 'not':
        return not _fa(f[1], loc, rem, ext)
    if k == 'ext':
        return (loc.date().toordinal() - 719163) in ext.get(f[1], ())
    raise ValueError(f)


def occurrences(tz: str, spec, lo: int, hi: int, anchor_dt: int | None = None, limit: int = 200_000) -> list[int] | None:
    """admissible occurrences t of a time / interval / group trigger with lo < t <= hi (None: too many to enumerate)"""
    k = spec[0]
    if k == 'time':
        _, tod, sk, rp, f = spec
        d0 = local_of(tz, lo)[0].date() - dtm.timedelta(days=2)
        d1 = local_of(tz, hi)[0].date() + dtm.timedelta(days=2)
        if (d1 - d0).days > 1500:
            return None
        out = []
        d = d0
        while d <= d1:
            for c in day_candidates(tz, d, tod, sk, rp):
                if lo < c <= hi and filt_allow(tz, f, c):
                    out.append(c)
            d += dtm.timedelta(days=1)
        return sorted(set(out))
    if k == 'interval':
        _, start, step, f = spec
        if start is not None:
            a = start
        elif anchor_dt is not None:
            a = anchor_dt + NS_US       # an interval without start is anchored 1 µs after its first query
        else:
            return None
        k0 = (lo - a) // step + 1
        k1 = (hi - a) // step
        if k1 - k0 > limit:
            return None
        return [a + i * step for i in range(k0, k1 + 1) if filt_allow(tz, f, a + i * step)]
    if k == 'group':
        _, f, members = spec
        out = set()
        for m in members:
            o = occurrences(tz, m, lo, hi, anchor_dt, limit)
            if o is None:
                return None
            out.update(o)
        return sorted(t for t in out if filt_allow(tz, f, t))
    return None


def check_least(tz: str, spec, dt: int, result: str, anchor_dt: int | None, horizon_days: int = 500) -> str | None:
    """C05 / C06: `result` is the earliest admissible occurrence after dt. Returns a description of the violation."""
    if result.startswith('ok'):
        r = int(result.split()[1])
        if r <= dt:
            return f'result {r} is not after the reference instant {dt}'
        if r - dt > horizon_days * NS_DAY:
            occ = occurrences(tz, spec, dt, dt + horizon_days * NS_DAY, anchor_dt)
            if occ:
                return f'earlier admissible occurrence {occ[0]} skipped (returned {r})'
            return None
        occ = occurrences(tz, spec, dt, r, anchor_dt)
        if occ is None:
            return None
        if not occ or occ[-1] != r:
            return f'returned instant {r} is not an admissible occurrence of the trigger (reference {dt})'
        if occ[0] != r:
            return f'earlier admissible occurrence {occ[0]} skipped (returned {r}, reference {dt})'
        return None
    # an error is not a computed occurrence; only for a plain time-of-day trigger (search horizon 99 999 days)
    # does InfiniteLoopDetectedError contradict an admissible occurrence within the next 500 days
    if result == 'err InfiniteLoopDetectedError' and spec[0] == 'time':
        occ = occurrences(tz, spec, dt, dt + horizon_days * NS_DAY, anchor_dt)
        if occ:
            return f'InfiniteLoopDetectedError although {occ[0]} is an admissible occurrence (reference {dt})'
    return None
