"""property id -> check plugin (theorem lists live here)"""
from __future__ import annotations

from props_sched import SchedProp

PROPS = {}


def _reg(p):
    PROPS[p.pid] = p


_reg(SchedProp('C01', ['Ea.inv_reachable', 'Ea.step_inv', 'Ea.C01.queue_invariant', 'Ea.C01.never_early',
                       'Ea.step_good', 'Ea.runSpec', 'Ea.wakeSpec', 'Ea.C01.good_reachable', 'Ea.C01.timer_armed_for_head',
                       'Ea.C01.nothing_due_after_wakeup', 'Ea.C01.due_jobs_executed_in_wakeup',
                       'Ea.C01.due_jobs_executed_at_their_time', 'Ea.C01.due_jobs_executed_on_enable']))
_reg(SchedProp('C02', ['Ea.C02.only_running_queued_once', 'Ea.C02.not_running_not_queued', 'Ea.C02.duplicate_id_inert',
                       'Ea.C02.bad_argument_inert', 'Ea.C02.failed_creation_not_queued',
                       'Ea.step_quiet_notQueued', 'Ea.step_quiet_disabled', 'Ea.control_keep',
                       'Ea.C02.not_running_never_executed', 'Ea.C02.not_running_never_executed_history',
                       'Ea.C02.disabled_executes_nothing', 'Ea.C02.control_leaves_other_jobs',
                       'Ea.step_mono', 'Ea.C02.mono_reachable', 'Ea.C02.one_execution_per_announcement',
                       'Ea.C02.reported_run_time_is_new']))
_reg(SchedProp('C07', ['Ea.C07.status_next_run', 'Ea.C07.finished_terminal', 'Ea.C07.callbacks_once',
                       'Ea.C07.set_next_run_callbacks', 'Ea.step_frozen', 'Ea.C07.not_running_record_frozen',
                       'Ea.step_storeInv', 'Ea.C07.storeInv_reachable', 'Ea.C07.store_exact']))
_reg(SchedProp('C08', ['Ea.C08.reset_announces', 'Ea.C08.reset_accepted', 'Ea.C08.countdown_fire_pauses',
                       'Ea.C08.once_finishes', 'Ea.C08.queued_once', 'Ea.create_once_queued', 'Ea.reset_queued',
                       'Ea.sleepLoop_executes', 'Ea.C08.once_runs_at_its_instant',
                       'Ea.C08.countdown_runs_at_reset_plus_countdown', 'Ea.step_keepH', 'Ea.C08.queued_until_executed',
                       'Ea.C08.countdown_fires_unless_touched']))
_reg(SchedProp('C09', ['Ea.C09.queue_sorted', 'Ea.C09.paused_never_queued', 'Ea.C09.queue_nodup',
                       'Ea.C09.insort_keeps_sorted', 'Ea.dSpec', 'Ea.oSpec', 'Ea.sleepLoop_ordered',
                       'Ea.C09.executions_in_due_order', 'Ea.C09.reentrant_order', 'Ea.C09.reentrant_queue_sorted',
                       'Ea.Re.run_order']))
_reg(SchedProp('C10', ['Ea.C10.callbacks_only_log', 'Ea.C10.wakeup_keeps_invariant', 'Ea.C10.trigger_failure_no_reexec',
                       'Ea.step_clean', 'Ea.cSpec', 'Ea.C10.runOps_clean', 'Ea.C10.failures_have_no_other_effect',
                       'Ea.C10.clean_keeps', 'Ea.C01.due_jobs_executed_in_wakeup', 'Ea.C01.timer_armed_for_head',
                       'Ea.C09.executions_in_due_order']))

from props_prod import ProdProp  # noqa: E402

_reg(ProdProp('C04', ['Ea.C04.getNext_gt', 'Ea.C04.query_gt', 'Ea.C04.loop_bound_matches']))
_reg(ProdProp('C05', ['Ea.C05.getNext_least', 'Ea.C05.result_passes_filter', 'Ea.intervalNext_least', 'Ea.timeNext_least',
                      'Ea.groupNext_least', 'Ea.C05.timeRegular_fixed_offset', 'Ea.C05.time_least_fixed_offset',
                      'Ea.timeRegular_of_narrow', 'Ea.timeRegular_of_narrowB', 'Ea.C05.getNext_least_narrow',
                      'Ea.C05.dateline_zone_not_regular']))
_reg(ProdProp('C06', ['Ea.C06.replace_unique', 'Ea.C06.replace_gap_skip', 'Ea.C06.replace_gap_earlier_later',
                      'Ea.C06.replace_gap_after', 'Ea.C06.replace_fold', 'Ea.C06.time_once_per_day',
                      'Ea.C06.after_tries_matches', 'Ea.Zone.resolve_unique', 'Ea.Zone.resolve_fold', 'Ea.Zone.resolve_gap',
                      'Ea.C06.time_once_per_day_narrow', 'Ea.C06.days_in_order_narrow',
                      'Ea.Zone.resolve_total', "Ea.Zone.resolve_unique'", 'Ea.Zone.resolve_cases']))
_reg(ProdProp('C13', ['Ea.C13.op_result_from_inner', 'Ea.C13.offset_exact', 'Ea.C13.bound_is_candidate', 'Ea.C13.earliest_clamp',
                      'Ea.C13.latest_clamp', 'Ea.C13.earliest_latest_result', 'Ea.C13.jitter_window', 'Ea.C13.jitter_eps_matches',
                      'Ea.C13.op_tries_every_occurrence', 'Ea.C13.offset_first_in_chain']))
_reg(ProdProp('C14', ['Ea.C14.offset_chain_injective', 'Ea.C14.jitter_nonneg_attribution', 'Ea.C14.jitter_chain_nonneg',
                      'Ea.C14.C14_partial', 'Ea.C14.jitter_negative_double_fires']))
_reg(ProdProp('C16', ['Ea.C16.loop_iterations_bounded', 'Ea.C16.loopNC_fst', 'Ea.C16.interval_sat_returns',
                      'Ea.C16.interval_unsat_never_returns', 'Ea.C16.timeNext_outcomes', 'Ea.C16.C16_partial']))

from props_tm import TmProp  # noqa: E402

_reg(TmProp('C11', ['Ea.C11.reachable_inv', 'Ea.C11.at_most_one', 'Ea.C11.tstep_inv', 'Ea.C11.fifo', 'Ea.C11.dedup_newest', 'Ea.C11.submit_inv', 'Ea.C11.doneCb_inv',
                    'Ea.C11.nothing_lost_nothing_twice', 'Ea.C11.submissions_accounted', 'Ea.C11.dedup_keys_unique',
                    'Ea.C11.started_in_submission_order', 'Ea.C11.waiting_only_behind_a_running_task', 'Ea.C11.queue_bounded',
                    'Ea.C11.full_skip_drops_new', 'Ea.C11.full_skip_first_drops_oldest', 'Ea.C11.full_skip_last_drops_newest',
                    'Ea.cons_reachable', 'Ea.starts_reachable', 'Ea.seq_order_reachable', 'Ea.prog_reachable'], ['sequential', 'limseq', 'dedup']))
_reg(TmProp('C12', ['Ea.C12.bound', 'Ea.C12.skip_closes', 'Ea.C12.cancel_first_oldest', 'Ea.C12.cancel_last_newest', 'Ea.C12.slot_freed', 'Ea.C12.unbounded_starts_and_tracks',
                    'Ea.C12.victim_cancelled_before_replacement', 'Ea.C12.every_submission_accounted',
                    'Ea.C12.unbounded_tracks_exactly', 'Ea.C12.limiting_tracks_only_live', 'Ea.tracked_exact_reachable',
                    'Ea.tracked_live_reachable'], ['parallel', 'limpar']))

from props_filter import FilterProp  # noqa: E402

_reg(FilterProp(['Ea.C17.calendar_is_gregorian', 'Ea.civil_succ', 'Ea.days_of_civil', 'Ea.civil_of_days', 'Ea.C17.any_iff', 'Ea.C17.all_iff', 'Ea.C17.not_iff', 'Ea.C17.time_iff', 'Ea.C17.dow_iff', 'Ea.C17.dom_iff',
                 'Ea.C17.moy_iff', 'Ea.C17.filters_local', 'Ea.C17.wrapped_range_mem', 'Ea.C17.single_int_range',
                 'Ea.C17.empty_rejected', 'Ea.C17.day_names_table', 'Ea.C17.month_names_table', 'Ea.C17.name_tables_in_range']))

from props_when import WhenProp  # noqa: E402

_reg(WhenProp(['Ea.C19.instant_simple', 'Ea.C19.instant_naive', 'Ea.C19.instant_time',
               'Ea.C19.instant_time_raises_when_ambiguous_today', 'Ea.C19.reject_nonpositive', 'Ea.C19.reject_past',
               'Ea.C19.past_tolerance_matches']))

from props_dst import DstProp  # noqa: E402

_reg(DstProp(['Ea.C20.both_given_verbatim', 'Ea.C20.required_hour', 'Ea.C20.affected_hour_rejected',
              'Ea.C20.accepted_outside_reported_hours', 'Ea.C20.find_time_probes', 'Ea.C20.validity_sound', 'Ea.C20.scan_orders',
              'Ea.C20.accepted_safe_all_year', 'Ea.zEU70_year_regular', 'Ea.C20.accepted_safe_all_year_zEU70',
              'Ea.two_trans_validity', 'Ea.twoZone_year_regular', 'Ea.zUS21_year_regular', 'Ea.C20.accepted_safe_all_year_zUS21']))

from props_sun import SunProp  # noqa: E402

_reg(SunProp(['Ea.C18.ceilSec_spec', 'Ea.C18.sunFind_spec', 'Ea.C18.sunNextRaw_spec', 'Ea.C18.sun_result_is_event',
              'Ea.C18.no_location', 'Ea.C18.sun_same_date', 'Ea.C18.sun_midnight_fires_twice', 'Ea.C18.sun_tries_matches']))
_reg(SchedProp('C03', ['Ea.C03.reschedule_is_next_occurrence', 'Ea.C03.resume_keeps_announcement', 'Ea.C03.execution_records_last_run', 'Ea.C03.reschedule_is_next_occurrence_narrow', 'Ea.inv_reachable', 'Ea.C05.getNext_least', 'Ea.C04.getNext_gt', 'Ea.C01.never_early',
                       'Ea.rSpec', 'Ea.execute_recurring_ok', 'Ea.C03.recurring_round', 'Ea.C02.one_execution_per_announcement',
                       'Ea.sleepLate_ops']))

from props_pure import PureProp  # noqa: E402

_reg(PureProp(['Ea.C15.interval_anchor_irrelevant', 'Ea.C15.interval_result_on_grid', 'Ea.C15.anchor_idempotent',
               'Ea.C15.object_is_pure_after_first_query', 'Ea.C15.sun_cache_transparent', 'Ea.C15.cache_cleared_is_consistent',
               'Ea.C15.cache_sizes', 'Ea.C15.gridAfter_shift']))
